(* Extraction of the executable model.  ExtrOcamlBasic only; Z and positive
   stay the extracted Coq datatypes; no Extract Constant / Extract Inductive
   of our own. *)
From Coq Require Extraction.
From Coq Require Import ExtrOcamlBasic.
From CFDP Require Import Base Run.
Extraction Language OCaml.
Extraction "model.ml" run_lostseg run_checksum run_fs run_dest run_source run_system.
