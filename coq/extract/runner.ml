(* runner.ml — driver around the extracted model.
   stdin : one case per line:  KIND|i i i;i i;...      (ops separated by ';')
   stdout: one line per case:  i i i;i i;...            (observations)      *)
open Model

let rec pos_of_int n =
  if n = 1 then XH
  else if n land 1 = 0 then XO (pos_of_int (n lsr 1))
  else XI (pos_of_int (n lsr 1))
let z_of_int n =
  if n = 0 then Z0 else if n > 0 then Zpos (pos_of_int n) else Zneg (pos_of_int (-n))
let rec int_of_pos = function
  | XH -> 1 | XO p -> 2 * int_of_pos p | XI p -> 2 * int_of_pos p + 1
let int_of_z = function Z0 -> 0 | Zpos p -> int_of_pos p | Zneg p -> - (int_of_pos p)

let parse_ints s =
  String.split_on_char ' ' s |> List.filter (fun x -> x <> "")
  |> List.map (fun x -> z_of_int (int_of_string x))
let parse_ops s =
  if String.trim s = "" then []
  else String.split_on_char ';' s |> List.map parse_ints
let print_obs buf (o : z list) =
  List.iteri (fun i x -> if i > 0 then Buffer.add_char buf ' ';
                         Buffer.add_string buf (string_of_int (int_of_z x))) o
let print_all obs =
  let buf = Buffer.create 256 in
  List.iteri (fun i o -> if i > 0 then Buffer.add_char buf ';'; print_obs buf o) obs;
  print_string (Buffer.contents buf); print_newline ()

let dispatch kind : (z list list -> z list list) =
  match kind with
  | "lostseg" -> run_lostseg
  | "checksum" -> run_checksum
  | "fs" -> run_fs
  | "dest" -> run_dest
  | "source" -> run_source
  | "system" -> run_system
  | _ -> failwith ("unknown kind " ^ kind)

let () =
  try
    while true do
      let line = input_line stdin in
      match String.index_opt line '|' with
      | None -> print_string "ERR"; print_newline ()
      | Some i ->
        let kind = String.sub line 0 i in
        let rest = String.sub line (i + 1) (String.length line - i - 1) in
        print_all ((dispatch kind) (parse_ops rest))
    done
  with End_of_file -> ()
