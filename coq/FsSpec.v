(* FsSpec.v — vocabulary for the laws of the reference file-system model (C17). *)
From CFDP Require Import Base Fs.

(* all operations of the property, as one op language *)
Inductive fop :=
| FCreate (p : path) | FDelete (p : path) | FRename (o n : path) | FReplace (r s : path)
| FMkdir (p : path) | FRmdir (p : path) (recursive : bool) | FTruncate (p : path)
| FWrite (p : path) (d : bytes) (off : Z) | FRead (p : path) (off len : Z)
| FSize (p : path) | FExists (p : path) | FIsDir (p : path).

(* result of an op: status code, data, boolean or escaping OS error *)
Inductive fres := RCode (c : Z) | RData (d : bytes) | RInt (n : Z) | RBool (b : bool) | RNone | RErr (e : oserr).

Definition fstep (t : tree) (o : fop) : tree * fres :=
  match o with
  | FCreate p => let '(t', c) := fs_create_file t p in (t', RCode c)
  | FDelete p => let '(t', c) := fs_delete_file t p in (t', RCode c)
  | FRename a b => match fs_rename_file t a b with Ok (t', c) => (t', RCode c) | Err e => (t, RErr e) end
  | FReplace a b => let '(t', c) := fs_replace_file t a b in (t', RCode c)
  | FMkdir p => match fs_create_directory t p with Ok (t', c) => (t', RCode c) | Err e => (t, RErr e) end
  | FRmdir p r => let '(t', c) := fs_remove_directory t p r in (t', RCode c)
  | FTruncate p => match fs_truncate_file t p with Ok t' => (t', RNone) | Err e => (t, RErr e) end
  | FWrite p d off => match fs_write_data t p d off with Ok t' => (t', RNone) | Err e => (t, RErr e) end
  | FRead p off len => match fs_read_data t p off len with Ok d => (t, RData d) | Err e => (t, RErr e) end
  | FSize p => match fs_file_size t p with Ok n => (t, RInt n) | Err e => (t, RErr e) end
  | FExists p => (t, RBool (fs_file_exists t p))
  | FIsDir p => (t, RBool (fs_is_directory t p))
  end.

(* success = the op's own success code, or a data/None result *)
Definition is_success (o : fop) (r : fres) : bool :=
  match o, r with
  | FCreate _, RCode c => c =? CREATE_SUCCESS
  | FDelete _, RCode c => c =? DELETE_SUCCESS
  | FRename _ _, RCode c => c =? RENAME_SUCCESS
  | FReplace _ _, RCode c => c =? REPLACE_SUCCESS
  | FMkdir _, RCode c => c =? CREATE_DIR_SUCCESS
  | FRmdir _ _, RCode c => c =? REMOVE_DIR_SUCCESS
  | _, RNone => true
  | _, RData _ => true
  | _, RInt _ => true
  | _, RBool _ => true
  | _, _ => false
  end.

(* two trees agree on every path *)
Definition same_tree (t t' : tree) : Prop := forall q, lookup t q = lookup t' q.

(* paths an op names (for recursive removal: the whole subtree) *)
Definition touches (o : fop) (q : path) : Prop :=
  match o with
  | FCreate p | FDelete p | FMkdir p | FTruncate p | FWrite p _ _ => q = p
  | FRename a b | FReplace a b => q = a \/ q = b
  | FRmdir p r => if r then is_prefix p q = true else q = p
  | FRead _ _ _ | FSize _ | FExists _ | FIsDir _ => False
  end.

(* the documented effect of a successful op, as a relation between old and new tree *)
Definition effect (t t' : tree) (o : fop) : Prop :=
  match o with
  | FCreate p => lookup t p = None /\ lookup t' p = Some (File [])
  | FDelete p => (exists d, lookup t p = Some (File d)) /\ lookup t' p = None
  | FRename a b => a <> b /\ (exists d, lookup t a = Some (File d) /\ lookup t' b = Some (File d)) /\ lookup t b = None /\ lookup t' a = None
  | FReplace a b =>
      exists da db, lookup t a = Some (File da) /\ lookup t b = Some (File db) /\
                    lookup t' a = Some (File db) /\ (a <> b -> lookup t' b = None)
  | FMkdir p => lookup t p = None /\ lookup t' p = Some Dir
  | FRmdir p r => lookup t p = Some Dir /\ p <> [] /\ (forall q, is_prefix p q = true -> q <> [] -> (r = true \/ q = p) -> lookup t' q = None)
  | FTruncate p => (exists d, lookup t p = Some (File d)) /\ lookup t' p = Some (File [])
  | FWrite p d off => exists old, lookup t p = Some (File old) /\ lookup t' p = Some (File (write_at old off d))
  | FRead _ _ _ | FSize _ | FExists _ | FIsDir _ => True
  end.

Fixpoint frun (t : tree) (ops : list fop) : tree :=
  match ops with [] => t | o :: r => frun (fst (fstep t o)) r end.
