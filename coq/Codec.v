(* Codec.v — integer coding of PDUs, configurations, requests, events and handler
   observations.  Mirrors /verif/harness/codec.py and transfer.py field by field. *)
From CFDP Require Import Base LostSeg Fs Handler Dest Source.

Definition b2z (b : bool) : Z := if b then 1 else 0.
Definition z2b (z : Z) : bool := negb (z =? 0).
Definition enc_path (p : path) : list Z := zlen p :: p.
Definition dec_path (l : list Z) : option (path * list Z) :=
  match l with
  | n :: r => if (0 <=? n) && (n <=? zlen r) then Some (ztake n r, zdrop n r) else None
  | [] => None
  end.

(* ---------------------------------------------------------------- PDUs *)
Definition enc_hdr (h : hdr) : list Z :=
  [h_dir h; h_mode h; b2z (h_crc h); b2z (h_large h); h_src h; h_dst h; h_idw h; h_seq h; h_seqw h].
Fixpoint enc_pairs (l : list (Z * Z)) : list Z :=
  match l with [] => [] | (a, b) :: t => a :: b :: enc_pairs t end.
Definition enc_pdu (p : pdu) : list Z :=
  match p with
  | PFileData h off d => 0 :: enc_hdr h ++ off :: zlen d :: d
  | PMetadata h cl ck sz names msgs =>
      1 :: enc_hdr h ++ [b2z cl; ck; sz] ++
      (match names with None => [0] | Some (s, d) => 1 :: enc_path s ++ enc_path d end) ++ zlen msgs :: msgs
  | PEof h c ck sz fl => 2 :: enc_hdr h ++ c :: ck ++ [sz] ++ (match fl with Some (v, w) => [1; v; w] | None => [0; 0; 0] end)
  | PFinished h c d f fl =>
      3 :: enc_hdr h ++ [c; d; f] ++
      (match fl with
       | Some (v, w) => if (c =? C_NO_ERROR) || (c =? C_UNSUPPORTED_CHECKSUM) then [0; 0; 0] else [1; v; w]
       | None => [0; 0; 0] end)
  | PAck h a c s => 4 :: enc_hdr h ++ [a; c; s]
  | PNak h s e r => 5 :: enc_hdr h ++ s :: e :: zlen r :: enc_pairs r
  | PKeepAlive h pr => 6 :: enc_hdr h ++ [pr]
  | PPrompt h r => 7 :: enc_hdr h ++ [r]
  end.

Fixpoint dec_pairs (n : nat) (l : list Z) : list (Z * Z) :=
  match n, l with
  | S k, a :: b :: t => (a, b) :: dec_pairs k t
  | _, _ => []
  end.
Definition dec_pdu (l : list Z) : option pdu :=
  match l with
  | kind :: dir :: mode :: crc :: large :: src :: dst :: idw :: seq :: seqw :: b =>
    let h := mkHdr dir mode (z2b crc) (z2b large) src dst idw seq seqw in
    if kind =? 0 then match b with off :: n :: d => Some (PFileData h off (ztake n d)) | _ => None end
    else if kind =? 1 then
      match b with
      | cl :: ck :: sz :: has :: r =>
          if has =? 0 then match r with n :: m => Some (PMetadata h (z2b cl) ck sz None (ztake n m)) | _ => None end
          else match dec_path r with
               | Some (sp, r1) =>
                 match dec_path r1 with
                 | Some (dp, n :: m) => Some (PMetadata h (z2b cl) ck sz (Some (sp, dp)) (ztake n m))
                 | _ => None
                 end
               | None => None
               end
      | _ => None
      end
    else if kind =? 2 then
      match b with
      | [c; c0; c1; c2; c3; sz; has; fl; flw] => Some (PEof h c [c0; c1; c2; c3] sz (if has =? 0 then None else Some (fl, flw)))
      | _ => None end
    else if kind =? 3 then
      match b with [c; d; f; has; fl; flw] => Some (PFinished h c d f (if has =? 0 then None else Some (fl, flw))) | _ => None end
    else if kind =? 4 then match b with [a; c; s] => Some (PAck h a c s) | _ => None end
    else if kind =? 5 then match b with s :: e :: n :: r => Some (PNak h s e (dec_pairs (Z.to_nat n) r)) | _ => None end
    else if kind =? 6 then match b with [pr] => Some (PKeepAlive h pr) | _ => None end
    else if kind =? 7 then match b with [r] => Some (PPrompt h r) | _ => None end
    else None
  | _ => None
  end.

(* ---------------------------------------------------------------- configuration *)
Definition dec_rcfg (l : list Z) : option (rcfg * list Z) :=
  match l with
  | id :: idw :: hasms :: ms :: mp :: cl :: crc :: mode :: ck :: ams :: alim :: clim :: disp :: imm :: nms :: nlim :: r =>
      Some (mkRcfg id idw (if hasms =? 0 then None else Some ms) mp (z2b cl) (z2b crc) mode ck ams alim clim
                   (z2b disp) (z2b imm) nms nlim, r)
  | _ => None
  end.
Fixpoint dec_rcfgs (n : nat) (l : list Z) : option (list rcfg * list Z) :=
  match n with
  | O => Some ([], l)
  | S k => match dec_rcfg l with
           | Some (r, l1) => match dec_rcfgs k l1 with Some (rs, l2) => Some (r :: rs, l2) | None => None end
           | None => None
           end
  end.
(* [local_id; idw; i1; i2; i3; i4; nfault; (c,h)*; check_ms; nremote; remotes...] ++ rest *)
Definition dec_lcfg (l : list Z) : option (lcfg * list Z) :=
  match l with
  | id :: idw :: i1 :: i2 :: i3 :: i4 :: nf :: r =>
      let faults := dec_pairs (Z.to_nat nf) r in
      match zdrop (2 * nf) r with
      | cms :: nr :: r2 =>
          match dec_rcfgs (Z.to_nat nr) r2 with
          | Some (rs, rest) => Some (mkLcfg id idw (z2b i1) (z2b i2) (z2b i3) (z2b i4) faults cms rs, rest)
          | None => None
          end
      | _ => None
      end
  | _ => None
  end.

Definition dec_put (l : list Z) : option putreq :=
  match l with
  | dst :: dstw :: mode :: cl :: has :: r =>
      let m := if mode <? 0 then None else Some mode in
      let c := if cl <? 0 then None else Some (z2b cl) in
      let fin names r1 :=
        match r1 with
        | hm :: n :: ms => Some (mkPut dst dstw m c names (if hm =? 0 then None else Some (ztake n ms)))
        | _ => None
        end in
      if has =? 0 then fin None r
      else match dec_path r with
           | Some (sp, r1) => match dec_path r1 with Some (dp, r2) => fin (Some (sp, dp)) r2 | None => None end
           | None => None
           end
  | _ => None
  end.

(* ---------------------------------------------------------------- events *)
Definition enc_event (e : event) : list Z :=
  let body :=
    match e with
    | EvTransaction a b o => [1; a; b] ++ (match o with Some (x, y) => [1; x; y] | None => [0; -1; -1] end)
    | EvEofSent a b => [2; a; b]
    | EvFinished a b c d f fl => [3; a; b; c; d; f; opt_z (option_map fst fl)]
    | EvMetadataRecv a b sid fsz names msgs =>
        [4; a; b; sid; opt_z fsz] ++
        (match names with None => [0] | Some (s, d) => 1 :: enc_path s ++ enc_path d end) ++
        (match msgs with [] => [0; 0] | _ => 1 :: zlen msgs :: msgs end)
    | EvSegmentRecv a b off len => [5; a; b; off; len]
    | EvEofRecv a b => [6; a; b]
    | EvFault k a b c pr => [10 + k; a; b; c; pr]
    end in
  zlen body :: body.
Definition enc_events (log : list event) : list Z :=          (* log is newest first *)
  let l := rev log in zlen l :: flat_map enc_event l.

(* ---------------------------------------------------------------- observations *)
Definition enc_timer (t : option timer) : list Z :=
  match t with None => [0; 0; 0] | Some (s, tmo) => [1; s; tmo] end.
Definition enc_tid (t : option (Z * Z)) : list Z :=
  match t with Some (a, b) => [a; b] | None => [-1; -1] end.

Definition obs_dest (s : dst) : list Z :=
  let p := d_p s in let f := p_fin p in
  [d_state s; d_step s; d_ready s; zlen (d_queue s); p_progress p; opt_z (p_file_size p); opt_z (p_file_size_eof p);
   b2z (p_md_only p)] ++ enc_tid (p_tid p) ++
  [b2z (p_closure p); p_cktype p; f_cond f; f_deliv f; f_fstatus f; opt_z (option_map fst (f_fl f)); p_disp p; p_check_count p;
   p_nak_counter p; p_ack_counter p; b2z (p_deferred p); b2z (p_md_missing p); p_last_start p; p_last_end p] ++
  enc_timer (p_check_timer p) ++ enc_timer (p_proc_timer p) ++ enc_timer (p_ack_timer p) ++
  zlen (p_tracker p) :: enc_pairs (p_tracker p).

Definition obs_source (s : src) : list Z :=
  let q := s_p s in
  [s_state s; s_step s; s_ready s; zlen (s_queue s); q_progress q; opt_z (q_file_size q); q_segment_len q;
   b2z (q_md_only q); b2z (q_empty_file q)] ++ enc_tid (q_tid q) ++
  [b2z (q_closure q); opt_z (q_cond_eof q); q_ack_counter q; opt_z (s_step_before s);
   b2z (match q_rcfg q with Some _ => true | None => false end);
   b2z (match s_put s with Some _ => true | None => false end)] ++
  (match q_fin q with Some (c, d, f, _) => [1; c; d; f] | None => [0; 0; 0; 0] end) ++
  enc_timer (q_check_timer q) ++ enc_timer (q_ack_timer q).

Definition enc_got (p : option pdu) : list Z :=
  match p with
  | None => []
  | Some p => let e := enc_pdu p in
              (* packed length; whether it parses back (spacepackets cannot parse File Data without data) *)
              zlen e :: e ++ [pdu_len p;
                          match p with
                          | PFileData h _ [] => b2z (h_crc h)
                          (* spacepackets counts a fault location in the length field but does not pack it for NO_ERROR *)
                          | PFinished _ c _ _ (Some _) => b2z (negb ((c =? C_NO_ERROR) || (c =? C_UNSUPPORTED_CHECKSUM)))
                          | _ => 1 end]
  end.

Definition enc_file (t : tree) (p : path) : list Z :=
  match lookup t p with
  | None => [0; 0; 0]
  | Some Dir => [1; 1; 0]
  | Some (File d) => 1 :: 0 :: zlen d :: d
  end.

(* filesystem set-up ops shared by both handlers: [0; path] mkdir | [1; path; n; bytes] write file | [2; path] delete *)
Definition fs_setup (t : tree) (l : list Z) : option tree :=
  match l with
  | sub :: r =>
      match dec_path r with
      | Some (p, r1) =>
          if sub =? 0 then Some (set_node t p Dir)
          else if sub =? 1 then match r1 with n :: d => Some (set_node t p (File (ztake n d))) | _ => None end
          else if sub =? 2 then Some (remove_subtree t p)
          else None
      | None => None
      end
  | [] => None
  end.
