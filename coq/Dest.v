(* Dest.v — model of cfdppy/handler/dest.py::DestHandler (after the fix: commits
   recorded in /verif/known_findings.json).  One Gallina function per Python
   method, same order of effects.  No proofs in this file. *)
From CFDP Require Import Base LostSeg Fs Crc Checksum Handler.
From CFDP.gen Require Import Tables.
From RecordUpdate Require Import RecordSet.
Import RecordSetNotations.
Open Scope monad_scope.

(* TransactionStep (dest.py:104-127) *)
Definition DS_IDLE : Z := 0.                 Definition DS_TRANSACTION_START : Z := 1.
Definition DS_WAITING_FOR_METADATA : Z := 2. Definition DS_RECEIVING_FILE_DATA : Z := 3.
Definition DS_RECV_WITH_CHECK_LIMIT : Z := 4. Definition DS_SENDING_EOF_ACK : Z := 5.
Definition DS_WAITING_FOR_MISSING_DATA : Z := 6. Definition DS_TRANSFER_COMPLETION : Z := 7.
Definition DS_SENDING_FINISHED : Z := 8.     Definition DS_WAITING_FOR_FINISHED_ACK : Z := 9.
(* CompletionDisposition *)
Definition DISP_COMPLETED : Z := 0. Definition DISP_CANCELED : Z := 1.

Record fin := mkFin { f_deliv : Z; f_fstatus : Z; f_cond : Z; f_fl : option (Z * Z) }.
#[export] Instance eta_fin : Settable _ := settable! mkFin <f_deliv; f_fstatus; f_cond; f_fl>.

(* _DestFieldWrapper with fp, acked_params and positive_ack_params inlined *)
Record dparams := mkDP {
  p_tid : option (Z * Z); p_rcfg : option rcfg; p_check_timer : option timer; p_check_count : Z;
  p_closure : bool; p_cktype : Z; p_fin : fin; p_disp : Z; p_conf : hdr;
  p_progress : Z; p_crc32 : bytes; p_file_size : option Z; p_file_name : path;
  p_file_size_eof : option Z; p_md_only : bool;
  p_tracker : tracker; p_md_missing : bool; p_last_start : Z; p_last_end : Z; p_deferred : bool;
  p_proc_timer : option timer; p_nak_counter : Z;
  p_ack_timer : option timer; p_ack_counter : Z }.
#[export] Instance eta_dparams : Settable _ := settable! mkDP
  <p_tid; p_rcfg; p_check_timer; p_check_count; p_closure; p_cktype; p_fin; p_disp; p_conf;
   p_progress; p_crc32; p_file_size; p_file_name; p_file_size_eof; p_md_only;
   p_tracker; p_md_missing; p_last_start; p_last_end; p_deferred; p_proc_timer; p_nak_counter;
   p_ack_timer; p_ack_counter>.

Definition empty_hdr : hdr := mkHdr TOWARDS_RECEIVER ACKED false false 0 0 0 0 0.   (* PduConfig.empty() *)
Definition fresh_params : dparams :=
  mkDP None None None 0 false CK_NULL (mkFin DATA_INCOMPLETE FS_UNREPORTED C_NO_ERROR None) DISP_COMPLETED empty_hdr
       0 [] None [] None false
       [] false 0 0 false None 0
       None 0.

Record dst := mkDst {
  d_cfg : lcfg; d_state : Z; d_step : Z; d_states_tid : option (Z * Z);
  d_ready : Z; d_queue : list pdu; d_p : dparams; d_env : env }.
#[export] Instance eta_dst : Settable _ := settable! mkDst
  <d_cfg; d_state; d_step; d_states_tid; d_ready; d_queue; d_p; d_env>.
#[export] Instance eta_env : Settable _ := settable! mkEnv <e_now; e_fs; e_reject_writes; e_log>.

Definition dst_init (c : lcfg) : dst :=
  mkDst c ST_IDLE DS_IDLE None 0 [] fresh_params (mkEnv 0 [] false []).

Definition D := M dst.
Definition gp {A} (f : dparams -> A) : D A := gets (fun s => f (d_p s)).
Definition setp (f : dparams -> dparams) : D unit := modify (fun s => s <| d_p ::= f |>).
Definition set_step (v : Z) : D unit := modify (fun s => s <| d_step := v |>).
Definition get_step : D Z := gets d_step.
Definition emit (e : event) : D unit := modify (fun s => s <| d_env ::= (fun en => en <| e_log ::= cons e |>) |>).
Definition now : D Z := gets (fun s => e_now (d_env s)).
Definition tid_or_assert : D (Z * Z) :=
  t <- gp p_tid ;; match t with Some x => ret x | None => raise E_ASSERT end.
Definition rcfg_or_assert : D rcfg :=
  r <- gp p_rcfg ;; match r with Some x => ret x | None => raise E_ASSERT end.
(* the transmission_mode property: None while IDLE *)
Definition tmode : D (option Z) :=
  s <- get ;; ret (if d_state s =? ST_IDLE then None else Some (h_mode (p_conf (d_p s)))).
Definition mode_is (m : Z) : D bool :=
  t <- tmode ;; ret (match t with Some x => x =? m | None => false end).

(* _add_packet_to_be_sent *)
Definition add_packet (p : pdu) : D unit :=
  modify (fun s => s <| d_queue ::= (fun q => q ++ [p]) |> <| d_ready ::= (fun n => n + 1) |>).

(* _reset_internal(False) *)
Definition reset_internal : D unit :=
  modify (fun s => s <| d_p := fresh_params |> <| d_state := ST_IDLE |> <| d_step := DS_IDLE |>).

(* ---- fault declaration (dest.py:1141-1169) *)
Definition notice_of_cancellation (cond : Z) : D unit :=
  set_step DS_TRANSFER_COMPLETION ;;;
  setp (fun p => p <| p_fin ::= (fun f => f <| f_cond := cond |>) |> <| p_disp := DISP_CANCELED |>).

Definition declare_fault (cond : Z) : D Z :=
  c <- gets d_cfg ;;
  tid <- gp p_tid ;;
  progress <- gp p_progress ;;
  match tid with
  | None => raise E_ASSERT
  | Some (src, seq) =>
    match get_fault_handler (l_faults c) cond with
    | None => raise E_VALUE
    | Some fh =>
      (if fh =? FH_CANCEL then notice_of_cancellation cond
       else if fh =? FH_ABANDON then reset_internal
       else ret tt) ;;;
      (* report_fault: the callback of the configured kind *)
      emit (EvFault fh src seq cond progress) ;;;
      (* an abandoned transaction stops whatever it is doing: the running state machine call is unwound (F25-F27 repair) *)
      if fh =? FH_ABANDON then raise E_ABANDONED else ret fh
    end
  end.

(* ---- checksum verification (dest.py:1038-1058) *)
Definition vfs_checksum (ty : Z) (name : path) (size : Z) : D bytes :=
  fs <- gets (fun s => e_fs (d_env s)) ;;
  if ty =? CK_NULL then ret [0; 0; 0; 0]
  else match lookup fs name with
  | None => raise E_FILE_NOT_FOUND
  | Some Dir => raise E_IS_A_DIRECTORY
  | Some (File d) =>
      match calculate_checksum ty (Some d) size 4096 with
      | Ok r => ret r
      | Err ChecksumNotImplemented => raise E_CHECKSUM_NOT_IMPL
      | Err FileNotFound => raise E_FILE_NOT_FOUND
      | Err ValueErr => raise E_VALUE
      | Err OutOfFuel => raise E_FUEL
      end
  end.

Definition checksum_verify : D bool :=
  p <- gp (fun p => p) ;;
  complete <-
    (if (p_cktype p =? CK_NULL) || p_md_only p then ret true
     else
       crc <- vfs_checksum (p_cktype p) (p_file_name p) (p_progress p) ;;
       (* data known to be missing (progress below the EOF's file size) fails the verification even if the checksum of the
          part received so far happens to match (F31 repair) *)
       if bytes_eqb crc (p_crc32 p) && (match p_file_size_eof p with None => true | Some n => n <=? p_progress p end) then ret true
       else (declare_fault C_CHECKSUM_FAILURE ;;; ret false)) ;;
  when complete
    (setp (fun p => p <| p_fin ::= (fun f => f <| f_deliv := DATA_COMPLETE |> <| f_cond := C_NO_ERROR |>) |>)) ;;;
  ret complete.

(* ---- small builders *)
Definition conf : D hdr := gp p_conf.
Definition prepare_eof_ack_packet : D unit :=
  h <- conf ;; f <- gp p_fin ;;
  add_packet (PAck (set_dir TOWARDS_SENDER h) D_EOF (f_cond f) TS_ACTIVE).

Definition file_transfer_complete_transition : D unit :=
  m <- tmode ;;
  match m with
  | Some m =>
      if m =? UNACKED then set_step DS_TRANSFER_COMPLETION
      else if m =? ACKED then (prepare_eof_ack_packet ;;; set_step DS_SENDING_EOF_ACK)
      else ret tt
  | None => ret tt
  end.

Definition start_check_limit_handling : D unit :=
  set_step DS_RECV_WITH_CHECK_LIMIT ;;;
  _ <- rcfg_or_assert ;;
  c <- gets d_cfg ;; t <- now ;;
  setp (fun p => p <| p_check_timer := Some (t, l_check_ms c) |> <| p_check_count := 0 |>).

(* ---- lost segment handling (dest.py:867-892) *)
Definition tracker_add (sg : seg) : D unit := setp (fun p => p <| p_tracker ::= add sg |>).

(* one iteration of the loop over list(tracker.lost_segments.items()) in _lost_segment_handling *)
Definition remove_covered (offset end_ : Z) (sg : seg) : D unit :=
  if (fst sg <? end_) && (offset <? snd sg) then
    (tr <- gp p_tracker ;;
     match LostSeg.remove (Z.max (fst sg) offset, Z.min (snd sg) end_) tr with
     | Ok (tr', _) => setp (fun p => p <| p_tracker := tr' |>)
     | Err _ => raise E_VALUE
     end)
  else ret tt.

Definition lost_segment_handling (offset len : Z) : D unit :=
  last_end <- gp p_last_end ;;
  when (last_end <? offset)
    (tracker_add (last_end, offset) ;;;
     r <- rcfg_or_assert ;;
     when (r_imm_nak r)
       (h <- conf ;; add_packet (PNak (set_dir TOWARDS_SENDER h) 0 (offset + len) [(last_end, offset)]))) ;;;
  last_end <- gp p_last_end ;;
  when (last_end <=? offset)
    (setp (fun p => p <| p_last_start := offset |> <| p_last_end := offset + len |>)) ;;;
  last_start <- gp p_last_start ;;
  when (offset + len <=? last_start)
    (* a re-sent File Data PDU may cover several tracked ranges or parts of them: of each tracked range exactly the part
       the received data covers is removed (F9 repair); remove_within never leaves the range it is given *)
    (tr <- gp p_tracker ;;
     fold_left (fun m sg => m ;;; remove_covered offset (offset + len) sg) tr (ret tt)).

(* ---- file data (dest.py:816-855) *)
Definition vfs_write (name : path) (data : bytes) (off : Z) : D unit :=
  en <- gets d_env ;;
  if e_reject_writes en then raise E_PERMISSION
  else match fs_write_data (e_fs en) name data off with
  | Ok fs' => modify (fun s => s <| d_env ::= (fun e => e <| e_fs := fs' |>) |>)
  | Err e => raise (oserr_exn e)
  end.

Definition filestore_rejection : D unit :=
  f <- gp p_fin ;;
  when (negb (f_fstatus f =? FS_RETAINED))
    (setp (fun p => p <| p_fin ::= (fun f => f <| f_fstatus := FS_DISCARDED_REJECTION |>) |>) ;;;
     declare_fault C_FILESTORE_REJECTION ;;; ret tt).

Definition handle_fd_pdu (offset : Z) (data : bytes) : D unit :=
  c <- gets d_cfg ;;
  when (l_ind_seg c)
    (t <- gp p_tid ;;
     let '(src, seq) := match t with Some x => x | None => (-1, -1) end in
     emit (EvSegmentRecv src seq offset (zlen data))) ;;;
  catch
    (let next_expected := offset + zlen data in
     acked <- mode_is ACKED ;;
     when acked (lost_segment_handling offset (zlen data)) ;;;
     name <- gp p_file_name ;;
     vfs_write name data offset ;;;
     setp (fun p => p <| p_fin ::= (fun f => f <| f_fstatus := FS_RETAINED |>) |>) ;;;
     eof <- gp p_file_size_eof ;;
     stop <-
       (match eof with
        | Some sz =>
            if sz <? offset + zlen data then
              (fh <- declare_fault C_FILE_SIZE_ERROR ;; ret (negb (fh =? FH_IGNORE)))
            else ret false
        | None => ret false
        end) ;;
     if stop then ret tt
     else setp (fun p => p <| p_progress ::= Z.max next_expected |>))
    (fun e => if (e =? E_FILE_NOT_FOUND) || (e =? E_PERMISSION) then Some filestore_rejection else None).

(* ---- deferred lost segment procedure (dest.py:894-960) *)
Definition reset_nak_activity_parameters : D unit :=
  t <- gp p_proc_timer ;;
  match t with
  | None => raise E_ASSERT
  | Some (_, tmo) => n <- now ;; setp (fun p => p <| p_nak_counter := 0 |> <| p_proc_timer := Some (n, tmo) |>)
  end.

(* the loop over the tracker that splits the requests into NAK PDUs *)
Fixpoint nak_split (h : hdr) (eos : Z) (maxn : Z) (acc : list (Z * Z)) (l : tracker) : list pdu * list (Z * Z) :=
  match l with
  | [] => ([], acc)
  | sg :: t =>
      let acc' := acc ++ [sg] in
      if zlen acc' =? maxn then
        let '(ps, rest) := nak_split h eos maxn [] t in (PNak h 0 eos acc' :: ps, rest)
      else nak_split h eos maxn acc' t
  end.

Definition deferred_lost_segment_handling : D unit :=
  active <- gp p_deferred ;;
  if negb active then ret tt else
  (* a fault declared while the PDU of this call was handled cancelled the transaction: nothing is requested or verified
     any more, the cancel condition stands (F35 repair) *)
  disp <- gp p_disp ;;
  if disp =? DISP_CANCELED then ret tt else
  r <- rcfg_or_assert ;;
  eof <- gp p_file_size_eof ;;
  match eof with
  | None => raise E_ASSERT
  | Some eos =>
    tr <- gp p_tracker ;; mdm <- gp p_md_missing ;;
    if (zlen tr =? 0) && negb mdm then
      (checksum_verify ;;;
       set_step DS_TRANSFER_COMPLETION ;;;
       setp (fun p => p <| p_deferred := false |>))
    else
      timer <- gp p_proc_timer ;; n <- now ;;
      go <- (match timer with
             | Some t => if negb (timed_out n t) then ret None else ret (Some false)
             | None => setp (fun p => p <| p_proc_timer := Some (n, r_nak_ms r) |>) ;;; ret (Some true)
             end) ;;
      match go with
      | None => ret tt                      (* timer busy: wait *)
      | Some first =>
        cnt <- gp p_nak_counter ;;
        (* at the limit the fault is declared; unless its handler is IGNORE the call ends there, otherwise the NAK sequence
           is issued again and the counter keeps counting, so the limit is not declared by every later call (F22 repair) *)
        stop <- (if negb first && (cnt + 1 =? r_nak_limit r)
                 then (fh <- declare_fault C_NAK_LIMIT ;; ret (negb (fh =? FH_IGNORE)))
                 else ret false) ;;
        if stop then ret tt
        else
          h <- conf ;;
          match max_seg_reqs (r_max_packet r) h with
          | None => raise E_VALUE
          | Some maxn =>
            let hh := set_dir TOWARDS_SENDER h in
            tr <- gp p_tracker ;; mdm <- gp p_md_missing ;;
            (* metadata re-request first; flushed alone if one request fills a PDU *)
            let '(pre, acc0) :=
              if mdm then (if 1 =? maxn then ([PNak hh 0 eos [(0, 0)]], []) else ([], [(0, 0)]))
              else ([], []) in
            let '(ps, rest) := nak_split hh eos maxn acc0 tr in
            let all := pre ++ ps ++ (match rest with [] => [] | _ => [PNak hh 0 eos rest] end) in
            fold_left (fun m p => m ;;; add_packet p) all (ret tt) ;;;
            when (negb first)
              (n <- now ;; t <- gp p_proc_timer ;;
               setp (fun p => p <| p_nak_counter ::= (fun c => c + 1) |>
                                <| p_proc_timer := (match t with Some (_, tmo) => Some (n, tmo) | None => None end) |>))
          end
      end
  end.

Definition start_deferred_lost_segment_handling : D unit :=
  mdm <- gp p_md_missing ;;
  set_step (if mdm then DS_WAITING_FOR_METADATA else DS_WAITING_FOR_MISSING_DATA) ;;;
  eof <- gp p_file_size_eof ;;
  setp (fun p => p <| p_deferred := true |> <| p_tracker ::= coalesce |>
                   <| p_last_start := opt_z eof |> <| p_last_end := opt_z eof |>) ;;;
  deferred_lost_segment_handling.

(* ---- EOF (dest.py:962-1016) *)
Definition handle_no_error_eof : D bool :=
  p <- gp (fun p => p) ;;
  let eofsz := opt_z (p_file_size_eof p) in
  acked <- mode_is ACKED ;; unacked <- mode_is UNACKED ;;
  early <-
    (if eofsz <? p_progress p then
       (fh <- declare_fault C_FILE_SIZE_ERROR ;; ret (negb (fh =? FH_IGNORE)))
     else if (p_progress p <? eofsz) && acked then (tracker_add (p_progress p, eofsz) ;;; ret false)
     else ret false) ;;
  if early then ret false
  else if unacked then
    ok <- checksum_verify ;;
    if ok then ret true
    else
      (* the fault was declared by the verification; only the configured handler is looked up here (F15 repair) *)
      c <- gets d_cfg ;;
      match get_fault_handler (l_faults c) C_CHECKSUM_FAILURE with
      | Some fh => if fh =? FH_IGNORE then (start_check_limit_handling ;;; ret false) else ret false
      | None => ret false
      end
  else ret true.

Definition handle_eof_pdu (cond : Z) (cksum : bytes) (fsize : Z) : D unit :=
  setp (fun p => p <| p_crc32 := cksum |> <| p_file_size_eof := Some fsize |>) ;;;
  c <- gets d_cfg ;;
  when (l_ind_eof_recv c) (t <- tid_or_assert ;; emit (EvEofRecv (fst t) (snd t))) ;;;
  if cond =? C_NO_ERROR then
    regular <- handle_no_error_eof ;;
    if regular then file_transfer_complete_transition else ret tt
  else
    r <- gp p_rcfg ;;
    match r with
    | None => raise E_ATTRIBUTE
    | Some r =>
      setp (fun p => p <| p_disp := DISP_CANCELED |>
                       <| p_fin ::= (fun f => f <| f_cond := cond |> <| f_fl := Some (r_id r, r_idw r) |>) |>) ;;;
      setp (fun p => p <| p_progress := opt_z (p_file_size_eof p) |>
                       <| p_fin ::= (fun f => f <| f_deliv := DATA_INCOMPLETE |>) |>) ;;;
      file_transfer_complete_transition
    end.

(* ---- metadata and transaction start (dest.py:572-743) *)
Definition vfs_op_tree (f : tree -> res oserr tree) : D unit :=
  fs <- gets (fun s => e_fs (d_env s)) ;;
  match f fs with
  | Ok fs' => modify (fun s => s <| d_env ::= (fun e => e <| e_fs := fs' |>) |>)
  | Err e => raise (oserr_exn e)
  end.

Definition init_vfs_handling (base : option Z) : D unit :=
  catch
    (fs <- gets (fun s => e_fs (d_env s)) ;;
     name <- gp p_file_name ;;
     let name' := if fs_is_directory fs name then (match base with Some b => name ++ [b] | None => name end) else name in
     setp (fun p => p <| p_file_name := name' |>) ;;;
     (if fs_file_exists fs name' then vfs_op_tree (fun t => fs_truncate_file t name')
      else vfs_op_tree (fun t => Ok (fst (fs_create_file t name')))) ;;;
     setp (fun p => p <| p_fin ::= (fun f => f <| f_fstatus := FS_RETAINED |>) |>))
    (fun e => if e =? E_PERMISSION then
                Some (setp (fun p => p <| p_fin ::= (fun f => f <| f_fstatus := FS_DISCARDED_REJECTION |>) |>) ;;;
                      declare_fault C_FILESTORE_REJECTION ;;; ret tt)
              else None).

Definition handle_metadata_packet (h : hdr) (closure : bool) (cktype fsize : Z)
           (names : option (path * path)) (msgs : list Z) : D unit :=
  setp (fun p => p <| p_cktype := cktype |> <| p_closure := closure |> <| p_md_missing := false |>) ;;;
  (match names with
   | None => setp (fun p => p <| p_md_only := true |> <| p_fin ::= (fun f => f <| f_deliv := DATA_COMPLETE |>) |>)
   | Some (_, dn) => setp (fun p => p <| p_file_name := dn |>)
   end) ;;;
  setp (fun p => p <| p_file_size := Some fsize |>) ;;;
  r <- gp p_rcfg ;;
  match r with
  | None => raise E_NO_REMOTE_CFG
  | Some _ =>
    mdo <- gp p_md_only ;;
    (if negb mdo then
       set_step DS_RECEIVING_FILE_DATA ;;;
       init_vfs_handling (match names with Some (sn, _) => (match rev sn with b :: _ => Some b | [] => None end) | None => None end)
     else set_step DS_TRANSFER_COMPLETION) ;;;
    t <- gp p_tid ;;
    let '(src, seq) := match t with Some x => x | None => (-1, -1) end in
    emit (EvMetadataRecv src seq (h_src h) (match names with Some _ => Some fsize | None => None end) names msgs)
  end.

Definition common_first_packet_handler (h : hdr) : D unit :=
  s <- get ;;
  if negb (d_state s =? ST_IDLE) then ret tt else
  let tid := Some (h_src h, h_seq h) in
  put (s <| d_state := ST_BUSY |> <| d_states_tid := tid |>
         <| d_p ::= (fun p => p <| p_conf := set_dir TOWARDS_SENDER h |> <| p_tid := tid |>
                                 <| p_rcfg := get_remote (l_remotes (d_cfg s)) (h_src h) |>) |>).

Definition start_transaction (h : hdr) (closure : bool) (cktype fsize : Z)
           (names : option (path * path)) (msgs : list Z) : D unit :=
  s <- get ;;
  if negb (d_state s =? ST_IDLE) then ret tt else
  setp (fun _ => fresh_params) ;;;
  common_first_packet_handler h ;;;
  handle_metadata_packet h closure cktype fsize names msgs.

Definition common_first_packet_not_metadata (h : hdr) : D unit :=
  setp (fun _ => fresh_params) ;;;
  common_first_packet_handler h ;;;
  set_step DS_WAITING_FOR_METADATA ;;;
  setp (fun p => p <| p_md_missing := true |>).

Definition handle_eof_without_previous_metadata (cond : Z) (cksum : bytes) (fsize : Z) : D unit :=
  (* an EOF (cancel) cancels the transaction also when the Metadata has not been seen (F32 repair) *)
  if negb (cond =? C_NO_ERROR) then handle_eof_pdu cond cksum fsize else
  setp (fun p => p <| p_progress := fsize |> <| p_file_size_eof := Some fsize |> <| p_crc32 := cksum |>
                   <| p_md_missing := true |>) ;;;
  when (0 <? fsize) (setp (fun p => p <| p_tracker := add (0, fsize) LostSeg.reset |>)) ;;;
  c <- gets d_cfg ;;
  when (l_ind_eof_recv c) (t <- tid_or_assert ;; emit (EvEofRecv (fst t) (snd t))) ;;;
  prepare_eof_ack_packet ;;;
  set_step DS_SENDING_EOF_ACK.

Definition handle_fd_without_previous_metadata (first : bool) (offset : Z) (data : bytes) : D unit :=
  eof <- gp p_file_size_eof ;;
  match eof with Some _ => ret tt | None =>     (* EOF already seen: the whole file is tracked as lost (F18 repair) *)
  let progress := offset + zlen data in
  setp (fun p => p <| p_progress := progress |>) ;;;
  when (0 <? zlen data)
    (tracker_add (if first then 0 else offset, progress) ;;;
     setp (fun p => p <| p_last_start := progress |> <| p_last_end := progress |>)) ;;;
  r <- rcfg_or_assert ;;
  when (r_imm_nak r)
    (let reqs := (if first then [(0, 0)] else []) ++ (if 0 <? zlen data then [(0, progress)] else []) in
     match reqs with
     | [] => ret tt
     | _ => h <- conf ;; add_packet (PNak (set_dir TOWARDS_SENDER h) 0 progress reqs)
     end)
  end.

(* ---- idle FSM (dest.py:506-524) *)
Definition idle_fsm (pkt : option pdu) : D unit :=
  match pkt with
  | None => ret tt
  | Some (PFileData h off data) =>
      common_first_packet_not_metadata h ;;; handle_fd_without_previous_metadata true off data
  | Some (PEof h cond ck sz _) =>
      common_first_packet_not_metadata h ;;; handle_eof_without_previous_metadata cond ck sz
  | Some (PMetadata h cl ck sz names msgs) => start_transaction h cl ck sz names msgs
  | Some _ => raise E_VALUE
  end.

(* ---- completion (dest.py:857-865, 1084-1126) *)
Definition notice_of_completion : D unit :=
  p <- gp (fun p => p) ;;
  when (p_disp p =? DISP_CANCELED)
    (r <- rcfg_or_assert ;;
     when (r_disposition r && (f_deliv (p_fin p) =? DATA_INCOMPLETE))
       (modify (fun s => s <| d_env ::= (fun e => e <| e_fs ::= (fun t => fst (fs_delete_file t (p_file_name p))) |>) |>) ;;;
        setp (fun p => p <| p_fin ::= (fun f => f <| f_fstatus := FS_DISCARDED_DELIBERATELY |>) |>))) ;;;
  c <- gets d_cfg ;;
  when (l_ind_fin c)
    (p <- gp (fun p => p) ;;
     let '(src, seq) := match p_tid p with Some x => x | None => (-1, -1) end in
     let f := p_fin p in
     emit (EvFinished src seq (f_cond f) (f_deliv f) (f_fstatus f) (f_fl f))).

Definition handle_transfer_completion : D unit :=
  notice_of_completion ;;;
  un <- mode_is UNACKED ;; ac <- mode_is ACKED ;; cl <- gp p_closure ;;
  if (un && cl) || ac then set_step DS_SENDING_FINISHED else reset_internal.

Definition prepare_finished_pdu : D unit :=
  n <- gets d_ready ;;
  if 0 <? n then raise E_UNRETRIEVED else
  h <- conf ;; f <- gp p_fin ;;
  add_packet (PFinished (set_dir TOWARDS_SENDER h) (f_cond f) (f_deliv f) (f_fstatus f) (f_fl f)).

Definition start_positive_ack_procedure : D unit :=
  r <- rcfg_or_assert ;; n <- now ;;
  setp (fun p => p <| p_ack_timer := Some (n, r_ack_ms r) |> <| p_ack_counter := 0 |>).

Definition handle_finished_pdu_sent : D unit :=
  s <- get ;; ac <- mode_is ACKED ;;
  if (d_state s =? ST_BUSY) && ac then (start_positive_ack_procedure ;;; set_step DS_WAITING_FOR_FINISHED_ACK)
  else reset_internal.

(* _fsm_advancement_after_packets_were_sent (dest.py:557-570) *)
Definition fsm_advancement : D unit :=
  s <- get ;;
  if 0 <? zlen (d_queue s) then raise E_UNRETRIEVED else
  if d_step s =? DS_SENDING_EOF_ACK then
    let p := d_p s in
    (* a transaction cancelled by an EOF (cancel) is completed, missing data is not requested (F23 repair) *)
    if negb (p_disp p =? DISP_CANCELED) && ((0 <? zlen (p_tracker p)) || p_md_missing p) then start_deferred_lost_segment_handling
    else
      (when (negb (p_disp p =? DISP_CANCELED)) (checksum_verify ;;; ret tt)) ;;;
      set_step DS_TRANSFER_COMPLETION
  else ret tt.

Definition check_limit_handling : D unit :=
  t <- gp p_check_timer ;;
  match t with
  | None => raise E_ASSERT
  | Some tm =>
    r <- rcfg_or_assert ;; n <- now ;;
    if timed_out n tm then
      ok <- checksum_verify ;;
      if ok then file_transfer_complete_transition
      else
        cnt <- gp p_check_count ;;
        r' <- gp p_rcfg ;;
        match r' with None => raise E_ATTRIBUTE | Some r' =>
        (* the limit is not reached, or the fault is ignored: keep counting, wait for another interval (F34 repair) *)
        let count_and_restart : D unit :=
          t' <- gp p_check_timer ;;
          match t' with
          | None => raise E_ATTRIBUTE
          | Some (_, tmo) =>
              setp (fun p => p <| p_check_count ::= (fun c => c + 1) |> <| p_check_timer := Some (n, tmo) |>)
          end in
        if r_check_limit r' <=? cnt + 1 then
          (fh <- declare_fault C_CHECK_LIMIT ;; if fh =? FH_IGNORE then count_and_restart else ret tt)
        else count_and_restart
        end
    else ret tt
  end.

Definition handle_waiting_for_missing_metadata (pkt : option pdu) : D unit :=
  match pkt with
  | None => ret tt
  | Some (PFileData _ off data) => handle_fd_without_previous_metadata true off data
  | Some (PMetadata h cl ck sz names msgs) =>
      handle_metadata_packet h cl ck sz names msgs ;;;
      active <- gp p_deferred ;;
      when active
        (reset_nak_activity_parameters ;;;
         st <- get_step ;;
         when (st =? DS_RECEIVING_FILE_DATA) (set_step DS_WAITING_FOR_MISSING_DATA))
  | Some (PEof _ cond ck sz _) =>
      handle_eof_without_previous_metadata cond ck sz ;;;
      active <- gp p_deferred ;;
      when active reset_nak_activity_parameters
  | Some _ => ret tt
  end.

(* positive ACK procedure for the Finished PDU (dest.py:793-814, after the F6 repair);
   [again] is the nested state_machine() call *)
Definition handle_positive_ack_procedures (again : D unit) : D unit :=
  t <- gp p_ack_timer ;;
  match t with
  | None => raise E_ASSERT
  | Some tm =>
    r <- rcfg_or_assert ;; n <- now ;;
    if negb (timed_out n tm) then ret tt else
    cnt <- gp p_ack_counter ;;
    stop <-
      (if r_ack_limit r <=? cnt + 1 then
         disp <- gp p_disp ;;
         if disp =? DISP_CANCELED then
           (p <- gp (fun p => p) ;;
            match p_tid p with
            | None => raise E_ASSERT
            | Some (src, seq) =>
                emit (EvFault FH_ABANDON src seq (f_cond (p_fin p)) (p_progress p)) ;;;
                reset_internal ;;; ret true
            end)
         else
           (declare_fault C_POS_ACK_LIMIT ;;;
            disp <- gp p_disp ;;
            if disp =? DISP_CANCELED then (again ;;; ret true) else ret false)
       else ret false) ;;
    if stop then ret tt else
    t' <- gp p_ack_timer ;;
    match t' with
    | None => raise E_ATTRIBUTE            (* ack_timer.reset() on a parameter block recreated by an abandon *)
    | Some (_, tmo) =>
        setp (fun p => p <| p_ack_timer := Some (n, tmo) |> <| p_ack_counter ::= (fun c => c + 1) |>) ;;;
        prepare_finished_pdu
    end
  end.

Definition handle_waiting_for_finished_ack (again : D unit) (pkt : option pdu) : D unit :=
  match pkt with
  | Some (PEof _ _ _ _ _) => prepare_eof_ack_packet          (* F24 repair: acknowledge the re-sent EOF, nothing else *)
  | Some (PAck _ _ _ _) => reset_internal
  | _ => handle_positive_ack_procedures again
  end.

Definition step_is (v : Z) : D bool := s <- get_step ;; ret (s =? v).

(* try: ... except _TransactionAbandoned: pass   (dest.py state_machine) *)
Definition catch_abandoned (m : D unit) : D unit :=
  catch m (fun e => if e =? E_ABANDONED then Some (ret tt) else None).

(* __non_idle_fsm (dest.py:526-555); [fuel] bounds the nested state_machine() calls *)
Fixpoint non_idle_fsm (fuel : nat) (pkt : option pdu) : D unit :=
  fsm_advancement ;;;
  st <- get_step ;;
  when (((st =? DS_RECEIVING_FILE_DATA) || (st =? DS_RECV_WITH_CHECK_LIMIT)))
    (match pkt with
     | Some (PFileData _ off data) => handle_fd_pdu off data
     | Some (PEof _ cond ck sz _) => handle_eof_pdu cond ck sz
     | _ => ret tt
     end) ;;;
  b <- step_is DS_WAITING_FOR_METADATA ;;
  when b (handle_waiting_for_missing_metadata pkt ;;; deferred_lost_segment_handling) ;;;
  b <- step_is DS_RECV_WITH_CHECK_LIMIT ;;
  when b check_limit_handling ;;;
  b <- step_is DS_WAITING_FOR_MISSING_DATA ;;
  when b
    ((* CFDP 4.7.2: a re-sent EOF is acknowledged again (F24 repair); an EOF (cancel) stops the deferred procedure and
        gets the Cancel Response Procedures, which acknowledge it (F33 repair) *)
     (match pkt with
      | Some (PEof _ cond ck sz _) =>
          if cond =? C_NO_ERROR then prepare_eof_ack_packet
          else (setp (fun p => p <| p_deferred := false |>) ;;; handle_eof_pdu cond ck sz)
      | _ => ret tt
      end) ;;;
     (match pkt with
      | Some (PFileData _ off data) =>
          handle_fd_pdu off data ;;;
          active <- gp p_deferred ;;
          when active reset_nak_activity_parameters
      | _ => ret tt
      end) ;;;
     deferred_lost_segment_handling) ;;;
  b <- step_is DS_TRANSFER_COMPLETION ;;
  when b handle_transfer_completion ;;;
  b <- step_is DS_SENDING_FINISHED ;;
  when b (n <- gets d_ready ;;
          (* PDUs queued earlier in this call go out first; the Finished PDU is generated by the next call (F8 repair) *)
          if 0 <? n then ret tt else (prepare_finished_pdu ;;; handle_finished_pdu_sent)) ;;;
  b <- step_is DS_WAITING_FOR_FINISHED_ACK ;;
  when b
    (handle_waiting_for_finished_ack
       (match fuel with
        | O => raise E_FUEL
        | S k => catch_abandoned (s <- get ;; when (d_state s =? ST_BUSY) (non_idle_fsm k None))
        end) pkt).

(* ---- admission (dest.py:433-455) *)
Fixpoint route_apply (rules : list (Z * list Z * Z)) (p : pdu) : option Z :=
  match rules with
  | [] => None
  | (k, l, r) :: t =>
      let hit :=
        if k =? 0 then is_file_data p
        else if k =? 1 then match directive p with Some d => existsb (Z.eqb d) l | None => false end
        else match p with PAck _ acked _ _ => existsb (Z.eqb acked) l | _ => false end in
      if hit then Some r else route_apply t p
  end.
(* get_packet_destination; None = ValueError.  A File Data PDU has no directive_type
   attribute: reaching a directive rule with it is an AttributeError in Python, but the
   first generated rule always catches File Data, so the case does not arise. *)
Definition packet_destination (p : pdu) : option Z := route_apply route_rules p.

Definition check_inserted_packet (p : pdu) : D unit :=
  s <- get ;;
  let h := pdu_hdr p in
  if negb (h_dir h =? TOWARDS_RECEIVER) then raise E_INVALID_DIRECTION else
  if negb (h_dst h =? l_id (d_cfg s)) then raise E_INVALID_DEST_ID else
  match get_remote (l_remotes (d_cfg s)) (h_src h) with
  | None => raise E_NO_REMOTE_CFG
  | Some _ =>
    match packet_destination p with
    | None => raise E_VALUE
    | Some dest =>
      if dest =? 0 then raise E_INVALID_PDU_FOR_DEST else
      let dir_is d := match directive p with Some x => x =? d | None => false end in
      (if (d_state s =? ST_IDLE) && (is_file_data p || negb (dir_is D_METADATA)) then
         (* _handle_first_packet_not_metadata_pdu *)
         if h_mode h =? UNACKED then raise E_PDU_IGNORED_DEST
         else if (h_mode h =? ACKED) && (negb (is_file_data p) && negb (dir_is D_EOF)) then raise E_PDU_IGNORED_DEST
         else ret tt
       else ret tt) ;;;
      (if negb (is_file_data p) && ((dir_is D_ACK || dir_is D_PROMPT) && (d_state s =? ST_BUSY)
                                     && (h_mode (p_conf (d_p s)) =? UNACKED))
       then raise E_PDU_IGNORED_DEST else ret tt)
    end
  end.

(* ---- public API *)
Definition state_machine (pkt : option pdu) : D unit :=
  (match pkt with Some p => check_inserted_packet p | None => ret tt end) ;;;
  catch_abandoned
    (s <- get ;;
     stop <-
       (if d_state s =? ST_IDLE then
          idle_fsm pkt ;;; n <- gets d_ready ;; ret (0 <? n)
        else ret false) ;;
     if stop then ret tt else
     s <- get ;;
     when (d_state s =? ST_BUSY) (non_idle_fsm 3 pkt)).

Definition get_next_packet : D (option pdu) :=
  s <- get ;;
  match d_queue s with
  | [] => ret None
  | p :: q => put (s <| d_queue := q |> <| d_ready ::= (fun n => n - 1) |>) ;;; ret (Some p)
  end.

Definition cancel_request (src seq : Z) : D bool :=
  s <- get ;;
  if d_state s =? ST_IDLE then ret false else
  if 0 <? d_ready s then raise E_UNRETRIEVED else
  match p_tid (d_p s) with
  | Some (a, b) =>
      if (a =? src) && (b =? seq) then
        setp (fun p => p <| p_disp := DISP_CANCELED |>
                         <| p_fin ::= (fun f => f <| f_cond := C_CANCEL_REQUEST |> <| f_fl := Some (l_id (d_cfg s), l_idw (d_cfg s)) |>) |>) ;;;
        set_step DS_TRANSFER_COMPLETION ;;; ret true
      else ret false
  | None => ret false
  end.

Definition reset : D unit := reset_internal.

(* acknowledge_inactive_eof_pdu (dest.py:259-280): None = ValueError *)
Definition acknowledge_inactive_eof_pdu (h : hdr) (cond : Z) (status : Z) : option pdu :=
  if status =? TS_ACTIVE then None else Some (PAck (set_dir TOWARDS_SENDER h) D_EOF cond status).
