(* ChecksumSpec.v — independent formulation of the CCSDS modular checksum:
   byte i of the data contributes byte_i * 256^(3 - i mod 4). *)
From CFDP Require Import Base.
Fixpoint weighted_sum (i : nat) (l : bytes) : Z :=
  match l with
  | [] => 0
  | b :: t => b * 256 ^ (3 - Z.of_nat i mod 4) + weighted_sum (S i) t
  end.
