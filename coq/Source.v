(* Source.v — model of cfdppy/handler/source.py::SourceHandler (after the fix:
   commits recorded in /verif/known_findings.json).  One Gallina function per
   Python method, same order of effects.  No proofs in this file. *)
From CFDP Require Import Base Fs Crc Checksum Handler Dest.
From CFDP.gen Require Import Tables.
From RecordUpdate Require Import RecordSet.
Import RecordSetNotations.
Open Scope monad_scope.

(* TransactionStep (source.py:80-92) *)
Definition SS_IDLE : Z := 0.             Definition SS_TRANSACTION_START : Z := 1.
Definition SS_SENDING_METADATA : Z := 3. Definition SS_SENDING_FILE_DATA : Z := 4.
Definition SS_RETRANSMITTING : Z := 5.   Definition SS_SENDING_EOF : Z := 6.
Definition SS_WAITING_FOR_EOF_ACK : Z := 7. Definition SS_WAITING_FOR_FINISHED : Z := 8.
Definition SS_SENDING_ACK_OF_FINISHED : Z := 9. Definition SS_NOTICE_OF_COMPLETION : Z := 10.

(* PutRequest *)
Record putreq := mkPut {
  pr_dst : Z; pr_dstw : Z; pr_mode : option Z; pr_closure : option bool;
  pr_names : option (path * path);     (* source file, dest file; None = metadata only *)
  pr_msgs : option (list Z) }.

(* the PduConfig of the source: id fields keep their own widths *)
Record sconf := mkSconf {
  sc_src : Z; sc_srcw : Z; sc_dst : Z; sc_dstw : Z; sc_seq : Z; sc_seqw : Z;
  sc_mode : Z; sc_large : bool; sc_crc : bool }.
#[export] Instance eta_sconf : Settable _ := settable! mkSconf
  <sc_src; sc_srcw; sc_dst; sc_dstw; sc_seq; sc_seqw; sc_mode; sc_large; sc_crc>.
Definition empty_sconf : sconf := mkSconf 0 0 0 0 0 0 ACKED false false.
Definition hdr_of (c : sconf) (dir : Z) : hdr :=
  mkHdr dir (sc_mode c) (sc_crc c) (sc_large c) (sc_src c) (sc_dst c) (sc_srcw c) (sc_seq c) (sc_seqw c).

Record sparams := mkSP {
  q_tid : option (Z * Z); q_check_timer : option timer; q_ack_timer : option timer; q_ack_counter : Z;
  q_cond_eof : option Z; q_progress : Z; q_segment_len : Z; q_file_size : option Z;
  q_empty_file : bool; q_md_only : bool; q_fin : option (Z * Z * Z * option (Z * Z));  (* cond, deliv, fstatus, fault location *)
  q_rcfg : option rcfg; q_closure : bool; q_conf : sconf }.
#[export] Instance eta_sparams : Settable _ := settable! mkSP
  <q_tid; q_check_timer; q_ack_timer; q_ack_counter; q_cond_eof; q_progress; q_segment_len; q_file_size;
   q_empty_file; q_md_only; q_fin; q_rcfg; q_closure; q_conf>.

Record src := mkSrc {
  s_cfg : lcfg; s_state : Z; s_step : Z; s_ready : Z; s_queue : list pdu;
  s_p : sparams; s_step_before : option Z;        (* ack_params: survives reset *)
  s_put : option putreq; s_seq_count : Z; s_seq_bits : Z; s_env : env }.
#[export] Instance eta_src : Settable _ := settable! mkSrc
  <s_cfg; s_state; s_step; s_ready; s_queue; s_p; s_step_before; s_put; s_seq_count; s_seq_bits; s_env>.

(* _TransferFieldWrapper(local_entity_id): pdu_conf.source_entity_id = local id *)
Definition init_sparams (c : lcfg) : sparams :=
  mkSP None None None 0 None 0 0 (Some 0) false false None None false
       (empty_sconf <| sc_src := l_id c |> <| sc_srcw := l_idw c |>).
(* _TransferFieldWrapper.reset(): pdu_conf = PduConfig.empty(); file size back to 0 (F2 repair) *)
Definition reset_sparams : sparams :=
  mkSP None None None 0 None 0 0 (Some 0) false false None None false empty_sconf.

Definition src_init (c : lcfg) (seq_start seq_bits : Z) : src :=
  mkSrc c ST_IDLE SS_IDLE 0 [] (init_sparams c) None None seq_start seq_bits (mkEnv 0 [] false []).

Definition SM := M src.
Definition gq {A} (f : sparams -> A) : SM A := gets (fun s => f (s_p s)).
Definition setq (f : sparams -> sparams) : SM unit := modify (fun s => s <| s_p ::= f |>).
Definition sset_step (v : Z) : SM unit := modify (fun s => s <| s_step := v |>).
Definition semit (e : event) : SM unit := modify (fun s => s <| s_env ::= (fun en => en <| e_log ::= cons e |>) |>).
Definition snow : SM Z := gets (fun s => e_now (s_env s)).
Definition stid_or_assert : SM (Z * Z) :=
  t <- gq q_tid ;; match t with Some x => ret x | None => raise E_ASSERT end.
Definition srcfg_or_assert : SM rcfg :=
  r <- gq q_rcfg ;; match r with Some x => ret x | None => raise E_ASSERT end.
Definition put_or_assert : SM putreq :=
  p <- gets s_put ;; match p with Some x => ret x | None => raise E_ASSERT end.
Definition stmode : SM (option Z) :=
  s <- get ;; ret (if s_state s =? ST_IDLE then None else Some (sc_mode (q_conf (s_p s)))).
Definition smode_is (m : Z) : SM bool :=
  t <- stmode ;; ret (match t with Some x => x =? m | None => false end).

Definition sadd_packet (p : pdu) : SM unit :=
  modify (fun s => s <| s_queue ::= (fun q => q ++ [p]) |> <| s_ready ::= (fun n => n + 1) |>).

(* _reset_internal *)
Definition sreset_internal (clear : bool) : SM unit :=
  (* the ready counter is reset exactly where the queue is cleared (F28 repair) *)
  modify (fun s => s <| s_step := SS_IDLE |> <| s_state := ST_IDLE |>
                     <| s_queue ::= (fun q => if clear then [] else q) |>
                     <| s_ready ::= (fun n => if clear then 0 else n) |> <| s_p := reset_sparams |>).

(* ---- file access through the virtual filestore *)
Definition src_names : SM (path * path) :=
  p <- put_or_assert ;;
  match pr_names p with Some n => ret n | None => raise E_ASSERT end.

Definition checksum_calculation (size : Z) : SM bytes :=
  p <- put_or_assert ;;
  mdo <- gq q_md_only ;;
  if mdo then ret [0; 0; 0; 0] else
  match pr_names p with
  | None => raise E_ASSERT
  | Some (sn, _) =>
    r <- srcfg_or_assert ;;
    seg <- gq q_segment_len ;;
    fs <- gets (fun s => e_fs (s_env s)) ;;
    if r_cktype r =? CK_NULL then ret [0; 0; 0; 0] else
    match lookup fs sn with
    | None => raise E_FILE_NOT_FOUND
    | Some Dir => raise E_IS_A_DIRECTORY
    | Some (File d) =>
        match calculate_checksum (r_cktype r) (Some d) size seg with
        | Ok c => ret c
        | Err ChecksumNotImplemented => raise E_CHECKSUM_NOT_IMPL
        | Err FileNotFound => raise E_FILE_NOT_FOUND
        | Err ValueErr => raise E_VALUE
        | Err OutOfFuel => raise E_FUEL
        end
    end
  end.

(* _prepare_file_data_pdu *)
Definition prepare_file_data_pdu (offset read_len : Z) : SM unit :=
  n <- src_names ;;
  fs <- gets (fun s => e_fs (s_env s)) ;;
  match fs_read_data fs (fst n) offset read_len with
  | Err e => raise (oserr_exn e)
  | Ok d => c <- gq q_conf ;; sadd_packet (PFileData (hdr_of c TOWARDS_RECEIVER) offset d)
  end.

(* _prepare_metadata_pdu *)
Definition prepare_metadata_pdu : SM unit :=
  p <- put_or_assert ;;
  c <- gq q_conf ;; cl <- gq q_closure ;;
  let msgs := match pr_msgs p with Some l => l | None => [] end in
  match pr_names p with
  | None =>
      _ <- srcfg_or_assert ;;
      sadd_packet (PMetadata (hdr_of c TOWARDS_RECEIVER) cl CK_NULL 0 None msgs)
  | Some names =>
      r <- srcfg_or_assert ;;
      fsz <- gq q_file_size ;;
      sadd_packet (PMetadata (hdr_of c TOWARDS_RECEIVER) cl (r_cktype r) (opt_z fsz) (Some names) msgs)
  end.

(* _prepare_eof_pdu *)
Definition prepare_eof_pdu (cksum : bytes) : SM unit :=
  ce <- gq q_cond_eof ;;
  match ce with
  | None => raise E_ASSERT
  | Some cond =>
    c <- gq q_conf ;; pr <- gq q_progress ;;
    sadd_packet (PEof (hdr_of c TOWARDS_RECEIVER) cond cksum pr None) ;;;
    l <- gets s_cfg ;;
    when (l_ind_eof_sent l) (t <- stid_or_assert ;; semit (EvEofSent (fst t) (snd t)))
  end.

Definition start_positive_ack_procedure_s : SM unit :=
  r <- srcfg_or_assert ;; n <- snow ;;
  sset_step SS_WAITING_FOR_EOF_ACK ;;;
  setq (fun q => q <| q_ack_timer := Some (n, r_ack_ms r) |> <| q_ack_counter := 0 |>).

(* _handle_eof_sent *)
(* _notice_of_completion (source.py); defined here because the cancelled unacknowledged transaction ends through it *)
Definition notice_of_completion_s : SM unit :=
  l <- gets s_cfg ;;
  when (l_ind_fin l)
    (t <- stid_or_assert ;;
     f <- gq q_fin ;;
     let '(cond, deliv, fstatus, fl) := match f with Some x => x | None => (C_NO_ERROR, DATA_COMPLETE, FS_UNREPORTED, None) end in
     setq (fun q => q <| q_fin := Some (cond, deliv, fstatus, fl) |>) ;;;
     semit (EvFinished (fst t) (snd t) cond deliv fstatus fl)) ;;;
  sreset_internal false.

Definition handle_eof_sent (cancel_eof : bool) : SM unit :=
  ac <- smode_is ACKED ;;
  if ac then start_positive_ack_procedure_s else
  if cancel_eof then
    (* unacknowledged mode: the transaction ends with the EOF (cancel) PDU; the user is told (F21 repair) *)
    (ce <- gq q_cond_eof ;;
     match ce with
     | None => raise E_ASSERT
     | Some c => setq (fun q => q <| q_fin := Some (c, DATA_INCOMPLETE, FS_UNREPORTED, None) |>) ;;; notice_of_completion_s
     end)
  else
  cl <- gq q_closure ;;
  if cl then
    _ <- srcfg_or_assert ;;
    l <- gets s_cfg ;; n <- snow ;;
    setq (fun q => q <| q_check_timer := Some (n, l_check_ms l) |>) ;;;
    sset_step SS_WAITING_FOR_FINISHED
  else sset_step SS_NOTICE_OF_COMPLETION.

(* ---- fault declaration (source.py:938-985) *)
Definition notice_of_cancellation_s (cond : Z) : SM bool :=
  ce <- gq q_cond_eof ;;
  match ce with
  | Some c0 =>
      if negb (c0 =? C_NO_ERROR) then
        t <- stid_or_assert ;; pr <- gq q_progress ;;
        semit (EvFault FH_ABANDON (fst t) (snd t) c0 pr) ;;;
        sreset_internal true ;;; ret false
      else
        setq (fun q => q <| q_cond_eof := Some cond |>) ;;;
        pr <- gq q_progress ;; ck <- checksum_calculation pr ;;
        prepare_eof_pdu ck ;;; handle_eof_sent true ;;; ret true
  | None =>
      setq (fun q => q <| q_cond_eof := Some cond |>) ;;;
      pr <- gq q_progress ;; ck <- checksum_calculation pr ;;
      prepare_eof_pdu ck ;;; handle_eof_sent true ;;; ret true
  end.

(* what _declare_fault returns to its caller: whether the configured handler is IGNORE_ERROR *)
Definition fault_ignored (l : lcfg) (cond : Z) : bool :=
  match get_fault_handler (l_faults l) cond with Some h => h =? FH_IGNORE | None => false end.

Definition declare_fault_s (cond : Z) : SM unit :=
  l <- gets s_cfg ;;
  tid <- gq q_tid ;; pr <- gq q_progress ;;
  match tid with
  | None => raise E_ASSERT
  | Some (a, b) =>
    let fh := get_fault_handler (l_faults l) cond in
    go <-
      (match fh with
       | Some h =>
           if h =? FH_CANCEL then notice_of_cancellation_s cond
           else if h =? FH_ABANDON then (sreset_internal true ;;; ret true)
           else ret true
       | None => ret true
       end) ;;
    if negb go then ret tt else
    match fh with
    | None => raise E_VALUE                       (* report_fault: condition not in the table *)
    | Some h => semit (EvFault h a b cond pr)
    end
  end.

(* ---- transaction start (source.py:530-630) *)
Fixpoint originating_id (msgs : list Z) (found : option (Z * Z)) (response : bool) : option (Z * Z) :=
  match msgs with
  | [] => if response then None else found
  | m :: t =>
      if 1000 <=? m then originating_id t (Some ((m - 1000) / 100, (m - 1000) mod 100)) response
      else if m =? 1 then originating_id t found true
      else originating_id t found response
  end.

Definition transaction_start : SM unit :=
  p <- put_or_assert ;;
  let orig := match pr_msgs p with None => None | Some l => originating_id l None false end in
  (* _prepare_file_params *)
  (match pr_names p with
   | None => setq (fun q => q <| q_md_only := true |>)
   | Some (sn, _) =>
       fs <- gets (fun s => e_fs (s_env s)) ;;
       if negb (fs_file_exists fs sn) then raise E_SOURCE_FILE_MISSING else
       match fs_file_size fs sn with
       | Err e => raise (oserr_exn e)
       | Ok size => if size =? 0 then setq (fun q => q <| q_empty_file := true |>)
                    else setq (fun q => q <| q_file_size := Some size |>)
       end
   end) ;;;
  (* _prepare_pdu_conf *)
  r <- srcfg_or_assert ;;
  l <- gets s_cfg ;;
  fsz <- gq q_file_size ;; mdo <- gq q_md_only ;;
  (match fsz with
   | None => if mdo then ret tt else raise E_TYPE
   | Some sz => when (negb mdo) (setq (fun q => q <| q_conf ::= (fun c => c <| sc_large := (4294967295 <? sz) |>) |>))
   end) ;;;
  let w := Z.max (l_idw l) (pr_dstw p) in
  setq (fun q => q <| q_conf ::= (fun c => c <| sc_src := l_id l |> <| sc_srcw := w |> <| sc_dst := pr_dst p |>
                                              <| sc_dstw := w |> <| sc_crc := r_crc r |>) |>) ;;;
  (* _get_next_transfer_seq_num *)
  s <- get ;;
  let next := s_seq_count s in
  put (s <| s_seq_count := next + 1 |>) ;;;
  (if negb ((s_seq_bits s =? 8) || (s_seq_bits s =? 16) || (s_seq_bits s =? 32)) then raise E_VALUE
   else if 2 ^ (s_seq_bits s) <=? next then raise E_VALUE
   else setq (fun q => q <| q_conf ::= (fun c => c <| sc_seq := next |> <| sc_seqw := s_seq_bits s / 8 |>) |>)) ;;;
  (* _calculate_max_file_seg_len *)
  c <- gq q_conf ;;
  (match max_file_seg_len (hdr_of c TOWARDS_RECEIVER) (r_max_packet r) with
   | None => raise E_VALUE
   | Some derived =>
       (* the EOF PDU has to fit as well: header, directive code, condition code, checksum, file size, PDU CRC (F19 repair) *)
       let h := hdr_of c TOWARDS_RECEIVER in
       if r_max_packet r <? hdr_len h + 1 + 1 + 4 + fss_len h + crc_len h then raise E_VALUE else
       let seg := match r_max_seg r with
                  | Some m => if m <? derived then m else derived
                  | None => derived end in
       setq (fun q => q <| q_segment_len := seg |>)
   end) ;;;
  c <- gq q_conf ;;
  setq (fun q => q <| q_tid := Some (l_id l, sc_seq c) |>) ;;;
  semit (EvTransaction (l_id l) (sc_seq c) orig).

(* ---- retransmission (source.py:698-728) *)
Fixpoint retransmit_chunks (fuel : nat) (offset missing seg : Z) : SM unit :=
  if 0 <? missing then
    match fuel with
    | O => raise E_FUEL
    | S k =>
        let chunk := Z.min missing seg in
        prepare_file_data_pdu offset chunk ;;;
        retransmit_chunks k (offset + chunk) (missing - chunk) seg
    end
  else ret tt.

Definition handle_segment_req (rq : Z * Z) : SM unit :=
  let '(a, b) := rq in
  if (a =? 0) && (b =? 0) then prepare_metadata_pdu else
  if b <? a then raise E_INVALID_NAK else
  pr <- gq q_progress ;;
  if pr <? a then raise E_INVALID_NAK else
  if pr <? b then raise E_INVALID_NAK else
  seg <- gq q_segment_len ;;
  retransmit_chunks (S (Z.to_nat (b - a))) a (b - a) seg.

Definition handle_retransmission (pkt : option pdu) : SM bool :=
  match pkt with
  | Some (PNak _ _ _ reqs) =>
      fold_left (fun m rq => m ;;; handle_segment_req rq) reqs (ret tt) ;;;
      s <- get ;;
      put (s <| s_step_before := Some (s_step s) |> <| s_step := SS_RETRANSMITTING |>) ;;;
      ret true
  | _ => ret false
  end.

(* _prepare_progressing_file_data_pdu *)
Definition prepare_progressing_file_data_pdu : SM unit :=
  q <- gq (fun q => q) ;;
  let fsz := opt_z (q_file_size q) in
  let read_len :=
    if fsz <? q_segment_len q then fsz
    else if fsz <? q_progress q + q_segment_len q then fsz - q_progress q
    else q_segment_len q in
  prepare_file_data_pdu (q_progress q) read_len ;;;
  setq (fun q => q <| q_progress ::= (fun p => p + read_len) |>).

(* _sending_file_data_fsm: returns whether the FSM should return *)
Definition sending_file_data_fsm (pkt : option pdu) : SM bool :=
  ac <- smode_is ACKED ;;
  rt <- (if ac then handle_retransmission pkt else ret false) ;;
  if rt then ret true else
  q <- gq (fun q => q) ;;
  if negb (q_md_only q) && (q_progress q <? opt_z (q_file_size q)) then
    (prepare_progressing_file_data_pdu ;;; ret true)
  else
    (if q_empty_file q then
       setq (fun q => q <| q_cond_eof := Some C_NO_ERROR |>) ;;; sset_step SS_SENDING_EOF
     else if q_md_only q then
       (* F11 repair: in acknowledged mode the receiver's Finished PDU is awaited and acknowledged *)
       (if q_closure q || ac then sset_step SS_WAITING_FOR_FINISHED else sset_step SS_NOTICE_OF_COMPLETION)
     else ret tt) ;;;
    ret false.

(* _handle_positive_ack_procedures (source.py:755-770) *)
Definition handle_positive_ack_procedures_s : SM unit :=
  t <- gq q_ack_timer ;;
  match t with
  | None => raise E_ASSERT
  | Some tm =>
    r <- srcfg_or_assert ;; n <- snow ;;
    if negb (timed_out n tm) then ret tt else
    cnt <- gq q_ack_counter ;;
    let resend : SM unit :=
      setq (fun q => q <| q_ack_timer := Some (n, snd tm) |> <| q_ack_counter := cnt + 1 |>) ;;;
      pr <- gq q_progress ;;
      ck <- checksum_calculation pr ;;        (* F20 repair: the checksum of the bytes sent, as in the EOF it repeats *)
      prepare_eof_pdu ck in
    if r_ack_limit r <=? cnt + 1 then
      (* an ignored limit fault lets the procedure carry on, so it is not declared again by every call (F34 repair) *)
      declare_fault_s C_POS_ACK_LIMIT ;;;
      l <- gets s_cfg ;;
      if fault_ignored l C_POS_ACK_LIMIT then resend else ret tt
    else resend
  end.

(* _handle_waiting_for_ack *)
Definition handle_waiting_for_ack (pkt : option pdu) : SM unit :=
  rt <- handle_retransmission pkt ;;
  if rt then ret tt else
  match pkt with
  | Some (PAck _ acked _ _) => when (acked =? D_EOF) (sset_step SS_WAITING_FOR_FINISHED)
  | Some (PFinished _ _ _ _ _) => sset_step SS_WAITING_FOR_FINISHED   (* handled by the next step of the same call (F30 repair) *)
  | Some (PFileData _ _ _) => raise E_TYPE                      (* to_ack_pdu() on a File Data PDU *)
  | _ => handle_positive_ack_procedures_s
  end.

(* _handle_wait_for_finish *)
Definition handle_wait_for_finish (pkt : option pdu) : SM unit :=
  ac <- smode_is ACKED ;;
  rt <- (if ac then handle_retransmission pkt else ret false) ;;
  if rt then ret tt else
  match pkt with
  | Some (PFinished _ cond deliv fstatus fl) =>
      setq (fun q => q <| q_fin := Some (cond, deliv, fstatus, fl) |>) ;;;
      ac <- smode_is ACKED ;;
      if ac then
        c <- gq q_conf ;;
        sadd_packet (PAck (hdr_of c TOWARDS_RECEIVER) D_FINISHED cond TS_ACTIVE) ;;;
        sset_step SS_SENDING_ACK_OF_FINISHED
      else sset_step SS_NOTICE_OF_COMPLETION
  | _ =>
      t <- gq q_check_timer ;; n <- snow ;;
      match t with
      | Some tm =>
          when (timed_out n tm)
            (declare_fault_s C_CHECK_LIMIT ;;;
             l <- gets s_cfg ;;
             (* ignored: wait for another interval instead of declaring it again with every call (F34 repair) *)
             when (fault_ignored l C_CHECK_LIMIT) (setq (fun q => q <| q_check_timer := Some (n, snd tm) |>)))
      | None => ret tt
      end
  end.

(* _notice_of_completion *)
(* _fsm_advancement_after_packets_were_sent (source.py:811-823) *)
Definition fsm_advancement_s : SM unit :=
  s <- get ;;
  if 0 <? zlen (s_queue s) then raise E_UNRETRIEVED else
  let st := s_step s in
  if st =? SS_SENDING_METADATA then sset_step SS_SENDING_FILE_DATA
  else if st =? SS_RETRANSMITTING then
    match s_step_before s with None => raise E_ASSERT | Some b => sset_step b end
  else if st =? SS_SENDING_FILE_DATA then
    let q := s_p s in
    when (match q_file_size q with Some sz => q_progress q =? sz | None => false end)
      (setq (fun q => q <| q_cond_eof := Some C_NO_ERROR |>) ;;; sset_step SS_SENDING_EOF)
  else if st =? SS_SENDING_ACK_OF_FINISHED then sset_step SS_NOTICE_OF_COMPLETION
  else ret tt.

Definition sstep_is (v : Z) : SM bool := s <- gets s_step ;; ret (s =? v).

(* _fsm_non_idle (source.py:501-528) *)
Definition fsm_non_idle (pkt : option pdu) : SM unit :=
  fsm_advancement_s ;;;
  p <- gets s_put ;;
  match p with
  | None => ret tt
  | Some _ =>
    b <- sstep_is SS_IDLE ;; when b (sset_step SS_TRANSACTION_START) ;;;
    b <- sstep_is SS_TRANSACTION_START ;;
    when b (transaction_start ;;; sset_step SS_SENDING_METADATA) ;;;
    b <- sstep_is SS_SENDING_METADATA ;;
    if b then prepare_metadata_pdu else
    b <- sstep_is SS_SENDING_FILE_DATA ;;
    stop <- (if b then sending_file_data_fsm pkt else ret false) ;;
    if stop then ret tt else
    b <- sstep_is SS_SENDING_EOF ;;
    when b (fsz <- gq q_file_size ;; ck <- checksum_calculation (opt_z fsz) ;;
            prepare_eof_pdu ck ;;; handle_eof_sent false) ;;;
    b <- sstep_is SS_WAITING_FOR_EOF_ACK ;;
    when b (handle_waiting_for_ack pkt) ;;;
    b <- sstep_is SS_WAITING_FOR_FINISHED ;;
    when b (handle_wait_for_finish pkt) ;;;
    b <- sstep_is SS_NOTICE_OF_COMPLETION ;;
    when b notice_of_completion_s
  end.

(* ---- admission (source.py:383-428, after the F7/F12 repair) *)
Definition check_inserted_packet_s (p : pdu) : SM unit :=
  s <- get ;;
  let h := pdu_hdr p in
  let q := s_p s in
  if negb (h_dir h =? TOWARDS_SENDER) then raise E_INVALID_DIRECTION else
  if negb (h_src h =? l_id (s_cfg s)) then raise E_INVALID_SOURCE_ID else
  match q_rcfg q with
  | None => raise E_NO_REMOTE_CFG
  | Some r =>
    if negb (h_dst h =? r_id r) then raise E_INVALID_DEST_ID else
    if negb (h_seq h =? sc_seq (q_conf q)) then raise E_INVALID_SEQ_NUM else
    match packet_destination p with
    | None => raise E_VALUE
    | Some dest =>
      if dest =? 1 then raise E_INVALID_PDU_FOR_SOURCE else
      let d := match directive p with Some x => x | None => -1 end in
      if existsb (Z.eqb d) source_invalid_directives then raise E_INVALID_PDU_FOR_SOURCE else
      if (sc_mode (q_conf q) =? UNACKED) && ((d =? D_KEEP_ALIVE) || (d =? D_NAK)) then raise E_PDU_IGNORED_SOURCE else
      if negb (d =? D_NAK) then
        (* a Finished PDU implies the (lost) ACK of the EOF: accepted while waiting for that ACK (F30 repair) *)
        if (s_step s =? SS_WAITING_FOR_EOF_ACK) && negb ((d =? D_ACK) || (d =? D_FINISHED)) then raise E_PDU_IGNORED_SOURCE
        else if (s_step s =? SS_WAITING_FOR_FINISHED) && negb (d =? D_FINISHED) then raise E_PDU_IGNORED_SOURCE
        else ret tt
      else ret tt
    end
  end.

(* ---- public API *)
Definition state_machine_s (pkt : option pdu) : SM unit :=
  (match pkt with Some p => check_inserted_packet_s p | None => ret tt end) ;;;
  s <- get ;;
  if s_state s =? ST_IDLE then ret tt else fsm_non_idle pkt.

Definition get_next_packet_s : SM (option pdu) :=
  s <- get ;;
  match s_queue s with
  | [] => ret None
  | p :: q => put (s <| s_queue := q |> <| s_ready ::= (fun n => n - 1) |>) ;;; ret (Some p)
  end.

Definition put_request (p : putreq) : SM bool :=
  s <- get ;;
  if negb (s_state s =? ST_IDLE) then ret false else
  put (s <| s_put := Some p |>) ;;;
  (match pr_names p with
   | Some (sn, _) => if fs_file_exists (e_fs (s_env s)) sn then ret tt else raise E_SOURCE_FILE_MISSING
   | None => ret tt
   end) ;;;
  let r := get_remote (l_remotes (s_cfg s)) (pr_dst p) in
  setq (fun q => q <| q_rcfg := r |>) ;;;
  match r with
  | None => raise E_NO_REMOTE_CFG
  | Some r =>
    setq (fun q => q <| q_conf ::= (fun c => c <| sc_dst := pr_dst p |> <| sc_dstw := pr_dstw p |>) |>) ;;;
    modify (fun s => s <| s_state := ST_BUSY |>) ;;;          (* the ready counter is left alone (F28 repair) *)
    let mode := match pr_mode p with Some m => m | None => r_mode r end in
    let cl := match pr_closure p with Some c => c | None => r_closure r end in
    setq (fun q => q <| q_conf ::= (fun c => c <| sc_mode := mode |>) |> <| q_closure := cl |>) ;;;
    ret true
  end.

(* cancel_request: the first test compares a TransactionStep with CfdpState.IDLE and is never true *)
Definition cancel_request_s (a b : Z) : SM bool :=
  s <- get ;;
  if 0 <? s_ready s then raise E_UNRETRIEVED else
  match q_tid (s_p s) with
  | Some (x, y) =>
      if (x =? a) && (y =? b) then (notice_of_cancellation_s C_CANCEL_REQUEST ;;; ret true) else ret false
  | None => ret false
  end.

Definition reset_s : SM unit := sreset_internal true.
