(* Property C07 — The source emits a conformant, complete and size-bounded PDU stream.
   Model: Source.v driven by state_machine(None) + full drain, no inbound PDUs.
   Reading: quantified over every file content, every configuration whose effective segment
   length is >= 1 and whose maximum packet length can hold an EOF PDU (6 <= derived).  A maximum
   packet length that cannot hold a base File Data PDU or cannot hold an EOF PDU is refused with
   ValueError at transaction start (c07_packet_too_small_refused, see also C19; the latter is the
   repair of finding F19), so File Data, EOF and ACK PDUs never exceed max_packet_len. *)
From CFDP Require Import Base Fs Crc Checksum Handler Dest Source HandlerSpec SourceSpec.
From CFDP.proofs Require Import StreamProofs.
From RecordUpdate Require Import RecordSet.
Import RecordSetNotations.

(* the whole stream of an accepted put request on a fresh handler, call by call:
   Metadata; one File Data PDU per call tiling [0, size) in ascending order; EOF.
   Every PDU carries the same header h: transaction id (local id, provider value), entity ids of
   equal width (the larger of the two), the resolved mode, the CRC flag, direction towards receiver *)
Theorem c07_src_stream :
  forall (c : lcfg) (seq0 bits : Z) (fs : tree) (p : putreq) (r : rcfg) (sn dn : path) (d cks : bytes),
  let w := Z.max (l_idw c) (pr_dstw p) in
  let large := 4294967295 <? zlen d in
  let derived := r_max_packet r - (4 + 2 * w + bits / 8) - (if large then 8 else 4) - (if r_crc r then 2 else 0) in
  let seg := match r_max_seg r with Some m => Z.min m derived | None => derived end in
  let mode := match pr_mode p with Some m => m | None => r_mode r end in
  let closure := match pr_closure p with Some b => b | None => r_closure r end in
  let h := mkHdr TOWARDS_RECEIVER mode (r_crc r) large (l_id c) (pr_dst p) w seq0 (bits / 8) in
  let msgs := match pr_msgs p with Some l => l | None => [] end in
  get_remote (l_remotes c) (pr_dst p) = Some r ->
  pr_names p = Some (sn, dn) -> lookup fs sn = Some (File d) -> sn <> [] ->
  (bits = 8 \/ bits = 16 \/ bits = 32) -> 0 <= seq0 < 2 ^ bits ->
  1 <= seg -> 6 <= derived -> (mode = ACKED \/ mode = UNACKED) ->
  calculate_checksum (r_cktype r) (Some d) (zlen d) seg = Ok cks ->
  (mode = ACKED -> 0 < r_ack_ms r) -> (mode = UNACKED -> closure = true -> 0 < l_check_ms c) ->
  let s1 := fst (put_request p (src_fresh c seq0 bits fs)) in
  exists s',
    pumps (2 + length (tiles seg d)) s1 =
      (s', Ok ([PMetadata h closure (r_cktype r) (zlen d) (Some (sn, dn)) msgs]
               :: map (fun t => [fd_of h t]) (tiles seg d)
               ++ [[PEof h C_NO_ERROR cks (zlen d) None]])) /\
    s_step s' = (if mode =? ACKED then SS_WAITING_FOR_EOF_ACK
                 else if closure then SS_WAITING_FOR_FINISHED else SS_IDLE).
Proof. exact src_stream. Qed.
Print Assumptions c07_src_stream.

(* the tiling is exact: concatenating the tiles gives the file, offsets are k * seg, every tile is
   non-empty and no longer than the segment length *)
Theorem c07_tiles_exact : forall seg d, 1 <= seg ->
  concat (map snd (tiles seg d)) = d /\
  (forall k t, nth_error (tiles seg d) k = Some t ->
     fst t = Z.of_nat k * seg /\ 1 <= zlen (snd t) <= seg /\ snd t = ztake seg (zdrop (fst t) d)).
Proof. exact tiles_exact. Qed.
Print Assumptions c07_tiles_exact.

(* size bounds: as soon as the packet can hold an EOF PDU (which transaction start enforces),
   File Data, ACK and EOF PDUs never exceed max_packet_len *)
Theorem c07_len_bounds : forall (h : hdr) (maxp seg : Z) off data,
  seg <= maxp - hdr_len h - fss_len h - crc_len h -> zlen data <= seg ->
  6 <= maxp - hdr_len h - fss_len h - crc_len h ->
  pdu_len (PFileData h off data) <= maxp /\
  (forall a c s, pdu_len (PAck h a c s) <= maxp) /\
  (forall c ck sz, pdu_len (PEof h c ck sz None) <= maxp).
Proof. exact len_bounds. Qed.
Print Assumptions c07_len_bounds.

(* the same for the stream of c07_src_stream: every File Data PDU of the stream, the EOF PDU and
   any ACK PDU with the transaction's header fit r_max_packet, without further provisos *)
Theorem c07_stream_len_bounds :
  forall (c : lcfg) (seq0 bits : Z) (p : putreq) (r : rcfg) (d : bytes) (mode : Z),
  let w := Z.max (l_idw c) (pr_dstw p) in
  let large := 4294967295 <? zlen d in
  let derived := r_max_packet r - (4 + 2 * w + bits / 8) - (if large then 8 else 4) - (if r_crc r then 2 else 0) in
  let seg := match r_max_seg r with Some m => Z.min m derived | None => derived end in
  let h := mkHdr TOWARDS_RECEIVER mode (r_crc r) large (l_id c) (pr_dst p) w seq0 (bits / 8) in
  1 <= seg -> 6 <= derived ->
  (forall t, In t (tiles seg d) -> pdu_len (fd_of h t) <= r_max_packet r) /\
  (forall cond ck sz, pdu_len (PEof h cond ck sz None) <= r_max_packet r) /\
  (forall a cond st, pdu_len (PAck h a cond st) <= r_max_packet r).
Proof. exact stream_len_bounds. Qed.
Print Assumptions c07_stream_len_bounds.

(* a maximum packet length that cannot hold a File Data PDU, or cannot hold an EOF PDU (header,
   directive code, condition code, checksum, file size, PDU CRC), is refused with ValueError at
   transaction start; h is the header the transaction would use *)
Theorem c07_packet_too_small_refused : forall s p r sn dn d,
  s_put s = Some p -> pr_names p = Some (sn, dn) -> q_rcfg (s_p s) = Some r ->
  lookup (fs_s s) sn = Some (File d) -> q_file_size (s_p s) = Some 0 -> q_md_only (s_p s) = false ->
  (s_seq_bits s = 8 \/ s_seq_bits s = 16 \/ s_seq_bits s = 32) -> 0 <= s_seq_count s < 2 ^ s_seq_bits s ->
  let w := Z.max (l_idw (s_cfg s)) (pr_dstw p) in
  let h := mkHdr TOWARDS_RECEIVER (sc_mode (q_conf (s_p s))) (r_crc r) (4294967295 <? zlen d)
                 (l_id (s_cfg s)) (pr_dst p) w (s_seq_count s) (s_seq_bits s / 8) in
  (max_file_seg_len h (r_max_packet r) = None \/ r_max_packet r < hdr_len h + 6 + fss_len h + crc_len h) ->
  snd (transaction_start s) = Err E_VALUE.
Proof. exact packet_too_small_refused. Qed.
Print Assumptions c07_packet_too_small_refused.

(* non-vacuity: 5 bytes, segment length 2 *)
Example c07_nv : tiles 2 [10; 11; 12; 13; 14] = [(0, [10; 11]); (2, [12; 13]); (4, [14])].
Proof. vm_compute. reflexivity. Qed.
