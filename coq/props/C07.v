(* Property C07 — The source emits a conformant, complete and size-bounded PDU stream.
   Model: Source.v driven by state_machine(None) + full drain, no inbound PDUs.
   Reading: quantified over every file content, every configuration whose effective segment
   length is >= 1 (a maximum packet length that cannot hold a base File Data PDU is refused with
   ValueError at transaction start, see C19).  EOF <= max_packet_len needs the packet to be able
   to hold an EOF PDU at all (known finding F19 otherwise). *)
From CFDP Require Import Base Fs Crc Checksum Handler Dest Source HandlerSpec SourceSpec.
From CFDP.proofs Require Import StreamProofs.
From RecordUpdate Require Import RecordSet.
Import RecordSetNotations.

(* the whole stream of an accepted put request on a fresh handler, call by call:
   Metadata; one File Data PDU per call tiling [0, size) in ascending order; EOF.
   Every PDU carries the same header h: transaction id (local id, provider value), entity ids of
   equal width (the larger of the two), the resolved mode, the CRC flag, direction towards receiver *)
Theorem c07_src_stream :
  forall (c : lcfg) (seq0 bits : Z) (fs : tree) (p : putreq) (r : rcfg) (sn dn : path) (d cks : bytes),
  let w := Z.max (l_idw c) (pr_dstw p) in
  let large := 4294967295 <? zlen d in
  let derived := r_max_packet r - (4 + 2 * w + bits / 8) - (if large then 8 else 4) - (if r_crc r then 2 else 0) in
  let seg := match r_max_seg r with Some m => Z.min m derived | None => derived end in
  let mode := match pr_mode p with Some m => m | None => r_mode r end in
  let closure := match pr_closure p with Some b => b | None => r_closure r end in
  let h := mkHdr TOWARDS_RECEIVER mode (r_crc r) large (l_id c) (pr_dst p) w seq0 (bits / 8) in
  let msgs := match pr_msgs p with Some l => l | None => [] end in
  get_remote (l_remotes c) (pr_dst p) = Some r ->
  pr_names p = Some (sn, dn) -> lookup fs sn = Some (File d) -> sn <> [] ->
  (bits = 8 \/ bits = 16 \/ bits = 32) -> 0 <= seq0 < 2 ^ bits ->
  1 <= seg -> (mode = ACKED \/ mode = UNACKED) ->
  calculate_checksum (r_cktype r) (Some d) (zlen d) seg = Ok cks ->
  (mode = ACKED -> 0 < r_ack_ms r) -> (mode = UNACKED -> closure = true -> 0 < l_check_ms c) ->
  let s1 := fst (put_request p (src_fresh c seq0 bits fs)) in
  exists s',
    pumps (2 + length (tiles seg d)) s1 =
      (s', Ok ([PMetadata h closure (r_cktype r) (zlen d) (Some (sn, dn)) msgs]
               :: map (fun t => [fd_of h t]) (tiles seg d)
               ++ [[PEof h C_NO_ERROR cks (zlen d) None]])) /\
    s_step s' = (if mode =? ACKED then SS_WAITING_FOR_EOF_ACK
                 else if closure then SS_WAITING_FOR_FINISHED else SS_IDLE).
Proof. exact src_stream. Qed.
Print Assumptions c07_src_stream.

(* the tiling is exact: concatenating the tiles gives the file, offsets are k * seg, every tile is
   non-empty and no longer than the segment length *)
Theorem c07_tiles_exact : forall seg d, 1 <= seg ->
  concat (map snd (tiles seg d)) = d /\
  (forall k t, nth_error (tiles seg d) k = Some t ->
     fst t = Z.of_nat k * seg /\ 1 <= zlen (snd t) <= seg /\ snd t = ztake seg (zdrop (fst t) d)).
Proof. exact tiles_exact. Qed.
Print Assumptions c07_tiles_exact.

(* size bounds: File Data and ACK PDUs never exceed max_packet_len; EOF does not either as soon
   as the packet can hold an EOF PDU at all *)
Theorem c07_len_bounds : forall (h : hdr) (maxp seg : Z) off data,
  seg <= maxp - hdr_len h - fss_len h - crc_len h -> zlen data <= seg ->
  pdu_len (PFileData h off data) <= maxp /\
  (0 <= seg -> forall a c s, pdu_len (PAck h a c s) <= maxp) /\
  (hdr_len h + 6 + fss_len h + crc_len h <= maxp -> forall c ck sz, pdu_len (PEof h c ck sz None) <= maxp).
Proof. exact len_bounds. Qed.
Print Assumptions c07_len_bounds.

(* non-vacuity: 5 bytes, segment length 2 *)
Example c07_nv : tiles 2 [10; 11; 12; 13; 14] = [(0, [10; 11]); (2, [12; 13]); (4, [14])].
Proof. vm_compute. reflexivity. Qed.
