(* Property C03, unbounded instances K = 1, control PDUs — acknowledged mode recovers from the loss of any ONE of the
   PDUs that are not File Data or Metadata: the EOF PDU, the ACK (EOF), the Finished PDU, the ACK (Finished); for EVERY
   file and configuration.  n = number of File Data PDUs of the stream; indices on the sender->receiver direction:
   0 Metadata, 1..n File Data, n+1 EOF, n+2 ACK (Finished); on the receiver->sender direction: 0 ACK (EOF), 1 Finished.
   The claim is delivery (delivered_ok) and that no API call of either entity raises an exception (y_errs = []); it
   holds for each of the four faults:
     lost EOF PDU        the sender's Positive-ACK timer expires, the EOF PDU is sent again; then as on a perfect link;
     lost ACK (EOF)      the receiver completes and sends the Finished PDU; the sender, still waiting for the ACK (EOF),
                         takes the Finished PDU for it and answers ACK (Finished) in the same call: no timer expiry,
                         no idle round (before fix 179debf of the Python code, finding F30, the sender refused that
                         Finished PDU with PduIgnoredForSource, y_errs was not empty, and the recovery needed the
                         sender's timer not to expire later than the receiver's);
     lost Finished PDU   the receiver's Positive-ACK timer expires, the Finished PDU is sent again;
     lost ACK (Finished) the sender finishes; the receiver's timer expires, the re-sent Finished PDU meets the idle sender
                         whose entity remembers the transaction and answers ACK (Finished, terminated).
   In none of them does a late duplicate reach a handler that has to refuse it.  Rounds without activity advance the
   clock by [tick] (System.run); no relation between [tick] and the timer intervals, nor between the two intervals, is
   assumed: as many idle rounds pass as the timer in question needs.  Neither the NAK timer, the NAK limit nor the
   receiver's maximum packet length matter (no data is lost).
   (ControlLossProofs.control_pdu_loss_fault_free is the same statement with the conclusion fault_free_ok: in addition no
   fault event in either log and exactly one Transaction-Finished indication of the receiver.) *)
From CFDP Require Import Base LostSeg Fs Crc Checksum Handler Dest Source SourceSpec System.
From CFDP.proofs Require Import ControlLossProofs.

Theorem c03_control_pdu_loss :
  forall (cs cd : lcfg) (seq0 bits : Z) (p : putreq) (rs rd : rcfg) (sn dn : path) (data : bytes) (tick : Z) (ft : fault),
  let w := Z.max (l_idw cs) (pr_dstw p) in
  let large := 4294967295 <? zlen data in
  let derived := r_max_packet rs - (4 + 2 * w + bits / 8) - (if large then 8 else 4) - (if r_crc rs then 2 else 0) in
  let seg := match r_max_seg rs with Some m => Z.min m derived | None => derived end in
  (* sender side: entity cs sends to the entity named by the request; acknowledged mode *)
  get_remote (l_remotes cs) (pr_dst p) = Some rs ->
  pr_names p = Some (sn, dn) -> sn <> [] -> dn <> [] -> pr_msgs p = None ->
  (match pr_mode p with Some m => m | None => r_mode rs end) = ACKED ->
  (* the Positive-ACK limits exceed the number of faults (K = 1); every idle round advances the clocks *)
  2 <= r_ack_limit rs -> 2 <= r_ack_limit rd -> 0 < tick ->
  (* the lost PDU: EOF or ACK (Finished) on the way to the receiver, ACK (EOF) or Finished on the way back *)
  let n := (zlen data + seg - 1) / seg in
  (ft = mkFault 0 (n + 1) 0 0 \/ ft = mkFault 0 (n + 2) 0 0 \/ ft = mkFault 1 0 0 0 \/ ft = mkFault 1 1 0 0) ->
  (* the Positive-ACK timer intervals of both entities are positive: with an interval <= 0 the timer has expired in
     the very call that starts it (sender: Positive ACK Limit fault when the limit is 1; receiver: a second Finished
     PDU is prepared before the first was retrieved -> UnretrievedPdusToBeSent) *)
  0 < r_ack_ms rs -> 0 < r_ack_ms rd ->
  (bits = 8 \/ bits = 16 \/ bits = 32) -> 0 <= seq0 < 2 ^ bits -> 1 <= seg -> 6 <= derived ->
  (r_cktype rs = CK_CRC32 \/ r_cktype rs = CK_CRC32C \/ r_cktype rs = CK_NULL \/ r_cktype rs = CK_MODULAR) ->
  bytes_ok data = true ->
  (* receiver side: entity cd is the addressed entity and knows the sender; the destination path is a fresh file name
     directly under the root of an empty filestore *)
  l_id cd = pr_dst p -> get_remote (l_remotes cd) (l_id cs) = Some rd -> length dn = 1%nat ->
  get_fault_handler (l_faults cd) C_CHECKSUM_FAILURE <> None ->
  l_ind_fin cs = true -> l_ind_fin cd = true ->
  exists fuel,
    let res := transfer cs cd seq0 bits p sn data [ft] fuel tick in
    delivered_ok dn data res = true /\ y_errs (fst res) = [].
Proof. exact control_pdu_loss. Qed.
Print Assumptions c03_control_pdu_loss.
