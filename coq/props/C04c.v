(* Property C04, closed form, receiver side — a silent peer cannot hang the receiver: waiting for the ACK of its
   Finished PDU, with Positive ACK Limit Reached configured as notice of cancellation (the default), after exactly 2N
   expiries the handler is idle, having re-sent the Finished PDU N-1 times, sent one Finished (Positive ACK Limit
   Reached) and re-sent that N-1 times; the last expiry abandons silently.  For every limit N >= 1. *)
From CFDP Require Import Base LostSeg Fs Handler Dest HandlerSpec.
From CFDP.proofs Require Import SilentReceiverProofs.
From RecordUpdate Require Import RecordSet.
Import RecordSetNotations.

(* retrieve every queued PDU *)
Definition drain_d (s : dst) : dst * list pdu :=
  (s <| d_queue := [] |> <| d_ready := d_ready s - zlen (d_queue s) |>, d_queue s).
(* one timer interval passes, then one call without a PDU, then everything queued is retrieved *)
Definition expire_d (ms : Z) (s : dst) : dst * res Z (list pdu) :=
  match Dest.state_machine None (s <| d_env ::= (fun e => e <| e_now ::= Z.add ms |>) |>) with
  | (s', Ok _) => let '(s'', ps) := drain_d s' in (s'', Ok ps)
  | (s', Err e) => (s', Err e)
  end.
Fixpoint expires_d (n : nat) (ms : Z) (s : dst) : dst * res Z (list (list pdu)) :=
  match n with
  | O => (s, Ok [])
  | S k => match expire_d ms s with
           | (s', Ok ps) => match expires_d k ms s' with
                            | (s'', Ok rest) => (s'', Ok (ps :: rest))
                            | (s'', Err e) => (s'', Err e)
                            end
           | (s', Err e) => (s', Err e)
           end
  end.

Theorem c04_dest_silent_peer_bounded : forall (N : nat) (s : dst) (r : rcfg) (a b : Z),
  (1 <= N)%nat -> r_ack_limit r = Z.of_nat N -> 0 < r_ack_ms r ->
  d_state s = ST_BUSY -> d_step s = DS_WAITING_FOR_FINISHED_ACK -> d_queue s = [] -> d_ready s = 0 ->
  p_rcfg (d_p s) = Some r -> p_ack_timer (d_p s) = Some (now_d s, r_ack_ms r) -> p_ack_counter (d_p s) = 0 ->
  p_disp (d_p s) <> DISP_CANCELED -> p_tid (d_p s) = Some (a, b) -> h_mode (p_conf (d_p s)) = ACKED ->
  get_fault_handler (l_faults (d_cfg s)) C_POS_ACK_LIMIT = Some FH_CANCEL ->
  let h := set_dir TOWARDS_SENDER (p_conf (d_p s)) in
  let f := p_fin (d_p s) in
  let del := r_disposition r && (f_deliv f =? DATA_INCOMPLETE) in
  let fstatus' := if del then FS_DISCARDED_DELIBERATELY else f_fstatus f in
  let fin0 := PFinished h (f_cond f) (f_deliv f) (f_fstatus f) (f_fl f) in
  let fin1 := PFinished h C_POS_ACK_LIMIT (f_deliv f) fstatus' (f_fl f) in
  exists s',
    expires_d (2 * N) (r_ack_ms r) s =
      (s', Ok (repeat [fin0] (N - 1) ++ [[fin1]] ++ repeat [fin1] (N - 1) ++ [[]])) /\
    d_state s' = ST_IDLE /\ d_step s' = DS_IDLE /\ d_queue s' = [] /\
    fs_d s' = (if del then fst (fs_delete_file (fs_d s) (p_file_name (d_p s))) else fs_d s).
Proof. exact dest_silent_peer_bounded. Qed.
Print Assumptions c04_dest_silent_peer_bounded.
