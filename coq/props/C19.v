(* Property C19 — Put requests are admitted, parameterised and identified correctly.
   Model: Source.put_request, Source.transaction_start (source.py:308-356, 530-630, 865-877, 928-936). *)
From CFDP Require Import Base Fs Handler Dest Source HandlerSpec.
From CFDP.proofs Require Import PutProofs.
From RecordUpdate Require Import RecordSet.
Import RecordSetNotations.

(* a busy handler returns false and nothing at all changes (the running transaction is unaffected) *)
Theorem c19_put_busy_refused : forall p s, s_state s <> ST_IDLE -> put_request p s = (s, Ok false).
Proof. exact put_busy_refused. Qed.
Print Assumptions c19_put_busy_refused.

(* a missing source file raises SourceFileDoesNotExist; only the remembered request changes *)
Theorem c19_put_missing_source : forall p s sn dn,
  s_state s = ST_IDLE -> pr_names p = Some (sn, dn) -> fs_file_exists (fs_s s) sn = false ->
  put_request p s = (s <| s_put := Some p |>, Err E_SOURCE_FILE_MISSING).
Proof. exact put_missing_source. Qed.
Print Assumptions c19_put_missing_source.

(* an unknown destination entity raises NoRemoteEntityCfgFound; the handler stays idle *)
Theorem c19_put_unknown_dest : forall p s,
  s_state s = ST_IDLE ->
  (match pr_names p with Some (sn, _) => fs_file_exists (fs_s s) sn = true | None => True end) ->
  get_remote (l_remotes (s_cfg s)) (pr_dst p) = None ->
  exists s', put_request p s = (s', Err E_NO_REMOTE_CFG) /\ s_state s' = ST_IDLE /\ s_step s' = s_step s /\
             s_queue s' = s_queue s /\ s_seq_count s' = s_seq_count s /\ fs_s s' = fs_s s.
Proof. exact put_unknown_dest. Qed.
Print Assumptions c19_put_unknown_dest.

(* ... and reusable: after a refused request the next request behaves exactly as on the state before.
   (q_rcfg = None holds in every idle state: it is None initially and reset() sets it to None;
   without it the statement is false, see failed_put_reusable_counterexample in proofs/PutProofs.v) *)
Theorem c19_failed_put_reusable : forall p p2 s s' e,
  s_state s = ST_IDLE -> q_rcfg (s_p s) = None -> put_request p s = (s', Err e) -> put_request p2 s' = put_request p2 s.
Proof. exact failed_put_reusable_partial. Qed.
Print Assumptions c19_failed_put_reusable.

(* an accepted request: mode and closure come from the request when given, else from the MIB *)
Theorem c19_put_accepted : forall p s r,
  s_state s = ST_IDLE ->
  (match pr_names p with Some (sn, _) => fs_file_exists (fs_s s) sn = true | None => True end) ->
  get_remote (l_remotes (s_cfg s)) (pr_dst p) = Some r ->
  exists s', put_request p s = (s', Ok true) /\
    s_state s' = ST_BUSY /\ s_put s' = Some p /\ q_rcfg (s_p s') = Some r /\
    sc_mode (q_conf (s_p s')) = (match pr_mode p with Some m => m | None => r_mode r end) /\
    q_closure (s_p s') = (match pr_closure p with Some c => c | None => r_closure r end) /\
    s_ready s' = s_ready s /\ s_step s' = s_step s /\ s_queue s' = s_queue s /\ s_seq_count s' = s_seq_count s.
Proof. exact put_accepted. Qed.
Print Assumptions c19_put_accepted.

(* transaction start (on the parameter block as the constructor / reset() leave it: file size 0, not
   metadata-only, not empty-file): segment length = the smaller of the configured maximum and what the maximum
   packet length allows; the transaction obtains the next provider value; id widths are equalised.
   The packet has to hold the EOF PDU as well (F19 repair), which is 6 bytes longer than a File Data PDU
   without data (directive code, condition code, 4-byte checksum): 6 <= derived *)
Definition derived_seg_len (r : rcfg) (w seqw : Z) (large : bool) : Z :=
  r_max_packet r - (4 + 2 * w + seqw) - (if large then 8 else 4) - (if r_crc r then 2 else 0).

Theorem c19_transaction_start : forall s p r sn dn d,
  s_put s = Some p -> pr_names p = Some (sn, dn) -> q_rcfg (s_p s) = Some r ->
  lookup (fs_s s) sn = Some (File d) -> sn <> [] ->
  q_file_size (s_p s) = Some 0 -> q_md_only (s_p s) = false -> q_empty_file (s_p s) = false ->
  (s_seq_bits s = 8 \/ s_seq_bits s = 16 \/ s_seq_bits s = 32) -> 0 <= s_seq_count s < 2 ^ s_seq_bits s ->
  let w := Z.max (l_idw (s_cfg s)) (pr_dstw p) in
  let large := 4294967295 <? zlen d in
  let derived := derived_seg_len r w (s_seq_bits s / 8) large in
  6 <= derived ->
  exists s', transaction_start s = (s', Ok tt) /\
    q_segment_len (s_p s') = (match r_max_seg r with Some m => Z.min m derived | None => derived end) /\
    q_tid (s_p s') = Some (l_id (s_cfg s), s_seq_count s) /\
    sc_seq (q_conf (s_p s')) = s_seq_count s /\ sc_seqw (q_conf (s_p s')) = s_seq_bits s / 8 /\
    s_seq_count s' = s_seq_count s + 1 /\
    sc_srcw (q_conf (s_p s')) = w /\ sc_dstw (q_conf (s_p s')) = w /\
    sc_src (q_conf (s_p s')) = l_id (s_cfg s) /\ sc_dst (q_conf (s_p s')) = pr_dst p /\
    sc_crc (q_conf (s_p s')) = r_crc r /\ sc_large (q_conf (s_p s')) = large /\
    sc_mode (q_conf (s_p s')) = sc_mode (q_conf (s_p s)) /\ q_closure (s_p s') = q_closure (s_p s) /\
    q_file_size (s_p s') = Some (zlen d) /\ q_empty_file (s_p s') = (zlen d =? 0) /\
    log_s s' = EvTransaction (l_id (s_cfg s)) (s_seq_count s)
                 (match pr_msgs p with None => None | Some l => originating_id l None false end) :: log_s s.
Proof. exact transaction_start_partial. Qed.
Print Assumptions c19_transaction_start.

(* a maximum packet length that cannot hold a base File Data PDU is a ValueError *)
Theorem c19_transaction_start_too_small : forall s p r sn dn d,
  s_put s = Some p -> pr_names p = Some (sn, dn) -> q_rcfg (s_p s) = Some r ->
  lookup (fs_s s) sn = Some (File d) -> sn <> [] -> q_file_size (s_p s) = Some 0 -> q_md_only (s_p s) = false ->
  (s_seq_bits s = 8 \/ s_seq_bits s = 16 \/ s_seq_bits s = 32) -> 0 <= s_seq_count s < 2 ^ s_seq_bits s ->
  derived_seg_len r (Z.max (l_idw (s_cfg s)) (pr_dstw p)) (s_seq_bits s / 8) (4294967295 <? zlen d) < 0 ->
  snd (transaction_start s) = Err E_VALUE.
Proof. exact transaction_start_too_small_partial. Qed.
Print Assumptions c19_transaction_start_too_small.

(* ... and so is one that can hold a File Data PDU (with fewer than 6 bytes of file data) but not the EOF PDU:
   max_file_seg_len ... = Some derived with derived < 6, i.e.
   r_max_packet r < hdr_len h + 1 + 1 + 4 + fss_len h + crc_len h.  Together with c19_transaction_start
   the bound is exact: the transaction starts iff 6 <= derived *)
Theorem c19_transaction_start_packet_too_small : forall s p r sn dn d,
  s_put s = Some p -> pr_names p = Some (sn, dn) -> q_rcfg (s_p s) = Some r ->
  lookup (fs_s s) sn = Some (File d) -> sn <> [] -> q_file_size (s_p s) = Some 0 -> q_md_only (s_p s) = false ->
  (s_seq_bits s = 8 \/ s_seq_bits s = 16 \/ s_seq_bits s = 32) -> 0 <= s_seq_count s < 2 ^ s_seq_bits s ->
  derived_seg_len r (Z.max (l_idw (s_cfg s)) (pr_dstw p)) (s_seq_bits s / 8) (4294967295 <? zlen d) < 6 ->
  snd (transaction_start s) = Err E_VALUE.
Proof. exact transaction_start_packet_too_small_partial. Qed.
Print Assumptions c19_transaction_start_packet_too_small.

(* the provider value only ever grows, so two transactions of one handler never share an id *)
Theorem c19_seq_monotone : forall pkt s, s_seq_count s <= s_seq_count (fst (state_machine_s pkt s)).
Proof. exact seq_monotone. Qed.
Print Assumptions c19_seq_monotone.
Theorem c19_seq_unchanged_elsewhere : forall s p a b,
  s_seq_count (fst (put_request p s)) = s_seq_count s /\
  s_seq_count (fst (cancel_request_s a b s)) = s_seq_count s /\
  s_seq_count (fst (get_next_packet_s s)) = s_seq_count s /\
  s_seq_count (fst (reset_s s)) = s_seq_count s.
Proof. exact seq_unchanged_elsewhere. Qed.
Print Assumptions c19_seq_unchanged_elsewhere.
