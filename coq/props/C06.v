(* Property C06 — NAKs request exactly what is missing.   (partial: see the end of this file)
   Model: Dest.lost_segment_handling, deferred_lost_segment_handling, nak_split, handle_no_error_eof
   (dest.py:867-960, 986-1016) with the tracker LostSeg.v (whose refinement to a set of bytes is C18). *)
From CFDP Require Import Base LostSeg LostSegSpec Fs Handler Dest HandlerSpec.
From CFDP.proofs Require Import NakProofs.
From RecordUpdate Require Import RecordSet.
Import RecordSetNotations.

Definition nak_reqs (p : pdu) : list (Z * Z) := match p with PNak _ _ _ r => r | _ => [] end.

(* splitting the tracked ranges into NAK PDUs: taken together the PDUs request exactly the accumulated
   requests followed by the tracked ranges, in order; every PDU but the remainder is full *)
Theorem c06_nak_split_exact : forall h eos maxn acc tr ps rest,
  1 <= maxn -> zlen acc < maxn -> nak_split h eos maxn acc tr = (ps, rest) ->
  flat_map nak_reqs ps ++ rest = acc ++ tr /\ zlen rest < maxn /\
  Forall (fun p => exists r, p = PNak h 0 eos r /\ zlen r = maxn) ps.
Proof. exact nak_split_exact. Qed.
Print Assumptions c06_nak_split_exact.

(* a NAK PDU with at most max_seg_reqs requests respects the maximum packet length *)
Theorem c06_nak_len_bound : forall h maxp maxn sos eos r,
  max_seg_reqs maxp h = Some maxn -> zlen r <= maxn -> pdu_len (PNak h sos eos r) <= maxp.
Proof. exact nak_len_bound. Qed.
Print Assumptions c06_nak_len_bound.

(* one issue of the deferred procedure (first issue, or re-issue after the NAK timer expired):
   the NAK PDUs queued request, taken together, (0,0) iff metadata is missing, then exactly the tracked
   ranges; scope (0, EOF size); every PDU within the packet length *)
Theorem c06_deferred_issue : forall s r eos maxn,
  p_deferred (d_p s) = true -> p_disp (d_p s) <> DISP_CANCELED -> p_rcfg (d_p s) = Some r -> p_file_size_eof (d_p s) = Some eos ->
  (p_tracker (d_p s) <> [] \/ p_md_missing (d_p s) = true) ->
  (match p_proc_timer (d_p s) with
   | None => True
   | Some t => timed_out (now_d s) t = true /\ p_nak_counter (d_p s) + 1 <> r_nak_limit r end) ->
  max_seg_reqs (r_max_packet r) (p_conf (d_p s)) = Some maxn -> 1 <= maxn ->
  exists s' naks,
    deferred_lost_segment_handling s = (s', Ok tt) /\ d_queue s' = d_queue s ++ naks /\
    flat_map nak_reqs naks = (if p_md_missing (d_p s) then [(0, 0)] else []) ++ p_tracker (d_p s) /\
    Forall (fun p => exists rq, p = PNak (set_dir TOWARDS_SENDER (p_conf (d_p s))) 0 eos rq /\ 1 <= zlen rq <= maxn /\
                                 pdu_len p <= r_max_packet r) naks /\
    p_tracker (d_p s') = p_tracker (d_p s) /\ d_step s' = d_step s /\ fs_d s' = fs_d s /\
    p_nak_counter (d_p s') = (match p_proc_timer (d_p s) with None => p_nak_counter (d_p s) | Some _ => p_nak_counter (d_p s) + 1 end).
Proof. exact deferred_issue. Qed.
Print Assumptions c06_deferred_issue.

(* while the NAK timer runs nothing is sent *)
Theorem c06_deferred_wait : forall s r eos t,
  p_deferred (d_p s) = true -> p_rcfg (d_p s) = Some r -> p_file_size_eof (d_p s) = Some eos ->
  (p_tracker (d_p s) <> [] \/ p_md_missing (d_p s) = true) ->
  p_proc_timer (d_p s) = Some t -> timed_out (now_d s) t = false ->
  deferred_lost_segment_handling s = (s, Ok tt).
Proof. exact deferred_wait. Qed.
Print Assumptions c06_deferred_wait.

(* when nothing is missing no NAK is sent: the checksum is verified and the transfer proceeds to completion *)
Theorem c06_nothing_missing : forall s r eos s1 b,
  p_deferred (d_p s) = true -> p_disp (d_p s) <> DISP_CANCELED ->
  p_rcfg (d_p s) = Some r -> p_file_size_eof (d_p s) = Some eos ->
  p_tracker (d_p s) = [] -> p_md_missing (d_p s) = false ->
  checksum_verify s = (s1, Ok b) ->
  exists s', deferred_lost_segment_handling s = (s', Ok tt) /\
    d_queue s' = d_queue s1 /\ d_step s' = DS_TRANSFER_COMPLETION /\ p_deferred (d_p s') = false.
Proof. exact nothing_missing. Qed.
Print Assumptions c06_nothing_missing.

(* F35 repair: a cancelled transaction (a fault declared while the PDU of the same call was handled, with a handler that
   cancels) is left alone by the deferred procedure: nothing is requested, the checksum is not verified, the step and the
   cancel condition stand.  (Before the repair the procedure went on as in c06_nothing_missing: it verified the checksum,
   replaced the cancel condition by No Error / Data Complete and the transaction was reported successful.) *)
Theorem c06_deferred_cancelled_does_nothing : forall s,
  p_deferred (d_p s) = true -> p_disp (d_p s) = DISP_CANCELED ->
  deferred_lost_segment_handling s = (s, Ok tt).
Proof. exact deferred_cancelled_does_nothing. Qed.
Print Assumptions c06_deferred_cancelled_does_nothing.

(* gap detection on arrival of a File Data PDU (acknowledged mode) *)
Theorem c06_in_order_no_request : forall s off len,
  off = p_last_end (d_p s) -> 0 <= p_last_start (d_p s) <= p_last_end (d_p s) -> 0 < len ->
  exists s', lost_segment_handling off len s = (s', Ok tt) /\
    p_tracker (d_p s') = p_tracker (d_p s) /\ d_queue s' = d_queue s /\
    p_last_start (d_p s') = off /\ p_last_end (d_p s') = off + len.
Proof. exact in_order_no_request. Qed.
Print Assumptions c06_in_order_no_request.

Theorem c06_gap_requested : forall s off len r,
  p_last_end (d_p s) < off -> 0 <= p_last_start (d_p s) <= p_last_end (d_p s) -> 0 < len -> p_rcfg (d_p s) = Some r ->
  exists s', lost_segment_handling off len s = (s', Ok tt) /\
    p_tracker (d_p s') = add (p_last_end (d_p s), off) (p_tracker (d_p s)) /\
    d_queue s' = d_queue s ++ (if r_imm_nak r
                               then [PNak (set_dir TOWARDS_SENDER (p_conf (d_p s))) 0 (off + len) [(p_last_end (d_p s), off)]]
                               else []) /\
    p_last_start (d_p s') = off /\ p_last_end (d_p s') = off + len.
Proof. exact gap_requested. Qed.
Print Assumptions c06_gap_requested.

(* re-sent data below the frontier segment, on a well-formed tracker, that lies within one tracked range or touches none
   (op_pre, the precondition of C18's remove): the call leaves exactly the tracker the single removal leaves.  Since the
   F9 repair the call loops over the tracked ranges and removes from each the part the data covers; for data that
   overlaps tracked ranges in any other way see c06_tracker_never_forgets (props/C06b.v). *)
Theorem c06_retransmitted_removed : forall s off len tr' b,
  Inv (p_tracker (d_p s)) -> op_pre (p_tracker (d_p s)) (ORemove off (off + len)) ->
  off + len <= p_last_start (d_p s) -> off < p_last_end (d_p s) ->
  LostSeg.remove (off, off + len) (p_tracker (d_p s)) = Ok (tr', b) ->
  exists s', lost_segment_handling off len s = (s', Ok tt) /\ p_tracker (d_p s') = tr' /\ d_queue s' = d_queue s.
Proof. exact retransmitted_removed. Qed.
Print Assumptions c06_retransmitted_removed.

(* Not proved here (Tier B of DESIGN.md 6/C06): the history-level invariant "the tracker denotes exactly
   [0, extent) minus the stored bytes" for every arrival order of grid segments.  It is the composition of
   the step lemmas above with C18's refinement theorems; bin/check C06 evaluates it on every explored history
   of the implementation with an independent interval-set oracle. *)
