(* Property C17 — Native filestore operations match a reference file-system model.
   The reference model is Fs.v (its agreement with NativeFilestore on the host file
   system is established by the correspondence run of bin/check C17).  The theorems
   below are the laws the property demands of that reference model. *)
From CFDP Require Import Base Fs FsSpec.
From CFDP.proofs Require Import FsProofs.

(* a refused or failing operation leaves the tree unchanged (literally the same value) *)
Theorem c17_refused_unchanged : forall t o,
  is_success o (snd (fstep t o)) = false -> fst (fstep t o) = t.
Proof. exact refused_unchanged. Qed.
Print Assumptions c17_refused_unchanged.

(* success codes only when the effect happened *)
Theorem c17_success_effect : forall t o,
  is_success o (snd (fstep t o)) = true -> effect t (fst (fstep t o)) o.
Proof. exact success_effect. Qed.
Print Assumptions c17_success_effect.

(* every operation changes only the paths it names (recursive removal: the subtree) *)
Theorem c17_other_paths_unchanged : forall t o q,
  ~ touches o q -> lookup (fst (fstep t o)) q = lookup t q.
Proof. exact other_paths_unchanged. Qed.
Print Assumptions c17_other_paths_unchanged.

(* the specific refusal code for each failed precondition *)
Theorem c17_create_codes : forall t p,
  snd (fs_create_file t p) =
    if exists_ t p then CREATE_NOT_ALLOWED else if parent_is_dir t p then CREATE_SUCCESS else CREATE_NOT_ALLOWED.
Proof. exact create_codes. Qed.
Theorem c17_delete_codes : forall t p,
  snd (fs_delete_file t p) =
    match lookup t p with None => DELETE_FILE_DOES_NOT_EXIST | Some Dir => DELETE_NOT_ALLOWED | Some (File _) => DELETE_SUCCESS end.
Proof. exact delete_codes. Qed.
Theorem c17_rename_codes : forall t a b t' c,
  fs_rename_file t a b = Ok (t', c) ->
  (c = RENAME_NOT_PERFORMED <-> (is_dir t a || is_dir t b = true)) /\
  (c = RENAME_OLD_FILE_DOES_NOT_EXIST <-> (is_dir t a || is_dir t b = false /\ lookup t a = None)) /\
  (c = RENAME_NEW_FILE_DOES_EXIST <-> (is_dir t a || is_dir t b = false /\ lookup t a <> None /\ exists_ t b = true)) /\
  (c = RENAME_SUCCESS <-> (is_dir t a || is_dir t b = false /\ lookup t a <> None /\ exists_ t b = false)).
Proof. exact rename_codes. Qed.
Theorem c17_replace_codes : forall t a b,
  snd (fs_replace_file t a b) =
    if is_dir t a || is_dir t b then REPLACE_NOT_ALLOWED
    else if negb (exists_ t a) then REPLACE_ONE_DOES_NOT_EXIST
    else if negb (exists_ t b) then REPLACE_TWO_DOES_NOT_EXIST else REPLACE_SUCCESS.
Proof. exact replace_codes. Qed.
Theorem c17_rmdir_codes : forall t p r, p <> [] ->
  snd (fs_remove_directory t p r) =
    match lookup t p with
    | None => REMOVE_DIR_DOES_NOT_EXIST
    | Some (File _) => REMOVE_DIR_NOT_ALLOWED
    | Some Dir => if r then REMOVE_DIR_SUCCESS else if has_child t p then REMOVE_DIR_NOT_ALLOWED else REMOVE_DIR_SUCCESS
    end.
Proof. exact rmdir_codes. Qed.
Theorem c17_mkdir_codes : forall t p t' c,
  fs_create_directory t p = Ok (t', c) ->
  (c = CREATE_DIR_CAN_NOT_BE_CREATED <-> exists_ t p = true) /\ (c = CREATE_DIR_SUCCESS <-> exists_ t p = false).
Proof. exact mkdir_codes. Qed.
Print Assumptions c17_rename_codes.

(* data written at an offset is read back identically *)
Theorem c17_write_read_roundtrip : forall t p old d off,
  lookup t p = Some (File old) -> p <> [] -> 0 <= off ->
  exists t', fs_write_data t p d off = Ok t' /\ fs_read_data t' p off (zlen d) = Ok d.
Proof. exact write_read_roundtrip. Qed.
Print Assumptions c17_write_read_roundtrip.

(* ... and leaves all other bytes untouched; a gap between the old end and the offset reads as zeros *)
Theorem c17_write_frame : forall old d off i,
  0 <= off -> d <> [] -> 0 <= i -> ~ (off <= i < off + zlen d) ->
  nth_error (write_at old off d) (Z.to_nat i) =
    if i <? zlen old then nth_error old (Z.to_nat i)
    else if i <? off then Some 0 else None.
Proof. exact write_frame. Qed.
Print Assumptions c17_write_frame.
Theorem c17_write_length : forall old d off,
  0 <= off -> d <> [] -> zlen (write_at old off d) = Z.max (zlen old) (off + zlen d).
Proof. exact write_length. Qed.
Theorem c17_write_empty : forall old off, write_at old off [] = old.
Proof. exact write_empty. Qed.

(* lookup after set_node / remove_path: the two facts everything above rests on, exported *)
Theorem c17_lookup_set_node : forall t p n q, p <> [] ->
  lookup (set_node t p n) q = if path_eqb p q then Some n else lookup t q.
Proof. exact lookup_set_node. Qed.
Print Assumptions c17_lookup_set_node.

(* non-vacuity *)
Example c17_nv :
  let t := frun [] [FMkdir [4]; FCreate [4; 1]; FWrite [4; 1] [7; 8] 3; FRmdir [4] false] in
  lookup t [4; 1] = Some (File [0; 0; 0; 7; 8]) /\ snd (fstep t (FRmdir [4] false)) = RCode REMOVE_DIR_NOT_ALLOWED
  /\ snd (fstep t (FRmdir [4] true)) = RCode REMOVE_DIR_SUCCESS /\ lookup (fst (fstep t (FRmdir [4] true))) [4; 1] = None.
Proof. vm_compute. repeat split. Qed.
