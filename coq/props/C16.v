(* Property C16 — All file access goes through the user-supplied virtual filestore.   (partial)
   What a theorem can carry: in the model the handlers use the filestore only through its interface
   (lookup-observable behaviour).  Representation independence: two filestores that answer every lookup alike
   (two implementations of the same abstract store) give the same results, the same PDUs, the same indications
   and again lookup-equal stores, for every call of either handler, hence for every history.
   The runtime half (no open()/Path.exists() behind the filestore's back in the Python code) cannot be exhibited
   by a Gallina model; it is carried by bin/check C16: native vs in-memory vs in-memory-with-host-decoys runs,
   with host access from cfdppy/handler frames recorded. *)
From CFDP Require Import Base LostSeg Fs FsSpec Handler Dest Source HandlerSpec.
From CFDP.proofs Require Import VfsProofs.
From RecordUpdate Require Import RecordSet.
Import RecordSetNotations.

(* equal up to the representation of the filestore *)
Definition eqv_d (s s' : dst) : Prop :=
  same_tree (fs_d s) (fs_d s') /\ s' = s <| d_env ::= (fun e => e <| e_fs := fs_d s' |>) |>.
Definition eqv_s (s s' : src) : Prop :=
  same_tree (fs_s s) (fs_s s') /\ s' = s <| s_env ::= (fun e => e <| e_fs := fs_s s' |>) |>.

Theorem c16_dest_parametric : forall pkt s s',
  eqv_d s s' ->
  eqv_d (fst (Dest.state_machine pkt s)) (fst (Dest.state_machine pkt s')) /\
  snd (Dest.state_machine pkt s) = snd (Dest.state_machine pkt s').
Proof. exact dest_parametric. Qed.
Print Assumptions c16_dest_parametric.

Theorem c16_source_parametric : forall pkt s s',
  eqv_s s s' ->
  eqv_s (fst (state_machine_s pkt s)) (fst (state_machine_s pkt s')) /\
  snd (state_machine_s pkt s) = snd (state_machine_s pkt s').
Proof. exact source_parametric. Qed.
Print Assumptions c16_source_parametric.

Theorem c16_source_api_parametric : forall s s' p a b,
  eqv_s s s' ->
  (eqv_s (fst (put_request p s)) (fst (put_request p s')) /\ snd (put_request p s) = snd (put_request p s')) /\
  (eqv_s (fst (cancel_request_s a b s)) (fst (cancel_request_s a b s')) /\
   snd (cancel_request_s a b s) = snd (cancel_request_s a b s')) /\
  (eqv_s (fst (get_next_packet_s s)) (fst (get_next_packet_s s')) /\ snd (get_next_packet_s s) = snd (get_next_packet_s s')).
Proof. exact source_api_parametric. Qed.
Print Assumptions c16_source_api_parametric.

Theorem c16_dest_api_parametric : forall s s' a b,
  eqv_d s s' ->
  (eqv_d (fst (Dest.cancel_request a b s)) (fst (Dest.cancel_request a b s')) /\
   snd (Dest.cancel_request a b s) = snd (Dest.cancel_request a b s')) /\
  (eqv_d (fst (Dest.get_next_packet s)) (fst (Dest.get_next_packet s')) /\ snd (Dest.get_next_packet s) = snd (Dest.get_next_packet s')).
Proof. exact dest_api_parametric. Qed.
Print Assumptions c16_dest_api_parametric.

(* the filestore operations the handlers call respect lookup-equality *)
Theorem c16_fs_ops_extensional : forall t t' p d off,
  same_tree t t' ->
  fs_file_exists t p = fs_file_exists t' p /\ fs_is_directory t p = fs_is_directory t' p /\
  file_content t p = file_content t' p /\ fs_file_size t p = fs_file_size t' p /\
  fs_read_data t p off (zlen d) = fs_read_data t' p off (zlen d) /\
  same_tree (fst (fs_create_file t p)) (fst (fs_create_file t' p)) /\
  same_tree (fst (fs_delete_file t p)) (fst (fs_delete_file t' p)) /\
  (match fs_write_data t p d off, fs_write_data t' p d off with
   | Ok a, Ok b => same_tree a b | Err e, Err e' => e = e' | _, _ => False end) /\
  (match fs_truncate_file t p, fs_truncate_file t' p with
   | Ok a, Ok b => same_tree a b | Err e, Err e' => e = e' | _, _ => False end).
Proof. exact fs_ops_extensional. Qed.
Print Assumptions c16_fs_ops_extensional.

(* non-vacuity: two different representations of one store *)
Example c16_nv : same_tree [([1], File [7]); ([2], Dir)] [([2], Dir); ([1], File [7]); ([1], File [9])] /\
                 [([1], File [7]); ([2], Dir)] <> [([2], Dir); ([1], File [7]); ([1], File [9])].
Proof. exact nv_same_tree. Qed.
