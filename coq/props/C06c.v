(* Property C06, end to end — the EOF phase on the receiver through the real entry points (Dest.state_machine).
   A fresh destination handler receives the Metadata PDU of a file, then ANY history of File Data PDUs that are tiles
   of the file (any order, any duplication, any subset, possibly none), each through state_machine, then the
   EOF (no error) PDU, then is polled; after every call everything queued is retrieved (fsm_advancement refuses to run
   while PDUs are pending).  The clock may advance by any amount before each call.
   c06_eof_requests_exactly_missing: the output of EVERY call of the run, exactly: nothing for the Metadata; for each
   File Data PDU nothing in deferred NAK mode and, in immediate NAK mode, the NAK for the gap between the extent received
   so far and the PDU's offset; ACK(EOF) for the EOF; and for the poll the NAK sequence of the deferred procedure, which
   requests exactly the bytes of [0, EOF file size) not covered by the history.
   c06_eof_nothing_missing: every byte covered -> no NAK (whatever the checksum verdict), completion in the next call.
   c06_eof_without_metadata: EOF before Metadata -> (0,0) then the whole file.
   c06_eof_reissue_requests_exactly_missing: retransmissions, NAK timer expiry -> exactly what is still missing.
   c06_eof_retransmission_completes: the retransmission that fills the last gap completes the transfer in its own call.
   Hypotheses, all satisfiable (proofs/EofNakProofs.v, ex_hyps) and all needed (ex_unwritable, ex_zero_nak_timer):
   acknowledged mode, a remote configuration for the sender, room for one segment request per NAK PDU, 0 < NAK timer
   interval, and [dest_writable]: the destination file exists or can be created - exactly the condition under which the
   writes of the File Data succeed on a fresh handler; otherwise every write raises, handle_fd_pdu swallows the error and
   the requests computed at the EOF overlap (ex_unwritable).
   Composes props/C06b.v (tracker invariant over histories) with props/C06.v (one issue of the deferred procedure). *)
From CFDP Require Import Base LostSeg LostSegSpec Fs Checksum Handler Dest HandlerSpec.
From CFDP.proofs Require Import EofNakProofs.
From RecordUpdate Require Import RecordSet.
Import RecordSetNotations.

Definition nak_reqs (p : pdu) : list (Z * Z) := match p with PNak _ _ _ r => r | _ => [] end.
(* (offset, length) is one of the tiles of a file of [size] bytes cut at [seg]  (as in props/C06b.v) *)
Definition tile (seg size : Z) (fd : Z * Z) : Prop :=
  exists k, 0 <= k /\ fst fd = k * seg /\ snd fd = Z.min seg (size - fst fd) /\ 0 < snd fd.
Definition covered (hist : list (Z * Z)) (x : Z) : Prop :=
  exists fd, In fd hist /\ fst fd <= x < fst fd + snd fd.

(* ---- running the handler: one call = clock advance, state_machine(packet), retrieval of everything queued *)
Definition drain_d (s : dst) : dst * list pdu :=
  (s <| d_queue := [] |> <| d_ready := d_ready s - zlen (d_queue s) |>, d_queue s).
Definition tick (dt : Z) (s : dst) : dst := s <| d_env ::= (fun e => e <| e_now ::= Z.add dt |>) |>.
Definition call_d (c : Z * option pdu) (s : dst) : dst * res Z (list pdu) :=
  match state_machine (snd c) (tick (fst c) s) with
  | (s', Ok _) => let '(s'', ps) := drain_d s' in (s'', Ok ps)
  | (s', Err e) => (s', Err e)
  end.
(* a sequence of calls; the output of each call separately *)
Fixpoint calls_d (cs : list (Z * option pdu)) (s : dst) : dst * res Z (list (list pdu)) :=
  match cs with
  | [] => (s, Ok [])
  | c :: t => match call_d c s with
              | (s', Ok ps) => match calls_d t s' with
                               | (s'', Ok rest) => (s'', Ok (ps :: rest))
                               | (s'', Err e) => (s'', Err e)
                               end
              | (s', Err e) => (s', Err e)
              end
  end.
(* a freshly constructed destination handler whose filestore holds [fs] *)
Definition dst_fresh (c : lcfg) (fs : tree) : dst := (dst_init c) <| d_env ::= (fun e => e <| e_fs := fs |>) |>.

(* one File Data PDU of the history: clock advance before the call, offset, data *)
Definition fd_call (hd : hdr) (x : Z * (Z * bytes)) : Z * option pdu :=
  (fst x, Some (PFileData hd (fst (snd x)) (snd (snd x)))).
Definition fd_len (x : Z * (Z * bytes)) : Z * Z := (fst (snd x), zlen (snd (snd x))).
(* the NAK sent at once when a File Data PDU arrives beyond the extent received so far (immediate NAK mode) *)
Definition gap_nak (imm : bool) (hd : hdr) (ext off len : Z) : list pdu :=
  if imm && (ext <? off) then [PNak hd 0 (off + len) [(ext, off)]] else [].
Fixpoint gap_naks (imm : bool) (hd : hdr) (ext : Z) (hist : list (Z * Z)) : list (list pdu) :=
  match hist with
  | [] => []
  | fd :: t => gap_nak imm hd ext (fst fd) (snd fd) :: gap_naks imm hd (Z.max ext (fst fd + snd fd)) t
  end.
(* the name of the destination file (dest.py _init_vfs_handling) and the condition under which it can be written *)
Definition dest_name (fs : tree) (sn dn : path) : path :=
  if fs_is_directory fs dn then (match rev sn with b :: _ => dn ++ [b] | [] => dn end) else dn.
Definition dest_writable (fs : tree) (p : path) : Prop :=
  (exists d, lookup fs p = Some (File d)) \/ (lookup fs p = None /\ parent_is_dir fs p = true).

Definition not_nak (p : pdu) : Prop := match p with PNak _ _ _ _ => False | _ => True end.

(* the NAK sequence issued when the EOF (no error) arrived before the Metadata: the metadata request (0,0) first, then
   the whole file; one request per PDU when only one fits *)
Definition md_naks (hd : hdr) (size maxn : Z) : list pdu :=
  if 0 <? size then
    (if 1 =? maxn then [PNak hd 0 size [(0, 0)]; PNak hd 0 size [(0, size)]] else [PNak hd 0 size [(0, 0); (0, size)]])
  else [PNak hd 0 size [(0, 0)]].

Theorem c06_eof_requests_exactly_missing :
  forall (c : lcfg) (r : rcfg) (hd : hdr) (fs : tree) (closure : bool) (ck msize : Z) (sn dn : path) (msgs : list Z)
         (seg size maxn : Z) (fds : list (Z * (Z * bytes))) (cks : bytes) (fl : option (Z * Z)) (t0 t1 t2 : Z),
  h_dir hd = TOWARDS_RECEIVER -> h_mode hd = ACKED -> h_dst hd = l_id c ->
  get_remote (l_remotes c) (h_src hd) = Some r -> 0 < r_nak_ms r ->
  max_seg_reqs (r_max_packet r) hd = Some maxn -> 1 <= maxn ->
  dest_writable fs (dest_name fs sn dn) ->
  0 < seg -> Forall (tile seg size) (map fd_len fds) ->
  (exists x, 0 <= x < size /\ ~ covered (map fd_len fds) x) ->
  exists s' naks,
    calls_d ((t0, Some (PMetadata hd closure ck msize (Some (sn, dn)) msgs)) :: map (fd_call hd) fds ++
             [(t1, Some (PEof hd C_NO_ERROR cks size fl)); (t2, None)]) (dst_fresh c fs) =
      (s', Ok ([] :: gap_naks (r_imm_nak r) (set_dir TOWARDS_SENDER hd) 0 (map fd_len fds) ++
               [[PAck (set_dir TOWARDS_SENDER hd) D_EOF C_NO_ERROR TS_ACTIVE]; naks])) /\
    (forall x, den (flat_map nak_reqs naks) x <-> (0 <= x < size /\ ~ covered (map fd_len fds) x)) /\
    InvGap (flat_map nak_reqs naks) /\
    Forall (fun rq => 0 <= fst rq /\ fst rq < snd rq /\ snd rq <= size) (flat_map nak_reqs naks) /\
    ~ In (0, 0) (flat_map nak_reqs naks) /\
    Forall (fun p => exists rq, p = PNak (set_dir TOWARDS_SENDER hd) 0 size rq /\ 1 <= zlen rq <= maxn /\
                                 pdu_len p <= r_max_packet r) naks /\
    naks <> [] /\
    d_state s' = ST_BUSY /\ d_step s' = DS_WAITING_FOR_MISSING_DATA /\ d_queue s' = [] /\
    p_tracker (d_p s') = flat_map nak_reqs naks /\
    p_proc_timer (d_p s') = Some (now_d s', r_nak_ms r) /\ p_nak_counter (d_p s') = 0.
Proof. exact eof_requests_exactly_missing. Qed.
Print Assumptions c06_eof_requests_exactly_missing.

(* when every byte of [0, EOF file size) is covered by the history: the EOF call acknowledges the EOF and leaves the tracker
   empty; the next call sends NO NAK: it verifies the checksum and, when the checksum of the destination file matches
   the EOF's (or the null checksum is used), completes the transfer in that same call - the Finished PDU (no error, data
   complete, file retained) is queued and the handler waits for its ACK; and WHATEVER the verdict of the verification
   (mismatch with any fault handler configured or none, checksum type not implemented, ...) that call queues no NAK *)
Theorem c06_eof_nothing_missing :
  forall (c : lcfg) (r : rcfg) (hd : hdr) (fs : tree) (closure : bool) (ck msize : Z) (sn dn : path) (msgs : list Z)
         (seg size : Z) (fds : list (Z * (Z * bytes))) (cks : bytes) (fl : option (Z * Z)) (t0 t1 : Z),
  h_dir hd = TOWARDS_RECEIVER -> h_mode hd = ACKED -> h_dst hd = l_id c ->
  get_remote (l_remotes c) (h_src hd) = Some r ->
  dest_writable fs (dest_name fs sn dn) ->
  0 < seg -> 0 <= size -> Forall (tile seg size) (map fd_len fds) ->
  (forall x, 0 <= x < size -> covered (map fd_len fds) x) ->
  exists s2 d,
    calls_d ((t0, Some (PMetadata hd closure ck msize (Some (sn, dn)) msgs)) :: map (fd_call hd) fds ++
             [(t1, Some (PEof hd C_NO_ERROR cks size fl))]) (dst_fresh c fs) =
      (s2, Ok ([] :: gap_naks (r_imm_nak r) (set_dir TOWARDS_SENDER hd) 0 (map fd_len fds) ++
               [[PAck (set_dir TOWARDS_SENDER hd) D_EOF C_NO_ERROR TS_ACTIVE]])) /\
    p_tracker (d_p s2) = [] /\ p_md_missing (d_p s2) = false /\ d_step s2 = DS_SENDING_EOF_ACK /\ d_queue s2 = [] /\
    p_progress (d_p s2) = size /\ lookup (fs_d s2) (dest_name fs sn dn) = Some (File d) /\
    (forall t2, 0 < r_ack_ms r -> (ck = CK_NULL \/ calculate_checksum ck (Some d) size 4096 = Ok cks) ->
       exists s3,
         call_d (t2, None) s2 = (s3, Ok [PFinished (set_dir TOWARDS_SENDER hd) C_NO_ERROR DATA_COMPLETE FS_RETAINED None]) /\
         d_state s3 = ST_BUSY /\ d_step s3 = DS_WAITING_FOR_FINISHED_ACK /\
         p_fin (d_p s3) = mkFin DATA_COMPLETE FS_RETAINED C_NO_ERROR None /\
         p_ack_timer (d_p s3) = Some (now_d s3, r_ack_ms r) /\ fs_d s3 = fs_d s2 /\
         log_d s3 = (if l_ind_fin c then EvFinished (h_src hd) (h_seq hd) C_NO_ERROR DATA_COMPLETE FS_RETAINED None :: log_d s2
                     else log_d s2)) /\
    (forall t2, 0 < r_ack_ms r -> Forall not_nak (d_queue (fst (state_machine None (tick t2 s2))))).
Proof. exact eof_nothing_missing. Qed.
Print Assumptions c06_eof_nothing_missing.

(* Metadata MISSING: the EOF (no error) is the first PDU of the transaction on a fresh handler.  The EOF call acknowledges
   the EOF; the next call issues the NAK sequence: the metadata request (0,0) followed by the whole file (0, size)
   (nothing but (0,0) for an empty file), scope (0, size), every PDU within the packet length; the handler then waits for
   the Metadata with the NAK timer running. *)
Theorem c06_eof_without_metadata :
  forall (c : lcfg) (r : rcfg) (hd : hdr) (fs : tree) (size maxn : Z) (cks : bytes) (fl : option (Z * Z)) (t0 t1 : Z),
  h_dir hd = TOWARDS_RECEIVER -> h_mode hd = ACKED -> h_dst hd = l_id c ->
  get_remote (l_remotes c) (h_src hd) = Some r -> 0 < r_nak_ms r ->
  max_seg_reqs (r_max_packet r) hd = Some maxn -> 1 <= maxn ->
  let naks := md_naks (set_dir TOWARDS_SENDER hd) size maxn in
  exists s',
    calls_d [(t0, Some (PEof hd C_NO_ERROR cks size fl)); (t1, None)] (dst_fresh c fs) =
      (s', Ok [[PAck (set_dir TOWARDS_SENDER hd) D_EOF C_NO_ERROR TS_ACTIVE]; naks]) /\
    flat_map nak_reqs naks = (0, 0) :: (if 0 <? size then [(0, size)] else []) /\
    Forall (fun p => pdu_len p <= r_max_packet r) naks /\
    d_state s' = ST_BUSY /\ d_step s' = DS_WAITING_FOR_METADATA /\ d_queue s' = [] /\
    p_md_missing (d_p s') = true /\ p_tracker (d_p s') = (if 0 <? size then [(0, size)] else []) /\
    p_proc_timer (d_p s') = Some (now_d s', r_nak_ms r) /\ p_nak_counter (d_p s') = 0 /\ fs_d s' = fs.
Proof. exact eof_without_metadata. Qed.
Print Assumptions c06_eof_without_metadata.

(* RE-ISSUE.  After the first NAK sequence a further sub-history [fds2] of tiles arrives (the sender's retransmissions,
   any order, any duplication, not everything that is missing); each of these calls sends nothing and restarts the NAK
   timer.  When the NAK timer expires (r_nak_ms r <= t3 since the last call; the limit is not 1) the next call issues
   the NAK sequence again: it requests exactly the bytes of [0, size) covered neither by the first history nor by the
   retransmissions; well-formed ranges inside [0, size), scope (0, size), packet length respected; the NAK counter is 1. *)
Theorem c06_eof_reissue_requests_exactly_missing :
  forall (c : lcfg) (r : rcfg) (hd : hdr) (fs : tree) (closure : bool) (ck msize : Z) (sn dn : path) (msgs : list Z)
         (seg size maxn : Z) (fds fds2 : list (Z * (Z * bytes))) (cks : bytes) (fl : option (Z * Z)) (t0 t1 t2 t3 : Z),
  h_dir hd = TOWARDS_RECEIVER -> h_mode hd = ACKED -> h_dst hd = l_id c ->
  get_remote (l_remotes c) (h_src hd) = Some r ->
  0 < r_nak_ms r -> r_nak_ms r <= t3 -> r_nak_limit r <> 1 ->
  max_seg_reqs (r_max_packet r) hd = Some maxn -> 1 <= maxn ->
  dest_writable fs (dest_name fs sn dn) ->
  0 < seg -> Forall (tile seg size) (map fd_len fds) -> Forall (tile seg size) (map fd_len fds2) ->
  (exists x, 0 <= x < size /\ ~ covered (map fd_len fds ++ map fd_len fds2) x) ->
  exists s' naks naks2,
    calls_d (((t0, Some (PMetadata hd closure ck msize (Some (sn, dn)) msgs)) :: map (fd_call hd) fds ++
              [(t1, Some (PEof hd C_NO_ERROR cks size fl)); (t2, None)]) ++
             map (fd_call hd) fds2 ++ [(t3, None)]) (dst_fresh c fs) =
      (s', Ok (([] :: gap_naks (r_imm_nak r) (set_dir TOWARDS_SENDER hd) 0 (map fd_len fds) ++
                [[PAck (set_dir TOWARDS_SENDER hd) D_EOF C_NO_ERROR TS_ACTIVE]; naks]) ++
               map (fun _ => []) fds2 ++ [naks2])) /\
    (forall x, den (flat_map nak_reqs naks) x <-> (0 <= x < size /\ ~ covered (map fd_len fds) x)) /\
    (forall x, den (flat_map nak_reqs naks2) x <-> (0 <= x < size /\ ~ covered (map fd_len fds ++ map fd_len fds2) x)) /\
    Inv (flat_map nak_reqs naks2) /\
    Forall (fun rq => 0 <= fst rq /\ fst rq < snd rq /\ snd rq <= size) (flat_map nak_reqs naks2) /\
    ~ In (0, 0) (flat_map nak_reqs naks2) /\
    Forall (fun p => exists rq, p = PNak (set_dir TOWARDS_SENDER hd) 0 size rq /\ 1 <= zlen rq <= maxn /\
                                 pdu_len p <= r_max_packet r) naks2 /\
    naks2 <> [] /\
    d_state s' = ST_BUSY /\ d_step s' = DS_WAITING_FOR_MISSING_DATA /\ d_queue s' = [] /\
    p_tracker (d_p s') = flat_map nak_reqs naks2 /\
    p_proc_timer (d_p s') = Some (now_d s', r_nak_ms r) /\ p_nak_counter (d_p s') = 1.
Proof. exact eof_reissue_requests_exactly_missing. Qed.
Print Assumptions c06_eof_reissue_requests_exactly_missing.

(* ... and when the retransmissions do fill every gap, the File Data PDU [lastfd] that covers the last missing bytes
   ends the deferred procedure in its own call: no NAK; the checksum is verified and, when it matches, the Finished PDU
   (no error, data complete, file retained) is queued at once. *)
Theorem c06_eof_retransmission_completes :
  forall (c : lcfg) (r : rcfg) (hd : hdr) (fs : tree) (closure : bool) (ck msize : Z) (sn dn : path) (msgs : list Z)
         (seg size maxn : Z) (fds pre : list (Z * (Z * bytes))) (lastfd : Z * (Z * bytes))
         (cks : bytes) (fl : option (Z * Z)) (t0 t1 t2 : Z),
  h_dir hd = TOWARDS_RECEIVER -> h_mode hd = ACKED -> h_dst hd = l_id c ->
  get_remote (l_remotes c) (h_src hd) = Some r ->
  0 < r_nak_ms r -> 0 < r_ack_ms r ->
  max_seg_reqs (r_max_packet r) hd = Some maxn -> 1 <= maxn ->
  dest_writable fs (dest_name fs sn dn) ->
  0 < seg -> Forall (tile seg size) (map fd_len fds) -> Forall (tile seg size) (map fd_len pre) ->
  tile seg size (fd_len lastfd) ->
  (exists x, 0 <= x < size /\ ~ covered (map fd_len fds ++ map fd_len pre) x) ->
  (forall x, 0 <= x < size -> covered ((map fd_len fds ++ map fd_len pre) ++ [fd_len lastfd]) x) ->
  exists s2 naks old,
    calls_d (((t0, Some (PMetadata hd closure ck msize (Some (sn, dn)) msgs)) :: map (fd_call hd) fds ++
              [(t1, Some (PEof hd C_NO_ERROR cks size fl)); (t2, None)]) ++ map (fd_call hd) pre) (dst_fresh c fs) =
      (s2, Ok (([] :: gap_naks (r_imm_nak r) (set_dir TOWARDS_SENDER hd) 0 (map fd_len fds) ++
                [[PAck (set_dir TOWARDS_SENDER hd) D_EOF C_NO_ERROR TS_ACTIVE]; naks]) ++ map (fun _ => []) pre)) /\
    lookup (fs_d s2) (dest_name fs sn dn) = Some (File old) /\
    ((ck = CK_NULL \/
      calculate_checksum ck (Some (write_at old (fst (snd lastfd)) (snd (snd lastfd)))) size 4096 = Ok cks) ->
     exists s3,
       call_d (fd_call hd lastfd) s2 =
         (s3, Ok [PFinished (set_dir TOWARDS_SENDER hd) C_NO_ERROR DATA_COMPLETE FS_RETAINED None]) /\
       d_state s3 = ST_BUSY /\ d_step s3 = DS_WAITING_FOR_FINISHED_ACK /\ p_tracker (d_p s3) = [] /\
       p_deferred (d_p s3) = false /\ p_fin (d_p s3) = mkFin DATA_COMPLETE FS_RETAINED C_NO_ERROR None /\
       p_progress (d_p s3) = size).
Proof. exact eof_retransmission_completes. Qed.
Print Assumptions c06_eof_retransmission_completes.
