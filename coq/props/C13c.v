(* Property C13, end to end on the receiver — the EOF overtakes file data, the late data arrives between (or with) the
   check-timer expiries.  Everything goes through the real entry point Dest.state_machine, from a freshly constructed
   handler; after every call everything queued is retrieved; the clock advances by any amount before each call.
   The run: the Metadata PDU; a history [early] of items; the EOF (no error, size and checksum of the source file [data]);
   then a schedule of items.  An item is a clock advance followed by one call that delivers either a File Data PDU or
   nothing (a poll).  The payload of every File Data PDU is a non-empty slice of [data] at its offset ([slice_of]):
   any segmentation, any order, any duplication, any subset, overlaps allowed.
   The check timer starts in the EOF call.  [expiries ms 0 sched] / [elapsed ms 0 sched]: the number of calls of the
   schedule that find the timer expired when every expiry restarts it, and the time since its last (re)start.
   c13_late_data_waits     (a) as long as bytes of [0, size) are missing at the end of the schedule and the timer has
                           been found expired fewer than check-limit times: no call sends anything, the handler stays
                           busy in the check-limit step, the counter equals the number of expiries, the timer was
                           restarted at the last of them, the file holds what was written, and the log holds no
                           Transaction-Finished and no fault but one ignored File Checksum Failure for the EOF and one
                           per expiry.
   c13_late_data_completes (b) [pre]: expiries while data is missing (fewer than the limit); [wait]: no expiry while the
                           rest arrives (the file is complete with [wait ++ [fin]] at the latest); [fin]: the first call
                           that finds the timer expired - it may be the very call that delivers the last File Data:
                           the File Data is written BEFORE the timer is looked at.  That call verifies and completes:
                           Finished PDU (No Error, Data Complete, File Retained) iff closure was requested,
                           Transaction-Finished iff enabled, handler idle with fresh transaction fields, destination
                           file = data; no earlier call sent anything.
   c13_late_data_limit     (c) the limit-th expiry while data is still missing: Check Limit Reached is declared in that
                           call, after the File Checksum Failure of its verification, and handled as configured:
                           CANCEL completes the cancelled transaction in the same call (Finished PDU iff closure,
                           Transaction-Finished, file deleted iff disposition-on-cancellation), ABANDON drops it, both
                           leave the handler idle; IGNORE reports and carries on (F34 repair): the expiry is counted
                           and the timer restarted, the handler stays busy in the check-limit step; any other handler
                           (SUSPEND) only reports: counter and timer stay as they are.
   c13_late_data_limit_ignored_once  (c') IGNORE: the ignored fault is declared ONCE - whatever the calls after it deliver,
                           as long as the restarted timer has not expired they send nothing and declare nothing: the log
                           gets nothing but their File-Segment-Recv indications, counter and timer stay
                           (ex_limit_ignored_once; the next declaration comes one interval later,
                           ex_limit_ignored_next_expiry).
   Hypotheses, all satisfiable (proofs/LateDataProofs.v: ex_hyps_completes, ex_hyps_limit, ex_hyps_limit_ignored, with the evaluated runs
   ex_completes_at_poll, ex_completes_with_last_tile, ex_waits, ex_limit) and all needed: unacknowledged mode; CRC-32 or
   CRC-32C; File Checksum Failure handled by IGNORE (the default table, props/C13.v c13_default_table; any other handler
   ends the check-limit mechanism at the EOF); 0 < check timer interval (ex_zero_interval: with 0 the EOF call itself
   counts an expiry); the destination file can be written ([dest_writable]); and [no_collision]: since late File Data
   arrives in any order the progress can reach the file size while holes (read as zeros) remain, and such a file verifies
   iff its checksum collides with the checksum of [data] - the transaction then completes early with a wrong file
   (ex_collision, a constructed CRC-32 collision; the "genuine checksum collision" of property C01).  While the progress
   is below the EOF file size the verification fails whatever the checksums (F31 repair), so only contents of full length
   are concerned, and only those that actually occur (prefixes of the history).
   Composes with props/C13.v (single steps) and props/C13b.v (closed form when nothing arrives any more). *)
From CFDP Require Import Base LostSeg Fs Crc Checksum Handler Dest HandlerSpec.
From CFDP.proofs Require Import LateDataProofs.
From RecordUpdate Require Import RecordSet.
Import RecordSetNotations.

(* ---- running the handler: one call = clock advance, state_machine(packet), retrieval of everything queued (as props/C06c.v) *)
Definition drain_d (s : dst) : dst * list pdu :=
  (s <| d_queue := [] |> <| d_ready := d_ready s - zlen (d_queue s) |>, d_queue s).
Definition tick (dt : Z) (s : dst) : dst := s <| d_env ::= (fun e => e <| e_now ::= Z.add dt |>) |>.
Definition call_d (c : Z * option pdu) (s : dst) : dst * res Z (list pdu) :=
  match state_machine (snd c) (tick (fst c) s) with
  | (s', Ok _) => let '(s'', ps) := drain_d s' in (s'', Ok ps)
  | (s', Err e) => (s', Err e)
  end.
Fixpoint calls_d (cs : list (Z * option pdu)) (s : dst) : dst * res Z (list (list pdu)) :=
  match cs with
  | [] => (s, Ok [])
  | c :: t => match call_d c s with
              | (s', Ok ps) => match calls_d t s' with
                               | (s'', Ok rest) => (s'', Ok (ps :: rest))
                               | (s'', Err e) => (s'', Err e)
                               end
              | (s', Err e) => (s', Err e)
              end
  end.
Definition dst_fresh (c : lcfg) (fs : tree) : dst := (dst_init c) <| d_env ::= (fun e => e <| e_fs := fs |>) |>.
Definition dest_name (fs : tree) (sn dn : path) : path :=
  if fs_is_directory fs dn then (match rev sn with b :: _ => dn ++ [b] | [] => dn end) else dn.
Definition dest_writable (fs : tree) (p : path) : Prop :=
  (exists d, lookup fs p = Some (File d)) \/ (lookup fs p = None /\ parent_is_dir fs p = true).

(* ---- schedules *)
(* one item: the clock advance before the call and the File Data (offset, data) it delivers, or no PDU *)
Definition item := (Z * option (Z * bytes))%type.
Definition item_call (hd : hdr) (it : item) : Z * option pdu :=
  (fst it, match snd it with Some t => Some (PFileData hd (fst t) (snd t)) | None => None end).
Definition item_data (it : item) : list (Z * bytes) := match snd it with Some t => [t] | None => [] end.
(* the File Data delivered by a schedule, in order *)
Definition received (sched : list item) : list (Z * bytes) := flat_map item_data sched.
Definition span (t : Z * bytes) : Z * Z := (fst t, zlen (snd t)).
Definition covered (hist : list (Z * Z)) (x : Z) : Prop :=
  exists fd, In fd hist /\ fst fd <= x < fst fd + snd fd.
Definition extent (hist : list (Z * Z)) : Z := fold_left (fun m fd => Z.max m (fst fd + snd fd)) hist 0.
Definition missing (size : Z) (ts : list (Z * bytes)) : Prop := exists x, 0 <= x < size /\ ~ covered (map span ts) x.
Definition complete (size : Z) (ts : list (Z * bytes)) : Prop := forall x, 0 <= x < size -> covered (map span ts) x.
(* genuine data: the payload is the non-empty slice of the source file at the offset *)
Definition slice_of (data : bytes) (t : Z * bytes) : Prop :=
  0 <= fst t /\ snd t <> [] /\ ztake (zlen (snd t)) (zdrop (fst t) data) = snd t.
(* the content of an initially empty file after the writes of a history (holes are zero-filled, Fs.write_at) *)
Definition written (ts : list (Z * bytes)) : bytes := fold_left (fun d t => write_at d (fst t) (snd t)) ts [].
(* the check timer (interval [ms], [el] since its start) under a schedule in which every expiry restarts it *)
Fixpoint expiries (ms el : Z) (sched : list item) : Z :=
  match sched with
  | [] => 0
  | it :: t => if ms <=? el + fst it then 1 + expiries ms 0 t else expiries ms (el + fst it) t
  end.
Fixpoint elapsed (ms el : Z) (sched : list item) : Z :=
  match sched with
  | [] => el
  | it :: t => if ms <=? el + fst it then elapsed ms 0 t else elapsed ms (el + fst it) t
  end.
(* a log without Transaction-Finished whose only faults are [n] ignored File Checksum Failures of the transaction *)
Definition is_fault (e : event) : bool := match e with EvFault _ _ _ _ _ => true | _ => false end.
Definition quiet_event (src seq : Z) (e : event) : Prop :=
  match e with
  | EvFinished _ _ _ _ _ _ => False
  | EvFault k a b cnd _ => k = FH_IGNORE /\ a = src /\ b = seq /\ cnd = C_CHECKSUM_FAILURE
  | _ => True
  end.
Definition quiet_log (src seq n : Z) (lg : list event) : Prop :=
  Forall (quiet_event src seq) lg /\ zlen (filter is_fault lg) = n.
(* at no moment before it is complete does the part of the file received so far (holes read as zeros), once it has the
   length of the whole file, have the checksum of the whole file *)
Definition no_collision (ck size : Z) (cks : bytes) (all : list (Z * bytes)) : Prop :=
  forall ts1 ts2, ts1 ++ ts2 = all -> missing size ts1 -> extent (map span ts1) = size ->
    calculate_checksum ck (Some (written ts1)) size 4096 <> Ok cks.
(* File-Segment-Recv indication of the call that delivers an item, if enabled *)
Definition seg_events (c : lcfg) (src seq : Z) (it : item) : list event :=
  match snd it with
  | Some t => if l_ind_seg c then [EvSegmentRecv src seq (fst t) (zlen (snd t))] else []
  | None => []
  end.
(* file status reported by a cancelled transaction whose data is incomplete *)
Definition cancel_fstatus (r : rcfg) : Z := if r_disposition r then FS_DISCARDED_DELIBERATELY else FS_RETAINED.

(* (a) *)
Theorem c13_late_data_waits :
  forall (c : lcfg) (r : rcfg) (hd : hdr) (fs : tree) (closure : bool) (ck msize : Z) (sn dn : path) (msgs : list Z)
         (data cks : bytes) (size ms : Z) (early sched : list item) (fl : option (Z * Z)) (t0 t1 : Z),
  h_dir hd = TOWARDS_RECEIVER -> h_mode hd = UNACKED -> h_dst hd = l_id c ->
  get_remote (l_remotes c) (h_src hd) = Some r ->
  ck = CK_CRC32 \/ ck = CK_CRC32C ->
  get_fault_handler (l_faults c) C_CHECKSUM_FAILURE = Some FH_IGNORE ->
  l_check_ms c = ms -> 0 < ms ->
  dest_writable fs (dest_name fs sn dn) ->
  size = zlen data -> calculate_checksum ck (Some data) size 4096 = Ok cks ->
  Forall (slice_of data) (received (early ++ sched)) ->
  no_collision ck size cks (received (early ++ sched)) ->
  missing size (received (early ++ sched)) ->
  expiries ms 0 sched < r_check_limit r ->
  exists s',
    calls_d ((t0, Some (PMetadata hd closure ck msize (Some (sn, dn)) msgs)) :: map (item_call hd) early ++
             (t1, Some (PEof hd C_NO_ERROR cks size fl)) :: map (item_call hd) sched) (dst_fresh c fs) =
      (s', Ok ([] :: map (fun _ => []) early ++ [] :: map (fun _ => []) sched)) /\
    d_state s' = ST_BUSY /\ d_step s' = DS_RECV_WITH_CHECK_LIMIT /\ d_queue s' = [] /\
    p_check_count (d_p s') = expiries ms 0 sched /\
    p_check_timer (d_p s') = Some (now_d s' - elapsed ms 0 sched, ms) /\
    p_progress (d_p s') = extent (map span (received (early ++ sched))) /\
    lookup (fs_d s') (dest_name fs sn dn) = Some (File (written (received (early ++ sched)))) /\
    quiet_log (h_src hd) (h_seq hd) (1 + expiries ms 0 sched) (log_d s').
Proof. exact late_data_waits. Qed.
Print Assumptions c13_late_data_waits.

(* (b) *)
Theorem c13_late_data_completes :
  forall (c : lcfg) (r : rcfg) (hd : hdr) (fs : tree) (closure : bool) (ck msize : Z) (sn dn : path) (msgs : list Z)
         (data cks : bytes) (size ms : Z) (early pre wait : list item) (fin : item) (fl : option (Z * Z)) (t0 t1 : Z),
  h_dir hd = TOWARDS_RECEIVER -> h_mode hd = UNACKED -> h_dst hd = l_id c ->
  get_remote (l_remotes c) (h_src hd) = Some r ->
  ck = CK_CRC32 \/ ck = CK_CRC32C ->
  get_fault_handler (l_faults c) C_CHECKSUM_FAILURE = Some FH_IGNORE ->
  l_check_ms c = ms -> 0 < ms ->
  dest_writable fs (dest_name fs sn dn) ->
  size = zlen data -> calculate_checksum ck (Some data) size 4096 = Ok cks ->
  Forall (slice_of data) (received (early ++ pre ++ wait ++ [fin])) ->
  no_collision ck size cks (received (early ++ pre)) ->
  missing size (received (early ++ pre)) ->
  expiries ms 0 pre < r_check_limit r ->
  expiries ms (elapsed ms 0 pre) wait = 0 ->
  ms <= elapsed ms 0 (pre ++ wait) + fst fin ->
  complete size (received (early ++ pre ++ wait ++ [fin])) ->
  exists s' lg,
    calls_d ((t0, Some (PMetadata hd closure ck msize (Some (sn, dn)) msgs)) :: map (item_call hd) early ++
             (t1, Some (PEof hd C_NO_ERROR cks size fl)) :: map (item_call hd) (pre ++ wait ++ [fin])) (dst_fresh c fs) =
      (s', Ok ([] :: map (fun _ => []) early ++ [] :: map (fun _ => []) (pre ++ wait) ++
               [if closure then [PFinished (set_dir TOWARDS_SENDER hd) C_NO_ERROR DATA_COMPLETE FS_RETAINED None] else []])) /\
    d_state s' = ST_IDLE /\ d_step s' = DS_IDLE /\ d_queue s' = [] /\ d_ready s' = 0 /\ d_p s' = fresh_params /\
    lookup (fs_d s') (dest_name fs sn dn) = Some (File data) /\
    log_d s' = (if l_ind_fin c then [EvFinished (h_src hd) (h_seq hd) C_NO_ERROR DATA_COMPLETE FS_RETAINED None] else []) ++
               seg_events c (h_src hd) (h_seq hd) fin ++ lg /\
    quiet_log (h_src hd) (h_seq hd) (1 + expiries ms 0 pre) lg.
Proof. exact late_data_completes. Qed.
Print Assumptions c13_late_data_completes.

(* (c) *)
Theorem c13_late_data_limit :
  forall (c : lcfg) (r : rcfg) (hd : hdr) (fs : tree) (closure : bool) (ck msize : Z) (sn dn : path) (msgs : list Z)
         (data cks : bytes) (size ms fh : Z) (early pre : list item) (fin : item) (fl : option (Z * Z)) (t0 t1 : Z),
  h_dir hd = TOWARDS_RECEIVER -> h_mode hd = UNACKED -> h_dst hd = l_id c ->
  get_remote (l_remotes c) (h_src hd) = Some r ->
  ck = CK_CRC32 \/ ck = CK_CRC32C ->
  get_fault_handler (l_faults c) C_CHECKSUM_FAILURE = Some FH_IGNORE ->
  get_fault_handler (l_faults c) C_CHECK_LIMIT = Some fh ->
  l_check_ms c = ms -> 0 < ms ->
  dest_writable fs (dest_name fs sn dn) ->
  size = zlen data -> calculate_checksum ck (Some data) size 4096 = Ok cks ->
  Forall (slice_of data) (received (early ++ pre ++ [fin])) ->
  no_collision ck size cks (received (early ++ pre ++ [fin])) ->
  missing size (received (early ++ pre ++ [fin])) ->
  expiries ms 0 pre + 1 = r_check_limit r ->
  ms <= elapsed ms 0 pre + fst fin ->
  let prog := extent (map span (received (early ++ pre ++ [fin]))) in
  exists s' lg,
    calls_d ((t0, Some (PMetadata hd closure ck msize (Some (sn, dn)) msgs)) :: map (item_call hd) early ++
             (t1, Some (PEof hd C_NO_ERROR cks size fl)) :: map (item_call hd) (pre ++ [fin])) (dst_fresh c fs) =
      (s', Ok ([] :: map (fun _ => []) early ++ [] :: map (fun _ => []) pre ++
               [if (fh =? FH_CANCEL) && closure
                then [PFinished (set_dir TOWARDS_SENDER hd) C_CHECK_LIMIT DATA_INCOMPLETE (cancel_fstatus r) None] else []])) /\
    log_d s' = (if (fh =? FH_CANCEL) && l_ind_fin c
                then [EvFinished (h_src hd) (h_seq hd) C_CHECK_LIMIT DATA_INCOMPLETE (cancel_fstatus r) None] else []) ++
               EvFault fh (h_src hd) (h_seq hd) C_CHECK_LIMIT prog ::
               EvFault FH_IGNORE (h_src hd) (h_seq hd) C_CHECKSUM_FAILURE prog ::
               seg_events c (h_src hd) (h_seq hd) fin ++ lg /\
    quiet_log (h_src hd) (h_seq hd) (1 + expiries ms 0 pre) lg /\
    d_queue s' = [] /\ d_ready s' = 0 /\
    (if (fh =? FH_CANCEL) || (fh =? FH_ABANDON)
     then d_state s' = ST_IDLE /\ d_step s' = DS_IDLE /\ d_p s' = fresh_params
     else d_state s' = ST_BUSY /\ d_step s' = DS_RECV_WITH_CHECK_LIMIT /\
          if fh =? FH_IGNORE
          then p_check_count (d_p s') = expiries ms 0 pre + 1 /\ p_check_timer (d_p s') = Some (now_d s', ms)
          else p_check_count (d_p s') = expiries ms 0 pre /\
               p_check_timer (d_p s') = Some (now_d s' - fst fin - elapsed ms 0 pre, ms)) /\
    lookup (fs_d s') (dest_name fs sn dn) =
      (if (fh =? FH_CANCEL) && r_disposition r then None else Some (File (written (received (early ++ pre ++ [fin]))))).
Proof. exact late_data_limit. Qed.
Print Assumptions c13_late_data_limit.

(* (c') *)
Theorem c13_late_data_limit_ignored_once :
  forall (c : lcfg) (r : rcfg) (hd : hdr) (fs : tree) (closure : bool) (ck msize : Z) (sn dn : path) (msgs : list Z)
         (data cks : bytes) (size ms : Z) (early pre : list item) (fin : item) (post : list item) (fl : option (Z * Z)) (t0 t1 : Z),
  h_dir hd = TOWARDS_RECEIVER -> h_mode hd = UNACKED -> h_dst hd = l_id c ->
  get_remote (l_remotes c) (h_src hd) = Some r ->
  ck = CK_CRC32 \/ ck = CK_CRC32C ->
  get_fault_handler (l_faults c) C_CHECKSUM_FAILURE = Some FH_IGNORE ->
  get_fault_handler (l_faults c) C_CHECK_LIMIT = Some FH_IGNORE ->
  l_check_ms c = ms -> 0 < ms ->
  dest_writable fs (dest_name fs sn dn) ->
  size = zlen data -> calculate_checksum ck (Some data) size 4096 = Ok cks ->
  Forall (slice_of data) (received (early ++ pre ++ [fin])) ->
  no_collision ck size cks (received (early ++ pre ++ [fin])) ->
  missing size (received (early ++ pre ++ [fin])) ->
  expiries ms 0 pre + 1 = r_check_limit r ->
  ms <= elapsed ms 0 pre + fst fin ->
  Forall (slice_of data) (received post) ->
  expiries ms 0 post = 0 ->
  let prog := extent (map span (received (early ++ pre ++ [fin]))) in
  exists s' lg,
    calls_d ((t0, Some (PMetadata hd closure ck msize (Some (sn, dn)) msgs)) :: map (item_call hd) early ++
             (t1, Some (PEof hd C_NO_ERROR cks size fl)) :: map (item_call hd) ((pre ++ [fin]) ++ post)) (dst_fresh c fs) =
      (s', Ok ([] :: map (fun _ => []) early ++ [] :: map (fun _ => []) ((pre ++ [fin]) ++ post))) /\
    log_d s' = flat_map (seg_events c (h_src hd) (h_seq hd)) (rev post) ++
               EvFault FH_IGNORE (h_src hd) (h_seq hd) C_CHECK_LIMIT prog ::
               EvFault FH_IGNORE (h_src hd) (h_seq hd) C_CHECKSUM_FAILURE prog ::
               seg_events c (h_src hd) (h_seq hd) fin ++ lg /\
    quiet_log (h_src hd) (h_seq hd) (1 + expiries ms 0 pre) lg /\
    d_state s' = ST_BUSY /\ d_step s' = DS_RECV_WITH_CHECK_LIMIT /\ d_queue s' = [] /\ d_ready s' = 0 /\
    p_check_count (d_p s') = expiries ms 0 pre + 1 /\
    p_check_timer (d_p s') = Some (now_d s' - elapsed ms 0 post, ms) /\
    p_progress (d_p s') = extent (map span (received ((early ++ pre ++ [fin]) ++ post))) /\
    lookup (fs_d s') (dest_name fs sn dn) = Some (File (written (received ((early ++ pre ++ [fin]) ++ post)))).
Proof. exact late_data_limit_ignored_once. Qed.
Print Assumptions c13_late_data_limit_ignored_once.
