(* Property C04 — Retry limits are honoured exactly; a silent peer cannot hang a transaction.
   Model: the positive-ACK procedures of both handlers and the NAK procedure of the receiver
   (source.py:730-770; dest.py:766-814, 894-960).  All statements hold for every limit N and interval. *)
From CFDP Require Import Base LostSeg Fs Handler Dest Source HandlerSpec SourceSpec.
From CFDP.gen Require Import Tables.
From CFDP.proofs Require Import RetryProofs.
From RecordUpdate Require Import RecordSet.
Import RecordSetNotations.

(* ------------------------------------------------------------------ sender: EOF awaiting its ACK *)
Definition src_waiting_ack (s : src) (r : rcfg) (t : timer) : Prop :=
  s_state s = ST_BUSY /\ s_step s = SS_WAITING_FOR_EOF_ACK /\ s_queue s = [] /\ s_put s <> None /\
  q_rcfg (s_p s) = Some r /\ q_ack_timer (s_p s) = Some t.

(* a call before the expiry emits nothing and changes nothing *)
Theorem c04_src_wait : forall s r t,
  src_waiting_ack s r t -> timed_out (now_s s) t = false -> state_machine_s None s = (s, Ok tt).
Proof. exact src_wait. Qed.
Print Assumptions c04_src_wait.

(* expiry k < N: the EOF is re-sent, the counter becomes k, the timer restarts *)
Theorem c04_src_resend : forall s r t ck cond,
  src_waiting_ack s r t -> timed_out (now_s s) t = true -> q_ack_counter (s_p s) + 1 < r_ack_limit r ->
  q_cond_eof (s_p s) = Some cond -> (l_ind_eof_sent (s_cfg s) = true -> q_tid (s_p s) <> None) ->
  (forall s0, s_put s0 = s_put s -> fs_s s0 = fs_s s -> q_rcfg (s_p s0) = q_rcfg (s_p s) ->
              q_segment_len (s_p s0) = q_segment_len (s_p s) -> q_md_only (s_p s0) = q_md_only (s_p s) ->
              checksum_calculation (q_progress (s_p s)) s0 = (s0, Ok ck)) ->
  exists s', state_machine_s None s = (s', Ok tt) /\
    s_queue s' = [PEof (hdr_of (q_conf (s_p s)) TOWARDS_RECEIVER) cond ck (q_progress (s_p s)) None] /\
    q_ack_counter (s_p s') = q_ack_counter (s_p s) + 1 /\ q_ack_timer (s_p s') = Some (now_s s, snd t) /\
    s_step s' = SS_WAITING_FOR_EOF_ACK /\ s_state s' = ST_BUSY /\ q_cond_eof (s_p s') = Some cond /\
    q_progress (s_p s') = q_progress (s_p s).
Proof. exact src_resend. Qed.
Print Assumptions c04_src_resend.

(* expiry N: the Positive ACK Limit fault is declared, exactly then, and, its handler not being IGNORE, the call ends
   there (its effect is C14's).  After the F34 repair the handler IGNORE lets the procedure carry on
   (c04_src_ack_limit_ignored_continues below), so without the handler hypothesis the statement is false:
   RetryProofs.CounterExamples.handler_needed *)
Theorem c04_src_limit : forall s r t,
  src_waiting_ack s r t -> timed_out (now_s s) t = true -> r_ack_limit r <= q_ack_counter (s_p s) + 1 ->
  get_fault_handler (l_faults (s_cfg s)) C_POS_ACK_LIMIT <> Some FH_IGNORE ->
  (exists s', declare_fault_s C_POS_ACK_LIMIT s = (s', Ok tt) /\
              (s_step s' = SS_WAITING_FOR_EOF_ACK \/ s_step s' = SS_IDLE) /\
              state_machine_s None s = (s', Ok tt)) \/
  (exists s' e, declare_fault_s C_POS_ACK_LIMIT s = (s', Err e) /\ state_machine_s None s = (s', Err e)).
Proof. exact src_limit. Qed.
Print Assumptions c04_src_limit.

(* expiry N, handler IGNORE (F34 repair): exactly one IGNORE callback, then the procedure carries on as below the
   limit: the timer restarts at the current time, the counter is incremented, the EOF is queued again with the contents
   of the original (with its EOF-Sent indication where configured), the step is kept; nothing else changes.
   Before the repair the call returned right after the callback: only the log entry was added, the timer stayed
   expired and the counter stayed where it was. *)
Theorem c04_src_ack_limit_ignored_continues : forall s r t ck cond a b,
  src_waiting_ack s r t -> timed_out (now_s s) t = true -> r_ack_limit r <= q_ack_counter (s_p s) + 1 ->
  get_fault_handler (l_faults (s_cfg s)) C_POS_ACK_LIMIT = Some FH_IGNORE ->
  q_tid (s_p s) = Some (a, b) -> q_cond_eof (s_p s) = Some cond ->
  (forall s0, s_put s0 = s_put s -> fs_s s0 = fs_s s -> q_rcfg (s_p s0) = q_rcfg (s_p s) ->
              q_segment_len (s_p s0) = q_segment_len (s_p s) -> q_md_only (s_p s0) = q_md_only (s_p s) ->
              checksum_calculation (q_progress (s_p s)) s0 = (s0, Ok ck)) ->
  state_machine_s None s =
    (s <| s_queue := [PEof (hdr_of (q_conf (s_p s)) TOWARDS_RECEIVER) cond ck (q_progress (s_p s)) None] |>
       <| s_ready := s_ready s + 1 |>
       <| s_p ::= (fun q => q <| q_ack_timer := Some (now_s s, snd t) |>
                              <| q_ack_counter := q_ack_counter (s_p s) + 1 |>) |>
       <| s_env ::= (fun en => en <| e_log :=
            (if l_ind_eof_sent (s_cfg s) then [EvEofSent a b] else []) ++
            EvFault FH_IGNORE a b C_POS_ACK_LIMIT (q_progress (s_p s)) :: log_s s |>) |>, Ok tt).
Proof. exact src_ack_limit_ignored_continues. Qed.
Print Assumptions c04_src_ack_limit_ignored_continues.

(* ... and the ignored fault is not declared again: once the queued EOF is retrieved, a call at any time before the
   next expiry (the restarted timer not timed out) delivers nothing and changes nothing.
   This was false before the repair: the call at the limit left the timer expired and the counter at the limit, so
   EVERY following state_machine() call, at whatever time, delivered another IGNORE callback for Positive ACK Limit
   Reached (one more log entry per call), and the EOF was never sent again. *)
Theorem c04_src_ack_limit_ignored_not_redeclared : forall s r t ck cond a b s1 ps n',
  src_waiting_ack s r t -> timed_out (now_s s) t = true -> r_ack_limit r <= q_ack_counter (s_p s) + 1 ->
  get_fault_handler (l_faults (s_cfg s)) C_POS_ACK_LIMIT = Some FH_IGNORE ->
  q_tid (s_p s) = Some (a, b) -> q_cond_eof (s_p s) = Some cond ->
  (forall s0, s_put s0 = s_put s -> fs_s s0 = fs_s s -> q_rcfg (s_p s0) = q_rcfg (s_p s) ->
              q_segment_len (s_p s0) = q_segment_len (s_p s) -> q_md_only (s_p s0) = q_md_only (s_p s) ->
              checksum_calculation (q_progress (s_p s)) s0 = (s0, Ok ck)) ->
  pump s = (s1, Ok ps) ->                                  (* the call at the limit, its EOF retrieved *)
  timed_out n' (now_s s, snd t) = false ->                 (* any time before the next expiry *)
  let s2 := s1 <| s_env ::= (fun en => en <| e_now := n' |>) |> in
  state_machine_s None s2 = (s2, Ok tt).
Proof. exact src_ack_limit_ignored_not_redeclared. Qed.
Print Assumptions c04_src_ack_limit_ignored_not_redeclared.

(* progress: the expected ACK ends the procedure *)
Theorem c04_src_ack_ends : forall s r t h c st,
  src_waiting_ack s r t -> check_inserted_packet_s (PAck h D_EOF c st) s = (s, Ok tt) -> q_check_timer (s_p s) = None ->
  state_machine_s (Some (PAck h D_EOF c st)) s = (s <| s_step := SS_WAITING_FOR_FINISHED |>, Ok tt).
Proof. exact src_ack_ends. Qed.
Print Assumptions c04_src_ack_ends.

(* ------------------------------------------------------------------ receiver: Finished awaiting its ACK *)
Definition dst_waiting_fin_ack (s : dst) (r : rcfg) (t : timer) (a b : Z) : Prop :=
  d_state s = ST_BUSY /\ d_step s = DS_WAITING_FOR_FINISHED_ACK /\ d_queue s = [] /\ d_ready s = 0 /\
  p_rcfg (d_p s) = Some r /\ p_ack_timer (d_p s) = Some t /\ p_tid (d_p s) = Some (a, b) /\
  h_mode (p_conf (d_p s)) = ACKED.

Theorem c04_dst_fin_wait : forall s r t a b,
  dst_waiting_fin_ack s r t a b -> timed_out (now_d s) t = false -> Dest.state_machine None s = (s, Ok tt).
Proof. exact dst_fin_wait. Qed.
Print Assumptions c04_dst_fin_wait.

Theorem c04_dst_fin_resend : forall s r t a b,
  dst_waiting_fin_ack s r t a b -> timed_out (now_d s) t = true -> p_ack_counter (d_p s) + 1 < r_ack_limit r ->
  exists s', Dest.state_machine None s = (s', Ok tt) /\
    (let f := p_fin (d_p s) in
     d_queue s' = [PFinished (set_dir TOWARDS_SENDER (p_conf (d_p s))) (f_cond f) (f_deliv f) (f_fstatus f) (f_fl f)]) /\
    p_ack_counter (d_p s') = p_ack_counter (d_p s) + 1 /\ p_ack_timer (d_p s') = Some (now_d s, snd t) /\
    d_step s' = DS_WAITING_FOR_FINISHED_ACK /\ d_state s' = ST_BUSY /\ p_fin (d_p s') = p_fin (d_p s) /\
    log_d s' = log_d s /\ fs_d s' = fs_d s.
Proof. exact dst_fin_resend. Qed.
Print Assumptions c04_dst_fin_resend.

(* expiry N, transaction not yet cancelled, limit fault configured as notice of cancellation: the transaction
   is cancelled with Positive ACK Limit Reached and the Finished (cancel) exchange starts with a fresh count *)
Theorem c04_dst_fin_limit_cancels : forall s r t a b,
  dst_waiting_fin_ack s r t a b -> timed_out (now_d s) t = true -> r_ack_limit r <= p_ack_counter (d_p s) + 1 ->
  p_disp (d_p s) <> DISP_CANCELED -> get_fault_handler (l_faults (d_cfg s)) C_POS_ACK_LIMIT = Some FH_CANCEL ->
  0 < r_ack_ms r ->
  exists s' fstatus',
    Dest.state_machine None s = (s', Ok tt) /\
    d_queue s' = [PFinished (set_dir TOWARDS_SENDER (p_conf (d_p s))) C_POS_ACK_LIMIT (f_deliv (p_fin (d_p s))) fstatus'
                            (f_fl (p_fin (d_p s)))] /\
    p_ack_counter (d_p s') = 0 /\ p_ack_timer (d_p s') = Some (now_d s, r_ack_ms r) /\
    d_step s' = DS_WAITING_FOR_FINISHED_ACK /\ d_state s' = ST_BUSY /\ p_disp (d_p s') = DISP_CANCELED /\
    (exists evs, log_d s' = evs ++ EvFault FH_CANCEL a b C_POS_ACK_LIMIT (p_progress (d_p s)) :: log_d s /\
                 (evs = [] \/ evs = [EvFinished a b C_POS_ACK_LIMIT (f_deliv (p_fin (d_p s))) fstatus' (f_fl (p_fin (d_p s)))])).
Proof. exact dst_fin_limit_cancels. Qed.
Print Assumptions c04_dst_fin_limit_cancels.

(* expiry N during the Finished (cancel) exchange: the transaction is abandoned, the handler is idle, nothing is re-sent *)
Theorem c04_dst_fin_limit_abandons : forall s r t a b,
  dst_waiting_fin_ack s r t a b -> timed_out (now_d s) t = true -> r_ack_limit r <= p_ack_counter (d_p s) + 1 ->
  p_disp (d_p s) = DISP_CANCELED ->
  exists s', Dest.state_machine None s = (s', Ok tt) /\
    d_state s' = ST_IDLE /\ d_step s' = DS_IDLE /\ d_queue s' = [] /\
    log_d s' = EvFault FH_ABANDON a b (f_cond (p_fin (d_p s))) (p_progress (d_p s)) :: log_d s.
Proof. exact dst_fin_limit_abandons. Qed.
Print Assumptions c04_dst_fin_limit_abandons.

(* progress: the ACK ends the procedure and the transaction *)
Theorem c04_dst_fin_ack_ends : forall s r t a b h acked c st,
  dst_waiting_fin_ack s r t a b -> check_inserted_packet (PAck h acked c st) s = (s, Ok tt) ->
  exists s', Dest.state_machine (Some (PAck h acked c st)) s = (s', Ok tt) /\
    d_state s' = ST_IDLE /\ d_step s' = DS_IDLE /\ d_queue s' = [] /\ log_d s' = log_d s.
Proof. exact dst_fin_ack_ends. Qed.
Print Assumptions c04_dst_fin_ack_ends.

(* ------------------------------------------------------------------ receiver: NAK sequences awaiting missing data
   (re-issue on expiry k < N: c06_deferred_issue; nothing before expiry: c06_deferred_wait) *)
(* expiry N: NAK Limit Reached is declared and, its handler not being IGNORE, the call ends there (after the F22 repair
   the handler IGNORE lets the procedure continue: c14_dest_nak_limit_ignored_continues, props/C14.v).
   After the F35 repair the procedure of a cancelled transaction does nothing (c04_dst_nak_cancelled_nothing below), so
   without `p_disp (d_p s) <> DISP_CANCELED` the statement is false: RetryProofs.NakCounterExamples.not_cancelled_needed *)
Theorem c04_dst_nak_limit : forall s r eos t,
  p_deferred (d_p s) = true -> p_disp (d_p s) <> DISP_CANCELED -> p_rcfg (d_p s) = Some r -> p_file_size_eof (d_p s) = Some eos ->
  (p_tracker (d_p s) <> [] \/ p_md_missing (d_p s) = true) ->
  p_proc_timer (d_p s) = Some t -> timed_out (now_d s) t = true -> p_nak_counter (d_p s) + 1 = r_nak_limit r ->
  get_fault_handler (l_faults (d_cfg s)) C_NAK_LIMIT <> Some FH_IGNORE ->
  deferred_lost_segment_handling s =
    (fst (declare_fault C_NAK_LIMIT s), match snd (declare_fault C_NAK_LIMIT s) with Ok _ => Ok tt | Err e => Err e end).
Proof. exact dst_nak_limit. Qed.
Print Assumptions c04_dst_nak_limit.

(* a cancelled transaction (F35 repair): the NAK procedure does nothing, whatever its timer, counter and tracker say:
   no NAK, no limit fault, no completion; the cancel condition stands.  Before the repair the procedure ran in the
   call in which a PDU had cancelled the transaction (File Size Error by a File Data PDU beyond the EOF file size,
   Filestore Rejection by a late Metadata PDU) and, the tracker emptied by that PDU, finished it with No Error. *)
Theorem c04_dst_nak_cancelled_nothing : forall s,
  p_disp (d_p s) = DISP_CANCELED -> deferred_lost_segment_handling s = (s, Ok tt).
Proof. exact dst_deferred_cancelled. Qed.
Print Assumptions c04_dst_nak_cancelled_nothing.

(* progress (a missing segment or the Metadata arriving) zeroes the NAK counter and restarts the timer *)
Theorem c04_dst_nak_progress_resets : forall s t,
  p_proc_timer (d_p s) = Some t ->
  reset_nak_activity_parameters s =
    (s <| d_p ::= (fun p => p <| p_nak_counter := 0 |> <| p_proc_timer := Some (now_d s, snd t) |>) |>, Ok tt).
Proof. exact dst_nak_progress_resets. Qed.
Print Assumptions c04_dst_nak_progress_resets.

(* the default table cancels on both limit faults (read from mib.py on every run) *)
Theorem c04_default_table :
  get_fault_handler default_fault_table C_POS_ACK_LIMIT = Some FH_CANCEL /\
  get_fault_handler default_fault_table C_NAK_LIMIT = Some FH_CANCEL.
Proof. vm_compute. split; reflexivity. Qed.
