(* Property C09 — File checksums are correct for every content, length and chunking.
   Model: Crc.v, Checksum.v (filestore.py:166-177, 333-375; crc.py).
   Only property theorems here; each is closed by a lemma of proofs/ChecksumProofs.v. *)
From CFDP Require Import Base Crc Checksum ChecksumSpec.
From CFDP.proofs Require Import ChecksumProofs.

(* anchors of the CRC specification to the published catalogue (check = "123456789") *)
Example c09_crc32_check_value :
  crc_spec poly_crc32 [49; 50; 51; 52; 53; 54; 55; 56; 57] = [203; 244; 57; 38].   (* 0xCBF43926 *)
Proof. vm_compute. reflexivity. Qed.
Example c09_crc32c_check_value :
  crc_spec poly_crc32c [49; 50; 51; 52; 53; 54; 55; 56; 57] = [227; 6; 146; 131].  (* 0xE3069283 *)
Proof. vm_compute. reflexivity. Qed.

(* incremental update = update over the concatenation *)
Theorem c09_crc_update_app : forall poly c a b,
  crc_update poly (crc_update poly c a) b = crc_update poly c (a ++ b).
Proof. exact crc_update_app. Qed.
Print Assumptions c09_crc_update_app.

(* CRC types: for every content, every prefix length 0..len and every positive chunk
   length the result is the CRC of that prefix as 4 big-endian bytes: chunk independent *)
Theorem c09_calc_crc_chunk_independent : forall ty data n seg,
  (ty = CK_CRC32 \/ ty = CK_CRC32C) -> 0 <= n <= zlen data -> 0 < seg ->
  calculate_checksum ty (Some data) n seg =
    Ok (crc_spec (if ty =? CK_CRC32 then poly_crc32 else poly_crc32c) (ztake n data)).
Proof. exact calc_crc_chunk_independent. Qed.
Print Assumptions c09_calc_crc_chunk_independent.

(* chunk length 0 is refused with a value error for the CRC types *)
Theorem c09_calc_seg0_valueerror : forall ty data n,
  (ty = CK_CRC32 \/ ty = CK_CRC32C) -> calculate_checksum ty (Some data) n 0 = Err ValueErr.
Proof. exact calc_seg0_valueerror. Qed.
Print Assumptions c09_calc_seg0_valueerror.

(* modular type: sum over all byte positions i of byte_i * 256^(3 - i mod 4), modulo 2^32,
   i.e. the sum of the zero-padded big-endian 4-byte words of the prefix; chunk independent *)
Theorem c09_modular_spec : forall data n seg,
  0 <= n <= zlen data ->
  calculate_checksum CK_MODULAR (Some data) n seg =
    Ok (be32 (weighted_sum 0 (ztake n data) mod 2 ^ 32)).
Proof. exact modular_spec. Qed.
Print Assumptions c09_modular_spec.

(* null type: four zero bytes, whatever the file (even a missing one) *)
Theorem c09_null_spec : forall file n seg, calculate_checksum CK_NULL file n seg = Ok [0; 0; 0; 0].
Proof. exact null_spec. Qed.
Print Assumptions c09_null_spec.

(* be32 produces exactly 4 bytes in range, and is injective on 32-bit values *)
Theorem c09_be32_bytes : forall v, 0 <= v < 2 ^ 32 ->
  length (be32 v) = 4%nat /\ bytes_ok (be32 v) = true.
Proof. exact be32_bytes. Qed.
Print Assumptions c09_be32_bytes.
Theorem c09_be32_inj : forall v w, 0 <= v < 2 ^ 32 -> 0 <= w < 2 ^ 32 -> be32 v = be32 w -> v = w.
Proof. exact be32_inj. Qed.
Print Assumptions c09_be32_inj.

(* verification is true exactly when the supplied value equals the calculated one *)
Theorem c09_verify_iff : forall ck ty file n seg r,
  calculate_checksum ty file n seg = Ok r ->
  (verify_checksum ck ty file n seg = Ok true <-> ck = r) /\
  (verify_checksum ck ty file n seg = Ok false <-> ck <> r).
Proof. exact verify_iff. Qed.
Print Assumptions c09_verify_iff.
Theorem c09_verify_error : forall ck ty file n seg e,
  calculate_checksum ty file n seg = Err e -> verify_checksum ck ty file n seg = Err e.
Proof. exact verify_error. Qed.
Print Assumptions c09_verify_error.

(* non-vacuity: a 7-byte file, prefix 5, chunk 2 *)
Example c09_nv : calculate_checksum CK_CRC32 (Some [1; 2; 3; 4; 5; 6; 7]) 5 2
               = Ok (crc_spec poly_crc32 [1; 2; 3; 4; 5]).
Proof. vm_compute. reflexivity. Qed.
Example c09_nv_mod : calculate_checksum CK_MODULAR (Some [1; 2; 3; 4; 5; 6; 7]) 6 99 = Ok [6; 8; 3; 4].
Proof. vm_compute. reflexivity. Qed.
