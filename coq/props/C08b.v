(* Property C08, transparency — answering a NAK does not disturb the rest of the transfer: a sender that is in the middle
   of its File Data stream and receives a NAK with valid segment requests emits exactly the requested tiles and then
   continues with exactly the PDUs it would have emitted had the NAK never arrived (same File Data PDUs, same EOF, same
   behaviour while waiting: timers, EOF repetitions, fault declaration, completion), ending in the same state up to the
   remembered resume step.  For every file, position in the stream, request list and number of further calls.

   How the two runs are aligned (model evaluated first, then proved): the call that answers the NAK emits the requested
   tiles and NO new tile, remembers the step and sets RETRANSMITTING; the next call restores the step in
   _fsm_advancement_after_packets_were_sent and emits the next tile in the same call.  So [pumps n] after the NAK call
   produces the same outputs as [pumps n] without it: aligned call by call, no empty call in between.
   Timers: [pumps] does not advance the clock, both runs read the same clock.
   The remembered step s_step_before is read only in step RETRANSMITTING (TransparentProofs.NI: whole-FSM
   non-interference), which is why the states agree up to that field after every further call. *)
From CFDP Require Import Base Fs Crc Checksum Handler Dest Source HandlerSpec SourceSpec.
From CFDP.proofs Require Import TransparentProofs.
From RecordUpdate Require Import RecordSet.
Import RecordSetNotations.

(* File Data remains to be sent (q_file_size <> Some progress: the call does not switch to SENDING_EOF before it looks
   at the packet) and the transaction runs in acknowledged mode (with any other mode value the NAK is not answered).
   The state after the NAK call is given exactly: only the step and the remembered step differ from [s]. *)
Theorem c08_nak_transparent : forall (s : src) (p : putreq) (sn dn : path) (d : bytes) (h : hdr) (sos eos : Z)
                                     (reqs : list (Z * Z)) (n : nat),
  s_state s = ST_BUSY -> s_step s = SS_SENDING_FILE_DATA -> s_queue s = [] ->
  sc_mode (q_conf (s_p s)) = ACKED ->
  q_file_size (s_p s) <> Some (q_progress (s_p s)) ->
  s_put s = Some p -> pr_names p = Some (sn, dn) -> lookup (fs_s s) sn = Some (File d) -> sn <> [] ->
  q_progress (s_p s) <= zlen d -> 1 <= q_segment_len (s_p s) ->
  Forall (fun rq => 0 <= fst rq /\ fst rq <= snd rq /\ snd rq <= q_progress (s_p s) /\ ~ (fst rq = 0 /\ snd rq = 0)) reqs ->
  snd (check_inserted_packet_s (PNak h sos eos reqs) s) = Ok tt ->
  let answer := flat_map (fun rq => map (fd_of (hdr_of (q_conf (s_p s)) TOWARDS_RECEIVER))
                                        (range_tiles d (fst rq) (snd rq) (q_segment_len (s_p s)))) reqs in
  let s1 := s <| s_step_before := Some SS_SENDING_FILE_DATA |> <| s_step := SS_RETRANSMITTING |> in
  pump_with (Some (PNak h sos eos reqs)) s = (s1, Ok answer) /\
  snd (pumps n s1) = snd (pumps n s) /\
  (fst (pumps (S n) s1)) <| s_step_before := s_step_before s |> = fst (pumps (S n) s).
Proof. exact nak_transparent. Qed.
Print Assumptions c08_nak_transparent.

(* the NAK that arrives when all File Data has been sent but the EOF PDU has not (progress = file size): the step
   advances to SENDING_EOF before the packet is looked at, so the call that answers the NAK emits the EOF PDU FIRST and
   then the requested tiles (_handle_waiting_for_ack in the same call); from then on the run equals the run that follows
   the plain EOF call, again call by call and up to the remembered step.  Hypotheses: those under which the EOF call
   itself is determined (as in C07: checksum computable, positive ACK interval not already expired). *)
Theorem c08_nak_at_eof : forall (s : src) (p : putreq) (r : rcfg) (tid : Z * Z) (sn dn : path) (d cks : bytes) (h : hdr)
                                (sos eos : Z) (reqs : list (Z * Z)) (n : nat),
  s_state s = ST_BUSY -> s_step s = SS_SENDING_FILE_DATA -> s_queue s = [] ->
  sc_mode (q_conf (s_p s)) = ACKED ->
  q_file_size (s_p s) = Some (zlen d) -> q_progress (s_p s) = zlen d ->
  q_md_only (s_p s) = false -> q_rcfg (s_p s) = Some r -> q_tid (s_p s) = Some tid -> 0 < r_ack_ms r ->
  calculate_checksum (r_cktype r) (Some d) (zlen d) (q_segment_len (s_p s)) = Ok cks ->
  s_put s = Some p -> pr_names p = Some (sn, dn) -> lookup (fs_s s) sn = Some (File d) -> sn <> [] ->
  1 <= q_segment_len (s_p s) ->
  Forall (fun rq => 0 <= fst rq /\ fst rq <= snd rq /\ snd rq <= zlen d /\ ~ (fst rq = 0 /\ snd rq = 0)) reqs ->
  snd (check_inserted_packet_s (PNak h sos eos reqs) s) = Ok tt ->
  let eof := PEof (hdr_of (q_conf (s_p s)) TOWARDS_RECEIVER) C_NO_ERROR cks (zlen d) None in
  let answer := flat_map (fun rq => map (fd_of (hdr_of (q_conf (s_p s)) TOWARDS_RECEIVER))
                                        (range_tiles d (fst rq) (snd rq) (q_segment_len (s_p s)))) reqs in
  exists s', pump s = (s', Ok [eof]) /\
    let s1 := s' <| s_step_before := Some SS_WAITING_FOR_EOF_ACK |> <| s_step := SS_RETRANSMITTING |> in
    pump_with (Some (PNak h sos eos reqs)) s = (s1, Ok (eof :: answer)) /\
    snd (pumps n s1) = snd (pumps n s') /\
    (fst (pumps (S n) s1)) <| s_step_before := s_step_before s |> = fst (pumps (S n) s').
Proof. exact nak_at_eof. Qed.
Print Assumptions c08_nak_at_eof.

(* the general fact behind both: in ANY state whose step is not RETRANSMITTING, calls without inbound PDU neither read
   nor write the remembered step, and never enter step RETRANSMITTING *)
Theorem c08_step_before_unobserved : forall (n : nat) (s : src) (x : option Z),
  s_step s <> SS_RETRANSMITTING ->
  pumps n (s <| s_step_before := x |>) = ((fst (pumps n s)) <| s_step_before := x |>, snd (pumps n s)) /\
  s_step (fst (pumps n s)) <> SS_RETRANSMITTING.
Proof. exact pumps_NI. Qed.
Print Assumptions c08_step_before_unobserved.

(* where the mode is one of the two defined ones, the admission check already implies acknowledged mode *)
Theorem c08_accepted_nak_acked : forall s h sos eos reqs,
  sc_mode (q_conf (s_p s)) = ACKED \/ sc_mode (q_conf (s_p s)) = UNACKED ->
  snd (check_inserted_packet_s (PNak h sos eos reqs) s) = Ok tt -> sc_mode (q_conf (s_p s)) = ACKED.
Proof. exact accepted_nak_acked. Qed.
Print Assumptions c08_accepted_nak_acked.
