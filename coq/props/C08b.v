(* Property C08, transparency — answering a NAK does not disturb the rest of the transfer: a sender that is in the middle
   of its File Data stream and receives a NAK with valid segment requests emits exactly the requested tiles and then
   continues with exactly the PDUs it would have emitted had the NAK never arrived (same File Data PDUs, same EOF),
   ending in the same state up to the remembered resume step.  For every file, position in the stream and request list. *)
From CFDP Require Import Base Fs Crc Checksum Handler Dest Source HandlerSpec SourceSpec.
From CFDP.proofs Require Import TransparentProofs.
From RecordUpdate Require Import RecordSet.
Import RecordSetNotations.

(* DRAFT — the prover fixes the exact form after evaluating the model (in particular whether the call that answers the
   NAK also emits the next tile, i.e. whether the two runs are aligned call by call or shifted by one call) *)
Theorem c08_nak_transparent : forall (s : src) (p : putreq) (sn dn : path) (d : bytes) (h : hdr) (sos eos : Z)
                                     (reqs : list (Z * Z)) (n : nat),
  s_state s = ST_BUSY -> s_step s = SS_SENDING_FILE_DATA -> s_queue s = [] -> s_ready s = 0 ->
  s_put s = Some p -> pr_names p = Some (sn, dn) -> lookup (fs_s s) sn = Some (File d) -> sn <> [] ->
  q_progress (s_p s) <= zlen d -> 1 <= q_segment_len (s_p s) ->
  Forall (fun rq => 0 <= fst rq /\ fst rq <= snd rq /\ snd rq <= q_progress (s_p s) /\ ~ (fst rq = 0 /\ snd rq = 0)) reqs ->
  snd (check_inserted_packet_s (PNak h sos eos reqs) s) = Ok tt ->
  let answer := flat_map (fun rq => map (fd_of (hdr_of (q_conf (s_p s)) TOWARDS_RECEIVER))
                                        (range_tiles d (fst rq) (snd rq) (q_segment_len (s_p s)))) reqs in
  exists s1, pump_with (Some (PNak h sos eos reqs)) s = (s1, Ok answer) /\
    snd (pumps n s1) = snd (pumps n s) /\
    (fst (pumps (S n) s1)) <| s_step_before := s_step_before s |> = fst (pumps (S n) s).
Proof. exact nak_transparent. Qed.
Print Assumptions c08_nak_transparent.
