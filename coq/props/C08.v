(* Property C08 — Retransmissions deliver exactly the requested data and nothing else.
   Model: Source.handle_segment_req / handle_retransmission / fsm_advancement_s
   (source.py:698-728, 811-823). *)
From CFDP Require Import Base Fs Crc Checksum Handler Dest Source HandlerSpec SourceSpec.
From CFDP.proofs Require Import RetransmitProofs.
From RecordUpdate Require Import RecordSet.
Import RecordSetNotations.

Definition enqueue (ps : list pdu) (s : src) : src :=
  s <| s_queue ::= (fun q => q ++ ps) |> <| s_ready ::= (fun n => n + zlen ps) |>.

(* a valid, non-metadata request: exactly the tiles of [a, b) with the file's bytes, in order *)
Theorem c08_segment_req_valid : forall s p sn dn d a b,
  s_put s = Some p -> pr_names p = Some (sn, dn) -> lookup (fs_s s) sn = Some (File d) -> sn <> [] ->
  0 <= a -> a <= b -> b <= q_progress (s_p s) -> q_progress (s_p s) <= zlen d ->
  ~ (a = 0 /\ b = 0) -> 1 <= q_segment_len (s_p s) ->
  handle_segment_req (a, b) s =
    (enqueue (map (fd_of (hdr_of (q_conf (s_p s)) TOWARDS_RECEIVER)) (range_tiles d a b (q_segment_len (s_p s)))) s, Ok tt).
Proof. exact segment_req_valid. Qed.
Print Assumptions c08_segment_req_valid.

(* the tiles of a range: concatenation = the requested bytes, each tile within the segment length *)
Theorem c08_range_tiles_exact : forall d a b seg,
  0 <= a -> a <= b -> b <= zlen d -> 1 <= seg ->
  concat (map snd (range_tiles d a b seg)) = ztake (b - a) (zdrop a d) /\
  (forall k t, nth_error (range_tiles d a b seg) k = Some t ->
     fst t = a + Z.of_nat k * seg /\ 1 <= zlen (snd t) <= seg /\ fst t + zlen (snd t) <= b).
Proof. exact range_tiles_exact. Qed.
Print Assumptions c08_range_tiles_exact.

(* the metadata request (0,0): the Metadata PDU is generated again, by the same function *)
Theorem c08_segment_req_metadata : forall s, handle_segment_req (0, 0) s = prepare_metadata_pdu s.
Proof. exact segment_req_metadata. Qed.

(* inverted requests and requests reaching beyond the data sent so far are rejected; nothing is queued *)
Theorem c08_segment_req_invalid : forall s a b,
  ~ (a = 0 /\ b = 0) -> (b < a \/ q_progress (s_p s) < a \/ q_progress (s_p s) < b) ->
  handle_segment_req (a, b) s = (s, Err E_INVALID_NAK).
Proof. exact segment_req_invalid. Qed.
Print Assumptions c08_segment_req_invalid.

(* a NAK of valid non-metadata requests: the concatenation of the requested tilings in request
   order and nothing else; the step to resume is remembered *)
Theorem c08_retransmission : forall s p sn dn d h sos eos reqs,
  s_put s = Some p -> pr_names p = Some (sn, dn) -> lookup (fs_s s) sn = Some (File d) -> sn <> [] ->
  q_progress (s_p s) <= zlen d -> 1 <= q_segment_len (s_p s) ->
  Forall (fun rq => 0 <= fst rq /\ fst rq <= snd rq /\ snd rq <= q_progress (s_p s) /\ ~ (fst rq = 0 /\ snd rq = 0)) reqs ->
  handle_retransmission (Some (PNak h sos eos reqs)) s =
    ((enqueue (flat_map (fun rq => map (fd_of (hdr_of (q_conf (s_p s)) TOWARDS_RECEIVER))
                                      (range_tiles d (fst rq) (snd rq) (q_segment_len (s_p s)))) reqs) s)
       <| s_step_before := Some (s_step s) |> <| s_step := SS_RETRANSMITTING |>, Ok true).
Proof. exact retransmission. Qed.
Print Assumptions c08_retransmission.

(* anything that is not a NAK is not a retransmission request *)
Theorem c08_not_nak : forall s pkt,
  (match pkt with Some (PNak _ _ _ _) => False | _ => True end) -> handle_retransmission pkt s = (s, Ok false).
Proof. exact not_nak. Qed.

(* resumption: once the retransmitted PDUs were retrieved, the next call restores the step;
   progress, EOF condition, file size, segment length and header were never touched *)
Theorem c08_resume : forall s x,
  s_queue s = [] -> s_step s = SS_RETRANSMITTING -> s_step_before s = Some x ->
  fsm_advancement_s s = (s <| s_step := x |>, Ok tt).
Proof. exact resume. Qed.
Print Assumptions c08_resume.

(* non-vacuity *)
Example c08_nv : range_tiles [10; 11; 12; 13; 14; 15; 16] 1 6 2 = [(1, [11; 12]); (3, [13; 14]); (5, [15])].
Proof. vm_compute. reflexivity. Qed.
