(* Property C18 — Lost-segment bookkeeping refines an exact interval set.
   This file contains only the property theorems; each is closed by a lemma
   from proofs/LostSegProofs.v.  Model: LostSeg.v (dest.py:146-217). *)
From CFDP Require Import Base LostSeg LostSegSpec.
From CFDP.proofs Require Import LostSegProofs.

(* additions of non-empty ranges disjoint from what is tracked *)
Theorem c18_add_spec : forall l s e,
  Inv l -> s < e -> (forall x, s <= x < e -> ~ den l x) ->
  Inv (add (s, e) l) /\ (forall x, den (add (s, e) l) x <-> den l x \/ s <= x < e).
Proof. exact add_spec. Qed.
Print Assumptions c18_add_spec.

(* removal of a non-empty range lying within one tracked range *)
Theorem c18_remove_inside : forall l s e a b,
  Inv l -> s < e -> In (a, b) l -> a <= s -> e <= b ->
  exists l', remove (s, e) l = Ok (l', true) /\ Inv l' /\
             (forall x, den l' x <-> den l x /\ ~ (s <= x < e)).
Proof. exact remove_inside_spec. Qed.
Print Assumptions c18_remove_inside.

(* removal of an empty range, or of a range touching no tracked byte *)
Theorem c18_remove_untouched : forall l s e,
  Inv l -> s <= e -> (forall x, s <= x < e -> ~ den l x) ->
  remove (s, e) l = Ok (l, false).
Proof. exact remove_untouched_spec. Qed.
Print Assumptions c18_remove_untouched.

(* the returned flag says whether the denoted set changed *)
Theorem c18_remove_reports_change : forall l s e l' b,
  Inv l -> op_pre l (ORemove s e) -> remove (s, e) l = Ok (l', b) ->
  (b = true <-> exists x, ~ (den l' x <-> den l x)).
Proof. exact remove_reports_change. Qed.
Print Assumptions c18_remove_reports_change.

(* a removal that straddles the end of a tracked range is refused *)
Theorem c18_remove_straddle_refused : forall l s e a b,
  Inv l -> In (a, b) l -> a <= s < b -> b < e ->
  remove (s, e) l = Err ValueError.
Proof. exact remove_straddle_refused. Qed.
Print Assumptions c18_remove_straddle_refused.

(* under the stated preconditions a removal never raises *)
Theorem c18_remove_pre_no_error : forall l s e,
  Inv l -> op_pre l (ORemove s e) -> exists l' b, remove (s, e) l = Ok (l', b).
Proof. exact remove_pre_no_error. Qed.
Print Assumptions c18_remove_pre_no_error.

(* coalescing keeps the set, keeps the order and leaves no adjacent ranges *)
Theorem c18_coalesce_spec : forall l,
  Inv l -> InvGap (coalesce l) /\ (forall x, den (coalesce l) x <-> den l x).
Proof. exact coalesce_spec. Qed.
Print Assumptions c18_coalesce_spec.

(* refinement: any admissible operation sequence, from any well-formed tracker *)
Theorem c18_run_refines_set : forall ops l S,
  Inv l -> (forall x, den l x <-> S x) -> run_pre l ops ->
  Inv (run l ops) /\ (forall x, den (run l ops) x <-> spec_run S ops x).
Proof. exact run_refines_set. Qed.
Print Assumptions c18_run_refines_set.

(* InvGap is stronger than Inv *)
Theorem c18_invgap_inv : forall l, InvGap l -> Inv l.
Proof. exact invgap_inv. Qed.

(* non-vacuity: a concrete three-range tracker, a splitting removal, a coalescing pair *)
Example c18_nv_inv : Inv [(0, 2); (4, 8); (8, 10)].
Proof. repeat constructor; lia. Qed.
Example c18_nv_split :
  remove (5, 6) [(0, 2); (4, 8); (8, 10)] = Ok ([(0, 2); (4, 5); (6, 8); (8, 10)], true).
Proof. vm_compute. reflexivity. Qed.
Example c18_nv_coalesce : coalesce [(0, 2); (4, 8); (8, 10)] = [(0, 2); (4, 10)].
Proof. vm_compute. reflexivity. Qed.
Example c18_nv_straddle : remove (5, 9) [(0, 2); (4, 8); (8, 10)] = Err ValueError.
Proof. vm_compute. reflexivity. Qed.
Example c18_nv_run_pre :
  run_pre [] [OAdd 4 8; OAdd 0 2; OAdd 8 10; ORemove 5 6; OCoalesce; ORemove 0 2; OReset].
Proof. exact nv_run_pre. Qed.
