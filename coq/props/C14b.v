(* Property C14, over the WHOLE state machines — every fault callback that ANY API call of either handler delivers
   follows the fault-handler table of the local configuration, carries the id of the transaction the call works on, and
   an abandon callback is the last thing the call reports.  props/C14.v proves the dispatch of one declaration
   (declare_fault / declare_fault_s: ignore / cancel / abandon, exact state); here: these declarations are the only way a
   fault callback event gets into the log, in every call on EVERY state (hence for every history).

   Model: the event log of Dest.v / Source.v ([EvFault kind src seq cond progress]: the callback of handler code [kind] ran),
   the API as data ([dcall] / [scall] with [dapply] / [sapply], proofs/HistoryIndepProofs.v, printed in props/C11b.v).

   One callback kind is not looked up in the table, on purpose (CFDP 4.11.2.2.3 / 4.11.2.3.3: a fault declared while the
   transaction is already being cancelled leads to abandonment): the abandon callback
     - of the receiver whose Finished (cancel) exchange hits the positive ACK limit (dest.py _handle_positive_ack_procedures,
       repair d8034b8; props/C04.v),
     - of the sender at which a fault handled by "cancel" (or a cancel request) arrives while its EOF (cancel) exchange is
       running (source.py _notice_of_cancellation; c14_source_cancel_during_cancel);
   it reports the condition of the cancellation in progress.  For the sender this is stated exactly (the EOF condition at
   the start of the call); for the receiver the theorem says "kind = abandon". *)
From CFDP Require Import Base LostSeg Fs Handler Dest Source HandlerSpec SourceSpec.
From CFDP.proofs Require Import HistoryIndepProofs FaultTableProofs.
From RecordUpdate Require Import RecordSet.
Import RecordSetNotations.

(* ---------------------------------------------------------------- vocabulary *)
Definition is_abandon (e : event) : bool := match e with EvFault k _ _ _ _ => k =? FH_ABANDON | _ => false end.
Definition no_abandon (l : list event) : Prop := forallb (fun e => negb (is_abandon e)) l = true.
Definition is_fault (e : event) : bool := match e with EvFault _ _ _ _ _ => true | _ => false end.
Definition no_fault (l : list event) : Prop := forallb (fun e => negb (is_fault e)) l = true.

(* the transaction a state_machine call of the receiver works on: the one in progress, or the one the inserted PDU starts *)
Definition pdu_tid (p : pdu) : Z * Z := (h_src (pdu_hdr p), h_seq (pdu_hdr p)).
Definition dest_call_tid (pkt : option pdu) (s : dst) : option (Z * Z) :=
  if d_state s =? ST_IDLE then option_map pdu_tid pkt else p_tid (d_p s).
(* only state_machine can deliver callbacks *)
Definition dcall_tid (cl : dcall) (s : dst) : option (Z * Z) :=
  match cl with DSm pkt => dest_call_tid pkt s | _ => None end.

(* ---------------------------------------------------------------- receiver *)
(* (1) every fault callback of every API call: the transaction id is the one of the call (so: no callback without a
   transaction, none by get_next_packet / cancel_request / reset / the clock), and its kind is what the table of the
   local configuration gives for its condition, or it is an abandon callback *)
Theorem c14_dest_fault_events_follow_table : forall (cl : dcall) (s : dst),
  exists new, log_d (fst (dapply cl s)) = new ++ log_d s /\
    forall kind a b cond prog, In (EvFault kind a b cond prog) new ->
      dcall_tid cl s = Some (a, b) /\
      (get_fault_handler (l_faults (d_cfg s)) cond = Some kind \/ kind = FH_ABANDON).
Proof. exact dest_fault_events_follow_table. Qed.
Print Assumptions c14_dest_fault_events_follow_table.

(* (2) abandon is final within the call: an abandon callback is the NEWEST event of the call (nothing is reported after it,
   in particular no Transaction-Finished for a transaction id that no longer exists: F27), there is one at most, and the
   handler is idle with fresh parameters after the call.  The queue and the ready counter of the receiver only ever grow
   in a state_machine call, by the same PDUs: abandonment drops nothing that was queued before it (the receiver's reset
   keeps the queue; the counter stays in step) and nothing is queued after it. *)
Theorem c14_dest_abandon_is_final : forall pkt s,
  exists new added,
    log_d (fst (Dest.state_machine pkt s)) = new ++ log_d s /\
    d_queue (fst (Dest.state_machine pkt s)) = d_queue s ++ added /\
    d_ready (fst (Dest.state_machine pkt s)) = d_ready s + zlen added /\
    forall e, In e new -> is_abandon e = true ->
      (exists older, new = e :: older /\ no_abandon older) /\
      d_state (fst (Dest.state_machine pkt s)) = ST_IDLE /\ d_step (fst (Dest.state_machine pkt s)) = DS_IDLE /\
      d_p (fst (Dest.state_machine pkt s)) = fresh_params.
Proof. exact dest_abandon_is_final. Qed.
Print Assumptions c14_dest_abandon_is_final.

(* (3) notice of cancellation at the receiver: the condition of the cancel callback is what the transaction then reports.
   For the NEWEST cancel callback of a call (condition c; [newer]: the events of the call after it): every
   Transaction-Finished indication delivered after it in the same call reports c, and at the end of the call the
   transaction is cancelled with c (completion disposition "cancelled", condition code of the Finished PDU to come: c) or
   the handler is idle with fresh parameters (the transaction was completed in the call: unacknowledged mode without
   closure, or the Finished ACK arrived; or it was abandoned).  The Finished PDU carries the condition of the indication
   (c15_completion_reports_finished_pdu).
   Statement strengthened with the F35 repair: before it "reports c" had a second alternative, No Error with delivery code
   Data Complete (a checksum verification succeeding after the fault in the same call: the deferred procedure ran after a
   File Data PDU that closed the last gap and reached beyond the EOF's file size) - that was defect F35
   (FaultTableProofs.Examples.cancel_condition_stands_after_gap_closed shows the run from a fresh handler and its new
   outcome).  The deferred procedure now leaves a cancelled transaction alone (c14_dest_deferred_cancelled_noop).
   The theorem holds for every state and every PDU. *)
Definition is_cancel (e : event) : bool := match e with EvFault k _ _ _ _ => k =? FH_CANCEL | _ => false end.
Definition cancelling (c : Z) (s : dst) : Prop :=
  p_disp (d_p s) = DISP_CANCELED /\ f_cond (p_fin (d_p s)) = c.
Definition dfresh (s : dst) : Prop := d_state s = ST_IDLE /\ d_step s = DS_IDLE /\ d_p s = fresh_params.

Theorem c14_dest_cancel_condition_reported : forall pkt s,
  exists new, log_d (fst (Dest.state_machine pkt s)) = new ++ log_d s /\
    forall newer a b c prog older,
      new = newer ++ EvFault FH_CANCEL a b c prog :: older -> (forall e, In e newer -> is_cancel e = false) ->
      (forall a' b' cd dl fs fl, In (EvFinished a' b' cd dl fs fl) newer -> cd = c) /\
      (cancelling c (fst (Dest.state_machine pkt s)) \/ dfresh (fst (Dest.state_machine pkt s))).
Proof. exact dest_cancel_condition_reported. Qed.
Print Assumptions c14_dest_cancel_condition_reported.

(* the same for every cancel callback of the call, not only the newest: each Transaction-Finished reports the condition
   of the newest cancel callback BEFORE it (two cancel callbacks in one call are possible: check limit handling with File
   Checksum Failure configured as cancel declares Check Limit Reached after it; the later condition is the one reported) *)
Fixpoint mode_after (m0 : option Z) (new : list event) : option Z :=
  match new with
  | [] => m0
  | EvFault k _ _ c _ :: older => if k =? FH_CANCEL then Some c else mode_after m0 older
  | _ :: older => mode_after m0 older
  end.
Fixpoint fins_ok (m0 : option Z) (new : list event) : Prop :=
  match new with
  | [] => True
  | e :: older =>
      fins_ok m0 older /\
      match e with
      | EvFinished _ _ cd _ _ _ => match mode_after m0 older with Some c => cd = c | None => True end
      | _ => True
      end
  end.
Definition dest_cancel_post (s s' : dst) : Prop :=
  exists new, log_d s' = new ++ log_d s /\ fins_ok None new /\
    forall c, mode_after None new = Some c -> cancelling c s' \/ dfresh s'.
Theorem c14_dest_cancel_post : forall pkt s, dest_cancel_post s (fst (Dest.state_machine pkt s)).
Proof. exact dest_state_machine_cancel_post. Qed.
Print Assumptions c14_dest_cancel_post.

(* a cancelled transaction: the deferred lost-segment procedure does nothing, the cancel condition stands (F35 repair) *)
Theorem c14_dest_deferred_cancelled_noop : forall s,
  p_disp (d_p s) = DISP_CANCELED -> deferred_lost_segment_handling s = (s, Ok tt).
Proof. exact deferred_cancelled_noop. Qed.
Print Assumptions c14_dest_deferred_cancelled_noop.

(* (4) "no call delivers two callbacks with the same condition" is FALSE for the receiver with a check timer interval of 0
   (FaultTableProofs.Examples.dest_same_condition_twice_with_zero_check_interval, from a fresh handler: the verification
   that fails when the EOF arrives starts the check timer, which has expired at once, so the check limit handling of the
   same call verifies and declares again).  What holds: at most one abandon callback per call and it is the last event
   (c14_dest_abandon_is_final); NAK Limit Reached with handler IGNORE is declared once (c14_dest_nak_limit_not_declared_again);
   the sender delivers at most one fault callback per call (c14_source_one_fault_callback below). *)

(* the kinds: with a table whose entries are handler codes, every callback is of one of the four kinds
   (cancel / suspend / ignore / abandon; suspend is dispatched like ignore, dest.py _notice_of_suspension is empty) *)
Definition table_valid (tb : list (Z * Z)) : Prop :=
  Forall (fun kv => In (snd kv) [FH_CANCEL; FH_SUSPEND; FH_IGNORE; FH_ABANDON]) tb.
Theorem c14_fault_kinds : forall tb cond kind, table_valid tb ->
  (get_fault_handler tb cond = Some kind \/ kind = FH_ABANDON) -> In kind [FH_CANCEL; FH_SUSPEND; FH_IGNORE; FH_ABANDON].
Proof. exact fault_kinds. Qed.
Print Assumptions c14_fault_kinds.

(* ---------------------------------------------------------------- sender *)
Definition idle_reset (s : src) : Prop :=
  s_state s = ST_IDLE /\ s_step s = SS_IDLE /\ s_p s = reset_sparams /\ s_queue s = [] /\ s_ready s = 0.

(* the one fault callback a sender call delivers ([new]: the events of the call, newest first; q0 / r0: queue and ready
   counter at the start; t: transaction id at the start; ce0: condition code of the EOF PDU at the start):
   it is the only fault callback of the call, and the NEWEST event unless its kind is IGNORE (then the procedure that
   declared the limit fault carries on, F34 repair: the positive ACK procedure re-sends the EOF, whose EOF-Sent indication
   follows the callback; FaultTableProofs.Examples.source_ignore_declared); it carries the transaction id; and
   - its kind is what the table gives for its condition, and then
       abandon: the handler is idle, the parameters are reset, the queue is cleared and the ready counter is zero (F28),
       otherwise nothing queued was dropped, and for cancel an EOF PDU with that condition was queued in this call;
   - or it is the abandonment of a transaction whose EOF (cancel) exchange was already running with that condition. *)
Definition src_fault_last (c : lcfg) (t : option (Z * Z)) (ce0 : option Z) (q0 : list pdu) (r0 : Z)
           (new : list event) (s' : src) : Prop :=
  exists k a b cond pr newer older,
    new = newer ++ EvFault k a b cond pr :: older /\ no_fault newer /\ (k <> FH_IGNORE -> newer = []) /\
    no_fault older /\ t = Some (a, b) /\
    ((get_fault_handler (l_faults c) cond = Some k /\
      (k = FH_ABANDON -> idle_reset s') /\
      (k <> FH_ABANDON -> exists added, s_queue s' = q0 ++ added /\ s_ready s' = r0 + zlen added /\
                            (k = FH_CANCEL -> exists h ck fsz, In (PEof h cond ck fsz None) added)))
     \/ (k = FH_ABANDON /\ ce0 = Some cond /\ cond <> C_NO_ERROR /\ idle_reset s')).

Definition source_call_post (s s' : src) : Prop :=
  exists new, log_s s' = new ++ log_s s /\
    ((no_fault new /\ exists added, s_queue s' = s_queue s ++ added /\ s_ready s' = s_ready s + zlen added) \/
     src_fault_last (s_cfg s) (q_tid (s_p s)) (q_cond_eof (s_p s)) (s_queue s) (s_ready s) new s').

(* (1)-(4) for the two calls of the sender that can deliver callbacks: at most ONE fault callback per call, as described
   above; a call without a fault callback only appends to the queue.
   (Statement changed with the F34 repair: before it the callback was always the newest event, "new = EvFault ... :: older".) *)
Theorem c14_source_one_fault_callback : forall pkt a b s,
  source_call_post s (fst (state_machine_s pkt s)) /\ source_call_post s (fst (cancel_request_s a b s)).
Proof. exact source_one_fault_callback. Qed.
Print Assumptions c14_source_one_fault_callback.

(* (1) in the form of the receiver's theorem, for every API call of the sender (put_request, get_next_packet, reset and the
   clock deliver nothing) *)
Theorem c14_source_fault_events_follow_table : forall (cl : scall) (s : src),
  exists new, log_s (fst (sapply cl s)) = new ++ log_s s /\
    (no_fault new \/
     exists kind a b cond prog newer older,
       new = newer ++ EvFault kind a b cond prog :: older /\ no_fault newer /\ (kind <> FH_IGNORE -> newer = []) /\
       no_fault older /\
       q_tid (s_p s) = Some (a, b) /\
       (get_fault_handler (l_faults (s_cfg s)) cond = Some kind \/
        (kind = FH_ABANDON /\ q_cond_eof (s_p s) = Some cond /\ cond <> C_NO_ERROR))).
Proof. exact source_fault_events_follow_table. Qed.
Print Assumptions c14_source_fault_events_follow_table.

(* ---------------------------------------------------------------- an IGNOREd limit fault lets its procedure carry on (F34 repair) *)
(* (Before the repair the three procedures returned after the callback without advancing their counter or re-arming their
   timer, so the fault was declared again by EVERY following state_machine call.) *)

(* receiver, Check Limit Reached configured as IGNORE: one IGNORE callback, then the check counter is incremented and the
   check timer restarted at the current time, exactly as at an expiry below the limit (s1: the state the failed
   verification leaves) *)
Theorem c14_dest_check_limit_ignored_continues : forall s s1 tm r r' a b t0 tmo,
  p_check_timer (d_p s) = Some tm -> p_rcfg (d_p s) = Some r -> timed_out (now_d s) tm = true ->
  checksum_verify s = (s1, Ok false) ->
  p_rcfg (d_p s1) = Some r' -> r_check_limit r' <= p_check_count (d_p s1) + 1 ->
  get_fault_handler (l_faults (d_cfg s1)) C_CHECK_LIMIT = Some FH_IGNORE ->
  p_tid (d_p s1) = Some (a, b) -> p_check_timer (d_p s1) = Some (t0, tmo) ->
  check_limit_handling s =
    (s1 <| d_env ::= (fun en => en <| e_log ::= cons (EvFault FH_IGNORE a b C_CHECK_LIMIT (p_progress (d_p s1))) |>) |>
        <| d_p ::= (fun p => p <| p_check_count ::= (fun c => c + 1) |> <| p_check_timer := Some (now_d s, tmo) |>) |>, Ok tt).
Proof. exact dest_check_limit_ignored_continues. Qed.
Print Assumptions c14_dest_check_limit_ignored_continues.
(* so it is not declared again before the next expiry: while the check timer runs the procedure does nothing *)
Theorem c14_dest_check_limit_waits : forall s tm r,
  p_check_timer (d_p s) = Some tm -> p_rcfg (d_p s) = Some r -> timed_out (now_d s) tm = false ->
  check_limit_handling s = (s, Ok tt).
Proof. exact dest_check_limit_waits. Qed.
Print Assumptions c14_dest_check_limit_waits.

(* sender, Positive ACK Limit Reached configured as IGNORE: one IGNORE callback, then the positive ACK procedure carries on
   as at an expiry below the limit: the EOF PDU is re-sent (checksum of the bytes sent), the EOF-Sent indication (if
   enabled) follows the callback, the counter is incremented, the timer restarted at the current time; and the fault is
   not declared again before the next expiry *)
Theorem c14_source_pos_ack_limit_ignored_continues : forall s r tm a b ce ck,
  q_ack_timer (s_p s) = Some tm -> q_rcfg (s_p s) = Some r -> timed_out (now_s s) tm = true ->
  r_ack_limit r <= q_ack_counter (s_p s) + 1 ->
  get_fault_handler (l_faults (s_cfg s)) C_POS_ACK_LIMIT = Some FH_IGNORE ->
  q_tid (s_p s) = Some (a, b) -> q_cond_eof (s_p s) = Some ce ->
  snd (checksum_calculation (q_progress (s_p s)) s) = Ok ck ->
  exists s', handle_positive_ack_procedures_s s = (s', Ok tt) /\
    log_s s' = (if l_ind_eof_sent (s_cfg s) then [EvEofSent a b] else []) ++
               EvFault FH_IGNORE a b C_POS_ACK_LIMIT (q_progress (s_p s)) :: log_s s /\
    s_queue s' = s_queue s ++ [PEof (hdr_of (q_conf (s_p s)) TOWARDS_RECEIVER) ce ck (q_progress (s_p s)) None] /\
    s_ready s' = s_ready s + 1 /\
    s_p s' = (s_p s) <| q_ack_timer := Some (now_s s, snd tm) |> <| q_ack_counter := q_ack_counter (s_p s) + 1 |> /\
    s_state s' = s_state s /\ s_step s' = s_step s /\
    (0 < snd tm -> handle_positive_ack_procedures_s s' = (s', Ok tt)).
Proof. exact source_pos_ack_limit_ignored_continues. Qed.
Print Assumptions c14_source_pos_ack_limit_ignored_continues.

(* sender, Check Limit Reached (waiting for the Finished PDU) configured as IGNORE: one IGNORE callback, the check timer is
   restarted at the current time, nothing else changes; not declared again before the next expiry *)
Theorem c14_source_check_limit_ignored_continues : forall s tm a b,
  q_check_timer (s_p s) = Some tm -> timed_out (now_s s) tm = true ->
  get_fault_handler (l_faults (s_cfg s)) C_CHECK_LIMIT = Some FH_IGNORE -> q_tid (s_p s) = Some (a, b) ->
  exists s', handle_wait_for_finish None s = (s', Ok tt) /\
    log_s s' = EvFault FH_IGNORE a b C_CHECK_LIMIT (q_progress (s_p s)) :: log_s s /\
    s_p s' = (s_p s) <| q_check_timer := Some (now_s s, snd tm) |> /\
    s_queue s' = s_queue s /\ s_ready s' = s_ready s /\ s_state s' = s_state s /\ s_step s' = s_step s /\
    (0 < snd tm -> handle_wait_for_finish None s' = (s', Ok tt)).
Proof. exact source_check_limit_ignored_continues. Qed.
Print Assumptions c14_source_check_limit_ignored_continues.
