(* Property C03, unbounded instances K = 1, delay, continued (props/C03y.v): the cases in which the held-back PDU is
   overtaken by the recovery procedures it has triggered.  n = number of File Data PDUs; indices on the sender->receiver
   direction: 0 Metadata, 1..n File Data, n+1 EOF; fault kind 2 = held back for d rounds. *)
From CFDP Require Import Base LostSeg Fs Crc Checksum Handler Dest Source SourceSpec System.
From CFDP.proofs Require Import DelayProofs2.

(* (a) a File Data PDU k held back until AFTER the EOF PDU was processed (k + d >= n + 2), deferred NAK mode, EVERY such d.
   Until the release the run is that of a lost File Data PDU (C03u): the gap is recorded (at the next File Data PDU or,
   for the last one, at the EOF PDU), the deferred lost-segment procedure requests it, the sender retransmits it.  With
   N = n + 2 the round of the EOF PDU, the late original is released in round r = k + 1 + d and arrives
     r = N + 1  at the receiver about to start the deferred procedure: that call starts it (the NAK is queued all the
                same) and the PDU closes the gap, the transfer completes; the sender answers the NAK, the retransmitted
                copy only triggers the Finished PDU,
     r = N + 2  together with and before the retransmitted copy: it closes the gap and completes the transfer; the
                retransmitted copy is ignored by the receiver, which waits for the ACK (Finished),
     r = N + 3  together with and before the ACK (Finished): ignored,
     r >= N + 4 at the idle receiver: its surrounding entity has the transaction on record as done and drops the PDU
                (after rounds without activity, if r > N + 4).
   Nothing is refused (y_errs = []), no second indication, no fault event: the verdict of the fault-free runs.  No timer
   expires while a handler is busy (every such round has activity); the hypotheses on the NAK timer interval and on the
   receiver's maximum packet length are those of C03u (the deferred procedure must be able to build its NAK PDU). *)
Theorem c03_single_delay_file_data_late :
  forall (cs cd : lcfg) (seq0 bits : Z) (p : putreq) (rs rd : rcfg) (sn dn : path) (data : bytes) (tick k d : Z) (ft : fault),
  let w := Z.max (l_idw cs) (pr_dstw p) in
  let large := 4294967295 <? zlen data in
  let derived := r_max_packet rs - (4 + 2 * w + bits / 8) - (if large then 8 else 4) - (if r_crc rs then 2 else 0) in
  let seg := match r_max_seg rs with Some m => Z.min m derived | None => derived end in
  get_remote (l_remotes cs) (pr_dst p) = Some rs ->
  pr_names p = Some (sn, dn) -> sn <> [] -> dn <> [] -> pr_msgs p = None ->
  (match pr_mode p with Some m => m | None => r_mode rs end) = ACKED ->
  let n := (zlen data + seg - 1) / seg in
  (* the held-back PDU: File Data PDU number k, released after the round of the EOF PDU; deferred NAK mode (for the last
     File Data PDU the NAK mode does not matter: its absence is noticed at the EOF PDU, not at a File Data PDU) *)
  ft = mkFault 0 k 2 d -> 1 <= k <= n -> n + 2 <= k + d -> (k < n -> r_imm_nak rd = false) ->
  (* as in C03u: the NAK timer interval is positive, the receiver's maximum packet length has room for a NAK PDU *)
  0 < r_nak_ms rd ->
  4 + 2 * w + bits / 8 + 1 + (if r_crc rs then 2 else 0) + 2 * (if large then 8 else 4) <= r_max_packet rd ->
  0 < r_ack_ms rs -> 0 < r_ack_ms rd ->
  (bits = 8 \/ bits = 16 \/ bits = 32) -> 0 <= seq0 < 2 ^ bits -> 1 <= seg -> 6 <= derived ->
  (r_cktype rs = CK_CRC32 \/ r_cktype rs = CK_CRC32C \/ r_cktype rs = CK_NULL \/ r_cktype rs = CK_MODULAR) ->
  bytes_ok data = true ->
  l_id cd = pr_dst p -> get_remote (l_remotes cd) (l_id cs) = Some rd -> length dn = 1%nat ->
  get_fault_handler (l_faults cd) C_CHECKSUM_FAILURE <> None ->
  l_ind_fin cs = true -> l_ind_fin cd = true ->
  exists fuel,
    let res := transfer cs cd seq0 bits p sn data [ft] fuel tick in
    delivered_ok dn data res = true /\ y_errs (fst res) = [] /\ fault_free_ok dn data res = true.
Proof. exact single_delay_file_data_late. Qed.
Print Assumptions c03_single_delay_file_data_late.

(* (b) a File Data PDU k held back for d >= 2 rounds, IMMEDIATE NAK mode, at least two File Data PDUs after it (k <= n - 2),
   EVERY such d.  The File Data PDU k + 1 overtakes it and reveals the gap: the receiver sends a NAK at once; the sender
   interrupts the stream for one round and retransmits the tile, which fills the gap, then resumes.  The late original is a
   copy of data the receiver already has, wherever it arrives:
     d = 2            in the same round as, and before, the retransmitted copy: it fills the gap, the retransmitted copy is
                      written again below the progress,
     later            together with (and before) a File Data PDU or the EOF PDU: written again below the progress, nothing
                      else changes,
     after the EOF    at the receiver that has just sent the ACK (EOF) (that call completes the transfer first), together
                      with the ACK (Finished) (ignored while the Positive-ACK timer runs), or at the idle receiver (dropped
                      by its surrounding entity).
   Nothing is refused, no timer is involved: the verdict of the fault-free runs.  Together with C03y (2) (d <= 1) and (a)
   (k = n, k + d >= n + 2) the immediate mode is covered except for k = n - 1 with d >= 2 (the NAK meets a sender that has
   just sent the last File Data PDU: EOF PDU and retransmitted tile leave in one call) (for k = n: d <= 1 is C03y (2), d >= 2 is (a)).  DelayProofs.delay_data_examples / DelayProofs2.delay_imm_examples evaluate
   instances of all of them. *)
Theorem c03_single_delay_file_data_imm :
  forall (cs cd : lcfg) (seq0 bits : Z) (p : putreq) (rs rd : rcfg) (sn dn : path) (data : bytes) (tick k d : Z) (ft : fault),
  let w := Z.max (l_idw cs) (pr_dstw p) in
  let large := 4294967295 <? zlen data in
  let derived := r_max_packet rs - (4 + 2 * w + bits / 8) - (if large then 8 else 4) - (if r_crc rs then 2 else 0) in
  let seg := match r_max_seg rs with Some m => Z.min m derived | None => derived end in
  get_remote (l_remotes cs) (pr_dst p) = Some rs ->
  pr_names p = Some (sn, dn) -> sn <> [] -> dn <> [] -> pr_msgs p = None ->
  (match pr_mode p with Some m => m | None => r_mode rs end) = ACKED ->
  let n := (zlen data + seg - 1) / seg in
  (* the held-back PDU: File Data PDU number k, followed by at least two more; immediate NAK mode *)
  ft = mkFault 0 k 2 d -> 1 <= k <= n - 2 -> 2 <= d -> r_imm_nak rd = true ->
  0 < r_ack_ms rs -> 0 < r_ack_ms rd ->
  (bits = 8 \/ bits = 16 \/ bits = 32) -> 0 <= seq0 < 2 ^ bits -> 1 <= seg -> 6 <= derived ->
  (r_cktype rs = CK_CRC32 \/ r_cktype rs = CK_CRC32C \/ r_cktype rs = CK_NULL \/ r_cktype rs = CK_MODULAR) ->
  bytes_ok data = true ->
  l_id cd = pr_dst p -> get_remote (l_remotes cd) (l_id cs) = Some rd -> length dn = 1%nat ->
  get_fault_handler (l_faults cd) C_CHECKSUM_FAILURE <> None ->
  l_ind_fin cs = true -> l_ind_fin cd = true ->
  exists fuel,
    let res := transfer cs cd seq0 bits p sn data [ft] fuel tick in
    delivered_ok dn data res = true /\ y_errs (fst res) = [] /\ fault_free_ok dn data res = true.
Proof. exact single_delay_file_data_imm. Qed.
Print Assumptions c03_single_delay_file_data_imm.
