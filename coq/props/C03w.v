(* Property C03, unbounded instances K = 1, delay, continued (props/C03y.v, props/C03z.v).  n = number of File Data PDUs;
   indices on the sender->receiver direction: 0 Metadata, 1..n File Data, n+1 EOF; fault kind 2 = held back for d rounds. *)
From CFDP Require Import Base LostSeg Fs Crc Checksum Handler Dest Source SourceSpec System.
From CFDP.proofs Require Import DelayProofs3.

(* (b') IMMEDIATE NAK mode, the last File Data PDU but one (k = n - 1) held back for d >= 2 rounds, EVERY such d.  The last
   File Data PDU overtakes it and reveals the gap: NAK at once.  The NAK meets a sender that has just sent the last File
   Data PDU: one call sends the EOF PDU and the requested tile.  The EOF PDU finds the gap still open; the retransmitted
   tile reaches the receiver right after the ACK (EOF) was retrieved: that call starts the deferred procedure (a second
   NAK for the same tile is queued), closes the gap and completes the transfer; the sender answers the second NAK with
   the tile once more, which only triggers the Finished PDU.  The late original arrives
     d = 2    in the same round as, and before, the EOF PDU and the retransmitted tile: it fills the gap, the EOF PDU finds
              nothing missing, the retransmitted tile meets the receiver after its ACK (EOF): no second NAK,
     d = 3    together with, and before, the second retransmitted tile: it triggers the Finished PDU, the tile is ignored,
     d = 4    together with, and before, the ACK (Finished): ignored,
     d >= 5   at the idle receiver: dropped by its surrounding entity.
   Nothing is refused, no timer is involved: the verdict of the fault-free runs.  The receiver's maximum packet length must
   have room for a NAK PDU (as in C03u: the deferred procedure builds one).  The sender's Positive-ACK interval is not
   constrained (its EOF PDU leaves in a call that does not start that timer's check).  With C03y (2), C03z (a), (b) the
   delay of any one File Data PDU is now covered for every d in both NAK modes. *)
Theorem c03_single_delay_file_data_imm_last_but_one :
  forall (cs cd : lcfg) (seq0 bits : Z) (p : putreq) (rs rd : rcfg) (sn dn : path) (data : bytes) (tick k d : Z) (ft : fault),
  let w := Z.max (l_idw cs) (pr_dstw p) in
  let large := 4294967295 <? zlen data in
  let derived := r_max_packet rs - (4 + 2 * w + bits / 8) - (if large then 8 else 4) - (if r_crc rs then 2 else 0) in
  let seg := match r_max_seg rs with Some m => Z.min m derived | None => derived end in
  get_remote (l_remotes cs) (pr_dst p) = Some rs ->
  pr_names p = Some (sn, dn) -> sn <> [] -> dn <> [] -> pr_msgs p = None ->
  (match pr_mode p with Some m => m | None => r_mode rs end) = ACKED ->
  let n := (zlen data + seg - 1) / seg in
  ft = mkFault 0 k 2 d -> 1 <= k -> k = n - 1 -> 2 <= d -> r_imm_nak rd = true ->
  4 + 2 * w + bits / 8 + 1 + (if r_crc rs then 2 else 0) + 2 * (if large then 8 else 4) <= r_max_packet rd ->
  0 < r_ack_ms rd ->
  (bits = 8 \/ bits = 16 \/ bits = 32) -> 0 <= seq0 < 2 ^ bits -> 1 <= seg -> 6 <= derived ->
  (r_cktype rs = CK_CRC32 \/ r_cktype rs = CK_CRC32C \/ r_cktype rs = CK_NULL \/ r_cktype rs = CK_MODULAR) ->
  bytes_ok data = true ->
  l_id cd = pr_dst p -> get_remote (l_remotes cd) (l_id cs) = Some rd -> length dn = 1%nat ->
  get_fault_handler (l_faults cd) C_CHECKSUM_FAILURE <> None ->
  l_ind_fin cs = true -> l_ind_fin cd = true ->
  exists fuel,
    let res := transfer cs cd seq0 bits p sn data [ft] fuel tick in
    delivered_ok dn data res = true /\ y_errs (fst res) = [] /\ fault_free_ok dn data res = true.
Proof. exact single_delay_file_data_imm_last_but_one. Qed.
Print Assumptions c03_single_delay_file_data_imm_last_but_one.
