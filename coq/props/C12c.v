(* Property C12, receiver side, invariant — once the receiver's transaction is cancelled (cancel request, EOF (cancel)
   from the sender, or a fault whose handler is the notice of cancellation), nothing is written to the destination file
   any more, whatever arrives: every API call leaves the filestore as it is, except the one deletion of the incomplete
   file that the cancelled completion performs when disposition-on-cancellation is configured; and the transaction
   stays cancelled until the handler is idle.  Holds for every API call, hence for every history. *)
From CFDP Require Import Base LostSeg Fs Handler Dest HandlerSpec.
From CFDP.proofs Require Import DestCancelInvProofs.
From RecordUpdate Require Import RecordSet.
Import RecordSetNotations.

(* the steps a cancelled transaction can be in: every cancellation moves the step to the completion, or (EOF (cancel)
   in acknowledged mode) to the EOF ACK, from where the completion is the only way on; after the completion the
   Finished PDU is sent and its ACK awaited.  Without this condition the statement is false
   (DestCancelInvProofs.CounterExamples.step_needed: "cancelled" with the step still at receiving file data writes). *)
Definition dest_cancel_step (st : Z) : Prop :=
  st = DS_TRANSFER_COMPLETION \/ st = DS_SENDING_EOF_ACK \/ st = DS_SENDING_FINISHED \/ st = DS_WAITING_FOR_FINISHED_ACK.
Definition dest_cancelled (s : dst) : Prop :=
  d_state s = ST_BUSY /\ p_disp (d_p s) = DISP_CANCELED /\ dest_cancel_step (d_step s).
(* the cancelled completion (Transaction-Finished, file disposal) has been performed *)
Definition dest_completion_done (s : dst) : Prop :=
  d_step s = DS_SENDING_FINISHED \/ d_step s = DS_WAITING_FOR_FINISHED_ACK.

(* the filestore after the call is the one before, or the one before with the destination file deleted *)
Definition fs_kept_or_deleted (s s' : dst) : Prop :=
  fs_d s' = fs_d s \/ fs_d s' = fst (fs_delete_file (fs_d s) (p_file_name (d_p s))).

(* the invariant: every API call made in a cancelled state.
   state_machine: the filestore is kept or the destination file deleted; the handler is idle afterwards or still
   cancelled with the same destination file name; a call that changes the filestore is the one that performs the
   completion (it ends idle or past the completion); past the completion nothing is deleted any more and the
   step never returns before it.
   get_next_packet: nothing but the queue changes.
   cancel_request: the filestore is kept, the transaction stays cancelled (a request that is accepted again re-arms
   the completion: see CounterExamples.cancel_request_after_completion_reports_twice). *)
Theorem c12_dest_no_write_after_cancel : forall (s : dst) (pkt : option pdu) (a b : Z),
  dest_cancelled s ->
  (let s' := fst (Dest.state_machine pkt s) in
   fs_kept_or_deleted s s' /\
   (d_state s' = ST_IDLE \/ (dest_cancelled s' /\ p_file_name (d_p s') = p_file_name (d_p s))) /\
   (fs_d s' = fs_d s \/ d_state s' = ST_IDLE \/ dest_completion_done s') /\
   (dest_completion_done s -> fs_d s' = fs_d s /\ (d_state s' = ST_IDLE \/ dest_completion_done s'))) /\
  (let s' := fst (Dest.get_next_packet s) in
   fs_d s' = fs_d s /\ dest_cancelled s' /\ d_step s' = d_step s /\ d_p s' = d_p s) /\
  (let s' := fst (Dest.cancel_request a b s) in
   fs_d s' = fs_d s /\ dest_cancelled s' /\ p_file_name (d_p s') = p_file_name (d_p s)).
Proof. exact dest_no_write_after_cancel. Qed.
Print Assumptions c12_dest_no_write_after_cancel.

(* each of the ways to cancel establishes the invariant: (i) an accepted cancel request, (ii) a declared fault
   whose handler is the notice of cancellation, (iii) an EOF PDU with a condition other than No Error, (iv) the same
   EOF (cancel) received before the Metadata (first PDU of the transaction, or while the Metadata is still missing):
   since the F32 repair it is handled by literally the same procedure as (iii), (v) the same EOF (cancel) received
   while the receiver waits for missing data (deferred lost-segment procedure running): since the F33 repair it stops
   that procedure and is handled by the same procedure as (iii); stated for the whole busy call, which ends at the
   EOF ACK with nothing written (DestCancelInvProofs.CounterExamples.eof_cancel_while_waiting_for_missing_data).
   (ii) and (iii)
   happen inside a state machine call that may have written the File Data PDU it was given before the fault was
   declared (CounterExamples.write_then_cancel_in_one_call): the invariant speaks about the calls that follow.
   (iii) and (iv) need a transmission mode that exists (CounterExamples.mode_needed). *)
Theorem c12_dest_cancel_establishes :
  (forall a b s s', d_state s = ST_BUSY -> Dest.cancel_request a b s = (s', Ok true) ->
     dest_cancelled s' /\ d_step s' = DS_TRANSFER_COMPLETION /\ fs_d s' = fs_d s) /\
  (forall cond s s', d_state s = ST_BUSY -> declare_fault cond s = (s', Ok FH_CANCEL) ->
     dest_cancelled s' /\ d_step s' = DS_TRANSFER_COMPLETION /\ fs_d s' = fs_d s) /\
  (forall c ck sz s s', d_state s = ST_BUSY -> c <> C_NO_ERROR ->
     h_mode (p_conf (d_p s)) = ACKED \/ h_mode (p_conf (d_p s)) = UNACKED ->
     handle_eof_pdu c ck sz s = (s', Ok tt) ->
     dest_cancelled s' /\ fs_d s' = fs_d s /\
     (h_mode (p_conf (d_p s)) = UNACKED -> d_step s' = DS_TRANSFER_COMPLETION) /\
     (h_mode (p_conf (d_p s)) = ACKED -> d_step s' = DS_SENDING_EOF_ACK)) /\
  (* an EOF (cancel) received before the Metadata is handled exactly like any other EOF (cancel) (F32 repair) *)
  (forall c ck sz, c <> C_NO_ERROR ->
     (forall s, handle_eof_without_previous_metadata c ck sz s = handle_eof_pdu c ck sz s) /\
     (forall s s', d_state s = ST_BUSY ->
        h_mode (p_conf (d_p s)) = ACKED \/ h_mode (p_conf (d_p s)) = UNACKED ->
        handle_eof_without_previous_metadata c ck sz s = (s', Ok tt) ->
        dest_cancelled s' /\ fs_d s' = fs_d s /\
        (h_mode (p_conf (d_p s)) = UNACKED -> d_step s' = DS_TRANSFER_COMPLETION) /\
        (h_mode (p_conf (d_p s)) = ACKED -> d_step s' = DS_SENDING_EOF_ACK))) /\
  (* an EOF (cancel) received while the acknowledged-mode receiver waits for missing data stops the deferred
     lost-segment procedure and is handled by the same procedure (F33 repair): the whole busy call *)
  (forall fuel h c ck sz fl s s', d_state s = ST_BUSY -> d_step s = DS_WAITING_FOR_MISSING_DATA -> c <> C_NO_ERROR ->
     h_mode (p_conf (d_p s)) = ACKED ->
     non_idle_fsm fuel (Some (PEof h c ck sz fl)) s = (s', Ok tt) ->
     dest_cancelled s' /\ fs_d s' = fs_d s /\ d_step s' = DS_SENDING_EOF_ACK /\ p_deferred (d_p s') = false).
Proof. exact dest_cancel_establishes. Qed.
Print Assumptions c12_dest_cancel_establishes.
