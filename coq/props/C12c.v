(* Property C12, receiver side, invariant — once the receiver's transaction is cancelled (cancel request, EOF (cancel)
   from the sender, or a fault whose handler is the notice of cancellation), nothing is written to the destination file
   any more, whatever arrives: every API call leaves the filestore as it is, except the one deletion of the incomplete
   file that the cancelled completion performs when disposition-on-cancellation is configured; and the transaction
   stays cancelled until the handler is idle.  Holds for every API call, hence for every history. *)
From CFDP Require Import Base LostSeg Fs Handler Dest HandlerSpec.
From CFDP.proofs Require Import DestCancelInvProofs.
From RecordUpdate Require Import RecordSet.
Import RecordSetNotations.

Definition dest_cancelled (s : dst) : Prop :=
  d_state s = ST_BUSY /\ p_disp (d_p s) = DISP_CANCELED.

(* the filestore after the call is the one before, or the one before with the destination file deleted *)
Definition fs_kept_or_deleted (s s' : dst) : Prop :=
  fs_d s' = fs_d s \/ fs_d s' = fst (fs_delete_file (fs_d s) (p_file_name (d_p s))).

Theorem c12_dest_no_write_after_cancel : forall (s : dst) (pkt : option pdu) (a b : Z),
  dest_cancelled s ->
  (let s' := fst (Dest.state_machine pkt s) in
   fs_kept_or_deleted s s' /\ (d_state s' = ST_IDLE \/ dest_cancelled s')) /\
  (let s' := fst (Dest.get_next_packet s) in fs_d s' = fs_d s /\ dest_cancelled s') /\
  (let s' := fst (Dest.cancel_request a b s) in fs_d s' = fs_d s /\ dest_cancelled s').
Proof. exact dest_no_write_after_cancel. Qed.
Print Assumptions c12_dest_no_write_after_cancel.
