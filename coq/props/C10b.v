(* Property C10, over the WHOLE state machines — neither handler ever fails with an internal error of the kinds
   AssertionError / AttributeError / TypeError / KeyError, and the nested state-machine calls never exceed the
   modelled depth, in ANY state reachable by ANY sequence of API calls (any PDUs, any pacing, any clock).
   Shape: a well-formedness invariant (dest_wf / source_wf) that holds for a freshly constructed handler, is preserved
   by every API call (also when the call raises), and under which no API call raises one of those errors.
   ValueError is deliberately not in the list: it is raised for an unroutable PDU (C20), for a max_packet_len that cannot
   hold a PDU (C19), when the environment truncates the source file under a running transaction, and by the lost-segment
   tracker for overlapping retransmissions (finding F9, repaired since).
   One sanity condition on the inbound PDU of the sender, as in props/C12b.v: the segment requests of a NAK do not start
   below zero (unsigned on the wire).  Without it the statement is false for the model: a request (-5, 0) passes the range
   checks against the progress 0 of a metadata-only transaction and reaches `assert source_file is not None`
   (NoInternalErrorProofs.CounterExamples.unsigned_offsets_needed, from a fresh handler).  The invariant itself is
   preserved without the condition. *)
From CFDP Require Import Base LostSeg Fs Handler Dest Source HandlerSpec SourceSpec.
From CFDP.proofs Require Import NoInternalErrorProofs.
From RecordUpdate Require Import RecordSet.
Import RecordSetNotations.

Definition internal_error (e : Z) : Prop :=
  e = E_ASSERT \/ e = E_ATTRIBUTE \/ e = E_TYPE \/ e = E_KEY \/ e = E_FUEL.

(* configuration sanity: nothing is needed.  (A fault-handler table without an entry for a declared condition raises
   ValueError in the model, which is not in the list above; a segment length <= 0 keeps the progress at or below zero,
   so the chunk loops never start: last conjunct of source_wf.) *)
Definition cfg_ok (c : lcfg) : Prop := True.

(* ---- receiver: which fields are set in which step (dest.py) *)
Definition dest_wf (s : dst) : Prop :=
  (* a busy handler knows its transaction and the remote entity: every `assert remote_cfg is not None` /
     `assert transaction_id is not None` (rcfg_or_assert, tid_or_assert, declare_fault, the abandon branch of the positive
     ACK procedure) and `self._params.remote_cfg.entity_id` in the EOF (cancel) handling (AttributeError) *)
  (d_state s <> ST_IDLE -> p_tid (d_p s) <> None /\ p_rcfg (d_p s) <> None) /\
  (* a step other than IDLE is only held by a busy handler (the sections of __non_idle_fsm are selected by the step) *)
  (d_step s <> DS_IDLE -> d_state s <> ST_IDLE) /\
  (* `assert self._params.check_timer is not None` in _check_limit_handling, and check_timer.reset() after the fault *)
  (d_step s = DS_RECV_WITH_CHECK_LIMIT -> p_check_timer (d_p s) <> None) /\
  (* `assert ...ack_timer is not None` in _handle_positive_ack_procedures, and ack_timer.reset() after the fault *)
  (d_step s = DS_WAITING_FOR_FINISHED_ACK -> p_ack_timer (d_p s) <> None) /\
  (* deferred lost segment procedure active: `assert procedure_timer is not None` in _reset_nak_activity_parameters,
     `assert fp.file_size_eof is not None` and `assert remote_cfg is not None` in _deferred_lost_segment_handling *)
  (p_deferred (d_p s) = true ->
     d_state s <> ST_IDLE /\ p_proc_timer (d_p s) <> None /\ p_file_size_eof (d_p s) <> None) /\
  (* the steps from which the deferred procedure is started (directly, or via the check limit timer): an EOF was seen *)
  (d_step s = DS_SENDING_EOF_ACK \/ d_step s = DS_RECV_WITH_CHECK_LIMIT -> p_file_size_eof (d_p s) <> None).

(* ---- sender (source.py) *)
(* what a step [st] needs of the parameter block; also demanded of the step to which RETRANSMITTING returns *)
Definition stepinv (st : Z) (q : sparams) : Prop :=
  (* no file data has been sent before the transaction started (keeps the last conjunct of source_wf over transaction_start) *)
  (st = SS_IDLE \/ st = SS_TRANSACTION_START -> q_progress q <= 0) /\
  (* `assert self._params.cond_code_eof is not None` in _prepare_eof_pdu *)
  (st = SS_SENDING_EOF \/ st = SS_WAITING_FOR_EOF_ACK -> q_cond_eof q <> None) /\
  (* `assert ...ack_timer is not None` in _handle_positive_ack_procedures *)
  (st = SS_WAITING_FOR_EOF_ACK -> q_ack_timer q <> None) /\
  (* the EOF checksum runs over [0, file size): the whole file was sent (or there is no file), so the segment length
     is positive if the file size is (checksum loop, E_FUEL) *)
  (st = SS_SENDING_EOF -> q_md_only q = true \/ opt_z (q_file_size q) <= q_progress q).

Definition source_wf (s : src) : Prop :=
  (* a busy handler has its Put request and the remote entity: `assert self._put_req is not None`,
     `assert self._params.remote_cfg is not None` (put_or_assert, srcfg_or_assert) *)
  (s_state s <> ST_IDLE -> s_put s <> None /\ q_rcfg (s_p s) <> None) /\
  (* a step other than IDLE is only held by a busy handler *)
  (s_step s <> SS_IDLE -> s_state s <> ST_IDLE) /\
  (* a transaction id exists only while busy (so put_request, which needs IDLE, cannot replace the request under it) *)
  (q_tid (s_p s) <> None -> s_state s <> ST_IDLE) /\
  (* fp.file_size is never None (F2 repair): TypeError in _prepare_pdu_conf *)
  q_file_size (s_p s) <> None /\
  (* from SENDING_METADATA on there is a transaction id: `assert transaction_id is not None` (stid_or_assert) in
     _prepare_eof_pdu, _notice_of_completion, _notice_of_cancellation, _declare_fault *)
  (s_step s <> SS_IDLE -> s_step s <> SS_TRANSACTION_START -> q_tid (s_p s) <> None) /\
  stepinv (s_step s) (s_p s) /\
  (* `assert step_before_retransmission is not None` in _fsm_advancement..., and the step it restores is sound *)
  (s_step s = SS_RETRANSMITTING -> s_step_before s <> None /\ stepinv (opt_z (s_step_before s)) (s_p s)) /\
  (* a request without file names is a metadata-only transaction that never sent data: `assert source_file is not None`
     in _prepare_file_data_pdu / _checksum_calculation (F14 repair) *)
  (q_tid (s_p s) <> None -> forall p, s_put s = Some p -> pr_names p = None ->
     q_md_only (s_p s) = true /\ q_progress (s_p s) <= 0) /\
  (* data was sent only with a positive segment length: the chunk loops of the re-transmission and of the checksum
     terminate (E_FUEL) *)
  (0 < q_progress (s_p s) -> 1 <= q_segment_len (s_p s)).

(* segment requests of an inbound NAK start at or above zero (unsigned on the wire; as in props/C12b.v) *)
Definition nak_offsets_unsigned (pkt : option pdu) : Prop :=
  match pkt with Some (PNak _ _ _ reqs) => Forall (fun rq => 0 <= fst rq) reqs | _ => True end.

(* ---- receiver *)
Theorem c10_dest_wf_init : forall c, cfg_ok c -> dest_wf (dst_init c).
Proof. exact dest_wf_init. Qed.
Theorem c10_dest_wf_preserved : forall pkt a b s,
  dest_wf s ->
  dest_wf (fst (Dest.state_machine pkt s)) /\ dest_wf (fst (Dest.get_next_packet s)) /\
  dest_wf (fst (Dest.cancel_request a b s)) /\ dest_wf (fst (Dest.reset s)).
Proof. exact dest_wf_preserved. Qed.
Print Assumptions c10_dest_wf_preserved.
(* the clock and the environment's own changes to the filestore keep it, too *)
Theorem c10_dest_wf_env : forall s f, dest_wf s -> dest_wf (s <| d_env ::= f |>).
Proof. exact dest_wf_env. Qed.
Theorem c10_dest_no_internal_error : forall pkt a b s e,
  dest_wf s -> internal_error e ->
  snd (Dest.state_machine pkt s) <> Err e /\ snd (Dest.get_next_packet s) <> Err e /\
  snd (Dest.cancel_request a b s) <> Err e /\ snd (Dest.reset s) <> Err e.
Proof. exact dest_no_internal_error. Qed.
Print Assumptions c10_dest_no_internal_error.

(* ---- sender *)
Theorem c10_source_wf_init : forall c seq0 bits, cfg_ok c -> (bits = 8 \/ bits = 16 \/ bits = 32) -> 0 <= seq0 < 2 ^ bits ->
  source_wf (src_init c seq0 bits).
Proof. exact source_wf_init. Qed.
Theorem c10_source_wf_preserved : forall pkt p a b s,
  source_wf s ->
  source_wf (fst (state_machine_s pkt s)) /\ source_wf (fst (put_request p s)) /\
  source_wf (fst (get_next_packet_s s)) /\ source_wf (fst (cancel_request_s a b s)) /\ source_wf (fst (reset_s s)).
Proof. exact source_wf_preserved. Qed.
Print Assumptions c10_source_wf_preserved.
Theorem c10_source_wf_env : forall s f, source_wf s -> source_wf (s <| s_env ::= f |>).
Proof. exact source_wf_env. Qed.
Theorem c10_source_no_internal_error : forall pkt p a b s e,
  source_wf s -> nak_offsets_unsigned pkt -> internal_error e ->
  snd (state_machine_s pkt s) <> Err e /\ snd (put_request p s) <> Err e /\
  snd (get_next_packet_s s) <> Err e /\ snd (cancel_request_s a b s) <> Err e /\ snd (reset_s s) <> Err e.
Proof. exact source_no_internal_error. Qed.
Print Assumptions c10_source_no_internal_error.
