(* Property C10, over the WHOLE state machines — neither handler ever fails with an internal error of the kinds
   AssertionError / AttributeError / TypeError / KeyError, and the nested state-machine calls never exceed the
   modelled depth, in ANY state reachable by ANY sequence of API calls (any PDUs, any pacing, any clock).
   Shape: a well-formedness invariant (dest_wf / source_wf) that holds for a freshly constructed handler, is preserved
   by every API call (also when the call raises), and under which no API call raises one of those errors.
   ValueError is deliberately not in the list: it is raised for an unroutable PDU (C20), for a max_packet_len that cannot
   hold a PDU (C19), when the environment truncates the source file under a running transaction, and by the lost-segment
   tracker for overlapping retransmissions (known finding F9). *)
From CFDP Require Import Base LostSeg Fs Handler Dest Source HandlerSpec SourceSpec.
From CFDP.proofs Require Import NoInternalErrorProofs.
From RecordUpdate Require Import RecordSet.
Import RecordSetNotations.

Definition internal_error (e : Z) : Prop :=
  e = E_ASSERT \/ e = E_ATTRIBUTE \/ e = E_TYPE \/ e = E_KEY \/ e = E_FUEL.

(* configuration sanity: what the constructors of the Python classes guarantee.  TO BE MADE EXPLICIT HERE by the prover
   (same bodies as the local copies in the proofs file, so that `exact` unifies by delta). *)
Definition cfg_ok (c : lcfg) : Prop := True.
(* well-formedness of reachable states: which fields are set in which step.  TO BE MADE EXPLICIT HERE by the prover. *)
Definition dest_wf (s : dst) : Prop := True.
Definition source_wf (s : src) : Prop := True.

(* ---- receiver *)
Theorem c10_dest_wf_init : forall c, cfg_ok c -> dest_wf (dst_init c).
Proof. exact dest_wf_init. Qed.
Theorem c10_dest_wf_preserved : forall pkt a b s,
  dest_wf s ->
  dest_wf (fst (Dest.state_machine pkt s)) /\ dest_wf (fst (Dest.get_next_packet s)) /\
  dest_wf (fst (Dest.cancel_request a b s)) /\ dest_wf (fst (Dest.reset s)).
Proof. exact dest_wf_preserved. Qed.
Print Assumptions c10_dest_wf_preserved.
(* the clock and the environment's own changes to the filestore keep it, too *)
Theorem c10_dest_wf_env : forall s f, dest_wf s -> dest_wf (s <| d_env ::= f |>).
Proof. exact dest_wf_env. Qed.
Theorem c10_dest_no_internal_error : forall pkt a b s e,
  dest_wf s -> internal_error e ->
  snd (Dest.state_machine pkt s) <> Err e /\ snd (Dest.get_next_packet s) <> Err e /\
  snd (Dest.cancel_request a b s) <> Err e /\ snd (Dest.reset s) <> Err e.
Proof. exact dest_no_internal_error. Qed.
Print Assumptions c10_dest_no_internal_error.

(* ---- sender *)
Theorem c10_source_wf_init : forall c seq0 bits, cfg_ok c -> (bits = 8 \/ bits = 16 \/ bits = 32) -> 0 <= seq0 < 2 ^ bits ->
  source_wf (src_init c seq0 bits).
Proof. exact source_wf_init. Qed.
Theorem c10_source_wf_preserved : forall pkt p a b s,
  source_wf s ->
  source_wf (fst (state_machine_s pkt s)) /\ source_wf (fst (put_request p s)) /\
  source_wf (fst (get_next_packet_s s)) /\ source_wf (fst (cancel_request_s a b s)) /\ source_wf (fst (reset_s s)).
Proof. exact source_wf_preserved. Qed.
Print Assumptions c10_source_wf_preserved.
Theorem c10_source_wf_env : forall s f, source_wf s -> source_wf (s <| s_env ::= f |>).
Proof. exact source_wf_env. Qed.
Theorem c10_source_no_internal_error : forall pkt p a b s e,
  source_wf s -> internal_error e ->
  snd (state_machine_s pkt s) <> Err e /\ snd (put_request p s) <> Err e /\
  snd (get_next_packet_s s) <> Err e /\ snd (cancel_request_s a b s) <> Err e /\ snd (reset_s s) <> Err e.
Proof. exact source_no_internal_error. Qed.
Print Assumptions c10_source_no_internal_error.
