(* Property C01, the SENDER half, over the two-handler system and EVERY fault schedule — whenever the sending entity has
   reported a successful delivery to its user (Transaction-Finished indication, No Error / Data Complete), the destination
   file held by the receiving entity at that moment is byte-identical to the source file or differs only by a genuine
   collision of the negotiated CRC (same length, same CRC); whatever the link dropped, duplicated or delayed (any number
   of faults, any PDU of either direction), immediate or deferred NAK, after any number of scheduler rounds (so: at every
   moment of the run, at round granularity).  System.v: both handler models, the link with its fault schedule, the
   surrounding-entity duties, the clock.  The receiver's own event log is not consulted (its indication switch may be
   off): the statement follows the Finished PDU from the receiver's queue over the link (in flight, delayed, duplicated)
   into the sender's record and from there into the sender's log.

   Two forms:
   - c01_system_sender_success_means_identical: the success report as System.success_event judges it (condition code and
     delivery code; the file status is ignored), in acknowledged mode or in unacknowledged mode with closure.  In
     unacknowledged mode without closure the sender's success report is its own notice, issued when the EOF has left, and
     says nothing about the receiver: sender_success_without_closure_says_nothing is a run of that kind with one File
     Data PDU dropped (success reported, destination file with a hole).
   - c01_system_sender_report_means_identical: in every mode, with or without closure, for a success report whose file
     status is not "unreported" (the sender's own notice carries "unreported"; a report copied from a Finished PDU of
     the receiver carries the receiver's file status, "retained" for a delivered file).

   Hypotheses beyond the addressing, as in props/C01c.v: a segment length limit, if configured, is positive; the
   transmission mode is one of the two defined ones. *)
From CFDP Require Import Base LostSeg Fs Crc Checksum ChecksumSpec Handler Dest Source SourceSpec System SystemCases.
From CFDP.proofs Require Import SystemSenderProofs.

Theorem c01_system_sender_success_means_identical :
  forall (cs cd : lcfg) (seq0 bits : Z) (p : putreq) (sn dn : path) (data : bytes) (faults : list fault)
         (fuel : nat) (tick : Z) (rs : rcfg),
  get_remote (l_remotes cs) (pr_dst p) = Some rs ->
  pr_names p = Some (sn, dn) -> sn <> [] -> length dn = 1%nat ->
  (r_cktype rs = CK_CRC32 \/ r_cktype rs = CK_CRC32C) ->
  match r_max_seg rs with Some m => 1 <= m | None => True end ->
  (let mode := match pr_mode p with Some m => m | None => r_mode rs end in
   let closure := match pr_closure p with Some c => c | None => r_closure rs end in
   mode = ACKED \/ (mode = UNACKED /\ closure = true)) ->
  let res := transfer cs cd seq0 bits p sn data faults fuel tick in
  let y := fst res in
  existsb success_event (e_log (s_env (y_src y))) = true ->
  exists d, file_content (e_fs (d_env (y_dst y))) dn = Some d /\
    (d = data \/
     (d <> data /\ zlen d = zlen data /\
      calculate_checksum (r_cktype rs) (Some d) (zlen d) 4096 = calculate_checksum (r_cktype rs) (Some data) (zlen data) 4096)).
Proof. exact system_sender_success_means_identical. Qed.
Print Assumptions c01_system_sender_success_means_identical.

(* a success report of the sender that is not its own notice *)
Definition sender_report (e : event) : bool :=
  match e with
  | EvFinished _ _ c d f _ => (c =? C_NO_ERROR) && (d =? DATA_COMPLETE) && negb (f =? FS_UNREPORTED)
  | _ => false
  end.

Theorem c01_system_sender_report_means_identical :
  forall (cs cd : lcfg) (seq0 bits : Z) (p : putreq) (sn dn : path) (data : bytes) (faults : list fault)
         (fuel : nat) (tick : Z) (rs : rcfg),
  get_remote (l_remotes cs) (pr_dst p) = Some rs ->
  pr_names p = Some (sn, dn) -> sn <> [] -> length dn = 1%nat ->
  (r_cktype rs = CK_CRC32 \/ r_cktype rs = CK_CRC32C) ->
  match r_max_seg rs with Some m => 1 <= m | None => True end ->
  (let mode := match pr_mode p with Some m => m | None => r_mode rs end in mode = ACKED \/ mode = UNACKED) ->
  let res := transfer cs cd seq0 bits p sn data faults fuel tick in
  let y := fst res in
  existsb sender_report (e_log (s_env (y_src y))) = true ->
  exists d, file_content (e_fs (d_env (y_dst y))) dn = Some d /\
    (d = data \/
     (d <> data /\ zlen d = zlen data /\
      calculate_checksum (r_cktype rs) (Some d) (zlen d) 4096 = calculate_checksum (r_cktype rs) (Some data) (zlen data) 4096)).
Proof. exact system_sender_report_means_identical. Qed.
Print Assumptions c01_system_sender_report_means_identical.

(* the excluded case: unacknowledged, no closure, the second PDU of the sender (File Data) dropped *)
Example c01_sender_success_without_closure_says_nothing :
  let y := fst (run_case UNACKED false CK_CRC32 4 false 2 8 [mkFault 0 1 0 0]) in
  existsb success_event (e_log (s_env (y_src y))) = true /\
  existsb sender_report (e_log (s_env (y_src y))) = false /\
  file_content (e_fs (d_env (y_dst y))) [2] = Some [0; 0; 0; 0; 31; 38; 45; 52] /\
  test_data 8 = [3; 10; 17; 24; 31; 38; 45; 52].
Proof. exact sender_success_without_closure_says_nothing. Qed.
