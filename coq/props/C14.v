(* Property C14 — Declared faults take the effect configured in the fault-handler table.
   Model: Dest.declare_fault, Source.declare_fault_s (dest.py:1141-1169, source.py:938-985),
   Mib.set_handler, the generated default table.
   Reading: one callback per declaration, of the configured kind, with the transaction id, the
   condition and the progress at declaration.  A fault declared while a cancellation exchange
   (EOF (cancel) at the sender) is already in progress leads to abandonment as CFDP 4.11.2.2.3
   demands (this is what C04 requires); that case is stated separately. *)
From CFDP Require Import Base LostSeg Fs Handler Dest Source Mib HandlerSpec.
From CFDP.gen Require Import Tables.
From CFDP.proofs Require Import FaultProofs RetryProofs.
From RecordUpdate Require Import RecordSet.
Import RecordSetNotations.




(* ---------- destination handler *)
Theorem c14_dest_ignore : forall s cond a b,
  p_tid (d_p s) = Some (a, b) -> get_fault_handler (l_faults (d_cfg s)) cond = Some FH_IGNORE ->
  exists s', declare_fault cond s = (s', Ok FH_IGNORE) /\
    log_d s' = EvFault FH_IGNORE a b cond (p_progress (d_p s)) :: log_d s /\
    d_state s' = d_state s /\ d_step s' = d_step s /\ d_p s' = d_p s /\ d_queue s' = d_queue s /\
    e_fs (d_env s') = e_fs (d_env s).
Proof. exact dest_ignore. Qed.
Print Assumptions c14_dest_ignore.

Theorem c14_dest_cancel : forall s cond a b,
  p_tid (d_p s) = Some (a, b) -> get_fault_handler (l_faults (d_cfg s)) cond = Some FH_CANCEL ->
  exists s', declare_fault cond s = (s', Ok FH_CANCEL) /\
    log_d s' = EvFault FH_CANCEL a b cond (p_progress (d_p s)) :: log_d s /\
    d_state s' = d_state s /\ d_step s' = DS_TRANSFER_COMPLETION /\
    p_disp (d_p s') = DISP_CANCELED /\ f_cond (p_fin (d_p s')) = cond /\
    p_tid (d_p s') = Some (a, b) /\ d_queue s' = d_queue s /\ e_fs (d_env s') = e_fs (d_env s).
Proof. exact dest_cancel. Qed.
Print Assumptions c14_dest_cancel.

(* handler ABANDON: the transaction is reset, the abandon callback runs once, and the running
   state machine call is unwound with the internal code E_ABANDONED (dest.py _TransactionAbandoned) *)
Theorem c14_dest_abandon : forall s cond a b,
  p_tid (d_p s) = Some (a, b) -> get_fault_handler (l_faults (d_cfg s)) cond = Some FH_ABANDON ->
  exists s', declare_fault cond s = (s', Err E_ABANDONED) /\
    log_d s' = EvFault FH_ABANDON a b cond (p_progress (d_p s)) :: log_d s /\
    d_state s' = ST_IDLE /\ d_step s' = DS_IDLE /\ d_p s' = fresh_params /\ d_queue s' = d_queue s /\
    e_fs (d_env s') = e_fs (d_env s).
Proof. exact dest_abandon. Qed.
Print Assumptions c14_dest_abandon.

(* the exact state after an abandoning declaration: parameters, state and step reset, the callback
   logged, every other component as before *)
Theorem c14_dest_abandon_unwinds : forall s cond a b,
  p_tid (d_p s) = Some (a, b) -> get_fault_handler (l_faults (d_cfg s)) cond = Some FH_ABANDON ->
  declare_fault cond s =
    (mkDst (d_cfg s) ST_IDLE DS_IDLE (d_states_tid s) (d_ready s) (d_queue s) fresh_params
           (mkEnv (e_now (d_env s)) (e_fs (d_env s)) (e_reject_writes (d_env s))
                  (EvFault FH_ABANDON a b cond (p_progress (d_p s)) :: log_d s)),
     Err E_ABANDONED).
Proof. exact dest_abandon_unwinds. Qed.
Print Assumptions c14_dest_abandon_unwinds.

(* catch_abandoned turns exactly the code E_ABANDONED into a normal return (state kept) and is
   transparent for every other outcome *)
Theorem c14_dest_abandoned_is_caught : forall (m : D unit) s,
  (forall s', m s = (s', Err E_ABANDONED) -> catch_abandoned m s = (s', Ok tt)) /\
  (forall s' u, m s = (s', Ok u) -> catch_abandoned m s = m s) /\
  (forall s' e, m s = (s', Err e) -> e <> E_ABANDONED -> catch_abandoned m s = m s).
Proof. exact dest_abandoned_is_caught. Qed.
Print Assumptions c14_dest_abandoned_is_caught.

(* the internal control code is never visible to the caller of state_machine *)
Theorem c14_dest_abandon_never_escapes : forall pkt s, snd (Dest.state_machine pkt s) <> Err E_ABANDONED.
Proof. exact dest_abandon_never_escapes. Qed.
Print Assumptions c14_dest_abandon_never_escapes.

(* ---------- handler IGNORE at the NAK limit (dest.py _deferred_lost_segment_handling, after the F22 repair) *)
(* the re-issue branch of deferred_lost_segment_handling (NAK timer expired, procedure not stopped): the NAK sequence is
   queued again, the counter is incremented, the timer restarts; same text as in Dest.v *)
Definition nak_reissue (r : rcfg) (eos : Z) : D unit :=
  (h <- conf ;;
   match max_seg_reqs (r_max_packet r) h with
   | None => raise E_VALUE
   | Some maxn =>
     let hh := set_dir TOWARDS_SENDER h in
     tr <- gp p_tracker ;; mdm <- gp p_md_missing ;;
     let '(pre, acc0) :=
       if mdm then (if 1 =? maxn then ([PNak hh 0 eos [(0, 0)]], []) else ([], [(0, 0)]))
       else ([], []) in
     let '(ps, rest) := nak_split hh eos maxn acc0 tr in
     let all := pre ++ ps ++ (match rest with [] => [] | _ => [PNak hh 0 eos rest] end) in
     fold_left (fun m p => m ;;; add_packet p) all (ret tt) ;;;
     (n <- now ;; t <- gp p_proc_timer ;;
      setp (fun p => p <| p_nak_counter ::= (fun c => c + 1) |>
                       <| p_proc_timer := (match t with Some (_, tmo) => Some (n, tmo) | None => None end) |>))
   end)%monad.

(* the PDUs of one NAK sequence (as in props/C04d.v; what they request: c04_nak_seq_exact) *)
Definition nak_seq (h : hdr) (eos maxn : Z) (mdm : bool) (tr : tracker) : list pdu :=
  let '(pre, acc0) := if mdm then (if 1 =? maxn then ([PNak h 0 eos [(0, 0)]], []) else ([], [(0, 0)])) else ([], []) in
  let '(ps, rest) := nak_split h eos maxn acc0 tr in
  pre ++ ps ++ (match rest with [] => [] | _ => [PNak h 0 eos rest] end).

(* an expiry of the NAK timer with the counter not at the limit is exactly a re-issue *)
Theorem c14_dest_nak_reissue : forall s r eos t,
  p_deferred (d_p s) = true -> p_disp (d_p s) <> DISP_CANCELED -> p_rcfg (d_p s) = Some r -> p_file_size_eof (d_p s) = Some eos ->
  (p_tracker (d_p s) <> [] \/ p_md_missing (d_p s) = true) ->
  p_proc_timer (d_p s) = Some t -> timed_out (now_d s) t = true -> p_nak_counter (d_p s) + 1 <> r_nak_limit r ->
  deferred_lost_segment_handling s = nak_reissue r eos s.
Proof. exact dst_nak_reissue. Qed.
Print Assumptions c14_dest_nak_reissue.

(* what a re-issue does, exactly: the NAK sequence appended to the queue, counter + 1, timer restarted at the current
   time, nothing else changed and nothing logged *)
Theorem c14_dest_nak_reissue_exact : forall s r eos t maxn,
  p_proc_timer (d_p s) = Some t -> max_seg_reqs (r_max_packet r) (p_conf (d_p s)) = Some maxn ->
  let naks := nak_seq (set_dir TOWARDS_SENDER (p_conf (d_p s))) eos maxn (p_md_missing (d_p s)) (p_tracker (d_p s)) in
  nak_reissue r eos s =
    (s <| d_queue := d_queue s ++ naks |> <| d_ready := d_ready s + zlen naks |>
       <| d_p ::= (fun p => p <| p_nak_counter := p_nak_counter (d_p s) + 1 |>
                              <| p_proc_timer := Some (now_d s, snd t) |>) |>, Ok tt).
Proof. exact nak_reissue_exact. Qed.
Print Assumptions c14_dest_nak_reissue_exact.

(* expiry N (counter + 1 = NAK limit) with NAK Limit Reached configured as IGNORE: exactly one IGNORE callback is logged
   (s1 is s with that one event), and from there the call is exactly the re-issue of an expiry below the limit, on s1:
   the same NAK sequence is queued, the counter becomes the limit, the timer restarts at the current time, nothing else
   changes.  (Before the repair the call ended after the callback: no NAK, counter and timer untouched, so every later
   call declared the fault again and the missing data was never requested again.)  Without room for one segment request
   in a NAK PDU the re-issue raises ValueError after the callback, as below the limit. *)
Theorem c14_dest_nak_limit_ignored_continues : forall s r eos t a b,
  p_deferred (d_p s) = true -> p_disp (d_p s) <> DISP_CANCELED -> p_rcfg (d_p s) = Some r -> p_file_size_eof (d_p s) = Some eos ->
  (p_tracker (d_p s) <> [] \/ p_md_missing (d_p s) = true) ->
  p_proc_timer (d_p s) = Some t -> timed_out (now_d s) t = true -> p_nak_counter (d_p s) + 1 = r_nak_limit r ->
  get_fault_handler (l_faults (d_cfg s)) C_NAK_LIMIT = Some FH_IGNORE -> p_tid (d_p s) = Some (a, b) ->
  let s1 := s <| d_env ::= (fun en => en <| e_log ::= cons (EvFault FH_IGNORE a b C_NAK_LIMIT (p_progress (d_p s))) |>) |> in
  deferred_lost_segment_handling s = nak_reissue r eos s1 /\
  (forall maxn, max_seg_reqs (r_max_packet r) (p_conf (d_p s)) = Some maxn ->
     let naks := nak_seq (set_dir TOWARDS_SENDER (p_conf (d_p s))) eos maxn (p_md_missing (d_p s)) (p_tracker (d_p s)) in
     deferred_lost_segment_handling s =
       (s1 <| d_queue := d_queue s ++ naks |> <| d_ready := d_ready s + zlen naks |>
           <| d_p ::= (fun p => p <| p_nak_counter := p_nak_counter (d_p s) + 1 |>
                                  <| p_proc_timer := Some (now_d s, snd t) |>) |>, Ok tt)) /\
  (max_seg_reqs (r_max_packet r) (p_conf (d_p s)) = None -> deferred_lost_segment_handling s = (s1, Err E_VALUE)).
Proof. exact dst_nak_limit_ignored_continues. Qed.
Print Assumptions c14_dest_nak_limit_ignored_continues.

(* consequently the fault is declared once: the counter now equals the limit, so at every later expiry (counter at or
   beyond the limit: counter + 1 <> limit) the call is a re-issue and logs nothing *)
Theorem c14_dest_nak_limit_not_declared_again : forall s r eos t,
  p_deferred (d_p s) = true -> p_disp (d_p s) <> DISP_CANCELED -> p_rcfg (d_p s) = Some r -> p_file_size_eof (d_p s) = Some eos ->
  (p_tracker (d_p s) <> [] \/ p_md_missing (d_p s) = true) ->
  p_proc_timer (d_p s) = Some t -> timed_out (now_d s) t = true -> r_nak_limit r <= p_nak_counter (d_p s) ->
  deferred_lost_segment_handling s = nak_reissue r eos s /\
  log_d (fst (deferred_lost_segment_handling s)) = log_d s.
Proof. exact dst_nak_limit_not_declared_again. Qed.
Print Assumptions c14_dest_nak_limit_not_declared_again.

(* a cancelled transaction (F35 repair): the deferred procedure does nothing, whatever timer, counter and tracker say: no
   NAK, no NAK Limit Reached fault, no callback; the cancel condition stands.  (The three theorems above about that procedure carry the
   hypothesis p_disp (d_p s) <> DISP_CANCELED since this repair.) *)
Theorem c14_dest_deferred_cancelled : forall s,
  p_disp (d_p s) = DISP_CANCELED -> deferred_lost_segment_handling s = (s, Ok tt).
Proof. exact dst_deferred_cancelled. Qed.
Print Assumptions c14_dest_deferred_cancelled.

(* no callback without a transaction id; conditions outside the table raise *)
Theorem c14_dest_no_tid : forall s cond, p_tid (d_p s) = None -> declare_fault cond s = (s, Err E_ASSERT).
Proof. exact dest_no_tid. Qed.
Theorem c14_dest_not_in_table : forall s cond a b,
  p_tid (d_p s) = Some (a, b) -> get_fault_handler (l_faults (d_cfg s)) cond = None ->
  declare_fault cond s = (s, Err E_VALUE).
Proof. exact dest_not_in_table. Qed.
Print Assumptions c14_dest_not_in_table.

(* ---------- source handler *)
Theorem c14_source_ignore : forall s cond a b,
  q_tid (s_p s) = Some (a, b) -> get_fault_handler (l_faults (s_cfg s)) cond = Some FH_IGNORE ->
  exists s', declare_fault_s cond s = (s', Ok tt) /\
    log_s s' = EvFault FH_IGNORE a b cond (q_progress (s_p s)) :: log_s s /\
    s_state s' = s_state s /\ s_step s' = s_step s /\ s_p s' = s_p s /\ s_queue s' = s_queue s.
Proof. exact source_ignore. Qed.
Print Assumptions c14_source_ignore.

Theorem c14_source_abandon : forall s cond a b,
  q_tid (s_p s) = Some (a, b) -> get_fault_handler (l_faults (s_cfg s)) cond = Some FH_ABANDON ->
  exists s', declare_fault_s cond s = (s', Ok tt) /\
    log_s s' = EvFault FH_ABANDON a b cond (q_progress (s_p s)) :: log_s s /\
    s_state s' = ST_IDLE /\ s_step s' = SS_IDLE /\ s_p s' = reset_sparams /\ s_queue s' = [].
Proof. exact source_abandon. Qed.
Print Assumptions c14_source_abandon.

(* notice of cancellation at the sender, no cancellation exchange in progress yet: the condition
   goes into an EOF PDU (size = progress, checksum over that prefix) and the cancel callback runs once;
   before it the EOF-Sent indication (if enabled) and, in unacknowledged mode, where the transaction ends with
   that EOF, the Transaction-Finished indication (if enabled; F21 repair) *)
Theorem c14_source_cancel : forall s cond a b ck,
  q_tid (s_p s) = Some (a, b) -> get_fault_handler (l_faults (s_cfg s)) cond = Some FH_CANCEL ->
  (q_cond_eof (s_p s) = None \/ q_cond_eof (s_p s) = Some C_NO_ERROR) ->
  s_state s = ST_BUSY -> q_rcfg (s_p s) <> None ->
  fst (checksum_calculation (q_progress (s_p s)) s) = s ->
  snd (checksum_calculation (q_progress (s_p s)) s) = Ok ck ->
  exists s', declare_fault_s cond s = (s', Ok tt) /\
    (exists evs, log_s s' = EvFault FH_CANCEL a b cond (q_progress (s_p s)) :: evs ++ log_s s /\
                 evs = (if negb (sc_mode (q_conf (s_p s)) =? ACKED) && l_ind_fin (s_cfg s)
                        then [EvFinished a b cond DATA_INCOMPLETE FS_UNREPORTED None] else []) ++
                       (if l_ind_eof_sent (s_cfg s) then [EvEofSent a b] else [])) /\
    s_queue s' = s_queue s ++ [PEof (hdr_of (q_conf (s_p s)) TOWARDS_RECEIVER) cond ck (q_progress (s_p s)) None].
Proof. exact source_cancel. Qed.
Print Assumptions c14_source_cancel.

(* a fault declared during the EOF (cancel) exchange: abandonment, reported once through the
   abandon callback (CFDP 4.11.2.2.3), no other callback *)
Theorem c14_source_cancel_during_cancel : forall s cond a b c0,
  q_tid (s_p s) = Some (a, b) -> get_fault_handler (l_faults (s_cfg s)) cond = Some FH_CANCEL ->
  q_cond_eof (s_p s) = Some c0 -> c0 <> C_NO_ERROR ->
  exists s', declare_fault_s cond s = (s', Ok tt) /\
    log_s s' = EvFault FH_ABANDON a b c0 (q_progress (s_p s)) :: log_s s /\
    s_state s' = ST_IDLE /\ s_step s' = SS_IDLE /\ s_queue s' = [].
Proof. exact source_cancel_during_cancel. Qed.
Print Assumptions c14_source_cancel_during_cancel.

Theorem c14_source_no_tid : forall s cond, q_tid (s_p s) = None -> declare_fault_s cond s = (s, Err E_ASSERT).
Proof. exact source_no_tid. Qed.

(* ---------- configuration API: conditions outside the table are refused, the table is unchanged *)
Theorem c14_set_handler_refuses : forall t c h, table_mem t c = false -> set_handler t c h = None.
Proof. exact set_handler_refuses. Qed.
Theorem c14_set_handler_sets : forall t c h t', set_handler t c h = Some t' ->
  get_fault_handler t' c = Some h /\ (forall c', c' <> c -> get_fault_handler t' c' = get_fault_handler t c') /\
  map fst t' = map fst t.
Proof. exact set_handler_sets. Qed.
Print Assumptions c14_set_handler_sets.

(* the generated default table (mib.py:58-70 as it reads now): the seven conditions a handler can
   declare are all present; checksum failure is ignored by default, the others cancel *)
Theorem c14_default_table :
  get_fault_handler default_fault_table C_POS_ACK_LIMIT = Some FH_CANCEL /\
  get_fault_handler default_fault_table C_NAK_LIMIT = Some FH_CANCEL /\
  get_fault_handler default_fault_table C_CHECK_LIMIT = Some FH_CANCEL /\
  get_fault_handler default_fault_table C_CHECKSUM_FAILURE = Some FH_IGNORE /\
  get_fault_handler default_fault_table C_FILE_SIZE_ERROR = Some FH_CANCEL /\
  get_fault_handler default_fault_table C_FILESTORE_REJECTION = Some FH_CANCEL /\
  get_fault_handler default_fault_table C_CANCEL_REQUEST = Some FH_CANCEL /\
  table_mem default_fault_table C_NO_ERROR = false.
Proof. vm_compute. repeat split. Qed.
