(* Property C12, END TO END — a cancel request of the sending user, both entities together (the two-handler system of
   System.v, perfect link; acknowledged mode first, unacknowledged mode without closure at the end), for EVERY file, every configuration and every moment of the file data
   phase: the request returns true; the sender's next PDU is an EOF (Cancel Request Received) whose size is the number
   of file bytes sent and whose checksum covers exactly that prefix; no further File Data PDU is emitted; the receiver
   finishes the transaction with that condition and the SENDER as fault location, keeps the incomplete file or deletes
   it exactly when disposition-on-cancellation is configured, and says so in its Finished PDU, which the sender's
   Transaction-Finished indication copies; both handlers end idle, the links empty, no API call raised.

   System.v has no user cancel: [cancel_src] is the cancel request as an entity issues it (one API call + retrieval of
   what it queued, as System.call_src), [transfer_cancel] starts like System.transfer, runs k scheduler rounds, issues
   the cancel request for the sender's transaction and runs on.

   After k rounds (1 <= k) the sender has emitted the Metadata PDU and k - 1 File Data PDUs, i.e.
   m = min ((k - 1) * seg, |data|) bytes; the hypothesis (k - 2) * seg < |data| says that the EOF (No error) has not been
   sent yet (k = n + 1 with n File Data PDUs in all is allowed: everything sent, EOF not yet).

   The fault location in the receiver's indication and Finished PDU is the sending entity as the RECEIVER knows it:
   (entity id, id width of the receiver's remote configuration for the sender). *)
From CFDP Require Import Base LostSeg Fs Crc Checksum Handler Dest Source SourceSpec System.
From CFDP.proofs Require Import SystemCancelProofs.
From RecordUpdate Require Import RecordSet.
Import RecordSetNotations.

(* k scheduler rounds *)
Fixpoint rounds (k : nat) (y : sys) : sys :=
  match k with O => y | S k' => fst (step_round (rounds k' y)) end.

(* the user of the sending entity cancels transaction (a, b): one API call on the handler + retrieval of everything it
   queued, exactly as System.call_src does for state_machine calls *)
Definition cancel_src (a b : Z) (y : sys) : sys * res Z bool :=
  let '(s1, r) := cancel_request_s a b (y_src y) in
  let y1 := match r with Ok _ => y | Err e => y <| y_errs ::= cons (0, e) |> end in
  let y2 := note_done_src (y1 <| y_src := s1 |>) in
  let '(s2, ps) := drain_s (y_src y2) in
  (emit_pdus 0 (flat_map (fun p => match on_wire p with Some q => [q] | None => [] end) ps) (y2 <| y_src := s2 |>), r).

Definition transfer_cancel (cs cd : lcfg) (seq0 bits : Z) (p : putreq) (sn : path) (data : bytes) (k : nat)
           (fuel : nat) (tick : Z) : (sys * bool) * res Z bool :=
  let y0 := sys_init cs cd seq0 bits sn data [] in
  let '(s1, _) := put_request p (y_src y0) in
  let yk := rounds k (y0 <| y_src := s1 |>) in
  let '(yc, r) := cancel_src (l_id cs) seq0 yk in
  (run fuel tick yc, r).

Theorem c12_system_cancel_acked :
  forall (cs cd : lcfg) (seq0 bits : Z) (p : putreq) (rs rd : rcfg) (sn dn : path) (data : bytes) (tick : Z) (k : nat),
  let w := Z.max (l_idw cs) (pr_dstw p) in
  let large := 4294967295 <? zlen data in
  let derived := r_max_packet rs - (4 + 2 * w + bits / 8) - (if large then 8 else 4) - (if r_crc rs then 2 else 0) in
  let seg := match r_max_seg rs with Some m => Z.min m derived | None => derived end in
  (* as in c02_acked_perfect_link (props/C02a.v), without the hypotheses that only matter for timers and limits *)
  get_remote (l_remotes cs) (pr_dst p) = Some rs ->
  pr_names p = Some (sn, dn) -> sn <> [] -> pr_msgs p = None ->
  (match pr_mode p with Some m => m | None => r_mode rs end) = ACKED ->
  0 < r_ack_ms rs -> 0 < r_ack_ms rd ->
  (bits = 8 \/ bits = 16 \/ bits = 32) -> 0 <= seq0 < 2 ^ bits -> 1 <= seg -> 6 <= derived ->
  (r_cktype rs = CK_CRC32 \/ r_cktype rs = CK_CRC32C \/ r_cktype rs = CK_NULL \/ r_cktype rs = CK_MODULAR) ->
  l_id cd = pr_dst p -> get_remote (l_remotes cd) (l_id cs) = Some rd -> length dn = 1%nat ->
  l_ind_fin cs = true -> l_ind_fin cd = true ->
  (* the cancel request comes after k rounds, before the EOF (No error) *)
  (1 <= k)%nat -> (Z.of_nat k - 2) * seg < zlen data ->
  let m := Z.min ((Z.of_nat k - 1) * seg) (zlen data) in
  let fstat := if r_disposition rd then FS_DISCARDED_DELIBERATELY else FS_RETAINED in
  let fin_ev := EvFinished (l_id cs) seq0 C_CANCEL_REQUEST DATA_INCOMPLETE fstat (Some (l_id cs, r_idw rd)) in
  exists fuel ck lgs lgd,
    let res := transfer_cancel cs cd seq0 bits p sn data k fuel tick in
    let y := fst (fst res) in
    (* the request returns true; the run ends quiescent, both handlers idle, no API call raised *)
    snd res = Ok true /\ snd (fst res) = true /\
    s_state (y_src y) = ST_IDLE /\ d_state (y_dst y) = ST_IDLE /\ y_errs y = [] /\
    (* the checksum of the first m bytes exists (it is what the EOF (cancel) carried) *)
    calculate_checksum (r_cktype rs) (Some data) m seg = Ok ck /\
    (* the sender's log: EOF-Sent (if enabled), then Transaction-Finished copying the receiver's Finished PDU *)
    e_log (s_env (y_src y)) = fin_ev :: (if l_ind_eof_sent cs then [EvEofSent (l_id cs) seq0] else []) ++ lgs /\
    (* the receiver's log ends with the same Transaction-Finished *)
    e_log (d_env (y_dst y)) = fin_ev :: lgd /\
    existsb fault_event lgs = false /\ filter success_event lgs = [] /\
    existsb fault_event lgd = false /\ filter success_event lgd = [] /\
    (* the destination file: deleted with disposition-on-cancellation, else exactly the m bytes sent *)
    file_content (e_fs (d_env (y_dst y))) dn = (if r_disposition rd then None else Some (ztake m data)) /\
    (* the sender emitted k + 2 PDUs in all: Metadata, k - 1 File Data, EOF (cancel), ACK (Finished): no File Data
       after the cancel *)
    y_cnt_s2d y = Z.of_nat k + 2.
Proof. exact system_cancel_acked. Qed.
Print Assumptions c12_system_cancel_acked.

(* ---------- what is on the link right after the cancel request: exactly one PDU, the EOF (Cancel Request Received)
   whose size is the number m of file bytes sent and whose checksum is the checksum of that prefix (the file checksum
   computed over the first m bytes); it is the (k + 1)-th PDU of the sender *)
Definition cancel_point (cs cd : lcfg) (seq0 bits : Z) (p : putreq) (sn : path) (data : bytes) (k : nat)
  : sys * res Z bool :=
  let y0 := sys_init cs cd seq0 bits sn data [] in
  let '(s1, _) := put_request p (y_src y0) in
  cancel_src (l_id cs) seq0 (rounds k (y0 <| y_src := s1 |>)).

Theorem c12_system_cancel_eof :
  forall (cs cd : lcfg) (seq0 bits : Z) (p : putreq) (rs rd : rcfg) (sn dn : path) (data : bytes) (k : nat),
  let w := Z.max (l_idw cs) (pr_dstw p) in
  let large := 4294967295 <? zlen data in
  let derived := r_max_packet rs - (4 + 2 * w + bits / 8) - (if large then 8 else 4) - (if r_crc rs then 2 else 0) in
  let seg := match r_max_seg rs with Some m => Z.min m derived | None => derived end in
  get_remote (l_remotes cs) (pr_dst p) = Some rs ->
  pr_names p = Some (sn, dn) -> sn <> [] -> pr_msgs p = None ->
  (match pr_mode p with Some m => m | None => r_mode rs end) = ACKED ->
  (bits = 8 \/ bits = 16 \/ bits = 32) -> 0 <= seq0 < 2 ^ bits -> 1 <= seg -> 6 <= derived ->
  (r_cktype rs = CK_CRC32 \/ r_cktype rs = CK_CRC32C \/ r_cktype rs = CK_NULL \/ r_cktype rs = CK_MODULAR) ->
  l_id cd = pr_dst p -> get_remote (l_remotes cd) (l_id cs) = Some rd -> length dn = 1%nat ->
  (1 <= k)%nat -> (Z.of_nat k - 2) * seg < zlen data ->
  let m := Z.min ((Z.of_nat k - 1) * seg) (zlen data) in
  exists ck,
    let res := cancel_point cs cd seq0 bits p sn data k in
    calculate_checksum (r_cktype rs) (Some data) m seg = Ok ck /\
    snd res = Ok true /\ y_errs (fst res) = [] /\
    y_s2d (fst res) =
      [PEof (mkHdr TOWARDS_RECEIVER ACKED (r_crc rs) large (l_id cs) (pr_dst p) w seq0 (bits / 8))
            C_CANCEL_REQUEST ck m None] /\
    y_cnt_s2d (fst res) = Z.of_nat k + 1.
Proof. exact system_cancel_eof. Qed.
Print Assumptions c12_system_cancel_eof.

(* ---------- unacknowledged mode without closure: the sender's transaction ends with the EOF (cancel) (Transaction-Finished:
   Cancel Request Received, data incomplete, file status unreported, no fault location); the receiver finishes on receiving
   it, in the same call, with the EOF's condition and the sender as fault location, and sends nothing back; one round
   after the cancel request the system is quiescent.  The sender emitted k + 1 PDUs: Metadata, k - 1 File Data, EOF. *)
Theorem c12_system_cancel_unacked :
  forall (cs cd : lcfg) (seq0 bits : Z) (p : putreq) (rs rd : rcfg) (sn dn : path) (data : bytes) (tick : Z) (k : nat),
  let w := Z.max (l_idw cs) (pr_dstw p) in
  let large := 4294967295 <? zlen data in
  let derived := r_max_packet rs - (4 + 2 * w + bits / 8) - (if large then 8 else 4) - (if r_crc rs then 2 else 0) in
  let seg := match r_max_seg rs with Some m => Z.min m derived | None => derived end in
  get_remote (l_remotes cs) (pr_dst p) = Some rs ->
  pr_names p = Some (sn, dn) -> sn <> [] -> pr_msgs p = None ->
  (match pr_mode p with Some m => m | None => r_mode rs end) = UNACKED ->
  (match pr_closure p with Some b => b | None => r_closure rs end) = false ->
  (bits = 8 \/ bits = 16 \/ bits = 32) -> 0 <= seq0 < 2 ^ bits -> 1 <= seg -> 6 <= derived ->
  (r_cktype rs = CK_CRC32 \/ r_cktype rs = CK_CRC32C \/ r_cktype rs = CK_NULL \/ r_cktype rs = CK_MODULAR) ->
  l_id cd = pr_dst p -> get_remote (l_remotes cd) (l_id cs) = Some rd -> length dn = 1%nat ->
  l_ind_fin cs = true -> l_ind_fin cd = true ->
  (1 <= k)%nat -> (Z.of_nat k - 2) * seg < zlen data ->
  let m := Z.min ((Z.of_nat k - 1) * seg) (zlen data) in
  let fstat := if r_disposition rd then FS_DISCARDED_DELIBERATELY else FS_RETAINED in
  exists fuel ck lgs lgd,
    let res := transfer_cancel cs cd seq0 bits p sn data k fuel tick in
    let y := fst (fst res) in
    snd res = Ok true /\ snd (fst res) = true /\
    s_state (y_src y) = ST_IDLE /\ d_state (y_dst y) = ST_IDLE /\ y_errs y = [] /\
    calculate_checksum (r_cktype rs) (Some data) m seg = Ok ck /\
    e_log (s_env (y_src y)) =
      EvFinished (l_id cs) seq0 C_CANCEL_REQUEST DATA_INCOMPLETE FS_UNREPORTED None ::
      (if l_ind_eof_sent cs then [EvEofSent (l_id cs) seq0] else []) ++ lgs /\
    e_log (d_env (y_dst y)) =
      EvFinished (l_id cs) seq0 C_CANCEL_REQUEST DATA_INCOMPLETE fstat (Some (l_id cs, r_idw rd)) :: lgd /\
    existsb fault_event lgs = false /\ filter success_event lgs = [] /\
    existsb fault_event lgd = false /\ filter success_event lgd = [] /\
    file_content (e_fs (d_env (y_dst y))) dn = (if r_disposition rd then None else Some (ztake m data)) /\
    y_cnt_s2d y = Z.of_nat k + 1.
Proof. exact system_cancel_unacked. Qed.
Print Assumptions c12_system_cancel_unacked.
