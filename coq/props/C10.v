(* Property C10 — Handlers fail only with protocol exceptions and only when the caller is at fault.
   (partial: see the end of this file.)  Model: admission checks and the unretrieved-PDU guards of both handlers. *)
From CFDP Require Import Base LostSeg Fs Handler Dest Source HandlerSpec.
From CFDP.proofs Require Import GuardProofs.
From RecordUpdate Require Import RecordSet.
Import RecordSetNotations.

(* a PDU rejected by the admission checks leaves the whole handler (state, step, progress, queue, filestore,
   every private field) unchanged: the call returns the very same state *)
Theorem c10_dest_reject_unchanged : forall p s s' e,
  check_inserted_packet p s = (s', Err e) -> s' = s /\ Dest.state_machine (Some p) s = (s, Err e).
Proof. exact dest_reject_unchanged. Qed.
Print Assumptions c10_dest_reject_unchanged.
Theorem c10_source_reject_unchanged : forall p s s' e,
  check_inserted_packet_s p s = (s', Err e) -> s' = s /\ state_machine_s (Some p) s = (s, Err e).
Proof. exact source_reject_unchanged. Qed.
Print Assumptions c10_source_reject_unchanged.

(* the admission checks raise library exceptions only *)
Theorem c10_admission_exceptions : forall p s sd e,
  (snd (check_inserted_packet p sd) = Err e ->
     In e [E_INVALID_DIRECTION; E_INVALID_DEST_ID; E_NO_REMOTE_CFG; E_INVALID_PDU_FOR_DEST; E_PDU_IGNORED_DEST] \/
     (e = E_VALUE /\ Dest.packet_destination p = None)) /\
  (snd (check_inserted_packet_s p s) = Err e ->
     In e [E_INVALID_DIRECTION; E_INVALID_SOURCE_ID; E_NO_REMOTE_CFG; E_INVALID_DEST_ID; E_INVALID_SEQ_NUM;
           E_INVALID_PDU_FOR_SOURCE; E_PDU_IGNORED_SOURCE] \/
     (e = E_VALUE /\ Dest.packet_destination p = None)).
Proof. exact admission_exceptions. Qed.
Print Assumptions c10_admission_exceptions.

(* sender: "unretrieved PDUs" only if PDUs were really still queued when the call was made *)
Theorem c10_source_unretrieved_only_if_queued : forall pkt s s',
  state_machine_s pkt s = (s', Err E_UNRETRIEVED) -> s_queue s <> [].
Proof. exact source_unretrieved_only_if_queued. Qed.
Print Assumptions c10_source_unretrieved_only_if_queued.
Theorem c10_source_cancel_unretrieved_only_if_ready : forall a b s s',
  cancel_request_s a b s = (s', Err E_UNRETRIEVED) -> 0 < s_ready s.
Proof. exact source_cancel_unretrieved_only_if_ready. Qed.
Print Assumptions c10_source_cancel_unretrieved_only_if_ready.

(* receiver: the guard at the start of every busy call; and the cancel request *)
Theorem c10_dest_advancement_guard : forall s s',
  fsm_advancement s = (s', Err E_UNRETRIEVED) -> d_queue s <> [] /\ s' = s.
Proof. exact dest_advancement_guard. Qed.
Print Assumptions c10_dest_advancement_guard.
Theorem c10_dest_cancel_unretrieved_only_if_ready : forall a b s s',
  Dest.cancel_request a b s = (s', Err E_UNRETRIEVED) -> 0 < d_ready s /\ s' = s.
Proof. exact dest_cancel_unretrieved_only_if_ready. Qed.
Print Assumptions c10_dest_cancel_unretrieved_only_if_ready.

(* receiver: the packets-ready counter always equals the queue length (so "ready = 0" and "queue empty" agree) *)
Definition ready_inv (s : dst) : Prop := d_ready s = zlen (d_queue s).
Theorem c10_dest_ready_inv : forall pkt s a b,
  ready_inv s ->
  ready_inv (fst (Dest.state_machine pkt s)) /\ ready_inv (fst (Dest.get_next_packet s)) /\
  ready_inv (fst (Dest.cancel_request a b s)) /\ ready_inv (fst (Dest.reset s)).
Proof. exact dest_ready_inv. Qed.
Print Assumptions c10_dest_ready_inv.

(* sender (after the F28 repair): the same invariant, kept by every API call whether it returns or raises,
   and true of a fresh handler *)
Definition ready_inv_s (s : src) : Prop := s_ready s = zlen (s_queue s).
Theorem c10_source_ready_inv : forall pkt p a b s,
  ready_inv_s s ->
  ready_inv_s (fst (state_machine_s pkt s)) /\ ready_inv_s (fst (put_request p s)) /\
  ready_inv_s (fst (get_next_packet_s s)) /\ ready_inv_s (fst (cancel_request_s a b s)) /\ ready_inv_s (fst (reset_s s)).
Proof. exact source_ready_inv. Qed.
Print Assumptions c10_source_ready_inv.
Theorem c10_source_ready_inv_init : forall c seq0 bits, ready_inv_s (src_init c seq0 bits).
Proof. exact source_ready_inv_init. Qed.
Print Assumptions c10_source_ready_inv_init.

(* get_next_packet never raises *)
Theorem c10_get_never_raises : forall s sd,
  (exists r, snd (get_next_packet_s s) = Ok r) /\ (exists r, snd (Dest.get_next_packet sd) = Ok r).
Proof. exact get_never_raises. Qed.
Print Assumptions c10_get_never_raises.

(* Not proved here (Tier B of DESIGN.md 6/C10): "no internal error for any history" as one invariant over both
   state machines.  bin/check C10 evaluates it on hostile histories of the implementation (every exception class is
   compared with the model's and must be a library exception, except the listed known finding F9). *)
