(* Property C05 — Destination file equals the write-model of the accepted File Data PDUs.
   Model: Dest.v with the filestore Fs.v.  The theorems are per call; since they hold for every
   state and every input they compose over arbitrary histories (the oracle of bin/check C05
   interprets whole histories with the same write model on the implementation). *)
From CFDP Require Import Base LostSeg Fs Handler Dest HandlerSpec.
From CFDP.proofs Require Import DestFsProofs.
From RecordUpdate Require Import RecordSet.
Import RecordSetNotations.

(* paths a call may touch: the destination path of the running transaction, or the destination
   named by the Metadata PDU handed in by this very call (as file, or inside it when it is a directory) *)
Definition may_touch (s : dst) (pkt : option pdu) (q : path) : Prop :=
  q = p_file_name (d_p s) \/
  match pkt with
  | Some (PMetadata _ _ _ _ (Some (sn, dn)) _) => q = dn \/ exists b, q = dn ++ [b]
  | _ => False
  end.

(* nothing is written to, created at or deleted from any other path, whatever the call does *)
Theorem c05_state_machine_frame : forall pkt s q,
  ~ may_touch s pkt q -> lookup (fs_d (fst (Dest.state_machine pkt s))) q = lookup (fs_d s) q.
Proof. exact state_machine_frame. Qed.
Print Assumptions c05_state_machine_frame.

(* the other API calls never touch the filestore *)
Theorem c05_other_calls_no_fs : forall s a b,
  fs_d (fst (Dest.get_next_packet s)) = fs_d s /\ fs_d (fst (Dest.cancel_request a b s)) = fs_d s /\
  fs_d (fst (Dest.reset s)) = fs_d s.
Proof. exact other_calls_no_fs. Qed.
Print Assumptions c05_other_calls_no_fs.

(* an accepted File Data PDU: the destination file becomes write_at old offset data (zero fill in
   gaps), provided the filestore does not reject the write; a rejected write changes nothing *)
Theorem c05_fd_write_model : forall s off data old s' r,
  handle_fd_pdu off data s = (s', r) ->
  lookup (fs_d s) (p_file_name (d_p s)) = Some (File old) -> p_file_name (d_p s) <> [] ->
  (e_reject_writes (d_env s) = true -> fs_d s' = fs_d s) /\
  (e_reject_writes (d_env s) = false -> r <> Err E_VALUE -> r <> Err E_ASSERT ->
     lookup (fs_d s') (p_file_name (d_p s)) = Some (File (write_at old off data)) \/
     (* the transaction was abandoned by a fault handler after the write *) d_state s' = ST_IDLE /\
       lookup (fs_d s') (p_file_name (d_p s)) = Some (File (write_at old off data))).
Proof. exact fd_write_model. Qed.
Print Assumptions c05_fd_write_model.

(* file data (and EOF) arriving before the Metadata is never written anywhere *)
Theorem c05_pre_metadata_no_write : forall s first off data c ck sz,
  fs_d (fst (handle_fd_without_previous_metadata first off data s)) = fs_d s /\
  fs_d (fst (handle_eof_without_previous_metadata c ck sz s)) = fs_d s.
Proof. exact pre_metadata_no_write. Qed.
Print Assumptions c05_pre_metadata_no_write.

(* Metadata: the destination is resolved (directory => directory/basename) and created empty or truncated *)
Theorem c05_metadata_creates_or_truncates : forall s base s',
  init_vfs_handling base s = (s', Ok tt) ->
  let name := p_file_name (d_p s) in
  let name' := if fs_is_directory (fs_d s) name then match base with Some b => name ++ [b] | None => name end else name in
  p_file_name (d_p s') = name' /\
  (forall d, lookup (fs_d s) name' = Some (File d) -> lookup (fs_d s') name' = Some (File [])) /\
  (lookup (fs_d s) name' = None -> parent_is_dir (fs_d s) name' = true -> lookup (fs_d s') name' = Some (File [])) /\
  (forall q, q <> name' -> lookup (fs_d s') q = lookup (fs_d s) q).
Proof. exact metadata_creates_or_truncates. Qed.
Print Assumptions c05_metadata_creates_or_truncates.

(* deletion happens only in the notice of completion, only of the destination path, and exactly when the
   transaction is cancelled, disposition-on-cancellation is configured and the delivery is incomplete *)
Theorem c05_delete_only_on_cancel_disposition : forall s s' r0,
  notice_of_completion s = (s', Ok tt) -> p_rcfg (d_p s) = Some r0 ->
  let del := (p_disp (d_p s) =? DISP_CANCELED) && r_disposition r0 && (f_deliv (p_fin (d_p s)) =? DATA_INCOMPLETE) in
  fs_d s' = (if del then fst (fs_delete_file (fs_d s) (p_file_name (d_p s))) else fs_d s).
Proof. exact delete_only_on_cancel_disposition. Qed.
Print Assumptions c05_delete_only_on_cancel_disposition.
