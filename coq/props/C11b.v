(* Property C11, history independence — what a handler does from an idle state depends only on its configuration, its
   environment (clock, filestore), the PDUs still queued and (sender) the sequence counter, NOT on the transactions it ran
   before: two idle handlers that agree on those behave identically under every sequence of API calls — same results and
   exceptions, same PDUs, same indications and fault callbacks, same filestore — although they may differ in the leftovers
   of their histories (receiver: the transaction id remembered in the state wrapper; sender: the source id fields of the
   header template of the parameter block, the put request of the last transaction, the remembered resume step).
   Together with c11_*_idle_fresh_preserved (every history leaves an idle handler with a fresh parameter block) this is
   isolation from earlier transactions for every history.

   The API-as-data types [dcall], [scall] and the functions over them are defined in proofs/HistoryIndepProofs.v (an
   Inductive cannot be declared twice); they are printed and their bodies are re-stated (and checked by the kernel:
   [eq_refl]) below. *)
From CFDP Require Import Base LostSeg Fs Handler Dest Source HandlerSpec SourceSpec.
From CFDP.proofs Require Import HistoryIndepProofs.
From RecordUpdate Require Import RecordSet.
Import RecordSetNotations.

(* ---- the API of a handler as data, and what a caller observes of one call *)
Print dcall.   (* Inductive dcall := DSm (pkt : option pdu) | DGet | DCancel (a b : Z) | DReset | DTick (ms : Z). *)
Definition dapply_is : dapply = fun (c : dcall) (s : dst) =>
  match c with
  | DSm pkt => let '(s', r) := Dest.state_machine pkt s in (s', (r, None, false))
  | DGet => let '(s', r) := Dest.get_next_packet s in
            (s', (match r with Ok _ => Ok tt | Err e => Err e end, match r with Ok o => o | Err _ => None end, false))
  | DCancel a b => let '(s', r) := Dest.cancel_request a b s in
                   (s', (match r with Ok _ => Ok tt | Err e => Err e end, None, match r with Ok b => b | Err _ => false end))
  | DReset => let '(s', r) := Dest.reset s in (s', (r, None, false))
  | DTick ms => (s <| d_env ::= (fun e => e <| e_now ::= Z.add ms |>) |>, (Ok tt, None, false))
  end := eq_refl.
(* the observable part of a receiver state *)
Definition dview_is : dview = fun (s : dst) => (d_state s, d_step s, d_ready s, d_queue s, d_env s) := eq_refl.
(* the observations of a sequence of calls: per call its result / PDU / boolean and the observable state after it *)
Definition druns_is : druns = fix druns (cs : list dcall) (s : dst)
    : list (res Z unit * option pdu * bool * (Z * Z * Z * list pdu * env)) :=
  match cs with
  | [] => []
  | c :: t => let '(s', o) := dapply c s in (o, dview s') :: druns t s'
  end := eq_refl.

Theorem c11_dest_history_independent : forall (s1 s2 : dst) (cs : list dcall),
  d_state s1 = ST_IDLE -> d_state s2 = ST_IDLE -> d_step s1 = DS_IDLE -> d_step s2 = DS_IDLE ->
  d_p s1 = fresh_params -> d_p s2 = fresh_params ->
  d_cfg s1 = d_cfg s2 -> d_env s1 = d_env s2 -> d_queue s1 = d_queue s2 -> d_ready s1 = d_ready s2 ->
  druns cs s1 = druns cs s2.
Proof. exact dest_history_independent. Qed.
Print Assumptions c11_dest_history_independent.

(* the same in any state, busy or idle: the remembered transaction id of the state wrapper is never read *)
Theorem c11_dest_states_tid_unobserved : forall (s1 s2 : dst) (cs : list dcall),
  s2 = s1 <| d_states_tid := d_states_tid s2 |> -> druns cs s1 = druns cs s2.
Proof. exact dest_history_independent_any. Qed.
Print Assumptions c11_dest_states_tid_unobserved.

Print scall.   (* Inductive scall := SSm (pkt : option pdu) | SGet | SPut (p : putreq) | SCancel (a b : Z) | SReset | STick (ms : Z). *)
Definition sapply_is : sapply = fun (c : scall) (s : src) =>
  match c with
  | SSm pkt => let '(s', r) := state_machine_s pkt s in (s', (r, None, false))
  | SGet => let '(s', r) := get_next_packet_s s in
            (s', (match r with Ok _ => Ok tt | Err e => Err e end, match r with Ok o => o | Err _ => None end, false))
  | SPut p => let '(s', r) := put_request p s in
              (s', (match r with Ok _ => Ok tt | Err e => Err e end, None, match r with Ok b => b | Err _ => false end))
  | SCancel a b => let '(s', r) := cancel_request_s a b s in
                   (s', (match r with Ok _ => Ok tt | Err e => Err e end, None, match r with Ok b => b | Err _ => false end))
  | SReset => let '(s', r) := reset_s s in (s', (r, None, false))
  | STick ms => (s <| s_env ::= (fun e => e <| e_now ::= Z.add ms |>) |>, (Ok tt, None, false))
  end := eq_refl.
Definition sview_is : sview = fun (s : src) => (s_state s, s_step s, s_ready s, s_queue s, s_env s, s_seq_count s) := eq_refl.
Definition sruns_is : sruns = fix sruns (cs : list scall) (s : src)
    : list (res Z unit * option pdu * bool * (Z * Z * Z * list pdu * env * Z)) :=
  match cs with
  | [] => []
  | c :: t => let '(s', o) := sapply c s in (o, sview s') :: sruns t s'
  end := eq_refl.

(* the sender's idle parameter block after any history (props/C11.v: source_idle_fresh) *)
Definition idle_params_is : idle_params = fun (s : src) =>
  s_p s = reset_sparams \/ s_p s = init_sparams (s_cfg s) \/
  (exists r, s_p s = reset_sparams <| q_rcfg := r |>) \/ (exists r, s_p s = (init_sparams (s_cfg s)) <| q_rcfg := r |>)
  := eq_refl.

(* The two handlers have to agree on the remote configuration left in the block (hypothesis q_rcfg ... = q_rcfg ...):
   admission of an inbound PDU reads it also while idle (HistoryIndepProofs.draft_false_rcfg).  Histories leave none
   (c11_source_idle_fresh2_preserved below), so for idle states produced by histories the hypothesis holds by itself
   (c11_source_history_independent_reachable). *)
Theorem c11_source_history_independent : forall (s1 s2 : src) (cs : list scall),
  s_state s1 = ST_IDLE -> s_state s2 = ST_IDLE -> s_step s1 = SS_IDLE -> s_step s2 = SS_IDLE ->
  idle_params s1 -> idle_params s2 -> q_rcfg (s_p s1) = q_rcfg (s_p s2) ->
  s_cfg s1 = s_cfg s2 -> s_env s1 = s_env s2 -> s_queue s1 = s_queue s2 -> s_ready s1 = s_ready s2 ->
  s_seq_count s1 = s_seq_count s2 -> s_seq_bits s1 = s_seq_bits s2 ->
  sruns cs s1 = sruns cs s2.
Proof. exact source_history_independent. Qed.
Print Assumptions c11_source_history_independent.

(* whenever the sender is idle its parameter block is the constructor's or the reset one — no remote configuration is
   left in it (sharper than c11_source_idle_fresh_preserved of props/C11.v), for every history *)
Definition idle_params2_is : idle_params2 = fun (s : src) => s_p s = reset_sparams \/ s_p s = init_sparams (s_cfg s) := eq_refl.
Definition source_idle_fresh2_is : source_idle_fresh2 = fun (s : src) => s_state s = ST_IDLE -> idle_params2 s := eq_refl.

Theorem c11_source_idle_fresh2_init : forall c seq0 bits, source_idle_fresh2 (src_init c seq0 bits).
Proof. exact source_idle_fresh2_init. Qed.
Theorem c11_source_idle_fresh2_preserved : forall pkt s a b p,
  source_idle_fresh2 s ->
  source_idle_fresh2 (fst (state_machine_s pkt s)) /\ source_idle_fresh2 (fst (get_next_packet_s s)) /\
  source_idle_fresh2 (fst (cancel_request_s a b s)) /\ source_idle_fresh2 (fst (reset_s s)) /\
  source_idle_fresh2 (fst (put_request p s)).
Proof. exact source_idle_fresh2_preserved. Qed.
Print Assumptions c11_source_idle_fresh2_preserved.

Theorem c11_source_history_independent_reachable : forall (s1 s2 : src) (cs : list scall),
  s_state s1 = ST_IDLE -> s_state s2 = ST_IDLE -> s_step s1 = SS_IDLE -> s_step s2 = SS_IDLE ->
  idle_params2 s1 -> idle_params2 s2 ->
  s_cfg s1 = s_cfg s2 -> s_env s1 = s_env s2 -> s_queue s1 = s_queue s2 -> s_ready s1 = s_ready s2 ->
  s_seq_count s1 = s_seq_count s2 -> s_seq_bits s1 = s_seq_bits s2 ->
  sruns cs s1 = sruns cs s2.
Proof. exact source_history_independent_reachable. Qed.
Print Assumptions c11_source_history_independent_reachable.
