(* Property C03, unbounded instances K = 1, duplication — acknowledged mode is not disturbed by the DUPLICATION of any ONE
   PDU of the transfer (either direction, any PDU: Metadata, any File Data PDU, EOF, ACK (Finished), ACK (EOF), Finished):
   for EVERY file and configuration the file is delivered byte-identical and both users get a successful
   Transaction-Finished.  n = number of File Data PDUs of the stream; indices on the sender->receiver direction:
   0 Metadata, 1..n File Data, n+1 EOF, n+2 ACK (Finished); on the receiver->sender direction: 0 ACK (EOF), 1 Finished.
   Both copies are delivered in the same round, one API call each.  The only exception a duplicate provokes: the second
   copy of the ACK (EOF) reaches a sender that waits for the Finished PDU and is refused with PduIgnoredForSource
   (recorded in y_errs); in all other cases no API call raises, and the run passes the verdict of the fault-free runs
   (second theorem).  No timer expires in such a run (every round has activity), so - unlike C03r - neither the
   Positive-ACK limits nor the clock advance per idle round are constrained. *)
From CFDP Require Import Base LostSeg Fs Crc Checksum Handler Dest Source SourceSpec System.
From CFDP.proofs Require Import DuplicateProofs.

Theorem c03_single_duplicate :
  forall (cs cd : lcfg) (seq0 bits : Z) (p : putreq) (rs rd : rcfg) (sn dn : path) (data : bytes) (tick : Z) (ft : fault),
  let w := Z.max (l_idw cs) (pr_dstw p) in
  let large := 4294967295 <? zlen data in
  let derived := r_max_packet rs - (4 + 2 * w + bits / 8) - (if large then 8 else 4) - (if r_crc rs then 2 else 0) in
  let seg := match r_max_seg rs with Some m => Z.min m derived | None => derived end in
  (* sender side: entity cs sends to the entity named by the request; acknowledged mode *)
  get_remote (l_remotes cs) (pr_dst p) = Some rs ->
  pr_names p = Some (sn, dn) -> sn <> [] -> dn <> [] -> pr_msgs p = None ->
  (match pr_mode p with Some m => m | None => r_mode rs end) = ACKED ->
  let n := (zlen data + seg - 1) / seg in
  (* the duplicated PDU: any PDU of the sender (index 0 .. n+2) or of the receiver (index 0, 1); kind 1 = duplicate *)
  ((exists i, 0 <= i <= n + 2 /\ ft = mkFault 0 i 1 0) \/ ft = mkFault 1 0 1 0 \/ ft = mkFault 1 1 1 0) ->
  (* the Positive-ACK timer intervals of both entities are positive: with an interval <= 0 the timer has expired in
     the very call that starts it (sender: Positive ACK Limit fault when the limit is 1; receiver: a second Finished
     PDU is prepared before the first was retrieved -> UnretrievedPdusToBeSent) *)
  0 < r_ack_ms rs -> 0 < r_ack_ms rd ->
  (bits = 8 \/ bits = 16 \/ bits = 32) -> 0 <= seq0 < 2 ^ bits -> 1 <= seg -> 6 <= derived ->
  (r_cktype rs = CK_CRC32 \/ r_cktype rs = CK_CRC32C \/ r_cktype rs = CK_NULL \/ r_cktype rs = CK_MODULAR) ->
  bytes_ok data = true ->
  (* receiver side: entity cd is the addressed entity and knows the sender; the destination path is a fresh file name
     directly under the root of an empty filestore *)
  l_id cd = pr_dst p -> get_remote (l_remotes cd) (l_id cs) = Some rd -> length dn = 1%nat ->
  get_fault_handler (l_faults cd) C_CHECKSUM_FAILURE <> None ->
  l_ind_fin cs = true -> l_ind_fin cd = true ->
  exists fuel,
    let res := transfer cs cd seq0 bits p sn data [ft] fuel tick in
    delivered_ok dn data res = true /\
    (* the exceptions raised by API calls: none, except for the refused second copy of the ACK (EOF) *)
    y_errs (fst res) = (if (ft_dir ft =? 1) && (ft_index ft =? 0) then [(0, E_PDU_IGNORED_SOURCE)] else []).
Proof. exact single_duplicate. Qed.
Print Assumptions c03_single_duplicate.

(* unless the duplicated PDU is the ACK (EOF): the verdict of the fault-free runs (delivery, no exception raised by an API
   call, no fault event in either log, exactly one Transaction-Finished indication on each side) *)
Theorem c03_single_duplicate_fault_free :
  forall (cs cd : lcfg) (seq0 bits : Z) (p : putreq) (rs rd : rcfg) (sn dn : path) (data : bytes) (tick : Z) (ft : fault),
  let w := Z.max (l_idw cs) (pr_dstw p) in
  let large := 4294967295 <? zlen data in
  let derived := r_max_packet rs - (4 + 2 * w + bits / 8) - (if large then 8 else 4) - (if r_crc rs then 2 else 0) in
  let seg := match r_max_seg rs with Some m => Z.min m derived | None => derived end in
  get_remote (l_remotes cs) (pr_dst p) = Some rs ->
  pr_names p = Some (sn, dn) -> sn <> [] -> dn <> [] -> pr_msgs p = None ->
  (match pr_mode p with Some m => m | None => r_mode rs end) = ACKED ->
  let n := (zlen data + seg - 1) / seg in
  ((exists i, 0 <= i <= n + 2 /\ ft = mkFault 0 i 1 0) \/ ft = mkFault 1 1 1 0) ->
  0 < r_ack_ms rs -> 0 < r_ack_ms rd ->
  (bits = 8 \/ bits = 16 \/ bits = 32) -> 0 <= seq0 < 2 ^ bits -> 1 <= seg -> 6 <= derived ->
  (r_cktype rs = CK_CRC32 \/ r_cktype rs = CK_CRC32C \/ r_cktype rs = CK_NULL \/ r_cktype rs = CK_MODULAR) ->
  bytes_ok data = true ->
  l_id cd = pr_dst p -> get_remote (l_remotes cd) (l_id cs) = Some rd -> length dn = 1%nat ->
  get_fault_handler (l_faults cd) C_CHECKSUM_FAILURE <> None ->
  l_ind_fin cs = true -> l_ind_fin cd = true ->
  exists fuel,
    let res := transfer cs cd seq0 bits p sn data [ft] fuel tick in
    fault_free_ok dn data res = true.
Proof. exact single_duplicate_fault_free. Qed.
Print Assumptions c03_single_duplicate_fault_free.
