(* Property C15, causal order — the indications are delivered in causal order (Transaction, EOF-Sent,
   Transaction-Finished at the sender; Metadata-Recv, File-Segment-Recv, EOF-Recv, Transaction-Finished at the
   receiver), and the transaction id they carry is that of the transaction in progress.  Stated over the event log
   (`log_s`, `log_d`: newest first; every user callback appends one event) for EVERY history of API calls, whole
   state machines, both handlers.  (The gating by the indication configuration and the other parameters of the
   indications are in props/C15.v.)

   SENDER.  An automaton over the log alone ([src_step]): a transaction is the stretch of the log from one Transaction
   indication to the next; in it: Transaction, then EOF-Sent any number of times (the EOF PDU is re-sent by the positive
   ACK procedure, an EOF (cancel) may follow the EOF), then at most one Transaction-Finished; every EOF-Sent /
   Transaction-Finished / fault callback carries the id of the latest Transaction indication; the ids are numbered in
   strictly increasing order by one entity.  The invariant [src_ord] ties the log to the handler state (a handler that
   has a transaction id has that transaction open in the log, its Transaction-Finished not yet delivered); it holds
   initially and is kept by every API call on every state, so the log of every history is accepted
   (c15c_src_order_history).  Transaction-Finished is delivered by a call that leaves the handler idle
   (c15c_src_finished_idle).
     NOT true, and therefore not claimed: "nothing of the transaction follows its Transaction-Finished".  The fault
   callback of the fault whose handler cancels an unacknowledged transaction comes AFTER the Transaction-Finished of
   that transaction, in the same call (source.py _declare_fault: report_fault after _notice_of_cancellation; instance
   OrderProofs.src_fault_after_finished).  Fault callbacks are therefore accepted after Transaction-Finished; nothing
   else is (c15c_src_after_finished).

   RECEIVER.  The peer may re-use a transaction id and the log has no indication that opens a transaction, so the
   transaction is delimited by the handler state (busy stretch).  Per call of the state machine (c15c_dest_call_order,
   c15c_dest_md_once): every event carries the transaction id of the busy handler (of the PDU that starts the
   transaction, if idle); the only receive indication is the one of the inbound PDU (File-Segment-Recv with offset and
   length of that File Data PDU, Metadata-Recv of that Metadata PDU, EOF-Recv for an EOF PDU); inside the call the receive
   indications come before Transaction-Finished; a call that delivers Transaction-Finished ends idle or in the
   completion steps (TRANSFER_COMPLETION, SENDING_FINISHED, WAITING_FOR_FINISHED_ACK), and in those steps only
   Transaction-Finished and fault callbacks are delivered until the handler is idle; Metadata-Recv is delivered at most
   once per transaction.  The automaton [dst_step] run along a history with these facts: never rejects
   (c15c_dest_order_history).
     NOT true, and therefore not claimed: "Transaction-Finished at most once" and "in the Finished-ACK wait only fault
   callbacks".  A cancel request after the completion delivers Transaction-Finished again, every time it is made;
   the positive ACK limit of the Finished PDU with the fault handler "cancel" delivers it a second time
   (OrderProofs.dst_finished_again_by_cancel, dst_finished_again_by_ack_limit; dest.py cancel_request /
   _handle_positive_ack_procedures -> _declare_fault -> state_machine() -> _notice_of_completion).  EOF-Recv may repeat
   (a re-sent EOF PDU is indicated again). *)
From CFDP Require Import Base LostSeg Fs Handler Dest Source HandlerSpec SourceSpec.
From CFDP.proofs Require Import HistoryIndepProofs OrderProofs.
From RecordUpdate Require Import RecordSet.
Import RecordSetNotations.

(* ================================================================== vocabulary *)
Definition ev_tid (e : event) : Z * Z :=
  match e with
  | EvTransaction a b _ | EvEofSent a b | EvFinished a b _ _ _ _ | EvMetadataRecv a b _ _ _ _
  | EvSegmentRecv a b _ _ | EvEofRecv a b | EvFault _ a b _ _ => (a, b)
  end.
Definition is_fault (e : event) : bool := match e with EvFault _ _ _ _ _ => true | _ => false end.
Definition is_finished (e : event) : bool := match e with EvFinished _ _ _ _ _ _ => true | _ => false end.
Definition is_tx (e : event) : bool := match e with EvTransaction _ _ _ => true | _ => false end.
Definition is_md (e : event) : bool := match e with EvMetadataRecv _ _ _ _ _ _ => true | _ => false end.
(* Transaction-Finished or a fault callback *)
Definition finfault (e : event) : bool := is_finished e || is_fault e.

(* ================================================================== SENDER *)
(* the phase of the log: nothing yet, or the current transaction (source entity id, sequence number) and whether its
   Transaction-Finished has been delivered *)
Definition sphase := option (Z * Z * bool).

Definition src_step (ph : sphase) (e : event) : option sphase :=
  match e with
  | EvTransaction a b _ =>
      match ph with
      | None => Some (Some (a, b, false))
      | Some (a0, b0, _) => if (a =? a0) && (b0 <? b) then Some (Some (a, b, false)) else None
      end
  | EvEofSent a b =>
      match ph with
      | Some (a0, b0, false) => if (a =? a0) && (b =? b0) then Some ph else None
      | _ => None
      end
  | EvFinished a b _ _ _ _ =>
      match ph with
      | Some (a0, b0, false) => if (a =? a0) && (b =? b0) then Some (Some (a0, b0, true)) else None
      | _ => None
      end
  | EvFault _ a b _ _ =>
      match ph with
      | Some (a0, b0, _) => if (a =? a0) && (b =? b0) then Some ph else None
      | None => None
      end
  | _ => None
  end.

(* the automaton over a log read oldest first *)
Fixpoint src_run (ph : sphase) (l : list event) : option sphase :=
  match l with
  | [] => Some ph
  | e :: t => match src_step ph e with Some ph' => src_run ph' t | None => None end
  end.
Definition src_order_ok (l : list event) : Prop := src_run None l <> None.

(* the same over the log as it is stored, newest first *)
Fixpoint src_phase (log : list event) : option sphase :=
  match log with
  | [] => Some None
  | e :: older => match src_phase older with Some ph => src_step ph e | None => None end
  end.
Theorem c15c_src_phase_run : forall log, src_run None (rev log) = src_phase log.
Proof. exact src_run_rev. Qed.

(* the invariant: the log is accepted; a handler that has a transaction id has that transaction open in the log, not
   finished; the transactions of the log were numbered by this entity, below the counter of the sequence number provider *)
Definition src_ord (s : src) : Prop :=
  exists ph, src_phase (log_s s) = Some ph /\
    (forall t, q_tid (s_p s) = Some t -> ph = Some (t, false)) /\
    (forall a b f, ph = Some (a, b, f) -> a = l_id (s_cfg s) /\ b < s_seq_count s).

Theorem c15c_src_ord_init : forall c seq0 bits, src_ord (src_init c seq0 bits).
Proof. exact src_ord_init. Qed.
Theorem c15c_src_ord_preserved : forall pkt p a b s,
  src_ord s ->
  src_ord (fst (state_machine_s pkt s)) /\ src_ord (fst (put_request p s)) /\
  src_ord (fst (get_next_packet_s s)) /\ src_ord (fst (cancel_request_s a b s)) /\ src_ord (fst (reset_s s)).
Proof. exact src_ord_preserved. Qed.
Print Assumptions c15c_src_ord_preserved.
(* the clock and the environment's own changes of the filestore *)
Theorem c15c_src_ord_env : forall s f, (forall e, e_log (f e) = e_log e) -> src_ord s -> src_ord (s <| s_env ::= f |>).
Proof. exact src_ord_env. Qed.
Theorem c15c_src_ord_order : forall s, src_ord s -> src_order_ok (rev (log_s s)).
Proof. exact src_ord_order. Qed.

(* every history of API calls (scall / sapply: props/C11b.v), from a freshly constructed handler *)
Definition shist (cs : list scall) (s : src) : src := fold_left (fun s c => fst (sapply c s)) cs s.
Theorem c15c_src_ord_history : forall cs s, src_ord s -> src_ord (shist cs s).
Proof. exact src_ord_history. Qed.
Theorem c15c_src_order_history : forall cs c seq0 bits, src_order_ok (rev (log_s (shist cs (src_init c seq0 bits)))).
Proof. exact src_order_history. Qed.
Print Assumptions c15c_src_order_history.

(* Transaction-Finished is delivered by a call that leaves the handler idle; only the state machine and a cancel
   request deliver anything *)
Theorem c15c_src_finished_idle : forall pkt a b s,
  (exists new, log_s (fst (state_machine_s pkt s)) = new ++ log_s s /\
     (existsb is_finished new = true -> s_state (fst (state_machine_s pkt s)) = ST_IDLE)) /\
  (exists new, log_s (fst (cancel_request_s a b s)) = new ++ log_s s /\
     (existsb is_finished new = true -> s_state (fst (cancel_request_s a b s)) = ST_IDLE)).
Proof. exact src_finished_idle. Qed.
Print Assumptions c15c_src_finished_idle.
Theorem c15c_src_other_calls_silent : forall p s,
  log_s (fst (put_request p s)) = log_s s /\ log_s (fst (get_next_packet_s s)) = log_s s /\
  log_s (fst (reset_s s)) = log_s s.
Proof. exact src_other_calls_silent. Qed.

(* ---- what acceptance means, by transaction ids (l: a log read oldest first) *)
Definition last_tx (l : list event) : option (Z * Z) :=
  fold_left (fun acc e => match e with EvTransaction a b _ => Some (a, b) | _ => acc end) l None.
(* (1) every EOF-Sent / Transaction-Finished / fault callback refers to the latest Transaction indication before it *)
Theorem c15c_src_refers_to_latest : forall l l1 e l2,
  src_order_ok l -> l = l1 ++ e :: l2 -> is_tx e = false -> last_tx l1 = Some (ev_tid e).
Proof. exact src_refers_to_latest. Qed.
(* (2) after the Transaction-Finished of a transaction, only fault callbacks carry its id: no EOF-Sent, no second
   Transaction-Finished, no second Transaction with that id *)
Theorem c15c_src_after_finished : forall l l1 a b c d f fl l2,
  src_order_ok l -> l = l1 ++ EvFinished a b c d f fl :: l2 ->
  Forall (fun e => ev_tid e = (a, b) -> is_fault e = true) l2.
Proof. exact src_after_finished. Qed.
(* (3) the transactions are numbered in strictly increasing order by one entity: no id is used twice *)
Theorem c15c_src_transactions_increase : forall l l1 a b o l2 a' b' o' l3,
  src_order_ok l -> l = l1 ++ EvTransaction a b o :: l2 ++ EvTransaction a' b' o' :: l3 -> a' = a /\ b < b'.
Proof. exact src_transactions_increase. Qed.
Print Assumptions c15c_src_after_finished.

(* ================================================================== RECEIVER *)
(* the transaction of the handler *)
Definition alive (a b : Z) (s : dst) : Prop := p_tid (d_p s) = Some (a, b).
Definition pkt_tid (p : pdu) : Z * Z := (h_src (pdu_hdr p), h_seq (pdu_hdr p)).
(* the transaction a call is about: that of the busy handler, else that of the PDU which starts one *)
Definition call_tid (s : dst) (pkt : option pdu) : option (Z * Z) :=
  if d_state s =? ST_IDLE then match pkt with Some p => Some (pkt_tid p) | None => None end else p_tid (d_p s).
(* the receive indication an inbound PDU can cause, with its parameters *)
Definition ri_of (a b : Z) (pkt : option pdu) : option event :=
  match pkt with
  | Some (PFileData _ off data) => Some (EvSegmentRecv a b off (zlen data))
  | Some (PMetadata h _ _ sz names msgs) =>
      Some (EvMetadataRecv a b (h_src h) (match names with Some _ => Some sz | None => None end) names msgs)
  | Some (PEof _ _ _ _ _) => Some (EvEofRecv a b)
  | _ => None
  end.
(* an event of a call: of the transaction; Transaction-Finished, a fault callback, or the receive indication of the PDU *)
Definition ind_ok (a b : Z) (pkt : option pdu) (e : event) : Prop :=
  ev_tid e = (a, b) /\ (finfault e = true \/ ri_of a b pkt = Some e).
(* the events of a call (newest first): an early part without Transaction-Finished, then Transaction-Finished and
   fault callbacks only *)
Definition call_order (new : list event) : Prop :=
  exists late early, new = late ++ early /\
    Forall (fun e => finfault e = true) late /\ Forall (fun e => is_finished e = false) early.
(* the completion steps *)
Definition completing (s : dst) : bool :=
  (d_step s =? DS_TRANSFER_COMPLETION) || (d_step s =? DS_SENDING_FINISHED) || (d_step s =? DS_WAITING_FOR_FINISHED_ACK).

Definition dest_call_ok (a b : Z) (pkt : option pdu) (s s' : dst) : Prop :=
  exists new, log_d s' = new ++ log_d s /\ Forall (ind_ok a b pkt) new /\ call_order new /\
    (* the transaction stays until the handler is idle *)
    (d_state s' = ST_IDLE \/ alive a b s') /\
    (* Transaction-Finished: afterwards idle or completing *)
    (existsb is_finished new = true -> d_state s' = ST_IDLE \/ completing s' = true) /\
    (* completing: only Transaction-Finished and fault callbacks, until idle *)
    (d_state s <> ST_IDLE -> completing s = true ->
       Forall (fun e => finfault e = true) new /\ (d_state s' = ST_IDLE \/ completing s' = true)).

(* hypothesis: a busy handler has a transaction id (part of dest_wf, props/C10b.v: holds in every reachable state) *)
Theorem c15c_dest_call_order : forall pkt s,
  (d_state s <> ST_IDLE -> p_tid (d_p s) <> None) ->
  match call_tid s pkt with
  | Some (a, b) => dest_call_ok a b pkt s (fst (Dest.state_machine pkt s))
  | None => log_d (fst (Dest.state_machine pkt s)) = log_d s /\ d_state (fst (Dest.state_machine pkt s)) = ST_IDLE
  end.
Proof. exact dest_call_order. Qed.
Print Assumptions c15c_dest_call_order.

(* Metadata-Recv: the Metadata PDU is not awaited (any more) *)
Definition md_done (s : dst) : Prop := p_md_missing (d_p s) = false /\ d_step s <> DS_WAITING_FOR_METADATA.
Definition md_count (l : list event) : nat := length (filter is_md l).
(* a call delivers Metadata-Recv at most once and ends with the Metadata PDU not awaited; a busy handler that does not
   await it delivers none and keeps not awaiting it *)
Definition dest_md_ok (s s' : dst) : Prop :=
  exists new, log_d s' = new ++ log_d s /\
    (d_state s <> ST_IDLE -> md_done s -> md_done s' /\ existsb is_md new = false) /\
    (existsb is_md new = true -> md_done s') /\ (md_count new <= 1)%nat.
Theorem c15c_dest_md_once : forall pkt s, dest_md_ok s (fst (Dest.state_machine pkt s)).
Proof. exact dest_md_once. Qed.
Print Assumptions c15c_dest_md_once.

(* the other calls deliver nothing; a cancel request keeps the transaction and at most moves to TRANSFER_COMPLETION *)
Theorem c15c_dest_other_calls : forall a b s,
  (log_d (fst (Dest.cancel_request a b s)) = log_d s /\
   p_tid (d_p (fst (Dest.cancel_request a b s))) = p_tid (d_p s) /\
   d_state (fst (Dest.cancel_request a b s)) = d_state s /\
   (d_step (fst (Dest.cancel_request a b s)) = d_step s \/ d_step (fst (Dest.cancel_request a b s)) = DS_TRANSFER_COMPLETION) /\
   p_md_missing (d_p (fst (Dest.cancel_request a b s))) = p_md_missing (d_p s)) /\
  (log_d (fst (Dest.get_next_packet s)) = log_d s /\ d_state (fst (Dest.get_next_packet s)) = d_state s /\
   d_step (fst (Dest.get_next_packet s)) = d_step s /\ d_p (fst (Dest.get_next_packet s)) = d_p s) /\
  (log_d (fst (Dest.reset s)) = log_d s /\ d_state (fst (Dest.reset s)) = ST_IDLE).
Proof. exact dest_other_calls. Qed.

(* ---- the automaton of the receiver, run along a history.  Phase: idle, or the transaction (source entity id,
   sequence number), whether Metadata-Recv has been delivered, whether Transaction-Finished has been delivered *)
Definition dphase := option (Z * Z * bool * bool).
Definition tid_eqb (x y : Z * Z) : bool := (fst x =? fst y) && (snd x =? snd y).

Definition dst_step (ph : dphase) (e : event) : option dphase :=
  match ph with
  | None => None                                         (* nothing is delivered while idle *)
  | Some (a, b, md, fin) =>
      if negb (tid_eqb (ev_tid e) (a, b)) then None else
      match e with
      | EvFault _ _ _ _ _ => Some ph
      | EvFinished _ _ _ _ _ _ => Some (Some (a, b, md, true))        (* may be delivered again: see the header *)
      | EvMetadataRecv _ _ _ _ _ _ => if md || fin then None else Some (Some (a, b, true, false))
      | EvSegmentRecv _ _ _ _ | EvEofRecv _ _ => if fin then None else Some ph
      | _ => None
      end
  end.
Fixpoint dst_run (ph : dphase) (l : list event) : option dphase :=
  match l with
  | [] => Some ph
  | e :: t => match dst_step ph e with Some ph' => dst_run ph' t | None => None end
  end.

(* the events a call appended (newest first) *)
Definition dnew (s s' : dst) : list event := firstn (length (log_d s') - length (log_d s)) (log_d s').
(* one API call (dcall / dapply: props/C11b.v): an idle handler given a PDU opens the transaction of that PDU; the events
   of the call are fed to the automaton oldest first; a handler that is idle after the call has closed the transaction *)
Definition dtrack (ph : dphase) (c : dcall) (s : dst) : option dphase :=
  let s' := fst (dapply c s) in
  let ph0 := match c with
             | DSm (Some p) => if d_state s =? ST_IDLE then Some (pkt_tid p, false, false) else ph
             | _ => ph
             end in
  match dst_run ph0 (rev (dnew s s')) with
  | Some ph1 => Some (if d_state s' =? ST_IDLE then None else ph1)
  | None => None
  end.
Fixpoint dhist (cs : list dcall) (s : dst) (ph : dphase) : option (dst * dphase) :=
  match cs with
  | [] => Some (s, ph)
  | c :: t => match dtrack ph c s with Some ph' => dhist t (fst (dapply c s)) ph' | None => None end
  end.

(* what the phase says about the handler state *)
Definition dst_ord (s : dst) (ph : dphase) : Prop :=
  match ph with
  | None => d_state s = ST_IDLE
  | Some (a, b, md, fin) =>
      d_state s <> ST_IDLE /\ p_tid (d_p s) = Some (a, b) /\ (md = true -> md_done s) /\ (fin = true -> completing s = true)
  end.

(* every API call on every state that agrees with the phase is accepted and ends in a state that agrees with the new phase *)
Theorem c15c_dest_track : forall c s ph, dst_ord s ph ->
  exists ph', dtrack ph c s = Some ph' /\ dst_ord (fst (dapply c s)) ph'.
Proof. exact dtrack_ok. Qed.
Print Assumptions c15c_dest_track.
(* every history, from a freshly constructed handler: the automaton never rejects *)
Theorem c15c_dest_order_history : forall cs c0, dhist cs (dst_init c0) None <> None.
Proof. exact dest_order_history. Qed.
Print Assumptions c15c_dest_order_history.

(* ================================================================== non-vacuity and the two corrections: instances evaluated
   by the kernel (vm_compute) in proofs/OrderProofs.v, from freshly constructed handlers:
   src_order_instance (complete unacknowledged transfer: Transaction, EOF-Sent, Transaction-Finished, accepted, idle),
   dst_order_instance (Metadata, two File Data PDUs, EOF: Metadata-Recv, File-Segment-Recv twice, EOF-Recv,
   Transaction-Finished; accepted by dhist, phase None at the end),
   dst_eof_cancel_while_waiting_for_data (an EOF (cancel) PDU while missing data is awaited: EOF-Recv in that call,
   Transaction-Finished in a later call),
   src_eof_sent_after_ignored_fault (F34 repair: a Positive ACK Limit fault with the handler "ignore" is followed, in the
   same call, by the EOF-Sent of the re-sent EOF PDU; fault callbacks do not change the phase, so this is accepted; the
   next call before another expiry delivers nothing),
   dst_finished_again_by_cancel, dst_finished_again_by_ack_limit, src_fault_after_finished (see the header) *)
Print Assumptions src_order_instance.
Print Assumptions dst_order_instance.
Print Assumptions dst_eof_cancel_while_waiting_for_data.
Print Assumptions src_eof_sent_after_ignored_fault.
(* F35 repair: File-Segment-Recv, cancel callback (File Size Error), Transaction-Finished with that condition, one call *)
Print Assumptions dst_cancel_condition_stands.
Print Assumptions dst_finished_again_by_cancel.
Print Assumptions dst_finished_again_by_ack_limit.
Print Assumptions src_fault_after_finished.
