(* Property C12, invariant — once the sender has issued its notice of cancellation (an EOF with a condition other than
   No Error is being exchanged), it never sends NEW file data again, whatever arrives and however long it runs: every
   File Data PDU it still emits (answers to NAKs) lies within the bytes already sent when the cancel took effect, the
   progress never moves, and the transaction stays cancelled until the handler is idle.  Holds for every API call.

   The hypotheses do not assume a reachable state, so "in a cancel exchange" has to say where the state machine is:
   the notice of cancellation leaves the sender waiting for the ACK of the EOF (cancel) or idle; from there it only
   visits the steps from "sending EOF" on, or "retransmitting" with one of those steps to return to.  Without that
   clause the statement is false (a state that claims to be cancelling while its step is "sending file data" sends new
   data: CancelInvProofs.CounterExamples.step_needed).  The clause is part of the conclusion too, so the theorem is
   an inductive invariant and chains over any history of calls.  Two sanity conditions of the same kind: the segment
   length is not negative (configuration; CounterExamples.segment_length_needed) and the segment requests of an
   inbound NAK do not start below zero (unsigned on the wire; CounterExamples.unsigned_offsets_needed). *)
From CFDP Require Import Base LostSeg Fs Handler Dest Source HandlerSpec SourceSpec.
From CFDP.proofs Require Import CancelInvProofs.
From RecordUpdate Require Import RecordSet.
Import RecordSetNotations.

(* the steps that follow the file data phase *)
Definition late_step (st : Z) : Prop := SS_SENDING_EOF <= st <= SS_NOTICE_OF_COMPLETION.
Definition cancel_step (s : src) : Prop :=
  late_step (s_step s) \/
  (s_step s = SS_RETRANSMITTING /\ exists b, s_step_before s = Some b /\ late_step b).
Definition cancelling (s : src) : Prop :=
  s_state s = ST_BUSY /\ (exists c, q_cond_eof (s_p s) = Some c /\ c <> C_NO_ERROR) /\
  cancel_step s /\ 0 <= q_segment_len (s_p s).
Definition fd_within (n : Z) (p : pdu) : Prop :=
  match p with PFileData _ off d => 0 <= off /\ off + zlen d <= n | _ => True end.
(* what the invariant says about a state, relative to the progress [n] at the time of the cancel *)
Definition cancelled_inv (n : Z) (s : src) : Prop :=
  Forall (fd_within n) (s_queue s) /\
  (s_state s = ST_IDLE \/ (cancelling s /\ q_progress (s_p s) = n)).
(* segment requests of an inbound NAK start at or above zero *)
Definition nak_offsets_unsigned (pkt : option pdu) : Prop :=
  match pkt with Some (PNak _ _ _ reqs) => Forall (fun rq => 0 <= fst rq) reqs | _ => True end.

Theorem c12_source_no_new_data_after_cancel : forall (n : Z) (s : src) (pkt : option pdu) (a b : Z),
  cancelling s -> q_progress (s_p s) = n -> Forall (fd_within n) (s_queue s) -> nak_offsets_unsigned pkt ->
  cancelled_inv n (fst (state_machine_s pkt s)) /\
  cancelled_inv n (fst (get_next_packet_s s)) /\
  cancelled_inv n (fst (cancel_request_s a b s)).
Proof. exact source_no_new_data_after_cancel. Qed.
Print Assumptions c12_source_no_new_data_after_cancel.

(* the cancel request establishes the invariant (with c12_source_cancel_ok): the EOF (cancel) it queues is no File Data,
   and the step it leaves is "waiting for EOF ACK" *)
Theorem c12_source_cancel_establishes : forall (s s' : src) (a b : Z),
  s_state s = ST_BUSY -> 0 <= q_segment_len (s_p s) -> Forall (fd_within (q_progress (s_p s))) (s_queue s) ->
  cancel_request_s a b s = (s', Ok true) ->
  cancelled_inv (q_progress (s_p s)) s'.
Proof. exact source_cancel_establishes. Qed.
Print Assumptions c12_source_cancel_establishes.
