(* Property C20 — PDU routing agrees with what each handler accepts.
   Model: Dest.packet_destination over the generated decision list gen/Tables.v (read from
   handler/common.py on every run), the admission checks of both handlers, and
   acknowledge_inactive_eof_pdu.  The quantification is over ALL PDUs (every header, every
   field value) and ALL handler states, which includes the finite space the property names. *)
From CFDP Require Import Base Fs Handler Dest Source.
From CFDP.gen Require Import Tables.
From CFDP.proofs Require Import RouteProofs.

(* the table of the property text: 1 = destination handler, 0 = source handler *)
Definition expected_destination (p : pdu) : option Z :=
  match p with
  | PFileData _ _ _ | PMetadata _ _ _ _ _ _ | PEof _ _ _ _ _ | PPrompt _ _ => Some 1
  | PFinished _ _ _ _ _ | PNak _ _ _ _ | PKeepAlive _ _ => Some 0
  | PAck _ acked _ _ => if acked =? D_FINISHED then Some 1 else if acked =? D_EOF then Some 0 else None
  end.

Theorem c20_route_table : forall p, packet_destination p = expected_destination p.
Proof. exact route_table. Qed.
Print Assumptions c20_route_table.

(* a PDU routed to the source handler is always refused by the destination handler:
   the call raises a library exception and changes nothing *)
Theorem c20_dest_refuses_foreign : forall p s,
  packet_destination p = Some 0 ->
  exists e, Dest.state_machine (Some p) s = (s, Err e) /\
            In e [E_INVALID_DIRECTION; E_INVALID_DEST_ID; E_NO_REMOTE_CFG; E_INVALID_PDU_FOR_DEST].
Proof. exact dest_refuses_foreign. Qed.
Print Assumptions c20_dest_refuses_foreign.

(* a PDU routed to the destination handler is never refused by its admission check
   as belonging to the other side *)
Theorem c20_dest_admits_own : forall p s s',
  packet_destination p = Some 1 -> check_inserted_packet p s <> (s', Err E_INVALID_PDU_FOR_DEST).
Proof. exact dest_admits_own. Qed.
Print Assumptions c20_dest_admits_own.

(* the same for the source handler *)
Theorem c20_source_refuses_foreign : forall p s,
  packet_destination p = Some 1 ->
  exists e, state_machine_s (Some p) s = (s, Err e) /\
            In e [E_INVALID_DIRECTION; E_INVALID_SOURCE_ID; E_NO_REMOTE_CFG; E_INVALID_DEST_ID;
                  E_INVALID_SEQ_NUM; E_INVALID_PDU_FOR_SOURCE].
Proof. exact source_refuses_foreign. Qed.
Print Assumptions c20_source_refuses_foreign.

Theorem c20_source_admits_own : forall p s s',
  packet_destination p = Some 0 -> check_inserted_packet_s p s <> (s', Err E_INVALID_PDU_FOR_SOURCE).
Proof. exact source_admits_own. Qed.
Print Assumptions c20_source_admits_own.

(* admission checks never modify the handler *)
Theorem c20_admission_pure : forall p s sd,
  fst (check_inserted_packet p sd) = sd /\ fst (check_inserted_packet_s p s) = s.
Proof. exact admission_pure. Qed.
Print Assumptions c20_admission_pure.

(* acknowledging an EOF for an inactive transaction *)
Theorem c20_ack_inactive_eof : forall h cond status,
  (status = TS_ACTIVE -> acknowledge_inactive_eof_pdu h cond status = None) /\
  (status <> TS_ACTIVE ->
     acknowledge_inactive_eof_pdu h cond status = Some (PAck (set_dir TOWARDS_SENDER h) D_EOF cond status)).
Proof. exact ack_inactive_eof. Qed.
Print Assumptions c20_ack_inactive_eof.

(* non-vacuity: routed-to-source and routed-to-dest PDUs exist, with a busy handler *)
Example c20_nv : packet_destination (PNak (mkHdr 1 0 false false 1 2 2 0 2) 0 8 [(0, 4)]) = Some 0
              /\ packet_destination (PAck (mkHdr 0 0 false false 1 2 2 0 2) D_FINISHED 0 1) = Some 1.
Proof. vm_compute. split; reflexivity. Qed.
