(* Property C13, closed form — in unacknowledged mode, when the EOF has overtaken file data that then never arrives,
   the receiver re-verifies at each check-timer expiry and declares Check Limit Reached EXACTLY at the L-th expiry, for
   every check limit L >= 1: the first L-1 expiries change nothing but the counter (and log the ignored checksum
   failure), the L-th one cancels the transaction with Check Limit Reached, reports incomplete data to the user and
   (with closure) to the peer, and the handler is idle.  DRAFT: the prover fixes the exact outputs / log after
   evaluating the model. *)
From CFDP Require Import Base LostSeg Fs Crc Checksum Handler Dest HandlerSpec.
From CFDP.proofs Require Import CheckLimitClosedProofs.
From RecordUpdate Require Import RecordSet.
Import RecordSetNotations.

Definition drain_d (s : dst) : dst * list pdu :=
  (s <| d_queue := [] |> <| d_ready := d_ready s - zlen (d_queue s) |>, d_queue s).
Definition expire_d (ms : Z) (s : dst) : dst * res Z (list pdu) :=
  match Dest.state_machine None (s <| d_env ::= (fun e => e <| e_now ::= Z.add ms |>) |>) with
  | (s', Ok _) => let '(s'', ps) := drain_d s' in (s'', Ok ps)
  | (s', Err e) => (s', Err e)
  end.
Fixpoint expires_d (n : nat) (ms : Z) (s : dst) : dst * res Z (list (list pdu)) :=
  match n with
  | O => (s, Ok [])
  | S k => match expire_d ms s with
           | (s', Ok ps) => match expires_d k ms s' with
                            | (s'', Ok rest) => (s'', Ok (ps :: rest))
                            | (s'', Err e) => (s'', Err e)
                            end
           | (s', Err e) => (s', Err e)
           end
  end.

Theorem c13_dest_check_limit_closed : forall (L : nat) (s : dst) (r : rcfg) (a b : Z) (d : bytes) (ck : bytes),
  (1 <= L)%nat -> r_check_limit r = Z.of_nat L -> 0 < l_check_ms (d_cfg s) ->
  d_state s = ST_BUSY -> d_step s = DS_RECV_WITH_CHECK_LIMIT -> d_queue s = [] -> d_ready s = 0 ->
  h_mode (p_conf (d_p s)) = UNACKED -> p_rcfg (d_p s) = Some r -> p_tid (d_p s) = Some (a, b) ->
  p_check_timer (d_p s) = Some (now_d s, l_check_ms (d_cfg s)) -> p_check_count (d_p s) = 0 ->
  p_disp (d_p s) <> DISP_CANCELED -> p_md_only (d_p s) = false ->
  (* the file as it is does not verify, and nothing arrives any more *)
  (p_cktype (d_p s) = CK_CRC32 \/ p_cktype (d_p s) = CK_CRC32C \/ p_cktype (d_p s) = CK_MODULAR) ->
  lookup (fs_d s) (p_file_name (d_p s)) = Some (File d) ->
  calculate_checksum (p_cktype (d_p s)) (Some d) (p_progress (d_p s)) 4096 = Ok ck -> ck <> p_crc32 (d_p s) ->
  get_fault_handler (l_faults (d_cfg s)) C_CHECKSUM_FAILURE = Some FH_IGNORE ->
  get_fault_handler (l_faults (d_cfg s)) C_CHECK_LIMIT = Some FH_CANCEL ->
  let h := set_dir TOWARDS_SENDER (p_conf (d_p s)) in
  let f := p_fin (d_p s) in
  let del := r_disposition r && (f_deliv f =? DATA_INCOMPLETE) in
  let fstatus' := if del then FS_DISCARDED_DELIBERATELY else f_fstatus f in
  let fin := PFinished h C_CHECK_LIMIT (f_deliv f) fstatus' (f_fl f) in
  exists s',
    expires_d L (l_check_ms (d_cfg s)) s =
      (s', Ok (repeat [] (L - 1) ++ [if p_closure (d_p s) then [fin] else []])) /\
    d_state s' = ST_IDLE /\ d_step s' = DS_IDLE /\ d_queue s' = [] /\
    fs_d s' = (if del then fst (fs_delete_file (fs_d s) (p_file_name (d_p s))) else fs_d s) /\
    (l_ind_fin (d_cfg s) = true ->
       exists l, log_d s' = EvFinished a b C_CHECK_LIMIT (f_deliv f) fstatus' (f_fl f) :: l).
Proof. exact dest_check_limit_closed. Qed.
Print Assumptions c13_dest_check_limit_closed.
