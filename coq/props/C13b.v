(* Property C13, closed form — in unacknowledged mode, when the EOF has overtaken file data that then never arrives,
   the receiver re-verifies at each check-timer expiry and declares Check Limit Reached EXACTLY at the L-th expiry, for
   every check limit L >= 1.
   - Expiries 1 .. L-1 (first conjunct, for every k < L): nothing is sent and nothing changes but the counter (= k), the
     restarted timer, the clock and the log, which gets one callback of the ignored checksum failure per expiry (each
     expiry re-verifies the file).
   - The L-th expiry (second conjunct) re-verifies once more (L ignored-checksum-failure callbacks in all), declares
     Check Limit Reached (handler CANCEL, its callback logged) and the SAME call completes the cancelled transaction:
     Transaction-Finished (if enabled) with Check Limit Reached, incomplete data and the file status; the incomplete file
     is deleted iff the remote configuration says disposition-on-cancellation (file status then Discarded Deliberately);
     the Finished PDU is queued iff closure was requested; and the handler is idle with fresh transaction fields also in
     the closure case: unacknowledged mode has no Finished-ACK procedure, the PDU is retrieved from an idle handler.
   The delivery code of such a state is DATA_INCOMPLETE (hypothesis; it holds in every state reached by an EOF whose
   checksum did not verify; proofs/CheckLimitClosedProofs.v has the form without it, [dest_check_limit_closed_gen], and
   evaluated instances from a fresh handler). *)
From CFDP Require Import Base LostSeg Fs Crc Checksum Handler Dest HandlerSpec.
From CFDP.proofs Require Import CheckLimitClosedProofs.
From RecordUpdate Require Import RecordSet.
Import RecordSetNotations.

Definition drain_d (s : dst) : dst * list pdu :=
  (s <| d_queue := [] |> <| d_ready := d_ready s - zlen (d_queue s) |>, d_queue s).
Definition expire_d (ms : Z) (s : dst) : dst * res Z (list pdu) :=
  match Dest.state_machine None (s <| d_env ::= (fun e => e <| e_now ::= Z.add ms |>) |>) with
  | (s', Ok _) => let '(s'', ps) := drain_d s' in (s'', Ok ps)
  | (s', Err e) => (s', Err e)
  end.
Fixpoint expires_d (n : nat) (ms : Z) (s : dst) : dst * res Z (list (list pdu)) :=
  match n with
  | O => (s, Ok [])
  | S k => match expire_d ms s with
           | (s', Ok ps) => match expires_d k ms s' with
                            | (s'', Ok rest) => (s'', Ok (ps :: rest))
                            | (s'', Err e) => (s'', Err e)
                            end
           | (s', Err e) => (s', Err e)
           end
  end.

Theorem c13_dest_check_limit_closed : forall (L : nat) (s : dst) (r : rcfg) (a b : Z) (d : bytes) (ck : bytes),
  (1 <= L)%nat -> r_check_limit r = Z.of_nat L ->
  d_state s = ST_BUSY -> d_step s = DS_RECV_WITH_CHECK_LIMIT -> d_queue s = [] -> d_ready s = 0 ->
  h_mode (p_conf (d_p s)) = UNACKED -> p_rcfg (d_p s) = Some r -> p_tid (d_p s) = Some (a, b) ->
  p_check_timer (d_p s) = Some (now_d s, l_check_ms (d_cfg s)) -> p_check_count (d_p s) = 0 ->
  p_md_only (d_p s) = false -> f_deliv (p_fin (d_p s)) = DATA_INCOMPLETE ->
  (* the file as it is does not verify, and nothing arrives any more *)
  p_cktype (d_p s) <> CK_NULL ->
  lookup (fs_d s) (p_file_name (d_p s)) = Some (File d) ->
  calculate_checksum (p_cktype (d_p s)) (Some d) (p_progress (d_p s)) 4096 = Ok ck -> ck <> p_crc32 (d_p s) ->
  get_fault_handler (l_faults (d_cfg s)) C_CHECKSUM_FAILURE = Some FH_IGNORE ->
  get_fault_handler (l_faults (d_cfg s)) C_CHECK_LIMIT = Some FH_CANCEL ->
  let ms := l_check_ms (d_cfg s) in
  let h := set_dir TOWARDS_SENDER (p_conf (d_p s)) in
  let f := p_fin (d_p s) in
  let fstatus' := if r_disposition r then FS_DISCARDED_DELIBERATELY else f_fstatus f in
  let fin := PFinished h C_CHECK_LIMIT DATA_INCOMPLETE fstatus' (f_fl f) in
  let ign := EvFault FH_IGNORE a b C_CHECKSUM_FAILURE (p_progress (d_p s)) in
  (* expiries 1 .. L-1 only count *)
  (forall k, (k < L)%nat ->
     expires_d k ms s =
       (s <| d_p ::= (fun p => p <| p_check_count := Z.of_nat k |>
                                 <| p_check_timer := Some (now_d s + Z.of_nat k * ms, ms) |>) |>
          <| d_env ::= (fun e => e <| e_now := now_d s + Z.of_nat k * ms |> <| e_log := repeat ign k ++ log_d s |>) |>,
        Ok (repeat [] k))) /\
  (* the L-th declares Check Limit Reached and completes the cancelled transaction *)
  exists s',
    expires_d L ms s = (s', Ok (repeat [] (L - 1) ++ [if p_closure (d_p s) then [fin] else []])) /\
    d_state s' = ST_IDLE /\ d_step s' = DS_IDLE /\ d_queue s' = [] /\ d_ready s' = 0 /\ d_p s' = fresh_params /\
    d_cfg s' = d_cfg s /\ now_d s' = now_d s + Z.of_nat L * ms /\
    fs_d s' = (if r_disposition r then fst (fs_delete_file (fs_d s) (p_file_name (d_p s))) else fs_d s) /\
    log_d s' = (if l_ind_fin (d_cfg s) then [EvFinished a b C_CHECK_LIMIT DATA_INCOMPLETE fstatus' (f_fl f)] else []) ++
               EvFault FH_CANCEL a b C_CHECK_LIMIT (p_progress (d_p s)) :: repeat ign L ++ log_d s.
Proof. exact dest_check_limit_closed. Qed.
Print Assumptions c13_dest_check_limit_closed.
