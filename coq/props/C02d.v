(* Property C02, unbounded part, EVERY destination path shape — a transfer over a fault-free link completes, for EVERY
   file and configuration (as props/C02u.v, C02c.v, C02a.v), for EVERY filestore of the receiving entity and every
   destination path that the receiver can write: an existing regular file anywhere in the tree (truncated and
   overwritten), an existing directory (the file goes to directory/basename(source), existing or not), an absent name
   whose parent directory exists at any depth.  The verdict is the whole of C02 ([fault_free_ok]: the destination holds
   a byte-identical copy at the resolved path, exactly one successful Transaction-Finished on each side, no fault
   callback, no raising API call), and every other path of the destination tree keeps its node ([frame_ok]).
   [c02d_shapes] / [c02d_shapes_complete]: the three shapes are exactly the writable destinations.
   PerfectLinkShapesProofs.Examples: every shape on a small tree in all modes; without [dest_writable] the transfer
   fails (or, with the NULL checksum, "succeeds" without a file). *)
From CFDP Require Import Base LostSeg Fs Crc Checksum Handler Dest Source SourceSpec System.
From CFDP.proofs Require Import PerfectLinkShapesProofs.
From RecordUpdate Require Import RecordSet.
Import RecordSetNotations.

(* System.transfer with the receiver started on the filestore [t0] (System.transfer starts it on the empty one) *)
Definition dst_init_fs (cd : lcfg) (t0 : tree) : dst :=
  dst_init cd <| d_env ::= (fun e => e <| e_fs := t0 |>) |>.

Definition transfer_fs (cs cd : lcfg) (seq0 bits : Z) (p : putreq) (sn : path) (data : bytes) (t0 : tree)
           (faults : list fault) (fuel : nat) (tick : Z) : sys * bool :=
  let y0 := sys_init cs cd seq0 bits sn data faults <| y_dst := dst_init_fs cd t0 |> in
  let '(s1, r) := put_request p (y_src y0) in
  run fuel tick (y0 <| y_src := s1 |>).

Theorem c02d_transfer_fs_empty : forall cs cd seq0 bits p sn data faults fuel tick,
  transfer_fs cs cd seq0 bits p sn data [] faults fuel tick = transfer cs cd seq0 bits p sn data faults fuel tick.
Proof. exact transfer_fs_empty. Qed.
Print Assumptions c02d_transfer_fs_empty.

(* the name of the destination file (dest.py _init_vfs_handling: a directory is completed with the base name of the
   source path) and the condition under which it can be written (both as in props/C06c.v) *)
Definition dest_name (fs : tree) (sn dn : path) : path :=
  if fs_is_directory fs dn then (match rev sn with b :: _ => dn ++ [b] | [] => dn end) else dn.
Definition dest_writable (fs : tree) (p : path) : Prop :=
  (exists d, lookup fs p = Some (File d)) \/ (lookup fs p = None /\ parent_is_dir fs p = true).

(* every other path of the destination tree keeps its node *)
Definition frame_ok (t0 t : tree) (fn : path) : Prop := forall q, q <> fn -> lookup t q = lookup t0 q.

(* ------------------------------------------------------------------ the shapes *)
(* (i) the destination names an existing regular file (any content, anywhere in the tree) *)
Theorem c02d_shape_existing_file : forall t0 sn dn old, lookup t0 dn = Some (File old) ->
  dest_name t0 sn dn = dn /\ dest_writable t0 (dest_name t0 sn dn).
Proof. exact shape_existing_file. Qed.
Print Assumptions c02d_shape_existing_file.

(* (ii) the destination names an existing directory (the root included: dn = []): the file is directory/basename(source),
   whether it exists or not - unless that name is itself a directory *)
Theorem c02d_shape_directory : forall t0 sn dn, sn <> [] -> is_dir t0 dn = true ->
  lookup t0 (dn ++ [last sn 0]) <> Some Dir ->
  dest_name t0 sn dn = dn ++ [last sn 0] /\ dest_writable t0 (dest_name t0 sn dn).
Proof. exact shape_directory. Qed.
Print Assumptions c02d_shape_directory.

(* (iii) the destination is absent and its parent directory exists (at any depth) *)
Theorem c02d_shape_absent : forall t0 sn dn, lookup t0 dn = None -> is_dir t0 (parent dn) = true ->
  dest_name t0 sn dn = dn /\ dest_writable t0 (dest_name t0 sn dn).
Proof. exact shape_absent. Qed.
Print Assumptions c02d_shape_absent.

(* there is no other writable destination *)
Theorem c02d_shapes_complete : forall t0 sn dn, sn <> [] -> dest_writable t0 (dest_name t0 sn dn) ->
  (exists old, lookup t0 dn = Some (File old)) \/
  (is_dir t0 dn = true /\ lookup t0 (dn ++ [last sn 0]) <> Some Dir) \/
  (lookup t0 dn = None /\ is_dir t0 (parent dn) = true).
Proof. exact shapes_complete. Qed.
Print Assumptions c02d_shapes_complete.

(* what the verdict says *)
Theorem c02d_fault_free_ok_spec : forall fn data res, fault_free_ok fn data res = true ->
  delivered_ok fn data res = true /\ y_errs (fst res) = [] /\
  existsb fault_event (e_log (s_env (y_src (fst res)))) = false /\
  existsb fault_event (e_log (d_env (y_dst (fst res)))) = false /\
  zlen (filter success_event (e_log (d_env (y_dst (fst res))))) = 1.
Proof. exact fault_free_ok_spec. Qed.
Print Assumptions c02d_fault_free_ok_spec.

(* ------------------------------------------------------------------ unacknowledged mode without closure *)
Theorem c02d_unacked_perfect_link :
  forall (cs cd : lcfg) (seq0 bits : Z) (p : putreq) (rs rd : rcfg) (sn dn : path) (data : bytes) (t0 : tree) (tick : Z),
  let w := Z.max (l_idw cs) (pr_dstw p) in
  let large := 4294967295 <? zlen data in
  let derived := r_max_packet rs - (4 + 2 * w + bits / 8) - (if large then 8 else 4) - (if r_crc rs then 2 else 0) in
  let seg := match r_max_seg rs with Some m => Z.min m derived | None => derived end in
  let fn := dest_name t0 sn dn in
  (* sender side: as props/C02u.v *)
  get_remote (l_remotes cs) (pr_dst p) = Some rs ->
  pr_names p = Some (sn, dn) -> sn <> [] -> pr_msgs p = None ->
  (match pr_mode p with Some m => m | None => r_mode rs end) = UNACKED ->
  (match pr_closure p with Some b => b | None => r_closure rs end) = false ->
  (bits = 8 \/ bits = 16 \/ bits = 32) -> 0 <= seq0 < 2 ^ bits -> 1 <= seg -> 6 <= derived ->
  (r_cktype rs = CK_CRC32 \/ r_cktype rs = CK_CRC32C \/ r_cktype rs = CK_NULL \/ r_cktype rs = CK_MODULAR) ->
  (* receiver side: entity cd is the addressed entity and knows the sender; its filestore is t0 and the destination
     can be written *)
  l_id cd = pr_dst p -> get_remote (l_remotes cd) (l_id cs) = Some rd ->
  dest_writable t0 fn ->
  l_ind_fin cs = true -> l_ind_fin cd = true ->
  exists fuel,
    let res := transfer_fs cs cd seq0 bits p sn data t0 [] fuel tick in
    fault_free_ok fn data res = true /\ frame_ok t0 (e_fs (d_env (y_dst (fst res)))) fn.
Proof. exact U.unacked_perfect_link_fs. Qed.
Print Assumptions c02d_unacked_perfect_link.

(* ------------------------------------------------------------------ unacknowledged mode with closure *)
Theorem c02d_closure_perfect_link :
  forall (cs cd : lcfg) (seq0 bits : Z) (p : putreq) (rs rd : rcfg) (sn dn : path) (data : bytes) (t0 : tree) (tick : Z),
  let w := Z.max (l_idw cs) (pr_dstw p) in
  let large := 4294967295 <? zlen data in
  let derived := r_max_packet rs - (4 + 2 * w + bits / 8) - (if large then 8 else 4) - (if r_crc rs then 2 else 0) in
  let seg := match r_max_seg rs with Some m => Z.min m derived | None => derived end in
  let fn := dest_name t0 sn dn in
  (* sender side: as props/C02c.v (positive check-timer interval) *)
  get_remote (l_remotes cs) (pr_dst p) = Some rs ->
  pr_names p = Some (sn, dn) -> sn <> [] -> pr_msgs p = None ->
  (match pr_mode p with Some m => m | None => r_mode rs end) = UNACKED ->
  (match pr_closure p with Some b => b | None => r_closure rs end) = true ->
  0 < l_check_ms cs ->
  (bits = 8 \/ bits = 16 \/ bits = 32) -> 0 <= seq0 < 2 ^ bits -> 1 <= seg -> 6 <= derived ->
  (r_cktype rs = CK_CRC32 \/ r_cktype rs = CK_CRC32C \/ r_cktype rs = CK_NULL \/ r_cktype rs = CK_MODULAR) ->
  l_id cd = pr_dst p -> get_remote (l_remotes cd) (l_id cs) = Some rd ->
  dest_writable t0 fn ->
  l_ind_fin cs = true -> l_ind_fin cd = true ->
  exists fuel,
    let res := transfer_fs cs cd seq0 bits p sn data t0 [] fuel tick in
    fault_free_ok fn data res = true /\ frame_ok t0 (e_fs (d_env (y_dst (fst res)))) fn.
Proof. exact C.closure_perfect_link_fs. Qed.
Print Assumptions c02d_closure_perfect_link.

(* ------------------------------------------------------------------ acknowledged mode (closure requested or not) *)
Theorem c02d_acked_perfect_link :
  forall (cs cd : lcfg) (seq0 bits : Z) (p : putreq) (rs rd : rcfg) (sn dn : path) (data : bytes) (t0 : tree) (tick : Z),
  let w := Z.max (l_idw cs) (pr_dstw p) in
  let large := 4294967295 <? zlen data in
  let derived := r_max_packet rs - (4 + 2 * w + bits / 8) - (if large then 8 else 4) - (if r_crc rs then 2 else 0) in
  let seg := match r_max_seg rs with Some m => Z.min m derived | None => derived end in
  let fn := dest_name t0 sn dn in
  (* sender side: as props/C02a.v (positive Positive-ACK timer intervals on both sides) *)
  get_remote (l_remotes cs) (pr_dst p) = Some rs ->
  pr_names p = Some (sn, dn) -> sn <> [] -> pr_msgs p = None ->
  (match pr_mode p with Some m => m | None => r_mode rs end) = ACKED ->
  0 < r_ack_ms rs -> 0 < r_ack_ms rd ->
  (bits = 8 \/ bits = 16 \/ bits = 32) -> 0 <= seq0 < 2 ^ bits -> 1 <= seg -> 6 <= derived ->
  (r_cktype rs = CK_CRC32 \/ r_cktype rs = CK_CRC32C \/ r_cktype rs = CK_NULL \/ r_cktype rs = CK_MODULAR) ->
  l_id cd = pr_dst p -> get_remote (l_remotes cd) (l_id cs) = Some rd ->
  dest_writable t0 fn ->
  l_ind_fin cs = true -> l_ind_fin cd = true ->
  exists fuel,
    let res := transfer_fs cs cd seq0 bits p sn data t0 [] fuel tick in
    fault_free_ok fn data res = true /\ frame_ok t0 (e_fs (d_env (y_dst (fst res)))) fn.
Proof. exact A.acked_perfect_link_fs. Qed.
Print Assumptions c02d_acked_perfect_link.

(* ------------------------------------------------------------------ non-vacuity and necessity (kernel-evaluated runs) *)
Print Assumptions Examples.shape_existing_file.
Print Assumptions Examples.shape_existing_file_root.
Print Assumptions Examples.shape_directory_file_exists.
Print Assumptions Examples.shape_directory_fresh.
Print Assumptions Examples.shape_root_directory.
Print Assumptions Examples.shape_absent_deep.
Print Assumptions Examples.shape_absent_root.
Print Assumptions Examples.shape_empty_file.
Print Assumptions Examples.parent_missing_crc.
Print Assumptions Examples.parent_missing_null.
Print Assumptions Examples.parent_is_file.
Print Assumptions Examples.basename_is_directory.
