(* Property C01, receiver side, over the WHOLE state machine — a successful Transaction-Finished indication and a
   successful Finished PDU are only ever produced from a state in which the destination file verifies against the
   checksum and size the transaction recorded from the EOF PDU (or the transaction is metadata-only / null checksum),
   for every PDU, every state satisfying the invariant and hence every history of calls: whatever was lost,
   duplicated, reordered, delayed, corrupted or rejected before.

   Shape: every busy call is  before_completion ;;; completion_clause ;;; after_completion  (c01_call_split, by
   computation); the invariant c01_inv holds initially, is preserved by every API call and by before_completion;
   only completion_clause can log a successful Transaction-Finished or (with after_completion) queue a successful
   Finished PDU, and it does so only if the state it starts from is verified; after_completion never touches the file. *)
From CFDP Require Import Base LostSeg Fs Crc Checksum Handler Dest HandlerSpec.
From CFDP.proofs Require Import SuccessInvProofs.
From RecordUpdate Require Import RecordSet.
Import RecordSetNotations.

Definition verified (s : dst) : Prop :=
  let p := d_p s in
  p_md_only p = true \/ p_cktype p = CK_NULL \/
  exists d, lookup (fs_d s) (p_file_name p) = Some (File d) /\
            calculate_checksum (p_cktype p) (Some d) (p_progress p) 4096 = Ok (p_crc32 p).

(* The invariant.  First conjunct: "data complete" is recorded only for a file that verifies as it is now.  Alone it
   is not inductive (CounterExamples.late_step_needed in proofs/SuccessInvProofs.v: a state recording "data complete"
   while still receiving file data satisfies it, and the next File Data PDU overwrites the file); the two further
   conjuncts are the facts about reachable states that make it so:
   - second conjunct: "data complete" is recorded only for a metadata-only transaction (no file; the flag is never
     cleared during a transaction) or while the step is one of TRANSFER_COMPLETION / SENDING_FINISHED /
     WAITING_FOR_FINISHED_ACK.  In those steps no call writes the file or changes the recorded checksum type,
     checksum, progress or file name (a Metadata, File Data or EOF PDU is only handled in earlier steps), and the file
     is deleted only for "data incomplete".  Every caller of checksum_verify moves to TRANSFER_COMPLETION in the
     same call (EOF in unacknowledged mode, check-limit expiry, end of the deferred lost-segment procedure, leaving
     SENDING_EOF_ACK); an idle handler has fresh parameters ("data incomplete").
   - third conjunct: the check-limit step is only entered by a busy handler in unacknowledged mode (the check timer is
     started by an EOF in unacknowledged mode only; mode and state are fixed by the first PDU).  Needed because a
     successful verification at check-limit expiry moves an unacknowledged transfer to TRANSFER_COMPLETION but an
     acknowledged one back to SENDING_EOF_ACK, from where missing data would be requested and written
     (CounterExamples.unacked_check_limit_needed). *)
Definition c01_inv (s : dst) : Prop :=
  (f_deliv (p_fin (d_p s)) = DATA_COMPLETE -> verified s) /\
  (f_deliv (p_fin (d_p s)) = DATA_COMPLETE ->
     p_md_only (d_p s) = true \/ d_step s = DS_TRANSFER_COMPLETION \/ d_step s = DS_SENDING_FINISHED \/
     d_step s = DS_WAITING_FOR_FINISHED_ACK) /\
  (d_step s = DS_RECV_WITH_CHECK_LIMIT -> d_state s <> ST_IDLE /\ h_mode (p_conf (d_p s)) = UNACKED).

(* the three parts of one busy call (text of Dest.non_idle_fsm) *)
Definition before_completion (pkt : option pdu) : D unit :=
  fsm_advancement ;;;
  st <- get_step ;;
  when (((st =? DS_RECEIVING_FILE_DATA) || (st =? DS_RECV_WITH_CHECK_LIMIT)))
    (match pkt with
     | Some (PFileData _ off data) => handle_fd_pdu off data
     | Some (PEof _ cond ck sz _) => handle_eof_pdu cond ck sz
     | _ => ret tt
     end) ;;;
  b <- step_is DS_WAITING_FOR_METADATA ;;
  when b (handle_waiting_for_missing_metadata pkt ;;; deferred_lost_segment_handling) ;;;
  b <- step_is DS_RECV_WITH_CHECK_LIMIT ;;
  when b check_limit_handling ;;;
  b <- step_is DS_WAITING_FOR_MISSING_DATA ;;
  when b
    ((match pkt with
      | Some (PEof _ cond ck sz _) =>
          if cond =? C_NO_ERROR then prepare_eof_ack_packet
          else (setp (fun p => p <| p_deferred := false |>) ;;; handle_eof_pdu cond ck sz)
      | _ => ret tt
      end) ;;;
     (match pkt with
      | Some (PFileData _ off data) =>
          handle_fd_pdu off data ;;;
          active <- gp p_deferred ;;
          when active reset_nak_activity_parameters
      | _ => ret tt
      end) ;;;
     deferred_lost_segment_handling).
Definition completion_clause : D unit :=
  b <- step_is DS_TRANSFER_COMPLETION ;;
  when b handle_transfer_completion.
Definition after_completion (fuel : nat) (pkt : option pdu) : D unit :=
  b <- step_is DS_SENDING_FINISHED ;;
  when b (n <- gets d_ready ;;
          if 0 <? n then ret tt else (prepare_finished_pdu ;;; handle_finished_pdu_sent)) ;;;
  b <- step_is DS_WAITING_FOR_FINISHED_ACK ;;
  when b
    (handle_waiting_for_finished_ack
       (match fuel with
        | O => raise E_FUEL
        | S k => catch_abandoned (s <- get ;; when (d_state s =? ST_BUSY) (non_idle_fsm k None))
        end) pkt).

Theorem c01_call_split : forall fuel pkt s,
  non_idle_fsm fuel pkt s = (before_completion pkt ;;; completion_clause ;;; after_completion fuel pkt) s.
Proof. exact call_split. Qed.
Print Assumptions c01_call_split.

(* the invariant: initially, and across every API call *)
Theorem c01_inv_init : forall c, c01_inv (dst_init c).
Proof. exact inv_init. Qed.
Theorem c01_inv_api : forall pkt a b s,
  c01_inv s ->
  c01_inv (fst (Dest.state_machine pkt s)) /\ c01_inv (fst (Dest.cancel_request a b s)) /\
  c01_inv (fst (Dest.get_next_packet s)) /\ c01_inv (fst (Dest.reset s)).
Proof. exact inv_api. Qed.
Print Assumptions c01_inv_api.

(* ... and at the point inside a call where the completion clause runs: after the admission check, after the handling
   of a first PDU by an idle handler, and after everything a busy call does before the completion clause *)
Theorem c01_inv_reaches_completion : forall pkt p s,
  c01_inv s ->
  c01_inv (fst (check_inserted_packet p s)) /\ c01_inv (fst (idle_fsm pkt s)) /\ c01_inv (fst (before_completion pkt s)).
Proof. exact inv_reaches_completion. Qed.
Print Assumptions c01_inv_reaches_completion.

Definition success (e : event) : Prop :=
  exists a b fs fl, e = EvFinished a b C_NO_ERROR DATA_COMPLETE fs fl.
Definition success_pdu (p : pdu) : Prop :=
  exists h fs fl, p = PFinished h C_NO_ERROR DATA_COMPLETE fs fl.

(* the completion clause reports success only from a verified state, and leaves that file as it is *)
Theorem c01_completion_success_is_verified : forall s s' r l,
  c01_inv s -> completion_clause s = (s', r) -> log_d s' = l ++ log_d s ->
  (forall e, In e l -> success e -> verified s /\ lookup (fs_d s') (p_file_name (d_p s)) = lookup (fs_d s) (p_file_name (d_p s))) /\
  (f_cond (p_fin (d_p s')) = C_NO_ERROR -> f_deliv (p_fin (d_p s')) = DATA_COMPLETE -> d_state s' = ST_BUSY ->
     verified s /\ fs_d s' = fs_d s).
Proof. exact completion_success_is_verified. Qed.
Print Assumptions c01_completion_success_is_verified.

(* nothing else in a call logs a successful Transaction-Finished *)
Theorem c01_only_completion_logs_success : forall pkt p fuel s,
  (forall l, log_d (fst (check_inserted_packet p s)) = l ++ log_d s -> forall e, In e l -> ~ success e) /\
  (forall l, log_d (fst (idle_fsm pkt s)) = l ++ log_d s -> forall e, In e l -> ~ success e) /\
  (forall l, log_d (fst (before_completion pkt s)) = l ++ log_d s -> forall e, In e l -> ~ success e) /\
  (c01_inv s -> forall l, log_d (fst (after_completion fuel pkt s)) = l ++ log_d s -> forall e, In e l -> ~ success e).
Proof. exact only_completion_logs_success. Qed.
Print Assumptions c01_only_completion_logs_success.

(* the Finished PDU is built from the recorded completion values and the file is not touched after completion:
   a successful Finished PDU queued by after_completion comes from a state whose file verifies *)
Theorem c01_success_pdu_is_verified : forall fuel pkt s s' r p,
  c01_inv s -> after_completion fuel pkt s = (s', r) -> In p (d_queue s') -> ~ In p (d_queue s) -> success_pdu p ->
  verified s /\ fs_d s' = fs_d s.
Proof. exact success_pdu_is_verified. Qed.
Print Assumptions c01_success_pdu_is_verified.
