(* Property C11 — Transactions are isolated from earlier transactions and other handler instances.
   Model level: handlers are values, so instance isolation holds by construction (no state is shared between
   two handler values; the part the code can violate - shared mutable defaults - is what bin/check C11 tests).
   What is proved here: an idle handler carries no trace of earlier transactions in its per-transaction
   parameter block, for every history. *)
From CFDP Require Import Base LostSeg Fs Handler Dest Source HandlerSpec.
From CFDP.proofs Require Import IsolationProofs.
From RecordUpdate Require Import RecordSet.
Import RecordSetNotations.

(* receiver: whenever the handler is idle its parameter block is the freshly constructed one *)
Definition dest_idle_fresh (s : dst) : Prop := d_state s = ST_IDLE -> d_p s = fresh_params.

Theorem c11_dest_idle_fresh_init : forall c, dest_idle_fresh (dst_init c).
Proof. exact dest_idle_fresh_init. Qed.
Theorem c11_dest_idle_fresh_preserved : forall pkt s a b,
  dest_idle_fresh s ->
  dest_idle_fresh (fst (Dest.state_machine pkt s)) /\ dest_idle_fresh (fst (Dest.get_next_packet s)) /\
  dest_idle_fresh (fst (Dest.cancel_request a b s)) /\ dest_idle_fresh (fst (Dest.reset s)).
Proof. exact dest_idle_fresh_preserved. Qed.
Print Assumptions c11_dest_idle_fresh_preserved.

(* a new transaction at the receiver starts from fresh parameters whatever was there before *)
Theorem c11_dest_start_ignores_old_params : forall s h cl ck sz names msgs p1 p2,
  d_state s = ST_IDLE ->
  start_transaction h cl ck sz names msgs (s <| d_p := p1 |>) = start_transaction h cl ck sz names msgs (s <| d_p := p2 |>).
Proof. exact dest_start_ignores_old_params_partial. Qed.
Print Assumptions c11_dest_start_ignores_old_params.

(* sender: whenever the handler is idle its parameter block is the constructor's or the reset one
   (they differ only in the source id of the header template, which every transaction start overwrites) *)
Definition source_idle_fresh (s : src) : Prop :=
  s_state s = ST_IDLE -> s_p s = reset_sparams \/ s_p s = init_sparams (s_cfg s) \/
                         (exists r, s_p s = reset_sparams <| q_rcfg := r |>) \/
                         (exists r, s_p s = (init_sparams (s_cfg s)) <| q_rcfg := r |>).

Theorem c11_source_idle_fresh_init : forall c seq0 bits, source_idle_fresh (src_init c seq0 bits).
Proof. exact source_idle_fresh_init. Qed.
Theorem c11_source_idle_fresh_preserved : forall pkt s a b p,
  source_idle_fresh s ->
  source_idle_fresh (fst (state_machine_s pkt s)) /\ source_idle_fresh (fst (get_next_packet_s s)) /\
  source_idle_fresh (fst (cancel_request_s a b s)) /\ source_idle_fresh (fst (reset_s s)) /\
  source_idle_fresh (fst (put_request p s)).
Proof. exact source_idle_fresh_preserved. Qed.
Print Assumptions c11_source_idle_fresh_preserved.

(* the header template left over from construction or reset is irrelevant: transaction start overwrites it *)
Theorem c11_source_start_ignores_template : forall s c1 c2 s',
  sc_mode c1 = sc_mode c2 -> sc_large c1 = sc_large c2 ->
  transaction_start (s <| s_p ::= (fun q => q <| q_conf := c1 |>) |>) = (s', Ok tt) ->
  transaction_start (s <| s_p ::= (fun q => q <| q_conf := c2 |>) |>) = (s', Ok tt).
Proof. exact source_start_ignores_template_partial. Qed.
Print Assumptions c11_source_start_ignores_template.
