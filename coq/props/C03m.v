(* Property C03, unbounded instance K = 1 — acknowledged mode recovers from the loss of the METADATA PDU, for EVERY
   file and every configuration, immediate or deferred NAK mode (the two-handler system System.v; the fault schedule
   drops the PDU with index 0 on the sender-to-receiver direction).  The receiver starts the transaction from the
   first File Data PDU (or from the EOF for an empty file), requests the Metadata with the segment request (0,0),
   the sender retransmits it, the data received so far is requested again (it could not be stored without a file
   name), the transfer completes. *)
From CFDP Require Import Base LostSeg Fs Crc Checksum Handler Dest Source SourceSpec System.
From CFDP.proofs Require Import MetadataLossProofs.

Theorem c03_metadata_loss :
  forall (cs cd : lcfg) (seq0 bits : Z) (p : putreq) (rs rd : rcfg) (sn dn : path) (data : bytes) (tick : Z),
  let w := Z.max (l_idw cs) (pr_dstw p) in
  let large := 4294967295 <? zlen data in
  let derived := r_max_packet rs - (4 + 2 * w + bits / 8) - (if large then 8 else 4) - (if r_crc rs then 2 else 0) in
  let seg := match r_max_seg rs with Some m => Z.min m derived | None => derived end in
  (* sender side: entity cs sends to the entity named by the request; acknowledged mode *)
  get_remote (l_remotes cs) (pr_dst p) = Some rs ->
  pr_names p = Some (sn, dn) -> sn <> [] -> dn <> [] -> pr_msgs p = None ->
  (match pr_mode p with Some m => m | None => r_mode rs end) = ACKED ->
  (* limits exceed the number of faults (K = 1) *)
  2 <= r_ack_limit rs -> 2 <= r_ack_limit rd -> 2 <= r_nak_limit rd -> 0 < tick -> 0 < r_nak_ms rd ->
  (* the maximum packet length the receiver has configured for the sender has room for the fixed part of a NAK PDU
     (header, directive code, start and end of scope, CRC): the deferred lost-segment procedure sizes its NAK PDUs
     with it and raises ValueError otherwise — the receiver then never requests the missing data
     (counterexample: MetadataLossProofs.max_packet_counterexample) *)
  4 + 2 * w + bits / 8 + 1 + (if r_crc rs then 2 else 0) + 2 * (if large then 8 else 4) <= r_max_packet rd ->
  (* the Positive-ACK timer intervals of both entities are positive: with an interval <= 0 the timer has expired in
     the very call that starts it (sender: Positive ACK Limit fault when the limit is 1; receiver: a second Finished
     PDU is prepared before the first was retrieved -> UnretrievedPdusToBeSent) *)
  0 < r_ack_ms rs -> 0 < r_ack_ms rd ->
  (bits = 8 \/ bits = 16 \/ bits = 32) -> 0 <= seq0 < 2 ^ bits -> 1 <= seg -> 6 <= derived ->
  (r_cktype rs = CK_CRC32 \/ r_cktype rs = CK_CRC32C \/ r_cktype rs = CK_NULL \/ r_cktype rs = CK_MODULAR) ->
  bytes_ok data = true ->
  (* receiver side: entity cd is the addressed entity and knows the sender; the destination path is a fresh file name
     directly under the root of an empty filestore *)
  l_id cd = pr_dst p -> get_remote (l_remotes cd) (l_id cs) = Some rd -> length dn = 1%nat ->
  get_fault_handler (l_faults cd) C_CHECKSUM_FAILURE <> None ->
  l_ind_fin cs = true -> l_ind_fin cd = true ->
  exists fuel,
    let res := transfer cs cd seq0 bits p sn data [mkFault 0 0 0 0] fuel tick in
    delivered_ok dn data res = true /\ y_errs (fst res) = [].
Proof. exact metadata_loss. Qed.
Print Assumptions c03_metadata_loss.
