(* Property C15 — User indications are faithful, causally ordered and gated by configuration.
   Model: the event log of Dest.v / Source.v (every user callback appends one event).
   The gating theorems hold for every call on every state, hence for every history. *)
From CFDP Require Import Base LostSeg Fs Handler Dest Source HandlerSpec.
From CFDP.proofs Require Import IndicationProofs.
From RecordUpdate Require Import RecordSet.
Import RecordSetNotations.

(* an indication is admissible under a local configuration iff its switch is on (Transaction,
   Metadata-Recv and the fault callbacks have no switch) *)
Definition gated (c : lcfg) (e : event) : bool :=
  match e with
  | EvEofSent _ _ => l_ind_eof_sent c
  | EvEofRecv _ _ => l_ind_eof_recv c
  | EvSegmentRecv _ _ _ _ => l_ind_seg c
  | EvFinished _ _ _ _ _ _ => l_ind_fin c
  | _ => true
  end.
(* the log only grows at its head: new events of a call = the prefix *)
Definition extends {A} (l' l : list A) : Prop := exists new, l' = new ++ l.

(* disabled indications are never delivered: every event any call adds is gated *)
Theorem c15_dest_gated : forall pkt s,
  exists new, log_d (fst (Dest.state_machine pkt s)) = new ++ log_d s /\ forallb (gated (d_cfg s)) new = true.
Proof. exact dest_gated. Qed.
Print Assumptions c15_dest_gated.
Theorem c15_source_gated : forall pkt s,
  exists new, log_s (fst (state_machine_s pkt s)) = new ++ log_s s /\ forallb (gated (s_cfg s)) new = true.
Proof. exact source_gated. Qed.
Print Assumptions c15_source_gated.
Theorem c15_cancel_gated : forall a b s sd,
  (exists new, log_s (fst (cancel_request_s a b s)) = new ++ log_s s /\ forallb (gated (s_cfg s)) new = true) /\
  log_d (fst (Dest.cancel_request a b sd)) = log_d sd.
Proof. exact cancel_gated. Qed.
Print Assumptions c15_cancel_gated.

(* Metadata-Recv carries the names, the size (None without a source name) and the user messages of the Metadata PDU *)
Theorem c15_metadata_params : forall h cl ck sz names msgs s a b s',
  p_tid (d_p s) = Some (a, b) -> handle_metadata_packet h cl ck sz names msgs s = (s', Ok tt) ->
  exists evs, log_d s' = EvMetadataRecv a b (h_src h) (match names with Some _ => Some sz | None => None end) names msgs
                          :: evs ++ log_d s /\
              forallb (fun e => match e with EvFault _ _ _ _ _ => true | _ => false end) evs = true.
Proof. exact metadata_params. Qed.
Print Assumptions c15_metadata_params.

(* File-Segment-Recv carries offset and length of the File Data PDU, and comes first *)
Theorem c15_segment_params : forall off data s a b,
  l_ind_seg (d_cfg s) = true -> p_tid (d_p s) = Some (a, b) ->
  exists evs, log_d (fst (handle_fd_pdu off data s)) = evs ++ EvSegmentRecv a b off (zlen data) :: log_d s /\
              forallb (fun e => match e with EvFault _ _ _ _ _ => true | _ => false end) evs = true.
Proof. exact segment_params. Qed.
Print Assumptions c15_segment_params.

(* completion: Transaction-Finished carries the same condition, delivery and file status (and fault location)
   as the Finished PDU emitted for that completion, and follows every other indication of that call *)
Theorem c15_completion_reports_finished_pdu : forall s r a b,
  d_state s = ST_BUSY -> d_step s = DS_TRANSFER_COMPLETION -> d_queue s = [] -> d_ready s = 0 ->
  p_rcfg (d_p s) = Some r -> p_tid (d_p s) = Some (a, b) -> 0 < r_ack_ms r -> l_ind_fin (d_cfg s) = true ->
  (h_mode (p_conf (d_p s)) = ACKED \/ (h_mode (p_conf (d_p s)) = UNACKED /\ p_closure (d_p s) = true)) ->
  exists s' c dl fs fl,
    Dest.state_machine None s = (s', Ok tt) /\
    log_d s' = EvFinished a b c dl fs fl :: log_d s /\
    d_queue s' = [PFinished (set_dir TOWARDS_SENDER (p_conf (d_p s))) c dl fs fl].
Proof. exact completion_reports_finished_pdu. Qed.
Print Assumptions c15_completion_reports_finished_pdu.

(* sender: Transaction-Finished repeats the parameters of the Finished PDU it received (or reports its own
   success notice when none is expected), and is the last thing the transaction does *)
Theorem c15_source_finished_copies_pdu : forall s a b,
  l_ind_fin (s_cfg s) = true -> q_tid (s_p s) = Some (a, b) ->
  exists s', notice_of_completion_s s = (s', Ok tt) /\ s_state s' = ST_IDLE /\
    log_s s' = (match q_fin (s_p s) with
                | Some (c, d, f, fl) => EvFinished a b c d f fl
                | None => EvFinished a b C_NO_ERROR DATA_COMPLETE FS_UNREPORTED None end) :: log_s s.
Proof. exact source_finished_copies_pdu. Qed.
Print Assumptions c15_source_finished_copies_pdu.

(* sender, unacknowledged mode (F21 repair): the transaction the sender cancels ends with its EOF (cancel) PDU;
   the user gets Transaction-Finished (that condition, data incomplete, file status unreported, no fault location)
   exactly when the switch is on, after the EOF-Sent indication (the log grows at its head), the EOF (cancel) PDU
   is queued with the checksum over the bytes sent so far, and the handler is idle *)
Theorem c15_source_cancel_unacked_reports : forall s a b cond ck,
  sc_mode (q_conf (s_p s)) = UNACKED -> q_tid (s_p s) = Some (a, b) ->
  (q_cond_eof (s_p s) = None \/ q_cond_eof (s_p s) = Some C_NO_ERROR) ->
  snd (checksum_calculation (q_progress (s_p s)) s) = Ok ck ->
  exists s', notice_of_cancellation_s cond s = (s', Ok true) /\
    log_s s' = (if l_ind_fin (s_cfg s) then [EvFinished a b cond DATA_INCOMPLETE FS_UNREPORTED None] else []) ++
               (if l_ind_eof_sent (s_cfg s) then [EvEofSent a b] else []) ++ log_s s /\
    s_queue s' = s_queue s ++ [PEof (hdr_of (q_conf (s_p s)) TOWARDS_RECEIVER) cond ck (q_progress (s_p s)) None] /\
    s_state s' = ST_IDLE /\ s_step s' = SS_IDLE /\ s_p s' = reset_sparams.
Proof. exact source_cancel_unacked_reports. Qed.
Print Assumptions c15_source_cancel_unacked_reports.

(* sender: the originating transaction id is surfaced unless a proxy put response is among the messages *)
Theorem c15_originating_id : forall msgs,
  (existsb (Z.eqb 1) msgs = true -> originating_id msgs None false = None) /\
  (existsb (Z.eqb 1) msgs = false -> forall k, 1000 <= k -> In k msgs ->
     exists k', In k' msgs /\ 1000 <= k' /\ originating_id msgs None false = Some ((k' - 1000) / 100, (k' - 1000) mod 100)) /\
  (forallb (fun m => m <? 1000) msgs = true -> originating_id msgs None false = None).
Proof. exact originating_id_spec. Qed.
Print Assumptions c15_originating_id.
