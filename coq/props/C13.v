(* Property C13 — Unacknowledged transfers tolerate EOF overtaking file data up to the check limit.
   Model: Dest.handle_no_error_eof, check_limit_handling; Source.handle_wait_for_finish
   (dest.py:1005-1016, 1074-1082, 1128-1139; source.py:777-784). Valid for every check limit.
   A limit fault handled by IGNORE is declared once per expiry, not once per call (F34 repair): c13_expiry_limit_ignored,
   c13_expiry_limit_ignored_once, c13_source_check_limit_ignored_waits_again (evaluated sender run:
   proofs/CheckLimitProofs.v ex_source_check_limit_ignored). *)
From CFDP Require Import Base LostSeg Fs Handler Dest Source HandlerSpec.
From CFDP.gen Require Import Tables.
From CFDP.proofs Require Import CheckLimitProofs.
From RecordUpdate Require Import RecordSet.
Import RecordSetNotations.

(* EOF before all data (checksum mismatch, Checksum Failure ignored as in the default table): the
   transaction is NOT finished; the check timer starts, the counter is 0 *)
Theorem c13_eof_early_no_finish : forall s s1 r,
  d_state s = ST_BUSY -> h_mode (p_conf (d_p s)) = UNACKED -> p_rcfg (d_p s) = Some r ->
  opt_z (p_file_size_eof (d_p s)) >= p_progress (d_p s) ->
  checksum_verify s = (s1, Ok false) -> d_state s1 = ST_BUSY -> p_rcfg (d_p s1) = Some r ->
  (exists a b, p_tid (d_p s1) = Some (a, b)) ->
  get_fault_handler (l_faults (d_cfg s1)) C_CHECKSUM_FAILURE = Some FH_IGNORE ->
  exists s', handle_no_error_eof s = (s', Ok false) /\
    d_step s' = DS_RECV_WITH_CHECK_LIMIT /\ p_check_count (d_p s') = 0 /\
    p_check_timer (d_p s') = Some (now_d s1, l_check_ms (d_cfg s1)) /\ d_queue s' = d_queue s1 /\
    (forall e, In e (log_d s') -> In e (log_d s1) \/ exists k a b c p, e = EvFault k a b c p).
Proof. exact eof_early_no_finish. Qed.
Print Assumptions c13_eof_early_no_finish.

(* before the check timer expires nothing happens *)
Theorem c13_not_expired : forall s t r,
  p_check_timer (d_p s) = Some t -> p_rcfg (d_p s) = Some r -> timed_out (now_d s) t = false ->
  check_limit_handling s = (s, Ok tt).
Proof. exact not_expired. Qed.
Print Assumptions c13_not_expired.

(* an expiry with the data complete (checksum verifies): the transfer proceeds to completion *)
Theorem c13_expiry_complete : forall s t r s1,
  p_check_timer (d_p s) = Some t -> p_rcfg (d_p s) = Some r -> timed_out (now_d s) t = true ->
  checksum_verify s = (s1, Ok true) ->
  check_limit_handling s = file_transfer_complete_transition s1.
Proof. exact expiry_complete. Qed.
Print Assumptions c13_expiry_complete.

(* an expiry below the limit with the data still incomplete: only the counter and the timer change *)
Theorem c13_expiry_counts : forall s t r s1 tmo0 t0,
  p_check_timer (d_p s) = Some t -> p_rcfg (d_p s) = Some r -> timed_out (now_d s) t = true ->
  checksum_verify s = (s1, Ok false) -> p_rcfg (d_p s1) = Some r -> p_check_timer (d_p s1) = Some (t0, tmo0) ->
  p_check_count (d_p s1) + 1 < r_check_limit r ->
  check_limit_handling s =
    (s1 <| d_p ::= (fun p => p <| p_check_count ::= (fun c => c + 1) |> <| p_check_timer := Some (now_d s, tmo0) |>) |>, Ok tt).
Proof. exact expiry_counts. Qed.
Print Assumptions c13_expiry_counts.

(* the limit-th expiry: Check Limit Reached is declared, exactly then; whatever its handler except IGNORE nothing else
   happens in the procedure (statement corrected after the F34 repair: the IGNORE case is c13_expiry_limit_ignored) *)
Theorem c13_expiry_limit : forall s t r s1,
  p_check_timer (d_p s) = Some t -> p_rcfg (d_p s) = Some r -> timed_out (now_d s) t = true ->
  checksum_verify s = (s1, Ok false) -> p_rcfg (d_p s1) = Some r ->
  r_check_limit r <= p_check_count (d_p s1) + 1 ->
  get_fault_handler (l_faults (d_cfg s1)) C_CHECK_LIMIT <> Some FH_IGNORE ->
  check_limit_handling s = (fst (declare_fault C_CHECK_LIMIT s1),
                            match snd (declare_fault C_CHECK_LIMIT s1) with Ok _ => Ok tt | Err e => Err e end).
Proof. exact expiry_limit. Qed.
Print Assumptions c13_expiry_limit.

(* the limit-th expiry with Check Limit Reached handled by IGNORE (F34 repair): exactly one callback, and the expiry is
   counted and the timer restarted at the current time, exactly as below the limit *)
Theorem c13_expiry_limit_ignored : forall s t r s1 a b tmo0 t0,
  p_check_timer (d_p s) = Some t -> p_rcfg (d_p s) = Some r -> timed_out (now_d s) t = true ->
  checksum_verify s = (s1, Ok false) -> p_rcfg (d_p s1) = Some r -> p_check_timer (d_p s1) = Some (t0, tmo0) ->
  p_tid (d_p s1) = Some (a, b) ->
  r_check_limit r <= p_check_count (d_p s1) + 1 ->
  get_fault_handler (l_faults (d_cfg s1)) C_CHECK_LIMIT = Some FH_IGNORE ->
  check_limit_handling s =
    (s1 <| d_env ::= (fun en => en <| e_log ::= cons (EvFault FH_IGNORE a b C_CHECK_LIMIT (p_progress (d_p s1))) |>) |>
        <| d_p ::= (fun p => p <| p_check_count ::= (fun c => c + 1) |> <| p_check_timer := Some (now_d s, tmo0) |>) |>, Ok tt).
Proof. exact expiry_limit_ignored. Qed.
Print Assumptions c13_expiry_limit_ignored.

(* ... and the ignored fault is NOT declared again by the following calls: after any clock advance shorter than the timer
   interval the procedure changes nothing (no callback, counter and timer as they are) *)
Theorem c13_expiry_limit_ignored_once : forall s t r s1 a b tmo0 t0 dt,
  p_check_timer (d_p s) = Some t -> p_rcfg (d_p s) = Some r -> timed_out (now_d s) t = true ->
  checksum_verify s = (s1, Ok false) -> p_rcfg (d_p s1) = Some r -> p_check_timer (d_p s1) = Some (t0, tmo0) ->
  p_tid (d_p s1) = Some (a, b) ->
  r_check_limit r <= p_check_count (d_p s1) + 1 ->
  get_fault_handler (l_faults (d_cfg s1)) C_CHECK_LIMIT = Some FH_IGNORE ->
  now_d s1 = now_d s -> dt < tmo0 ->
  let s2 := fst (check_limit_handling s) <| d_env ::= (fun en => en <| e_now ::= Z.add dt |>) |> in
  check_limit_handling s2 = (s2, Ok tt).
Proof. exact expiry_limit_ignored_once. Qed.
Print Assumptions c13_expiry_limit_ignored_once.

(* k expiries below the limit: the counter is exactly k (for every limit) *)
Theorem c13_count_exact : forall (k : nat) (ss : nat -> dst) (r : rcfg) (c0 : Z),
  (forall i, (i < k)%nat ->
     exists t s1 t0 tmo0,
       p_check_timer (d_p (ss i)) = Some t /\ p_rcfg (d_p (ss i)) = Some r /\ timed_out (now_d (ss i)) t = true /\
       checksum_verify (ss i) = (s1, Ok false) /\ p_rcfg (d_p s1) = Some r /\ p_check_timer (d_p s1) = Some (t0, tmo0) /\
       p_check_count (d_p s1) = p_check_count (d_p (ss i)) /\
       p_check_count (d_p (ss (S i))) = p_check_count (d_p (fst (check_limit_handling (ss i))))) ->
  p_check_count (d_p (ss O)) = c0 -> c0 + Z.of_nat k < r_check_limit r ->
  p_check_count (d_p (ss k)) = c0 + Z.of_nat k.
Proof. exact count_exact. Qed.
Print Assumptions c13_count_exact.

(* sender with closure: no Finished PDU before its check timer expires => Check Limit Reached is declared; whatever its
   handler except IGNORE that is all (statement corrected after the F34 repair: the IGNORE case is
   c13_source_check_limit_ignored_waits_again) *)
Theorem c13_source_check_timer : forall s pkt t,
  (match pkt with Some (PFinished _ _ _ _ _) => False | Some (PNak _ _ _ _) => False | _ => True end) ->
  q_check_timer (s_p s) = Some t -> timed_out (now_s s) t = true ->
  fault_ignored (s_cfg s) C_CHECK_LIMIT = false ->
  handle_wait_for_finish pkt s = declare_fault_s C_CHECK_LIMIT s.
Proof. exact source_check_timer. Qed.
Print Assumptions c13_source_check_timer.
Theorem c13_source_check_timer_running : forall s pkt t,
  (match pkt with Some (PFinished _ _ _ _ _) => False | Some (PNak _ _ _ _) => False | _ => True end) ->
  q_check_timer (s_p s) = Some t -> timed_out (now_s s) t = false ->
  handle_wait_for_finish pkt s = (s, Ok tt).
Proof. exact source_check_timer_running. Qed.
Print Assumptions c13_source_check_timer_running.

(* the check timer expired and the table gives IGNORE for Check Limit Reached (F34 repair): one ignore callback, the timer
   is restarted at the current time, the handler is still waiting for the Finished PDU (state, step, queue untouched);
   and the following call, after any clock advance shorter than the interval, delivers nothing: no callback, no PDU *)
Theorem c13_source_check_limit_ignored_waits_again : forall s pkt pkt' t a b dt,
  (match pkt with Some (PFinished _ _ _ _ _) => False | Some (PNak _ _ _ _) => False | _ => True end) ->
  (match pkt' with Some (PFinished _ _ _ _ _) => False | Some (PNak _ _ _ _) => False | _ => True end) ->
  q_check_timer (s_p s) = Some t -> timed_out (now_s s) t = true ->
  q_tid (s_p s) = Some (a, b) ->
  get_fault_handler (l_faults (s_cfg s)) C_CHECK_LIMIT = Some FH_IGNORE ->
  dt < snd t ->
  let s1 := s <| s_env ::= (fun en => en <| e_log ::= cons (EvFault FH_IGNORE a b C_CHECK_LIMIT (q_progress (s_p s))) |>) |>
              <| s_p ::= (fun q => q <| q_check_timer := Some (now_s s, snd t) |>) |> in
  let s2 := s1 <| s_env ::= (fun en => en <| e_now ::= Z.add dt |>) |> in
  handle_wait_for_finish pkt s = (s1, Ok tt) /\
  s_state s1 = s_state s /\ s_step s1 = s_step s /\ s_queue s1 = s_queue s /\ s_ready s1 = s_ready s /\
  log_s s1 = EvFault FH_IGNORE a b C_CHECK_LIMIT (q_progress (s_p s)) :: log_s s /\
  q_check_timer (s_p s1) = Some (now_s s, snd t) /\
  handle_wait_for_finish pkt' s2 = (s2, Ok tt).
Proof. exact source_check_limit_ignored_waits_again. Qed.
Print Assumptions c13_source_check_limit_ignored_waits_again.

(* the mechanism can run by default: Checksum Failure is ignored, Check Limit Reached cancels
   (read from mib.py on every run) *)
Theorem c13_default_table :
  get_fault_handler default_fault_table C_CHECKSUM_FAILURE = Some FH_IGNORE /\
  get_fault_handler default_fault_table C_CHECK_LIMIT = Some FH_CANCEL.
Proof. vm_compute. split; reflexivity. Qed.
