(* Property C13 — Unacknowledged transfers tolerate EOF overtaking file data up to the check limit.
   Model: Dest.handle_no_error_eof, check_limit_handling; Source.handle_wait_for_finish
   (dest.py:1005-1016, 1074-1082, 1128-1139; source.py:777-784). Valid for every check limit. *)
From CFDP Require Import Base LostSeg Fs Handler Dest Source HandlerSpec.
From CFDP.gen Require Import Tables.
From CFDP.proofs Require Import CheckLimitProofs.
From RecordUpdate Require Import RecordSet.
Import RecordSetNotations.

(* EOF before all data (checksum mismatch, Checksum Failure ignored as in the default table): the
   transaction is NOT finished; the check timer starts, the counter is 0 *)
Theorem c13_eof_early_no_finish : forall s s1 r,
  d_state s = ST_BUSY -> h_mode (p_conf (d_p s)) = UNACKED -> p_rcfg (d_p s) = Some r ->
  opt_z (p_file_size_eof (d_p s)) >= p_progress (d_p s) ->
  checksum_verify s = (s1, Ok false) -> d_state s1 = ST_BUSY -> p_rcfg (d_p s1) = Some r ->
  (exists a b, p_tid (d_p s1) = Some (a, b)) ->
  get_fault_handler (l_faults (d_cfg s1)) C_CHECKSUM_FAILURE = Some FH_IGNORE ->
  exists s', handle_no_error_eof s = (s', Ok false) /\
    d_step s' = DS_RECV_WITH_CHECK_LIMIT /\ p_check_count (d_p s') = 0 /\
    p_check_timer (d_p s') = Some (now_d s1, l_check_ms (d_cfg s1)) /\ d_queue s' = d_queue s1 /\
    (forall e, In e (log_d s') -> In e (log_d s1) \/ exists k a b c p, e = EvFault k a b c p).
Proof. exact eof_early_no_finish. Qed.
Print Assumptions c13_eof_early_no_finish.

(* before the check timer expires nothing happens *)
Theorem c13_not_expired : forall s t r,
  p_check_timer (d_p s) = Some t -> p_rcfg (d_p s) = Some r -> timed_out (now_d s) t = false ->
  check_limit_handling s = (s, Ok tt).
Proof. exact not_expired. Qed.
Print Assumptions c13_not_expired.

(* an expiry with the data complete (checksum verifies): the transfer proceeds to completion *)
Theorem c13_expiry_complete : forall s t r s1,
  p_check_timer (d_p s) = Some t -> p_rcfg (d_p s) = Some r -> timed_out (now_d s) t = true ->
  checksum_verify s = (s1, Ok true) ->
  check_limit_handling s = file_transfer_complete_transition s1.
Proof. exact expiry_complete. Qed.
Print Assumptions c13_expiry_complete.

(* an expiry below the limit with the data still incomplete: only the counter and the timer change *)
Theorem c13_expiry_counts : forall s t r s1 tmo0 t0,
  p_check_timer (d_p s) = Some t -> p_rcfg (d_p s) = Some r -> timed_out (now_d s) t = true ->
  checksum_verify s = (s1, Ok false) -> p_rcfg (d_p s1) = Some r -> p_check_timer (d_p s1) = Some (t0, tmo0) ->
  p_check_count (d_p s1) + 1 < r_check_limit r ->
  check_limit_handling s =
    (s1 <| d_p ::= (fun p => p <| p_check_count ::= (fun c => c + 1) |> <| p_check_timer := Some (now_d s, tmo0) |>) |>, Ok tt).
Proof. exact expiry_counts. Qed.
Print Assumptions c13_expiry_counts.

(* the limit-th expiry: Check Limit Reached is declared, exactly then *)
Theorem c13_expiry_limit : forall s t r s1,
  p_check_timer (d_p s) = Some t -> p_rcfg (d_p s) = Some r -> timed_out (now_d s) t = true ->
  checksum_verify s = (s1, Ok false) -> p_rcfg (d_p s1) = Some r ->
  r_check_limit r <= p_check_count (d_p s1) + 1 ->
  check_limit_handling s = (fst (declare_fault C_CHECK_LIMIT s1),
                            match snd (declare_fault C_CHECK_LIMIT s1) with Ok _ => Ok tt | Err e => Err e end).
Proof. exact expiry_limit. Qed.
Print Assumptions c13_expiry_limit.

(* k expiries below the limit: the counter is exactly k (for every limit) *)
Theorem c13_count_exact : forall (k : nat) (ss : nat -> dst) (r : rcfg) (c0 : Z),
  (forall i, (i < k)%nat ->
     exists t s1 t0 tmo0,
       p_check_timer (d_p (ss i)) = Some t /\ p_rcfg (d_p (ss i)) = Some r /\ timed_out (now_d (ss i)) t = true /\
       checksum_verify (ss i) = (s1, Ok false) /\ p_rcfg (d_p s1) = Some r /\ p_check_timer (d_p s1) = Some (t0, tmo0) /\
       p_check_count (d_p s1) = p_check_count (d_p (ss i)) /\
       p_check_count (d_p (ss (S i))) = p_check_count (d_p (fst (check_limit_handling (ss i))))) ->
  p_check_count (d_p (ss O)) = c0 -> c0 + Z.of_nat k < r_check_limit r ->
  p_check_count (d_p (ss k)) = c0 + Z.of_nat k.
Proof. exact count_exact. Qed.
Print Assumptions c13_count_exact.

(* sender with closure: no Finished PDU before its check timer expires => Check Limit Reached is declared *)
Theorem c13_source_check_timer : forall s pkt t,
  (match pkt with Some (PFinished _ _ _ _ _) => False | Some (PNak _ _ _ _) => False | _ => True end) ->
  q_check_timer (s_p s) = Some t -> timed_out (now_s s) t = true ->
  handle_wait_for_finish pkt s = declare_fault_s C_CHECK_LIMIT s.
Proof. exact source_check_timer. Qed.
Print Assumptions c13_source_check_timer.
Theorem c13_source_check_timer_running : forall s pkt t,
  (match pkt with Some (PFinished _ _ _ _ _) => False | Some (PNak _ _ _ _) => False | _ => True end) ->
  q_check_timer (s_p s) = Some t -> timed_out (now_s s) t = false ->
  handle_wait_for_finish pkt s = (s, Ok tt).
Proof. exact source_check_timer_running. Qed.
Print Assumptions c13_source_check_timer_running.

(* the mechanism can run by default: Checksum Failure is ignored, Check Limit Reached cancels
   (read from mib.py on every run) *)
Theorem c13_default_table :
  get_fault_handler default_fault_table C_CHECKSUM_FAILURE = Some FH_IGNORE /\
  get_fault_handler default_fault_table C_CHECK_LIMIT = Some FH_CANCEL.
Proof. vm_compute. split; reflexivity. Qed.
