(* Property C04, closed form — a silent peer cannot hang the sender: with Positive ACK Limit Reached configured as
   notice of cancellation (the default), after exactly 2N expiries the handler is idle, having re-sent the EOF N-1
   times, sent one EOF (cancel) and re-sent that N-1 times; nothing afterwards.  For every limit N >= 1. *)
From CFDP Require Import Base LostSeg Fs Handler Dest Source HandlerSpec SourceSpec.
From CFDP.proofs Require Import SilentPeerProofs.
From RecordUpdate Require Import RecordSet.
Import RecordSetNotations.

(* one timer interval passes, then one empty call, then everything queued is retrieved *)
Definition expire_s (ms : Z) (s : src) : src * res Z (list pdu) :=
  pump (s <| s_env ::= (fun e => e <| e_now ::= Z.add ms |>) |>).
Fixpoint expires_s (n : nat) (ms : Z) (s : src) : src * res Z (list (list pdu)) :=
  match n with
  | O => (s, Ok [])
  | S k => match expire_s ms s with
           | (s', Ok ps) => match expires_s k ms s' with
                            | (s'', Ok rest) => (s'', Ok (ps :: rest))
                            | (s'', Err e) => (s'', Err e)
                            end
           | (s', Err e) => (s', Err e)
           end
  end.

Theorem c04_src_silent_peer_bounded : forall (N : nat) (s : src) (r : rcfg) (a b : Z) (ck : bytes),
  (1 <= N)%nat -> r_ack_limit r = Z.of_nat N -> 0 < r_ack_ms r ->
  s_state s = ST_BUSY -> s_step s = SS_WAITING_FOR_EOF_ACK -> s_queue s = [] -> s_ready s = 0 -> s_put s <> None ->
  q_rcfg (s_p s) = Some r -> q_ack_timer (s_p s) = Some (now_s s, r_ack_ms r) -> q_ack_counter (s_p s) = 0 ->
  q_cond_eof (s_p s) = Some C_NO_ERROR -> q_tid (s_p s) = Some (a, b) -> sc_mode (q_conf (s_p s)) = ACKED ->
  get_fault_handler (l_faults (s_cfg s)) C_POS_ACK_LIMIT = Some FH_CANCEL ->
  (* the checksum of the bytes sent is computable (source file still there), whatever else changed *)
  (forall s0, s_put s0 = s_put s -> fs_s s0 = fs_s s -> q_rcfg (s_p s0) = q_rcfg (s_p s) ->
              q_segment_len (s_p s0) = q_segment_len (s_p s) -> q_md_only (s_p s0) = q_md_only (s_p s) ->
              checksum_calculation (q_progress (s_p s)) s0 = (s0, Ok ck)) ->
  let h := hdr_of (q_conf (s_p s)) TOWARDS_RECEIVER in
  let pr := q_progress (s_p s) in
  exists s',
    expires_s (2 * N) (r_ack_ms r) s =
      (s', Ok (repeat [PEof h C_NO_ERROR ck pr None] (N - 1) ++ [[PEof h C_POS_ACK_LIMIT ck pr None]] ++
               repeat [PEof h C_POS_ACK_LIMIT ck pr None] (N - 1) ++ [[]])) /\
    s_state s' = ST_IDLE /\ s_step s' = SS_IDLE /\ s_queue s' = [].
Proof. exact src_silent_peer_bounded. Qed.
Print Assumptions c04_src_silent_peer_bounded.
