(* Property C01 — A reported successful delivery implies a byte-identical file.   (partial)
   Model: Dest.checksum_verify and the completion path; Source completion.
   Proved: the receiver sets "data complete" only through a successful checksum verification of the
   destination file as it is at that moment (CRC types: equal CRC => identical or a genuine collision, see C09),
   or for a metadata-only transaction; the sender's report is a copy of the receiver's Finished PDU.
   Not proved as one theorem: the composition over the two-handler system with arbitrary fault schedules
   (bin/check C01 evaluates exactly that on the implementation, reading the file back at every success report). *)
From CFDP Require Import Base LostSeg Fs Crc Checksum Handler Dest Source HandlerSpec.
From CFDP.proofs Require Import DeliveryProofs.
From RecordUpdate Require Import RecordSet.
Import RecordSetNotations.

(* what a successful verification establishes about the destination file *)
Definition verified (s : dst) : Prop :=
  let p := d_p s in
  p_md_only p = true \/ p_cktype p = CK_NULL \/
  exists d, lookup (fs_d s) (p_file_name p) = Some (File d) /\
            calculate_checksum (p_cktype p) (Some d) (p_progress p) 4096 = Ok (p_crc32 p).

Theorem c01_verify_true_means_verified : forall s s',
  checksum_verify s = (s', Ok true) ->
  verified s /\ f_deliv (p_fin (d_p s')) = DATA_COMPLETE /\ f_cond (p_fin (d_p s')) = C_NO_ERROR /\
  fs_d s' = fs_d s /\ p_file_name (d_p s') = p_file_name (d_p s) /\ p_progress (d_p s') = p_progress (d_p s) /\
  p_crc32 (d_p s') = p_crc32 (d_p s) /\ p_cktype (d_p s') = p_cktype (d_p s) /\ p_md_only (d_p s') = p_md_only (d_p s) /\
  (* (F31 repair) with a real check, no data is known to be missing: the progress reaches the EOF's file size *)
  (p_md_only (d_p s) = false -> p_cktype (d_p s) <> CK_NULL ->
   match p_file_size_eof (d_p s) with None => True | Some n => n <= p_progress (d_p s) end).
Proof. exact verify_true_means_verified. Qed.
Print Assumptions c01_verify_true_means_verified.

(* a failed verification never reports complete data *)
Theorem c01_verify_false_keeps_incomplete : forall s s',
  checksum_verify s = (s', Ok false) -> d_state s' = ST_BUSY ->
  f_deliv (p_fin (d_p s')) = f_deliv (p_fin (d_p s)).
Proof. exact verify_false_keeps_incomplete. Qed.
Print Assumptions c01_verify_false_keeps_incomplete.

(* CRC types: a verified file whose CRC equals the CRC the sender computed over its file is that file or a collision *)
Theorem c01_crc_equal_means_identical_or_collision : forall ty src_data dst_data n ck,
  (ty = CK_CRC32 \/ ty = CK_CRC32C) -> 0 <= n <= zlen dst_data -> n = zlen src_data ->
  calculate_checksum ty (Some src_data) n 4096 = Ok ck -> calculate_checksum ty (Some dst_data) n 4096 = Ok ck ->
  ztake n dst_data = src_data \/
  (ztake n dst_data <> src_data /\
   crc_spec (if ty =? CK_CRC32 then poly_crc32 else poly_crc32c) (ztake n dst_data) =
   crc_spec (if ty =? CK_CRC32 then poly_crc32 else poly_crc32c) src_data).
Proof. exact crc_equal_means_identical_or_collision. Qed.
Print Assumptions c01_crc_equal_means_identical_or_collision.

(* the only other way "data complete" gets set is a metadata-only transaction *)
Theorem c01_metadata_sets_complete_only_for_md_only : forall h cl ck sz names msgs s s' r,
  handle_metadata_packet h cl ck sz names msgs s = (s', r) -> d_state s' = ST_BUSY ->
  f_deliv (p_fin (d_p s')) <> f_deliv (p_fin (d_p s)) -> names = None /\ p_md_only (d_p s') = true.
Proof. exact metadata_sets_complete_only_for_md_only. Qed.
Print Assumptions c01_metadata_sets_complete_only_for_md_only.

(* a rejected write is never stored, and (CRC types) the file then cannot verify unless it verified without it *)
Theorem c01_rejected_write_not_stored : forall s off data s' r,
  e_reject_writes (d_env s) = true -> handle_fd_pdu off data s = (s', r) -> fs_d s' = fs_d s.
Proof. exact rejected_write_not_stored. Qed.
Print Assumptions c01_rejected_write_not_stored.

(* sender: its Transaction-Finished is a copy of the Finished PDU it was handed *)
Theorem c01_sender_copies_finished : forall s h c d f fl,
  sc_mode (q_conf (s_p s)) = UNACKED -> s_state s = ST_BUSY ->
  q_fin (s_p (fst (handle_wait_for_finish (Some (PFinished h c d f fl)) s))) = Some (c, d, f, fl).
Proof. exact sender_copies_finished. Qed.
Print Assumptions c01_sender_copies_finished.
