(* Property C04, closed form, NAK procedure — a receiver that is waiting for missing data and never hears from the sender
   again is idle after exactly N + M timer expiries (N = NAK limit, M = Positive ACK limit): N-1 times the same NAK
   sequence is issued again, the N-th expiry declares NAK Limit Reached, cancels, completes the cancelled transaction
   and sends Finished (NAK Limit Reached); that PDU is re-sent M-1 times and the M-th expiry abandons silently.
   For every N >= 1 and M >= 1.  DRAFT: the prover fixes the exact outputs after evaluating the model. *)
From CFDP Require Import Base LostSeg LostSegSpec Fs Handler Dest HandlerSpec.
From CFDP.proofs Require Import SilentSenderProofs.
From RecordUpdate Require Import RecordSet.
Import RecordSetNotations.

Definition drain_d (s : dst) : dst * list pdu :=
  (s <| d_queue := [] |> <| d_ready := d_ready s - zlen (d_queue s) |>, d_queue s).
Definition expire_d (ms : Z) (s : dst) : dst * res Z (list pdu) :=
  match Dest.state_machine None (s <| d_env ::= (fun e => e <| e_now ::= Z.add ms |>) |>) with
  | (s', Ok _) => let '(s'', ps) := drain_d s' in (s'', Ok ps)
  | (s', Err e) => (s', Err e)
  end.
Fixpoint expires_d (n : nat) (ms : Z) (s : dst) : dst * res Z (list (list pdu)) :=
  match n with
  | O => (s, Ok [])
  | S k => match expire_d ms s with
           | (s', Ok ps) => match expires_d k ms s' with
                            | (s'', Ok rest) => (s'', Ok (ps :: rest))
                            | (s'', Err e) => (s'', Err e)
                            end
           | (s', Err e) => (s', Err e)
           end
  end.

Theorem c04_dest_silent_sender_bounded : forall (N M : nat) (s : dst) (r : rcfg) (a b eos : Z),
  (1 <= N)%nat -> (1 <= M)%nat -> r_nak_limit r = Z.of_nat N -> r_ack_limit r = Z.of_nat M ->
  0 < r_nak_ms r -> 0 < r_ack_ms r ->
  d_state s = ST_BUSY -> d_step s = DS_WAITING_FOR_MISSING_DATA -> d_queue s = [] -> d_ready s = 0 ->
  h_mode (p_conf (d_p s)) = ACKED -> p_rcfg (d_p s) = Some r -> p_tid (d_p s) = Some (a, b) ->
  p_deferred (d_p s) = true -> p_file_size_eof (d_p s) = Some eos -> p_md_missing (d_p s) = false ->
  p_tracker (d_p s) <> [] -> Inv (p_tracker (d_p s)) ->
  p_proc_timer (d_p s) = Some (now_d s, r_nak_ms r) -> p_nak_counter (d_p s) = 0 ->
  p_disp (d_p s) <> DISP_CANCELED ->
  get_fault_handler (l_faults (d_cfg s)) C_NAK_LIMIT = Some FH_CANCEL ->
  let h := set_dir TOWARDS_SENDER (p_conf (d_p s)) in
  let f := p_fin (d_p s) in
  let del := r_disposition r && (f_deliv f =? DATA_INCOMPLETE) in
  let fstatus' := if del then FS_DISCARDED_DELIBERATELY else f_fstatus f in
  let fin := PFinished h C_NAK_LIMIT (f_deliv f) fstatus' (f_fl f) in
  (* naks: the NAK sequence for what is missing; the prover replaces the existential by the closed expression of
     props/C06.v (nak_split of the tracker, scope (0, eos), as many requests per PDU as max_packet_len allows) *)
  exists naks s1 s',
    expires_d N (r_nak_ms r) s = (s1, Ok (repeat naks (N - 1) ++ [[fin]])) /\
    expires_d M (r_ack_ms r) s1 = (s', Ok (repeat [fin] (M - 1) ++ [[]])) /\
    naks <> [] /\ Forall (fun p => match p with PNak _ _ _ _ => True | _ => False end) naks /\
    d_state s' = ST_IDLE /\ d_step s' = DS_IDLE /\ d_queue s' = [] /\
    fs_d s' = (if del then fst (fs_delete_file (fs_d s) (p_file_name (d_p s))) else fs_d s).
Proof. exact dest_silent_sender_bounded. Qed.
Print Assumptions c04_dest_silent_sender_bounded.
