(* Property C04, closed form, NAK procedure — a silent sender cannot hang the receiver: waiting for missing data
   (deferred lost-segment procedure active, something missing — file data and/or the metadata —, NAK timer just started,
   NAK counter 0) and never hearing from the sender again, the receiver is idle after exactly N + M timer expiries
   (N = NAK limit, M = Positive ACK limit): N-1 times the same NAK sequence is issued again (every expiry below the
   limit is a re-issue: same PDUs, counter advanced, timer restarted); the N-th expiry declares NAK Limit Reached
   (handler: cancel), and the same call completes the cancelled transaction (the incomplete file is deleted if the
   remote configuration says so), queues Finished (NAK Limit Reached) and starts the Positive ACK procedure; that PDU
   is re-sent M-1 times and the M-th expiry abandons silently (the transaction is already cancelled).
   For every N >= 1 and M >= 1, any tracker, metadata missing or not, any maximum packet length. *)
From CFDP Require Import Base LostSeg LostSegSpec Fs Handler Dest HandlerSpec.
From CFDP.proofs Require Import SilentSenderProofs.
From RecordUpdate Require Import RecordSet.
Import RecordSetNotations.

Definition drain_d (s : dst) : dst * list pdu :=
  (s <| d_queue := [] |> <| d_ready := d_ready s - zlen (d_queue s) |>, d_queue s).
Definition expire_d (ms : Z) (s : dst) : dst * res Z (list pdu) :=
  match Dest.state_machine None (s <| d_env ::= (fun e => e <| e_now ::= Z.add ms |>) |>) with
  | (s', Ok _) => let '(s'', ps) := drain_d s' in (s'', Ok ps)
  | (s', Err e) => (s', Err e)
  end.
Fixpoint expires_d (n : nat) (ms : Z) (s : dst) : dst * res Z (list (list pdu)) :=
  match n with
  | O => (s, Ok [])
  | S k => match expire_d ms s with
           | (s', Ok ps) => match expires_d k ms s' with
                            | (s'', Ok rest) => (s'', Ok (ps :: rest))
                            | (s'', Err e) => (s'', Err e)
                            end
           | (s', Err e) => (s', Err e)
           end
  end.

(* the NAK sequence of one (re-)issue of the deferred procedure: the metadata request (0,0) first if the metadata is
   missing (flushed alone when a PDU holds one request), then the tracked ranges in order, split by Dest.nak_split into
   PDUs of [maxn] requests plus a remainder PDU; scope (0, eos) on every PDU *)
Definition nak_seq (h : hdr) (eos maxn : Z) (mdm : bool) (tr : tracker) : list pdu :=
  let '(pre, acc0) := if mdm then (if 1 =? maxn then ([PNak h 0 eos [(0, 0)]], []) else ([], [(0, 0)])) else ([], []) in
  let '(ps, rest) := nak_split h eos maxn acc0 tr in
  pre ++ ps ++ (match rest with [] => [] | _ => [PNak h 0 eos rest] end).

Definition nak_reqs (p : pdu) : list (Z * Z) := match p with PNak _ _ _ r => r | _ => [] end.

(* what that sequence requests (cf. props/C06.v): exactly (0,0) iff the metadata is missing, then the tracked ranges,
   in order; every PDU carries between 1 and maxn requests *)
Theorem c04_nak_seq_exact : forall h eos maxn mdm tr, 1 <= maxn ->
  flat_map nak_reqs (nak_seq h eos maxn mdm tr) = (if mdm then [(0, 0)] else []) ++ tr /\
  Forall (fun p => exists rq, p = PNak h 0 eos rq /\ 1 <= zlen rq <= maxn) (nak_seq h eos maxn mdm tr).
Proof. exact nak_seq_exact. Qed.
Print Assumptions c04_nak_seq_exact.

Theorem c04_dest_silent_sender_bounded : forall (N M : nat) (s : dst) (r : rcfg) (a b eos maxn : Z),
  (1 <= N)%nat -> (1 <= M)%nat -> r_nak_limit r = Z.of_nat N -> r_ack_limit r = Z.of_nat M ->
  0 < r_ack_ms r ->
  d_state s = ST_BUSY ->
  d_step s = (if p_md_missing (d_p s) then DS_WAITING_FOR_METADATA else DS_WAITING_FOR_MISSING_DATA) ->
  d_queue s = [] -> d_ready s = 0 ->
  h_mode (p_conf (d_p s)) = ACKED -> p_rcfg (d_p s) = Some r -> p_tid (d_p s) = Some (a, b) ->
  p_deferred (d_p s) = true ->
  (* the transaction is not cancelled (every reachable waiting state; after the F35 repair the NAK procedure of a
     cancelled transaction does nothing, so without this the statement is false:
     SilentSenderProofs.statement_needs_not_cancelled) *)
  p_disp (d_p s) <> DISP_CANCELED ->
  p_file_size_eof (d_p s) = Some eos ->
  (p_tracker (d_p s) <> [] \/ p_md_missing (d_p s) = true) ->
  p_proc_timer (d_p s) = Some (now_d s, r_nak_ms r) -> p_nak_counter (d_p s) = 0 ->
  (* the number of requests a NAK PDU can hold is computable (only consulted when NAKs are re-issued, i.e. N >= 2;
     it was, when the sequence was issued the first time) *)
  ((2 <= N)%nat -> max_seg_reqs (r_max_packet r) (p_conf (d_p s)) = Some maxn) ->
  get_fault_handler (l_faults (d_cfg s)) C_NAK_LIMIT = Some FH_CANCEL ->
  let h := set_dir TOWARDS_SENDER (p_conf (d_p s)) in
  let f := p_fin (d_p s) in
  let del := r_disposition r && (f_deliv f =? DATA_INCOMPLETE) in
  let fstatus' := if del then FS_DISCARDED_DELIBERATELY else f_fstatus f in
  let fin := PFinished h C_NAK_LIMIT (f_deliv f) fstatus' (f_fl f) in
  let naks := nak_seq h eos maxn (p_md_missing (d_p s)) (p_tracker (d_p s)) in
  exists s1 s',
    expires_d N (r_nak_ms r) s = (s1, Ok (repeat naks (N - 1) ++ [[fin]])) /\
    expires_d M (r_ack_ms r) s1 = (s', Ok (repeat [fin] (M - 1) ++ [[]])) /\
    naks <> [] /\ Forall (fun p => match p with PNak _ _ _ _ => True | _ => False end) naks /\
    d_state s' = ST_IDLE /\ d_step s' = DS_IDLE /\ d_queue s' = [] /\ d_ready s' = 0 /\ d_p s' = fresh_params /\
    fs_d s' = (if del then fst (fs_delete_file (fs_d s) (p_file_name (d_p s))) else fs_d s) /\
    log_d s' = EvFault FH_ABANDON a b C_NAK_LIMIT (p_progress (d_p s)) ::
               (if l_ind_fin (d_cfg s) then [EvFinished a b C_NAK_LIMIT (f_deliv f) fstatus' (f_fl f)] else []) ++
               EvFault FH_CANCEL a b C_NAK_LIMIT (p_progress (d_p s)) :: log_d s.
Proof. exact dest_silent_sender_bounded. Qed.
Print Assumptions c04_dest_silent_sender_bounded.
