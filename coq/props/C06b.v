(* Property C06, history level — while file data is being received in acknowledged mode, the receiver's lost-segment
   bookkeeping denotes EXACTLY the bytes below the highest offset received so far that have not been received: for every
   arrival order and every duplication of the File Data PDUs of a stream cut at a fixed segment length (the sender's
   tiles and its retransmissions of whole gaps, C07/C08), nothing missing is forgotten and nothing received is requested.
   For ARBITRARY File Data (any offsets >= 0, any lengths > 0, overlapping however they like, in any order; the F9 repair
   made the bookkeeping total on them) the second theorem says: the bookkeeping never raises, the tracker stays
   well-formed and below the frontier, and NOTHING MISSING IS FORGOTTEN.  There the tracker may over-approximate: data
   that overlaps the frontier segment (the last in-order segment) is ignored by the bookkeeping, so e.g. after (4,4) (1,5)
   bytes 1..3 are still tracked, and after (0,1) (0,2) the frontier is still 1; it never under-approximates. *)
From CFDP Require Import Base LostSeg LostSegSpec Fs Handler Dest HandlerSpec.
From CFDP.proofs Require Import TrackInvProofs.
From RecordUpdate Require Import RecordSet.
Import RecordSetNotations.

(* (offset, length) is one of the tiles of a file of [size] bytes cut at [seg] *)
Definition tile (seg size : Z) (fd : Z * Z) : Prop :=
  exists k, 0 <= k /\ fst fd = k * seg /\ snd fd = Z.min seg (size - fst fd) /\ 0 < snd fd.
Definition covered (hist : list (Z * Z)) (x : Z) : Prop :=
  exists fd, In fd hist /\ fst fd <= x < fst fd + snd fd.
Definition extent (hist : list (Z * Z)) : Z := fold_left (fun m fd => Z.max m (fst fd + snd fd)) hist 0.
(* the receiver's bookkeeping call for each File Data PDU of the history, in arrival order *)
Fixpoint handle_all (hist : list (Z * Z)) : D unit :=
  match hist with
  | [] => ret tt
  | fd :: t => lost_segment_handling (fst fd) (snd fd) ;;; handle_all t
  end.

Theorem c06_tracker_denotes_missing : forall (seg size : Z) (hist : list (Z * Z)) (s : dst),
  0 < seg -> Forall (tile seg size) hist ->
  p_tracker (d_p s) = [] -> p_last_start (d_p s) = 0 -> p_last_end (d_p s) = 0 -> p_rcfg (d_p s) <> None ->
  exists s', handle_all hist s = (s', Ok tt) /\
    Inv (p_tracker (d_p s')) /\
    (forall x, den (p_tracker (d_p s')) x <-> (0 <= x < extent hist /\ ~ covered hist x)) /\
    p_last_end (d_p s') = extent hist /\
    fs_d s' = fs_d s /\ log_d s' = log_d s.
Proof. exact tracker_denotes_missing. Qed.
Print Assumptions c06_tracker_denotes_missing.

(* arbitrary histories: the bookkeeping is total and never forgets a missing byte *)
Theorem c06_tracker_never_forgets : forall (hist : list (Z * Z)) (s : dst),
  Forall (fun fd => 0 <= fst fd /\ 0 < snd fd) hist ->
  p_tracker (d_p s) = [] -> p_last_start (d_p s) = 0 -> p_last_end (d_p s) = 0 -> p_rcfg (d_p s) <> None ->
  exists s', handle_all hist s = (s', Ok tt) /\
    Inv (p_tracker (d_p s')) /\
    (forall x, den (p_tracker (d_p s')) x -> 0 <= x < p_last_end (d_p s')) /\
    p_last_end (d_p s') <= extent hist /\
    (forall x, 0 <= x < p_last_end (d_p s') -> ~ covered hist x -> den (p_tracker (d_p s')) x) /\
    fs_d s' = fs_d s /\ log_d s' = log_d s.
Proof. exact tracker_never_forgets. Qed.
Print Assumptions c06_tracker_never_forgets.
