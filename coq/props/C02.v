(* Property C02 — Every transfer over a fault-free link completes successfully in every mode.
   Model: System.v (Source.v + Dest.v + link + the canonical pacing of harness/transfer.py::Runner, which the
   correspondence run of bin/check C02 compares with the implementation round by round).
   What is proved: a kernel-checked exhaustive evaluation of the executable system over the finite space
   c02_space (BOUNDED INSTANCE: 2 modes x closure x 4 checksum types x segment lengths {1,2,4,64} x NAK mode x
   sizes {0,1,2,3,4,5,7,8,9} = 1152 transfers), plus the unbounded sender half (C07: the stream of every
   accepted put request for every file and configuration).  The unbounded two-sided statement is not proved. *)
From CFDP Require Import Base LostSeg Fs Checksum Handler Dest Source SourceSpec System SystemCases.
From CFDP.proofs Require Import SysC02 SysLift.

(* the evaluated space, as a boolean fold (vm_compute inside the kernel) *)
Theorem c02_all_small : forallb c02_case c02_space = true.
Proof. exact SysC02.c02_all_small. Qed.
Print Assumptions c02_all_small.

(* the same, readable: for every point of the space the run is quiescent (both handlers idle, links empty),
   the destination file equals the source file, each side issued exactly one successful Transaction-Finished,
   no fault callback fired and no API call raised *)
Theorem c02_small : forall mode closure ck seg imm size,
  In mode [ACKED; UNACKED] -> In closure [false; true] -> In ck [CK_MODULAR; CK_CRC32C; CK_CRC32; CK_NULL] ->
  In seg [1; 2; 4; 64] -> In imm [false; true] -> In size [0; 1; 2; 3; 4; 5; 7; 8; 9] ->
  c02_point mode closure ck seg imm size = true.
Proof. exact c02_small_lifted. Qed.
(* c02_point is, by definition, the verdict on the run of that configuration *)
Theorem c02_point_def : forall mode closure ck seg imm size,
  c02_point mode closure ck seg imm size =
  fault_free_ok [2] (test_data size) (run_case mode closure ck seg imm 2 size []).
Proof. intros; reflexivity. Qed.
Print Assumptions c02_small.

Theorem c02_verdict_means : forall dn data y q,
  fault_free_ok dn data (y, q) = true ->
  delivered_ok dn data (y, q) = true /\ y_errs y = [] /\
  existsb fault_event (e_log (s_env (y_src y))) = false /\ existsb fault_event (e_log (d_env (y_dst y))) = false /\
  length (filter success_event (e_log (d_env (y_dst y)))) = 1%nat.
Proof. exact fault_free_ok_means. Qed.
Theorem c02_delivered_means : forall dn data y q,
  delivered_ok dn data (y, q) = true ->
  q = true /\ file_content (e_fs (d_env (y_dst y))) dn = Some data /\
  length (filter success_event (e_log (s_env (y_src y)))) = 1%nat /\
  (1 <= length (filter success_event (e_log (d_env (y_dst y)))))%nat.
Proof. exact delivered_ok_means. Qed.
Theorem c02_quiescent_means : forall y, quiescent y = true ->
  s_state (y_src y) = ST_IDLE /\ d_state (y_dst y) = ST_IDLE /\ y_s2d y = [] /\ y_d2s y = [] /\ y_delayed y = [].
Proof. exact quiescent_means. Qed.
Print Assumptions c02_quiescent_means.
