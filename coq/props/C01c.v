(* Property C01, two-sided, over the two-handler system and EVERY fault schedule — whenever the receiving entity has
   reported a successful delivery, the destination file is byte-identical to the source file or differs only by a genuine
   collision of the negotiated CRC (same length, same CRC); whatever the link dropped, duplicated or delayed (any number
   of faults, any PDU of either direction), in both transmission modes, with or without closure, immediate or deferred
   NAK, after any number of scheduler rounds (so: at every moment of the run, at round granularity).  System.v: both
   handler models, the link with its fault schedule (drop / duplicate / delay; payload corruption is not modelled there:
   see props/C01b.v for the receiver-side statement that covers arbitrary PDU contents), the surrounding-entity duties,
   the clock.
   Composition of: every PDU the sender ever queues is genuine for the source file (File Data carries the bytes of the
   file at its offset, new tiles and retransmissions alike; every EOF carries size and checksum of the whole file; the
   Metadata carries the names, the size, the checksum type) as an invariant of the whole sender state machine for
   arbitrary inbound PDUs; the link only delivers what was emitted; the receiver, fed genuine PDUs in any order and
   multiplicity, never makes the file longer than the source, tracks every byte below its progress that is not in the
   file, and records "data complete" only for a file as long as the source whose checksum is that of the EOF (C05, C06,
   C01b; the F31 repair makes the verification fail while data is known to be missing); a transaction reported
   successful is never restarted (duties of the surrounding entity).
   Hypotheses beyond the addressing: a segment length limit, if configured, is positive (with a limit <= 0 the sender
   emits empty or backward File Data), the transmission mode is one of the two defined ones. *)
From CFDP Require Import Base LostSeg Fs Crc Checksum ChecksumSpec Handler Dest Source SourceSpec System.
From CFDP.proofs Require Import SystemSuccessProofs.

Theorem c01_system_success_means_identical :
  forall (cs cd : lcfg) (seq0 bits : Z) (p : putreq) (sn dn : path) (data : bytes) (faults : list fault)
         (fuel : nat) (tick : Z) (rs : rcfg),
  get_remote (l_remotes cs) (pr_dst p) = Some rs ->
  pr_names p = Some (sn, dn) -> sn <> [] -> length dn = 1%nat ->
  (r_cktype rs = CK_CRC32 \/ r_cktype rs = CK_CRC32C) ->
  match r_max_seg rs with Some m => 1 <= m | None => True end ->
  (let mode := match pr_mode p with Some m => m | None => r_mode rs end in mode = ACKED \/ mode = UNACKED) ->
  let res := transfer cs cd seq0 bits p sn data faults fuel tick in
  let y := fst res in
  existsb success_event (e_log (d_env (y_dst y))) = true ->
  exists d, file_content (e_fs (d_env (y_dst y))) dn = Some d /\
    (d = data \/
     (d <> data /\ zlen d = zlen data /\
      calculate_checksum (r_cktype rs) (Some d) (zlen d) 4096 = calculate_checksum (r_cktype rs) (Some data) (zlen data) 4096)).
Proof. exact system_success_means_identical. Qed.
Print Assumptions c01_system_success_means_identical.
