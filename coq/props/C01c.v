(* Property C01, two-sided, over the two-handler system and EVERY fault schedule — whenever the receiving entity has
   reported a successful delivery, the destination file is byte-identical to the source file or differs only by a genuine
   collision of the negotiated CRC; whatever the link dropped, duplicated or delayed (any number of faults, any PDU of
   either direction), in both transmission modes, with or without closure, immediate or deferred NAK, after any number
   of scheduler rounds (so: at every moment of the run, at round granularity).  System.v: both handler models, the link
   with its fault schedule (drop / duplicate / delay; payload corruption is not modelled there: see props/C01b.v for the
   receiver-side statement that covers arbitrary PDU contents), the surrounding-entity duties, the clock.
   Composition of: every File Data PDU the sender ever emits carries bytes of the source file at its offset (whole sender
   FSM), the EOF (No Error) carries the checksum and size of the source file (C07/C09), the link only delivers what was
   emitted, the receiver only writes what it is handed (C05) and reports success only from a verified state (C01b). *)
From CFDP Require Import Base LostSeg Fs Crc Checksum ChecksumSpec Handler Dest Source SourceSpec System.
From CFDP.proofs Require Import SystemSuccessProofs.

Theorem c01_system_success_means_identical :
  forall (cs cd : lcfg) (seq0 bits : Z) (p : putreq) (sn dn : path) (data : bytes) (faults : list fault)
         (fuel : nat) (tick : Z) (rs : rcfg),
  get_remote (l_remotes cs) (pr_dst p) = Some rs ->
  pr_names p = Some (sn, dn) -> sn <> [] -> length dn = 1%nat -> pr_msgs p = None ->
  (r_cktype rs = CK_CRC32 \/ r_cktype rs = CK_CRC32C) -> bytes_ok data = true ->
  let res := transfer cs cd seq0 bits p sn data faults fuel tick in
  let y := fst res in
  existsb success_event (e_log (d_env (y_dst y))) = true ->
  exists d, file_content (e_fs (d_env (y_dst y))) dn = Some d /\
    (d = data \/
     (d <> data /\ zlen d = zlen data /\
      calculate_checksum (r_cktype rs) (Some d) (zlen d) 4096 = calculate_checksum (r_cktype rs) (Some data) (zlen data) 4096)).
Proof. exact system_success_means_identical. Qed.
Print Assumptions c01_system_success_means_identical.
