(* Property C12 — Cancellation takes effect immediately and is signalled correctly.
   Model: cancel_request of both handlers, Source.notice_of_cancellation_s, Dest.handle_eof_pdu
   (EOF (cancel)), Dest completion (dest.py:464-491, 973-984, 1084-1126; source.py:358-381, 954-976). *)
From CFDP Require Import Base Fs Handler Dest Source HandlerSpec.
From CFDP.proofs Require Import CancelProofs.
From RecordUpdate Require Import RecordSet.
Import RecordSetNotations.

(* ---------- receiver: return value *)
Theorem c12_dest_cancel_idle : forall a b s, d_state s = ST_IDLE -> Dest.cancel_request a b s = (s, Ok false).
Proof. exact dest_cancel_idle. Qed.
Theorem c12_dest_cancel_unretrieved : forall a b s,
  d_state s <> ST_IDLE -> 0 < d_ready s -> Dest.cancel_request a b s = (s, Err E_UNRETRIEVED).
Proof. exact dest_cancel_unretrieved. Qed.
Theorem c12_dest_cancel_iff : forall a b s,
  d_state s <> ST_IDLE -> d_ready s <= 0 ->
  exists s' r, Dest.cancel_request a b s = (s', Ok r) /\
    (r = true <-> p_tid (d_p s) = Some (a, b)) /\ (r = false -> s' = s) /\
    (r = true ->
       d_step s' = DS_TRANSFER_COMPLETION /\ d_state s' = d_state s /\
       p_disp (d_p s') = DISP_CANCELED /\ f_cond (p_fin (d_p s')) = C_CANCEL_REQUEST /\
       f_fl (p_fin (d_p s')) = Some (l_id (d_cfg s), l_idw (d_cfg s)) /\
       f_deliv (p_fin (d_p s')) = f_deliv (p_fin (d_p s)) /\
       d_queue s' = d_queue s /\ fs_d s' = fs_d s /\ log_d s' = log_d s).
Proof. exact dest_cancel_iff. Qed.
Print Assumptions c12_dest_cancel_iff.

(* ---------- receiver: the next call signals the cancelled completion: Transaction-Finished with the
   condition, a Finished PDU with it (fault location included) iff closure or acknowledged mode,
   the incomplete file deleted exactly when disposition-on-cancellation is configured *)
Theorem c12_dest_completion_canceled : forall s r a b,
  d_state s = ST_BUSY -> d_step s = DS_TRANSFER_COMPLETION -> d_queue s = [] -> d_ready s = 0 ->
  p_disp (d_p s) = DISP_CANCELED -> p_rcfg (d_p s) = Some r -> p_tid (d_p s) = Some (a, b) -> 0 < r_ack_ms r ->
  let p := d_p s in let f := p_fin p in
  let del := r_disposition r && (f_deliv f =? DATA_INCOMPLETE) in
  let fstatus' := if del then FS_DISCARDED_DELIBERATELY else f_fstatus f in
  let needs_fin := (h_mode (p_conf p) =? ACKED) || ((h_mode (p_conf p) =? UNACKED) && p_closure p) in
  exists s', Dest.state_machine None s = (s', Ok tt) /\
    log_d s' = (if l_ind_fin (d_cfg s) then [EvFinished a b (f_cond f) (f_deliv f) fstatus' (f_fl f)] else []) ++ log_d s /\
    fs_d s' = (if del then fst (fs_delete_file (fs_d s) (p_file_name p)) else fs_d s) /\
    (if needs_fin
     then d_queue s' = [PFinished (set_dir TOWARDS_SENDER (p_conf p)) (f_cond f) (f_deliv f) fstatus' (f_fl f)]
     else d_queue s' = [] /\ d_state s' = ST_IDLE).
Proof. exact dest_completion_canceled. Qed.
Print Assumptions c12_dest_completion_canceled.

(* ---------- receiver: an EOF (cancel) from the sender *)
Theorem c12_dest_eof_cancel : forall s c ck sz r a b,
  c <> C_NO_ERROR -> p_rcfg (d_p s) = Some r -> p_tid (d_p s) = Some (a, b) -> d_state s = ST_BUSY ->
  exists s', handle_eof_pdu c ck sz s = (s', Ok tt) /\
    p_disp (d_p s') = DISP_CANCELED /\ f_cond (p_fin (d_p s')) = c /\
    f_fl (p_fin (d_p s')) = Some (r_id r, r_idw r) /\ f_deliv (p_fin (d_p s')) = DATA_INCOMPLETE /\
    p_progress (d_p s') = sz /\ fs_d s' = fs_d s /\
    (h_mode (p_conf (d_p s)) = UNACKED -> d_step s' = DS_TRANSFER_COMPLETION /\ d_queue s' = d_queue s) /\
    (h_mode (p_conf (d_p s)) = ACKED ->
       d_step s' = DS_SENDING_EOF_ACK /\
       d_queue s' = d_queue s ++ [PAck (set_dir TOWARDS_SENDER (p_conf (d_p s))) D_EOF c TS_ACTIVE]).
Proof. exact dest_eof_cancel. Qed.
Print Assumptions c12_dest_eof_cancel.

(* ---------- sender *)
Theorem c12_source_cancel_unretrieved : forall a b s,
  0 < s_ready s -> cancel_request_s a b s = (s, Err E_UNRETRIEVED).
Proof. exact source_cancel_unretrieved. Qed.
Theorem c12_source_cancel_wrong_id : forall a b s,
  s_ready s <= 0 -> q_tid (s_p s) <> Some (a, b) -> cancel_request_s a b s = (s, Ok false).
Proof. exact source_cancel_wrong_id. Qed.
Print Assumptions c12_source_cancel_wrong_id.

(* a successful cancel: the next PDU is EOF (Cancel Request Received), size = bytes sent so far,
   checksum over exactly that prefix; the handler leaves the file-data sending step for good.  In a mode other than
   acknowledged the transaction ends there and the user is told: Transaction-Finished (Cancel Request Received,
   data incomplete, file status unreported) is the last indication logged *)
Theorem c12_source_cancel_ok : forall a b s ck,
  s_ready s <= 0 -> q_tid (s_p s) = Some (a, b) -> s_state s = ST_BUSY -> q_rcfg (s_p s) <> None ->
  (q_cond_eof (s_p s) = None \/ q_cond_eof (s_p s) = Some C_NO_ERROR) ->
  fst (checksum_calculation (q_progress (s_p s)) s) = s ->
  snd (checksum_calculation (q_progress (s_p s)) s) = Ok ck ->
  exists s', cancel_request_s a b s = (s', Ok true) /\
    s_queue s' = s_queue s ++ [PEof (hdr_of (q_conf (s_p s)) TOWARDS_RECEIVER) C_CANCEL_REQUEST ck (q_progress (s_p s)) None] /\
    (sc_mode (q_conf (s_p s)) = ACKED ->
       s_step s' = SS_WAITING_FOR_EOF_ACK /\ s_state s' = ST_BUSY /\ q_progress (s_p s') = q_progress (s_p s) /\
       q_cond_eof (s_p s') = Some C_CANCEL_REQUEST /\
       log_s s' = (if l_ind_eof_sent (s_cfg s) then [EvEofSent a b] else []) ++ log_s s) /\
    (sc_mode (q_conf (s_p s)) <> ACKED ->
       s_state s' = ST_IDLE /\ s_step s' = SS_IDLE /\
       log_s s' = (if l_ind_fin (s_cfg s)
                   then [EvFinished a b C_CANCEL_REQUEST DATA_INCOMPLETE FS_UNREPORTED None] else []) ++
                  (if l_ind_eof_sent (s_cfg s) then [EvEofSent a b] else []) ++ log_s s).
Proof. exact source_cancel_ok. Qed.
Print Assumptions c12_source_cancel_ok.

(* the checksum the sender computes is the filestore checksum of the source file over the given size *)
Theorem c12_source_checksum_is_prefix : forall s p sn dn r d size,
  s_put s = Some p -> pr_names p = Some (sn, dn) -> q_md_only (s_p s) = false -> q_rcfg (s_p s) = Some r ->
  lookup (fs_s s) sn = Some (File d) -> sn <> [] ->
  checksum_calculation size s =
    (s, match Checksum.calculate_checksum (r_cktype r) (Some d) size (q_segment_len (s_p s)) with
        | Ok c => Ok c
        | Err Checksum.ChecksumNotImplemented => Err E_CHECKSUM_NOT_IMPL
        | Err Checksum.FileNotFound => Err E_FILE_NOT_FOUND
        | Err Checksum.ValueErr => Err E_VALUE
        | Err Checksum.OutOfFuel => Err E_FUEL
        end).
Proof. exact source_checksum_is_prefix. Qed.
Print Assumptions c12_source_checksum_is_prefix.
