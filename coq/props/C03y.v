(* Property C03, unbounded instances K = 1, delay (= reordering) — acknowledged mode is not disturbed by the DELAY of any
   ONE PDU of the transfer: the link holds the PDU back for d rounds (fault kind 2: emitted in round r, it is handed to
   the link in round r + d, before the PDUs emitted in that round), for EVERY file and configuration the file is
   delivered byte-identical and both users get a successful Transaction-Finished.  n = number of File Data PDUs of the
   stream; indices on the sender->receiver direction: 0 Metadata, 1..n File Data, n+1 EOF, n+2 ACK (Finished); on the
   receiver->sender direction: 0 ACK (EOF), 1 Finished.  System.run does not stop while a PDU is held back: a PDU
   released after both handlers have closed the transaction reaches their surrounding entities, which drop it (a late
   EOF PDU is acknowledged "terminated" by the receiving entity, a late Finished PDU by the sending entity); no late PDU
   re-opens a transaction or touches the delivered file. *)
From CFDP Require Import Base LostSeg Fs Crc Checksum Handler Dest Source SourceSpec System.
From CFDP.proofs Require Import DelayProofs.

(* (1) the control PDUs: EOF, ACK (Finished), ACK (EOF), Finished, held back for ANY number of rounds d.
     EOF             the receiver waits, the sender's Positive-ACK timer runs through the rounds without activity; if it
                     expires (limit >= 2) the EOF PDU is sent again and the late original arrives as a duplicate: at the
                     receiver still sending the ACK (EOF) (it completes and acknowledges again), waiting for the
                     ACK (Finished) (acknowledged again), or idle again (its entity acknowledges "terminated"); the extra
                     ACK (EOF) meets the sender after its ACK (Finished) (accepted) or idle (dropped),
     ACK (EOF)       the receiver completes, its Finished PDU implies the ACK (EOF) for the sender (F30 repair); the late
                     ACK (EOF) meets the sender after its ACK (Finished) (accepted) or idle (dropped): no timer involved,
     Finished        the receiver's Positive-ACK timer runs; if it expires (limit >= 2) the Finished PDU is sent again, the
                     late original meets the sender after its ACK (Finished) (accepted) or idle (its entity answers
                     ACK (Finished, terminated), which the receiving entity drops),
     ACK (Finished)  the sender is done, the receiver's timer runs; if it expires the re-sent Finished PDU is answered by the
                     sending entity; the late original is dropped by the receiving entity.
   No API call raises (y_errs = []) and the run passes the verdict of the fault-free runs.  Timers: for the PDU in question
   either the Positive-ACK limit of the entity whose timer runs meanwhile allows one re-transmission (>= 2), or that timer
   does not expire in the idle rounds (each advances the clocks by [tick]): the sender's for the EOF PDU (d - 1 idle
   rounds), the receiver's for the Finished PDU (d - 2) and the ACK (Finished) (d - 3); nothing for the ACK (EOF).  With
   limit 1 and an expiring timer the transaction is abandoned (DelayProofs.delay_control_limit_examples).  Neither
   0 < tick nor 1 <= d is needed. *)
Theorem c03_single_delay_control :
  forall (cs cd : lcfg) (seq0 bits : Z) (p : putreq) (rs rd : rcfg) (sn dn : path) (data : bytes) (tick d : Z) (ft : fault),
  let w := Z.max (l_idw cs) (pr_dstw p) in
  let large := 4294967295 <? zlen data in
  let derived := r_max_packet rs - (4 + 2 * w + bits / 8) - (if large then 8 else 4) - (if r_crc rs then 2 else 0) in
  let seg := match r_max_seg rs with Some m => Z.min m derived | None => derived end in
  (* sender side: entity cs sends to the entity named by the request; acknowledged mode *)
  get_remote (l_remotes cs) (pr_dst p) = Some rs ->
  pr_names p = Some (sn, dn) -> sn <> [] -> dn <> [] -> pr_msgs p = None ->
  (match pr_mode p with Some m => m | None => r_mode rs end) = ACKED ->
  let n := (zlen data + seg - 1) / seg in
  (* the held-back PDU: EOF, ACK (Finished) (sender), ACK (EOF), Finished (receiver); kind 2 = delay by d rounds *)
  (ft = mkFault 0 (n + 1) 2 d \/ ft = mkFault 0 (n + 2) 2 d \/ ft = mkFault 1 0 2 d \/ ft = mkFault 1 1 2 d) ->
  (* the timer that runs while the PDU is held back: one re-transmission allowed, or no expiry in the idle rounds *)
  (ft = mkFault 0 (n + 1) 2 d -> 2 <= r_ack_limit rs \/ (d - 1) * tick < r_ack_ms rs) ->
  (ft = mkFault 0 (n + 2) 2 d -> 2 <= r_ack_limit rd \/ (d - 3) * tick < r_ack_ms rd) ->
  (ft = mkFault 1 1 2 d -> 2 <= r_ack_limit rd \/ (d - 2) * tick < r_ack_ms rd) ->
  (* the Positive-ACK timer intervals of both entities are positive (as in C03d / C03r) *)
  0 < r_ack_ms rs -> 0 < r_ack_ms rd ->
  (bits = 8 \/ bits = 16 \/ bits = 32) -> 0 <= seq0 < 2 ^ bits -> 1 <= seg -> 6 <= derived ->
  (r_cktype rs = CK_CRC32 \/ r_cktype rs = CK_CRC32C \/ r_cktype rs = CK_NULL \/ r_cktype rs = CK_MODULAR) ->
  bytes_ok data = true ->
  (* receiver side: entity cd is the addressed entity and knows the sender; the destination path is a fresh file name
     directly under the root of an empty filestore *)
  l_id cd = pr_dst p -> get_remote (l_remotes cd) (l_id cs) = Some rd -> length dn = 1%nat ->
  get_fault_handler (l_faults cd) C_CHECKSUM_FAILURE <> None ->
  l_ind_fin cs = true -> l_ind_fin cd = true ->
  exists fuel,
    let res := transfer cs cd seq0 bits p sn data [ft] fuel tick in
    delivered_ok dn data res = true /\ y_errs (fst res) = [] /\ fault_free_ok dn data res = true.
Proof. exact single_delay_control. Qed.
Print Assumptions c03_single_delay_control.

(* (2) a File Data PDU: the PDU with index k (1 <= k <= n) held back for d rounds and released no later than in the round
   in which the EOF PDU is sent (k + d <= n + 1): pure reordering.  The PDU is overtaken by the d - 1 File Data PDUs that
   follow it; at the first of them the receiver records the gap, the others are received in order, the late PDU fills the
   gap exactly (the tracker is empty again) and is followed in the same round by the sender's next File Data PDU or its
   EOF PDU, which finds nothing missing: no NAK is sent, nothing is retransmitted, no API call raises, the verdict of the
   fault-free runs.  Deferred NAK mode, or d <= 1 (the PDU arrives one round late but still in order: both NAK modes).
   No timer is involved (every round has activity).
   Not covered by this theorem (DelayProofs.delay_data_examples evaluates instances of each, all delivered without an
   exception): immediate NAK mode with d >= 2 (the gap is NAKed at once, the segment arrives twice), and release after the
   EOF PDU was processed (k + d >= n + 2: the deferred lost-segment procedure requests the segment; retransmission and
   late original both arrive; a PDU released after both handlers are idle again is dropped by the receiving entity). *)
Theorem c03_single_delay_file_data :
  forall (cs cd : lcfg) (seq0 bits : Z) (p : putreq) (rs rd : rcfg) (sn dn : path) (data : bytes) (tick k d : Z) (ft : fault),
  let w := Z.max (l_idw cs) (pr_dstw p) in
  let large := 4294967295 <? zlen data in
  let derived := r_max_packet rs - (4 + 2 * w + bits / 8) - (if large then 8 else 4) - (if r_crc rs then 2 else 0) in
  let seg := match r_max_seg rs with Some m => Z.min m derived | None => derived end in
  get_remote (l_remotes cs) (pr_dst p) = Some rs ->
  pr_names p = Some (sn, dn) -> sn <> [] -> dn <> [] -> pr_msgs p = None ->
  (match pr_mode p with Some m => m | None => r_mode rs end) = ACKED ->
  let n := (zlen data + seg - 1) / seg in
  (* the held-back PDU: File Data PDU number k, released no later than in the round of the EOF PDU *)
  ft = mkFault 0 k 2 d -> 1 <= k <= n -> k + d <= n + 1 ->
  (* the receiver's NAK mode for the sender is the deferred one, unless nothing overtakes the PDU *)
  r_imm_nak rd = false \/ d <= 1 ->
  0 < r_ack_ms rs -> 0 < r_ack_ms rd ->
  (bits = 8 \/ bits = 16 \/ bits = 32) -> 0 <= seq0 < 2 ^ bits -> 1 <= seg -> 6 <= derived ->
  (r_cktype rs = CK_CRC32 \/ r_cktype rs = CK_CRC32C \/ r_cktype rs = CK_NULL \/ r_cktype rs = CK_MODULAR) ->
  bytes_ok data = true ->
  l_id cd = pr_dst p -> get_remote (l_remotes cd) (l_id cs) = Some rd -> length dn = 1%nat ->
  get_fault_handler (l_faults cd) C_CHECKSUM_FAILURE <> None ->
  l_ind_fin cs = true -> l_ind_fin cd = true ->
  exists fuel,
    let res := transfer cs cd seq0 bits p sn data [ft] fuel tick in
    delivered_ok dn data res = true /\ y_errs (fst res) = [] /\ fault_free_ok dn data res = true.
Proof. exact single_delay_file_data. Qed.
Print Assumptions c03_single_delay_file_data.

(* (3) the Metadata PDU held back for one round (d <= 1): it reaches the receiver together with, and before, the first
   File Data PDU (the EOF PDU, if the file is empty); nothing is reordered, the run is one round longer.  (Held back
   longer, the Metadata PDU is overtaken by File Data: the receiver starts the transaction without it and asks for it
   with a NAK - the shapes of props/C03m.v; instances in DelayProofs.delay_data_examples.) *)
Theorem c03_single_delay_metadata :
  forall (cs cd : lcfg) (seq0 bits : Z) (p : putreq) (rs rd : rcfg) (sn dn : path) (data : bytes) (tick d : Z) (ft : fault),
  let w := Z.max (l_idw cs) (pr_dstw p) in
  let large := 4294967295 <? zlen data in
  let derived := r_max_packet rs - (4 + 2 * w + bits / 8) - (if large then 8 else 4) - (if r_crc rs then 2 else 0) in
  let seg := match r_max_seg rs with Some m => Z.min m derived | None => derived end in
  get_remote (l_remotes cs) (pr_dst p) = Some rs ->
  pr_names p = Some (sn, dn) -> sn <> [] -> dn <> [] -> pr_msgs p = None ->
  (match pr_mode p with Some m => m | None => r_mode rs end) = ACKED ->
  ft = mkFault 0 0 2 d -> d <= 1 ->
  0 < r_ack_ms rs -> 0 < r_ack_ms rd ->
  (bits = 8 \/ bits = 16 \/ bits = 32) -> 0 <= seq0 < 2 ^ bits -> 1 <= seg -> 6 <= derived ->
  (r_cktype rs = CK_CRC32 \/ r_cktype rs = CK_CRC32C \/ r_cktype rs = CK_NULL \/ r_cktype rs = CK_MODULAR) ->
  bytes_ok data = true ->
  l_id cd = pr_dst p -> get_remote (l_remotes cd) (l_id cs) = Some rd -> length dn = 1%nat ->
  get_fault_handler (l_faults cd) C_CHECKSUM_FAILURE <> None ->
  l_ind_fin cs = true -> l_ind_fin cd = true ->
  exists fuel,
    let res := transfer cs cd seq0 bits p sn data [ft] fuel tick in
    delivered_ok dn data res = true /\ y_errs (fst res) = [] /\ fault_free_ok dn data res = true.
Proof. exact single_delay_metadata. Qed.
Print Assumptions c03_single_delay_metadata.
