(* Property C03 — Acknowledged mode recovers from bounded loss, duplication and reordering.   (partial)
   Model: System.v with a fault schedule (drop / duplicate / delay of the i-th PDU of either direction), the
   surrounding entity of DESIGN.md 3.5, timers expiring while the link is quiet.
   What is proved: kernel-checked exhaustive evaluations (BOUNDED INSTANCES, the bounds are in the statements):
   every schedule with K <= 2 faults on files of 0/5/9 bytes (the bound the property names), and every schedule with
   K = 3 faults on a 5-byte file, both NAK modes, closure on/off, limits K+3 > K.  Unbounded ingredients: the retry
   theorems of C04, the NAK/retransmission theorems of C06/C08.  The general liveness theorem is not proved. *)
From CFDP Require Import Base LostSeg Fs Checksum Handler Dest Source SourceSpec System SystemCases.
From CFDP.proofs Require Import SysC03a SysLift.

(* no fault: delivered (sanity of the instance) *)
Theorem c03_k0 : forallb (fun '(cl, (imm, size)) => c03_case cl imm size 0 []) c03_k1_space = true.
Proof. exact c03_k0_small. Qed.

(* every single fault *)
Theorem c03_k1 : forall cl imm size f,
  In cl [false; true] -> In imm [false; true] -> In size [0; 5; 9] -> In f (fault_space 12) ->
  c03_case cl imm size 1 [f] = true.
Proof. exact c03_k1_lifted. Qed.
Print Assumptions c03_k1.

(* every pair of faults *)
Theorem c03_k2 : forall cl imm size f1 f2,
  In cl [false; true] -> In imm [false; true] -> In size [0; 5; 9] -> In (f1, f2) (pairs (fault_space 10)) ->
  c03_case cl imm size 2 [f1; f2] = true.
Proof. exact c03_k2_lifted. Qed.
Print Assumptions c03_k2.

(* every triple of faults on a 5-byte file *)
Theorem c03_k3 : forall cl imm f1 f2 f3,
  In cl [false; true] -> In imm [false; true] -> In (f1, f2, f3) (triples (fault_space 9)) ->
  c03_case cl imm 5 3 [f1; f2; f3] = true.
Proof. exact c03_k3_lifted. Qed.
Print Assumptions c03_k3.

(* what c03_case = true says: link quiet and both handlers idle, destination file byte-identical, the sender's
   user got exactly one successful Transaction-Finished, the receiver's user at least one and it is its last indication *)
Theorem c03_verdict_means : forall dn data y q,
  delivered_ok dn data (y, q) = true ->
  q = true /\ file_content (e_fs (d_env (y_dst y))) dn = Some data /\
  length (filter success_event (e_log (s_env (y_src y)))) = 1%nat /\
  (1 <= length (filter success_event (e_log (d_env (y_dst y)))))%nat.
Proof. exact delivered_ok_means. Qed.

(* non-vacuity: the fault space really contains a dropped Metadata PDU (source->dest, index 0), a dropped ACK(EOF)
   (dest->source, index 0), duplicates and delays; sizes of the evaluated spaces *)
Example c03_nv :
  existsb (fun f => (ft_dir f =? 0) && (ft_index f =? 0) && (ft_kind f =? 0)) (fault_space 12) = true /\
  existsb (fun f => (ft_dir f =? 1) && (ft_index f =? 0) && (ft_kind f =? 0)) (fault_space 12) = true /\
  (zlen (fault_space 12), zlen (pairs (fault_space 10)), zlen (triples (fault_space 9))) = (72, 1770, 24804).
Proof. vm_compute. repeat split; reflexivity. Qed.
