(* Run.v — integer-coded entry points of the executable model, used by the
   correspondence check (extracted to OCaml, and evaluated in Coq on samples).
   Every entry point has type  list (list Z) -> list (list Z):
   one inner list per operation in, one observation per operation out. *)
From CFDP Require Import Base LostSeg.

Definition lop_decode (l : list Z) : option lop :=
  match l with
  | [0; s; e] => Some (OAdd s e)
  | [1; s; e] => Some (ORemove s e)
  | [2] => Some OCoalesce
  | [3] => Some OReset
  | _ => None
  end.

Definition flat (l : tracker) : list Z := flat_map (fun p => [fst p; snd p]) l.

Fixpoint run_lostseg_from (l : tracker) (ops : list (list Z)) : list (list Z) :=
  match ops with
  | [] => []
  | o :: t =>
      match lop_decode o with
      | None => [[-1]]
      | Some op => let '(l', c) := lstep l op in (c :: flat l') :: run_lostseg_from l' t
      end
  end.
Definition run_lostseg := run_lostseg_from [].

(* ---- C09: checksums.  op = [0; ty; exists; size; seg; data...]  (calculate)
                          | [1; ty; exists; size; seg; c0; c1; c2; c3; data...] (verify)
   obs = code :: payload;  code 0 = Ok, 1 FileNotFoundError, 2 ValueError,
   3 ChecksumNotImplemented, 4 out of fuel *)
From CFDP Require Import Crc Checksum.
Definition cerr_code (e : cerr) : Z :=
  match e with FileNotFound => 1 | ValueErr => 2 | ChecksumNotImplemented => 3 | OutOfFuel => 4 end.
Definition run_checksum_op (o : list Z) : list Z :=
  match o with
  | 0 :: ty :: ex :: size :: seg :: data =>
      match calculate_checksum ty (if ex =? 0 then None else Some data) size seg with
      | Ok r => 0 :: r
      | Err e => [cerr_code e]
      end
  | 1 :: ty :: ex :: size :: seg :: c0 :: c1 :: c2 :: c3 :: data =>
      match verify_checksum [c0; c1; c2; c3] ty (if ex =? 0 then None else Some data) size seg with
      | Ok b => [0; if b then 1 else 0]
      | Err e => [cerr_code e]
      end
  | _ => [-1]
  end.
Definition run_checksum (ops : list (list Z)) : list (list Z) := map run_checksum_op ops.

(* ---- C17: native filestore reference model.
   paths are length-prefixed: [n; c1; ...; cn].
   op  = 0 p | 1 p | 2 a b | 3 a b | 4 p | 5 p rec | 6 p | 7 p off n bytes | 8 p off len | 9 p | 10 p | 11 p
   obs = [kind; ...] ++ tree snapshot;  kind 0 code c | 1 data n bytes | 2 int | 3 bool | 4 none | 5 oserr e *)
From CFDP Require Import Fs FsSpec.
Definition take_path (l : list Z) : option (path * list Z) :=
  match l with
  | n :: r => if (0 <=? n) && (n <=? zlen r) then Some (ztake n r, zdrop n r) else None
  | [] => None
  end.
Definition fop_decode (l : list Z) : option fop :=
  match l with
  | tag :: r =>
    match take_path r with
    | None => None
    | Some (p, r1) =>
      if tag =? 0 then Some (FCreate p) else if tag =? 1 then Some (FDelete p)
      else if tag =? 4 then Some (FMkdir p) else if tag =? 6 then Some (FTruncate p)
      else if tag =? 9 then Some (FSize p) else if tag =? 10 then Some (FExists p)
      else if tag =? 11 then Some (FIsDir p)
      else if tag =? 5 then match r1 with [b] => Some (FRmdir p (negb (b =? 0))) | _ => None end
      else if tag =? 8 then match r1 with [off; len] => Some (FRead p off len) | _ => None end
      else if tag =? 7 then match r1 with off :: n :: d => Some (FWrite p (ztake n d) off) | _ => None end
      else if (tag =? 2) || (tag =? 3) then
        match take_path r1 with
        | Some (q, []) => Some (if tag =? 2 then FRename p q else FReplace p q)
        | _ => None
        end
      else None
    end
  | [] => None
  end.
Definition oserr_code (e : oserr) : Z :=
  match e with FileNotFoundError => 1 | IsADirectoryError => 2 | NotADirectoryError => 3 | PermissionError => 4 end.
Definition fres_encode (r : fres) : list Z :=
  match r with
  | RCode c => [0; c] | RData d => 1 :: zlen d :: d | RInt n => [2; n]
  | RBool b => [3; if b then 1 else 0] | RNone => [4] | RErr e => [5; oserr_code e]
  end.
Definition tree_encode (t : tree) : list Z :=
  zlen t :: flat_map (fun e => zlen (fst e) :: fst e ++
     match snd e with Dir => [1; 0] | File d => 0 :: zlen d :: d end) t.
Fixpoint run_fs_from (t : tree) (ops : list (list Z)) : list (list Z) :=
  match ops with
  | [] => []
  | o :: r =>
      match fop_decode o with
      | None => [[-1]]
      | Some op => let '(t', res) := fstep t op in (fres_encode res ++ tree_encode t') :: run_fs_from t' r
      end
  end.
Definition run_fs := run_fs_from [].

(* ---- handlers.  First op must be the configuration op [9; ...].
   dest ops:   [0; pdu] sm(pdu) | [1] sm(None) | [2] get | [3; src; seq] cancel | [4] reset | [5; ms] advance
               | [6; on] reject writes | [7; fs-setup] | [10; path] read file
   source ops: the same, plus [8; put request]
   obs = [exc; ret] ++ state ++ events ++ extra *)
From CFDP Require Import Handler Dest Source Codec.
From RecordUpdate Require Import RecordSet.
Import RecordSetNotations.

Definition clear_log_d (s : dst) : dst := s <| d_env ::= (fun e => e <| e_log := [] |>) |>.
Definition finish_d {A} (r : dst * res Z A) (retv : A -> Z) (extra : dst -> A -> list Z) : dst * list Z :=
  let '(s, x) := r in
  let '(exc, rv, ex) := match x with Ok a => (0, retv a, extra s a) | Err e => (e, 0, []) end in
  (s, [exc; rv] ++ obs_dest s ++ enc_events (e_log (d_env s)) ++ ex).

Definition dest_op (s0 : dst) (o : list Z) : option (dst * list Z) :=
  let s := clear_log_d s0 in
  match o with
  | 0 :: p => match dec_pdu p with
              | Some pd => Some (finish_d (Dest.state_machine (Some pd) s) (fun _ => 0) (fun _ _ => []))
              | None => None end
  | [1] => Some (finish_d (Dest.state_machine None s) (fun _ => 0) (fun _ _ => []))
  | [2] => Some (finish_d (Dest.get_next_packet s) (fun p => match p with Some _ => 1 | None => 0 end) (fun _ p => enc_got p))
  | [3; a; b] => Some (finish_d (Dest.cancel_request a b s) b2z (fun _ _ => []))
  | [4] => Some (finish_d (Dest.reset s) (fun _ => 0) (fun _ _ => []))
  | [5; ms] => Some (finish_d (modify (fun s => s <| d_env ::= (fun e => e <| e_now ::= Z.add ms |>) |>) s) (fun _ => 0) (fun _ _ => []))
  | [6; on] => Some (finish_d (modify (fun s => s <| d_env ::= (fun e => e <| e_reject_writes := z2b on |>) |>) s) (fun _ => 0) (fun _ _ => []))
  | 7 :: r => match fs_setup (e_fs (d_env s)) r with
              | Some t => Some (finish_d (modify (fun s => s <| d_env ::= (fun e => e <| e_fs := t |>) |>) s) (fun _ => 0) (fun _ _ => []))
              | None => None end
  | 10 :: r => match dec_path r with
               | Some (p, _) => Some (finish_d (ret tt s) (fun _ => 0) (fun s _ => enc_file (e_fs (d_env s)) p))
               | None => None end
  | _ => None
  end.

Fixpoint run_dest_from (s : dst) (ops : list (list Z)) : list (list Z) :=
  match ops with
  | [] => []
  | o :: t => match dest_op s o with
              | Some (s', ob) => ob :: run_dest_from s' t
              | None => [[-1]]
              end
  end.
Definition run_dest (ops : list (list Z)) : list (list Z) :=
  match ops with
  | (9 :: c) :: t => match dec_lcfg c with
                     | Some (cfg, _) => [] :: run_dest_from (dst_init cfg) t
                     | None => [[-1]] end
  | _ => [[-1]]
  end.

Definition clear_log_s (s : src) : src := s <| s_env ::= (fun e => e <| e_log := [] |>) |>.
Definition finish_s {A} (r : src * res Z A) (retv : A -> Z) (extra : src -> A -> list Z) : src * list Z :=
  let '(s, x) := r in
  let '(exc, rv, ex) := match x with Ok a => (0, retv a, extra s a) | Err e => (e, 0, []) end in
  (s, [exc; rv] ++ obs_source s ++ enc_events (e_log (s_env s)) ++ ex).

Definition source_op (s0 : src) (o : list Z) : option (src * list Z) :=
  let s := clear_log_s s0 in
  match o with
  | 0 :: p => match dec_pdu p with
              | Some pd => Some (finish_s (state_machine_s (Some pd) s) (fun _ => 0) (fun _ _ => []))
              | None => None end
  | [1] => Some (finish_s (state_machine_s None s) (fun _ => 0) (fun _ _ => []))
  | [2] => Some (finish_s (get_next_packet_s s) (fun p => match p with Some _ => 1 | None => 0 end) (fun _ p => enc_got p))
  | [3; a; b] => Some (finish_s (cancel_request_s a b s) b2z (fun _ _ => []))
  | [4] => Some (finish_s (reset_s s) (fun _ => 0) (fun _ _ => []))
  | [5; ms] => Some (finish_s (modify (fun s => s <| s_env ::= (fun e => e <| e_now ::= Z.add ms |>) |>) s) (fun _ => 0) (fun _ _ => []))
  | [6; on] => Some (finish_s (ret tt s) (fun _ => 0) (fun _ _ => []))
  | 7 :: r => match fs_setup (e_fs (s_env s)) r with
              | Some t => Some (finish_s (modify (fun s => s <| s_env ::= (fun e => e <| e_fs := t |>) |>) s) (fun _ => 0) (fun _ _ => []))
              | None => None end
  | 8 :: r => match dec_put r with
              | Some pr => Some (finish_s (put_request pr s) b2z (fun _ _ => []))
              | None => None end
  | 10 :: r => match dec_path r with
               | Some (p, _) => Some (finish_s (ret tt s) (fun _ => 0) (fun s _ => enc_file (e_fs (s_env s)) p))
               | None => None end
  | _ => None
  end.

Fixpoint run_source_from (s : src) (ops : list (list Z)) : list (list Z) :=
  match ops with
  | [] => []
  | o :: t => match source_op s o with
              | Some (s', ob) => ob :: run_source_from s' t
              | None => [[-1]]
              end
  end.
Definition run_source (ops : list (list Z)) : list (list Z) :=
  match ops with
  | (9 :: c) :: t => match dec_lcfg c with
                     | Some (cfg, [seq0; bits]) => [] :: run_source_from (src_init cfg seq0 bits) t
                     | _ => [[-1]] end
  | _ => [[-1]]
  end.

(* ---- whole system (System.v): one case =
   [9; source cfg...; seq0; bits] ; [9; dest cfg...] ; [8; put request...] ; source path ++ [n; data...] ;
   [nfaults; (dir; idx; kind; arg)*] ; [fuel; tick] ; dest path
   obs = [quiescent; rounds; clock] ; errs ; source events ; dest events ; dest file ; [cnt s2d; cnt d2s] *)
From CFDP Require Import System.
Fixpoint dec_faults (n : nat) (l : list Z) : list fault :=
  match n, l with
  | S k, d :: i :: kd :: a :: t => mkFault d i kd a :: dec_faults k t
  | _, _ => []
  end.
Definition run_system (ops : list (list Z)) : list (list Z) :=
  match ops with
  | [9 :: cs; 9 :: cd; 8 :: pr; fl; nf :: fts; [fuel; tick]; dnp] =>
      match dec_lcfg cs, dec_lcfg cd, dec_put pr, dec_path fl, dec_path dnp with
      | Some (cfs, [seq0; bits]), Some (cfd, _), Some p, Some (sn, n :: data), Some (dn, _) =>
          let '(y, q) := transfer cfs cfd seq0 bits p sn (ztake n data) (dec_faults (Z.to_nat nf) fts) (Z.to_nat fuel) tick in
          [[b2z q; y_round y; e_now (s_env (y_src y))];
           flat_map (fun e => [fst e; snd e]) (rev (y_errs y));
           enc_events (e_log (s_env (y_src y)));
           enc_events (e_log (d_env (y_dst y)));
           enc_file (e_fs (d_env (y_dst y))) dn;
           [y_cnt_s2d y; y_cnt_d2s y]]
      | _, _, _, _, _ => [[-1]]
      end
  | _ => [[-2]]
  end.
