(* Run.v — integer-coded entry points of the executable model, used by the
   correspondence check (extracted to OCaml, and evaluated in Coq on samples).
   Every entry point has type  list (list Z) -> list (list Z):
   one inner list per operation in, one observation per operation out. *)
From CFDP Require Import Base LostSeg.

Definition lop_decode (l : list Z) : option lop :=
  match l with
  | [0; s; e] => Some (OAdd s e)
  | [1; s; e] => Some (ORemove s e)
  | [2] => Some OCoalesce
  | [3] => Some OReset
  | _ => None
  end.

Definition flat (l : tracker) : list Z := flat_map (fun p => [fst p; snd p]) l.

Fixpoint run_lostseg_from (l : tracker) (ops : list (list Z)) : list (list Z) :=
  match ops with
  | [] => []
  | o :: t =>
      match lop_decode o with
      | None => [[-1]]
      | Some op => let '(l', c) := lstep l op in (c :: flat l') :: run_lostseg_from l' t
      end
  end.
Definition run_lostseg := run_lostseg_from [].

(* ---- C09: checksums.  op = [0; ty; exists; size; seg; data...]  (calculate)
                          | [1; ty; exists; size; seg; c0; c1; c2; c3; data...] (verify)
   obs = code :: payload;  code 0 = Ok, 1 FileNotFoundError, 2 ValueError,
   3 ChecksumNotImplemented, 4 out of fuel *)
From CFDP Require Import Crc Checksum.
Definition cerr_code (e : cerr) : Z :=
  match e with FileNotFound => 1 | ValueErr => 2 | ChecksumNotImplemented => 3 | OutOfFuel => 4 end.
Definition run_checksum_op (o : list Z) : list Z :=
  match o with
  | 0 :: ty :: ex :: size :: seg :: data =>
      match calculate_checksum ty (if ex =? 0 then None else Some data) size seg with
      | Ok r => 0 :: r
      | Err e => [cerr_code e]
      end
  | 1 :: ty :: ex :: size :: seg :: c0 :: c1 :: c2 :: c3 :: data =>
      match verify_checksum [c0; c1; c2; c3] ty (if ex =? 0 then None else Some data) size seg with
      | Ok b => [0; if b then 1 else 0]
      | Err e => [cerr_code e]
      end
  | _ => [-1]
  end.
Definition run_checksum (ops : list (list Z)) : list (list Z) := map run_checksum_op ops.
