(* Run.v — integer-coded entry points of the executable model, used by the
   correspondence check (extracted to OCaml, and evaluated in Coq on samples).
   Every entry point has type  list (list Z) -> list (list Z):
   one inner list per operation in, one observation per operation out. *)
From CFDP Require Import Base LostSeg.

Definition lop_decode (l : list Z) : option lop :=
  match l with
  | [0; s; e] => Some (OAdd s e)
  | [1; s; e] => Some (ORemove s e)
  | [2] => Some OCoalesce
  | [3] => Some OReset
  | _ => None
  end.

Definition flat (l : tracker) : list Z := flat_map (fun p => [fst p; snd p]) l.

Fixpoint run_lostseg_from (l : tracker) (ops : list (list Z)) : list (list Z) :=
  match ops with
  | [] => []
  | o :: t =>
      match lop_decode o with
      | None => [[-1]]
      | Some op => let '(l', c) := lstep l op in (c :: flat l') :: run_lostseg_from l' t
      end
  end.
Definition run_lostseg := run_lostseg_from [].

(* ---- C09: checksums.  op = [0; ty; exists; size; seg; data...]  (calculate)
                          | [1; ty; exists; size; seg; c0; c1; c2; c3; data...] (verify)
   obs = code :: payload;  code 0 = Ok, 1 FileNotFoundError, 2 ValueError,
   3 ChecksumNotImplemented, 4 out of fuel *)
From CFDP Require Import Crc Checksum.
Definition cerr_code (e : cerr) : Z :=
  match e with FileNotFound => 1 | ValueErr => 2 | ChecksumNotImplemented => 3 | OutOfFuel => 4 end.
Definition run_checksum_op (o : list Z) : list Z :=
  match o with
  | 0 :: ty :: ex :: size :: seg :: data =>
      match calculate_checksum ty (if ex =? 0 then None else Some data) size seg with
      | Ok r => 0 :: r
      | Err e => [cerr_code e]
      end
  | 1 :: ty :: ex :: size :: seg :: c0 :: c1 :: c2 :: c3 :: data =>
      match verify_checksum [c0; c1; c2; c3] ty (if ex =? 0 then None else Some data) size seg with
      | Ok b => [0; if b then 1 else 0]
      | Err e => [cerr_code e]
      end
  | _ => [-1]
  end.
Definition run_checksum (ops : list (list Z)) : list (list Z) := map run_checksum_op ops.

(* ---- C17: native filestore reference model.
   paths are length-prefixed: [n; c1; ...; cn].
   op  = 0 p | 1 p | 2 a b | 3 a b | 4 p | 5 p rec | 6 p | 7 p off n bytes | 8 p off len | 9 p | 10 p | 11 p
   obs = [kind; ...] ++ tree snapshot;  kind 0 code c | 1 data n bytes | 2 int | 3 bool | 4 none | 5 oserr e *)
From CFDP Require Import Fs FsSpec.
Definition take_path (l : list Z) : option (path * list Z) :=
  match l with
  | n :: r => if (0 <=? n) && (n <=? zlen r) then Some (ztake n r, zdrop n r) else None
  | [] => None
  end.
Definition fop_decode (l : list Z) : option fop :=
  match l with
  | tag :: r =>
    match take_path r with
    | None => None
    | Some (p, r1) =>
      if tag =? 0 then Some (FCreate p) else if tag =? 1 then Some (FDelete p)
      else if tag =? 4 then Some (FMkdir p) else if tag =? 6 then Some (FTruncate p)
      else if tag =? 9 then Some (FSize p) else if tag =? 10 then Some (FExists p)
      else if tag =? 11 then Some (FIsDir p)
      else if tag =? 5 then match r1 with [b] => Some (FRmdir p (negb (b =? 0))) | _ => None end
      else if tag =? 8 then match r1 with [off; len] => Some (FRead p off len) | _ => None end
      else if tag =? 7 then match r1 with off :: n :: d => Some (FWrite p (ztake n d) off) | _ => None end
      else if (tag =? 2) || (tag =? 3) then
        match take_path r1 with
        | Some (q, []) => Some (if tag =? 2 then FRename p q else FReplace p q)
        | _ => None
        end
      else None
    end
  | [] => None
  end.
Definition oserr_code (e : oserr) : Z :=
  match e with FileNotFoundError => 1 | IsADirectoryError => 2 | NotADirectoryError => 3 | PermissionError => 4 end.
Definition fres_encode (r : fres) : list Z :=
  match r with
  | RCode c => [0; c] | RData d => 1 :: zlen d :: d | RInt n => [2; n]
  | RBool b => [3; if b then 1 else 0] | RNone => [4] | RErr e => [5; oserr_code e]
  end.
Definition tree_encode (t : tree) : list Z :=
  zlen t :: flat_map (fun e => zlen (fst e) :: fst e ++
     match snd e with Dir => [1; 0] | File d => 0 :: zlen d :: d end) t.
Fixpoint run_fs_from (t : tree) (ops : list (list Z)) : list (list Z) :=
  match ops with
  | [] => []
  | o :: r =>
      match fop_decode o with
      | None => [[-1]]
      | Some op => let '(t', res) := fstep t op in (fres_encode res ++ tree_encode t') :: run_fs_from t' r
      end
  end.
Definition run_fs := run_fs_from [].
