(* Mib.v — model of mib.py::DefaultFaultHandlerBase.set_handler (mib.py:75-87):
   conditions outside the table are refused with ValueError (None), the table is unchanged. *)
From CFDP Require Import Base Handler.
Fixpoint table_mem (l : list (Z * Z)) (c : Z) : bool :=
  match l with [] => false | (k, _) :: t => (k =? c) || table_mem t c end.
Fixpoint table_update (l : list (Z * Z)) (c h : Z) : list (Z * Z) :=
  match l with [] => [] | (k, v) :: t => if k =? c then (k, h) :: t else (k, v) :: table_update t c h end.
Definition set_handler (l : list (Z * Z)) (c h : Z) : option (list (Z * Z)) :=
  if table_mem l c then Some (table_update l c h) else None.
