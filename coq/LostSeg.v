(* LostSeg.v — model of dest.py::LostSegmentTracker (dest.py:146-217).
   The tracker's dict is a list of (start, end) pairs in dict iteration order;
   dict keys are unique in every reachable state (python dict semantics). *)
From CFDP Require Import Base.

Definition seg := (Z * Z)%type.
Definition tracker := list seg.

(* dict.get *)
Fixpoint get (k : Z) (l : tracker) : option Z :=
  match l with
  | [] => None
  | (s, e) :: t => if s =? k then Some e else get k t
  end.

(* dict.update({k: v}): replace the value in place, or append *)
Fixpoint update (k v : Z) (l : tracker) : tracker :=
  match l with
  | [] => [(k, v)]
  | (s, e) :: t => if s =? k then (s, v) :: t else (s, e) :: update k v t
  end.

(* dict.pop(k) for an existing key *)
Fixpoint pop (k : Z) (l : tracker) : tracker :=
  match l with
  | [] => []
  | (s, e) :: t => if s =? k then t else (s, e) :: pop k t
  end.

(* dict(sorted(d.items())): keys are unique, so tuples sort by key *)
Fixpoint insert_sorted (p : seg) (l : tracker) : tracker :=
  match l with
  | [] => [p]
  | q :: t => if fst p <? fst q then p :: q :: t else q :: insert_sorted p t
  end.
Definition sort_items (l : tracker) : tracker := fold_right insert_sorted [] l.

(* dict(list_of_pairs): later value wins, position of first occurrence kept *)
Definition dict_of_list (l : list seg) : tracker :=
  fold_left (fun d p => update (fst p) (snd p) d) l [].

(* reset *)
Definition reset : tracker := [].

(* add_lost_segment (dest.py:157-159) *)
Definition add (p : seg) (l : tracker) : tracker :=
  sort_items (update (fst p) (snd p) l).

(* coalesce_lost_segments (dest.py:161-175) — literal loop, including the
   re-visit of the first item and the final dict(merged_segments). *)
Definition coalesce_step (acc : list seg * Z * Z) (p : seg) : list seg * Z * Z :=
  let '(m, cs, ce) := acc in
  if fst p =? ce then (m, cs, snd p) else (m ++ [(cs, ce)], fst p, snd p).

Definition coalesce (l : tracker) : tracker :=
  match l with
  | [] => l
  | [_] => l
  | (s0, e0) :: _ =>
      let '(m, cs, ce) := fold_left coalesce_step l ([], s0, e0) in
      dict_of_list (m ++ [(cs, ce)])
  end.

(* remove_lost_segment (dest.py:177-217).  ValueError is raised before any
   mutation, so the error case carries no tracker. *)
Inductive lerr := ValueError.

Fixpoint find_enclosing (s : Z) (l : tracker) : option seg :=
  match l with
  | [] => None
  | (ss, se) :: t => if (ss <? s) && (s <? se) then Some (ss, se) else find_enclosing s t
  end.

Definition remove (p : seg) (l : tracker) : res lerr (tracker * bool) :=
  let s := fst p in let e := snd p in
  if e - s =? 0 then Ok (l, false)
  else match get s l with
  | Some en =>
      if en <? e then Err ValueError
      else if e =? en then Ok (sort_items (pop s l), true)
      else Ok (sort_items (update e en (pop s l)), true)
  | None =>
      match find_enclosing s l with
      | None => Ok (l, false)
      | Some (ss, se) =>
          if se <? e then Err ValueError
          else if e =? se then Ok (sort_items (update ss s l), true)
          else Ok (sort_items (update e se (update ss s l)), true)
      end
  end.

(* op language shared with the correspondence harness *)
Inductive lop :=
| OAdd (s e : Z) | ORemove (s e : Z) | OCoalesce | OReset.

(* observation: return code (0 none, 1 false, 2 true, 3 ValueError) and items *)
Definition lstep (l : tracker) (o : lop) : tracker * Z :=
  match o with
  | OAdd s e => (add (s, e) l, 0)
  | ORemove s e =>
      match remove (s, e) l with
      | Ok (l', b) => (l', if b then 2 else 1)
      | Err _ => (l, 3)
      end
  | OCoalesce => (coalesce l, 0)
  | OReset => (reset, 0)
  end.
