(* Checksum.v — model of filestore.py::NativeFilestore.calculate_checksum
   (filestore.py:351-375), crc.py::calc_modular_checksum and
   VirtualFilestore.verify_checksum (filestore.py:166-177). *)
From CFDP Require Import Base Crc.

(* spacepackets ChecksumType values *)
Definition CK_MODULAR : Z := 0.
Definition CK_CRC32_PROX1 : Z := 1.
Definition CK_CRC32C : Z := 2.
Definition CK_CRC32 : Z := 3.
Definition CK_NULL : Z := 15.

Inductive cerr := FileNotFound | ValueErr | ChecksumNotImplemented | OutOfFuel.

(* file.seek(off); file.read(n) on a regular file: short/empty reads past the end *)
Definition read_at (file : bytes) (off n : Z) : bytes := ztake n (zdrop off file).

(* the while loop of calculate_checksum; [fuel] bounds the iterations *)
Fixpoint crc_loop (fuel : nat) (poly : Z) (file : bytes) (size seg off c : Z) : res cerr Z :=
  if off <? size then
    match fuel with
    | O => Err OutOfFuel
    | S k =>
        let read_len := Z.min seg (size - off) in
        let c' := if 0 <? read_len then crc_update poly c (read_at file off read_len) else c in
        crc_loop k poly file size seg (off + read_len) c'
    end
  else Ok c.

(* crc.py calc_modular_checksum: 4-byte reads, ljust(4, 0), big-endian, sum *)
Fixpoint modular_sum (l : bytes) : Z :=
  match l with
  | b0 :: b1 :: b2 :: b3 :: t => b0 * 16777216 + b1 * 65536 + b2 * 256 + b3 + modular_sum t
  | [b0; b1; b2] => b0 * 16777216 + b1 * 65536 + b2 * 256
  | [b0; b1] => b0 * 16777216 + b1 * 65536
  | [b0] => b0 * 16777216
  | [] => 0
  end.
Definition modular_checksum (l : bytes) : bytes := be32 (modular_sum l mod 4294967296).

(* calculate_checksum(checksum_type, file_path, size_to_verify, segment_len);
   [file = None] models a path that does not exist.
   The modular type sums the first size_to_verify bytes (crc.py after the F5 repair). *)
Definition calculate_checksum (ty : Z) (file : option bytes) (size seg : Z) : res cerr bytes :=
  if ty =? CK_NULL then Ok [0; 0; 0; 0]
  else match file with
  | None => Err FileNotFound
  | Some f =>
      if ty =? CK_MODULAR then Ok (modular_checksum (ztake size f))
      else if seg =? 0 then Err ValueErr
      else if negb ((ty =? CK_CRC32) || (ty =? CK_CRC32C)) then Err ChecksumNotImplemented
      else
        let poly := if ty =? CK_CRC32 then poly_crc32 else poly_crc32c in
        match crc_loop (S (Z.to_nat size)) poly f size seg 0 crc_init with
        | Ok c => Ok (crc_digest_of_reg c)
        | Err e => Err e
        end
  end.

Fixpoint bytes_eqb (a b : bytes) : bool :=
  match a, b with
  | [], [] => true
  | x :: a', y :: b' => (x =? y) && bytes_eqb a' b'
  | _, _ => false
  end.

Definition verify_checksum (ck : bytes) (ty : Z) (file : option bytes) (size seg : Z) : res cerr bool :=
  match calculate_checksum ty file size seg with
  | Ok r => Ok (bytes_eqb r ck)
  | Err e => Err e
  end.
