(* Crc.v — bit-serial reflected CRC (Rocksoft model) with the parameters of
   CRC-32/ISO-HDLC ("crc32") and CRC-32C/Castagnoli ("crc32c"), as computed by
   crcmod.predefined.PredefinedCrc(...).update / .digest (trusted, validated by
   the correspondence run of C09). *)
From CFDP Require Import Base.

Definition crc_bit (poly c : Z) : Z :=
  if Z.odd c then Z.lxor (Z.shiftr c 1) poly else Z.shiftr c 1.

Definition crc_byte (poly c b : Z) : Z :=
  let c0 := Z.lxor c b in
  crc_bit poly (crc_bit poly (crc_bit poly (crc_bit poly
  (crc_bit poly (crc_bit poly (crc_bit poly (crc_bit poly c0))))))).

Definition crc_update (poly : Z) (c : Z) (data : bytes) : Z :=
  fold_left (crc_byte poly) data c.

Definition poly_crc32 : Z := 3988292384.   (* 0xEDB88320 *)
Definition poly_crc32c : Z := 2197175160.  (* 0x82F63B78 *)
Definition crc_init : Z := 4294967295.     (* 0xFFFFFFFF *)
Definition crc_xorout : Z := 4294967295.

(* struct.pack("!I", v) *)
Definition be32 (v : Z) : bytes :=
  [Z.land (Z.shiftr v 24) 255; Z.land (Z.shiftr v 16) 255;
   Z.land (Z.shiftr v 8) 255; Z.land v 255].

(* the register after feeding [data] to a fresh calculator *)
Definition crc_reg (poly : Z) (data : bytes) : Z := crc_update poly crc_init data.
(* PredefinedCrc.digest() *)
Definition crc_digest_of_reg (c : Z) : bytes := be32 (Z.lxor c crc_xorout).
Definition crc_spec (poly : Z) (data : bytes) : bytes := crc_digest_of_reg (crc_reg poly data).
