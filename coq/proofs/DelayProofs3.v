(* DelayProofs3.v — continuation of DelayProofs2.v (props/C03w.v).
   (b') immediate NAK mode, the last File Data PDU but one (k = n - 1) held back for d >= 2 rounds.  The last File Data PDU
        overtakes it and reveals the gap; the NAK meets a sender that has just sent the last File Data PDU: one call sends
        the EOF PDU and the requested tile (SingleLossProofs.step_nak_eof).  At the receiver the EOF PDU finds the gap
        still open (ACK (EOF)), the retransmitted tile arrives right after the ACK (EOF) was retrieved: that call starts
        the deferred procedure (a second NAK is queued), closes the gap and completes the transfer; the sender answers the
        second NAK with the tile once more, which only triggers the Finished PDU.  The late original arrives
          d = 2   before the EOF PDU and the retransmitted tile, in the same round: it fills the gap, the EOF PDU finds
                  nothing missing, the retransmitted tile reaches the receiver after its ACK (EOF) (the call completes the
                  transfer), no second NAK,
          d = 3   together with, and before, the second retransmitted tile: it triggers the Finished PDU, the tile is ignored,
          d = 4   together with, and before, the ACK (Finished): ignored,
          d >= 5  at the idle receiver: dropped by its surrounding entity.
   No API call raises: the verdict of the fault-free runs. *)
From CFDP Require Import Base LostSeg Fs Crc Checksum Handler Dest Source HandlerSpec SourceSpec System SystemCases.
From CFDP.gen Require Import Tables.
From CFDP.proofs Require Import ChecksumProofs FsProofs StreamProofs RetransmitProofs PerfectLinkProofs PerfectLinkAckedProofs
  SingleLossProofs MetadataLossProofs ControlLossProofs DuplicateProofs DelayProofs DelayProofs2.
From RecordUpdate Require Import RecordSet.
Import RecordSetNotations.
Local Arguments Z.add : simpl never. Local Arguments Z.sub : simpl never. Local Arguments Z.mul : simpl never.
Local Arguments Z.pow : simpl never. Local Arguments Z.div : simpl never. Local Arguments Z.min : simpl never.
Local Arguments Z.max : simpl never. Local Arguments Z.to_nat : simpl never.
Local Arguments Z.ltb !x !y : simpl nomatch. Local Arguments Z.leb !x !y : simpl nomatch.
Local Arguments Z.eqb !x !y : simpl nomatch. Local Arguments Z.of_nat !n : simpl nomatch.
Local Arguments write_at : simpl never.
Local Arguments set_node : simpl never.
Local Opaque calculate_checksum.
Local Opaque state_machine_s Dest.state_machine.

Section SysC.
Variables (cs cd : lcfg) (p : putreq) (rs rd : rcfg) (sn : path) (x : Z) (data cks : bytes) (cf : sconf)
          (seg tick : Z) (clo : bool) (fss : tree) (ft : fault) (maxn : Z).
Hypothesis Hnames : pr_names p = Some (sn, [x]).
Hypothesis Hlook : lookup fss sn = Some (File data).
Hypothesis Hsn : sn <> [].
Hypothesis Hseg : 1 <= seg.
Hypothesis Hm : sc_mode cf = ACKED.
Hypothesis Hck : calculate_checksum (r_cktype rs) (Some data) (zlen data) seg = Ok cks.
Hypothesis Hck2 : calculate_checksum (r_cktype rs) (Some data) (zlen data) 4096 = Ok cks.
Hypothesis Hfins : l_ind_fin cs = true.
Hypothesis Hfind : l_ind_fin cd = true.
Hypothesis Hrem : get_remote (l_remotes cd) (sc_src cf) = Some rd.
Hypothesis Hdst : sc_dst cf = l_id cd.
Hypothesis Hacks : 0 < r_ack_ms rs.
Hypothesis Hackd : 0 < r_ack_ms rd.
Hypothesis Hsrc : sc_src cf = l_id cs.
Hypothesis Hdstr : sc_dst cf = r_id rs.
Hypothesis Hmax : max_seg_reqs (r_max_packet rd) (hRB cd cf) = Some maxn.
Hypothesis Hk : ft_kind ft = 2.

Local Notation hRA' := (hRA cd cf).
Local Notation tid := (tidA cf).
Local Notation fsz := (zlen data).
Local Notation RT f :=
  (f cd rd x (sc_crc cf) (sc_large cf) clo (sc_src cf) (sc_srcw cf) (sc_seq cf) (sc_seqw cf) (r_cktype rs) (zlen data))
  (only parsing).
Local Notation DAx := (RT DA) (only parsing).
Local Notation DRx := (RT DR) (only parsing).
Local Notation DGx := (RT DG) (only parsing).
Local Notation DWXx := (RT DWX) (only parsing).
Local Notation DF8x := (RT DF8) (only parsing).
Local Notation RAx := (RT RA) (only parsing).
Local Notation REx := (RT RE) (only parsing).
Local Notation RWx := (RT RW) (only parsing).
Local Notation RFx := (RF cd (sc_src cf) (sc_seq cf)) (only parsing).
Local Notation InvAx := (InvA cs p rs fss data cf seg clo tid) (only parsing).
Local Notation TX := (TailX cs p rs fss data cf seg tid) (only parsing).
Local Notation XE := (TailX cs p rs fss data cf seg tid SS_RETRANSMITTING (Some SS_WAITING_FOR_EOF_ACK) None) (only parsing).
Local Notation X8 sb := (TailX cs p rs fss data cf seg tid SS_WAITING_FOR_FINISHED sb None) (only parsing).
Local Notation XR := (TailX cs p rs fss data cf seg tid SS_RETRANSMITTING (Some SS_WAITING_FOR_FINISHED) None) (only parsing).
Local Notation T9 := (Tail cs p rs cf tid SS_SENDING_ACK_OF_FINISHED (Some (C_NO_ERROR, DATA_COMPLETE, FS_RETAINED, None)))
  (only parsing).
Local Notation ackE' := (ackEA cd cf).
Local Notation finP' := (finPA cd cf).
Local Notation evF := (evFinD cf).
Local Notation eofG' := (eofG cd data cks cf).
Local Notation ackFG' := (ackFG cd cf).
Local Notation nfd' := (nfd data seg).
Local Notation eofr := (if l_ind_eof_recv cd then [EvEofRecv (sc_src cf) (sc_seq cf)] else []) (only parsing).
Local Notation nakJ a b e := (nakI cd (sc_crc cf) (sc_large cf) (sc_src cf) (sc_srcw cf) (sc_seq cf) (sc_seqw cf) a b e) (only parsing).
Local Notation tl' off := (ztake seg (zdrop off data)) (only parsing).
Local Notation nxt' off := (off + Z.min seg (zlen data - off)) (only parsing).
Local Notation fdP off := (PFileData hRA' off (ztake seg (zdrop off data))) (only parsing).
Local Notation lgS off n lg := (if l_ind_seg cd then EvSegmentRecv (sc_src cf) (sc_seq cf) off n :: lg else lg%list) (only parsing).
Local Notation St' := (St cf ft).
Local Notation SH' := (SH cf ft).
Local Notation SA' := (SA cf ft).
Local Notation NH' := (NH ft).
Local Notation DH' := (DHalf ft tid).
Local Notation DA' := (DAll ft tid).
Local Notation fin' := (fin_ok cd x data cf tick ft []).
Local Notation kstep := (k_step cd x data cf tick ft) (only parsing).
Ltac fo := repeat (first [apply Forall_nil | apply Forall_cons; [reflexivity|]]).
Ltac zl := unfold zlen; cbn [length]; lia.
Ltac byhyp L := first [exact L | eapply L; eassumption].

(* ---- the sender: a NAK right after the last File Data PDU - EOF PDU and requested tile in one call *)
Lemma sh_nak_eof : forall a b e, 0 < fsz -> 0 <= a < fsz -> b = nxt' a ->
  SH' (InvAx fsz) [nakJ a b e] XE [eofG'; fdP a] true.
Proof.
  intros a b e Hpos Ha ->. apply SH_of_SA.
  apply (SA_cons cf ft Hk _ _ XE [eofG'; fdP a] [] _ []); [| |apply BIP_TX|apply SA_nil].
  - intros s HI. split; [exact (proj1 (IA_bt cs p rs data cf seg clo fss _ s HI))|].
    destruct (step_nak_eof cs p rs fss data cks cf seg clo tid sn [x] Hnames Hlook Hsn Hseg Hm Hck Hsrc Hdstr s 0 e a (nxt' a) HI
                (InvA_step_fd cs p rs data cf seg clo fss _ s HI Hpos) ltac:(lia) ltac:(lia) eq_refl) as (s' & P & HT).
    unfold eofP in P. rewrite (nak_eq cd cf Hm Hdst), (tile_eq cd data cf seg Hm Hdst), (hdr_eq_a cd cf Hm Hdst) in P.
    exists s'. split; assumption.
  - apply Forall_cons; [reflexivity|]. apply Forall_cons; [|apply Forall_nil]. unfold onw.
    destruct (tl_pos_b data seg Hseg a Ha) as [Hp _].
    destruct (tl' a); [change (zlen (@nil Z)) with 0 in Hp; lia | reflexivity].
Qed.
Lemma s1_ack_retx : S1 XE ackE' (X8 (Some SS_WAITING_FOR_EOF_ACK)) [].
Proof.
  intros s HT. split; [exact (proj1 (TX_bt cs p rs data cf seg fss _ _ _ s HT))|].
  destruct (step_ack_retx cs p rs fss data cf seg tid Hm Hsrc Hdstr s C_NO_ERROR TS_ACTIVE HT) as (s' & P & HT').
  rewrite (hdr_eq_b cd cf Hm Hdst) in P. exists s'. split; assumption.
Qed.
Lemma s1_x8_fin : forall sb, S1 (X8 sb) finP' T9 [ackFG'].
Proof.
  intros sb s HT. split; [exact (proj1 (TX_bt cs p rs data cf seg fss _ _ _ s HT))|].
  exact (DuplicateProofs.Ld_fin cs cd p rs cf Hm Hdst Hsrc Hdstr s (TailX_Tail _ _ _ _ _ _ _ _ _ _ _ _ HT)).
Qed.
Lemma sh_ack_nak : forall a, 0 <= a < fsz -> SH' XE [ackE'; nakJ a (nxt' a) fsz] XR [fdP a] true.
Proof.
  intros a Ha. apply SH_of_SA. change [fdP a] with ([] ++ [fdP a] ++ []).
  apply (SA_cons cf ft Hk _ _ _ _ _ _ _ s1_ack_retx ltac:(fo) (BIP_TX cs p rs data cf seg fss _ _ _)).
  assert (Ho : Forall onw [fdP a]).
  { apply Forall_cons; [|apply Forall_nil]. unfold onw. destruct (tl_pos_b data seg Hseg a Ha) as [Hp _].
    destruct (tl' a); [change (zlen (@nil Z)) with 0 in Hp; lia | reflexivity]. }
  apply (SA_cons cf ft Hk _ _ XR [fdP a] [] _ []); [|exact Ho|apply BIP_TX|apply SA_nil].
  byhyp (s1x_nak cs cd p rs sn x data cf seg fss).
Qed.
Lemma sh_ack_fin : SH' XE [ackE'; finP'] T9 [ackFG'] true.
Proof.
  apply SH_of_SA. change [ackFG'] with ([] ++ [ackFG'] ++ []).
  apply (SA_cons cf ft Hk _ _ _ _ _ _ _ s1_ack_retx ltac:(fo) (BIP_TX cs p rs data cf seg fss _ _ _)).
  exact (SA_cons cf ft Hk _ _ _ _ _ _ _ (s1_x8_fin _) ltac:(fo) (BIP_T9 cs p rs cf) (SA_nil cf ft _)).
Qed.

(* ---- the core: offsets a < b, b the last tile *)
Lemma fd_imm2_core : forall a b c1 y, 0 <= a -> nxt' a = b -> nxt' b = fsz -> a < b -> b < fsz ->
  SPK cs cd p rs rd x data cf seg clo fss ft a c1 y -> hit ft 0 c1 = true ->
  NH' 0 (c1 + 1) -> NH' 1 0 -> 2 <= ft_arg ft -> r_imm_nak rd = true -> fin' y.
Proof.
  intros a b c1 y Ha0' Eab Ebc Hab Hbf (rnd & ls & fs & lg & Er & H & Hl & Hc) Hh N0 N1 Hd Himm. subst rnd.
  assert (Ha0 : 0 <= a < fsz) by lia. assert (Hb0 : 0 <= b < fsz) by lia. assert (Hlta : a < fsz) by lia.
  destruct (tl_pos_b data seg Hseg a Ha0) as [Hpa Htla]. destruct (tl_pos_b data seg Hseg b Hb0) as [Hpb Htlb].
  assert (EA : a + zlen (tl' a) = b) by lia.
  change (DAx a ls a fs lg) with (DRx a [] ls a fs lg) in H.
  edestruct (St_round cf ft) as (y1 & a1 & R & H1 & Ha1);
    [exact H | reflexivity | byhyp (sh_fd cs cd p rs sn x data cf seg clo fss ft) | cbn [rel0 app surv]; rewrite Hh; reflexivity
    | exact (dhR_none cd rs rd x data cf clo ft Hk a [] ls a fs lg)
    | reflexivity | cbn [kept held app]; rewrite Hh; reflexivity |].
  cbn [orb] in Ha1. cbn [surv app] in H1.
  apply (fin_step cd x data cf tick ft y y1 a1 _ _ _ _ _ _ _ R Ha1 H1 (or_introl (BusyP_IA cs p rs data cf seg clo fss _))).
  pose proof (St_cnt cf ft _ _ _ _ _ (c1 + 1) 0 _ _ _ H1 ltac:(zl) ltac:(zl)) as H2. clear H1 H R Ha1.
  rewrite Eab in H2.
  remember (c1 + 1 + ft_arg ft) as rel eqn:Erel.
  (* the last File Data PDU reveals the gap: NAK *)
  destruct (rel_hold (c1 + 1 + 1) rel 0 (fdP a) ltac:(lia)) as (E0 & E1 & Ek).
  eapply kstep; [exact N0|exact N1|exact H2|rewrite E1; reflexivity|byhyp (sh_fd cs cd p rs sn x data cf seg clo fss ft)|rewrite E0; reflexivity
                |apply DHalf_list; exact (da_fd_gap_imm cd rs rd x data cf clo ft Hrem Hk a b ls (tl' b) fs lg _ Hl Hpb Hab Himm)
                |exact Ek|reflexivity|reflexivity|reflexivity|left; exact (BusyP_IA cs p rs data cf seg clo fss _)|].
  clear E0 E1 Ek H2. intros y2 N02 N12 H3. rewrite Htlb, Ebc in H3.
  assert (Hl1 : lookup (set_node fs [x] (File (write_at (ztake a data) b (tl' b)))) [x] = Some (File (holed data a b fsz))).
  { rewrite lookup_set_node by discriminate. rewrite path_eqb_refl. f_equal. f_equal. rewrite <- Ebc, <- Htlb.
    apply (hole_make data seg a b Hseg); lia. }
  remember (set_node fs [x] (File (write_at (ztake a data) b (tl' b)))) as fs1 eqn:Efs1.
  assert (Hc1 : clean (lgS b (Z.min seg (fsz - b)) lg)) by (apply clean_S; exact Hc).
  remember (lgS b (Z.min seg (fsz - b)) lg) as lg1 eqn:Elg1.
  assert (Hwf : write_at (holed data a b fsz) a (tl' a) = data).
  { transitivity (ztake fsz data); [apply (hole_fill data seg a b fsz Hseg); lia | apply ztake_all]. }
  assert (Hsnak : SH' (InvAx fsz) [nakJ a b fsz] XE [eofG'; fdP a] true) by (apply sh_nak_eof; [lia|exact Ha0|symmetry; exact Eab]).
  destruct (Z_le_gt_dec rel (c1 + 1 + 1 + 1)) as [Hle|Hgt].
  - (* d = 2: the late original arrives first and fills the gap *)
    destruct (rel_now0 (c1 + 1 + 1 + 1) rel (fdP a) Hle) as (E0 & E1 & Ek).
    pose proof (dafill' cd rs rd x data cf seg clo ft Hseg Hrem Hk a b fsz b fs1 lg1 _ Hl1 Ha0 (eq_sym Eab) ltac:(lia) ltac:(lia)) as HF.
    rewrite Hwf in HF.
    assert (Hl2 : lookup (set_node fs1 [x] (File data)) [x] = Some (File data))
      by (rewrite lookup_set_node by discriminate; rewrite path_eqb_refl; reflexivity).
    change (DRx fsz [] b fsz (set_node fs1 [x] (File data)) (lgS a (zlen (tl' a)) lg1))
      with (RAx 0 b (set_node fs1 [x] (File data)) (lgS a (zlen (tl' a)) lg1)) in HF.
    eapply kstep; [exact N02|exact N12|exact H3|rewrite E1; reflexivity|exact Hsnak|rewrite E0; reflexivity
                  |apply DHalf_list;
                   exact (DAll_app cf ft [fdP a] [eofG'; fdP a] _ _ _ [] ([ackE'] ++ [finP']) HF
                            (DAll_app cf ft [eofG'] [fdP a] _ _ _ [ackE'] [finP']
                               (da_eof cd rs rd x data cks cf clo ft Hrem Hk 0 b _ _)
                               (da_re_fd cd rs rd x data cks cf clo ft Hck2 Hfind Hrem Hackd Hk a (tl' a) 0 b _ _ Hl2)))
                  |exact Ek|reflexivity|reflexivity|reflexivity|left; exact (BusyP_TX cs p rs data cf seg fss _ _ _)|].
    intros y3 N03 N13 H4.
    eapply kstep; [exact N03|exact N13|exact H4|reflexivity|exact sh_ack_fin|reflexivity
                  |apply DHalf_list; exact (da_rw_ack cd rs rd x data cks cf clo ft Hrem Hk TS_ACTIVE _ _ _ _ _ _)
                  |reflexivity|reflexivity|reflexivity|reflexivity|left; exact (BusyP_T9 cs p rs cf)|].
    intros y4 N04 N14 H5.
    exact (t_S3 cs cd p rs x data cf tick ft Hfins Hk _ Hl2 _ 0 _ _ _ y4
             (clean_eofr_k cd cf _ (clean_S cd cf _ _ _ Hc1)) N04 N14 H5).
  - (* the EOF PDU finds the gap open; the retransmitted tile closes it and completes the transfer; second NAK *)
    destruct (rel_hold (c1 + 1 + 1 + 1) rel 0 (fdP a) ltac:(lia)) as (E0 & E1 & Ek).
    pose proof (da_fill_dg cd rs rd x data cks cf clo ft maxn Hck2 Hfind Hrem Hmax Hk a fsz b fsz (tl' a) fs1 (eofr ++ lg1) _ Hl1 Hpa
                  ltac:(lia) ltac:(lia) Hwf) as HG.
    rewrite EA in HG.
    assert (Hl2 : lookup (set_node fs1 [x] (File data)) [x] = Some (File data))
      by (rewrite lookup_set_node by discriminate; rewrite path_eqb_refl; reflexivity).
    eapply kstep; [exact N02|exact N12|exact H3|rewrite E1; reflexivity|exact Hsnak|rewrite E0; reflexivity
                  |apply DHalf_list;
                   exact (DAll_app cf ft [eofG'] [fdP a] _ _ _ [ackE'] [nakJ a b fsz]
                            (dg_eof_gap cd rs rd x data cks cf clo ft Hrem Hk [(a, b)] b fsz fs1 lg1) HG)
                  |exact Ek|reflexivity|reflexivity|reflexivity|left; exact (BusyP_TX cs p rs data cf seg fss _ _ _)|].
    clear E0 E1 Ek H3. intros y3 N03 N13 H4. rewrite <- Eab in H4 at 1.
    assert (Hcl : clean (lgS a (zlen (tl' a)) (eofr ++ lg1))) by (apply clean_S; apply clean_eofr_k; exact Hc1).
    destruct (Z_le_gt_dec rel (c1 + 1 + 1 + 1 + 1)) as [Hle2|Hgt2].
    + (* d = 3: the late original triggers the Finished PDU, the second retransmitted tile is ignored *)
      destruct (rel_now0 (c1 + 1 + 1 + 1 + 1) rel (fdP a) Hle2) as (E0 & E1 & Ek).
      eapply kstep; [exact N03|exact N13|exact H4|rewrite E1; reflexivity|exact (sh_ack_nak a Ha0)|rewrite E0; reflexivity
                    |apply DHalf_list;
                     exact (DAll_app cf ft [fdP a] [fdP a] _ _ _ [finP'] []
                              (da_dup_df8 cd rs rd x data cks cf clo ft Hrem Hackd Hk _ _ _ _)
                              (da_dwx_fd cd rs rd x data cks cf clo ft Hrem Hackd Hk _ _ _ _ _ _ _))
                    |exact Ek|reflexivity|reflexivity|reflexivity|left; exact (BusyP_TX cs p rs data cf seg fss _ _ _)|].
      intros y4 N04 N14 H5.
      exact (l6n cs cd p rs rd x data cks cf seg tick clo fss ft Hm Hfins Hrem Hdst Hsrc Hdstr Hk _ Hl2 _ _ _ _ _ _ _ y4 Hcl N04 N14 H5).
    + destruct (rel_hold (c1 + 1 + 1 + 1 + 1) rel 0 (fdP a) ltac:(lia)) as (E0 & E1 & Ek).
      eapply kstep; [exact N03|exact N13|exact H4|rewrite E1; reflexivity|exact (sh_ack_nak a Ha0)|rewrite E0; reflexivity
                    |apply DHalf_list; exact (da_dup_df8 cd rs rd x data cks cf clo ft Hrem Hackd Hk _ _ _ _)
                    |exact Ek|reflexivity|reflexivity|reflexivity|left; exact (BusyP_TX cs p rs data cf seg fss _ _ _)|].
      intros y4 N04 N14 H5.
      exact (l6 cs cd p rs rd x data cks cf seg tick clo fss ft Hm Hfins Hrem Hdst Hackd Hsrc Hdstr Hk a rel _ Hl2 _ _ _ _ _ _ _ y4 Hcl N04 N14 H5).
Qed.

Lemma main_fd_imm2 : forall s1 s3 k d,
  pump s1 = (s3, Ok [PMetadata (hdr_of cf TOWARDS_RECEIVER) clo (r_cktype rs) fsz (Some (sn, [x])) []]) ->
  InvAx 0 s3 -> ft = mkFault 0 k 2 d -> 1 <= k -> k = nfd' - 1 -> 2 <= d -> r_imm_nak rd = true ->
  fin' (ZD ft [] s1 (dst_init cd) [] [] 0 0 [] 0 None None [] []).
Proof.
  intros s1 s3 k d P HI E Hk1 Hkn Hd Himm.
  pose proof (nfd_spec data seg Hseg) as HN. assert (HL : 0 <= fsz) by (unfold zlen; lia).
  assert (Hh : forall c, hit ft 0 c = (k =? c)) by (intro c; rewrite E; apply hit_k00).
  destruct (round_md_k cs cd p rs rd sn x data cf seg tick clo fss ft Hm Hrem Hdst Hk s1 s3 P HI
              ltac:(rewrite Hh; apply Z.eqb_neq; lia)) as (y1 & R1 & H1).
  apply (fin_reach cd x data cf tick ft [] _ y1 R1).
  assert (Hc : k * seg < fsz) by (unfold nfd in *; nia).
  assert (Hc' : fsz <= (k + 1) * seg) by (unfold nfd in *; nia).
  assert (Hlt : (k - 1) * seg < fsz) by nia.
  destruct (prefix_upto cs cd p rs rd sn x data cf seg tick clo fss ft Hnames Hlook Hseg Hm Hrem Hdst Hackd Hk
              (Z.to_nat (k - 1)) 0 y1 ltac:(lia) ltac:(rewrite Z.mul_0_l, Z.min_l by lia; exact H1)
              ltac:(intros c Hcc; rewrite Hh; apply Z.eqb_neq; lia)
              ltac:(destruct (Z.eq_dec k 1) as [->|?]; [right; reflexivity|left; nia])) as (y2 & R2 & H2).
  apply (fin_reach cd x data cf tick ft [] y1 y2 R2).
  replace (0 + Z.of_nat (Z.to_nat (k - 1))) with (k - 1) in H2 by lia. rewrite Z.min_l in H2 by lia.
  replace (k - 1 + 1) with k in H2 by lia.
  apply (fd_imm2_core ((k - 1) * seg) (k * seg) k y2); try nia; try exact H2.
  - rewrite Hh. apply Z.eqb_eq. reflexivity.
  - intros c Hcc. rewrite Hh. apply Z.eqb_neq. lia.
  - intros c Hcc. rewrite E. apply hit_k01.
  - rewrite E. exact Hd.
  - exact Himm.
Qed.
End SysC.

Lemma single_delay_file_data_imm_last_but_one :
  forall (cs cd : lcfg) (seq0 bits : Z) (p : putreq) (rs rd : rcfg) (sn dn : path) (data : bytes) (tick k d : Z) (ft : fault),
  let w := Z.max (l_idw cs) (pr_dstw p) in
  let large := 4294967295 <? zlen data in
  let derived := r_max_packet rs - (4 + 2 * w + bits / 8) - (if large then 8 else 4) - (if r_crc rs then 2 else 0) in
  let seg := match r_max_seg rs with Some m => Z.min m derived | None => derived end in
  get_remote (l_remotes cs) (pr_dst p) = Some rs ->
  pr_names p = Some (sn, dn) -> sn <> [] -> dn <> [] -> pr_msgs p = None ->
  (match pr_mode p with Some m => m | None => r_mode rs end) = ACKED ->
  let n := (zlen data + seg - 1) / seg in
  ft = mkFault 0 k 2 d -> 1 <= k -> k = n - 1 -> 2 <= d -> r_imm_nak rd = true ->
  4 + 2 * w + bits / 8 + 1 + (if r_crc rs then 2 else 0) + 2 * (if large then 8 else 4) <= r_max_packet rd ->
  0 < r_ack_ms rd ->
  (bits = 8 \/ bits = 16 \/ bits = 32) -> 0 <= seq0 < 2 ^ bits -> 1 <= seg -> 6 <= derived ->
  (r_cktype rs = CK_CRC32 \/ r_cktype rs = CK_CRC32C \/ r_cktype rs = CK_NULL \/ r_cktype rs = CK_MODULAR) ->
  bytes_ok data = true ->
  l_id cd = pr_dst p -> get_remote (l_remotes cd) (l_id cs) = Some rd -> length dn = 1%nat ->
  get_fault_handler (l_faults cd) C_CHECKSUM_FAILURE <> None ->
  l_ind_fin cs = true -> l_ind_fin cd = true ->
  exists fuel,
    let res := transfer cs cd seq0 bits p sn data [ft] fuel tick in
    delivered_ok dn data res = true /\ y_errs (fst res) = [] /\ fault_free_ok dn data res = true.
Proof.
  intros cs cd seq0 bits p rs rd sn dn data tick k d ft w large derived seg
         Hrs Hn Hsn Hdn Hmsgs Hmode n Hft Hk1 Hkn Hd Himm Hmp Hackd Hbits Hseq Hseg Hd6 Hck Hbytes Hid Hrd Hlen
         Hfh Hfs Hfd.
  destruct dn as [|x [|x' dn']]; try discriminate Hlen.
  set (fss := [(sn, File data)]).
  assert (Hlook : lookup fss sn = Some (File data)).
  { destruct sn as [|a sn']; [contradiction|]. unfold fss. cbn [lookup lookup_raw].
    rewrite path_eqb_refl. reflexivity. }
  destruct (ck_agree (r_cktype rs) data seg Hck Hseg) as (cks & C1 & C2).
  set (cf := mkSconf (l_id cs) w (pr_dst p) w seq0 (bits / 8) ACKED large (r_crc rs)).
  set (clo := match pr_closure p with Some b => b | None => r_closure rs end).
  destruct (first_call_a cs seq0 bits fss p rs sn [x] data Hrs Hn Hlook Hmode Hbits Hseq Hseg Hd6)
    as (s1 & s3 & P1 & P2 & HI).
  rewrite Hmsgs in P2.
  assert (Hdst : sc_dst cf = l_id cd) by (symmetry; exact Hid).
  assert (Hdstr : sc_dst cf = r_id rs) by (symmetry; exact (get_remote_id _ _ _ Hrs)).
  assert (Hmax : exists maxn, max_seg_reqs (r_max_packet rd) (hRB cd cf) = Some maxn).
  { unfold max_seg_reqs, hRB, hB, hdr_len, crc_len, fss_len, cf. cbn [h_idw h_seqw h_crc h_large sc_crc sc_large sc_srcw sc_seqw].
    match goal with |- exists _, (if ?c then _ else _) = _ => replace c with false end; [eexists; reflexivity|].
    symmetry. apply Z.ltb_ge. fold w large. lia. }
  destruct Hmax as (maxn & Hmax).
  assert (Hk : ft_kind ft = 2) by (rewrite Hft; reflexivity).
  destruct (main_fd_imm2 cs cd p rs rd sn x data cks cf seg tick clo fss ft maxn Hn Hlook Hsn Hseg eq_refl C1 C2 Hfs Hfd Hrd Hdst
              Hackd eq_refl Hdstr Hmax Hk s1 s3 k d P2 HI Hft Hk1 Hkn Hd Himm) as (fuel & y' & Rr & F).
  exists fuel.
  assert (Et : transfer cs cd seq0 bits p sn data [ft] fuel tick = (y', true)).
  { unfold transfer, sys_init. cbn [y_src]. fold fss. rewrite P1. exact Rr. }
  cbv zeta. rewrite Et.
  destruct (final_verdict_g cd x data _ ft _ y' F) as [V1 V2].
  split; [exact V1|]. split; [exact V2|]. exact (final_fault_free_g cd x data _ ft y' F).
Qed.

(* instances: files of 9 and 17 bytes in segments of 4 (n = 3, 5), immediate NAK mode, the last File Data PDU but one held
   back for 2 .. 8 and 30 rounds: the verdict of the fault-free runs *)
Example delay_imm2_examples :
  forallb (fun d => fault_free_ok [2] (test_data 9) (run_case ACKED false CK_CRC32 4 true 2 9 [mkFault 0 2 2 d]) &&
                    fault_free_ok [2] (test_data 17) (run_case ACKED false CK_CRC32 4 true 2 17 [mkFault 0 4 2 d]))
          [2; 3; 4; 5; 6; 7; 8; 30] = true.
Proof. vm_compute. reflexivity. Qed.
