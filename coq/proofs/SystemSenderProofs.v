(* SystemSenderProofs.v — proofs for the sender half of property C01 over the two-handler system and EVERY fault schedule
   (props/C01s.v): whenever the SENDING entity's event log holds a success report (Transaction-Finished, No Error / Data
   Complete) — in acknowledged mode, or in unacknowledged mode with closure — the destination file of the receiving
   entity exists at that moment and is byte-identical to the source file, or has the same length and the same CRC.
   The receiver's own log is not used (its indication switch may be off).  Built on top of SystemSuccessProofs.

   Structure (one module per part):
   - SX_Recv    the receiver: a success Finished PDU ([fin_ok]) enters its queue only from a state that is good for the
                file and stays good for the rest of the transaction ([CG]: [sm_busy_fin], [sm_busy_CG]); an idle
                receiver queues no success Finished PDU ([sm_idle_nofin])
   - SX_Send    the sender: a success event enters its log only as a copy of the Finished PDU it holds or is handed, or
                as its own notice with file status "unreported" ([sender_copies]), whole state machine, any inbound PDU
   - SX_Send2   with closure or in acknowledged mode that own notice never occurs ([SSa], [sender_copies_closed])
   - SX_Sys     the system: invariant of [step_round] / [run] for every fault schedule ([SYS2]): a success Finished PDU
                on the link towards the sender, delayed, handed over, recorded by the sender or reported by it implies
                [CGD] (the receiver's file is good, and an idle receiver has the transaction in its list of closed
                ones, so the surrounding entity never restarts it); [run_SYS2], [SYS2_success]
   and at top level the two theorems of props/C01s.v and the instance showing that the excluded case is excluded. *)
From CFDP Require Base LostSeg LostSegSpec Fs Crc Checksum ChecksumSpec Handler Dest Source SourceSpec System SystemCases HandlerSpec.
From CFDP.gen Require Tables.
From CFDP.proofs Require RouteProofs FsProofs LostSegProofs ChecksumProofs GuardProofs DeliveryProofs NakProofs TrackInvProofs DestFsProofs SuccessInvProofs SystemSuccessProofs.
From RecordUpdate Require RecordSet.

Module SX_Recv.
(* XRecv.v — the receiver and its Finished PDUs *)
Import CFDP.Base CFDP.LostSeg CFDP.LostSegSpec CFDP.Fs CFDP.Crc CFDP.Checksum CFDP.Handler CFDP.Dest CFDP.Source CFDP.SourceSpec CFDP.System CFDP.HandlerSpec.
Import CFDP.gen.Tables.
Import CFDP.proofs.RouteProofs CFDP.proofs.FsProofs CFDP.proofs.LostSegProofs CFDP.proofs.ChecksumProofs CFDP.proofs.GuardProofs CFDP.proofs.DeliveryProofs CFDP.proofs.NakProofs CFDP.proofs.TrackInvProofs CFDP.proofs.DestFsProofs CFDP.proofs.SuccessInvProofs CFDP.proofs.SystemSuccessProofs.
Import SS_Defs SS_Aux SS_RecvA SS_RecvT SS_RecvB SS_RecvC SS_RecvD SS_RecvE SS_RecvF SS_RecvG.
Import RecordUpdate.RecordSet.
Import RecordSetNotations.
Open Scope monad_scope.

Local Opaque calculate_checksum.
Local Arguments Z.add : simpl never. Local Arguments Z.sub : simpl never. Local Arguments Z.mul : simpl never.
Local Arguments Z.ltb : simpl never. Local Arguments Z.leb : simpl never. Local Arguments Z.eqb : simpl never.
Local Arguments Z.max : simpl never. Local Arguments Z.min : simpl never. Local Arguments Z.of_nat : simpl never.

(* a Finished PDU that reports success (whatever file status and fault location it carries) *)
Definition fin_ok (q : pdu) : bool :=
  match q with PFinished _ c d _ _ => (d =? DATA_COMPLETE) && (c =? C_NO_ERROR) | _ => false end.
Definition is_fin (q : pdu) : bool := match q with PFinished _ _ _ _ _ => true | _ => false end.
Definition finq (s : dst) : list pdu := filter is_fin (d_queue s).

Lemma fin_ok_success : forall q, fin_ok q = true -> success_pdu q /\ is_fin q = true.
Proof.
  intros [] Hq; try discriminate Hq. cbn in Hq. apply andb_prop in Hq. destruct Hq as [H1 H2].
  apply Z.eqb_eq in H1, H2. subst. split; [do 3 eexists; reflexivity | reflexivity].
Qed.

(* ------------------------------------------------------------------ who queues Finished PDUs *)
Notation FQ m := (MInv finq Any m).

Lemma fq_add_packet : forall p, is_fin p = false -> FQ (add_packet p).
Proof.
  intros p Hp. unfold add_packet. apply minv_modify. intro s. unfold finq. cbn. rewrite filter_app. cbn. rewrite Hp. apply app_nil_r.
Qed.
#[local] Hint Resolve fq_add_packet : minv.
#[local] Hint Extern 1 (is_fin _ = false) => reflexivity : minv.

Lemma nak_split_naks : forall h eos maxn l acc ps rest,
  nak_split h eos maxn acc l = (ps, rest) -> Forall (fun p => is_fin p = false) ps.
Proof.
  intros h eos maxn. induction l as [|sg t IH]; intros acc ps rest E; cbn [nak_split] in E.
  - injection E as <- _. constructor.
  - destruct (zlen (acc ++ [sg]) =? maxn).
    + destruct (nak_split h eos maxn [] t) as [ps' rest'] eqn:E'. injection E as <- _.
      constructor; [reflexivity | apply (IH _ _ _ E')].
    + apply (IH _ _ _ E).
Qed.

Lemma fq_fold_add : forall l, Forall (fun p => is_fin p = false) l ->
  FQ (fold_left (fun m p => m ;;; add_packet p) l (ret tt)).
Proof.
  intros l Hl.
  assert (G : forall (m0 : D unit), FQ m0 -> FQ (fold_left (fun m p => m ;;; add_packet p) l m0)).
  { induction Hl as [|p l Hp Hl IH]; intros m0 H0; cbn [fold_left]; [exact H0|].
    apply IH. apply minv_bind; [exact H0 | intros _; apply fq_add_packet; exact Hp]. }
  apply G, minv_ret.
Qed.

Lemma fq_deferred : FQ deferred_lost_segment_handling.
Proof.
  unfold deferred_lost_segment_handling.
  apply minv_bind; [minv | intros active]. destruct (negb active); [minv|].
  apply minv_bind; [minv | intros disp]. destruct (disp =? DISP_CANCELED); [minv|].
  apply minv_bind; [minv | intros r]. apply minv_bind; [minv | intros eof]. destruct eof as [eos|]; [|minv].
  apply minv_bind; [minv | intros tr]. apply minv_bind; [minv | intros mdm].
  destruct ((zlen tr =? 0) && negb mdm); [minv|].
  apply minv_bind; [minv | intros timer]. apply minv_bind; [minv | intros n].
  apply minv_bind; [minv | intros go]. destruct go as [first|]; [|minv].
  apply minv_bind; [minv | intros cnt]. apply minv_bind; [minv | intros stop]. destruct stop; [minv|].
  apply minv_bind; [minv | intros h]. destruct (max_seg_reqs (r_max_packet r) h) as [maxn|]; [|minv]. cbv zeta.
  apply minv_bind; [minv | intros tr2]. apply minv_bind; [minv | intros mdm2].
  set (pa := if mdm2 then (if 1 =? maxn then ([PNak (set_dir TOWARDS_SENDER h) 0 eos [(0, 0)]], []) else ([], [(0, 0)])) else ([], [])).
  assert (Hpa : Forall (fun p => is_fin p = false) (fst pa)).
  { subst pa. destruct mdm2; [destruct (1 =? maxn)|]; cbn; repeat constructor. }
  destruct pa as [pre acc0]. cbn [fst] in Hpa.
  destruct (nak_split (set_dir TOWARDS_SENDER h) eos maxn acc0 tr2) as [ps rest] eqn:En.
  pose proof (nak_split_naks _ _ _ _ _ _ _ En) as Hps.
  apply minv_bind; [|intros _; minv].
  apply fq_fold_add. apply Forall_app. split; [exact Hpa|]. apply Forall_app. split; [exact Hps|].
  destruct rest; repeat constructor.
Qed.
#[local] Hint Resolve fq_deferred : minv.

Lemma fq_cfph : forall h, FQ (common_first_packet_handler h).
Proof.
  intros h s. rewrite cfph_run. cbn [fst snd]. split; [destruct (negb _); reflexivity | intros e X; discriminate X].
Qed.
#[local] Hint Resolve fq_cfph : minv.

Lemma fq_before : forall pkt, FQ (before_completion pkt).
Proof. intro pkt. minv. Qed.
Lemma fq_idle : forall pkt, FQ (idle_fsm pkt).
Proof. intro pkt. minv. Qed.

Section Recv.
Context {Pm : Prm}.
Local Notation data := g_data.
Local Notation ty := g_ty.
Local Notation H := g_H.
Local Notation sn := g_sn.
Local Notation dn := g_dn.
Local Notation CK := g_CK.

(* the file is good and stays so: the handler is idle again, or the transaction is completed with "data complete" *)
Definition CG (s : dst) : Prop := Good s /\ (d_step s = DS_IDLE \/ (done_step (d_step s) /\ Kc s)).

Lemma cc_CG : forall s, CG s -> CG (fst (completion_clause s)).
Proof.
  intros s ((d & Hd & Hc) & Hst).
  destruct (Z.eq_dec (d_step s) DS_TRANSFER_COMPLETION) as [E|E].
  2:{ unfold completion_clause. rewrite b_step_is. apply Z.eqb_neq in E. rewrite E, when_false.
      split; [exists d; split; assumption | exact Hst]. }
  destruct Hst as [Hi|[_ Hk]]; [rewrite E in Hi; discriminate Hi|].
  pose proof (cc_completes s) as (Hfs & _ & Hfin). set (s2 := fst (completion_clause s)) in *.
  assert (Efs : fs_d s2 = fs_d s) by (destruct Hfs as [X|X]; [exact X | unfold Kc in Hk; rewrite X in Hk; discriminate Hk]).
  split; [exists d; unfold fs_d in Efs; rewrite Efs; split; assumption|].
  destruct Hfin as [(Ed & _ & _ & Es)|[Er _]].
  - right. split; [|unfold Kc; rewrite Ed; exact Hk].
    destruct Es as [Es|Es]; rewrite Es; [left; exact E | right; left; reflexivity].
  - left. rewrite Er. reflexivity.
Qed.

Lemma after_CG : forall fuel pkt s, CG s -> CG (fst (after_completion fuel pkt s)).
Proof.
  intros fuel pkt s HC.
  destruct (Z.eq_dec (d_step s) DS_SENDING_FINISHED) as [E1|E1];
    [|destruct (Z.eq_dec (d_step s) DS_WAITING_FOR_FINISHED_ACK) as [E2|E2];
      [|rewrite after_other_step by assumption; exact HC]].
  all: destruct (after_cases fuel pkt s) as [E|HJ]; [rewrite E; exact HC|];
    set (s3 := fst (after_completion fuel pkt s)) in *;
    assert (Hc : SuccessInvProofs.core s s3) by (destruct HJ as [(_ & _ & _ & Hc)|(_ & _ & Hc)]; exact Hc);
    destruct Hc as (_ & _ & HF);
    destruct HC as [(d & Hd & Hc) [Hi|[_ Hk]]];
    try (rewrite E1 in Hi; discriminate Hi); try (rewrite E2 in Hi; discriminate Hi);
    (split; [exists d; specialize (HF Hk); unfold fs_d in HF; rewrite HF; split; assumption|]);
    (destruct HJ as [(Hl & Hd' & _)|(Hi' & _)]; [right; split; [apply late_done; exact Hl | unfold Kc; rewrite Hd'; exact Hk] | left; exact Hi']).
Qed.

Lemma nonidle_CG : forall fuel pkt s, RI s -> d_state s = ST_BUSY -> CG s -> CG (fst (non_idle_fsm fuel pkt s)).
Proof.
  intros fuel pkt s HR HB HC. rewrite call_split.
  assert (Hl : late s).
  { destruct HC as [_ [Hi|[Hd _]]]; [exfalso; exact (ri_bs _ HR HB Hi) | apply late_done; exact Hd]. }
  pose proof (before_late pkt s (or_introl Hl)) as Eb. unfold bind at 1.
  destruct (before_completion pkt s) as [s1 [[]|e]]; cbn [fst] in Eb; subst s1; [|exact HC].
  pose proof (cc_CG s HC) as H2. unfold bind.
  destruct (completion_clause s) as [s2 [[]|e]]; cbn [fst] in *; [|exact H2].
  apply after_CG, H2.
Qed.

Theorem sm_busy_CG : forall pkt s, RI s -> d_state s = ST_BUSY -> CG s -> CG (fst (Dest.state_machine pkt s)).
Proof.
  intros pkt s HR HB HC. destruct (sm_cases pkt s) as [E|[E _]]; rewrite E; [exact HC|].
  rewrite sm_body_busy by exact HB. apply nonidle_CG; assumption.
Qed.

Lemma finq_nil_in : forall s q, finq s = [] -> In q (d_queue s) -> is_fin q = false.
Proof.
  intros s q Hf Hq. destruct (is_fin q) eqn:E; [|reflexivity]. exfalso.
  assert (X : In q (finq s)) by (unfold finq; apply filter_In; split; assumption). rewrite Hf in X. exact X.
Qed.

(* what after_completion queues: success is only reported for the completion values it starts from *)
Lemma after_fin : forall fuel pkt s, RI s -> c01_inv s -> finq s = [] ->
  forall q, In q (d_queue (fst (after_completion fuel pkt s))) -> fin_ok q = true ->
  Kc s /\ CG (fst (after_completion fuel pkt s)).
Proof.
  intros fuel pkt s HR Hinv Hf q Hq Hok. destruct (fin_ok_success q Hok) as [Hsp Hif].
  destruct (after_cases fuel pkt s) as [E|HJ].
  - rewrite E in Hq. cbn [fst] in Hq. rewrite (finq_nil_in s q Hf Hq) in Hif. discriminate Hif.
  - set (s3 := fst (after_completion fuel pkt s)) in *.
    assert (Hc : SuccessInvProofs.core s s3) by (destruct HJ as [(_ & _ & _ & Hc)|(_ & _ & Hc)]; exact Hc).
    destruct Hc as ((l & El & Hl) & _ & HF).
    rewrite El in Hq. apply in_app_or in Hq. destruct Hq as [Hq|Hq].
    { rewrite (finq_nil_in s q Hf Hq) in Hif. discriminate Hif. }
    destruct (Hl q Hq Hsp) as [Hk _]. split; [exact Hk|].
    destruct (KGood s HR Hinv Hk) as (d & Hd & Hc).
    split; [exists d; specialize (HF Hk); unfold fs_d in HF; rewrite HF; split; assumption|].
    destruct HJ as [(Hla & Hd' & _)|(Hi' & _)]; [right; split; [apply late_done; exact Hla | unfold Kc; rewrite Hd'; exact Hk] | left; exact Hi'].
Qed.

Lemma nonidle_eq : forall fuel pkt s,
  non_idle_fsm fuel pkt s =
  match before_completion pkt s with
  | (s1, Ok _) => match completion_clause s1 with
                  | (s2, Ok _) => after_completion fuel pkt s2
                  | (s2, Err e) => (s2, Err e)
                  end
  | (s1, Err e) => (s1, Err e)
  end.
Proof. intros. rewrite call_split. reflexivity. Qed.

(* one busy call: a success Finished PDU in the queue afterwards comes from a good, completed transfer; and the
   transfer was verified before the completion clause of this call *)
Lemma nonidle_fin : forall fuel pkt s, pkt_ok pkt -> RI s -> c01_inv s -> d_state s = ST_BUSY -> finq s = [] ->
  forall q, In q (d_queue (fst (non_idle_fsm fuel pkt s))) -> fin_ok q = true ->
  CG (fst (non_idle_fsm fuel pkt s)) /\ Kc (fst (before_completion pkt s)).
Proof.
  intros fuel pkt s Hpk HR Hinv HB Hf q. rewrite nonidle_eq.
  pose proof (okb_RI _ (before_ok pkt s Hpk HR HB)) as H1.
  pose proof (inv_before_completion pkt s Hinv) as I1.
  pose proof (minv_state finq Any (before_completion pkt) s (fq_before pkt)) as F1. rewrite Hf in F1.
  destruct (before_completion pkt s) as [s1 [[]|e]]; cbn [fst] in *.
  2:{ intros Hq Hok. destruct (fin_ok_success q Hok) as [_ Hif]. rewrite (finq_nil_in s1 q F1 Hq) in Hif. discriminate Hif. }
  pose proof (cc_RI s1 H1) as H2. pose proof (inv_completion_clause s1 I1) as I2.
  pose proof (cc_completes s1) as (_ & _ & Hfin).
  assert (F2 : finq (fst (completion_clause s1)) = []).
  { unfold finq. destruct Hfin as [(_ & _ & Eq & _)|[_ Eq]]; rewrite Eq; exact F1. }
  assert (K2 : Kc (fst (completion_clause s1)) -> Kc s1).
  { unfold Kc. destruct Hfin as [(Ed & _)|[Er _]]; [rewrite Ed; trivial | rewrite Er; intro X; discriminate X]. }
  destruct (completion_clause s1) as [s2 [[]|e]]; cbn [fst] in *.
  2:{ intros Hq Hok. destruct (fin_ok_success q Hok) as [_ Hif]. rewrite (finq_nil_in s2 q F2 Hq) in Hif. discriminate Hif. }
  intros Hq Hok. destruct (after_fin fuel pkt s2 H2 I2 F2 q Hq Hok) as [Hk HC]. split; [exact HC | exact (K2 Hk)].
Qed.

Theorem sm_busy_fin : forall pkt s, pkt_ok pkt -> RI s -> c01_inv s -> d_state s = ST_BUSY -> finq s = [] ->
  forall q, In q (d_queue (fst (Dest.state_machine pkt s))) -> fin_ok q = true -> CG (fst (Dest.state_machine pkt s)).
Proof.
  intros pkt s Hpk HR Hinv HB Hf q. destruct (sm_cases pkt s) as [E|[E _]]; rewrite E.
  - intros Hq Hok. destruct (fin_ok_success q Hok) as [_ Hif]. rewrite (finq_nil_in s q Hf Hq) in Hif. discriminate Hif.
  - rewrite sm_body_busy by exact HB. intros Hq Hok. apply (nonidle_fin 3 pkt s Hpk HR Hinv HB Hf q Hq Hok).
Qed.

(* the first call of a transaction queues no success Finished PDU *)
Theorem sm_idle_nofin : forall pkt s, pkt_ok pkt -> RI s -> c01_inv s -> d_state s = ST_IDLE -> finq s = [] ->
  forall q, In q (d_queue (fst (Dest.state_machine pkt s))) -> fin_ok q = false.
Proof.
  intros pkt s Hpk HR Hinv Hi Hf q.
  assert (Hno : forall s', finq s' = [] -> In q (d_queue s') -> fin_ok q = false).
  { intros s' Hf' Hq. destruct (fin_ok q) eqn:E; [|reflexivity]. destruct (fin_ok_success q E) as [_ Hif].
    rewrite (finq_nil_in s' q Hf' Hq) in Hif. discriminate Hif. }
  destruct (sm_cases pkt s) as [E|[E Hfa]]; rewrite E; [apply Hno, Hf|].
  unfold sm_body. rewrite catch_abandoned_state, b_get, Hi. change (ST_IDLE =? ST_IDLE) with true. cbv iota.
  assert (Hf' : forall p, pkt = Some p -> get_remote (l_remotes (d_cfg s)) (h_src (pdu_hdr p)) <> None /\
     ((match p with PMetadata _ _ _ _ _ _ => False | _ => True end) -> h_mode (pdu_hdr p) <> UNACKED)).
  { intros p Ep. destruct (Hfa p Ep) as [X Y]. split; [exact X | exact (Y Hi)]. }
  pose proof (idle_fsm_ok pkt s Hpk HR Hi Hf') as Hidle.
  pose proof (inv_idle_fsm pkt s Hinv) as Hinv1.
  pose proof (minv_state finq Any (idle_fsm pkt) s (fq_idle pkt)) as F1. rewrite Hf in F1.
  rewrite !bind_assoc. unfold bind at 1.
  destruct (idle_fsm pkt s) as [s1 [[]|e]] eqn:Eidle; cbn [fst] in *; [|apply Hno, F1]. destruct Hidle as [H1 Hst].
  rewrite bind_assoc, b_gets, b_ret. destruct (0 <? d_ready s1); [apply Hno, F1|].
  rewrite b_get. destruct (Z.eqb_spec (d_state s1) ST_BUSY) as [HB|HB]; [rewrite when_true | rewrite when_false; apply Hno, F1].
  intro Hq. destruct (fin_ok q) eqn:Eok; [exfalso|reflexivity].
  assert (Hp1 : pkt_ok pkt) by exact Hpk.
  destruct (nonidle_fin 3 pkt s1 Hpk H1 Hinv1 HB F1 q Hq Eok) as [_ Hk]. clear Hq.
  (* the first call never reaches a verified completion *)
  unfold idle_fsm in Eidle.
  destruct pkt as [[h off bs | h cl ck fsz names msgs | h cond ck fsz fl | | | | | ]|];
    try (injection Eidle as <-; rewrite HB in Hi; discriminate Hi); try discriminate Eidle.
  - destruct (Hf' _ eq_refl) as [Hrem Hm]. specialize (Hm I). cbn [pdu_hdr] in *.
    destruct Hpk as (-> & Ho & Hl & Hn & Hbs).
    assert (Ha : MODE = ACKED) by (destruct mode_cases as [X|X]; [exact X | contradiction]).
    destruct (cfpnm_ok Ha s HR Hi Hrem) as (sa & Ea & Ha1 & HBa & Hsta & Hea).
    unfold bind in Eidle. rewrite Ea in Eidle.
    destruct (fd_wom_ok sa off bs Ha1 HBa Hsta Ho Hl Hn) as (sb & Eb & Hb1 & HBb & Hstb & Heb). rewrite Eb in Eidle.
    injection Eidle as <-.
    pose proof (before_fd_wfm H off bs sb Hb1 HBb Hstb (eq_trans Heb Hea) Ho Hl Hn) as Hnone.
    assert (HR' : RI (fst (before_completion (Some (PFileData H off bs)) sb))).
    { apply okb_RI, before_ok; [exact Hp1 | exact Hb1 | exact HBb]. }
    rewrite (ri_Ke _ HR' Hk) in Hnone. discriminate Hnone.
  - destruct (Hf' _ eq_refl) as [Hrem _]. cbn [pdu_hdr] in *. destruct Hpk as (-> & -> & -> & ->).
    change (zlen data) with nn in Eidle.
    destruct (start_transaction_ok s cl sn msgs HR Hi Hrem) as (sa & Ea & Ha1 & HBa & Hsta & Hea). rewrite Ea in Eidle.
    injection Eidle as <-.
    rewrite before_md_noop in Hk by exact Hsta.
    rewrite (ri_Ke _ Ha1 Hk) in Hea. discriminate Hea.
  - destruct (Hf' _ eq_refl) as [Hrem Hm]. specialize (Hm I). cbn [pdu_hdr] in *.
    destruct Hpk as (-> & -> & Hck). apply gen_eof_ck in Hck. subst ck. change (zlen data) with nn in Eidle.
    assert (Ha : MODE = ACKED) by (destruct mode_cases as [X|X]; [exact X | contradiction]).
    destruct (cfpnm_ok Ha s HR Hi Hrem) as (sa & Ea & Ha1 & HBa & Hsta & Hea).
    unfold bind in Eidle. rewrite Ea in Eidle.
    destruct (eof_wom_ok cond sa Ha1 HBa Hsta) as (sb & Eb & Hb1 & HBb & Hstb & Hmb & Hqb). rewrite Eb in Eidle.
    injection Eidle as <-.
    rewrite (before_queue _ sb Hqb) in Hk. cbn [fst] in Hk.
    destruct (ri_K _ Hb1 Hk) as [_ Hm']. rewrite Hmb in Hm'. discriminate Hm'.
Qed.
End Recv.
End SX_Recv.

Module SX_Send.
(* XSend.v — the sender reports success only by copying a Finished PDU it was handed *)
Import CFDP.Base CFDP.LostSeg CFDP.Fs CFDP.Crc CFDP.Checksum CFDP.Handler CFDP.Dest CFDP.Source CFDP.SourceSpec CFDP.System CFDP.HandlerSpec.
Import CFDP.gen.Tables.
Import CFDP.proofs.FsProofs CFDP.proofs.GuardProofs CFDP.proofs.ChecksumProofs.
Import SX_Recv.
Import RecordUpdate.RecordSet.
Import RecordSetNotations.
Open Scope monad_scope.

Local Opaque calculate_checksum.
Local Arguments Z.add : simpl never. Local Arguments Z.sub : simpl never. Local Arguments Z.mul : simpl never.
Local Arguments Z.pow : simpl never. Local Arguments Z.div : simpl never. Local Arguments Z.ltb : simpl never.
Local Arguments Z.leb : simpl never. Local Arguments Z.eqb : simpl never. Local Arguments Z.min : simpl never.
Local Arguments Z.max : simpl never. Local Arguments Z.of_nat : simpl never. Local Arguments Z.to_nat : simpl never.

(* ------------------------------------------------------------------ combinators *)
Definition spres {A} (P Q : src -> Prop) (m : SM A) : Prop := forall s, P s -> Q (fst (m s)).
Lemma spres_bind {A C} (P Q T : src -> Prop) (m : SM A) (f : A -> SM C) :
  spres P Q m -> (forall s, Q s -> T s) -> (forall a, spres Q T (f a)) -> spres P T (bind m f).
Proof.
  intros Hm HQT Hf s HP. specialize (Hm s HP). unfold bind.
  destruct (m s) as [s1 [a|e]]; cbn [fst] in *; [apply Hf, Hm | apply HQT, Hm].
Qed.
Lemma spres_ret {A} (P : src -> Prop) (a : A) : spres P P (ret a).
Proof. intros s Hs. exact Hs. Qed.
Lemma spres_raise {A} (P : src -> Prop) e : spres P P (@raise src A e).
Proof. intros s Hs. exact Hs. Qed.
Lemma sb_ret {S A B} (a : A) (k : A -> M S B) s : bind (ret a) k s = k a s.
Proof. reflexivity. Qed.
Lemma sb_gets {S A B} (f : S -> A) (k : A -> M S B) s : bind (gets f) k s = k (f s) s.
Proof. reflexivity. Qed.
Lemma sb_get {S B} (k : S -> M S B) s : bind get k s = k s s.
Proof. reflexivity. Qed.
Lemma sb_gq {A C} (f : sparams -> A) (k : A -> SM C) s : bind (gq f) k s = k (f (s_p s)) s.
Proof. reflexivity. Qed.
Lemma sb_setq {C} f (k : unit -> SM C) s : bind (setq f) k s = k tt (s <| s_p ::= f |>).
Proof. reflexivity. Qed.
Lemma sb_semit {C} e (k : unit -> SM C) s :
  bind (semit e) k s = k tt (s <| s_env ::= (fun en => en <| e_log ::= cons e |>) |>).
Proof. reflexivity. Qed.
Lemma sb_assoc {S A B C} (m : M S A) (f : A -> M S B) (g : B -> M S C) s :
  bind (bind m f) g s = bind m (fun a => bind (f a) g) s.
Proof. unfold bind. destruct (m s) as [s1 [a|e]]; reflexivity. Qed.
Lemma swhen_false {S} (m : M S unit) : when false m = ret tt.
Proof. reflexivity. Qed.
Lemma swhen_true {S} (m : M S unit) : when true m = m.
Proof. reflexivity. Qed.

(* the recorded Finished values report success *)
Definition fsb (q : option (Z * Z * Z * option (Z * Z))) : bool :=
  match q with Some (c, d, _, _) => (d =? DATA_COMPLETE) && (c =? C_NO_ERROR) | None => false end.
Definition pkt_fin (pkt : option pdu) : Prop := exists q, pkt = Some q /\ fin_ok q = true.
(* the notice of a transaction that ends without waiting for the receiver *)
Definition dflt (e : event) : Prop := exists a b, e = EvFinished a b C_NO_ERROR DATA_COMPLETE FS_UNREPORTED None.

Section Copy.
Variables (s0 : src) (pkt : option pdu).
Definition GG : Prop := fsb (q_fin (s_p s0)) = true \/ pkt_fin pkt.
Definition J1 (s : src) : Prop :=
  (fsb (q_fin (s_p s)) = true -> GG) /\
  (forall e, In e (e_log (s_env s)) -> success_event e = true -> In e (e_log (s_env s0)) \/ GG \/ dflt e).

Definition v1 (s : src) := (q_fin (s_p s), filter success_event (e_log (s_env s))).
Notation F1 m := (MInv v1 Any m).
Lemma v1_J1 : forall s s', v1 s' = v1 s -> J1 s -> J1 s'.
Proof.
  intros s s' Hv [H1 H2]. unfold v1 in Hv. injection Hv; intros E1 E2. split; [rewrite E2; exact H1|].
  intros e He Hs. assert (X : In e (filter success_event (e_log (s_env s')))) by (apply filter_In; split; assumption).
  rewrite E1 in X. apply filter_In in X. apply H2; apply X.
Qed.
Lemma spres_f1 {A} (m : SM A) : F1 m -> spres J1 J1 m.
Proof. intros Hm s Hs. apply (v1_J1 s); [apply (minv_state _ _ _ s Hm) | exact Hs]. Qed.

Lemma j1_reset : forall c, spres J1 J1 (sreset_internal c).
Proof.
  intros c s [H1 H2]. unfold sreset_internal, modify. cbn [fst]. split; [cbn; intro X; discriminate X | exact H2].
Qed.

Lemma j1_notice_of_completion : spres J1 J1 notice_of_completion_s.
Proof.
  intros s [H1 H2]. unfold notice_of_completion_s. rewrite sb_gets.
  assert (Hr : forall s1, (forall e, In e (e_log (s_env s1)) -> success_event e = true -> In e (e_log (s_env s0)) \/ GG \/ dflt e) ->
               J1 (fst (sreset_internal false s1))).
  { intros s1 X. unfold sreset_internal, modify. cbn [fst]. split; [cbn; intro Y; discriminate Y | exact X]. }
  destruct (l_ind_fin (s_cfg s)); [rewrite swhen_true | rewrite swhen_false, sb_ret; apply Hr, H2].
  unfold stid_or_assert. rewrite !sb_assoc, sb_gq. destruct (q_tid (s_p s)) as [t|]; [|split; assumption].
  rewrite sb_ret, sb_assoc, sb_gq.
  destruct (q_fin (s_p s)) as [[[[c d] f] fl]|]; cbv beta iota; rewrite sb_assoc, sb_setq, sb_semit; apply Hr; cbn;
    (intros e [<-|He] Hs; [|apply H2; assumption]).
  - right. left. apply H1. cbn in *. rewrite andb_comm. exact Hs.
  - right. right. do 2 eexists. reflexivity.
Qed.

Lemma j1_handle_eof_sent : forall ce, spres J1 J1 (handle_eof_sent ce).
Proof.
  intros ce. unfold handle_eof_sent.
  apply (spres_bind _ J1 _); [apply spres_f1; minv | trivial | intros ac].
  destruct ac; [apply spres_f1; minv|]. destruct ce; [|apply spres_f1; minv].
  apply (spres_bind _ J1 _); [apply spres_f1; minv | trivial | intros c]. destruct c as [c|]; [|apply spres_raise].
  apply (spres_bind _ J1 _); [|trivial | intros _; apply j1_notice_of_completion].
  intros s [H1 H2]. unfold setq, modify. cbn [fst]. split; [cbn; intro X; discriminate X | exact H2].
Qed.

Ltac j1_step :=
  cbv beta zeta;
  match goal with
  | |- spres J1 J1 _ => solve [apply spres_f1; minv]
  | |- spres J1 J1 (notice_of_completion_s) => apply j1_notice_of_completion
  | |- spres J1 J1 (handle_eof_sent _) => apply j1_handle_eof_sent
  | |- spres J1 J1 (sreset_internal _) => apply j1_reset
  | |- spres ?P ?P (bind _ _) => apply (spres_bind P P P); [ | intros ? Hq; exact Hq | intro]
  | |- spres ?P ?P (ret _) => apply spres_ret
  | |- spres ?P ?P (raise _) => apply spres_raise
  | |- spres _ _ (when ?b _) => destruct b; [rewrite swhen_true | rewrite swhen_false]
  | |- spres _ _ (if ?b then _ else _) => destruct b
  | |- spres _ _ (match ?x with _ => _ end) => destruct x
  | |- spres _ _ ?m => let h := mhead m in unfold h
  end.
Ltac j1w := repeat j1_step.

Lemma j1_notice_of_cancellation : forall c, spres J1 J1 (notice_of_cancellation_s c).
Proof. intro c. j1w. Qed.
Lemma j1_declare_fault : forall c, spres J1 J1 (declare_fault_s c).
Proof. intro c. pose proof j1_notice_of_cancellation. unfold declare_fault_s. j1w; try apply H. Qed.

Lemma sb_put {S B} (x : S) (k : unit -> M S B) s : bind (put x) k s = k tt x.
Proof. reflexivity. Qed.
(* get followed by put of an update that leaves the view alone *)
Lemma f1_get_put {C} (f : src -> src) (k : src -> SM C) :
  (forall s, v1 (f s) = v1 s) -> (forall s, F1 (k s)) -> F1 (s <- get ;; put (f s) ;;; k s).
Proof.
  intros Hf Hk s. rewrite sb_get, sb_put. destruct (Hk s (f s)) as [E1 E2]. split; [rewrite E1; apply Hf | exact E2].
Qed.
Lemma f1_transaction_start : F1 transaction_start.
Proof.
  unfold transaction_start.
  apply minv_bind; [minv | intros pp]. apply minv_bind; [minv | intros _].
  apply minv_bind; [minv | intros r]. apply minv_bind; [minv | intros l].
  apply minv_bind; [minv | intros fsz]. apply minv_bind; [minv | intros mdo].
  apply minv_bind; [minv | intros _]. apply minv_bind; [minv | intros _].
  apply (f1_get_put (fun s => s <| s_seq_count := s_seq_count s + 1 |>)); [reflexivity | intros s]. minv.
Qed.
Hint Resolve f1_transaction_start : minv.
Lemma f1_retransmit_chunks : forall fuel o m seg, F1 (retransmit_chunks fuel o m seg).
Proof.
  induction fuel as [|k IH]; intros o m seg; cbn [retransmit_chunks]; destruct (0 <? m); try (minv; fail).
  all: apply minv_bind; [minv | intros _; apply IH].
Qed.
Hint Resolve f1_retransmit_chunks : minv.
Lemma f1_handle_segment_req : forall rq, F1 (handle_segment_req rq).
Proof. intros [a b]. minv. Qed.
Hint Resolve f1_handle_segment_req : minv.
Lemma f1_handle_retransmission : forall pk, F1 (handle_retransmission pk).
Proof.
  intros pk. unfold handle_retransmission. destruct pk as [[]|]; try (minv; fail).
  apply minv_bind; [minv | intros _]. intro s. unfold bind, get, put, ret. cbn [fst snd]. split; [reflexivity | intros e X; discriminate X].
Qed.
Hint Resolve f1_handle_retransmission : minv.

Lemma j1_positive_ack : spres J1 J1 handle_positive_ack_procedures_s.
Proof. pose proof j1_declare_fault. unfold handle_positive_ack_procedures_s. j1w; apply H. Qed.

Lemma j1_waiting_for_ack : spres J1 J1 (handle_waiting_for_ack pkt).
Proof.
  pose proof j1_positive_ack. unfold handle_waiting_for_ack.
  apply (spres_bind _ J1 _); [apply spres_f1; minv | trivial | intros rt]. destruct rt; [apply spres_ret|].
  destruct pkt as [[]|]; try exact H; apply spres_f1; minv.
Qed.

Lemma j1_wait_for_finish : spres J1 J1 (handle_wait_for_finish pkt).
Proof.
  pose proof j1_declare_fault as Hdf. unfold handle_wait_for_finish.
  apply (spres_bind _ J1 _); [apply spres_f1; minv | trivial | intros ac].
  apply (spres_bind _ J1 _); [destruct ac; apply spres_f1; minv | trivial | intros rt]. destruct rt; [apply spres_ret|].
  assert (Hd : spres J1 J1 (t <- gq q_check_timer;; n <- snow;;
     match t with
     | Some tm =>
         when (timed_out n tm)
           (declare_fault_s C_CHECK_LIMIT ;;;
            l <- gets s_cfg ;;
            when (fault_ignored l C_CHECK_LIMIT) (setq (fun q => q <| q_check_timer := Some (n, snd tm) |>)))
     | None => ret tt
     end)).
  { apply (spres_bind _ J1 _); [apply spres_f1; minv | trivial | intros t].
    apply (spres_bind _ J1 _); [apply spres_f1; minv | trivial | intros n].
    destruct t as [tm|]; [|apply spres_ret].
    destruct (timed_out n tm); [rewrite swhen_true | rewrite swhen_false; apply spres_ret].
    apply (spres_bind _ J1 _); [apply Hdf | trivial | intros _]. apply spres_f1; minv. }
  destruct pkt as [[]|] eqn:Ep; try exact Hd.
  apply (spres_bind _ J1 _); [|trivial | intros _; apply spres_f1; minv].
  intros s [H1 H2]. unfold setq, modify. cbn [fst]. split; [|exact H2].
  cbn. intro X. right. eexists. split; [exact Ep | exact X].
Qed.

Lemma j1_fsm_non_idle : spres J1 J1 (fsm_non_idle pkt).
Proof.
  pose proof j1_waiting_for_ack as H1. pose proof j1_wait_for_finish as H2. pose proof j1_notice_of_completion as H3.
  pose proof j1_handle_eof_sent as H4.
  unfold fsm_non_idle.
  apply (spres_bind _ J1 _); [apply spres_f1; minv | trivial | intros _].
  apply (spres_bind _ J1 _); [apply spres_f1; minv | trivial | intros pp]. destruct pp as [pp|]; [|apply spres_ret].
  apply (spres_bind _ J1 _); [apply spres_f1; minv | trivial | intros b1].
  apply (spres_bind _ J1 _); [apply spres_f1; minv | trivial | intros _].
  apply (spres_bind _ J1 _); [apply spres_f1; minv | trivial | intros b2].
  apply (spres_bind _ J1 _); [apply spres_f1; minv | trivial | intros _].
  apply (spres_bind _ J1 _); [apply spres_f1; minv | trivial | intros b3]. destruct b3; [apply spres_f1; minv|].
  apply (spres_bind _ J1 _); [apply spres_f1; minv | trivial | intros b4].
  apply (spres_bind _ J1 _); [apply spres_f1; minv | trivial | intros stop]. destruct stop; [apply spres_ret|].
  apply (spres_bind _ J1 _); [apply spres_f1; minv | trivial | intros b5].
  apply (spres_bind _ J1 _).
  { destruct b5; [rewrite swhen_true | rewrite swhen_false; apply spres_ret].
    apply (spres_bind _ J1 _); [apply spres_f1; minv | trivial | intros fsz].
    apply (spres_bind _ J1 _); [apply spres_f1; minv | trivial | intros ck].
    apply (spres_bind _ J1 _); [apply spres_f1; minv | trivial | intros _]. apply H4. }
  { trivial. }
  intros _. apply (spres_bind _ J1 _); [apply spres_f1; minv | trivial | intros b6].
  apply (spres_bind _ J1 _); [destruct b6; [rewrite swhen_true; exact H1 | rewrite swhen_false; apply spres_ret] | trivial | intros _].
  apply (spres_bind _ J1 _); [apply spres_f1; minv | trivial | intros b7].
  apply (spres_bind _ J1 _); [destruct b7; [rewrite swhen_true; exact H2 | rewrite swhen_false; apply spres_ret] | trivial | intros _].
  apply (spres_bind _ J1 _); [apply spres_f1; minv | trivial | intros b8].
  destruct b8; [rewrite swhen_true; exact H3 | rewrite swhen_false; apply spres_ret].
Qed.

Lemma j1_state_machine : spres J1 J1 (state_machine_s pkt).
Proof.
  unfold state_machine_s.
  apply (spres_bind _ J1 _); [destruct pkt; apply spres_f1; minv | trivial | intros _].
  apply (spres_bind _ J1 _); [apply spres_f1; minv | trivial | intros s1].
  destruct (s_state s1 =? ST_IDLE); [apply spres_ret | apply j1_fsm_non_idle].
Qed.
End Copy.

(* one call of the sender: recorded or logged success comes from before the call, from the Finished PDU handed in, or is
   the notice of a transaction that does not wait for the receiver *)
Theorem sender_copies : forall pkt s,
  let s' := fst (state_machine_s pkt s) in
  (fsb (q_fin (s_p s')) = true -> fsb (q_fin (s_p s)) = true \/ pkt_fin pkt) /\
  (forall e, In e (e_log (s_env s')) -> success_event e = true ->
     In e (e_log (s_env s)) \/ (fsb (q_fin (s_p s)) = true \/ pkt_fin pkt) \/ dflt e).
Proof.
  intros pkt s. apply (j1_state_machine s pkt s). split; [intro X; left; exact X | intros e He _; left; exact He].
Qed.
End SX_Send.

Module SX_Send2.
(* XSend2.v — with closure or in acknowledged mode the sender never reports success on its own *)
Import CFDP.Base CFDP.LostSeg CFDP.Fs CFDP.Crc CFDP.Checksum CFDP.Handler CFDP.Dest CFDP.Source CFDP.SourceSpec CFDP.System CFDP.HandlerSpec.
Import CFDP.gen.Tables.
Import CFDP.proofs.FsProofs CFDP.proofs.GuardProofs CFDP.proofs.ChecksumProofs.
Import SX_Recv SX_Send.
Import RecordUpdate.RecordSet.
Import RecordSetNotations.
Open Scope monad_scope.

Local Opaque calculate_checksum.
Local Arguments Z.add : simpl never. Local Arguments Z.sub : simpl never. Local Arguments Z.mul : simpl never.
Local Arguments Z.pow : simpl never. Local Arguments Z.div : simpl never. Local Arguments Z.ltb : simpl never.
Local Arguments Z.leb : simpl never. Local Arguments Z.eqb : simpl never. Local Arguments Z.min : simpl never.
Local Arguments Z.max : simpl never. Local Arguments Z.of_nat : simpl never. Local Arguments Z.to_nat : simpl never.

(* ------------------------------------------------------------------ with closure or in acknowledged mode: no notice without a
   Finished PDU *)
Definition NOC : Z := SS_NOTICE_OF_COMPLETION.
Definition SAF : Z := SS_SENDING_ACK_OF_FINISHED.
Definition SSa (s : src) : Prop :=
  (s_state s = ST_IDLE -> s_step s = SS_IDLE) /\
  (s_state s <> ST_IDLE ->
     (q_closure (s_p s) = true \/ sc_mode (q_conf (s_p s)) = ACKED) /\
     (s_step s = NOC \/ s_step s = SAF -> q_fin (s_p s) <> None)) /\
  (forall b, s_step_before s = Some b -> b <> NOC /\ b <> SAF).

Section Copy2.
Variables (s0 : src) (pkt : option pdu).
Notation GG := (GG s0 pkt).
Definition J2 (s : src) : Prop :=
  (fsb (q_fin (s_p s)) = true -> GG) /\
  (forall e, In e (e_log (s_env s)) -> success_event e = true -> In e (e_log (s_env s0)) \/ GG) /\
  SSa s.
Definition JB (s : src) : Prop := J2 s /\ s_state s <> ST_IDLE.
Lemma JB_J2 : forall s, JB s -> J2 s. Proof. intros s [X _]. exact X. Qed.

Definition v2 (s : src) :=
  (q_fin (s_p s), filter success_event (e_log (s_env s)),
   (s_state s, s_step s, s_step_before s, q_closure (s_p s), sc_mode (q_conf (s_p s)))).
Notation F2 m := (MInv v2 Any m).
Lemma v2_J2 : forall s s', v2 s' = v2 s -> J2 s -> J2 s'.
Proof.
  intros s s' Hv (H1 & H2 & H3). unfold v2 in Hv. injection Hv; intros E1 E2 E3 E4 E5 E6 E7.
  split; [rewrite E7; exact H1|]. split.
  - intros e He Hs. assert (X : In e (filter success_event (e_log (s_env s')))) by (apply filter_In; split; assumption).
    rewrite E6 in X. apply filter_In in X. apply H2; apply X.
  - unfold SSa in *. rewrite E1, E2, E3, E4, E5, E7. exact H3.
Qed.
Lemma v2_JB : forall s s', v2 s' = v2 s -> JB s -> JB s'.
Proof.
  intros s s' Hv [H1 H2]. split; [apply (v2_J2 s); assumption|]. unfold v2 in Hv. injection Hv; intros. congruence.
Qed.
Lemma spres_f2 {A} (m : SM A) : F2 m -> spres J2 J2 m.
Proof. intros Hm s Hs. apply (v2_J2 s); [apply (minv_state _ _ _ s Hm) | exact Hs]. Qed.
Lemma spres_f2b {A} (m : SM A) : F2 m -> spres JB JB m.
Proof. intros Hm s Hs. apply (v2_JB s); [apply (minv_state _ _ _ s Hm) | exact Hs]. Qed.

Ltac ssc := unfold NOC, SAF, SS_IDLE, SS_TRANSACTION_START, SS_SENDING_METADATA, SS_SENDING_FILE_DATA, SS_RETRANSMITTING,
  SS_SENDING_EOF, SS_WAITING_FOR_EOF_ACK, SS_WAITING_FOR_FINISHED, SS_SENDING_ACK_OF_FINISHED,
  SS_NOTICE_OF_COMPLETION, ST_IDLE, ST_BUSY, ACKED, UNACKED in *.

(* setting a step other than the two that need the Finished values, while busy *)
Lemma jb_sset : forall v, v <> NOC -> v <> SAF -> spres JB JB (sset_step v).
Proof.
  intros v Hn Hs s ((H1 & H2 & (H3 & H4 & H5)) & HB). unfold sset_step, modify. cbn [fst].
  split; [|exact HB]. split; [exact H1 | split; [exact H2|]]. split; [cbn; intro X; contradiction (HB X)|]. split; [|exact H5].
  cbn. intros _. destruct (H4 HB) as [X Y]. split; [exact X | intros [Z|Z]; contradiction].
Qed.
Lemma j2_reset : forall c, spres J2 J2 (sreset_internal c).
Proof.
  intros c s (H1 & H2 & (H3 & H4 & H5)). unfold sreset_internal, modify. cbn [fst].
  split; [cbn; intro X; discriminate X | split; [exact H2|]].
  split; [cbn; intros _; reflexivity | split; [cbn; intro X; contradiction X; reflexivity | exact H5]].
Qed.

Lemma smode_run {C} m (k : bool -> SM C) s :
  bind (smode_is m) k s = k (if s_state s =? ST_IDLE then false else sc_mode (q_conf (s_p s)) =? m) s.
Proof. unfold smode_is, stmode. rewrite !sb_assoc, sb_get, sb_ret, sb_ret. destruct (s_state s =? ST_IDLE); reflexivity. Qed.

Lemma f2_get_put {C} (f : src -> src) (k : src -> SM C) :
  (forall s, v2 (f s) = v2 s) -> (forall s, F2 (k s)) -> F2 (s <- get ;; put (f s) ;;; k s).
Proof.
  intros Hf Hk s. rewrite sb_get, sb_put. destruct (Hk s (f s)) as [E1 E2]. split; [rewrite E1; apply Hf | exact E2].
Qed.
Lemma f2_transaction_start : F2 transaction_start.
Proof.
  unfold transaction_start.
  apply minv_bind; [minv | intros pp]. apply minv_bind; [minv | intros _].
  apply minv_bind; [minv | intros r]. apply minv_bind; [minv | intros l].
  apply minv_bind; [minv | intros fsz]. apply minv_bind; [minv | intros mdo].
  apply minv_bind; [minv | intros _]. apply minv_bind; [minv | intros _].
  apply (f2_get_put (fun s => s <| s_seq_count := s_seq_count s + 1 |>)); [reflexivity | intros s]. minv.
Qed.
Lemma f2_retransmit_chunks : forall fuel o m seg, F2 (retransmit_chunks fuel o m seg).
Proof.
  induction fuel as [|k IH]; intros o m seg; cbn [retransmit_chunks]; destruct (0 <? m); try (minv; fail).
  all: apply minv_bind; [minv | intros _; apply IH].
Qed.
Hint Resolve f2_transaction_start f2_retransmit_chunks : minv.
Lemma f2_handle_segment_req : forall rq, F2 (handle_segment_req rq).
Proof. intros [a b]. minv. Qed.
Hint Resolve f2_handle_segment_req : minv.

Lemma j2_notice_of_completion : forall s, J2 s -> q_fin (s_p s) <> None -> J2 (fst (notice_of_completion_s s)).
Proof.
  intros s (H1 & H2 & H3) Hq. unfold notice_of_completion_s. rewrite sb_gets.
  assert (Hr : forall s1, (forall e, In e (e_log (s_env s1)) -> success_event e = true -> In e (e_log (s_env s0)) \/ GG) ->
               s_step_before s1 = s_step_before s -> J2 (fst (sreset_internal false s1))).
  { intros s1 X Y. unfold sreset_internal, modify. cbn [fst]. split; [cbn; intro Z; discriminate Z | split; [exact X|]].
    split; [cbn; intros _; reflexivity | split; [cbn; intro Z; contradiction Z; reflexivity | cbn; rewrite Y; apply H3]]. }
  destruct (l_ind_fin (s_cfg s)); [rewrite swhen_true | rewrite swhen_false, sb_ret; apply Hr; [exact H2 | reflexivity]].
  unfold stid_or_assert. rewrite !sb_assoc, sb_gq. destruct (q_tid (s_p s)) as [t|]; [|split; [exact H1 | split; assumption]].
  rewrite sb_ret, sb_assoc, sb_gq.
  destruct (q_fin (s_p s)) as [[[[c d] f] fl]|]; [|contradiction Hq; reflexivity].
  cbv beta iota. rewrite sb_assoc, sb_setq, sb_semit. apply Hr; [|reflexivity]. cbn.
  intros e [<-|He] Hs; [|apply H2; assumption]. right. apply H1. cbn in *. rewrite andb_comm. exact Hs.
Qed.

(* walking through functions that keep the handler busy *)
Ltac jb_step :=
  cbv beta zeta;
  match goal with
  | |- spres JB JB _ => solve [apply spres_f2b; minv]
  | |- spres JB JB (sset_step ?v) => apply jb_sset; ssc; discriminate
  | |- spres ?P ?P (bind _ _) => apply (spres_bind P P P); [ | intros ? Hq; exact Hq | intro]
  | |- spres ?P ?P (ret _) => apply spres_ret
  | |- spres ?P ?P (raise _) => apply spres_raise
  | |- spres _ _ (when ?b _) => destruct b; [rewrite swhen_true | rewrite swhen_false]
  | |- spres _ _ (if ?b then _ else _) => destruct b
  | |- spres _ _ (match ?x with _ => _ end) => destruct x
  | |- spres _ _ ?m => let h := mhead m in unfold h
  end.
Ltac jbw := repeat jb_step.

Lemma jb_start_positive_ack : spres JB JB start_positive_ack_procedure_s.
Proof. unfold start_positive_ack_procedure_s. jbw. Qed.

Lemma j2_handle_eof_sent : forall ce, spres JB J2 (handle_eof_sent ce).
Proof.
  intros ce s HJ. unfold handle_eof_sent. rewrite smode_run.
  destruct (if s_state s =? ST_IDLE then false else sc_mode (q_conf (s_p s)) =? ACKED) eqn:Eac;
    [apply JB_J2, jb_start_positive_ack, HJ|].
  destruct ce.
  - rewrite sb_gq. destruct (q_cond_eof (s_p s)) as [c|]; [|apply JB_J2, HJ]. rewrite sb_setq.
    apply j2_notice_of_completion; [|cbn; discriminate].
    destruct HJ as ((H1 & H2 & (H3 & H4 & H5)) & HB). split; [cbn; intro X; discriminate X | split; [exact H2|]].
    split; [exact H3 | split; [|exact H5]]. cbn. intros _. destruct (H4 HB) as [X _]. split; [exact X | intros _; discriminate].
  - rewrite sb_gq. destruct (q_closure (s_p s)) eqn:Ecl.
    + apply JB_J2. revert s HJ Eac Ecl. intros s HJ _ _. revert s HJ.
      change (spres JB JB (_ <- srcfg_or_assert;; l <- gets s_cfg;; n <- snow;;
              setq (fun q => q <| q_check_timer := Some (n, l_check_ms l) |>);;; sset_step SS_WAITING_FOR_FINISHED)).
      jbw.
    + (* neither acknowledged nor closure: excluded *)
      exfalso. destruct HJ as ((H1 & H2 & (H3 & H4 & H5)) & HB).
      destruct (H4 HB) as [[X|X] _]; [rewrite X in Ecl; discriminate Ecl|].
      apply Z.eqb_neq in HB. rewrite HB, X in Eac. discriminate Eac.
Qed.

Tactic Notation "bj" tactic(m) "as" ident(x) := apply (spres_bind JB JB J2); [m | exact JB_J2 | intros x].
Ltac fr := apply spres_f2b; minv.
Ltac jb2 := intros ?s ?HJ; apply JB_J2; assumption.

Lemma j2_notice_of_cancellation : forall c, spres JB J2 (notice_of_cancellation_s c).
Proof.
  intros c. unfold notice_of_cancellation_s. bj fr as ce. destruct ce as [c0|].
  - destruct (negb (c0 =? C_NO_ERROR)).
    + bj fr as t. bj fr as pr. bj fr as u.
      apply (spres_bind JB J2 J2); [intros s HJ; apply j2_reset, JB_J2, HJ | trivial | intros _; apply spres_ret].
    + bj fr as u. bj fr as pr. bj fr as ck. bj fr as u2.
      apply (spres_bind JB J2 J2); [apply j2_handle_eof_sent | trivial | intros _; apply spres_ret].
  - bj fr as u. bj fr as pr. bj fr as ck. bj fr as u2.
    apply (spres_bind JB J2 J2); [apply j2_handle_eof_sent | trivial | intros _; apply spres_ret].
Qed.

Lemma j2_semit_fault : forall h a b c pr, spres J2 J2 (semit (EvFault h a b c pr)).
Proof. intros. apply spres_f2. minv. Qed.

Lemma j2_declare_fault : forall c, spres JB J2 (declare_fault_s c).
Proof.
  intros c. unfold declare_fault_s. bj fr as l. bj fr as tid. bj fr as pr. destruct tid as [[a b]|]; [|jb2].
  apply (spres_bind JB J2 J2); [| trivial |].
  - destruct (get_fault_handler (l_faults l) c) as [h|]; [|jb2].
    destruct (h =? FH_CANCEL); [apply j2_notice_of_cancellation|].
    destruct (h =? FH_ABANDON); [|jb2].
    apply (spres_bind JB J2 J2); [intros s HJ; apply j2_reset, JB_J2, HJ | trivial | intros _; apply spres_ret].
  - intros go. destruct (negb go); [apply spres_ret|].
    destruct (get_fault_handler (l_faults l) c); [apply j2_semit_fault | apply spres_raise].
Qed.

(* F34 repair: a limit fault whose handler is IGNORE leaves the handler busy, and the procedure that declared it
   carries on *)
Lemma cfg_declare_fault : forall c, MInv s_cfg Any (declare_fault_s c).
Proof. intro c. minv. Qed.

Lemma jb_declare_fault_ignored : forall c s, JB s -> fault_ignored (s_cfg s) c = true -> JB (fst (declare_fault_s c s)).
Proof.
  intros c s HJ Hi. unfold declare_fault_s. rewrite sb_gets, sb_gq, sb_gq.
  unfold fault_ignored in Hi.
  destruct (q_tid (s_p s)) as [[a b]|]; [|exact HJ].
  destruct (get_fault_handler (l_faults (s_cfg s)) c) as [h|]; [|discriminate Hi].
  apply Z.eqb_eq in Hi. subst h.
  change (FH_IGNORE =? FH_CANCEL) with false. change (FH_IGNORE =? FH_ABANDON) with false. cbv iota.
  rewrite sb_ret. change (negb true) with false. cbv iota.
  generalize (q_progress (s_p s)). intro pr.
  revert s HJ. change (spres JB JB (semit (EvFault FH_IGNORE a b c pr))). fr.
Qed.

Lemma j2_declare_fault_then : forall c (k : SM unit), spres JB J2 k ->
  spres JB J2 (declare_fault_s c ;;; l <- gets s_cfg ;; if fault_ignored l c then k else ret tt).
Proof.
  intros c k Hk s HJ.
  pose proof (j2_declare_fault c s HJ) as H2.
  pose proof (jb_declare_fault_ignored c s HJ) as HI.
  pose proof (minv_state _ _ _ s (cfg_declare_fault c)) as Ec.
  unfold bind at 1. destruct (declare_fault_s c s) as [s1 [u|e]]; cbn [fst] in *; [|exact H2].
  rewrite sb_gets, Ec. destruct (fault_ignored (s_cfg s) c); [|exact H2].
  apply Hk, HI. reflexivity.
Qed.

Lemma j2_positive_ack : spres JB J2 handle_positive_ack_procedures_s.
Proof.
  unfold handle_positive_ack_procedures_s. bj fr as t. destruct t as [tm|]; [|jb2].
  bj fr as r. bj fr as n. destruct (negb (timed_out n tm)); [jb2|]. bj fr as cnt.
  cbv zeta.
  assert (Hre : spres JB J2
    (setq (fun q => q <| q_ack_timer := Some (n, snd tm) |> <| q_ack_counter := cnt + 1 |>) ;;;
     pr <- gq q_progress ;; ck <- checksum_calculation pr ;; prepare_eof_pdu ck)).
  { intros s HJ. apply JB_J2. revert s HJ. fr. }
  destruct (r_ack_limit r <=? cnt + 1); [|exact Hre].
  apply j2_declare_fault_then. exact Hre.
Qed.

(* a NAK is served: the step at that time is remembered *)
Lemma jb_handle_retransmission : forall pk s, JB s -> s_step s <> NOC -> s_step s <> SAF ->
  JB (fst (handle_retransmission pk s)).
Proof.
  intros pk s HJ Hn Hs. unfold handle_retransmission. destruct pk as [[]|]; try exact HJ.
  assert (Hf : F2 (fold_left (fun m rq => m;;; handle_segment_req rq) reqs (ret tt))) by minv.
  pose proof (minv_state _ _ _ s Hf) as Ev. unfold bind at 1.
  destruct (fold_left (fun m rq => m;;; handle_segment_req rq) reqs (ret tt) s) as [s1 [[]|e]]; cbn [fst] in Ev;
    [|apply (v2_JB s); assumption].
  assert (H1 : JB s1) by (apply (v2_JB s); assumption).
  assert (Est : s_step s1 = s_step s) by (unfold v2 in Ev; injection Ev; intros; assumption).
  rewrite sb_get, sb_put. unfold ret. cbn [fst].
  destruct H1 as ((A1 & A2 & (A3 & A4 & A5)) & HB). split; [|exact HB].
  split; [exact A1 | split; [exact A2|]]. split; [cbn; intro X; contradiction (HB X)|]. split.
  - cbn. intros _. destruct (A4 HB) as [X _]. split; [exact X | intros [Y|Y]; ssc; discriminate Y].
  - cbn. intros b Eb. injection Eb as <-. rewrite Est. split; assumption.
Qed.

Lemma jb_step_facts : forall s v, JB s -> s_step s = v -> v <> NOC -> v <> SAF -> s_step s <> NOC /\ s_step s <> SAF.
Proof. intros s v _ -> H1 H2. split; assumption. Qed.

Lemma j2_waiting_for_ack : forall s, JB s -> s_step s = SS_WAITING_FOR_EOF_ACK -> J2 (fst (handle_waiting_for_ack pkt s)).
Proof.
  intros s HJ Hst. unfold handle_waiting_for_ack. unfold bind at 1.
  assert (Hn : s_step s <> NOC /\ s_step s <> SAF) by (rewrite Hst; ssc; split; discriminate).
  pose proof (jb_handle_retransmission pkt s HJ (proj1 Hn) (proj2 Hn)) as H1.
  destruct (handle_retransmission pkt s) as [s1 [rt|e]]; cbn [fst] in H1; [|apply JB_J2, H1].
  destruct rt; [apply JB_J2, H1|].
  destruct pkt as [[]|]; try (apply j2_positive_ack, H1); try (apply JB_J2, H1).
  - apply JB_J2. revert s1 H1. apply jb_sset; ssc; discriminate.
  - destruct (acked =? D_EOF); [rewrite swhen_true | rewrite swhen_false; apply JB_J2, H1].
    apply JB_J2. revert s1 H1. apply jb_sset; ssc; discriminate.
Qed.

Lemma j2_wait_for_finish : forall s, JB s -> s_step s = SS_WAITING_FOR_FINISHED -> J2 (fst (handle_wait_for_finish pkt s)).
Proof.
  intros s HJ Hst. unfold handle_wait_for_finish. rewrite smode_run.
  assert (Hn : s_step s <> NOC /\ s_step s <> SAF) by (rewrite Hst; ssc; split; discriminate).
  match goal with |- J2 (fst (bind ?m ?k s)) =>
    assert (H1 : JB (fst (m s)));
    [ match goal with |- JB (fst ((if ?c then _ else _) s)) => destruct c end;
      [apply jb_handle_retransmission; [exact HJ | apply Hn | apply Hn] | exact HJ]
    | unfold bind at 1; destruct (m s) as [s1 [rt|e]]; cbn [fst] in H1; [|apply JB_J2, H1] ]
  end.
  destruct rt; [apply JB_J2, H1|].
  assert (Hd : J2 (fst ((t <- gq q_check_timer;; n <- snow;;
     match t with
     | Some tm =>
         when (timed_out n tm)
           (declare_fault_s C_CHECK_LIMIT ;;;
            l <- gets s_cfg ;;
            when (fault_ignored l C_CHECK_LIMIT) (setq (fun q => q <| q_check_timer := Some (n, snd tm) |>)))
     | None => ret tt
     end) s1))).
  { revert s1 H1. bj fr as t. bj fr as n. destruct t as [tm|]; [|jb2].
    destruct (timed_out n tm); [rewrite swhen_true | rewrite swhen_false; jb2].
    apply (j2_declare_fault_then C_CHECK_LIMIT (setq (fun q => q <| q_check_timer := Some (n, snd tm) |>))).
    intros s2 HJ2. apply JB_J2. revert s2 HJ2. fr. }
  destruct pkt as [[]|] eqn:Ep; try exact Hd.
  rewrite sb_setq, smode_run.
  destruct H1 as ((A1 & A2 & (A3 & A4 & A5)) & HB). destruct (A4 HB) as [Hmc _].
  assert (HG : fsb (Some (cond, deliv, fstatus, fault_loc)) = true -> GG).
  { intro X. right. eexists. split; [exact Ep | exact X]. }
  match goal with |- context [if ?c then _ else _] => destruct c end.
  - rewrite sb_gq. unfold sadd_packet, sset_step, bind, modify. cbn [fst].
    split; [exact HG | split; [exact A2|]]. split; [cbn; intro X; contradiction (HB X)|]. split; [|exact A5].
    cbn. intros _. split; [exact Hmc | intros _; discriminate].
  - unfold sset_step, modify. cbn [fst].
    split; [exact HG | split; [exact A2|]]. split; [cbn; intro X; contradiction (HB X)|]. split; [|exact A5].
    cbn. intros _. split; [exact Hmc | intros _; discriminate].
Qed.

Ltac to_sp := match goal with |- forall s, JB s -> JB (fst (?m s)) => change (spres JB JB m) end.

Lemma jb_sending_file_data : forall s, JB s -> s_step s = SS_SENDING_FILE_DATA -> JB (fst (sending_file_data_fsm pkt s)).
Proof.
  intros s HJ Hst. unfold sending_file_data_fsm. rewrite smode_run.
  assert (Hn : s_step s <> NOC /\ s_step s <> SAF) by (rewrite Hst; ssc; split; discriminate).
  destruct (if s_state s =? ST_IDLE then false else sc_mode (q_conf (s_p s)) =? ACKED) eqn:Eac.
  - (* acknowledged: a NAK may be served first *)
    pose proof (jb_handle_retransmission pkt s HJ (proj1 Hn) (proj2 Hn)) as H1. unfold bind at 1.
    destruct (handle_retransmission pkt s) as [s1 [rt|e]]; cbn [fst] in H1; [|exact H1].
    destruct rt; [exact H1|]. rewrite sb_gq.
    destruct (negb (q_md_only (s_p s1)) && (q_progress (s_p s1) <? opt_z (q_file_size (s_p s1)))).
    + revert s1 H1. to_sp. jbw.
    + destruct (q_empty_file (s_p s1)); [revert s1 H1; to_sp; jbw|].
      destruct (q_md_only (s_p s1)); [|exact H1]. rewrite orb_true_r. revert s1 H1. to_sp. jbw.
  - rewrite sb_ret, sb_gq.
    destruct (negb (q_md_only (s_p s)) && (q_progress (s_p s) <? opt_z (q_file_size (s_p s)))).
    + revert s HJ Hst Hn Eac. intros s HJ _ _ _. revert s HJ. to_sp. jbw.
    + destruct (q_empty_file (s_p s)); [revert s HJ Hst Hn Eac; intros s HJ _ _ _; revert s HJ; to_sp; jbw|].
      destruct (q_md_only (s_p s)); [|exact HJ].
      destruct HJ as ((A1 & A2 & (A3 & A4 & A5)) & HB). destruct (A4 HB) as [[X|X] _].
      * rewrite X. cbn [orb].
        assert (HJ : JB s) by (split; [split; [exact A1 | split; [exact A2 | split; [exact A3 | split; assumption]]] | exact HB]).
        revert s HJ Hst Hn Eac X A1 A2 A3 A4 A5 HB. intros s HJ _ _ _ _ _ _ _ _ _ _. revert s HJ. to_sp. jbw.
      * exfalso. apply Z.eqb_neq in HB. rewrite HB, X in Eac. discriminate Eac.
Qed.

Lemma jb_fsm_advancement : spres JB JB fsm_advancement_s.
Proof.
  intros s HJ. unfold fsm_advancement_s. rewrite sb_get. destruct (0 <? zlen (s_queue s)); [exact HJ|]. cbv zeta.
  destruct (s_step s =? SS_SENDING_METADATA); [revert s HJ; apply jb_sset; ssc; discriminate|].
  destruct (s_step s =? SS_RETRANSMITTING).
  { destruct (s_step_before s) as [b|] eqn:Eb; [|exact HJ].
    pose proof HJ as ((_ & _ & (_ & _ & A5)) & _). destruct (A5 b Eb) as [X Y]. revert s HJ Eb A5. intros s HJ _ _. revert s HJ.
    apply jb_sset; assumption. }
  destruct (s_step s =? SS_SENDING_FILE_DATA).
  { destruct (match q_file_size (s_p s) with Some sz => q_progress (s_p s) =? sz | None => false end);
      [rewrite swhen_true | rewrite swhen_false; exact HJ]. revert s HJ. to_sp. jbw. }
  destruct (Z.eqb_spec (s_step s) SS_SENDING_ACK_OF_FINISHED) as [E|E]; [|exact HJ].
  destruct HJ as ((A1 & A2 & (A3 & A4 & A5)) & HB). unfold sset_step, modify. cbn [fst].
  split; [|exact HB]. split; [exact A1 | split; [exact A2|]]. split; [cbn; intro X; contradiction (HB X)|]. split; [|exact A5].
  cbn. intros _. destruct (A4 HB) as [X Y]. split; [exact X | intros _; apply Y; right; exact E].
Qed.

Lemma j2_busy_step : forall s v, J2 s -> s_step s = v -> v <> SS_IDLE -> JB s.
Proof.
  intros s v HJ E Hv. split; [exact HJ|]. intro Hi. destruct HJ as (_ & _ & (A3 & _)). rewrite (A3 Hi) in E. congruence.
Qed.

(* a guarded clause of the busy FSM *)
Lemma j2_guard : forall v (m rest : SM unit), v <> SS_IDLE ->
  (forall s, JB s -> s_step s = v -> J2 (fst (m s))) -> spres J2 J2 rest ->
  spres J2 J2 (b <- sstep_is v ;; when b m ;;; rest).
Proof.
  intros v m rest Hv Hm Hr s HJ. unfold sstep_is. rewrite sb_assoc, sb_gets, sb_ret.
  destruct (Z.eqb_spec (s_step s) v) as [E|E].
  - rewrite swhen_true. unfold bind. pose proof (Hm s (j2_busy_step s v HJ E Hv) E) as X.
    destruct (m s) as [s1 [[]|e]]; cbn [fst] in *; [apply Hr, X | exact X].
  - rewrite swhen_false, sb_ret. apply Hr, HJ.
Qed.
Lemma j2_guard_last : forall v (m : SM unit), v <> SS_IDLE ->
  (forall s, JB s -> s_step s = v -> J2 (fst (m s))) ->
  spres J2 J2 (b <- sstep_is v ;; when b m).
Proof.
  intros v m Hv Hm s HJ. unfold sstep_is. rewrite sb_assoc, sb_gets, sb_ret.
  destruct (Z.eqb_spec (s_step s) v) as [E|E]; [rewrite swhen_true; apply Hm; [apply (j2_busy_step s v); assumption | exact E] | rewrite swhen_false; exact HJ].
Qed.

Definition fsm_tail2 : SM unit :=
  b <- sstep_is SS_SENDING_EOF ;;
  when b (fsz <- gq q_file_size ;; ck <- checksum_calculation (opt_z fsz) ;;
          prepare_eof_pdu ck ;;; handle_eof_sent false) ;;;
  b <- sstep_is SS_WAITING_FOR_EOF_ACK ;;
  when b (handle_waiting_for_ack pkt) ;;;
  b <- sstep_is SS_WAITING_FOR_FINISHED ;;
  when b (handle_wait_for_finish pkt) ;;;
  b <- sstep_is SS_NOTICE_OF_COMPLETION ;;
  when b notice_of_completion_s.

Lemma j2_fsm_tail2 : spres J2 J2 fsm_tail2.
Proof.
  unfold fsm_tail2.
  apply j2_guard; [ssc; discriminate | |].
  { intros s HJ _. revert s HJ. bj fr as fsz. bj fr as ck. bj fr as u. apply j2_handle_eof_sent. }
  apply j2_guard; [ssc; discriminate | exact j2_waiting_for_ack |].
  apply j2_guard; [ssc; discriminate | exact j2_wait_for_finish |].
  apply j2_guard_last; [ssc; discriminate|].
  intros s HJ Hst. apply j2_notice_of_completion; [apply JB_J2, HJ|].
  destruct HJ as ((_ & _ & (_ & A4 & _)) & HB). apply (A4 HB). left. exact Hst.
Qed.

Lemma j2_fsm_non_idle : spres JB J2 (fsm_non_idle pkt).
Proof.
  unfold fsm_non_idle. bj (apply jb_fsm_advancement) as u. bj fr as pp. destruct pp as [pp|]; [|jb2].
  bj fr as b1. bj (destruct b1; [rewrite swhen_true; apply jb_sset; ssc; discriminate | rewrite swhen_false; apply spres_ret]) as u1.
  bj fr as b2.
  bj (destruct b2; [rewrite swhen_true; apply (spres_bind JB JB JB); [fr | trivial | intros _; apply jb_sset; ssc; discriminate]
                   | rewrite swhen_false; apply spres_ret]) as u2.
  bj fr as b3. destruct b3; [intros s HJ; apply JB_J2; revert s HJ; fr|].
  intros s HJ. unfold sstep_is at 1. rewrite sb_assoc, sb_gets, sb_ret.
  destruct (Z.eqb_spec (s_step s) SS_SENDING_FILE_DATA) as [E|E].
  - pose proof (jb_sending_file_data s HJ E) as X. unfold bind at 1.
    destruct (sending_file_data_fsm pkt s) as [s1 [stop|e]]; cbn [fst] in X; [|apply JB_J2, X].
    destruct stop; [apply JB_J2, X|]. apply (j2_fsm_tail2 s1), JB_J2, X.
  - rewrite sb_ret. apply (j2_fsm_tail2 s), JB_J2, HJ.
Qed.

Lemma j2_state_machine : spres J2 J2 (state_machine_s pkt).
Proof.
  unfold state_machine_s.
  apply (spres_bind _ J2 _); [destruct pkt; apply spres_f2; minv | trivial | intros _].
  intros s HJ. rewrite sb_get. destruct (Z.eqb_spec (s_state s) ST_IDLE) as [E|E]; [exact HJ|].
  apply j2_fsm_non_idle. split; assumption.
Qed.
End Copy2.

(* one call of the sender, with closure or in acknowledged mode: recorded or logged success comes from before the call
   or from the Finished PDU handed in *)
Theorem sender_copies_closed : forall pkt s, SSa s ->
  let s' := fst (state_machine_s pkt s) in
  SSa s' /\
  (fsb (q_fin (s_p s')) = true -> fsb (q_fin (s_p s)) = true \/ pkt_fin pkt) /\
  (forall e, In e (e_log (s_env s')) -> success_event e = true ->
     In e (e_log (s_env s)) \/ (fsb (q_fin (s_p s)) = true \/ pkt_fin pkt)).
Proof.
  intros pkt s Hs. cbv zeta.
  assert (X : J2 s pkt (fst (state_machine_s pkt s))).
  { apply j2_state_machine. split; [intro Y; left; exact Y | split; [intros e He _; left; exact He | exact Hs]]. }
  destruct X as (X1 & X2 & X3). split; [exact X3 | split; [exact X1 | exact X2]].
Qed.
End SX_Send2.

Module SX_Sys.
(* XSys.v — the system invariant extended by the Finished PDUs in flight and the sender's records *)
Import CFDP.Base CFDP.LostSeg CFDP.LostSegSpec CFDP.Fs CFDP.Crc CFDP.Checksum CFDP.Handler CFDP.Dest CFDP.Source CFDP.SourceSpec CFDP.System CFDP.HandlerSpec.
Import CFDP.gen.Tables.
Import CFDP.proofs.RouteProofs CFDP.proofs.FsProofs CFDP.proofs.LostSegProofs CFDP.proofs.ChecksumProofs CFDP.proofs.GuardProofs CFDP.proofs.DeliveryProofs CFDP.proofs.NakProofs CFDP.proofs.TrackInvProofs CFDP.proofs.DestFsProofs CFDP.proofs.SuccessInvProofs CFDP.proofs.SystemSuccessProofs.
Import SS_Defs SS_Aux SS_RecvA SS_RecvT SS_RecvB SS_RecvC SS_RecvD SS_RecvE SS_RecvF SS_RecvG SS_SysA.
Import SX_Recv SX_Send SX_Send2.
Import RecordUpdate.RecordSet.
Import RecordSetNotations.

Local Opaque calculate_checksum.
Local Arguments Z.add : simpl never. Local Arguments Z.sub : simpl never. Local Arguments Z.mul : simpl never.
Local Arguments Z.ltb : simpl never. Local Arguments Z.leb : simpl never. Local Arguments Z.eqb : simpl never.
Local Arguments Z.max : simpl never. Local Arguments Z.min : simpl never. Local Arguments Z.of_nat : simpl never.

(* ------------------------------------------------------------------ where a success Finished PDU or its copy can be *)
Definition ft_links (ex : list pdu) (y : sys) : Prop :=
  (exists q, In q ex /\ fin_ok q = true) \/
  (exists q, In q (y_d2s y) /\ fin_ok q = true) \/
  (exists e, In e (y_delayed y) /\ (snd (fst e) =? 0) = false /\ fin_ok (snd e) = true).

(* emit_pdus only adds the PDUs it is given, in the direction it is given *)
Lemma emit_d2s : forall dir ps y q, In q (y_d2s (emit_pdus dir ps y)) -> In q (y_d2s y) \/ ((dir =? 0) = false /\ In q ps).
Proof.
  intros dir ps. induction ps as [|p0 t IH]; intros y q Hq; cbn [emit_pdus] in Hq; [left; exact Hq|].
  apply IH in Hq. destruct Hq as [Hq|[Hd Hq]]; [|right; split; [exact Hd | right; exact Hq]].
  unfold link_push in Hq. destruct (dir =? 0) eqn:Ed;
    (destruct (find_fault _ _ _) as [f|]; [destruct (ft_kind f =? 0); [|destruct (ft_kind f =? 1)]|]); cbn in Hq;
    try (left; exact Hq);
    (apply in_app_or in Hq; destruct Hq as [Hq|Hq]; [left; exact Hq | right; split; [reflexivity|]];
     cbn in Hq; left; tauto).
Qed.

Lemma emit_delayed : forall dir ps y e, In e (y_delayed (emit_pdus dir ps y)) ->
  In e (y_delayed y) \/ (snd (fst e) = dir /\ In (snd e) ps).
Proof.
  intros dir ps. induction ps as [|p0 t IH]; intros y e He; cbn [emit_pdus] in He; [left; exact He|].
  apply IH in He. destruct He as [He|[Hd He]]; [|right; split; [exact Hd | right; exact He]].
  unfold link_push in He. destruct (dir =? 0) eqn:Ed;
    (destruct (find_fault _ _ _) as [f|]; [destruct (ft_kind f =? 0); [|destruct (ft_kind f =? 1)]|]); cbn in He;
    try (left; exact He);
    (apply in_app_or in He; destruct He as [He|[<-|[]]]; [left; exact He | right; cbn; split; [reflexivity | left; reflexivity]]).
Qed.

Lemma emit_ft : forall dir ps ex y, ft_links ex (emit_pdus dir ps y) ->
  ft_links ex y \/ ((dir =? 0) = false /\ exists q, In q ps /\ fin_ok q = true).
Proof.
  intros dir ps ex y [H|[(q & Hq & Hok)|(e & He & Hd & Hok)]].
  - left. left. exact H.
  - apply emit_d2s in Hq. destruct Hq as [Hq|[Hd Hq]]; [left; right; left; exists q; split; assumption|].
    right. split; [exact Hd | exists q; split; assumption].
  - apply emit_delayed in He. destruct He as [He|[Ed He]]; [left; right; right; exists e; repeat split; assumption|].
    right. rewrite Ed in Hd. split; [exact Hd | exists (snd e); split; assumption].
Qed.

Section XSys.
Variables (cs cd : lcfg) (seq0 bits : Z) (p : putreq) (sn dn : path) (data : bytes) (rs : rcfg).
Hypothesis Hrem : get_remote (l_remotes cs) (pr_dst p) = Some rs.
Hypothesis Hnames : pr_names p = Some (sn, dn).
Hypothesis Hsn : sn <> [].
Hypothesis Hdn1 : length dn = 1%nat.
Hypothesis Hty : r_cktype rs = CK_CRC32 \/ r_cktype rs = CK_CRC32C.
Hypothesis Hseg : match r_max_seg rs with Some m => 1 <= m | None => True end.
Hypothesis Hmode : SS_SenderGen.s_mode p rs = ACKED \/ SS_SenderGen.s_mode p rs = UNACKED.

(* what is known about the sender beyond genuineness, and which of its events count as a success report *)
Variable SX : src -> Prop.
Variable trig : event -> bool.
Hypothesis HX_step : forall pkt s, SX s ->
  SX (fst (state_machine_s pkt s)) /\
  (fsb (q_fin (s_p (fst (state_machine_s pkt s)))) = true -> fsb (q_fin (s_p s)) = true \/ pkt_fin pkt) /\
  (forall e, In e (e_log (s_env (fst (state_machine_s pkt s)))) -> trig e = true ->
     In e (e_log (s_env s)) \/ fsb (q_fin (s_p s)) = true \/ pkt_fin pkt).
Hypothesis HX_drain : forall s, SX s -> SX (fst (drain_s s)).
Hypothesis HX_clock : forall s f, SX s -> SX (s <| s_env ::= (fun e => e <| e_now ::= f |>) |>).

Notation PmK := (Pmk sn dn data rs Hdn1 Hty).
Notation POSTk H Hm := (@POST cs p sn dn data rs (PmK H Hm)).
Notation PREk := (PRE cs cd p sn data rs).

Definition ft_src (s : src) : Prop :=
  fsb (q_fin (s_p s)) = true \/ exists e, In e (e_log (s_env s)) /\ trig e = true.
Definition FTx (ex : list pdu) (y : sys) : Prop := ft_links ex y \/ ft_src (y_src y).
Definition CGD {Pm : Prm} (y : sys) : Prop :=
  CG (y_dst y) /\ (d_state (y_dst y) = ST_IDLE -> tid_mem TT (y_dst_done y) = true).
Definition EX {Pm : Prm} (ex : list pdu) (y : sys) : Prop :=
  d_queue (y_dst y) = [] /\ SX (y_src y) /\ (FTx ex y -> CGD y).

Lemma EX_mono : forall {Pm : Prm} ex ex' y y', EX ex y ->
  y_dst y' = y_dst y -> y_dst_done y' = y_dst_done y -> SX (y_src y') -> (FTx ex' y' -> FTx ex y) -> EX ex' y'.
Proof.
  intros Pm ex ex' y y' (E1 & E2 & E3) Hd Hdd Hs Hf. unfold EX, CGD. rewrite Hd, Hdd.
  split; [exact E1 | split; [exact Hs | intro X; apply E3, Hf, X]].
Qed.

Lemma ft_src_drain : forall s, ft_src (fst (drain_s s)) -> ft_src s.
Proof. intros s X. exact X. Qed.

(* the sender's call *)
Lemma call_src_shape : forall pkt y,
  y_dst (fst (call_src pkt y)) = y_dst y /\ y_dst_done (fst (call_src pkt y)) = y_dst_done y /\
  y_src (fst (call_src pkt y)) = fst (drain_s (fst (state_machine_s pkt (y_src y)))) /\
  (forall ex, ft_links ex (fst (call_src pkt y)) -> ft_links ex y).
Proof.
  intros pkt y. unfold call_src.
  destruct (state_machine_s pkt (y_src y)) as [s1 r]. cbn [fst].
  set (y1 := match r with Ok _ => y | Err e => y <| y_errs ::= cons (0, e) |> end).
  set (y2 := note_done_src (y1 <| y_src := s1 |>)).
  assert (Hy2 : y_src y2 = s1 /\ y_dst y2 = y_dst y /\ y_d2s y2 = y_d2s y /\ y_delayed y2 = y_delayed y /\
                y_dst_done y2 = y_dst_done y).
  { subst y2. unfold note_done_src. change (y_src (y1 <| y_src := s1 |>)) with s1.
    change (y_src_cur (y1 <| y_src := s1 |>)) with (y_src_cur y1).
    subst y1. destruct r; destruct (s_state s1 =? ST_BUSY); try destruct (q_tid (s_p s1)); cbn;
      try (match goal with |- context [match ?c with Some _ => _ | None => _ end] => destruct c end); cbn; repeat split; reflexivity. }
  destruct Hy2 as (F1 & F2 & F4 & F5 & F7).
  rewrite F1. unfold drain_s.
  match goal with |- context [emit_pdus 0 ?ps ?yy] => set (ps0 := ps); set (y3 := yy) end.
  cbn [fst]. destruct (emit_frame 0 ps0 y3) as (G1 & G2 & _ & G4 & _ & _).
  rewrite G1, G2, G4. subst y3. cbn. rewrite F2, F7.
  split; [reflexivity | split; [reflexivity | split; [reflexivity|]]].
  intros ex Hf. apply emit_ft in Hf. destruct Hf as [Hf|[Hd _]]; [|discriminate Hd].
  unfold ft_links in *. cbn in Hf. rewrite F4, F5 in Hf. exact Hf.
Qed.

Lemma call_src_EX : forall {Pm : Prm} pkt ex y, EX (match pkt with Some q => q :: ex | None => ex end) y ->
  EX ex (fst (call_src pkt y)).
Proof.
  intros Pm pkt ex y HE. destruct (call_src_shape pkt y) as (S1 & S2 & S3 & S4).
  pose proof HE as (_ & Hsx & _). destruct (HX_step pkt (y_src y) Hsx) as (X1 & X2 & X3).
  apply (EX_mono _ _ y _ HE S1 S2); [rewrite S3; apply HX_drain, X1|].
  intros [Hf|Hf].
  - left. apply S4 in Hf. destruct Hf as [(q & Hq & Hok)|Hf]; [left; exists q; split; [destruct pkt; [right|]; exact Hq | exact Hok] | right; exact Hf].
  - rewrite S3 in Hf. apply ft_src_drain in Hf.
    assert (Hg : fsb (q_fin (s_p (y_src y))) = true \/ pkt_fin pkt -> FTx (match pkt with Some q => q :: ex | None => ex end) y).
    { intros [Y|(q & -> & Hok)]; [right; left; exact Y | left; left; exists q; split; [left; reflexivity | exact Hok]]. }
    destruct Hf as [Hf|(e & He & Ht)]; [apply Hg, X2, Hf|].
    destruct (X3 e He Ht) as [Y|Y]; [right; right; exists e; split; assumption | apply Hg, Y].
Qed.

Lemma on_wire_in : forall ps q,
  In q (flat_map (fun p0 => match on_wire p0 with Some q0 => [q0] | None => [] end) ps) -> In q ps.
Proof.
  intros ps q Hq. apply in_flat_map in Hq. destruct Hq as (p0 & Hp & Hq).
  assert (Hw : on_wire p0 = Some p0 \/ on_wire p0 = None).
  { destruct p0; cbn; try (left; reflexivity).
    - destruct data0; [destruct (h_crc h); [left | right]; reflexivity | left; reflexivity].
    - destruct fault_loc; [destruct ((cond =? C_NO_ERROR) || (cond =? C_UNSUPPORTED_CHECKSUM)); [right | left]; reflexivity | left; reflexivity]. }
  destruct Hw as [E|E]; rewrite E in Hq; [destruct Hq as [<-|[]]; exact Hp | destruct Hq].
Qed.

(* the receiver's call *)
Lemma call_dst_shape : forall pkt y,
  let s1 := fst (Dest.state_machine pkt (y_dst y)) in
  y_dst (fst (call_dst pkt y)) = fst (drain_d s1) /\ y_src (fst (call_dst pkt y)) = y_src y /\
  y_dst_done (fst (call_dst pkt y)) =
    (if d_state s1 =? ST_BUSY then y_dst_done y
     else match y_dst_cur y with Some t => t :: y_dst_done y | None => y_dst_done y end) /\
  (forall ex, ft_links ex (fst (call_dst pkt y)) -> ft_links ex y \/ exists q, In q (d_queue s1) /\ fin_ok q = true).
Proof.
  intros pkt y. cbv zeta. unfold call_dst.
  destruct (Dest.state_machine pkt (y_dst y)) as [s1 r]. cbn [fst].
  set (y1 := match r with Ok _ => y | Err e => y <| y_errs ::= cons (1, e) |> end).
  assert (Ey1 : y_dst_cur y1 = y_dst_cur y /\ y_dst_done y1 = y_dst_done y /\ y_src y1 = y_src y /\
                y_d2s y1 = y_d2s y /\ y_delayed y1 = y_delayed y).
  { subst y1. destruct r; repeat split; reflexivity. }
  destruct Ey1 as (Ec1 & Ed1 & Es1 & El2 & El3).
  set (y2 := note_done_dst (y1 <| y_dst := s1 |>)).
  assert (Hy2 : y_dst y2 = s1 /\ y_src y2 = y_src y /\ y_d2s y2 = y_d2s y /\ y_delayed y2 = y_delayed y /\
                y_dst_done y2 = (if d_state s1 =? ST_BUSY then y_dst_done y
                                 else match y_dst_cur y with Some t => t :: y_dst_done y | None => y_dst_done y end)).
  { subst y2. unfold note_done_dst. change (y_dst (y1 <| y_dst := s1 |>)) with s1.
    change (y_dst_cur (y1 <| y_dst := s1 |>)) with (y_dst_cur y1). rewrite Ec1.
    destruct (d_state s1 =? ST_BUSY).
    - destruct (p_tid (d_p s1)); cbn; repeat split; assumption.
    - destruct (y_dst_cur y); cbn; rewrite ?Ed1; repeat split; assumption. }
  destruct Hy2 as (E1 & E2 & E4 & E5 & E6).
  rewrite E1. unfold drain_d.
  match goal with |- context [emit_pdus 1 ?ps ?yy] => set (ps0 := ps); set (y3 := yy) end.
  cbn [fst]. destruct (emit_frame 1 ps0 y3) as (G1 & G2 & _ & G4 & _ & _).
  rewrite G1, G2, G4. subst y3. cbn. rewrite E2, E6.
  split; [reflexivity | split; [reflexivity | split; [reflexivity|]]].
  intros ex Hf. apply emit_ft in Hf. destruct Hf as [Hf|[_ (q & Hq & Hok)]].
  - left. unfold ft_links in *. cbn in Hf. rewrite E4, E5 in Hf. exact Hf.
  - right. exists q. split; [apply on_wire_in; exact Hq | exact Hok].
Qed.

Lemma call_dst_EX : forall {Pm : Prm} pkt ex y, @POST cs p sn dn data rs Pm y -> EX ex y -> pkt_ok pkt ->
  (d_state (y_dst y) = ST_IDLE -> starting pkt -> tid_mem TT (y_dst_done y) = false) ->
  EX ex (fst (call_dst pkt y)).
Proof.
  intros Pm pkt ex y (HS & HR & Hc & HL & HK & (D1 & D2 & D3)) (E1 & E2 & E3) Hpk Hstart.
  destruct (call_dst_shape pkt y) as (S1 & S2 & S3 & S4). cbv zeta in *.
  set (s1 := fst (Dest.state_machine pkt (y_dst y))) in *.
  assert (Hf0 : finq (y_dst y) = []) by (unfold finq; rewrite E1; reflexivity).
  pose proof (sm_RI pkt _ Hpk HR) as HR1. fold s1 in HR1.
  assert (Hdone : d_state (y_dst y) = ST_BUSY -> d_state s1 = ST_IDLE ->
                  tid_mem TT (y_dst_done (fst (call_dst pkt y))) = true).
  { intros HB Hi1. rewrite S3, Hi1. change (ST_IDLE =? ST_BUSY) with false. cbv iota. rewrite (D1 HB). apply tid_mem_cons. }
  unfold EX, CGD. rewrite S1, S2. split; [reflexivity | split; [exact E2|]].
  intros Hft.
  assert (Hcase : FTx ex y \/ exists q, In q (d_queue s1) /\ fin_ok q = true).
  { destruct Hft as [Hft|Hft]; [|left; right; rewrite S2 in Hft; exact Hft].
    apply S4 in Hft. destruct Hft as [Hft|Hft]; [left; left; exact Hft | right; exact Hft]. }
  change (d_state (fst (drain_d s1))) with (d_state s1).
  change (CG (fst (drain_d s1))) with (CG s1).
  destruct (ri_st _ HR) as [Hi|HB].
  - (* idle before the call *)
    destruct (starting_dec p rs Hty Hmode pkt) as [Hs|Hs].
    + destruct Hcase as [Hold|(q & Hq & Hok)].
      * destruct (E3 Hold) as [_ Hd]. rewrite (Hd Hi) in Hstart. specialize (Hstart Hi Hs). discriminate Hstart.
      * rewrite (sm_idle_nofin pkt _ Hpk HR Hc Hi Hf0 q Hq) in Hok. discriminate Hok.
    + assert (Es : s1 = y_dst y) by (apply sm_idle_noop; assumption).
      destruct Hcase as [Hold|(q & Hq & Hok)].
      * destruct (E3 Hold) as [HC Hd]. rewrite Es. split; [exact HC|]. intros _.
        rewrite S3, Es, Hi. change (ST_IDLE =? ST_BUSY) with false. cbv iota. rewrite (D2 Hi). exact (Hd Hi).
      * rewrite Es, E1 in Hq. destruct Hq.
  - (* busy before the call *)
    assert (HC1 : CG s1).
    { destruct Hcase as [Hold|(q & Hq & Hok)].
      - destruct (E3 Hold) as [HC _]. apply sm_busy_CG; assumption.
      - apply (sm_busy_fin pkt _ Hpk HR Hc HB Hf0 q Hq Hok). }
    split; [exact HC1 | exact (Hdone HB)].
Qed.

(* ------------------------------------------------------------------ the extended invariant *)
Definition IX {Pm : Prm} (ex : list pdu) (y : sys) : Prop := @POST cs p sn dn data rs Pm y /\ EX ex y.
Definition PRE2 (y : sys) : Prop := PREk y /\ SX (y_src y) /\ ~ ft_src (y_src y).
Definition SYS2 (y : sys) : Prop := PRE2 y \/ exists H Hm, @IX (PmK H Hm) [] y.

Lemma fin_ok_pack : forall h a c st, fin_ok (PAck h a c st) = false. Proof. reflexivity. Qed.

Lemma emit_EX : forall {Pm : Prm} dir ps ex y, EX ex y -> (forall q, In q ps -> fin_ok q = false) -> EX ex (emit_pdus dir ps y).
Proof.
  intros Pm dir ps ex y HE Hps. destruct (emit_frame dir ps y) as (F1 & F2 & _ & F4 & _ & _).
  apply (EX_mono _ _ y _ HE F2 F4); [rewrite F1; apply HE|].
  intros [Hf|Hf]; [|right; rewrite F1 in Hf; exact Hf].
  apply emit_ft in Hf. destruct Hf as [Hf|[_ (q & Hq & Hok)]]; [left; exact Hf|].
  rewrite (Hps q Hq) in Hok. discriminate Hok.
Qed.

Lemma EX_drop : forall {Pm : Prm} q ex y, EX (q :: ex) y -> EX ex y.
Proof.
  intros Pm q ex y HE. apply (EX_mono _ _ y _ HE eq_refl eq_refl); [apply HE|].
  intros [[(q0 & Hq & Hok)|Hf]|Hf]; [left; left; exists q0; split; [right; exact Hq | exact Hok] | left; right; exact Hf | right; exact Hf].
Qed.

Lemma deliver_to_source_IX : forall H Hm q ex y, @IX (PmK H Hm) (q :: ex) y -> nak_ok q ->
  @IX (PmK H Hm) ex (fst (deliver_to_source q y)).
Proof.
  intros H Hm q ex y [HP HE] Hq.
  split; [apply (deliver_to_source_POST cs seq0 bits p sn dn data rs Hrem Hnames Hsn Hdn1 Hty Hseg H Hm); assumption|].
  unfold deliver_to_source. destruct (s_state (y_src y) =? ST_IDLE).
  - destruct q; try (apply (EX_drop _ _ _ HE)). destruct (tid_mem _ _); [|apply (EX_drop _ _ _ HE)]. cbn [fst].
    apply emit_EX; [apply (EX_drop _ _ _ HE)|]. intros q0 [<-|[]]. reflexivity.
  - apply (call_src_EX (Some q)). exact HE.
Qed.

Lemma deliver_all_source_IX : forall H Hm ps y act, Forall nak_ok ps -> @IX (PmK H Hm) ps y ->
  @IX (PmK H Hm) [] (fst (deliver_all deliver_to_source ps y act)).
Proof.
  intros H Hm ps. induction ps as [|q t IH]; intros y act Hps HI; cbn [deliver_all]; [exact HI|].
  inversion Hps as [|? ? Hq Ht]; subst. pose proof (deliver_to_source_IX H Hm q t y HI Hq) as H1.
  destruct (deliver_to_source q y) as [y1 n]. apply IH; assumption.
Qed.

Lemma deliver_to_dest_IX : forall {Pm : Prm} q y, @IX Pm [] y -> gen_r q -> @IX Pm [] (fst (deliver_to_dest q y)).
Proof.
  intros Pm q y [HP HE] Hq.
  split; [apply (deliver_to_dest_POST cs p sn dn data rs Hty Hmode); assumption|].
  unfold deliver_to_dest.
  destruct ((d_state (y_dst y) =? ST_IDLE) && tid_mem (h_src (pdu_hdr q), h_seq (pdu_hdr q)) (y_dst_done y)) eqn:E1.
  - destruct q; try exact HE. unfold acknowledge_inactive_eof_pdu. change (TS_TERMINATED =? TS_ACTIVE) with false. cbv iota. cbn [fst].
    apply emit_EX; [exact HE|]. intros q0 [<-|[]]. reflexivity.
  - destruct ((d_state (y_dst y) =? ST_BUSY) && _); [exact HE|].
    apply call_dst_EX; [exact HP | exact HE | exact Hq |].
    intros Hi Hs. rewrite Hi in E1. change (ST_IDLE =? ST_IDLE) with true in E1. cbn [andb] in E1.
    destruct q; try contradiction; cbn [pdu_hdr] in E1; destruct Hq as (-> & _); exact E1.
Qed.

Lemma deliver_all_dest_IX : forall {Pm : Prm} ps y act, Forall gen_r ps -> @IX Pm [] y ->
  @IX Pm [] (fst (deliver_all deliver_to_dest ps y act)).
Proof.
  intros Pm ps. induction ps as [|q t IH]; intros y act Hps HI; cbn [deliver_all]; [exact HI|].
  inversion Hps as [|? ? Hq Ht]; subst. pose proof (deliver_to_dest_IX q y HI Hq) as H1.
  destruct (deliver_to_dest q y) as [y1 n]. apply IH; assumption.
Qed.

(* release of delayed PDUs *)
Definition rel_step (y : sys) (e : Z * Z * pdu) : sys :=
  let '(r, d, q) := e in
  if r <=? y_round y then link_push d [q] y else y <| y_delayed ::= (fun l0 => l0 ++ [e]) |>.

Lemma release_fold_frame : forall l ya,
  y_dst (fold_left rel_step l ya) = y_dst ya /\ y_dst_done (fold_left rel_step l ya) = y_dst_done ya /\
  y_src (fold_left rel_step l ya) = y_src ya /\
  (ft_links [] (fold_left rel_step l ya) ->
   ft_links [] ya \/ exists e, In e l /\ (snd (fst e) =? 0) = false /\ fin_ok (snd e) = true).
Proof.
  induction l as [|[[r d] q] t IH]; intros ya; cbn [fold_left]; [repeat split; intro X; left; exact X|].
  destruct (IH (rel_step ya (r, d, q))) as (A1 & A2 & A3 & A4).
  assert (Hs : y_dst (rel_step ya (r, d, q)) = y_dst ya /\ y_dst_done (rel_step ya (r, d, q)) = y_dst_done ya /\
               y_src (rel_step ya (r, d, q)) = y_src ya /\
               (ft_links [] (rel_step ya (r, d, q)) -> ft_links [] ya \/ ((d =? 0) = false /\ fin_ok q = true))).
  { unfold rel_step, link_push. destruct (r <=? y_round ya); [destruct (d =? 0) eqn:Ed|]; cbn;
      (split; [reflexivity | split; [reflexivity | split; [reflexivity|]]]); unfold ft_links; cbn.
    - intros X. left. exact X.
    - intros [[q0 [[] _]]|[(q0 & Hq & Hok)|X]]; [|left; right; right; exact X].
      apply in_app_or in Hq. destruct Hq as [Hq|[<-|[]]]; [left; right; left; exists q0; split; assumption | right; split; [reflexivity | exact Hok]].
    - intros [[q0 [[] _]]|[X|(e & He & Hd & Hok)]]; [left; right; left; exact X|].
      apply in_app_or in He. destruct He as [He|[<-|[]]]; [left; right; right; exists e; repeat split; assumption|].
      right. cbn in Hd, Hok. split; assumption. }
  destruct Hs as (B1 & B2 & B3 & B4).
  rewrite A1, A2, A3, B1, B2, B3. split; [reflexivity | split; [reflexivity | split; [reflexivity|]]].
  intros X. destruct (A4 X) as [Y|(e & He & Hd & Hok)].
  - destruct (B4 Y) as [Z|[Hd Hok]]; [left; exact Z | right; exists (r, d, q); split; [left; reflexivity | split; assumption]].
  - right. exists e. split; [right; exact He | split; assumption].
Qed.

Lemma release_eq : forall y, release_delayed y = fold_left rel_step (y_delayed y) (y <| y_delayed := [] |>).
Proof. reflexivity. Qed.

Lemma release_IX : forall {Pm : Prm} y, @IX Pm [] y -> @IX Pm [] (release_delayed (y <| y_round ::= (fun r => r + 1) |>)).
Proof.
  intros Pm y [HP HE]. set (y' := y <| y_round ::= (fun r => r + 1) |>).
  split.
  - destruct HP as (HS & HR & Hc & HL & (K1 & K2 & K3) & HD). unfold release_delayed.
    apply (release_fold_POST cs p sn dn data rs); [exact K3|].
    unfold POST, LK, DONE. cbn.
    split; [exact HS | split; [exact HR | split; [exact Hc | split; [exact HL | split; [|exact HD]]]]].
    split; [exact K1 | split; [exact K2 | constructor]].
  - rewrite release_eq. destruct (release_fold_frame (y_delayed y') (y' <| y_delayed := [] |>)) as (A1 & A2 & A3 & A4).
    apply (EX_mono [] [] y _ HE); [rewrite A1; reflexivity | rewrite A2; reflexivity | rewrite A3; apply HE|].
    intros [Hf|Hf]; [|right; rewrite A3 in Hf; exact Hf]. left.
    destruct (A4 Hf) as [[[q [[] _]]|[X|(e & [] & _)]]|(e & He & Hd & Hok)]; [right; left; exact X|].
    right. right. exists e. repeat split; assumption.
Qed.

Lemma advance_IX : forall H Hm ms y, @IX (PmK H Hm) [] y -> @IX (PmK H Hm) [] (advance ms y).
Proof.
  intros H Hm ms y [HP HE]. split.
  - destruct HP as (HS & HR & Hc & HL & HK & HD). unfold advance, POST, LK, DONE. cbn.
    split; [exact (SS_SenderGen.si_clock cs seq0 bits p sn dn data rs Hrem Hnames Hsn Hty Hseg H (y_src y) (Z.add ms) HS)|].
    split; [exact (tick_RI (Z.add ms) _ HR) | split; [exact Hc | split; [exact HL | split; [exact HK | exact HD]]]].
  - destruct HE as (E1 & E2 & E3). unfold advance, EX, CGD. cbn. split; [exact E1 | split; [apply HX_clock, E2 | exact E3]].
Qed.

Lemma call_src_None_IX : forall H Hm y, @IX (PmK H Hm) [] y -> @IX (PmK H Hm) [] (fst (call_src None y)).
Proof.
  intros H Hm y [HP HE]. split.
  - apply (call_src_POST cs seq0 bits p sn dn data rs Hrem Hnames Hsn Hdn1 Hty Hseg H Hm); [exact HP | exact I].
  - apply (call_src_EX None). exact HE.
Qed.
Lemma call_dst_None_IX : forall {Pm : Prm} y, @IX Pm [] y -> @IX Pm [] (fst (call_dst None y)).
Proof.
  intros Pm y [HP HE]. split.
  - apply (call_dst_POST cs p sn dn data rs Hty Hmode); [exact HP | exact I | intros _ []].
  - apply call_dst_EX; [exact HP | exact HE | exact I | intros _ []].
Qed.

(* ------------------------------------------------------------------ before the transaction starts *)
Lemma ft_src_step : forall s, SX s -> ~ ft_src s ->
  SX (fst (drain_s (fst (state_machine_s None s)))) /\ ~ ft_src (fst (drain_s (fst (state_machine_s None s)))).
Proof.
  intros s Hs Hn. destruct (HX_step None s Hs) as (X1 & X2 & X3). split; [apply HX_drain, X1|].
  intros Hf. apply ft_src_drain in Hf. apply Hn.
  assert (Hnp : ~ pkt_fin None) by (intros (q & E & _); discriminate E).
  destruct Hf as [Hf|(e & He & Ht)].
  - destruct (X2 Hf) as [Y|Y]; [left; exact Y | contradiction].
  - destruct (X3 e He Ht) as [Y|[Y|Y]]; [right; exists e; split; assumption | left; exact Y | contradiction].
Qed.

Lemma pre2_call_src : forall y, PRE2 y -> SYS2 (fst (call_src None y)).
Proof.
  intros y (HP & Hs & Hn).
  destruct (call_src_shape None y) as (S1 & S2 & S3 & S4).
  destruct (ft_src_step _ Hs Hn) as [Hs' Hn']. rewrite <- S3 in Hs', Hn'.
  destruct (call_src_PRE cs cd seq0 bits p sn dn data rs Hrem Hnames Hsn Hdn1 Hty Hseg Hmode y HP) as [HP'|(H & Hm & HP')].
  - left. split; [exact HP' | split; assumption].
  - right. exists H, Hm. split; [exact HP'|].
    destruct HP as (_ & [now Ed] & _ & E2 & E3 & _).
    unfold EX. rewrite S1. split; [rewrite Ed; reflexivity | split; [exact Hs'|]].
    intros [Hf|Hf]; [|contradiction].
    apply S4 in Hf. exfalso. unfold ft_links in Hf. rewrite E2, E3 in Hf.
    destruct Hf as [[q [[] _]]|[[q [[] _]]|[e [[] _]]]].
Qed.

Lemma pre2_call_dst : forall y, PRE2 y -> PRE2 (fst (call_dst None y)).
Proof.
  intros y (HP & Hs & Hn). destruct (call_dst_shape None y) as (_ & S2 & _).
  split; [apply (call_dst_PRE cs cd p sn data rs); exact HP | rewrite S2; split; assumption].
Qed.

Lemma pre2_release : forall y, PRE2 y -> PRE2 (release_delayed (y <| y_round ::= (fun r => r + 1) |>)).
Proof.
  intros y ((HS & Hpr & E1 & E2 & E3 & E4) & Hs & Hn). unfold release_delayed.
  change (y_delayed (y <| y_round ::= (fun r => r + 1) |>)) with (y_delayed y). rewrite E3. cbn [fold_left].
  split; [|split; assumption]. unfold PRE. cbn.
  split; [exact HS | split; [exact Hpr | split; [exact E1 | split; [exact E2 | split; [reflexivity | exact E4]]]]].
Qed.

Lemma pre2_advance : forall ms y, PRE2 y -> PRE2 (advance ms y).
Proof.
  intros ms y ((HS & Hpr & E1 & E2 & E3 & E4) & Hs & Hn). unfold advance. split.
  - unfold PRE. cbn. split; [|split; [|split; [exact E1 | split; [exact E2 | split; [exact E3 | exact E4]]]]].
    + exact (SS_SenderGen.si_pre_clock cs seq0 bits p sn dn data rs Hrem Hnames Hsn Hty Hseg (y_src y) (Z.add ms) HS).
    + destruct Hpr as [now ->]. exists (ms + now). reflexivity.
  - cbn. split; [apply HX_clock, Hs | exact Hn].
Qed.

(* ------------------------------------------------------------------ rounds *)
Lemma SYS2_src_half : forall y a, SYS2 y ->
  SYS2 (fst (deliver_all deliver_to_source (y_d2s y) (y <| y_d2s := [] |>) a)).
Proof.
  intros y a [((HS & Hpr & E1 & E2 & E3 & E4) & Hs & Hn)|(H & Hm & [HP HE])].
  - left. rewrite E2. cbn [deliver_all fst]. split; [|split; assumption]. unfold PRE. cbn.
    split; [exact HS | split; [exact Hpr | split; [exact E1 | split; [reflexivity | split; [exact E3 | exact E4]]]]].
  - right. exists H, Hm. pose proof HP as (HS & HR & Hc & HL & (K1 & K2 & K3) & HD).
    apply deliver_all_source_IX; [exact K2|]. split.
    + unfold POST, LK, DONE. cbn.
      split; [exact HS | split; [exact HR | split; [exact Hc | split; [exact HL | split; [|exact HD]]]]].
      split; [exact K1 | split; [constructor | exact K3]].
    + refine (EX_mono [] _ y _ HE _ _ _ _); [reflexivity | reflexivity | apply HE|].
      intros [[X|[[q [[] _]]|X]]|X]; [left; right; left; exact X | left; right; right; exact X | right; exact X].
Qed.

Lemma SYS2_dst_half : forall y a, SYS2 y ->
  SYS2 (fst (deliver_all deliver_to_dest (y_s2d y) (y <| y_s2d := [] |>) a)).
Proof.
  intros y a [((HS & Hpr & E1 & E2 & E3 & E4) & Hs & Hn)|(H & Hm & [HP HE])].
  - left. rewrite E1. cbn [deliver_all fst]. split; [|split; assumption]. unfold PRE. cbn.
    split; [exact HS | split; [exact Hpr | split; [reflexivity | split; [exact E2 | split; [exact E3 | exact E4]]]]].
  - right. exists H, Hm. pose proof HP as (HS & HR & Hc & HL & (K1 & K2 & K3) & HD).
    apply deliver_all_dest_IX; [exact K1|]. split.
    + unfold POST, LK, DONE. cbn.
      split; [exact HS | split; [exact HR | split; [exact Hc | split; [exact HL | split; [|exact HD]]]]].
      split; [constructor | split; [exact K2 | exact K3]].
    + refine (EX_mono [] _ y _ HE _ _ _ _); [reflexivity | reflexivity | apply HE | intro X; exact X].
Qed.

Lemma SYS2_call_src_None : forall y, SYS2 y -> SYS2 (fst (call_src None y)).
Proof.
  intros y [HP|(H & Hm & HI)]; [apply pre2_call_src; exact HP | right; exists H, Hm; apply call_src_None_IX; exact HI].
Qed.
Lemma SYS2_call_dst_None : forall y, SYS2 y -> SYS2 (fst (call_dst None y)).
Proof.
  intros y [HP|(H & Hm & HI)]; [left; apply pre2_call_dst; exact HP | right; exists H, Hm; apply call_dst_None_IX; exact HI].
Qed.

Lemma step_round_SYS2 : forall y, SYS2 y -> SYS2 (fst (step_round y)).
Proof.
  intros y0 H0. unfold step_round.
  assert (H1 : SYS2 (release_delayed (y0 <| y_round ::= (fun r => r + 1) |>))).
  { destruct H0 as [HP|(H & Hm & HI)]; [left; apply pre2_release; exact HP | right; exists H, Hm; apply release_IX; exact HI]. }
  set (y := release_delayed (y0 <| y_round ::= (fun r => r + 1) |>)) in *.
  pose proof (SYS2_src_half y 0 H1) as H2.
  destruct (deliver_all deliver_to_source (y_d2s y) (y <| y_d2s := [] |>) 0) as [y1 a1]. cbn [fst] in H2.
  assert (H3 : SYS2 (fst (match y_d2s y with
     | [] => let before := (s_state (y_src y1), s_step (y_src y1)) in
             let '(yy, n) := call_src None y1 in
             (yy, a1 + n + (if (fst before =? s_state (y_src yy)) && (snd before =? s_step (y_src yy)) then 0 else 1))
     | _ :: _ => (y1, a1) end))).
  { destruct (y_d2s y); [|exact H2]. cbv zeta. pose proof (SYS2_call_src_None y1 H2) as X.
    destruct (call_src None y1) as [yy n]. exact X. }
  destruct (match y_d2s y with
     | [] => let before := (s_state (y_src y1), s_step (y_src y1)) in
             let '(yy, n) := call_src None y1 in
             (yy, a1 + n + (if (fst before =? s_state (y_src yy)) && (snd before =? s_step (y_src yy)) then 0 else 1))
     | _ :: _ => (y1, a1) end) as [y2 a2]. cbn [fst] in H3.
  pose proof (SYS2_dst_half y2 a2 H3) as H4.
  destruct (deliver_all deliver_to_dest (y_s2d y2) (y2 <| y_s2d := [] |>) a2) as [y3 a3]. cbn [fst] in H4.
  destruct (y_s2d y2); [|exact H4]. cbv zeta. pose proof (SYS2_call_dst_None y3 H4) as X.
  destruct (call_dst None y3) as [yy n]. exact X.
Qed.

Lemma run_SYS2 : forall fuel tick y, SYS2 y -> SYS2 (fst (run fuel tick y)).
Proof.
  induction fuel as [|k IH]; intros tick y Hy; cbn [run]; [exact Hy|].
  pose proof (step_round_SYS2 y Hy) as H1. destruct (step_round y) as [y1 a]. cbn [fst] in H1.
  destruct (quiescent y1); [exact H1|]. apply IH. destruct (a =? 0); [|exact H1].
  destruct H1 as [HP|(H & Hm & HI)]; [left; apply pre2_advance; exact HP | right; exists H, Hm; apply advance_IX; exact HI].
Qed.

Lemma SYS2_success : forall y, SYS2 y -> ft_src (y_src y) ->
  exists d, file_content (e_fs (d_env (y_dst y))) dn = Some d /\
    (d = data \/
     (d <> data /\ zlen d = zlen data /\
      calculate_checksum (r_cktype rs) (Some d) (zlen d) 4096 = calculate_checksum (r_cktype rs) (Some data) (zlen data) 4096)).
Proof.
  intros y [(_ & _ & Hn)|(H & Hm & [_ (_ & _ & HE)])] Hf; [contradiction|].
  destruct (HE (or_intror Hf)) as [[(d & Hd & Hc) _] _]. exists d. split; [exact Hd | exact Hc].
Qed.
End XSys.
End SX_Sys.

(* XTop.v — the sender half of C01 over the two-handler system and every fault schedule *)
Import CFDP.Base CFDP.LostSeg CFDP.Fs CFDP.Crc CFDP.Checksum CFDP.ChecksumSpec CFDP.Handler CFDP.Dest CFDP.Source CFDP.SourceSpec CFDP.System CFDP.SystemCases.
Import CFDP.proofs.SystemSuccessProofs.
Import SS_Defs SS_SysA.
Import SX_Recv SX_Send SX_Send2 SX_Sys.
Import RecordUpdate.RecordSet.
Import RecordSetNotations.

(* a success report of the sender that copies a Finished PDU: the notice of an unacknowledged transaction without closure
   carries the file status "unreported" *)
Definition sender_report (e : event) : bool :=
  match e with
  | EvFinished _ _ c d f _ => (c =? C_NO_ERROR) && (d =? DATA_COMPLETE) && negb (f =? FS_UNREPORTED)
  | _ => false
  end.

Lemma report_success : forall e, sender_report e = true -> success_event e = true /\ ~ dflt e.
Proof.
  intros [] He; try discriminate He. cbn in He. apply andb_prop in He. destruct He as [He Hf]. split; [exact He|].
  intros (a & b & E). injection E as _ _ _ _ -> _. discriminate Hf.
Qed.

Lemma put_facts : forall cs seq0 bits p fs s1 r, put_request p (src_fresh cs seq0 bits fs) = (s1, r) ->
  q_fin (s_p s1) = None /\ e_log (s_env s1) = [] /\ s_step s1 = SS_IDLE /\ s_step_before s1 = None /\
  (s_state s1 <> ST_IDLE ->
   exists r0, get_remote (l_remotes cs) (pr_dst p) = Some r0 /\
     q_closure (s_p s1) = (match pr_closure p with Some c => c | None => r_closure r0 end) /\
     sc_mode (q_conf (s_p s1)) = (match pr_mode p with Some m => m | None => r_mode r0 end)).
Proof.
  intros cs seq0 bits p fs s1 r E. unfold put_request in E. rewrite sb_get in E.
  change (s_state (src_fresh cs seq0 bits fs)) with ST_IDLE in E. change (negb (ST_IDLE =? ST_IDLE)) with false in E. cbv iota in E.
  rewrite sb_put in E. unfold bind at 1 in E.
  match type of E with context [match ?m ?st with _ => _ end] => destruct (m st) as [sa [[]|e]] eqn:Ea end.
  2:{ injection E as <- _.
      destruct (pr_names p) as [[a b]|]; [destruct (fs_file_exists _ a)|]; injection Ea as <-;
        (repeat split; try reflexivity; intro X; contradiction X; reflexivity). }
  assert (Esa : sa = (src_fresh cs seq0 bits fs) <| s_put := Some p |>).
  { destruct (pr_names p) as [[a b]|]; [destruct (fs_file_exists _ a)|]; try discriminate Ea; injection Ea as <-; reflexivity. }
  subst sa. clear Ea. rewrite sb_setq in E.
  change (s_cfg (src_fresh cs seq0 bits fs)) with cs in E.
  destruct (get_remote (l_remotes cs) (pr_dst p)) as [r0|] eqn:Er.
  - rewrite sb_setq in E. unfold bind at 1 in E. unfold modify at 1 in E. rewrite sb_setq in E. unfold ret in E. injection E as <- _.
    repeat split; try reflexivity. intros _. exists r0. repeat split; reflexivity.
  - unfold raise in E. injection E as <- _. repeat split; try reflexivity. intro X. contradiction X. reflexivity.
Qed.

Lemma hx_open : forall pkt s, True ->
  True /\
  (fsb (q_fin (s_p (fst (state_machine_s pkt s)))) = true -> fsb (q_fin (s_p s)) = true \/ pkt_fin pkt) /\
  (forall e, In e (e_log (s_env (fst (state_machine_s pkt s)))) -> sender_report e = true ->
     In e (e_log (s_env s)) \/ fsb (q_fin (s_p s)) = true \/ pkt_fin pkt).
Proof.
  intros pkt s _. destruct (sender_copies pkt s) as [X1 X2]. split; [exact I | split; [exact X1|]].
  intros e He Hr. destruct (report_success e Hr) as [Hs Hnd].
  destruct (X2 e He Hs) as [Y|[Y|Y]]; [left; exact Y | right; exact Y | contradiction].
Qed.

Lemma hx_closed : forall pkt s, SSa s ->
  SSa (fst (state_machine_s pkt s)) /\
  (fsb (q_fin (s_p (fst (state_machine_s pkt s)))) = true -> fsb (q_fin (s_p s)) = true \/ pkt_fin pkt) /\
  (forall e, In e (e_log (s_env (fst (state_machine_s pkt s)))) -> success_event e = true ->
     In e (e_log (s_env s)) \/ fsb (q_fin (s_p s)) = true \/ pkt_fin pkt).
Proof. intros pkt s Hs. exact (sender_copies_closed pkt s Hs). Qed.

Lemma existsb_ft : forall trig s, existsb trig (e_log (s_env s)) = true -> ft_src trig s.
Proof. intros trig s E. right. apply existsb_exists in E. exact E. Qed.

(* the sender's report that copies a Finished PDU, in every mode *)
Theorem system_sender_report_means_identical :
  forall (cs cd : lcfg) (seq0 bits : Z) (p : putreq) (sn dn : path) (data : bytes) (faults : list fault)
         (fuel : nat) (tick : Z) (rs : rcfg),
  get_remote (l_remotes cs) (pr_dst p) = Some rs ->
  pr_names p = Some (sn, dn) -> sn <> [] -> length dn = 1%nat ->
  (r_cktype rs = CK_CRC32 \/ r_cktype rs = CK_CRC32C) ->
  match r_max_seg rs with Some m => 1 <= m | None => True end ->
  (let mode := match pr_mode p with Some m => m | None => r_mode rs end in mode = ACKED \/ mode = UNACKED) ->
  let res := transfer cs cd seq0 bits p sn data faults fuel tick in
  let y := fst res in
  existsb sender_report (e_log (s_env (y_src y))) = true ->
  exists d, file_content (e_fs (d_env (y_dst y))) dn = Some d /\
    (d = data \/
     (d <> data /\ zlen d = zlen data /\
      calculate_checksum (r_cktype rs) (Some d) (zlen d) 4096 = calculate_checksum (r_cktype rs) (Some data) (zlen data) 4096)).
Proof.
  intros cs cd seq0 bits p sn dn data faults fuel tick rs Hrem Hnames Hsn Hdn Hty Hseg Hmode. cbv zeta.
  unfold transfer.
  destruct (put_request p (y_src (sys_init cs cd seq0 bits sn data faults))) as [s1 r] eqn:Ep.
  intro Hs. apply existsb_ft in Hs.
  refine (SYS2_success cs cd p sn dn data rs Hdn Hty (fun _ => True) sender_report _ _ Hs).
  refine (run_SYS2 cs cd seq0 bits p sn dn data rs Hrem Hnames Hsn Hdn Hty Hseg Hmode (fun _ => True) sender_report
            hx_open (fun _ _ => I) (fun _ _ _ => I) fuel tick _ _).
  left. destruct (put_facts cs seq0 bits p _ s1 r Ep) as (F1 & F2 & _).
  split; [|split; [exact I|]].
  - unfold PRE, sys_init. cbn.
    split; [exact (SS_SenderGen.si_put cs seq0 bits p sn dn data rs Hrem Hnames Hsn Hty Hseg s1 r Ep)|].
    split; [exists 0; reflexivity | repeat split; reflexivity].
  - cbn. intros [X|(e & He & _)]; [rewrite F1 in X; discriminate X | rewrite F2 in He; destruct He].
Qed.
Print Assumptions system_sender_report_means_identical.

Lemma ssa_drain : forall s, SSa s -> SSa (fst (drain_s s)).
Proof. intros s Hs. exact Hs. Qed.
Lemma ssa_clock : forall s f, SSa s -> SSa (s <| s_env ::= (fun e => e <| e_now ::= f |>) |>).
Proof. intros s f Hs. exact Hs. Qed.

(* the sender's success report, with closure or in acknowledged mode *)
Theorem system_sender_success_means_identical :
  forall (cs cd : lcfg) (seq0 bits : Z) (p : putreq) (sn dn : path) (data : bytes) (faults : list fault)
         (fuel : nat) (tick : Z) (rs : rcfg),
  get_remote (l_remotes cs) (pr_dst p) = Some rs ->
  pr_names p = Some (sn, dn) -> sn <> [] -> length dn = 1%nat ->
  (r_cktype rs = CK_CRC32 \/ r_cktype rs = CK_CRC32C) ->
  match r_max_seg rs with Some m => 1 <= m | None => True end ->
  (let mode := match pr_mode p with Some m => m | None => r_mode rs end in
   let closure := match pr_closure p with Some c => c | None => r_closure rs end in
   mode = ACKED \/ (mode = UNACKED /\ closure = true)) ->
  let res := transfer cs cd seq0 bits p sn data faults fuel tick in
  let y := fst res in
  existsb success_event (e_log (s_env (y_src y))) = true ->
  exists d, file_content (e_fs (d_env (y_dst y))) dn = Some d /\
    (d = data \/
     (d <> data /\ zlen d = zlen data /\
      calculate_checksum (r_cktype rs) (Some d) (zlen d) 4096 = calculate_checksum (r_cktype rs) (Some data) (zlen data) 4096)).
Proof.
  intros cs cd seq0 bits p sn dn data faults fuel tick rs Hrem Hnames Hsn Hdn Hty Hseg Hmc. cbv zeta in *.
  assert (Hmode : SS_SenderGen.s_mode p rs = ACKED \/ SS_SenderGen.s_mode p rs = UNACKED).
  { unfold SS_SenderGen.s_mode. destruct Hmc as [X|[X _]]; [left | right]; exact X. }
  unfold transfer.
  destruct (put_request p (y_src (sys_init cs cd seq0 bits sn data faults))) as [s1 r] eqn:Ep.
  intro Hs. apply existsb_ft in Hs.
  refine (SYS2_success cs cd p sn dn data rs Hdn Hty SSa success_event _ _ Hs).
  refine (run_SYS2 cs cd seq0 bits p sn dn data rs Hrem Hnames Hsn Hdn Hty Hseg Hmode SSa success_event
            hx_closed ssa_drain ssa_clock fuel tick _ _).
  left. destruct (put_facts cs seq0 bits p _ s1 r Ep) as (F1 & F2 & F3 & F4 & F5).
  split; [|split].
  - unfold PRE, sys_init. cbn.
    split; [exact (SS_SenderGen.si_put cs seq0 bits p sn dn data rs Hrem Hnames Hsn Hty Hseg s1 r Ep)|].
    split; [exists 0; reflexivity | repeat split; reflexivity].
  - cbn. unfold SSa. split; [intros _; exact F3|]. split; [|rewrite F4; intros b X; discriminate X].
    intros Hb. destruct (F5 Hb) as (r0 & Er & Ec & Em). rewrite Hrem in Er. injection Er as <-.
    split; [|intros [X|X]; rewrite F3 in X; discriminate X].
    rewrite Ec, Em. destruct Hmc as [X|[_ X]]; [right; exact X | left; exact X].
  - cbn. intros [X|(e & He & _)]; [rewrite F1 in X; discriminate X | rewrite F2 in He; destruct He].
Qed.
Print Assumptions system_sender_success_means_identical.

(* the excluded case is genuinely excluded: unacknowledged mode without closure, the second PDU (a File Data PDU) dropped:
   the sender reports success (its own notice, file status "unreported"), the destination file has a hole *)
Example sender_success_without_closure_says_nothing :
  let y := fst (run_case UNACKED false CK_CRC32 4 false 2 8 [mkFault 0 1 0 0]) in
  existsb success_event (e_log (s_env (y_src y))) = true /\
  existsb sender_report (e_log (s_env (y_src y))) = false /\
  file_content (e_fs (d_env (y_dst y))) [2] = Some [0; 0; 0; 0; 31; 38; 45; 52] /\
  test_data 8 = [3; 10; 17; 24; 31; 38; 45; 52].
Proof. vm_compute. repeat split. Qed.
