From CFDP Require Import Base Fs FsSpec.

(* FsProofs.v — proofs of the laws of the reference file-system model (property C17).
   Every lemma used by props/C17.v is stated here with exactly the statement of the
   theorem it closes.  No axioms. *)

(* ------------------------------------------------------------------ *)
(* paths                                                               *)
(* ------------------------------------------------------------------ *)

Lemma path_eqb_eq : forall a b, path_eqb a b = true <-> a = b.
Proof.
  induction a as [|x a IH]; intros [|y b]; simpl; split; intro H;
    try reflexivity; try discriminate.
  - apply andb_true_iff in H. destruct H as [H1 H2].
    apply Z.eqb_eq in H1. apply IH in H2. subst. reflexivity.
  - inversion H; subst. apply andb_true_iff. split.
    + apply Z.eqb_refl.
    + apply IH. reflexivity.
Qed.

Lemma path_eqb_refl : forall a, path_eqb a a = true.
Proof. intro a. apply path_eqb_eq. reflexivity. Qed.

Lemma path_eqb_neq : forall a b, a <> b -> path_eqb a b = false.
Proof.
  intros a b H. destruct (path_eqb a b) eqn:E; [|reflexivity].
  apply path_eqb_eq in E. contradiction.
Qed.

Lemma path_eqb_neq_sym : forall a b, b <> a -> path_eqb a b = false.
Proof. intros a b H. apply path_eqb_neq. intro E. apply H. symmetry. exact E. Qed.

Lemma path_eqb_nil_r : forall p, p <> [] -> path_eqb p [] = false.
Proof. intros [|x p] H; [exfalso; apply H; reflexivity | reflexivity]. Qed.

Lemma is_prefix_nil_r : forall p, p <> [] -> is_prefix p [] = false.
Proof. intros [|x p] H; [exfalso; apply H; reflexivity | reflexivity]. Qed.

(* ------------------------------------------------------------------ *)
(* lookup after tree surgery                                           *)
(* ------------------------------------------------------------------ *)

Lemma lookup_raw_cons : forall p n t q,
  lookup_raw ((p, n) :: t) q = if path_eqb p q then Some n else lookup_raw t q.
Proof. reflexivity. Qed.

Lemma lookup_root : forall t, lookup t [] = Some Dir.
Proof. reflexivity. Qed.

Lemma lookup_cons : forall t y q, lookup t (y :: q) = lookup_raw t (y :: q).
Proof. reflexivity. Qed.

Lemma lookup_raw_remove_path : forall t p q,
  lookup_raw (remove_path t p) q = if path_eqb p q then None else lookup_raw t q.
Proof.
  induction t as [|[r n] t IH]; intros p q.
  - simpl. destruct (path_eqb p q); reflexivity.
  - simpl remove_path. destruct (path_eqb r p) eqn:E.
    + apply path_eqb_eq in E. subst r. rewrite IH, lookup_raw_cons.
      destruct (path_eqb p q); reflexivity.
    + rewrite !lookup_raw_cons, IH.
      destruct (path_eqb p q) eqn:E2; [|reflexivity].
      apply path_eqb_eq in E2. subst q. rewrite E. reflexivity.
Qed.

Lemma lookup_raw_remove_subtree : forall t p q,
  lookup_raw (remove_subtree t p) q = if is_prefix p q then None else lookup_raw t q.
Proof.
  induction t as [|[r n] t IH]; intros p q.
  - simpl. destruct (is_prefix p q); reflexivity.
  - simpl remove_subtree. destruct (is_prefix p r) eqn:E.
    + rewrite IH, lookup_raw_cons.
      destruct (is_prefix p q) eqn:E2; [reflexivity|].
      destruct (path_eqb r q) eqn:E3; [|reflexivity].
      apply path_eqb_eq in E3. subst q. rewrite E in E2. discriminate E2.
    + rewrite !lookup_raw_cons, IH.
      destruct (is_prefix p q) eqn:E2; [|reflexivity].
      destruct (path_eqb r q) eqn:E3; [|reflexivity].
      apply path_eqb_eq in E3. subst q. rewrite E in E2. discriminate E2.
Qed.

Lemma lookup_remove_path : forall t p q, p <> [] ->
  lookup (remove_path t p) q = if path_eqb p q then None else lookup t q.
Proof.
  intros t p q Hp. destruct q as [|y q].
  - rewrite (path_eqb_nil_r p Hp). reflexivity.
  - rewrite !lookup_cons. apply lookup_raw_remove_path.
Qed.

Lemma lookup_remove_subtree : forall t p q, p <> [] ->
  lookup (remove_subtree t p) q = if is_prefix p q then None else lookup t q.
Proof.
  intros t p q Hp. destruct q as [|y q].
  - rewrite (is_prefix_nil_r p Hp). reflexivity.
  - rewrite !lookup_cons. apply lookup_raw_remove_subtree.
Qed.

Lemma lookup_set_node : forall t p n q, p <> [] ->
  lookup (set_node t p n) q = if path_eqb p q then Some n else lookup t q.
Proof.
  intros t p n q Hp. destruct q as [|y q].
  - rewrite (path_eqb_nil_r p Hp). reflexivity.
  - rewrite !lookup_cons. unfold set_node.
    rewrite lookup_raw_cons, lookup_raw_remove_path.
    destruct (path_eqb p (y :: q)); reflexivity.
Qed.

(* ------------------------------------------------------------------ *)
(* a path that is absent, or a file, or not a directory, is not the root *)
(* ------------------------------------------------------------------ *)

Lemma exists_false : forall t p, exists_ t p = false -> lookup t p = None /\ p <> [].
Proof.
  intros t p H. unfold exists_ in H. destruct (lookup t p) as [n|] eqn:E; [discriminate H|].
  split; [reflexivity|]. intro Hp. subst p. rewrite lookup_root in E. discriminate E.
Qed.

Lemma is_dir_false_ne : forall t p, is_dir t p = false -> p <> [].
Proof.
  intros t p H Hp. subst p. unfold is_dir in H. rewrite lookup_root in H. discriminate H.
Qed.

Lemma lookup_file_ne : forall t p d, lookup t p = Some (File d) -> p <> [].
Proof. intros t p d H Hp. subst p. rewrite lookup_root in H. discriminate H. Qed.

Lemma is_dir_false_file : forall t p n, is_dir t p = false -> lookup t p = Some n ->
  exists d, n = File d.
Proof.
  intros t p n H E. unfold is_dir in H. rewrite E in H. destruct n as [d|].
  - exists d. reflexivity.
  - discriminate H.
Qed.

(* ------------------------------------------------------------------ *)
(* tactics                                                             *)
(* ------------------------------------------------------------------ *)

(* the premise (an is_success equation on closed codes) is absurd *)
Ltac bad := let H := fresh "Hbad" in intro H; exfalso; vm_compute in H; discriminate H.

Ltac unfold_codes :=
  unfold CREATE_SUCCESS, CREATE_NOT_ALLOWED, DELETE_SUCCESS, DELETE_FILE_DOES_NOT_EXIST,
    DELETE_NOT_ALLOWED, RENAME_SUCCESS, RENAME_OLD_FILE_DOES_NOT_EXIST,
    RENAME_NEW_FILE_DOES_EXIST, RENAME_NOT_ALLOWED, RENAME_NOT_PERFORMED, REPLACE_SUCCESS,
    REPLACE_ONE_DOES_NOT_EXIST, REPLACE_TWO_DOES_NOT_EXIST, REPLACE_NOT_ALLOWED,
    CREATE_DIR_SUCCESS, CREATE_DIR_CAN_NOT_BE_CREATED, REMOVE_DIR_SUCCESS,
    REMOVE_DIR_DOES_NOT_EXIST, REMOVE_DIR_NOT_ALLOWED in *.

Ltac rc :=
  repeat split; intros;
  repeat match goal with H : _ /\ _ |- _ => destruct H end;
  first [ reflexivity | assumption | discriminate | congruence | (exfalso; lia) ].

(* ------------------------------------------------------------------ *)
(* refused operations leave the tree unchanged                         *)
(* ------------------------------------------------------------------ *)

Lemma refused_unchanged : forall t o,
  is_success o (snd (fstep t o)) = false -> fst (fstep t o) = t.
Proof.
  intros t o. destruct o as [p|p|a b|a b|p|p r|p|p d off|p off len|p|p|p]; unfold fstep.
  - unfold fs_create_file. destruct (exists_ t p); [intros _; reflexivity|].
    destruct (parent_is_dir t p); [bad|intros _; reflexivity].
  - unfold fs_delete_file. destruct (lookup t p) as [[d|]|]; [bad| |]; intros _; reflexivity.
  - unfold fs_rename_file. destruct (is_dir t a || is_dir t b); [intros _; reflexivity|].
    destruct (lookup t a) as [nd|]; [|intros _; reflexivity].
    destruct (exists_ t b); [intros _; reflexivity|].
    destruct (parent_is_dir t b); [bad|intros _; reflexivity].
  - unfold fs_replace_file. destruct (is_dir t a || is_dir t b); [intros _; reflexivity|].
    destruct (lookup t a) as [na|]; [|intros _; reflexivity].
    destruct (lookup t b) as [nb|]; [|intros _; reflexivity].
    destruct (path_eqb a b); [intros _; reflexivity|bad].
  - unfold fs_create_directory. destruct (exists_ t p); [intros _; reflexivity|].
    destruct (parent_is_dir t p); [bad|intros _; reflexivity].
  - destruct p as [|x p]; unfold fs_remove_directory; [intros _; reflexivity|].
    destruct (lookup t (x :: p)) as [[d|]|]; [intros _; reflexivity| |intros _; reflexivity].
    destruct r; [bad|].
    destruct (has_child t (x :: p)); [intros _; reflexivity|bad].
  - unfold fs_truncate_file. destruct (lookup t p) as [[d|]|]; [bad| |]; intros _; reflexivity.
  - unfold fs_write_data. destruct (lookup t p) as [[old|]|]; [bad| |]; intros _; reflexivity.
  - unfold fs_read_data. destruct (lookup t p) as [[old|]|]; intros _; reflexivity.
  - unfold fs_file_size. destruct (lookup t p) as [[old|]|]; intros _; reflexivity.
  - intros _; reflexivity.
  - intros _; reflexivity.
Qed.

(* ------------------------------------------------------------------ *)
(* success codes only when the effect happened                         *)
(* ------------------------------------------------------------------ *)

Lemma success_effect : forall t o,
  is_success o (snd (fstep t o)) = true -> effect t (fst (fstep t o)) o.
Proof.
  intros t o. destruct o as [p|p|a b|a b|p|p r|p|p d off|p off len|p|p|p].
  - (* FCreate *)
    unfold fstep, effect, fs_create_file.
    destruct (exists_ t p) eqn:E1; [bad|].
    destruct (parent_is_dir t p) eqn:E2; [|bad].
    intros _. cbn [fst snd]. apply exists_false in E1. destruct E1 as [E1 Hp].
    split; [exact E1|].
    rewrite (lookup_set_node t p (File []) p Hp), path_eqb_refl. reflexivity.
  - (* FDelete *)
    unfold fstep, effect, fs_delete_file.
    destruct (lookup t p) as [[d|]|] eqn:E; [|bad|bad].
    intros _. cbn [fst snd]. split; [exists d; reflexivity|].
    rewrite (lookup_remove_path t p p (lookup_file_ne t p d E)), path_eqb_refl. reflexivity.
  - (* FRename *)
    unfold fstep, effect, fs_rename_file.
    destruct (is_dir t a || is_dir t b) eqn:E0; [bad|].
    destruct (lookup t a) as [nd|] eqn:Ea; [|bad].
    destruct (exists_ t b) eqn:Eb; [bad|].
    destruct (parent_is_dir t b) eqn:Epb; [|bad].
    intros _. cbn [fst snd].
    apply orb_false_iff in E0. destruct E0 as [Da Db].
    apply exists_false in Eb. destruct Eb as [Eb Hb].
    pose proof (is_dir_false_ne t a Da) as Ha.
    destruct (is_dir_false_file t a nd Da Ea) as [d Hd]. subst nd.
    assert (Hab : a <> b).
    { intro Hab. subst b. rewrite Ea in Eb. discriminate Eb. }
    split; [exact Hab|]. split; [|split].
    + exists d. split; [reflexivity|].
      rewrite (lookup_set_node _ b (File d) b Hb), path_eqb_refl. reflexivity.
    + exact Eb.
    + rewrite (lookup_set_node _ b (File d) a Hb), (path_eqb_neq_sym b a Hab).
      rewrite (lookup_remove_path t a a Ha), path_eqb_refl. reflexivity.
  - (* FReplace *)
    unfold fstep, effect, fs_replace_file.
    destruct (is_dir t a || is_dir t b) eqn:E0; [bad|].
    destruct (lookup t a) as [na|] eqn:Ea; [|bad].
    destruct (lookup t b) as [nb|] eqn:Eb; [|bad].
    apply orb_false_iff in E0. destruct E0 as [Da Db].
    pose proof (is_dir_false_ne t a Da) as Ha.
    pose proof (is_dir_false_ne t b Db) as Hb.
    destruct (is_dir_false_file t a na Da Ea) as [da Hda]. subst na.
    destruct (is_dir_false_file t b nb Db Eb) as [db Hdb]. subst nb.
    destruct (path_eqb a b) eqn:Eab.
    + intros _. cbn [fst snd]. apply path_eqb_eq in Eab. subst b.
      exists da, db. split; [reflexivity|]. split; [reflexivity|].
      split; [exact Eb|]. intro Hne. exfalso. apply Hne. reflexivity.
    + intros _. cbn [fst snd].
      assert (Hab : a <> b).
      { intro Hab. apply path_eqb_eq in Hab. rewrite Hab in Eab. discriminate Eab. }
      exists da, db. split; [reflexivity|]. split; [reflexivity|]. split.
      * rewrite (lookup_set_node _ a (File db) a Ha), path_eqb_refl. reflexivity.
      * intros _. rewrite (lookup_set_node _ a (File db) b Ha), (path_eqb_neq a b Hab).
        rewrite (lookup_remove_path t b b Hb), path_eqb_refl. reflexivity.
  - (* FMkdir *)
    unfold fstep, effect, fs_create_directory.
    destruct (exists_ t p) eqn:E1; [bad|].
    destruct (parent_is_dir t p) eqn:E2; [|bad].
    intros _. cbn [fst snd]. apply exists_false in E1. destruct E1 as [E1 Hp].
    split; [exact E1|].
    rewrite (lookup_set_node t p Dir p Hp), path_eqb_refl. reflexivity.
  - (* FRmdir *)
    destruct p as [|x p]; unfold fstep, effect, fs_remove_directory; [bad|].
    assert (Hp : x :: p <> []) by discriminate.
    destruct (lookup t (x :: p)) as [[d|]|] eqn:E; [bad| |bad].
    destruct r.
    + intros _. cbn [fst snd]. split; [reflexivity|]. split; [exact Hp|].
      intros q Hq Hqn _. rewrite (lookup_remove_subtree t (x :: p) q Hp), Hq. reflexivity.
    + destruct (has_child t (x :: p)) eqn:Hc; [bad|].
      intros _. cbn [fst snd]. split; [reflexivity|]. split; [exact Hp|].
      intros q Hq Hqn [Hr|Hr]; [discriminate Hr|]. subst q.
      rewrite (lookup_remove_path t (x :: p) (x :: p) Hp), path_eqb_refl. reflexivity.
  - (* FTruncate *)
    unfold fstep, effect, fs_truncate_file.
    destruct (lookup t p) as [[d|]|] eqn:E; [|bad|bad].
    intros _. cbn [fst snd]. split; [exists d; reflexivity|].
    rewrite (lookup_set_node t p (File []) p (lookup_file_ne t p d E)), path_eqb_refl.
    reflexivity.
  - (* FWrite *)
    unfold fstep, effect, fs_write_data.
    destruct (lookup t p) as [[old|]|] eqn:E; [|bad|bad].
    intros _. cbn [fst snd]. exists old. split; [reflexivity|].
    rewrite (lookup_set_node t p _ p (lookup_file_ne t p old E)), path_eqb_refl.
    reflexivity.
  - intros _. exact I.
  - intros _. exact I.
  - intros _. exact I.
  - intros _. exact I.
Qed.

(* ------------------------------------------------------------------ *)
(* every operation changes only the paths it names                     *)
(* ------------------------------------------------------------------ *)

Lemma other_paths_unchanged : forall t o q,
  ~ touches o q -> lookup (fst (fstep t o)) q = lookup t q.
Proof.
  intros t o q. destruct o as [p|p|a b|a b|p|p r|p|p d off|p off len|p|p|p].
  - (* FCreate *)
    unfold fstep, touches, fs_create_file. intro Hq.
    destruct (exists_ t p) eqn:E1; [reflexivity|].
    destruct (parent_is_dir t p); [|reflexivity].
    cbn [fst snd]. apply exists_false in E1. destruct E1 as [_ Hp].
    rewrite (lookup_set_node t p _ q Hp), (path_eqb_neq_sym p q Hq). reflexivity.
  - (* FDelete *)
    unfold fstep, touches, fs_delete_file. intro Hq.
    destruct (lookup t p) as [[d|]|] eqn:E; [|reflexivity|reflexivity].
    cbn [fst snd].
    rewrite (lookup_remove_path t p q (lookup_file_ne t p d E)), (path_eqb_neq_sym p q Hq).
    reflexivity.
  - (* FRename *)
    unfold fstep, touches, fs_rename_file. intro Hq.
    assert (Hqa : q <> a) by (intro E; apply Hq; left; exact E).
    assert (Hqb : q <> b) by (intro E; apply Hq; right; exact E).
    destruct (is_dir t a || is_dir t b) eqn:E0; [reflexivity|].
    destruct (lookup t a) as [nd|] eqn:Ea; [|reflexivity].
    destruct (exists_ t b) eqn:Eb; [reflexivity|].
    destruct (parent_is_dir t b); [|reflexivity].
    cbn [fst snd].
    apply orb_false_iff in E0. destruct E0 as [Da Db].
    apply exists_false in Eb. destruct Eb as [_ Hb].
    rewrite (lookup_set_node _ b nd q Hb), (path_eqb_neq_sym b q Hqb).
    rewrite (lookup_remove_path t a q (is_dir_false_ne t a Da)), (path_eqb_neq_sym a q Hqa).
    reflexivity.
  - (* FReplace *)
    unfold fstep, touches, fs_replace_file. intro Hq.
    assert (Hqa : q <> a) by (intro E; apply Hq; left; exact E).
    assert (Hqb : q <> b) by (intro E; apply Hq; right; exact E).
    destruct (is_dir t a || is_dir t b) eqn:E0; [reflexivity|].
    destruct (lookup t a) as [na|] eqn:Ea; [|reflexivity].
    destruct (lookup t b) as [nb|] eqn:Eb; [|reflexivity].
    destruct (path_eqb a b); [reflexivity|].
    cbn [fst snd].
    apply orb_false_iff in E0. destruct E0 as [Da Db].
    rewrite (lookup_set_node _ a nb q (is_dir_false_ne t a Da)), (path_eqb_neq_sym a q Hqa).
    rewrite (lookup_remove_path t b q (is_dir_false_ne t b Db)), (path_eqb_neq_sym b q Hqb).
    reflexivity.
  - (* FMkdir *)
    unfold fstep, touches, fs_create_directory. intro Hq.
    destruct (exists_ t p) eqn:E1; [reflexivity|].
    destruct (parent_is_dir t p); [|reflexivity].
    cbn [fst snd]. apply exists_false in E1. destruct E1 as [_ Hp].
    rewrite (lookup_set_node t p _ q Hp), (path_eqb_neq_sym p q Hq). reflexivity.
  - (* FRmdir *)
    destruct r; (destruct p as [|x p]; unfold fstep, touches, fs_remove_directory;
                 intro Hq; [reflexivity|]);
      assert (Hp : x :: p <> []) by discriminate;
      (destruct (lookup t (x :: p)) as [[d|]|] eqn:E; [reflexivity| |reflexivity]).
    + cbn [fst snd]. rewrite (lookup_remove_subtree t (x :: p) q Hp).
      destruct (is_prefix (x :: p) q) eqn:Eq; [|reflexivity].
      exfalso. apply Hq. first [exact Eq | reflexivity].
    + destruct (has_child t (x :: p)); [reflexivity|]. cbn [fst snd].
      rewrite (lookup_remove_path t (x :: p) q Hp), (path_eqb_neq_sym (x :: p) q Hq).
      reflexivity.
  - (* FTruncate *)
    unfold fstep, touches, fs_truncate_file. intro Hq.
    destruct (lookup t p) as [[d|]|] eqn:E; [|reflexivity|reflexivity].
    cbn [fst snd].
    rewrite (lookup_set_node t p _ q (lookup_file_ne t p d E)), (path_eqb_neq_sym p q Hq).
    reflexivity.
  - (* FWrite *)
    unfold fstep, touches, fs_write_data. intro Hq.
    destruct (lookup t p) as [[old|]|] eqn:E; [|reflexivity|reflexivity].
    cbn [fst snd].
    rewrite (lookup_set_node t p _ q (lookup_file_ne t p old E)), (path_eqb_neq_sym p q Hq).
    reflexivity.
  - unfold fstep, fs_read_data. intros _.
    destruct (lookup t p) as [[old|]|]; reflexivity.
  - unfold fstep, fs_file_size. intros _.
    destruct (lookup t p) as [[old|]|]; reflexivity.
  - intros _. reflexivity.
  - intros _. reflexivity.
Qed.

(* ------------------------------------------------------------------ *)
(* refusal codes                                                       *)
(* ------------------------------------------------------------------ *)

Lemma create_codes : forall t p,
  snd (fs_create_file t p) =
    if exists_ t p then CREATE_NOT_ALLOWED else if parent_is_dir t p then CREATE_SUCCESS else CREATE_NOT_ALLOWED.
Proof.
  intros t p. unfold fs_create_file. destruct (exists_ t p); [reflexivity|].
  destruct (parent_is_dir t p); reflexivity.
Qed.

Lemma delete_codes : forall t p,
  snd (fs_delete_file t p) =
    match lookup t p with None => DELETE_FILE_DOES_NOT_EXIST | Some Dir => DELETE_NOT_ALLOWED | Some (File _) => DELETE_SUCCESS end.
Proof.
  intros t p. unfold fs_delete_file. destruct (lookup t p) as [[d|]|]; reflexivity.
Qed.

Lemma rename_codes : forall t a b t' c,
  fs_rename_file t a b = Ok (t', c) ->
  (c = RENAME_NOT_PERFORMED <-> (is_dir t a || is_dir t b = true)) /\
  (c = RENAME_OLD_FILE_DOES_NOT_EXIST <-> (is_dir t a || is_dir t b = false /\ lookup t a = None)) /\
  (c = RENAME_NEW_FILE_DOES_EXIST <-> (is_dir t a || is_dir t b = false /\ lookup t a <> None /\ exists_ t b = true)) /\
  (c = RENAME_SUCCESS <-> (is_dir t a || is_dir t b = false /\ lookup t a <> None /\ exists_ t b = false)).
Proof.
  intros t a b t' c. unfold fs_rename_file. unfold_codes.
  destruct (is_dir t a || is_dir t b) eqn:E0.
  { intro H. inversion H; subst; clear H. rc. }
  destruct (lookup t a) as [nd|] eqn:Ea.
  2:{ intro H. inversion H; subst; clear H. rc. }
  destruct (exists_ t b) eqn:Eb.
  { intro H. inversion H; subst; clear H. rc. }
  destruct (parent_is_dir t b); intro H; [|discriminate H].
  inversion H; subst; clear H. rc.
Qed.

Lemma replace_codes : forall t a b,
  snd (fs_replace_file t a b) =
    if is_dir t a || is_dir t b then REPLACE_NOT_ALLOWED
    else if negb (exists_ t a) then REPLACE_ONE_DOES_NOT_EXIST
    else if negb (exists_ t b) then REPLACE_TWO_DOES_NOT_EXIST else REPLACE_SUCCESS.
Proof.
  intros t a b. unfold fs_replace_file, exists_, is_dir.
  destruct (lookup t a) as [[da|]|]; destruct (lookup t b) as [[db|]|];
    cbn [orb negb snd]; try reflexivity.
  destruct (path_eqb a b); reflexivity.
Qed.

Lemma rmdir_codes : forall t p r, p <> [] ->
  snd (fs_remove_directory t p r) =
    match lookup t p with
    | None => REMOVE_DIR_DOES_NOT_EXIST
    | Some (File _) => REMOVE_DIR_NOT_ALLOWED
    | Some Dir => if r then REMOVE_DIR_SUCCESS else if has_child t p then REMOVE_DIR_NOT_ALLOWED else REMOVE_DIR_SUCCESS
    end.
Proof.
  intros t p r Hp. destruct p as [|x p]; [exfalso; apply Hp; reflexivity|].
  unfold fs_remove_directory.
  destruct (lookup t (x :: p)) as [[d|]|]; try reflexivity.
  destruct r; [reflexivity|].
  destruct (has_child t (x :: p)); reflexivity.
Qed.

Lemma mkdir_codes : forall t p t' c,
  fs_create_directory t p = Ok (t', c) ->
  (c = CREATE_DIR_CAN_NOT_BE_CREATED <-> exists_ t p = true) /\ (c = CREATE_DIR_SUCCESS <-> exists_ t p = false).
Proof.
  intros t p t' c. unfold fs_create_directory. unfold_codes.
  destruct (exists_ t p) eqn:E.
  { intro H. inversion H; subst; clear H. rc. }
  destruct (parent_is_dir t p); intro H; [|discriminate H].
  inversion H; subst; clear H. rc.
Qed.

(* ------------------------------------------------------------------ *)
(* write_at                                                            *)
(* ------------------------------------------------------------------ *)

Lemma zrepeat_length : forall (A : Type) (x : A) n, length (zrepeat x n) = n.
Proof. intros A x n. induction n as [|n IH]; simpl; [reflexivity|]. rewrite IH. reflexivity. Qed.

Lemma nth_error_zrepeat : forall (A : Type) (x : A) n k, (k < n)%nat ->
  nth_error (zrepeat x n) k = Some x.
Proof.
  intros A x n. induction n as [|n IH]; intros k Hk; [lia|].
  destruct k as [|k]; simpl; [reflexivity|]. apply IH. lia.
Qed.

Lemma nth_error_firstn_lt : forall (A : Type) n (l : list A) k, (k < n)%nat ->
  nth_error (firstn n l) k = nth_error l k.
Proof.
  intros A n. induction n as [|n IH]; intros l k Hk; [lia|].
  destruct l as [|y l]; [reflexivity|].
  destruct k as [|k]; simpl; [reflexivity|]. apply IH. lia.
Qed.

Lemma nth_error_skipn_add : forall (A : Type) a (l : list A) b,
  nth_error (skipn a l) b = nth_error l (a + b)%nat.
Proof.
  intros A a. induction a as [|a IH]; intros l b; [reflexivity|].
  destruct l as [|y l]; simpl.
  - destruct b; reflexivity.
  - apply IH.
Qed.

Lemma skipn_exact : forall (A : Type) (l1 l2 : list A) n, length l1 = n ->
  skipn n (l1 ++ l2) = l2.
Proof.
  intros A l1. induction l1 as [|y l1 IH]; intros l2 n Hn; simpl in Hn; subst n.
  - reflexivity.
  - simpl. apply IH. reflexivity.
Qed.

Lemma firstn_exact : forall (A : Type) (l1 l2 : list A), firstn (length l1) (l1 ++ l2) = l1.
Proof.
  intros A l1. induction l1 as [|y l1 IH]; intros l2; simpl; [reflexivity|].
  rewrite IH. reflexivity.
Qed.

Lemma write_at_eq : forall old off d, d <> [] ->
  write_at old off d =
    firstn (Z.to_nat off) old ++ zrepeat 0 (Z.to_nat off - length old)
      ++ d ++ skipn (Z.to_nat off + length d) old.
Proof.
  intros old off d Hd. destruct d as [|x d]; [exfalso; apply Hd; reflexivity|reflexivity].
Qed.

Lemma write_prefix_length : forall (old : bytes) n,
  length (firstn n old ++ zrepeat 0 (n - length old)) = n.
Proof. intros old n. rewrite app_length, firstn_length, zrepeat_length. lia. Qed.

Lemma write_empty : forall old off, write_at old off [] = old.
Proof. reflexivity. Qed.

Lemma write_length : forall old d off,
  0 <= off -> d <> [] -> zlen (write_at old off d) = Z.max (zlen old) (off + zlen d).
Proof.
  intros old d off Hoff Hd. rewrite (write_at_eq old off d Hd). unfold zlen.
  rewrite !app_length, firstn_length, zrepeat_length, skipn_length. lia.
Qed.

Lemma write_frame : forall old d off i,
  0 <= off -> d <> [] -> 0 <= i -> ~ (off <= i < off + zlen d) ->
  nth_error (write_at old off d) (Z.to_nat i) =
    if i <? zlen old then nth_error old (Z.to_nat i)
    else if i <? off then Some 0 else None.
Proof.
  intros old d off i Hoff Hd Hi Hout. rewrite (write_at_eq old off d Hd).
  unfold zlen in *.
  remember (Z.to_nat off) as n eqn:Hn. remember (Z.to_nat i) as k eqn:Hk.
  rewrite app_assoc.
  pose proof (write_prefix_length old n) as Hpre.
  destruct (Z.ltb_spec i (Z.of_nat (length old))) as [H1|H1].
  - destruct (Z_lt_le_dec i off) as [H2|H2].
    + rewrite nth_error_app1 by (rewrite Hpre; lia).
      rewrite nth_error_app1 by (rewrite firstn_length; lia).
      apply nth_error_firstn_lt. lia.
    + rewrite nth_error_app2 by (rewrite Hpre; lia). rewrite Hpre.
      rewrite nth_error_app2 by lia.
      rewrite nth_error_skipn_add. f_equal. lia.
  - destruct (Z.ltb_spec i off) as [H2|H2].
    + rewrite nth_error_app1 by (rewrite Hpre; lia).
      rewrite nth_error_app2 by (rewrite firstn_length; lia).
      apply nth_error_zrepeat. rewrite firstn_length. lia.
    + rewrite nth_error_app2 by (rewrite Hpre; lia). rewrite Hpre.
      rewrite nth_error_app2 by lia.
      rewrite nth_error_skipn_add. apply nth_error_None. lia.
Qed.

Lemma read_back : forall old d off, 0 <= off ->
  ztake (zlen d) (zdrop off (write_at old off d)) = d.
Proof.
  intros old d off Hoff. destruct d as [|x d']; [reflexivity|].
  assert (Hd : x :: d' <> []) by discriminate.
  revert Hd. generalize (x :: d'). intros d Hd.
  rewrite (write_at_eq old off d Hd). unfold ztake, zdrop, zlen.
  rewrite Nat2Z.id, app_assoc.
  rewrite (skipn_exact _ _ _ (Z.to_nat off) (write_prefix_length old (Z.to_nat off))).
  apply firstn_exact.
Qed.

Lemma write_read_roundtrip : forall t p old d off,
  lookup t p = Some (File old) -> p <> [] -> 0 <= off ->
  exists t', fs_write_data t p d off = Ok t' /\ fs_read_data t' p off (zlen d) = Ok d.
Proof.
  intros t p old d off Hl Hp Hoff. unfold fs_write_data. rewrite Hl.
  eexists. split; [reflexivity|].
  unfold fs_read_data. rewrite (lookup_set_node t p _ p Hp), path_eqb_refl.
  f_equal. apply read_back. exact Hoff.
Qed.
