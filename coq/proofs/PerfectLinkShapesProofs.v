(* PerfectLinkShapesProofs.v — proofs for props/C02d.v: the unbounded perfect-link theorems of property C02
   (props/C02u.v, C02c.v, C02a.v) for EVERY destination tree and EVERY destination path shape that the receiver
   distinguishes (dest.py _init_vfs_handling): an existing regular file (truncated and overwritten), an existing
   directory (the file goes to directory/basename(source)), an absent path whose parent directory exists (at any
   depth); together with the frame (no other path of the destination tree changes).
   The sender lemmas, the symbolic interpreter of the receiver monad and the scheduler lemmas of
   PerfectLinkProofs.v / PerfectLinkClosureProofs.v / PerfectLinkAckedProofs.v are reused; the receiver runs are
   re-done on states whose file name is an arbitrary path [fn] over an arbitrary tree: they only need
   "[fn] is a regular file of the current tree" (established by _init_vfs_handling from [dest_writable]).
   Everything is closed under the global context. *)
From CFDP Require Import Base LostSeg Fs Crc Checksum Handler Dest Source HandlerSpec SourceSpec System SystemCases.
From CFDP.gen Require Import Tables.
From CFDP.proofs Require Import ChecksumProofs FsProofs StreamProofs PerfectLinkProofs PerfectLinkClosureProofs
  PerfectLinkAckedProofs.
From RecordUpdate Require Import RecordSet.
Import RecordSetNotations.

(* arithmetic stays folded unless both arguments are literals *)
Local Arguments Z.add : simpl never. Local Arguments Z.sub : simpl never. Local Arguments Z.mul : simpl never.
Local Arguments Z.pow : simpl never. Local Arguments Z.div : simpl never. Local Arguments Z.min : simpl never.
Local Arguments Z.max : simpl never. Local Arguments Z.to_nat : simpl never.
Local Arguments Z.ltb !x !y : simpl nomatch. Local Arguments Z.leb !x !y : simpl nomatch.
Local Arguments Z.eqb !x !y : simpl nomatch. Local Arguments Z.of_nat !n : simpl nomatch.
Local Arguments write_at : simpl never.
Local Arguments set_node : simpl never.
Local Opaque calculate_checksum.

(* ================================================================== *)
(* 0. the definitions of props/C02d.v (same bodies)                    *)
(* ================================================================== *)
(* the receiver starts on the filestore [t0] *)
Definition dst_init_fs (cd : lcfg) (t0 : tree) : dst :=
  dst_init cd <| d_env ::= (fun e => e <| e_fs := t0 |>) |>.

Definition transfer_fs (cs cd : lcfg) (seq0 bits : Z) (p : putreq) (sn : path) (data : bytes) (t0 : tree)
           (faults : list fault) (fuel : nat) (tick : Z) : sys * bool :=
  let y0 := sys_init cs cd seq0 bits sn data faults <| y_dst := dst_init_fs cd t0 |> in
  let '(s1, r) := put_request p (y_src y0) in
  run fuel tick (y0 <| y_src := s1 |>).

(* the name of the destination file (dest.py _init_vfs_handling) and the condition under which it can be written
   (as in props/C06c.v) *)
Definition dest_name (fs : tree) (sn dn : path) : path :=
  if fs_is_directory fs dn then (match rev sn with b :: _ => dn ++ [b] | [] => dn end) else dn.
Definition dest_writable (fs : tree) (p : path) : Prop :=
  (exists d, lookup fs p = Some (File d)) \/ (lookup fs p = None /\ parent_is_dir fs p = true).

(* every other path of the destination tree keeps its node *)
Definition frame_ok (t0 t : tree) (fn : path) : Prop := forall q, q <> fn -> lookup t q = lookup t0 q.

Lemma transfer_fs_empty : forall cs cd seq0 bits p sn data faults fuel tick,
  transfer_fs cs cd seq0 bits p sn data [] faults fuel tick = transfer cs cd seq0 bits p sn data faults fuel tick.
Proof. reflexivity. Qed.

(* ------------------------------------------------------------------ the three shapes *)
Lemma parent_snoc : forall (dn : path) b, parent (dn ++ [b]) = dn.
Proof. intros. unfold parent. apply removelast_last. Qed.

Lemma rev_last : forall (sn : path), sn <> [] -> rev sn = last sn 0 :: rev (removelast sn).
Proof.
  intros sn H. rewrite (app_removelast_last 0 H) at 1. rewrite rev_app_distr. reflexivity.
Qed.

Lemma shape_existing_file : forall t0 sn dn old, lookup t0 dn = Some (File old) ->
  dest_name t0 sn dn = dn /\ dest_writable t0 (dest_name t0 sn dn).
Proof.
  intros t0 sn dn old H. unfold dest_name, fs_is_directory, is_dir. rewrite H.
  split; [reflexivity|]. left. exists old. exact H.
Qed.

Lemma shape_directory : forall t0 sn dn, sn <> [] -> is_dir t0 dn = true ->
  lookup t0 (dn ++ [last sn 0]) <> Some Dir ->
  dest_name t0 sn dn = dn ++ [last sn 0] /\ dest_writable t0 (dest_name t0 sn dn).
Proof.
  intros t0 sn dn Hsn Hd Hn. unfold dest_name, fs_is_directory. rewrite Hd, (rev_last sn Hsn).
  split; [reflexivity|]. unfold dest_writable.
  destruct (lookup t0 (dn ++ [last sn 0])) as [[d|]|] eqn:E.
  - left. exists d. reflexivity.
  - exfalso. apply Hn. reflexivity.
  - right. split; [reflexivity|]. unfold parent_is_dir. rewrite parent_snoc.
    destruct (dn ++ [last sn 0]) eqn:E2; [destruct dn; discriminate E2 | exact Hd].
Qed.

Lemma shape_absent : forall t0 sn dn, lookup t0 dn = None -> is_dir t0 (parent dn) = true ->
  dest_name t0 sn dn = dn /\ dest_writable t0 (dest_name t0 sn dn).
Proof.
  intros t0 sn dn H Hp. unfold dest_name, fs_is_directory, is_dir. rewrite H.
  split; [reflexivity|]. right. split; [exact H|]. unfold parent_is_dir.
  destruct dn; [discriminate H | exact Hp].
Qed.

(* the three shapes are all there is *)
Lemma shapes_complete : forall t0 sn dn, sn <> [] -> dest_writable t0 (dest_name t0 sn dn) ->
  (exists old, lookup t0 dn = Some (File old)) \/
  (is_dir t0 dn = true /\ lookup t0 (dn ++ [last sn 0]) <> Some Dir) \/
  (lookup t0 dn = None /\ is_dir t0 (parent dn) = true).
Proof.
  intros t0 sn dn Hsn. unfold dest_name, fs_is_directory. destruct (is_dir t0 dn) eqn:Hd.
  - rewrite (rev_last sn Hsn). intros [[d H]|[H _]]; right; left; (split; [reflexivity|]); rewrite H; discriminate.
  - intros [[d H]|[H Hp]]; [left; exists d; exact H|]. right; right. split; [exact H|].
    unfold parent_is_dir in Hp. destruct dn; [discriminate Hp | exact Hp].
Qed.

(* ------------------------------------------------------------------ the receiver's view of the tree *)
(* the fresh receiver on the tree [t0], in constructor form *)
Definition dinit (cd : lcfg) (t0 : tree) : dst :=
  mkDst cd ST_IDLE DS_IDLE None 0 [] fresh_params (mkEnv 0 t0 false []).
Lemma dinit_eq : forall cd t0, dst_init_fs cd t0 = dinit cd t0.
Proof. reflexivity. Qed.

Lemma writable_ne : forall t fn, dest_writable t fn -> fn <> [].
Proof.
  intros t fn [[d H]|[_ H]] E; subst fn; [rewrite lookup_root in H; discriminate H | discriminate H].
Qed.

(* the destination file holds [c]; every other path is as in [t0] *)
Definition At (t0 : tree) (fn : path) (fs : tree) (c : bytes) : Prop :=
  lookup fs fn = Some (File c) /\ frame_ok t0 fs fn.

Lemma At_init : forall t0 fn, fn <> [] -> At t0 fn (set_node t0 fn (File [])) [].
Proof.
  intros t0 fn H. split.
  - rewrite lookup_set_node by exact H. rewrite path_eqb_refl. reflexivity.
  - intros q Hq. rewrite lookup_set_node by exact H. rewrite path_eqb_neq_sym by exact Hq. reflexivity.
Qed.

Lemma At_set : forall t0 fn fs old c' c, fn <> [] -> At t0 fn fs old -> c' = c ->
  At t0 fn (set_node fs fn (File c')) c.
Proof.
  intros t0 fn fs old c' c H [_ Hf] <-. split.
  - rewrite lookup_set_node by exact H. rewrite path_eqb_refl. reflexivity.
  - intros q Hq. rewrite lookup_set_node by exact H. rewrite path_eqb_neq_sym by exact Hq. apply Hf. exact Hq.
Qed.

(* _init_vfs_handling on a writable destination: the resolved name, truncated or created empty *)
Lemma init_vfs_general : forall t0 sn dn fn s,
  fn = dest_name t0 sn dn -> dest_writable t0 fn ->
  e_fs (d_env s) = t0 -> p_file_name (d_p s) = dn ->
  init_vfs_handling (match rev sn with b :: _ => Some b | [] => None end) s =
    (s <| d_p ::= (fun p => p <| p_file_name := fn |>) |>
       <| d_env ::= (fun e => e <| e_fs := set_node t0 fn (File []) |>) |>
       <| d_p ::= (fun p => p <| p_fin ::= (fun f => f <| f_fstatus := FS_RETAINED |>) |>) |>, Ok tt).
Proof.
  intros t0 sn dn fn s Hfn Hw H1 H2. unfold init_vfs_handling. apply catch_ok.
  rewrite b_gets, b_gp, H1, H2.
  assert (E : (if fs_is_directory t0 dn
               then match match rev sn with b :: _ => Some b | [] => None end with Some b => dn ++ [b] | None => dn end
               else dn) = fn).
  { rewrite Hfn. unfold dest_name. destruct (rev sn); reflexivity. }
  rewrite E. cbv zeta. rewrite b_setp.
  destruct Hw as [[d Hl]|[Hl Hp]].
  - unfold fs_file_exists, exists_. rewrite Hl. cbv iota.
    unfold vfs_op_tree. rewrite b_assoc, b_gets. cbn [d_env set e_fs]. rewrite H1.
    unfold fs_truncate_file. rewrite Hl. cbv iota. rewrite b_modify. reflexivity.
  - unfold fs_file_exists, exists_. rewrite Hl. cbv iota.
    unfold vfs_op_tree. rewrite b_assoc, b_gets. cbn [d_env set e_fs]. rewrite H1.
    unfold fs_create_file, exists_. rewrite Hl, Hp. cbn [fst]. cbv iota. rewrite b_modify. reflexivity.
Qed.

(* ------------------------------------------------------------------ the verdict on the final system *)
Lemma fault_free_ok_spec : forall fn data res, fault_free_ok fn data res = true ->
  delivered_ok fn data res = true /\ y_errs (fst res) = [] /\
  existsb fault_event (e_log (s_env (y_src (fst res)))) = false /\
  existsb fault_event (e_log (d_env (y_dst (fst res)))) = false /\
  zlen (filter success_event (e_log (d_env (y_dst (fst res))))) = 1.
Proof.
  intros fn data res H. unfold fault_free_ok in H. cbv zeta in H.
  apply andb_prop in H. destruct H as [H1 H]. apply andb_prop in H. destruct H as [H H5].
  apply andb_prop in H. destruct H as [H H4]. apply andb_prop in H. destruct H as [H2 H3].
  split; [exact H1|]. split; [destruct (y_errs (fst res)); [reflexivity|discriminate H2]|].
  split; [apply negb_true_iff; exact H3|]. split; [apply negb_true_iff; exact H4|].
  symmetry. apply Z.eqb_eq. exact H5.
Qed.

Lemma verdict_gen : forall t0 fn data (y : sys) a b fs1 a' b' fs2 lgs lgd,
  y_errs y = [] ->
  e_log (s_env (y_src y)) = EvFinished a b C_NO_ERROR DATA_COMPLETE fs1 None :: lgs ->
  e_log (d_env (y_dst y)) = EvFinished a' b' C_NO_ERROR DATA_COMPLETE fs2 None :: lgd ->
  clean lgs -> clean lgd -> At t0 fn (e_fs (d_env (y_dst y))) data ->
  fault_free_ok fn data (y, true) = true /\ frame_ok t0 (e_fs (d_env (y_dst y))) fn.
Proof.
  intros t0 fn data y a b fs1 a' b' fs2 lgs lgd He Hs Hd [S1 S2] [D1 D2] [Hl Hf].
  split; [|exact Hf].
  unfold fault_free_ok, delivered_ok, file_content. cbn [fst]. rewrite He, Hs, Hd, Hl.
  cbn [filter success_event existsb fault_event hd andb orb negb]. rewrite S1, S2, D1, D2.
  rewrite bytes_eqb_refl. reflexivity.
Qed.

(* ================================================================== *)
(* 1. unacknowledged mode without closure (as PerfectLinkProofs.v)      *)
(* ================================================================== *)
Module U.
Local Transparent state_machine_s Dest.state_machine.
Section Receiver.
Variables (cd : lcfg) (rd : rcfg) (t0 : tree) (sn dn fn : path) (crc large : bool) (srcid idw seq seqw ckt fsz : Z).
Hypothesis Hrem : get_remote (l_remotes cd) srcid = Some rd.
Hypothesis Hfin : l_ind_fin cd = true.
Hypothesis Hfn : fn = dest_name t0 sn dn.
Hypothesis Hw : dest_writable t0 fn.

Definition hS : hdr := mkHdr TOWARDS_RECEIVER UNACKED crc large srcid (l_id cd) idw seq seqw.

Definition dstate (off : Z) (fs : tree) (lg : list event) : dst :=
  mkDst cd ST_BUSY DS_RECEIVING_FILE_DATA (Some (srcid, seq)) 0 []
    (mkDP (Some (srcid, seq)) (Some rd) None 0 false ckt (mkFin DATA_INCOMPLETE FS_RETAINED C_NO_ERROR None)
          DISP_COMPLETED (set_dir TOWARDS_SENDER hS) off [] (Some fsz) fn None false [] false 0 0 false None 0 None 0)
    (mkEnv 0 fs false lg).

Lemma check_md : forall cl ck sz names msgs s, d_cfg s = cd -> d_state s = ST_IDLE ->
  check_inserted_packet (PMetadata hS cl ck sz names msgs) s = (s, Ok tt).
Proof.
  intros cl ck sz names msgs s H1 H2. unfold check_inserted_packet. rewrite b_get. cbv zeta.
  cbn [pdu_hdr hS h_dir h_dst h_src h_mode]. rewrite H1, H2, Hrem, !Z.eqb_refl. reflexivity.
Qed.

Lemma check_fd : forall off data s, d_cfg s = cd -> d_state s = ST_BUSY ->
  check_inserted_packet (PFileData hS off data) s = (s, Ok tt).
Proof.
  intros off data s H1 H2. unfold check_inserted_packet. rewrite b_get. cbv zeta.
  cbn [pdu_hdr hS h_dir h_dst h_src h_mode]. rewrite H1, H2, Hrem, !Z.eqb_refl. reflexivity.
Qed.

Lemma check_eof : forall c ck sz fl s, d_cfg s = cd -> d_state s = ST_BUSY ->
  check_inserted_packet (PEof hS c ck sz fl) s = (s, Ok tt).
Proof.
  intros c ck sz fl s H1 H2. unfold check_inserted_packet. rewrite b_get. cbv zeta.
  cbn [pdu_hdr hS h_dir h_dst h_src h_mode]. rewrite H1, H2, Hrem, !Z.eqb_refl. reflexivity.
Qed.


Lemma idle_md : forall msgs,
  idle_fsm (Some (PMetadata hS false ckt fsz (Some (sn, dn)) msgs)) (dinit cd t0) =
    (dstate 0 (set_node t0 fn (File [])) [EvMetadataRecv srcid seq srcid (Some fsz) (Some (sn, dn)) msgs], Ok tt).
Proof.
  intros msgs. unfold idle_fsm, start_transaction, dinit, fresh_params, hS.
  mrun. unfold common_first_packet_handler. mrun. rewrite Hrem.
  unfold handle_metadata_packet. mrun.
  erewrite b_ok by (apply (init_vfs_general t0 sn dn fn); [exact Hfn | exact Hw | reflexivity | reflexivity]). mrun.
  reflexivity.
Qed.

Lemma fsm_adv_nop : forall s, d_queue s = [] -> d_step s = DS_RECEIVING_FILE_DATA -> fsm_advancement s = (s, Ok tt).
Proof. intros s H1 H2. unfold fsm_advancement. rewrite b_get, H1, H2. reflexivity. Qed.

Lemma handle_fd_run : forall off data fs lg old, lookup fs fn = Some (File old) ->
  handle_fd_pdu off data (dstate off fs lg) =
    (dstate (Z.max (off + zlen data) off) (set_node fs fn (File (write_at old off data)))
            (if l_ind_seg cd then EvSegmentRecv srcid seq off (zlen data) :: lg else lg), Ok tt).
Proof.
  intros off data fs lg old Hl. unfold handle_fd_pdu, dstate, hS. mrun.
  destruct (l_ind_seg cd); mrun; apply catch_ok; mrun; unfold vfs_write; mrun;
    cbn [e_fs]; unfold fs_write_data; rewrite Hl; cbv iota; mrun; reflexivity.
Qed.

Lemma nif_md : forall fuel cl ck sz names msgs off fs lg,
  non_idle_fsm (S fuel) (Some (PMetadata hS cl ck sz names msgs)) (dstate off fs lg) = (dstate off fs lg, Ok tt).
Proof.
  intros. cbn [non_idle_fsm]. rewrite (b_ok _ _ _ _ _ (fsm_adv_nop (dstate off fs lg) eq_refl eq_refl)).
  unfold dstate, hS. mrun. reflexivity.
Qed.

Lemma nif_fd : forall fuel off data fs lg old, lookup fs fn = Some (File old) ->
  non_idle_fsm (S fuel) (Some (PFileData hS off data)) (dstate off fs lg) =
    (dstate (Z.max (off + zlen data) off) (set_node fs fn (File (write_at old off data)))
            (if l_ind_seg cd then EvSegmentRecv srcid seq off (zlen data) :: lg else lg), Ok tt).
Proof.
  intros fuel off data fs lg old Hl. cbn [non_idle_fsm].
  rewrite (b_ok _ _ _ _ _ (fsm_adv_nop (dstate off fs lg) eq_refl eq_refl)).
  unfold dstate at 1, hS. mrun. fold hS. fold (dstate off fs lg).
  rewrite (b_ok _ _ _ _ _ (handle_fd_run off data fs lg old Hl)).
  unfold dstate, hS. mrun. reflexivity.
Qed.

Lemma sm_md : forall msgs,
  Dest.state_machine (Some (PMetadata hS false ckt fsz (Some (sn, dn)) msgs)) (dinit cd t0) =
    (dstate 0 (set_node t0 fn (File [])) [EvMetadataRecv srcid seq srcid (Some fsz) (Some (sn, dn)) msgs], Ok tt).
Proof.
  intros msgs. unfold Dest.state_machine.
  rewrite (b_ok _ _ _ _ _ (check_md _ _ _ _ _ (dinit cd t0) eq_refl eq_refl)).
  unfold catch_abandoned; apply catch_ok.
  unfold dinit at 1. mrun. fold (dinit cd t0).
  rewrite (b_ok _ _ _ _ _ (idle_md msgs)).
  unfold dstate at 1, hS. mrun. fold hS.
  apply nif_md.
Qed.

Lemma sm_fd : forall off data fs lg old, lookup fs fn = Some (File old) ->
  Dest.state_machine (Some (PFileData hS off data)) (dstate off fs lg) =
    (dstate (Z.max (off + zlen data) off) (set_node fs fn (File (write_at old off data)))
            (if l_ind_seg cd then EvSegmentRecv srcid seq off (zlen data) :: lg else lg), Ok tt).
Proof.
  intros off data fs lg old Hl. unfold Dest.state_machine.
  rewrite (b_ok _ _ _ _ _ (check_fd off data (dstate off fs lg) eq_refl eq_refl)).
  unfold catch_abandoned; apply catch_ok.
  unfold dstate at 1, hS. mrun. fold hS.
  apply nif_fd. exact Hl.
Qed.

Definition dfinal (fs : tree) (lg : list event) : dst :=
  mkDst cd ST_IDLE DS_IDLE (Some (srcid, seq)) 0 [] fresh_params (mkEnv 0 fs false lg).

Ltac dpr :=
  cbn [d_cfg d_state d_step d_states_tid d_ready d_queue d_p d_env
       p_tid p_rcfg p_check_timer p_check_count p_closure p_cktype p_fin p_disp p_conf p_progress p_crc32 p_file_size
       p_file_name p_file_size_eof p_md_only p_tracker p_md_missing p_last_start p_last_end p_deferred p_proc_timer
       p_nak_counter p_ack_timer p_ack_counter f_deliv f_fstatus f_cond f_fl e_now e_fs e_reject_writes e_log
       h_dir h_mode h_crc h_large h_src h_dst h_idw h_seq h_seqw fst snd opt_z].

Lemma nif_eof : forall fuel cks fl fs lg data,
  lookup fs fn = Some (File data) -> calculate_checksum ckt (Some data) fsz 4096 = Ok cks ->
  non_idle_fsm (S fuel) (Some (PEof hS C_NO_ERROR cks fsz fl)) (dstate fsz fs lg) =
    (dfinal fs (EvFinished srcid seq C_NO_ERROR DATA_COMPLETE FS_RETAINED None ::
                (if l_ind_eof_recv cd then [EvEofRecv srcid seq] else []) ++ lg), Ok tt).
Proof.
  intros fuel cks fl fs lg data Hl Hck. cbn [non_idle_fsm].
  rewrite (b_ok _ _ _ _ _ (fsm_adv_nop (dstate fsz fs lg) eq_refl eq_refl)).
  unfold dstate at 1, hS. mrun. unfold handle_eof_pdu. mrun.
  destruct (l_ind_eof_recv cd); unfold tid_or_assert; mrun;
  unfold handle_no_error_eof; mrun; dpr; rewrite Z.ltb_irrefl; cbn [andb]; mrun;
  unfold checksum_verify; mrun; dpr;
  (destruct (ckt =? CK_NULL) eqn:Eck; cbn [orb]; mrun;
   [| unfold vfs_checksum; mrun; rewrite Eck; mrun; rewrite Hl, Hck; cbv iota; mrun; rewrite bytes_eqb_refl; dpr; rewrite Z.leb_refl; cbn [andb]; mrun]);
  unfold file_transfer_complete_transition; mrun;
  unfold handle_transfer_completion, notice_of_completion; mrun; rewrite Hfin; mrun; dpr; mrun;
  unfold reset_internal; mrun; reflexivity.
Qed.

Lemma sm_eof : forall cks fl fs lg data,
  lookup fs fn = Some (File data) -> calculate_checksum ckt (Some data) fsz 4096 = Ok cks ->
  Dest.state_machine (Some (PEof hS C_NO_ERROR cks fsz fl)) (dstate fsz fs lg) =
    (dfinal fs (EvFinished srcid seq C_NO_ERROR DATA_COMPLETE FS_RETAINED None ::
                (if l_ind_eof_recv cd then [EvEofRecv srcid seq] else []) ++ lg), Ok tt).
Proof.
  intros cks fl fs lg data Hl Hck. unfold Dest.state_machine.
  rewrite (b_ok _ _ _ _ _ (check_eof C_NO_ERROR cks fsz fl (dstate fsz fs lg) eq_refl eq_refl)).
  unfold catch_abandoned; apply catch_ok.
  unfold dstate at 1, hS. mrun. fold hS.
  eapply nif_eof; eassumption.
Qed.
End Receiver.
Local Opaque state_machine_s Dest.state_machine.
Section Sys.
Variables (cs cd : lcfg) (p : putreq) (rs rd : rcfg) (sn : path) (t0 : tree) (dn fn : path) (data cks : bytes) (cf : sconf) (seg tick : Z).
Variable fss : tree.
Hypothesis Hnames : pr_names p = Some (sn, dn).
Hypothesis Hlook : lookup fss sn = Some (File data).
Hypothesis Hseg : 1 <= seg.
Hypothesis Hm : sc_mode cf = UNACKED.
Hypothesis Hck : calculate_checksum (r_cktype rs) (Some data) (zlen data) seg = Ok cks.
Hypothesis Hck2 : calculate_checksum (r_cktype rs) (Some data) (zlen data) 4096 = Ok cks.
Hypothesis Hfins : l_ind_fin cs = true.
Hypothesis Hfind : l_ind_fin cd = true.
Hypothesis Hrem : get_remote (l_remotes cd) (sc_src cf) = Some rd.
Hypothesis Hdst : sc_dst cf = l_id cd.
Hypothesis Hfn : fn = dest_name t0 sn dn.
Hypothesis Hw : dest_writable t0 fn.

Definition tid0 : Z * Z := (sc_src cf, sc_seq cf).
Definition hR : hdr := hS cd (sc_crc cf) (sc_large cf) (sc_src cf) (sc_srcw cf) (sc_seq cf) (sc_seqw cf).
Definition DS (off : Z) (fs : tree) (lg : list event) : dst :=
  dstate cd rd fn (sc_crc cf) (sc_large cf) (sc_src cf) (sc_srcw cf) (sc_seq cf) (sc_seqw cf) (r_cktype rs) (zlen data)
         off fs lg.
Definition DF (fs : tree) (lg : list event) : dst :=
  dfinal cd (sc_src cf) (sc_seq cf) fs lg.

Lemma hdr_eq : hdr_of cf TOWARDS_RECEIVER = hR.
Proof. unfold hdr_of, hR, hS. rewrite Hm, Hdst. reflexivity. Qed.

Definition SInv (off : Z) (y : sys) : Prop :=
  exists s fs lg c1 c2 rnd scur dcur sdone ddone,
    y = Y s (DS off fs lg) c1 c2 rnd scur dcur sdone ddone /\
    InvL cs p rs fss data cf seg tid0 off s /\
    At t0 fn fs (ztake off data) /\ clean lg.

Lemma guard_busy : forall pkt off fs lg ddone, pdu_hdr pkt = hR ->
  (d_state (DS off fs lg) =? ST_IDLE) && tid_mem (h_src (pdu_hdr pkt), h_seq (pdu_hdr pkt)) ddone = false /\
  (d_state (DS off fs lg) =? ST_BUSY) &&
    match p_tid (d_p (DS off fs lg)) with
    | Some t => negb (tid_eqb (h_src (pdu_hdr pkt), h_seq (pdu_hdr pkt)) t) | None => false end = false.
Proof.
  intros pkt off fs lg ddone H. rewrite H. split; [reflexivity|].
  unfold DS, dstate, hR, hS, tid_eqb. cbn [d_state d_p p_tid h_src h_seq fst snd].
  rewrite !Z.eqb_refl. reflexivity.
Qed.

(* a File Data round *)
Lemma round_fd : forall off y, SInv off y -> off < zlen data ->
  exists y' a, step_round y = (y', a) /\ 0 < a /\ quiescent y' = false /\
               SInv (off + Z.min seg (zlen data - off)) y'.
Proof.
  intros off y (s & fs & lg & c1 & c2 & rnd & scur & dcur & sdone & ddone & -> & HI & Hl & Hc) Hlt.
  pose proof (InvL_range _ _ _ _ _ _ _ _ _ _ HI) as Hr.
  destruct (step_fd_u cs p rs fss data cf seg tid0 sn dn Hnames Hlook Hseg Hm off s HI Hlt) as (s' & P & HI').
  unfold fd_of in P. cbn [fst snd] in P. rewrite hdr_eq in P.
  set (tile := ztake seg (zdrop off data)) in *.
  assert (Htl : zlen tile = Z.min seg (zlen data - off)) by (apply tile_len; lia).
  assert (How : on_wire (PFileData hR off tile) = Some (PFileData hR off tile)).
  { destruct tile; [change (zlen (@nil Z)) with 0 in Htl; lia | reflexivity]. }
  destruct (guard_busy (PFileData hR off tile) off fs lg ddone eq_refl) as [G1 G2].
  pose proof (sm_fd cd rd fn (sc_crc cf) (sc_large cf) (sc_src cf) (sc_srcw cf) (sc_seq cf) (sc_seqw cf)
                (r_cktype rs) (zlen data) Hrem off tile fs lg _ (proj1 Hl)) as Hsm.
  fold hR in Hsm. rewrite Z.max_l in Hsm by lia. rewrite Htl in Hsm.
  destruct (round_generic s s' _ _ _ c1 c2 rnd scur dcur sdone ddone P How G1 G2 Hsm eq_refl)
    as (c1' & scur' & dcur' & sdone' & ddone' & a & R & Ha).
  eexists. exists a. split; [exact R|]. split; [exact Ha|]. split.
  - unfold quiescent, Y. cbn [y_src]. rewrite (InvL_busy _ _ _ _ _ _ _ _ _ _ HI'). reflexivity.
  - do 10 eexists. split; [reflexivity|]. split; [exact HI'|]. split.
    + eapply At_set; [exact (writable_ne _ _ Hw) | exact Hl | apply write_append; lia].
    + destruct (l_ind_seg cd); [apply clean_cons; [reflexivity|reflexivity|exact Hc] | exact Hc].
Qed.


(* what the verdict looks at, after the last round *)
Definition Final (y : sys) : Prop :=
  exists s fs lgs lgd c1 c2 rnd scur dcur sdone ddone,
    y = Y s (DF fs (EvFinished (sc_src cf) (sc_seq cf) C_NO_ERROR DATA_COMPLETE FS_RETAINED None :: lgd))
          c1 c2 rnd scur dcur sdone ddone /\
    e_log (s_env s) = EvFinished (sc_src cf) (sc_seq cf) C_NO_ERROR DATA_COMPLETE FS_UNREPORTED None :: lgs /\
    clean lgs /\ clean lgd /\ At t0 fn fs data.

(* the EOF round *)
Lemma round_eof : forall y, SInv (zlen data) y ->
  exists y' a, step_round y = (y', a) /\ quiescent y' = true /\ Final y'.
Proof.
  intros y (s & fs & lg & c1 & c2 & rnd & scur & dcur & sdone & ddone & -> & HI & Hl & Hc).
  destruct (step_final_u cs p rs fss data cks cf seg tid0 sn dn Hnames Hlook Hm Hck Hfins s HI)
    as (s' & lg0 & P & Hst & Hlog & Hc0).
  rewrite hdr_eq in P. rewrite ztake_all in Hl.
  destruct (guard_busy (PEof hR C_NO_ERROR cks (zlen data) None) (zlen data) fs lg ddone eq_refl) as [G1 G2].
  pose proof (sm_eof cd rd fn (sc_crc cf) (sc_large cf) (sc_src cf) (sc_srcw cf) (sc_seq cf) (sc_seqw cf)
                (r_cktype rs) (zlen data) Hrem Hfind cks None fs lg data (proj1 Hl) Hck2) as Hsm.
  fold hR in Hsm.
  destruct (round_generic s s' _ _ _ c1 c2 rnd scur dcur sdone ddone P eq_refl G1 G2 Hsm eq_refl)
    as (c1' & scur' & dcur' & sdone' & ddone' & a & R & Ha).
  eexists. exists a. split; [exact R|]. split.
  - unfold quiescent, Y. cbn [y_src]. rewrite Hst. reflexivity.
  - do 11 eexists. split; [reflexivity|]. split; [exact Hlog|]. split; [exact Hc0|]. split; [|exact Hl].
    apply clean_app; [|exact Hc].
    destruct (l_ind_eof_recv cd); [apply clean_cons; [reflexivity|reflexivity|apply clean_nil] | apply clean_nil].
Qed.

(* all rounds after the Metadata round *)
Lemma run_rest : forall n off y, SInv off y -> (length (zdrop off data) <= n)%nat ->
  exists y', run (S n) tick y = (y', true) /\ Final y'.
Proof.
  induction n as [|n IH]; intros off y HS Hn.
  - assert (Hr : 0 <= off <= zlen data).
    { destruct HS as (s & fs & lg & c1 & c2 & rnd & scur & dcur & sdone & ddone & _ & HI & _).
      exact (InvL_range _ _ _ _ _ _ _ _ _ _ HI). }
    assert (Hz : zlen (zdrop off data) = 0) by (unfold zlen; lia).
    rewrite zlen_zdrop in Hz by lia. assert (off = zlen data) by lia. subst off.
    destruct (round_eof y HS) as (y' & a & R & Q & F).
    exists y'. split; [|exact F]. rewrite run_S, R. cbv iota beta. rewrite Q. reflexivity.
  - assert (Hr : 0 <= off <= zlen data).
    { destruct HS as (s & fs & lg & c1 & c2 & rnd & scur & dcur & sdone & ddone & _ & HI & _).
      exact (InvL_range _ _ _ _ _ _ _ _ _ _ HI). }
    destruct (Z.eq_dec off (zlen data)) as [He|He].
    + subst off. destruct (round_eof y HS) as (y' & a & R & Q & F).
      exists y'. split; [|exact F]. rewrite run_S, R. cbv iota beta. rewrite Q. reflexivity.
    + assert (Hlt : off < zlen data) by lia.
      destruct (round_fd off y HS Hlt) as (y1 & a & R & Ha & Q & HS').
      set (off' := off + Z.min seg (zlen data - off)) in *.
      assert (Hn' : (length (zdrop off' data) <= n)%nat).
      { assert (Hz : zlen (zdrop off data) = Z.max 0 (zlen data - off)) by (apply zlen_zdrop; lia).
        assert (Hz' : zlen (zdrop off' data) = Z.max 0 (zlen data - off')) by (apply zlen_zdrop; unfold off'; lia).
        unfold zlen in Hz, Hz'. unfold off' in *. lia. }
      destruct (IH off' y1 HS' Hn') as (y' & Rr & F).
      exists y'. split; [|exact F].
      rewrite run_S, R. cbv iota beta. rewrite Q.
      assert (Ea : (a =? 0) = false) by (apply Z.eqb_neq; lia). rewrite Ea. exact Rr.
Qed.

(* the Metadata round *)
Lemma round_md : forall s1 s3 c1 c2 rnd,
  pump s1 = (s3, Ok [PMetadata (hdr_of cf TOWARDS_RECEIVER) false (r_cktype rs) (zlen data) (Some (sn, dn)) []]) ->
  InvL cs p rs fss data cf seg tid0 0 s3 ->
  exists y' a, step_round (Y s1 (dinit cd t0) c1 c2 rnd None None [] []) = (y', a) /\ 0 < a /\
               quiescent y' = false /\ SInv 0 y'.
Proof.
  intros s1 s3 c1 c2 rnd P HI. rewrite hdr_eq in P.
  pose proof (sm_md cd rd t0 sn dn fn (sc_crc cf) (sc_large cf) (sc_src cf) (sc_srcw cf) (sc_seq cf) (sc_seqw cf)
                (r_cktype rs) (zlen data) Hrem Hfn Hw []) as Hsm.
  fold hR in Hsm.
  destruct (round_generic s1 s3 _ (dinit cd t0) _ c1 c2 rnd None None [] [] P eq_refl eq_refl eq_refl Hsm eq_refl)
    as (c1' & scur' & dcur' & sdone' & ddone' & a & R & Ha).
  eexists. exists a. split; [exact R|]. split; [exact Ha|]. split.
  - unfold quiescent, Y. cbn [y_src]. rewrite (InvL_busy _ _ _ _ _ _ _ _ _ _ HI). reflexivity.
  - do 10 eexists. split; [reflexivity|]. split; [exact HI|]. split.
    + exact (At_init t0 fn (writable_ne _ _ Hw)).
    + apply clean_cons; [reflexivity|reflexivity|apply clean_nil].
Qed.

End Sys.

Lemma final_verdict : forall cd t0 fn data cf y,
  Final cd t0 fn data cf y ->
  fault_free_ok fn data (y, true) = true /\ frame_ok t0 (e_fs (d_env (y_dst y))) fn.
Proof.
  intros cd t0 fn data cf y (s & fs & lgs & lgd & c1 & c2 & rnd & scur & dcur & sdone & ddone & -> & Hs & HS & HD & Hl).
  eapply verdict_gen; [reflexivity | exact Hs | reflexivity | exact HS | exact HD | exact Hl].
Qed.

Lemma unacked_perfect_link_fs :
  forall (cs cd : lcfg) (seq0 bits : Z) (p : putreq) (rs rd : rcfg) (sn dn : path) (data : bytes) (t0 : tree) (tick : Z),
  let w := Z.max (l_idw cs) (pr_dstw p) in
  let large := 4294967295 <? zlen data in
  let derived := r_max_packet rs - (4 + 2 * w + bits / 8) - (if large then 8 else 4) - (if r_crc rs then 2 else 0) in
  let seg := match r_max_seg rs with Some m => Z.min m derived | None => derived end in
  let fn := dest_name t0 sn dn in
  get_remote (l_remotes cs) (pr_dst p) = Some rs ->
  pr_names p = Some (sn, dn) -> sn <> [] -> pr_msgs p = None ->
  (match pr_mode p with Some m => m | None => r_mode rs end) = UNACKED ->
  (match pr_closure p with Some b => b | None => r_closure rs end) = false ->
  (bits = 8 \/ bits = 16 \/ bits = 32) -> 0 <= seq0 < 2 ^ bits -> 1 <= seg -> 6 <= derived ->
  (r_cktype rs = CK_CRC32 \/ r_cktype rs = CK_CRC32C \/ r_cktype rs = CK_NULL \/ r_cktype rs = CK_MODULAR) ->
  l_id cd = pr_dst p -> get_remote (l_remotes cd) (l_id cs) = Some rd ->
  dest_writable t0 fn ->
  l_ind_fin cs = true -> l_ind_fin cd = true ->
  exists fuel,
    let res := transfer_fs cs cd seq0 bits p sn data t0 [] fuel tick in
    fault_free_ok fn data res = true /\ frame_ok t0 (e_fs (d_env (y_dst (fst res)))) fn.
Proof.
  intros cs cd seq0 bits p rs rd sn dn data t0 tick w large derived seg fn
         Hrs Hn Hsn Hmsgs Hmode Hclo Hbits Hseq Hseg Hd6 Hck Hid Hrd Hw Hfs Hfd.
  set (fss := [(sn, File data)]).
  assert (Hlook : lookup fss sn = Some (File data)).
  { destruct sn as [|a sn']; [contradiction|]. unfold fss. cbn [lookup lookup_raw].
    rewrite path_eqb_refl. reflexivity. }
  destruct (ck_agree (r_cktype rs) data seg Hck Hseg) as (cks & C1 & C2).
  set (cf := mkSconf (l_id cs) w (pr_dst p) w seq0 (bits / 8) UNACKED large (r_crc rs)).
  destruct (first_call cs seq0 bits fss p rs sn dn data Hrs Hn Hlook Hmode Hclo Hbits Hseq Hseg Hd6)
    as (s1 & s3 & P1 & P2 & HI).
  rewrite Hmsgs in P2.
  assert (Hdst : sc_dst cf = l_id cd) by (symmetry; exact Hid).
  destruct (round_md cs cd p rs rd sn t0 dn fn data cf seg fss eq_refl Hrd Hdst eq_refl Hw s1 s3 0 0 0 P2 HI)
    as (y1 & a & R & Ha & Q & HS).
  destruct (run_rest cs cd p rs rd sn t0 dn fn data cks cf seg tick fss Hn Hlook Hseg eq_refl C1 C2 Hfs Hfd Hrd Hdst Hw
              (length data) 0 y1 HS (le_n _)) as (y' & Rr & F).
  exists (S (S (length data))).
  assert (Et : transfer_fs cs cd seq0 bits p sn data t0 [] (S (S (length data))) tick = (y', true)).
  { unfold transfer_fs, sys_init. cbn [y_src set]. fold fss. rewrite P1.
    change (mkSys (src_fresh cs seq0 bits fss) (dst_init cd) [] [] 0 0 [] 0 None None [] [] [] (rev [])
              <| y_dst := dst_init_fs cd t0 |> <| y_src := s1 |>)
      with (Y s1 (dinit cd t0) 0 0 0 None None [] []).
    rewrite run_S, R. cbv iota beta. rewrite Q.
    assert (Ea : (a =? 0) = false) by (apply Z.eqb_neq; lia). rewrite Ea. exact Rr. }
  cbv zeta. rewrite Et. cbn [fst].
  exact (final_verdict cd t0 fn data cf y' F).
Qed.
End U.

(* ================================================================== *)
(* 2. unacknowledged mode with closure (as PerfectLinkClosureProofs.v)  *)
(* ================================================================== *)
Module C.
Local Transparent state_machine_s Dest.state_machine.
Section Receiver.
Variables (cd : lcfg) (rd : rcfg) (t0 : tree) (sn dn fn : path) (crc large : bool) (srcid idw seq seqw ckt fsz : Z).
Hypothesis Hrem : get_remote (l_remotes cd) srcid = Some rd.
Hypothesis Hfin : l_ind_fin cd = true.
Hypothesis Hfn : fn = dest_name t0 sn dn.
Hypothesis Hw : dest_writable t0 fn.

Notation hS := (hS cd crc large srcid idw seq seqw).

(* as PerfectLinkProofs.dstate, closure requested *)
Definition dstateC (off : Z) (fs : tree) (lg : list event) : dst :=
  mkDst cd ST_BUSY DS_RECEIVING_FILE_DATA (Some (srcid, seq)) 0 []
    (mkDP (Some (srcid, seq)) (Some rd) None 0 true ckt (mkFin DATA_INCOMPLETE FS_RETAINED C_NO_ERROR None)
          DISP_COMPLETED (set_dir TOWARDS_SENDER hS) off [] (Some fsz) fn None false [] false 0 0 false None 0 None 0)
    (mkEnv 0 fs false lg).

Lemma idle_md_c : forall msgs,
  idle_fsm (Some (PMetadata hS true ckt fsz (Some (sn, dn)) msgs)) (dinit cd t0) =
    (dstateC 0 (set_node t0 fn (File [])) [EvMetadataRecv srcid seq srcid (Some fsz) (Some (sn, dn)) msgs], Ok tt).
Proof.
  intros msgs. unfold idle_fsm, start_transaction, dinit, fresh_params, PerfectLinkProofs.hS.
  mrun. unfold common_first_packet_handler. mrun. rewrite Hrem.
  unfold handle_metadata_packet. mrun.
  erewrite b_ok by (apply (init_vfs_general t0 sn dn fn); [exact Hfn | exact Hw | reflexivity | reflexivity]). mrun.
  reflexivity.
Qed.

Lemma handle_fd_run_c : forall off data fs lg old, lookup fs fn = Some (File old) ->
  handle_fd_pdu off data (dstateC off fs lg) =
    (dstateC (Z.max (off + zlen data) off) (set_node fs fn (File (write_at old off data)))
            (if l_ind_seg cd then EvSegmentRecv srcid seq off (zlen data) :: lg else lg), Ok tt).
Proof.
  intros off data fs lg old Hl. unfold handle_fd_pdu, dstateC, PerfectLinkProofs.hS. mrun.
  destruct (l_ind_seg cd); mrun; apply catch_ok; mrun; unfold vfs_write; mrun;
    cbn [e_fs]; unfold fs_write_data; rewrite Hl; cbv iota; mrun; reflexivity.
Qed.

Lemma nif_md_c : forall fuel cl ck sz names msgs off fs lg,
  non_idle_fsm (S fuel) (Some (PMetadata hS cl ck sz names msgs)) (dstateC off fs lg) = (dstateC off fs lg, Ok tt).
Proof.
  intros. cbn [non_idle_fsm]. rewrite (b_ok _ _ _ _ _ (fsm_adv_nop (dstateC off fs lg) eq_refl eq_refl)).
  unfold dstateC, PerfectLinkProofs.hS. mrun. reflexivity.
Qed.

Lemma nif_fd_c : forall fuel off data fs lg old, lookup fs fn = Some (File old) ->
  non_idle_fsm (S fuel) (Some (PFileData hS off data)) (dstateC off fs lg) =
    (dstateC (Z.max (off + zlen data) off) (set_node fs fn (File (write_at old off data)))
            (if l_ind_seg cd then EvSegmentRecv srcid seq off (zlen data) :: lg else lg), Ok tt).
Proof.
  intros fuel off data fs lg old Hl. cbn [non_idle_fsm].
  rewrite (b_ok _ _ _ _ _ (fsm_adv_nop (dstateC off fs lg) eq_refl eq_refl)).
  unfold dstateC at 1, PerfectLinkProofs.hS. mrun. fold hS. fold (dstateC off fs lg).
  rewrite (b_ok _ _ _ _ _ (handle_fd_run_c off data fs lg old Hl)).
  unfold dstateC, PerfectLinkProofs.hS. mrun. reflexivity.
Qed.

Lemma sm_md_c : forall msgs,
  Dest.state_machine (Some (PMetadata hS true ckt fsz (Some (sn, dn)) msgs)) (dinit cd t0) =
    (dstateC 0 (set_node t0 fn (File [])) [EvMetadataRecv srcid seq srcid (Some fsz) (Some (sn, dn)) msgs], Ok tt).
Proof.
  intros msgs. unfold Dest.state_machine.
  rewrite (b_ok _ _ _ _ _ (check_md cd rd crc large srcid idw seq seqw Hrem _ _ _ _ _ (dinit cd t0) eq_refl eq_refl)).
  unfold catch_abandoned; apply catch_ok.
  unfold dinit at 1. mrun. fold (dinit cd t0).
  rewrite (b_ok _ _ _ _ _ (idle_md_c msgs)).
  unfold dstateC at 1, PerfectLinkProofs.hS. mrun. fold hS.
  apply nif_md_c.
Qed.

Lemma sm_fd_c : forall off data fs lg old, lookup fs fn = Some (File old) ->
  Dest.state_machine (Some (PFileData hS off data)) (dstateC off fs lg) =
    (dstateC (Z.max (off + zlen data) off) (set_node fs fn (File (write_at old off data)))
            (if l_ind_seg cd then EvSegmentRecv srcid seq off (zlen data) :: lg else lg), Ok tt).
Proof.
  intros off data fs lg old Hl. unfold Dest.state_machine.
  rewrite (b_ok _ _ _ _ _ (check_fd cd rd crc large srcid idw seq seqw Hrem off data (dstateC off fs lg) eq_refl eq_refl)).
  unfold catch_abandoned; apply catch_ok.
  unfold dstateC at 1, PerfectLinkProofs.hS. mrun. fold hS.
  apply nif_fd_c. exact Hl.
Qed.

(* the Finished PDU of a complete transfer *)
Definition finpdu : pdu := PFinished (set_dir TOWARDS_SENDER hS) C_NO_ERROR DATA_COMPLETE FS_RETAINED None.

(* after the EOF: idle again, the Finished PDU queued *)
Definition dfinalC (fs : tree) (lg : list event) : dst :=
  mkDst cd ST_IDLE DS_IDLE (Some (srcid, seq)) 1 [finpdu] fresh_params (mkEnv 0 fs false lg).

Ltac dpr :=
  cbn [d_cfg d_state d_step d_states_tid d_ready d_queue d_p d_env
       p_tid p_rcfg p_check_timer p_check_count p_closure p_cktype p_fin p_disp p_conf p_progress p_crc32 p_file_size
       p_file_name p_file_size_eof p_md_only p_tracker p_md_missing p_last_start p_last_end p_deferred p_proc_timer
       p_nak_counter p_ack_timer p_ack_counter f_deliv f_fstatus f_cond f_fl e_now e_fs e_reject_writes e_log
       h_dir h_mode h_crc h_large h_src h_dst h_idw h_seq h_seqw fst snd opt_z].

Lemma nif_eof_c : forall fuel cks fl fs lg data,
  lookup fs fn = Some (File data) -> calculate_checksum ckt (Some data) fsz 4096 = Ok cks ->
  non_idle_fsm (S fuel) (Some (PEof hS C_NO_ERROR cks fsz fl)) (dstateC fsz fs lg) =
    (dfinalC fs (EvFinished srcid seq C_NO_ERROR DATA_COMPLETE FS_RETAINED None ::
                (if l_ind_eof_recv cd then [EvEofRecv srcid seq] else []) ++ lg), Ok tt).
Proof.
  intros fuel cks fl fs lg data Hl Hck. cbn [non_idle_fsm].
  rewrite (b_ok _ _ _ _ _ (fsm_adv_nop (dstateC fsz fs lg) eq_refl eq_refl)).
  unfold dstateC at 1, PerfectLinkProofs.hS. mrun. unfold handle_eof_pdu. mrun.
  destruct (l_ind_eof_recv cd); unfold tid_or_assert; mrun;
  unfold handle_no_error_eof; mrun; dpr; rewrite Z.ltb_irrefl; cbn [andb]; mrun;
  unfold checksum_verify; mrun; dpr;
  (destruct (ckt =? CK_NULL) eqn:Eck; cbn [orb]; mrun;
   [| unfold vfs_checksum; mrun; rewrite Eck; mrun; rewrite Hl, Hck; cbv iota; mrun; rewrite bytes_eqb_refl; dpr; rewrite Z.leb_refl; cbn [andb]; mrun]);
  unfold file_transfer_complete_transition; mrun;
  unfold handle_transfer_completion, notice_of_completion; mrun; rewrite Hfin; mrun; dpr; mrun;
  unfold prepare_finished_pdu, conf, add_packet; mrun;
  unfold handle_finished_pdu_sent; mrun;
  unfold reset_internal; mrun; reflexivity.
Qed.

Lemma sm_eof_c : forall cks fl fs lg data,
  lookup fs fn = Some (File data) -> calculate_checksum ckt (Some data) fsz 4096 = Ok cks ->
  Dest.state_machine (Some (PEof hS C_NO_ERROR cks fsz fl)) (dstateC fsz fs lg) =
    (dfinalC fs (EvFinished srcid seq C_NO_ERROR DATA_COMPLETE FS_RETAINED None ::
                (if l_ind_eof_recv cd then [EvEofRecv srcid seq] else []) ++ lg), Ok tt).
Proof.
  intros cks fl fs lg data Hl Hck. unfold Dest.state_machine.
  rewrite (b_ok _ _ _ _ _ (check_eof cd rd crc large srcid idw seq seqw Hrem C_NO_ERROR cks fsz fl (dstateC fsz fs lg) eq_refl eq_refl)).
  unfold catch_abandoned; apply catch_ok.
  unfold dstateC at 1, PerfectLinkProofs.hS. mrun. fold hS.
  eapply nif_eof_c; eassumption.
Qed.

(* an empty call on the idle receiver *)
Lemma sm_idle_none : forall tidopt fs lg,
  Dest.state_machine None (mkDst cd ST_IDLE DS_IDLE tidopt 0 [] fresh_params (mkEnv 0 fs false lg)) =
    (mkDst cd ST_IDLE DS_IDLE tidopt 0 [] fresh_params (mkEnv 0 fs false lg), Ok tt).
Proof. intros. reflexivity. Qed.
End Receiver.
Local Opaque state_machine_s Dest.state_machine.
Section Sys.
Variables (cs cd : lcfg) (p : putreq) (rs rd : rcfg) (sn : path) (t0 : tree) (dn fn : path) (data cks : bytes) (cf : sconf) (seg tick : Z).
Variable fss : tree.
Hypothesis Hnames : pr_names p = Some (sn, dn).
Hypothesis Hlook : lookup fss sn = Some (File data).
Hypothesis Hseg : 1 <= seg.
Hypothesis Hm : sc_mode cf = UNACKED.
Hypothesis Hck : calculate_checksum (r_cktype rs) (Some data) (zlen data) seg = Ok cks.
Hypothesis Hck2 : calculate_checksum (r_cktype rs) (Some data) (zlen data) 4096 = Ok cks.
Hypothesis Hfins : l_ind_fin cs = true.
Hypothesis Hfind : l_ind_fin cd = true.
Hypothesis Hchk : 0 < l_check_ms cs.
Hypothesis Hrem : get_remote (l_remotes cd) (sc_src cf) = Some rd.
Hypothesis Hdst : sc_dst cf = l_id cd.
Hypothesis Hsrc : sc_src cf = l_id cs.
Hypothesis Hrid : sc_dst cf = r_id rs.
Hypothesis Hfn : fn = dest_name t0 sn dn.
Hypothesis Hw : dest_writable t0 fn.

Notation tid0 := (tid0 cf).
Notation hR := (hR cd cf).
Definition DSC (off : Z) (fs : tree) (lg : list event) : dst :=
  dstateC cd rd fn (sc_crc cf) (sc_large cf) (sc_src cf) (sc_srcw cf) (sc_seq cf) (sc_seqw cf) (r_cktype rs) (zlen data)
          off fs lg.
Notation DF := (DF cd cf).
(* the Finished PDU of this transaction *)
Definition finP : pdu := PFinished (hdr_of cf TOWARDS_SENDER) C_NO_ERROR DATA_COMPLETE FS_RETAINED None.

Lemma finP_eq : finpdu cd (sc_crc cf) (sc_large cf) (sc_src cf) (sc_srcw cf) (sc_seq cf) (sc_seqw cf) = finP.
Proof. unfold finpdu, finP, hdr_of, hS, set_dir. cbn [h_mode h_crc h_large h_src h_dst h_idw h_seq h_seqw]. rewrite Hm, Hdst. reflexivity. Qed.

Definition SInvC (off : Z) (y : sys) : Prop :=
  exists s fs lg c1 c2 rnd scur dcur sdone ddone,
    y = Y s (DSC off fs lg) c1 c2 rnd scur dcur sdone ddone /\
    InvC cs p rs fss data cf seg tid0 off s /\
    At t0 fn fs (ztake off data) /\ clean lg.

Lemma guard_busy_c : forall pkt off fs lg ddone, pdu_hdr pkt = hR ->
  (d_state (DSC off fs lg) =? ST_IDLE) && tid_mem (h_src (pdu_hdr pkt), h_seq (pdu_hdr pkt)) ddone = false /\
  (d_state (DSC off fs lg) =? ST_BUSY) &&
    match p_tid (d_p (DSC off fs lg)) with
    | Some t => negb (tid_eqb (h_src (pdu_hdr pkt), h_seq (pdu_hdr pkt)) t) | None => false end = false.
Proof.
  intros pkt off fs lg ddone H. rewrite H. split; [reflexivity|].
  unfold DSC, dstateC, PerfectLinkProofs.hR, hS, tid_eqb. cbn [d_state d_p p_tid h_src h_seq fst snd].
  rewrite !Z.eqb_refl. reflexivity.
Qed.

(* a File Data round *)
Lemma round_fd_c : forall off y, SInvC off y -> off < zlen data ->
  exists y' a, step_round y = (y', a) /\ 0 < a /\ quiescent y' = false /\
               SInvC (off + Z.min seg (zlen data - off)) y'.
Proof.
  intros off y (s & fs & lg & c1 & c2 & rnd & scur & dcur & sdone & ddone & -> & HI & Hl & Hc) Hlt.
  pose proof (InvC_range _ _ _ _ _ _ _ _ _ _ HI) as Hr.
  destruct (step_fd_c cs p rs fss data cf seg tid0 sn dn Hnames Hlook Hseg Hm off s HI Hlt) as (s' & P & HI').
  unfold fd_of in P. cbn [fst snd] in P. rewrite (hdr_eq cd cf Hm Hdst) in P.
  set (tile := ztake seg (zdrop off data)) in *.
  assert (Htl : zlen tile = Z.min seg (zlen data - off)) by (apply tile_len; lia).
  assert (How : on_wire (PFileData hR off tile) = Some (PFileData hR off tile)).
  { destruct tile; [change (zlen (@nil Z)) with 0 in Htl; lia | reflexivity]. }
  destruct (guard_busy_c (PFileData hR off tile) off fs lg ddone eq_refl) as [G1 G2].
  pose proof (sm_fd_c cd rd fn (sc_crc cf) (sc_large cf) (sc_src cf) (sc_srcw cf) (sc_seq cf) (sc_seqw cf)
                (r_cktype rs) (zlen data) Hrem off tile fs lg _ (proj1 Hl)) as Hsm.
  fold hR in Hsm. rewrite Z.max_l in Hsm by lia. rewrite Htl in Hsm.
  destruct (round_generic s s' _ _ _ c1 c2 rnd scur dcur sdone ddone P How G1 G2 Hsm eq_refl)
    as (c1' & scur' & dcur' & sdone' & ddone' & a & R & Ha).
  eexists. exists a. split; [exact R|]. split; [exact Ha|]. split.
  - unfold quiescent, Y. cbn [y_src]. rewrite (InvC_busy _ _ _ _ _ _ _ _ _ _ HI'). reflexivity.
  - do 10 eexists. split; [reflexivity|]. split; [exact HI'|]. split.
    + eapply At_set; [exact (writable_ne _ _ Hw) | exact Hl | apply write_append; lia].
    + destruct (l_ind_seg cd); [apply clean_cons; [reflexivity|reflexivity|exact Hc] | exact Hc].
Qed.

(* between the EOF round and the last round: the receiver is done and idle, its Finished PDU travels, the sender waits *)
Definition Mid (y : sys) : Prop :=
  exists s fs lgd c1 c2 rnd scur dcur sdone ddone,
    y = Yb s (DF fs (EvFinished (sc_src cf) (sc_seq cf) C_NO_ERROR DATA_COMPLETE FS_RETAINED None :: lgd)) finP
           c1 c2 rnd scur dcur sdone ddone /\
    Wait cs p rs cf tid0 s /\ clean lgd /\ At t0 fn fs data.

(* what the verdict looks at, after the last round: the sender reports the values of the Finished PDU *)
Definition FinalC (y : sys) : Prop :=
  exists s fs lgs lgd c1 c2 rnd scur dcur sdone ddone,
    y = Y s (DF fs (EvFinished (sc_src cf) (sc_seq cf) C_NO_ERROR DATA_COMPLETE FS_RETAINED None :: lgd))
          c1 c2 rnd scur dcur sdone ddone /\
    e_log (s_env s) = EvFinished (sc_src cf) (sc_seq cf) C_NO_ERROR DATA_COMPLETE FS_RETAINED None :: lgs /\
    clean lgs /\ clean lgd /\ At t0 fn fs data.

(* the EOF round: the receiver completes and answers with the Finished PDU *)
Lemma round_eof_c : forall y, SInvC (zlen data) y ->
  exists y' a, step_round y = (y', a) /\ 0 < a /\ quiescent y' = false /\ Mid y'.
Proof.
  intros y (s & fs & lg & c1 & c2 & rnd & scur & dcur & sdone & ddone & -> & HI & Hl & Hc).
  destruct (step_eof_c cs p rs fss data cks cf seg tid0 sn dn Hnames Hlook Hm Hck Hchk s HI) as (s' & P & HW).
  rewrite (hdr_eq cd cf Hm Hdst) in P. rewrite ztake_all in Hl.
  destruct (guard_busy_c (PEof hR C_NO_ERROR cks (zlen data) None) (zlen data) fs lg ddone eq_refl) as [G1 G2].
  pose proof (sm_eof_c cd rd fn (sc_crc cf) (sc_large cf) (sc_src cf) (sc_srcw cf) (sc_seq cf) (sc_seqw cf)
                (r_cktype rs) (zlen data) Hrem Hfind cks None fs lg data (proj1 Hl) Hck2) as Hsm.
  fold hR in Hsm.
  assert (Hdr : drain_d (dfinalC cd (sc_crc cf) (sc_large cf) (sc_src cf) (sc_srcw cf) (sc_seq cf) (sc_seqw cf) fs
                  (EvFinished (sc_src cf) (sc_seq cf) C_NO_ERROR DATA_COMPLETE FS_RETAINED None ::
                   (if l_ind_eof_recv cd then [EvEofRecv (sc_src cf) (sc_seq cf)] else []) ++ lg)) =
                (DF fs (EvFinished (sc_src cf) (sc_seq cf) C_NO_ERROR DATA_COMPLETE FS_RETAINED None ::
                   (if l_ind_eof_recv cd then [EvEofRecv (sc_src cf) (sc_seq cf)] else []) ++ lg), [finP])).
  { rewrite <- finP_eq. reflexivity. }
  destruct (round_answer s s' _ _ _ _ finP c1 c2 rnd scur dcur sdone ddone P eq_refl G1 G2 Hsm Hdr eq_refl)
    as (c1' & c2' & scur' & dcur' & sdone' & ddone' & a & R & Ha).
  eexists. exists a. split; [exact R|]. split; [exact Ha|]. split.
  - unfold quiescent, Yb. cbn [y_src]. destruct HW as (_ & -> & _). reflexivity.
  - do 10 eexists. split; [reflexivity|]. split; [exact HW|]. split; [|exact Hl].
    apply clean_app; [|exact Hc].
    destruct (l_ind_eof_recv cd); [apply clean_cons; [reflexivity|reflexivity|apply clean_nil] | apply clean_nil].
Qed.

(* the last round: the Finished PDU reaches the sender *)
Lemma round_fin_c : forall y, Mid y ->
  exists y' a, step_round y = (y', a) /\ quiescent y' = true /\ FinalC y'.
Proof.
  intros y (s & fs & lgd & c1 & c2 & rnd & scur & dcur & sdone & ddone & -> & HW & Hc & Hl).
  destruct (step_fin_c cs p rs cf tid0 Hm Hfins s C_NO_ERROR DATA_COMPLETE FS_RETAINED None Hsrc Hrid HW)
    as (s' & lg0 & P & Hst & Hlog & Hc0).
  fold finP in P.
  assert (Hb : s_state s = ST_BUSY) by (destruct HW as (_ & H & _); exact H).
  destruct (round_back s s' finP (DF fs (EvFinished (sc_src cf) (sc_seq cf) C_NO_ERROR DATA_COMPLETE FS_RETAINED None :: lgd))
              c1 c2 rnd scur dcur sdone ddone Hb P (sm_idle_none cd _ _ _) eq_refl)
    as (scur' & dcur' & sdone' & ddone' & a & R).
  eexists. exists a. split; [exact R|]. split.
  - unfold quiescent, Y. cbn [y_src]. rewrite Hst. reflexivity.
  - do 11 eexists. split; [reflexivity|]. split; [exact Hlog|]. split; [exact Hc0|]. split; [exact Hc|exact Hl].
Qed.

(* all rounds after the Metadata round *)
Lemma run_rest_c : forall n off y, SInvC off y -> (length (zdrop off data) <= n)%nat ->
  exists y', run (S (S n)) tick y = (y', true) /\ FinalC y'.
Proof.
  assert (Tail : forall k y, SInvC (zlen data) y -> exists y', run (S (S k)) tick y = (y', true) /\ FinalC y').
  { intros k y HS.
    destruct (round_eof_c y HS) as (y1 & a & R & Ha & Q & HM).
    destruct (round_fin_c y1 HM) as (y' & a' & R' & Q' & F).
    exists y'. split; [|exact F].
    rewrite run_S, R. cbv iota beta. rewrite Q.
    assert (Ea : (a =? 0) = false) by (apply Z.eqb_neq; lia). rewrite Ea.
    rewrite run_S, R'. cbv iota beta. rewrite Q'. reflexivity. }
  induction n as [|n IH]; intros off y HS Hn.
  - assert (Hr : 0 <= off <= zlen data).
    { destruct HS as (s & fs & lg & c1 & c2 & rnd & scur & dcur & sdone & ddone & _ & HI & _).
      exact (InvC_range _ _ _ _ _ _ _ _ _ _ HI). }
    assert (Hz : zlen (zdrop off data) = 0) by (unfold zlen; lia).
    rewrite zlen_zdrop in Hz by lia. assert (off = zlen data) by lia. subst off.
    apply Tail. exact HS.
  - assert (Hr : 0 <= off <= zlen data).
    { destruct HS as (s & fs & lg & c1 & c2 & rnd & scur & dcur & sdone & ddone & _ & HI & _).
      exact (InvC_range _ _ _ _ _ _ _ _ _ _ HI). }
    destruct (Z.eq_dec off (zlen data)) as [He|He].
    + subst off. apply Tail. exact HS.
    + assert (Hlt : off < zlen data) by lia.
      destruct (round_fd_c off y HS Hlt) as (y1 & a & R & Ha & Q & HS').
      set (off' := off + Z.min seg (zlen data - off)) in *.
      assert (Hn' : (length (zdrop off' data) <= n)%nat).
      { assert (Hz : zlen (zdrop off data) = Z.max 0 (zlen data - off)) by (apply zlen_zdrop; lia).
        assert (Hz' : zlen (zdrop off' data) = Z.max 0 (zlen data - off')) by (apply zlen_zdrop; unfold off'; lia).
        unfold zlen in Hz, Hz'. unfold off' in *. lia. }
      destruct (IH off' y1 HS' Hn') as (y' & Rr & F).
      exists y'. split; [|exact F].
      rewrite run_S, R. cbv iota beta. rewrite Q.
      assert (Ea : (a =? 0) = false) by (apply Z.eqb_neq; lia). rewrite Ea. exact Rr.
Qed.

(* the Metadata round *)
Lemma round_md_c : forall s1 s3 c1 c2 rnd,
  pump s1 = (s3, Ok [PMetadata (hdr_of cf TOWARDS_RECEIVER) true (r_cktype rs) (zlen data) (Some (sn, dn)) []]) ->
  InvC cs p rs fss data cf seg tid0 0 s3 ->
  exists y' a, step_round (Y s1 (dinit cd t0) c1 c2 rnd None None [] []) = (y', a) /\ 0 < a /\
               quiescent y' = false /\ SInvC 0 y'.
Proof.
  intros s1 s3 c1 c2 rnd P HI. rewrite (hdr_eq cd cf Hm Hdst) in P.
  pose proof (sm_md_c cd rd t0 sn dn fn (sc_crc cf) (sc_large cf) (sc_src cf) (sc_srcw cf) (sc_seq cf) (sc_seqw cf)
                (r_cktype rs) (zlen data) Hrem Hfn Hw []) as Hsm.
  fold hR in Hsm.
  destruct (round_generic s1 s3 _ (dinit cd t0) _ c1 c2 rnd None None [] [] P eq_refl eq_refl eq_refl Hsm eq_refl)
    as (c1' & scur' & dcur' & sdone' & ddone' & a & R & Ha).
  eexists. exists a. split; [exact R|]. split; [exact Ha|]. split.
  - unfold quiescent, Y. cbn [y_src]. rewrite (InvC_busy _ _ _ _ _ _ _ _ _ _ HI). reflexivity.
  - do 10 eexists. split; [reflexivity|]. split; [exact HI|]. split.
    + exact (At_init t0 fn (writable_ne _ _ Hw)).
    + apply clean_cons; [reflexivity|reflexivity|apply clean_nil].
Qed.

End Sys.

Lemma final_verdict_c : forall cd t0 fn data cf y,
  FinalC cd t0 fn data cf y ->
  fault_free_ok fn data (y, true) = true /\ frame_ok t0 (e_fs (d_env (y_dst y))) fn.
Proof.
  intros cd t0 fn data cf y (s & fs & lgs & lgd & c1 & c2 & rnd & scur & dcur & sdone & ddone & -> & Hs & HS & HD & Hl).
  eapply verdict_gen; [reflexivity | exact Hs | reflexivity | exact HS | exact HD | exact Hl].
Qed.

(* Metadata round, one round per File Data PDU (at most one per byte), EOF round, Finished round *)
Lemma closure_perfect_link_fs :
  forall (cs cd : lcfg) (seq0 bits : Z) (p : putreq) (rs rd : rcfg) (sn dn : path) (data : bytes) (t0 : tree) (tick : Z),
  let w := Z.max (l_idw cs) (pr_dstw p) in
  let large := 4294967295 <? zlen data in
  let derived := r_max_packet rs - (4 + 2 * w + bits / 8) - (if large then 8 else 4) - (if r_crc rs then 2 else 0) in
  let seg := match r_max_seg rs with Some m => Z.min m derived | None => derived end in
  let fn := dest_name t0 sn dn in
  get_remote (l_remotes cs) (pr_dst p) = Some rs ->
  pr_names p = Some (sn, dn) -> sn <> [] -> pr_msgs p = None ->
  (match pr_mode p with Some m => m | None => r_mode rs end) = UNACKED ->
  (match pr_closure p with Some b => b | None => r_closure rs end) = true ->
  0 < l_check_ms cs ->
  (bits = 8 \/ bits = 16 \/ bits = 32) -> 0 <= seq0 < 2 ^ bits -> 1 <= seg -> 6 <= derived ->
  (r_cktype rs = CK_CRC32 \/ r_cktype rs = CK_CRC32C \/ r_cktype rs = CK_NULL \/ r_cktype rs = CK_MODULAR) ->
  l_id cd = pr_dst p -> get_remote (l_remotes cd) (l_id cs) = Some rd ->
  dest_writable t0 fn ->
  l_ind_fin cs = true -> l_ind_fin cd = true ->
  exists fuel,
    let res := transfer_fs cs cd seq0 bits p sn data t0 [] fuel tick in
    fault_free_ok fn data res = true /\ frame_ok t0 (e_fs (d_env (y_dst (fst res)))) fn.
Proof.
  intros cs cd seq0 bits p rs rd sn dn data t0 tick w large derived seg fn
         Hrs Hn Hsn Hmsgs Hmode Hclo Hchk Hbits Hseq Hseg Hd6 Hck Hid Hrd Hw Hfs Hfd.
  set (fss := [(sn, File data)]).
  assert (Hlook : lookup fss sn = Some (File data)).
  { destruct sn as [|a sn']; [contradiction|]. unfold fss. cbn [lookup lookup_raw].
    rewrite path_eqb_refl. reflexivity. }
  destruct (ck_agree (r_cktype rs) data seg Hck Hseg) as (cks & C1 & C2).
  set (cf := mkSconf (l_id cs) w (pr_dst p) w seq0 (bits / 8) UNACKED large (r_crc rs)).
  destruct (first_call_c cs seq0 bits fss p rs sn dn data Hrs Hn Hlook Hmode Hclo Hbits Hseq Hseg Hd6)
    as (s1 & s3 & P1 & P2 & HI).
  rewrite Hmsgs in P2.
  assert (Hdst : sc_dst cf = l_id cd) by (symmetry; exact Hid).
  assert (Hrid : sc_dst cf = r_id rs) by (symmetry; exact (get_remote_id _ _ _ Hrs)).
  destruct (round_md_c cs cd p rs rd sn t0 dn fn data cf seg fss eq_refl Hrd Hdst eq_refl Hw s1 s3 0 0 0 P2 HI)
    as (y1 & a & R & Ha & Q & HS).
  destruct (run_rest_c cs cd p rs rd sn t0 dn fn data cks cf seg tick fss Hn Hlook Hseg eq_refl C1 C2 Hfs Hfd Hchk Hrd Hdst
              eq_refl Hrid Hw (length data) 0 y1 HS (le_n _)) as (y' & Rr & F).
  exists (S (S (S (length data)))).
  assert (Et : transfer_fs cs cd seq0 bits p sn data t0 [] (S (S (S (length data)))) tick = (y', true)).
  { unfold transfer_fs, sys_init. cbn [y_src set]. fold fss. rewrite P1.
    change (mkSys (src_fresh cs seq0 bits fss) (dst_init cd) [] [] 0 0 [] 0 None None [] [] [] (rev [])
              <| y_dst := dst_init_fs cd t0 |> <| y_src := s1 |>)
      with (Y s1 (dinit cd t0) 0 0 0 None None [] []).
    rewrite run_S, R. cbv iota beta. rewrite Q.
    assert (Ea : (a =? 0) = false) by (apply Z.eqb_neq; lia). rewrite Ea. exact Rr. }
  cbv zeta. rewrite Et. cbn [fst].
  exact (final_verdict_c cd t0 fn data cf y' F).
Qed.
End C.

(* ================================================================== *)
(* 3. acknowledged mode (as PerfectLinkAckedProofs.v)                   *)
(* ================================================================== *)
Module A.
Local Transparent state_machine_s Dest.state_machine.
Section ReceiverA.
Variables (cd : lcfg) (rd : rcfg) (t0 : tree) (sn dn fn : path) (crc large clo : bool) (srcid idw seq seqw ckt fsz : Z).
Hypothesis Hrem : get_remote (l_remotes cd) srcid = Some rd.
Hypothesis Hfin : l_ind_fin cd = true.
Hypothesis Hack : 0 < r_ack_ms rd.
Hypothesis Hfn : fn = dest_name t0 sn dn.
Hypothesis Hw : dest_writable t0 fn.

Definition hA : hdr := mkHdr TOWARDS_RECEIVER ACKED crc large srcid (l_id cd) idw seq seqw.
Definition hB : hdr := mkHdr TOWARDS_SENDER ACKED crc large srcid (l_id cd) idw seq seqw.

Definition fin0 : fin := mkFin DATA_INCOMPLETE FS_RETAINED C_NO_ERROR None.
Definition fin1 : fin := mkFin DATA_COMPLETE FS_RETAINED C_NO_ERROR None.

(* the receiver's params block during an in-order acknowledged transfer: no lost segment, metadata present *)
Definition dpA (f : fin) (off : Z) (ck : bytes) (eof : option Z) (ls le : Z) (tm : option timer) : dparams :=
  mkDP (Some (srcid, seq)) (Some rd) None 0 clo ckt f DISP_COMPLETED hB off ck (Some fsz) fn eof false [] false ls le
       false None 0 tm 0.
Definition dstA (step ready : Z) (q : list pdu) (pa : dparams) (fs : tree) (lg : list event) : dst :=
  mkDst cd ST_BUSY step (Some (srcid, seq)) ready q pa (mkEnv 0 fs false lg).

(* receiving file data: [off] bytes received in order, last segment [ls, le) *)
Definition DA (off ls le : Z) (fs : tree) (lg : list event) : dst :=
  dstA DS_RECEIVING_FILE_DATA 0 [] (dpA fin0 off [] None ls le None) fs lg.

Lemma check_a : forall pd s, d_cfg s = cd -> pdu_hdr pd = hA ->
  (d_state s = ST_IDLE /\ (exists cl ck sz names msgs, pd = PMetadata hA cl ck sz names msgs)) \/
  (d_state s = ST_BUSY /\ h_mode (p_conf (d_p s)) = ACKED /\ packet_destination pd = Some 1) ->
  check_inserted_packet pd s = (s, Ok tt).
Proof.
  intros pd s H1 Hh H2. unfold check_inserted_packet. rewrite b_get. cbv zeta.
  rewrite Hh. cbn [hA h_dir h_dst h_src h_mode]. rewrite H1, Hrem, !Z.eqb_refl.
  destruct H2 as [[H2 (cl & ck & sz & names & msgs & ->)] | [H2 [H3 H4]]].
  - rewrite H2. reflexivity.
  - rewrite H2, H3, H4. cbn. destruct (is_file_data pd); cbn; [reflexivity|].
    rewrite andb_false_r. reflexivity.
Qed.

Lemma idle_md_a : forall msgs,
  idle_fsm (Some (PMetadata hA clo ckt fsz (Some (sn, dn)) msgs)) (dinit cd t0) =
    (DA 0 0 0 (set_node t0 fn (File [])) [EvMetadataRecv srcid seq srcid (Some fsz) (Some (sn, dn)) msgs], Ok tt).
Proof.
  intros msgs. unfold idle_fsm, start_transaction, dinit, fresh_params, hA.
  mrun. unfold common_first_packet_handler. mrun. rewrite Hrem.
  unfold handle_metadata_packet. mrun.
  erewrite b_ok by (apply (init_vfs_general t0 sn dn fn); [exact Hfn | exact Hw | reflexivity | reflexivity]). mrun.
  reflexivity.
Qed.

Lemma fsm_adv_nop_a : forall s, d_queue s = [] -> d_step s <> DS_SENDING_EOF_ACK -> fsm_advancement s = (s, Ok tt).
Proof.
  intros s H1 H2. unfold fsm_advancement. rewrite b_get, H1.
  apply Z.eqb_neq in H2. rewrite H2. reflexivity.
Qed.

Lemma nif_md_a : forall fuel cl ck sz names msgs off ls le fs lg,
  non_idle_fsm (S fuel) (Some (PMetadata hA cl ck sz names msgs)) (DA off ls le fs lg) = (DA off ls le fs lg, Ok tt).
Proof.
  intros. cbn [non_idle_fsm].
  rewrite (b_ok _ _ _ _ _ (fsm_adv_nop_a (DA off ls le fs lg) eq_refl ltac:(discriminate))).
  unfold DA, dstA, dpA, hB. mrun. reflexivity.
Qed.

Lemma sm_md_a : forall msgs,
  Dest.state_machine (Some (PMetadata hA clo ckt fsz (Some (sn, dn)) msgs)) (dinit cd t0) =
    (DA 0 0 0 (set_node t0 fn (File [])) [EvMetadataRecv srcid seq srcid (Some fsz) (Some (sn, dn)) msgs], Ok tt).
Proof.
  intros msgs. unfold Dest.state_machine.
  assert (C : check_inserted_packet (PMetadata hA clo ckt fsz (Some (sn, dn)) msgs) (dinit cd t0) = (dinit cd t0, Ok tt)).
  { apply check_a; [reflexivity|reflexivity|left; split; [reflexivity|repeat eexists]]. }
  rewrite (b_ok _ _ _ _ _ C).
  unfold catch_abandoned; apply catch_ok.
  unfold dinit at 1. mrun. fold (dinit cd t0).
  rewrite (b_ok _ _ _ _ _ (idle_md_a msgs)).
  unfold DA at 1, dstA, dpA, hB. mrun.
  apply nif_md_a.
Qed.

Lemma handle_fd_run_a : forall off ls data fs lg old, lookup fs fn = Some (File old) -> 0 < zlen data ->
  handle_fd_pdu off data (DA off ls off fs lg) =
    (DA (Z.max (off + zlen data) off) off (off + zlen data) (set_node fs fn (File (write_at old off data)))
            (if l_ind_seg cd then EvSegmentRecv srcid seq off (zlen data) :: lg else lg), Ok tt).
Proof.
  intros off ls data fs lg old Hl Hpos. unfold handle_fd_pdu, DA, dstA, dpA, hB, fin0. mrun.
  assert (E1 : (off + zlen data <=? off) = false) by (apply Z.leb_gt; lia).
  destruct (l_ind_seg cd); mrun; apply catch_ok; mrun; unfold lost_segment_handling; mrun;
    rewrite Z.ltb_irrefl; mrun; rewrite Z.leb_refl; mrun; rewrite E1; mrun;
    unfold vfs_write; mrun; cbn [e_fs]; unfold fs_write_data; rewrite Hl; cbv iota; mrun; reflexivity.
Qed.

Lemma nif_fd_a : forall fuel off ls data fs lg old, lookup fs fn = Some (File old) -> 0 < zlen data ->
  non_idle_fsm (S fuel) (Some (PFileData hA off data)) (DA off ls off fs lg) =
    (DA (Z.max (off + zlen data) off) off (off + zlen data) (set_node fs fn (File (write_at old off data)))
            (if l_ind_seg cd then EvSegmentRecv srcid seq off (zlen data) :: lg else lg), Ok tt).
Proof.
  intros fuel off ls data fs lg old Hl Hpos. cbn [non_idle_fsm].
  rewrite (b_ok _ _ _ _ _ (fsm_adv_nop_a (DA off ls off fs lg) eq_refl ltac:(discriminate))).
  unfold DA at 1, dstA, dpA, hB. mrun. fold hB. fold (dpA fin0 off [] None ls off None).
  fold (dstA DS_RECEIVING_FILE_DATA 0 [] (dpA fin0 off [] None ls off None) fs lg). fold (DA off ls off fs lg).
  rewrite (b_ok _ _ _ _ _ (handle_fd_run_a off ls data fs lg old Hl Hpos)).
  unfold DA, dstA, dpA, hB. mrun. reflexivity.
Qed.

Lemma sm_fd_a : forall off ls data fs lg old, lookup fs fn = Some (File old) -> 0 < zlen data ->
  Dest.state_machine (Some (PFileData hA off data)) (DA off ls off fs lg) =
    (DA (Z.max (off + zlen data) off) off (off + zlen data) (set_node fs fn (File (write_at old off data)))
            (if l_ind_seg cd then EvSegmentRecv srcid seq off (zlen data) :: lg else lg), Ok tt).
Proof.
  intros off ls data fs lg old Hl Hpos. unfold Dest.state_machine.
  assert (C : check_inserted_packet (PFileData hA off data) (DA off ls off fs lg) = (DA off ls off fs lg, Ok tt)).
  { apply check_a; [reflexivity|reflexivity|right; split; [reflexivity|split; reflexivity]]. }
  rewrite (b_ok _ _ _ _ _ C).
  unfold catch_abandoned; apply catch_ok.
  unfold DA at 1, dstA, dpA, hB. mrun.
  apply nif_fd_a; assumption.
Qed.

(* after the EOF PDU: ACK(EOF) queued *)
Definition ackE : pdu := PAck hB D_EOF C_NO_ERROR TS_ACTIVE.
Definition DE (ready : Z) (q : list pdu) (ck : bytes) (ls : Z) (fs : tree) (lg : list event) : dst :=
  dstA DS_SENDING_EOF_ACK ready q (dpA fin0 fsz ck (Some fsz) ls fsz None) fs lg.

Lemma nif_eof_a : forall fuel cks fl ls fs lg,
  non_idle_fsm (S fuel) (Some (PEof hA C_NO_ERROR cks fsz fl)) (DA fsz ls fsz fs lg) =
    (DE 1 [ackE] cks ls fs ((if l_ind_eof_recv cd then [EvEofRecv srcid seq] else []) ++ lg), Ok tt).
Proof.
  intros fuel cks fl ls fs lg. cbn [non_idle_fsm].
  rewrite (b_ok _ _ _ _ _ (fsm_adv_nop_a (DA fsz ls fsz fs lg) eq_refl ltac:(discriminate))).
  unfold DA at 1, dstA, dpA, hB, fin0. mrun. unfold handle_eof_pdu. mrun.
  destruct (l_ind_eof_recv cd); unfold tid_or_assert; mrun;
  unfold handle_no_error_eof; mrun; dpr; rewrite Z.ltb_irrefl; cbn [andb]; mrun;
  unfold file_transfer_complete_transition; mrun; unfold prepare_eof_ack_packet, conf, add_packet; mrun;
  reflexivity.
Qed.

Lemma sm_eof_a : forall cks fl ls fs lg,
  Dest.state_machine (Some (PEof hA C_NO_ERROR cks fsz fl)) (DA fsz ls fsz fs lg) =
    (DE 1 [ackE] cks ls fs ((if l_ind_eof_recv cd then [EvEofRecv srcid seq] else []) ++ lg), Ok tt).
Proof.
  intros cks fl ls fs lg. unfold Dest.state_machine.
  assert (C : check_inserted_packet (PEof hA C_NO_ERROR cks fsz fl) (DA fsz ls fsz fs lg) = (DA fsz ls fsz fs lg, Ok tt)).
  { apply check_a; [reflexivity|reflexivity|right; split; [reflexivity|split; reflexivity]]. }
  rewrite (b_ok _ _ _ _ _ C).
  unfold catch_abandoned; apply catch_ok.
  unfold DA at 1, dstA, dpA, hB. mrun.
  apply nif_eof_a.
Qed.

(* the next call: checksum verified, transfer complete, Finished PDU queued, Positive-ACK timer started *)
Definition finP : pdu := PFinished hB C_NO_ERROR DATA_COMPLETE FS_RETAINED None.
Definition DW (ready : Z) (q : list pdu) (ck : bytes) (ls : Z) (fs : tree) (lg : list event) : dst :=
  dstA DS_WAITING_FOR_FINISHED_ACK ready q (dpA fin1 fsz ck (Some fsz) ls fsz (Some (0, r_ack_ms rd))) fs lg.

Lemma timer_fresh : forall n tmo, 0 < tmo -> timed_out n (n, tmo) = false.
Proof. intros n tmo H. unfold timed_out. cbn [fst snd]. rewrite Z.sub_diag. apply Z.leb_gt. exact H. Qed.

Lemma nif_complete : forall fuel cks ls fs lg data,
  lookup fs fn = Some (File data) -> calculate_checksum ckt (Some data) fsz 4096 = Ok cks ->
  non_idle_fsm (S fuel) None (DE 0 [] cks ls fs lg) =
    (DW 1 [finP] cks ls fs (EvFinished srcid seq C_NO_ERROR DATA_COMPLETE FS_RETAINED None :: lg), Ok tt).
Proof.
  intros fuel cks ls fs lg data Hl Hck. cbn [non_idle_fsm].
  unfold DE at 1, dstA, dpA, hB, fin0.
  unfold fsm_advancement at 1. mrun.
  unfold checksum_verify; mrun; dpr;
  (destruct (ckt =? CK_NULL) eqn:Eck; cbn [orb]; mrun;
   [| unfold vfs_checksum; mrun; rewrite Eck; mrun; rewrite Hl, Hck; cbv iota; mrun; rewrite bytes_eqb_refl; dpr; rewrite Z.leb_refl; cbn [andb]; mrun]);
  unfold handle_transfer_completion, notice_of_completion; mrun; rewrite Hfin; mrun; dpr; mrun;
  unfold prepare_finished_pdu, conf, add_packet; mrun;
  unfold handle_finished_pdu_sent; mrun; unfold start_positive_ack_procedure, rcfg_or_assert, now; mrun;
  unfold handle_waiting_for_finished_ack, handle_positive_ack_procedures, rcfg_or_assert, now; mrun;
  rewrite (timer_fresh 0 (r_ack_ms rd) Hack); reflexivity.
Qed.

Lemma dsm_busy_none : forall s, d_state s = ST_BUSY ->
  Dest.state_machine None s = catch_abandoned (non_idle_fsm 3 None) s.
Proof.
  intros s H. unfold Dest.state_machine, catch_abandoned, catch, get, bind, ret, when. rewrite H.
  change (ST_BUSY =? ST_IDLE) with false. cbv beta iota. rewrite H. reflexivity.
Qed.

Lemma sm_complete : forall cks ls fs lg data,
  lookup fs fn = Some (File data) -> calculate_checksum ckt (Some data) fsz 4096 = Ok cks ->
  Dest.state_machine None (DE 0 [] cks ls fs lg) =
    (DW 1 [finP] cks ls fs (EvFinished srcid seq C_NO_ERROR DATA_COMPLETE FS_RETAINED None :: lg), Ok tt).
Proof.
  intros cks ls fs lg data Hl Hck. rewrite dsm_busy_none by reflexivity.
  unfold catch_abandoned; apply catch_ok. eapply nif_complete; eassumption.
Qed.

(* ACK(Finished) arrives: back to IDLE *)
Lemma sm_ack_fin : forall cond st cks ls fs lg,
  Dest.state_machine (Some (PAck hA D_FINISHED cond st)) (DW 0 [] cks ls fs lg) = (dfinal cd srcid seq fs lg, Ok tt).
Proof.
  intros cond st cks ls fs lg. unfold Dest.state_machine.
  assert (C : check_inserted_packet (PAck hA D_FINISHED cond st) (DW 0 [] cks ls fs lg) = (DW 0 [] cks ls fs lg, Ok tt)).
  { apply check_a; [reflexivity|reflexivity|right; split; [reflexivity|split; reflexivity]]. }
  rewrite (b_ok _ _ _ _ _ C).
  unfold catch_abandoned; apply catch_ok.
  unfold DW at 1, dstA, dpA, hB, fin1. mrun. change 3%nat with (S 2). cbn [non_idle_fsm].
  unfold fsm_advancement at 1. mrun.
  unfold handle_waiting_for_finished_ack, reset_internal. mrun. reflexivity.
Qed.

(* a call on the idle handler *)
Lemma sm_idle_none : forall fs lg,
  Dest.state_machine None (dfinal cd srcid seq fs lg) = (dfinal cd srcid seq fs lg, Ok tt).
Proof. intros fs lg. unfold Dest.state_machine, dfinal. mrun.
  unfold catch_abandoned; apply catch_ok. mrun. unfold idle_fsm. mrun. reflexivity. Qed.
End ReceiverA.
Local Opaque state_machine_s Dest.state_machine.
Section SysA.
Variables (cs cd : lcfg) (p : putreq) (rs rd : rcfg) (sn : path) (t0 : tree) (dn fn : path) (data cks : bytes) (cf : sconf)
          (seg tick : Z) (clo : bool).
Variable fss : tree.
Hypothesis Hnames : pr_names p = Some (sn, dn).
Hypothesis Hlook : lookup fss sn = Some (File data).
Hypothesis Hseg : 1 <= seg.
Hypothesis Hm : sc_mode cf = ACKED.
Hypothesis Hck : calculate_checksum (r_cktype rs) (Some data) (zlen data) seg = Ok cks.
Hypothesis Hck2 : calculate_checksum (r_cktype rs) (Some data) (zlen data) 4096 = Ok cks.
Hypothesis Hfins : l_ind_fin cs = true.
Hypothesis Hfind : l_ind_fin cd = true.
Hypothesis Hrem : get_remote (l_remotes cd) (sc_src cf) = Some rd.
Hypothesis Hdst : sc_dst cf = l_id cd.
Hypothesis Hacks : 0 < r_ack_ms rs.
Hypothesis Hackd : 0 < r_ack_ms rd.
Hypothesis Hsrc : sc_src cf = l_id cs.
Hypothesis Hdstr : sc_dst cf = r_id rs.
Hypothesis Hfn : fn = dest_name t0 sn dn.
Hypothesis Hw : dest_writable t0 fn.

Definition tidA : Z * Z := (sc_src cf, sc_seq cf).
Definition hRA : hdr := hA cd (sc_crc cf) (sc_large cf) (sc_src cf) (sc_srcw cf) (sc_seq cf) (sc_seqw cf).
Definition hRB : hdr := hB cd (sc_crc cf) (sc_large cf) (sc_src cf) (sc_srcw cf) (sc_seq cf) (sc_seqw cf).
Definition DSA : Z -> Z -> Z -> tree -> list event -> dst :=
  DA cd rd fn (sc_crc cf) (sc_large cf) clo (sc_src cf) (sc_srcw cf) (sc_seq cf) (sc_seqw cf) (r_cktype rs) (zlen data).
Definition DSE : Z -> list pdu -> bytes -> Z -> tree -> list event -> dst :=
  DE cd rd fn (sc_crc cf) (sc_large cf) clo (sc_src cf) (sc_srcw cf) (sc_seq cf) (sc_seqw cf) (r_cktype rs) (zlen data).
Definition DSW : Z -> list pdu -> bytes -> Z -> tree -> list event -> dst :=
  DW cd rd fn (sc_crc cf) (sc_large cf) clo (sc_src cf) (sc_srcw cf) (sc_seq cf) (sc_seqw cf) (r_cktype rs) (zlen data).
Definition DFA (fs : tree) (lg : list event) : dst := dfinal cd (sc_src cf) (sc_seq cf) fs lg.
Definition ackEA : pdu := PAck hRB D_EOF C_NO_ERROR TS_ACTIVE.
Definition finPA : pdu := PFinished hRB C_NO_ERROR DATA_COMPLETE FS_RETAINED None.

Lemma hdr_eq_a : hdr_of cf TOWARDS_RECEIVER = hRA.
Proof. unfold hdr_of, hRA, hA. rewrite Hm, Hdst. reflexivity. Qed.
Lemma hdr_eq_b : hdr_of cf TOWARDS_SENDER = hRB.
Proof. unfold hdr_of, hRB, hB. rewrite Hm, Hdst. reflexivity. Qed.

Definition SInvA (off : Z) (y : sys) : Prop :=
  exists s ls fs lg c1 c2 rnd scur dcur sdone ddone,
    y = Y s (DSA off ls off fs lg) c1 c2 rnd scur dcur sdone ddone /\
    InvA cs p rs fss data cf seg clo tidA off s /\
    At t0 fn fs (ztake off data) /\ clean lg.

(* delivery guards of the surrounding entity: the busy receiver serves this transaction *)
Lemma guard_busy_a : forall pkt dd ddone, pdu_hdr pkt = hRA -> d_state dd = ST_BUSY ->
  p_tid (d_p dd) = Some (sc_src cf, sc_seq cf) ->
  (d_state dd =? ST_IDLE) && tid_mem (h_src (pdu_hdr pkt), h_seq (pdu_hdr pkt)) ddone = false /\
  (d_state dd =? ST_BUSY) &&
    match p_tid (d_p dd) with
    | Some t => negb (tid_eqb (h_src (pdu_hdr pkt), h_seq (pdu_hdr pkt)) t) | None => false end = false.
Proof.
  intros pkt dd ddone H Hs Ht. rewrite H, Hs, Ht. split; [reflexivity|].
  unfold hRA, hA, tid_eqb. cbn [h_src h_seq fst snd].
  rewrite !Z.eqb_refl. reflexivity.
Qed.

(* a File Data round *)
Lemma round_fd_a : forall off y, SInvA off y -> off < zlen data ->
  exists y' a, step_round y = (y', a) /\ 0 < a /\ quiescent y' = false /\
               SInvA (off + Z.min seg (zlen data - off)) y'.
Proof.
  intros off y (s & ls & fs & lg & c1 & c2 & rnd & scur & dcur & sdone & ddone & -> & HI & Hl & Hc) Hlt.
  pose proof (InvA_range _ _ _ _ _ _ _ _ _ _ _ HI) as Hr.
  destruct (step_fd_a cs p rs fss data cf seg clo tidA sn dn Hnames Hlook Hseg Hm off s HI Hlt) as (s' & P & HI').
  unfold fd_of in P. cbn [fst snd] in P. rewrite hdr_eq_a in P.
  set (tile := ztake seg (zdrop off data)) in *.
  assert (Htl : zlen tile = Z.min seg (zlen data - off)) by (apply tile_len; lia).
  assert (How : on_wire (PFileData hRA off tile) = Some (PFileData hRA off tile)).
  { destruct tile; [change (zlen (@nil Z)) with 0 in Htl; lia | reflexivity]. }
  destruct (guard_busy_a (PFileData hRA off tile) (DSA off ls off fs lg) ddone eq_refl eq_refl eq_refl) as [G1 G2].
  pose proof (sm_fd_a cd rd fn (sc_crc cf) (sc_large cf) clo (sc_src cf) (sc_srcw cf) (sc_seq cf) (sc_seqw cf)
                (r_cktype rs) (zlen data) Hrem off ls tile fs lg _ (proj1 Hl) ltac:(lia)) as Hsm.
  fold hRA in Hsm. rewrite Z.max_l in Hsm by lia. rewrite Htl in Hsm.
  destruct (round_generic s s' _ _ _ c1 c2 rnd scur dcur sdone ddone P How G1 G2 Hsm eq_refl)
    as (c1' & scur' & dcur' & sdone' & ddone' & a & R & Ha).
  eexists. exists a. split; [exact R|]. split; [exact Ha|]. split.
  - unfold quiescent, Y. cbn [y_src]. rewrite (InvA_busy _ _ _ _ _ _ _ _ _ _ _ HI'). reflexivity.
  - do 11 eexists. split; [reflexivity|]. split; [exact HI'|]. split.
    + eapply At_set; [exact (writable_ne _ _ Hw) | exact Hl | apply write_append; lia].
    + destruct (l_ind_seg cd); [apply clean_cons; [reflexivity|reflexivity|exact Hc] | exact Hc].
Qed.

(* the Metadata round *)
Lemma round_md_a : forall s1 s3 c1 c2 rnd,
  pump s1 = (s3, Ok [PMetadata (hdr_of cf TOWARDS_RECEIVER) clo (r_cktype rs) (zlen data) (Some (sn, dn)) []]) ->
  InvA cs p rs fss data cf seg clo tidA 0 s3 ->
  exists y' a, step_round (Y s1 (dinit cd t0) c1 c2 rnd None None [] []) = (y', a) /\ 0 < a /\
               quiescent y' = false /\ SInvA 0 y'.
Proof.
  intros s1 s3 c1 c2 rnd P HI. rewrite hdr_eq_a in P.
  pose proof (sm_md_a cd rd t0 sn dn fn (sc_crc cf) (sc_large cf) clo (sc_src cf) (sc_srcw cf) (sc_seq cf) (sc_seqw cf)
                (r_cktype rs) (zlen data) Hrem Hfn Hw []) as Hsm.
  fold hRA in Hsm.
  destruct (round_generic s1 s3 _ (dinit cd t0) _ c1 c2 rnd None None [] [] P eq_refl eq_refl eq_refl Hsm eq_refl)
    as (c1' & scur' & dcur' & sdone' & ddone' & a & R & Ha).
  eexists. exists a. split; [exact R|]. split; [exact Ha|]. split.
  - unfold quiescent, Y. cbn [y_src]. rewrite (InvA_busy _ _ _ _ _ _ _ _ _ _ _ HI). reflexivity.
  - do 11 eexists. split; [reflexivity|]. split; [exact HI|]. split.
    + exact (At_init t0 fn (writable_ne _ _ Hw)).
    + apply clean_cons; [reflexivity|reflexivity|apply clean_nil].
Qed.

(* ---- the tail of the acknowledged protocol *)
Definition evFinD : event := EvFinished (sc_src cf) (sc_seq cf) C_NO_ERROR DATA_COMPLETE FS_RETAINED None.

(* after the EOF round: ACK(EOF) in flight *)
Definition S1 (y : sys) : Prop :=
  exists s ls fs lg c1 c2 rnd scur dcur sdone ddone,
    y = Y2 s (DSE 0 [] cks ls fs lg) [ackEA] c1 c2 rnd scur dcur sdone ddone /\
    Tail cs p rs cf tidA SS_WAITING_FOR_EOF_ACK None s /\
    At t0 fn fs data /\ clean lg.
(* after the next round: Finished in flight *)
Definition S2 (y : sys) : Prop :=
  exists s ls fs lg c1 c2 rnd scur dcur sdone ddone,
    y = Y2 s (DSW 0 [] cks ls fs (evFinD :: lg)) [finPA] c1 c2 rnd scur dcur sdone ddone /\
    Tail cs p rs cf tidA SS_WAITING_FOR_FINISHED None s /\
    At t0 fn fs data /\ clean lg.
(* after the next round: the receiver is done, the sender has sent ACK(Finished) *)
Definition S3 (y : sys) : Prop :=
  exists s fs lg c1 c2 rnd scur dcur sdone ddone,
    y = Y s (DFA fs (evFinD :: lg)) c1 c2 rnd scur dcur sdone ddone /\
    Tail cs p rs cf tidA SS_SENDING_ACK_OF_FINISHED (Some (C_NO_ERROR, DATA_COMPLETE, FS_RETAINED, None)) s /\
    At t0 fn fs data /\ clean lg.

Lemma Tail_busy : forall st qf s, Tail cs p rs cf tidA st qf s -> s_state s = ST_BUSY.
Proof. intros st qf s (_&H&_). exact H. Qed.

Lemma round_eof_a : forall y, SInvA (zlen data) y ->
  exists y' a, step_round y = (y', a) /\ 0 < a /\ quiescent y' = false /\ S1 y'.
Proof.
  intros y (s & ls & fs & lg & c1 & c2 & rnd & scur & dcur & sdone & ddone & -> & HI & Hl & Hc).
  destruct (step_final_a cs p rs fss data cks cf seg clo tidA sn dn Hnames Hlook Hm Hck Hacks s HI)
    as (s' & P & HT).
  rewrite hdr_eq_a in P. rewrite ztake_all in Hl.
  destruct (guard_busy_a (PEof hRA C_NO_ERROR cks (zlen data) None) (DSA (zlen data) ls (zlen data) fs lg) ddone
              eq_refl eq_refl eq_refl) as [G1 G2].
  pose proof (sm_eof_a cd rd fn (sc_crc cf) (sc_large cf) clo (sc_src cf) (sc_srcw cf) (sc_seq cf) (sc_seqw cf)
                (r_cktype rs) (zlen data) Hrem cks None ls fs lg) as Hsm.
  fold hRA in Hsm.
  set (lg' := (if l_ind_eof_recv cd then [EvEofRecv (sc_src cf) (sc_seq cf)] else []) ++ lg) in *.
  change (Dest.state_machine (Some (PEof hRA C_NO_ERROR cks (zlen data) None)) (DSA (zlen data) ls (zlen data) fs lg) =
          (DSE 1 [ackEA] cks ls fs lg', Ok tt)) in Hsm.
  assert (Hdr : drain_d (DSE 1 [ackEA] cks ls fs lg') = (DSE 0 [] cks ls fs lg', [ackEA])) by reflexivity.
  assert (How : on_wire (PEof hRA C_NO_ERROR cks (zlen data) None) = Some (PEof hRA C_NO_ERROR cks (zlen data) None))
    by reflexivity.
  assert (How2 : on_wire ackEA = Some ackEA) by reflexivity.
  destruct (call_src_pump s s' _ (DSA (zlen data) ls (zlen data) fs lg) [] [] c1 c2 (rnd + 1) scur dcur sdone ddone P)
    as (scur' & sdone' & E).
  destruct (call_dst_emit _ _ _ s' [] [] (c1 + 1) c2 (rnd + 1) scur' dcur sdone' ddone Hsm) as (dcur' & ddone' & E2).
  eexists. eexists.
  rewrite step_round_Y. unfold Y. cbv zeta. rewrite E.
  cbn [flat_map app]. unfold ow. rewrite How. cbn [app]. rewrite emit_one.
  ypr. cbn [app]. rewrite deliver_all_one. rewrite deliver_to_dest_pass by assumption. rewrite E2.
  rewrite Hdr. cbn [fst snd flat_map app]. unfold ow. rewrite How2. cbn [app]. rewrite emit_one_d. ypr. cbn [app].
  split; [reflexivity|]. split; [|split].
  - change (zlen [PEof hRA C_NO_ERROR cks (zlen data) None]) with 1. change (zlen [ackEA]) with 1.
    destruct ((s_state s =? s_state s') && (s_step s =? s_step s')); lia.
  - unfold quiescent. cbn [y_src]. rewrite (Tail_busy _ _ _ HT). reflexivity.
  - do 11 eexists. split; [reflexivity|]. split; [exact HT|]. split; [exact Hl|].
    apply clean_app; [|exact Hc].
    destruct (l_ind_eof_recv cd); [apply clean_cons; [reflexivity|reflexivity|apply clean_nil] | apply clean_nil].
Qed.

(* ACK(EOF) reaches the sender; the receiver completes the transfer and emits the Finished PDU *)
Lemma round_ack_eof : forall y, S1 y ->
  exists y' a, step_round y = (y', a) /\ 0 < a /\ quiescent y' = false /\ S2 y'.
Proof.
  intros y (s & ls & fs & lg & c1 & c2 & rnd & scur & dcur & sdone & ddone & -> & HT & Hl & Hc).
  destruct (step_ack_eof cs p rs cf tidA Hm Hsrc Hdstr s C_NO_ERROR TS_ACTIVE HT) as (s' & P & HT').
  rewrite hdr_eq_b in P. fold ackEA in P.
  pose proof (sm_complete cd rd fn (sc_crc cf) (sc_large cf) clo (sc_src cf) (sc_srcw cf) (sc_seq cf) (sc_seqw cf)
                (r_cktype rs) (zlen data) Hfind Hackd cks ls fs lg data (proj1 Hl) Hck2) as Hsm.
  change (Dest.state_machine None (DSE 0 [] cks ls fs lg) = (DSW 1 [finPA] cks ls fs (evFinD :: lg), Ok tt)) in Hsm.
  assert (Hdr : drain_d (DSW 1 [finPA] cks ls fs (evFinD :: lg)) = (DSW 0 [] cks ls fs (evFinD :: lg), [finPA]))
    by reflexivity.
  assert (How2 : on_wire finPA = Some finPA) by reflexivity.
  destruct (call_src_pw _ s s' _ (DSE 0 [] cks ls fs lg) [] [] c1 c2 (rnd + 1) scur dcur sdone ddone P)
    as (scur' & sdone' & E).
  destruct (call_dst_emit _ _ _ s' [] [] c1 c2 (rnd + 1) scur' dcur sdone' ddone Hsm) as (dcur' & ddone' & E2).
  eexists. eexists.
  rewrite step_round_Y2. unfold Y. cbv zeta. rewrite deliver_all_one.
  rewrite deliver_to_source_busy by exact (Tail_busy _ _ _ HT). rewrite E.
  cbn [flat_map emit_pdus]. ypr. cbn [deliver_all]. rewrite E2.
  rewrite Hdr. cbn [fst snd flat_map app]. unfold ow. rewrite How2. cbn [app]. rewrite emit_one_d. ypr. cbn [app].
  split; [reflexivity|]. split; [|split].
  - change (zlen (@nil pdu)) with 0. change (zlen [finPA]) with 1.
    match goal with |- 0 < _ + (if ?b then 0 else 1) => destruct b end; lia.
  - unfold quiescent. cbn [y_src]. rewrite (Tail_busy _ _ _ HT'). reflexivity.
  - do 11 eexists. split; [reflexivity|]. split; [exact HT'|]. split; [exact Hl|exact Hc].
Qed.

(* the Finished PDU reaches the sender, its ACK reaches the receiver *)
Lemma round_finished : forall y, S2 y ->
  exists y' a, step_round y = (y', a) /\ 0 < a /\ quiescent y' = false /\ S3 y'.
Proof.
  intros y (s & ls & fs & lg & c1 & c2 & rnd & scur & dcur & sdone & ddone & -> & HT & Hl & Hc).
  destruct (step_finished cs p rs cf tidA Hm Hsrc Hdstr s FS_RETAINED HT) as (s' & P & HT').
  rewrite hdr_eq_b, hdr_eq_a in P. fold finPA in P.
  set (ackF := PAck hRA D_FINISHED C_NO_ERROR TS_ACTIVE) in *.
  pose proof (sm_ack_fin cd rd fn (sc_crc cf) (sc_large cf) clo (sc_src cf) (sc_srcw cf) (sc_seq cf) (sc_seqw cf)
                (r_cktype rs) (zlen data) Hrem C_NO_ERROR TS_ACTIVE cks ls fs (evFinD :: lg)) as Hsm.
  change (Dest.state_machine (Some ackF) (DSW 0 [] cks ls fs (evFinD :: lg)) = (DFA fs (evFinD :: lg), Ok tt)) in Hsm.
  assert (How : on_wire ackF = Some ackF) by reflexivity.
  destruct (guard_busy_a ackF (DSW 0 [] cks ls fs (evFinD :: lg)) ddone eq_refl eq_refl eq_refl) as [G1 G2].
  destruct (call_src_pw _ s s' _ (DSW 0 [] cks ls fs (evFinD :: lg)) [] [] c1 c2 (rnd + 1) scur dcur sdone ddone P)
    as (scur' & sdone' & E).
  destruct (call_dst_ok _ _ _ s' [] [] (c1 + 1) c2 (rnd + 1) scur' dcur sdone' ddone Hsm eq_refl) as (dcur' & ddone' & E2).
  eexists. eexists.
  rewrite step_round_Y2. unfold Y. cbv zeta. rewrite deliver_all_one.
  rewrite deliver_to_source_busy by exact (Tail_busy _ _ _ HT). rewrite E.
  cbn [flat_map app]. unfold ow. rewrite How. cbn [app]. rewrite emit_one.
  ypr. cbn [app]. rewrite deliver_all_one. rewrite deliver_to_dest_pass by assumption. rewrite E2. ypr.
  split; [reflexivity|]. split; [|split].
  - change (zlen [ackF]) with 1. lia.
  - unfold quiescent. cbn [y_src]. rewrite (Tail_busy _ _ _ HT'). reflexivity.
  - do 10 eexists. split; [reflexivity|]. split; [exact HT'|]. split; [exact Hl|exact Hc].
Qed.

(* what the verdict looks at, after the last round *)
Definition FinalA (y : sys) : Prop :=
  exists s fs lgs lgd c1 c2 rnd scur dcur sdone ddone,
    y = Y s (DFA fs (evFinD :: lgd)) c1 c2 rnd scur dcur sdone ddone /\
    e_log (s_env s) = EvFinished (sc_src cf) (sc_seq cf) C_NO_ERROR DATA_COMPLETE FS_RETAINED None :: lgs /\
    clean lgs /\ clean lgd /\ At t0 fn fs data.

(* the last round: the sender issues its Transaction-Finished indication; both handlers idle *)
Lemma round_done : forall y, S3 y ->
  exists y' a, step_round y = (y', a) /\ quiescent y' = true /\ FinalA y'.
Proof.
  intros y (s & fs & lg & c1 & c2 & rnd & scur & dcur & sdone & ddone & -> & HT & Hl & Hc).
  destruct (step_done cs p rs cf tidA Hfins s FS_RETAINED HT) as (s' & lg0 & P & Hst & Hlog & Hc0).
  pose proof (sm_idle_none cd (sc_src cf) (sc_seq cf) fs (evFinD :: lg)) as Hsm. fold (DFA fs (evFinD :: lg)) in Hsm.
  destruct (call_src_pump s s' _ (DFA fs (evFinD :: lg)) [] [] c1 c2 (rnd + 1) scur dcur sdone ddone P)
    as (scur' & sdone' & E).
  destruct (call_dst_ok _ _ _ s' [] [] c1 c2 (rnd + 1) scur' dcur sdone' ddone Hsm eq_refl) as (dcur' & ddone' & E2).
  eexists. eexists.
  rewrite step_round_Y. unfold Y. cbv zeta. rewrite E.
  cbn [flat_map emit_pdus]. ypr. cbn [deliver_all]. rewrite E2. ypr.
  split; [reflexivity|]. split.
  - unfold quiescent. cbn [y_src y_dst y_s2d y_d2s y_delayed]. rewrite Hst. reflexivity.
  - do 11 eexists. split; [reflexivity|]. split; [exact Hlog|]. split; [exact Hc0|]. split; [exact Hc|exact Hl].
Qed.

Ltac run_step R Q Ha :=
  rewrite run_S, R; cbv iota beta; rewrite Q;
  match type of Ha with 0 < ?a => replace (a =? 0) with false by (symmetry; apply Z.eqb_neq; lia) end.

(* EOF, ACK(EOF), Finished + ACK(Finished), completion: four rounds *)
Lemma run_tail : forall k y, SInvA (zlen data) y ->
  exists y', run (4 + k) tick y = (y', true) /\ FinalA y'.
Proof.
  intros k y HS.
  destruct (round_eof_a y HS) as (y1 & a1 & R1 & Ha1 & Q1 & H1).
  destruct (round_ack_eof y1 H1) as (y2 & a2 & R2 & Ha2 & Q2 & H2).
  destruct (round_finished y2 H2) as (y3 & a3 & R3 & Ha3 & Q3 & H3).
  destruct (round_done y3 H3) as (y4 & a4 & R4 & Q4 & H4).
  exists y4. split; [|exact H4].
  change (4 + k)%nat with (S (S (S (S k)))).
  run_step R1 Q1 Ha1. run_step R2 Q2 Ha2. run_step R3 Q3 Ha3.
  rewrite run_S, R4. cbv iota beta. rewrite Q4. reflexivity.
Qed.

(* all rounds after the Metadata round *)
Lemma run_rest_a : forall n off y, SInvA off y -> (length (zdrop off data) <= n)%nat ->
  exists y', run (4 + n) tick y = (y', true) /\ FinalA y'.
Proof.
  induction n as [|n IH]; intros off y HS Hn.
  - assert (Hr : 0 <= off <= zlen data).
    { destruct HS as (s & ls & fs & lg & c1 & c2 & rnd & scur & dcur & sdone & ddone & _ & HI & _).
      exact (InvA_range _ _ _ _ _ _ _ _ _ _ _ HI). }
    assert (Hz : zlen (zdrop off data) = 0) by (unfold zlen; lia).
    rewrite zlen_zdrop in Hz by lia. assert (off = zlen data) by lia. subst off.
    apply run_tail. exact HS.
  - assert (Hr : 0 <= off <= zlen data).
    { destruct HS as (s & ls & fs & lg & c1 & c2 & rnd & scur & dcur & sdone & ddone & _ & HI & _).
      exact (InvA_range _ _ _ _ _ _ _ _ _ _ _ HI). }
    destruct (Z.eq_dec off (zlen data)) as [He|He].
    + subst off. apply run_tail. exact HS.
    + assert (Hlt : off < zlen data) by lia.
      destruct (round_fd_a off y HS Hlt) as (y1 & a & R & Ha & Q & HS').
      set (off' := off + Z.min seg (zlen data - off)) in *.
      assert (Hn' : (length (zdrop off' data) <= n)%nat).
      { assert (Hz : zlen (zdrop off data) = Z.max 0 (zlen data - off)) by (apply zlen_zdrop; lia).
        assert (Hz' : zlen (zdrop off' data) = Z.max 0 (zlen data - off')) by (apply zlen_zdrop; unfold off'; lia).
        unfold zlen in Hz, Hz'. unfold off' in *. lia. }
      destruct (IH off' y1 HS' Hn') as (y' & Rr & F).
      exists y'. split; [|exact F].
      change (4 + S n)%nat with (S (4 + n)).
      run_step R Q Ha. exact Rr.
Qed.
End SysA.

Lemma final_verdict_a : forall cd t0 fn data cf y,
  FinalA cd t0 fn data cf y ->
  fault_free_ok fn data (y, true) = true /\ frame_ok t0 (e_fs (d_env (y_dst y))) fn.
Proof.
  intros cd t0 fn data cf y (s & fs & lgs & lgd & c1 & c2 & rnd & scur & dcur & sdone & ddone & -> & Hs & HS & HD & Hl).
  eapply verdict_gen; [reflexivity | exact Hs | reflexivity | exact HS | exact HD | exact Hl].
Qed.

Lemma acked_perfect_link_fs :
  forall (cs cd : lcfg) (seq0 bits : Z) (p : putreq) (rs rd : rcfg) (sn dn : path) (data : bytes) (t0 : tree) (tick : Z),
  let w := Z.max (l_idw cs) (pr_dstw p) in
  let large := 4294967295 <? zlen data in
  let derived := r_max_packet rs - (4 + 2 * w + bits / 8) - (if large then 8 else 4) - (if r_crc rs then 2 else 0) in
  let seg := match r_max_seg rs with Some m => Z.min m derived | None => derived end in
  let fn := dest_name t0 sn dn in
  get_remote (l_remotes cs) (pr_dst p) = Some rs ->
  pr_names p = Some (sn, dn) -> sn <> [] -> pr_msgs p = None ->
  (match pr_mode p with Some m => m | None => r_mode rs end) = ACKED ->
  0 < r_ack_ms rs -> 0 < r_ack_ms rd ->
  (bits = 8 \/ bits = 16 \/ bits = 32) -> 0 <= seq0 < 2 ^ bits -> 1 <= seg -> 6 <= derived ->
  (r_cktype rs = CK_CRC32 \/ r_cktype rs = CK_CRC32C \/ r_cktype rs = CK_NULL \/ r_cktype rs = CK_MODULAR) ->
  l_id cd = pr_dst p -> get_remote (l_remotes cd) (l_id cs) = Some rd ->
  dest_writable t0 fn ->
  l_ind_fin cs = true -> l_ind_fin cd = true ->
  exists fuel,
    let res := transfer_fs cs cd seq0 bits p sn data t0 [] fuel tick in
    fault_free_ok fn data res = true /\ frame_ok t0 (e_fs (d_env (y_dst (fst res)))) fn.
Proof.
  intros cs cd seq0 bits p rs rd sn dn data t0 tick w large derived seg fn
         Hrs Hn Hsn Hmsgs Hmode Hacks Hackd Hbits Hseq Hseg Hd6 Hck Hid Hrd Hw Hfs Hfd.
  set (fss := [(sn, File data)]).
  assert (Hlook : lookup fss sn = Some (File data)).
  { destruct sn as [|a sn']; [contradiction|]. unfold fss. cbn [lookup lookup_raw].
    rewrite path_eqb_refl. reflexivity. }
  destruct (ck_agree (r_cktype rs) data seg Hck Hseg) as (cks & C1 & C2).
  set (cf := mkSconf (l_id cs) w (pr_dst p) w seq0 (bits / 8) ACKED large (r_crc rs)).
  set (clo := match pr_closure p with Some b => b | None => r_closure rs end).
  destruct (first_call_a cs seq0 bits fss p rs sn dn data Hrs Hn Hlook Hmode Hbits Hseq Hseg Hd6)
    as (s1 & s3 & P1 & P2 & HI).
  rewrite Hmsgs in P2.
  assert (Hdst : sc_dst cf = l_id cd) by (symmetry; exact Hid).
  assert (Hdstr : sc_dst cf = r_id rs) by (symmetry; exact (get_remote_id _ _ _ Hrs)).
  destruct (round_md_a cs cd p rs rd sn t0 dn fn data cf seg clo fss eq_refl Hrd Hdst eq_refl Hw s1 s3 0 0 0 P2 HI)
    as (y1 & a & R & Ha & Q & HS).
  destruct (run_rest_a cs cd p rs rd sn t0 dn fn data cks cf seg tick clo fss Hn Hlook Hseg eq_refl C1 C2 Hfs Hfd Hrd Hdst
              Hacks Hackd eq_refl Hdstr Hw (length data) 0 y1 HS (le_n _)) as (y' & Rr & F).
  exists (S (4 + length data)).
  assert (Et : transfer_fs cs cd seq0 bits p sn data t0 [] (S (4 + length data)) tick = (y', true)).
  { unfold transfer_fs, sys_init. cbn [y_src set]. fold fss. rewrite P1.
    change (mkSys (src_fresh cs seq0 bits fss) (dst_init cd) [] [] 0 0 [] 0 None None [] [] [] (rev [])
              <| y_dst := dst_init_fs cd t0 |> <| y_src := s1 |>)
      with (Y s1 (dinit cd t0) 0 0 0 None None [] []).
    rewrite run_S, R. cbv iota beta. rewrite Q.
    assert (Ea : (a =? 0) = false) by (apply Z.eqb_neq; lia). rewrite Ea. exact Rr. }
  cbv zeta. rewrite Et. cbn [fst].
  exact (final_verdict_a cd t0 fn data cf y' F).
Qed.
End A.

(* ================================================================== *)
(* 4. non-vacuity: every shape on a small tree, all modes; and what    *)
(*    happens without [dest_writable]                                  *)
(* ================================================================== *)
Module Examples.
(* entity 1 sends 9 bytes (three File Data PDUs) from [3;b] to entity 2, whose filestore is [tr]:
     5/  5/6/  5/6/1 (2 bytes)  5/6/2/  5/7 (12 bytes)  8 (1 byte) *)
Definition tr : tree :=
  [([5], Dir); ([5; 6], Dir); ([5; 7], File [9; 9; 9; 9; 9; 9; 9; 9; 9; 9; 9; 9]); ([8], File [1]);
   ([5; 6; 1], File [4; 4]); ([5; 6; 2], Dir)].
Definition run_fs (mode : Z) (closure : bool) (ck : Z) (sn dn : path) (size : Z) : sys * bool :=
  transfer_fs (lc 1 (rc 2 (Some 4) closure mode ck 2 false)) (lc 2 (rc 1 (Some 4) closure mode ck 2 false))
              0 16 (mkPut 2 2 None None (Some (sn, dn)) None) sn (test_data size) tr [] 40 1000.
Definition modes : list (Z * bool) := [(ACKED, false); (ACKED, true); (UNACKED, false); (UNACKED, true)].
(* the verdict of C02 at [fn], and the final tree is [tr] with the file at [fn] replaced / added *)
Definition good (sn dn fn : path) : Prop :=
  dest_name tr sn dn = fn /\
  forall mc, In mc modes ->
    let res := run_fs (fst mc) (snd mc) CK_CRC32 sn dn 9 in
    fault_free_ok fn (test_data 9) res = true /\
    e_fs (d_env (y_dst (fst res))) = set_node tr fn (File (test_data 9)).
Ltac good := split; [reflexivity | intros mc [<-|[<-|[<-|[<-|[]]]]]; vm_compute; split; reflexivity].

(* (i) an existing regular file two levels down, longer than the new content: truncated and overwritten *)
Example shape_existing_file : lookup tr [5; 7] = Some (File [9; 9; 9; 9; 9; 9; 9; 9; 9; 9; 9; 9]) /\ good [3; 1] [5; 7] [5; 7].
Proof. split; [reflexivity | good]. Qed.
(* (i) an existing file under the root *)
Example shape_existing_file_root : good [3; 1] [8] [8].
Proof. good. Qed.
(* (ii) an existing directory: directory/basename(source), which exists already as a file ... *)
Example shape_directory_file_exists : is_dir tr [5; 6] = true /\ good [3; 1] [5; 6] [5; 6; 1].
Proof. split; [reflexivity | good]. Qed.
(* ... or does not exist yet ... *)
Example shape_directory_fresh : lookup tr [5; 1] = None /\ good [3; 1] [5] [5; 1].
Proof. split; [reflexivity | good]. Qed.
(* ... also for the root directory itself (empty destination path) *)
Example shape_root_directory : good [3; 1] [] [1].
Proof. good. Qed.
(* (iii) an absent name whose parent directory exists, two levels down / under the root *)
Example shape_absent_deep : lookup tr [5; 6; 9] = None /\ good [3; 1] [5; 6; 9] [5; 6; 9].
Proof. split; [reflexivity | good]. Qed.
Example shape_absent_root : good [3; 1] [9] [9].
Proof. good. Qed.
(* the empty file *)
Example shape_empty_file : forall mc, In mc modes ->
  let res := run_fs (fst mc) (snd mc) CK_CRC32 [3; 1] [5; 7] 0 in
  fault_free_ok [5; 7] [] res = true /\ e_fs (d_env (y_dst (fst res))) = set_node tr [5; 7] (File []).
Proof. intros mc [<-|[<-|[<-|[<-|[]]]]]; vm_compute; split; reflexivity. Qed.

(* ---- without [dest_writable] (model and dest.py agree; see the report of this file's author) *)
Lemma not_writable : forall fn, lookup tr fn = None -> parent_is_dir tr fn = false -> ~ dest_writable tr fn.
Proof. intros fn H1 H2 [[d H]|[_ H]]; [rewrite H1 in H; discriminate H | rewrite H2 in H; discriminate H]. Qed.

(* the parent directory is missing: create_file answers CREATE_NOT_ALLOWED, which _init_vfs_handling ignores; every
   write fails silently.  With a CRC the verification raises FileNotFoundError (201) out of state_machine ... *)
Example parent_missing_crc :
  ~ dest_writable tr (dest_name tr [3; 1] [4; 4]) /\
  let res := run_fs UNACKED false CK_CRC32 [3; 1] [4; 4] 9 in
  fault_free_ok [4; 4] (test_data 9) res = false /\ y_errs (fst res) = [(1, E_FILE_NOT_FOUND)] /\
  e_fs (d_env (y_dst (fst res))) = tr.
Proof. split; [apply not_writable; reflexivity | vm_compute; repeat split; reflexivity]. Qed.
(* ... with the NULL checksum both sides report success for a file that does not exist *)
Example parent_missing_null :
  let res := run_fs UNACKED false CK_NULL [3; 1] [4; 4] 9 in
  snd res = true /\ y_errs (fst res) = [] /\
  hd (EvEofSent 0 0) (e_log (d_env (y_dst (fst res)))) = EvFinished 1 0 C_NO_ERROR DATA_COMPLETE FS_RETAINED None /\
  lookup (e_fs (d_env (y_dst (fst res)))) [4; 4] = None /\ fault_free_ok [4; 4] (test_data 9) res = false.
Proof. vm_compute; repeat split; reflexivity. Qed.
(* the "parent" is a regular file *)
Example parent_is_file :
  ~ dest_writable tr (dest_name tr [3; 1] [8; 1]) /\
  fault_free_ok [8; 1] (test_data 9) (run_fs ACKED false CK_CRC32 [3; 1] [8; 1] 9) = false.
Proof. split; [apply not_writable; reflexivity | vm_compute; reflexivity]. Qed.
(* the destination is a directory and directory/basename(source) is a directory too: truncate_file raises
   IsADirectoryError (202) out of the state_machine call that received the Metadata PDU, and out of every later call *)
Example basename_is_directory :
  dest_name tr [3; 2] [5; 6] = [5; 6; 2] /\ lookup tr [5; 6; 2] = Some Dir /\ ~ dest_writable tr [5; 6; 2] /\
  let res := run_fs ACKED false CK_CRC32 [3; 2] [5; 6] 9 in
  fault_free_ok [5; 6; 2] (test_data 9) res = false /\ snd res = false /\
  last (y_errs (fst res)) (0, 0) = (1, E_IS_A_DIRECTORY) /\ e_fs (d_env (y_dst (fst res))) = tr.
Proof.
  split; [reflexivity|]. split; [reflexivity|]. split.
  - intros [[d H]|[H _]]; discriminate H.
  - vm_compute; repeat split; reflexivity.
Qed.
End Examples.
