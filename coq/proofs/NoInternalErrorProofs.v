(* NoInternalErrorProofs.v — proofs for props/C10b.v: neither handler ever fails with an internal error
   (AssertionError / AttributeError / TypeError / KeyError, or the modelled nesting depth) in any state reachable
   by any sequence of API calls.

   Method: well-formedness invariants dest_wf / source_wf ("which fields are set in which step"), one Hoare-style
   specification per function of the model ([postx] of IsolationProofs: normal and exceptional post-condition):
   from a well-formed state the function ends in a well-formed state, also when it raises, and it raises no
   internal error.  The side conditions are discharged by a small saturation tactic (dsolve / ssolve): forward
   chaining over the implications of the invariant, congruence and lia at the leaves.
   The nested state_machine() call of the receiver (positive ACK limit reached -> fault -> notice of cancellation
   -> completion in the same call) is entered only with the transaction already cancelled, and a cancelled transaction
   is abandoned at the next ACK limit instead of nesting again: depth 1 suffices (non_idle_fsm_ok is for any fuel >= 1). *)
From CFDP Require Import Base LostSeg Fs Crc Checksum Handler Dest Source HandlerSpec SourceSpec.
From CFDP.gen Require Import Tables.
From CFDP.proofs Require Import GuardProofs IsolationProofs ChecksumProofs RouteProofs.
From RecordUpdate Require Import RecordSet.
Import RecordSetNotations.


(* ---- part D1 *)
(* ------------------------------------------------------------------ the checksum loop never runs out of fuel *)
Lemma calc_no_fuel : forall ty d size seg, (0 < size -> 0 < seg) ->
  calculate_checksum ty (Some d) size seg <> Err OutOfFuel.
Proof.
  intros ty d size seg H. unfold calculate_checksum.
  destruct (ty =? CK_NULL); [discriminate|].
  destruct (ty =? CK_MODULAR); [discriminate|].
  destruct (seg =? 0); [discriminate|].
  destruct (negb _); [discriminate|].
  destruct (Z_lt_le_dec 0 size) as [Hs|Hs].
  - rewrite crc_loop_top by lia. discriminate.
  - rewrite crc_loop_S. destruct (0 <? size) eqn:E; [apply Z.ltb_lt in E; lia | discriminate].
Qed.


Local Opaque calculate_checksum.

Definition internal_error (e : Z) : Prop :=
  e = E_ASSERT \/ e = E_ATTRIBUTE \/ e = E_TYPE \/ e = E_KEY \/ e = E_FUEL.

(* ================================================================== the invariants (copies of props/C10b.v) *)
(* configuration sanity: nothing is needed.  (A fault-handler table without an entry for a declared condition raises
   ValueError in the model, which is not in the list above; a segment length <= 0 keeps the progress at or below zero,
   so the chunk loops never start: last conjunct of source_wf.) *)
Definition cfg_ok (c : lcfg) : Prop := True.

(* ---- receiver: which fields are set in which step (dest.py) *)
Definition dest_wf (s : dst) : Prop :=
  (* a busy handler knows its transaction and the remote entity: every `assert remote_cfg is not None` /
     `assert transaction_id is not None` (rcfg_or_assert, tid_or_assert, declare_fault, the abandon branch of the positive
     ACK procedure) and `self._params.remote_cfg.entity_id` in the EOF (cancel) handling (AttributeError) *)
  (d_state s <> ST_IDLE -> p_tid (d_p s) <> None /\ p_rcfg (d_p s) <> None) /\
  (* a step other than IDLE is only held by a busy handler (the sections of __non_idle_fsm are selected by the step) *)
  (d_step s <> DS_IDLE -> d_state s <> ST_IDLE) /\
  (* `assert self._params.check_timer is not None` in _check_limit_handling, and check_timer.reset() after the fault *)
  (d_step s = DS_RECV_WITH_CHECK_LIMIT -> p_check_timer (d_p s) <> None) /\
  (* `assert ...ack_timer is not None` in _handle_positive_ack_procedures, and ack_timer.reset() after the fault *)
  (d_step s = DS_WAITING_FOR_FINISHED_ACK -> p_ack_timer (d_p s) <> None) /\
  (* deferred lost segment procedure active: `assert procedure_timer is not None` in _reset_nak_activity_parameters,
     `assert fp.file_size_eof is not None` and `assert remote_cfg is not None` in _deferred_lost_segment_handling *)
  (p_deferred (d_p s) = true ->
     d_state s <> ST_IDLE /\ p_proc_timer (d_p s) <> None /\ p_file_size_eof (d_p s) <> None) /\
  (* the steps from which the deferred procedure is started (directly, or via the check limit timer): an EOF was seen *)
  (d_step s = DS_SENDING_EOF_ACK \/ d_step s = DS_RECV_WITH_CHECK_LIMIT -> p_file_size_eof (d_p s) <> None).

(* ---- sender (source.py) *)
(* what a step [st] needs of the parameter block; also demanded of the step to which RETRANSMITTING returns *)
Definition stepinv (st : Z) (q : sparams) : Prop :=
  (* no file data has been sent before the transaction started (keeps the last conjunct of source_wf over transaction_start) *)
  (st = SS_IDLE \/ st = SS_TRANSACTION_START -> q_progress q <= 0) /\
  (* `assert self._params.cond_code_eof is not None` in _prepare_eof_pdu *)
  (st = SS_SENDING_EOF \/ st = SS_WAITING_FOR_EOF_ACK -> q_cond_eof q <> None) /\
  (* `assert ...ack_timer is not None` in _handle_positive_ack_procedures *)
  (st = SS_WAITING_FOR_EOF_ACK -> q_ack_timer q <> None) /\
  (* the EOF checksum runs over [0, file size): the whole file was sent (or there is no file), so the segment length
     is positive if the file size is (checksum loop, E_FUEL) *)
  (st = SS_SENDING_EOF -> q_md_only q = true \/ opt_z (q_file_size q) <= q_progress q).

Definition source_wf (s : src) : Prop :=
  (* a busy handler has its Put request and the remote entity: `assert self._put_req is not None`,
     `assert self._params.remote_cfg is not None` (put_or_assert, srcfg_or_assert) *)
  (s_state s <> ST_IDLE -> s_put s <> None /\ q_rcfg (s_p s) <> None) /\
  (* a step other than IDLE is only held by a busy handler *)
  (s_step s <> SS_IDLE -> s_state s <> ST_IDLE) /\
  (* a transaction id exists only while busy (so put_request, which needs IDLE, cannot replace the request under it) *)
  (q_tid (s_p s) <> None -> s_state s <> ST_IDLE) /\
  (* fp.file_size is never None (F2 repair): TypeError in _prepare_pdu_conf *)
  q_file_size (s_p s) <> None /\
  (* from SENDING_METADATA on there is a transaction id: `assert transaction_id is not None` (stid_or_assert) in
     _prepare_eof_pdu, _notice_of_completion, _notice_of_cancellation, _declare_fault *)
  (s_step s <> SS_IDLE -> s_step s <> SS_TRANSACTION_START -> q_tid (s_p s) <> None) /\
  stepinv (s_step s) (s_p s) /\
  (* `assert step_before_retransmission is not None` in _fsm_advancement..., and the step it restores is sound *)
  (s_step s = SS_RETRANSMITTING -> s_step_before s <> None /\ stepinv (opt_z (s_step_before s)) (s_p s)) /\
  (* a request without file names is a metadata-only transaction that never sent data: `assert source_file is not None`
     in _prepare_file_data_pdu / _checksum_calculation (F14 repair) *)
  (q_tid (s_p s) <> None -> forall p, s_put s = Some p -> pr_names p = None ->
     q_md_only (s_p s) = true /\ q_progress (s_p s) <= 0) /\
  (* data was sent only with a positive segment length: the chunk loops of the re-transmission and of the checksum
     terminate (E_FUEL) *)
  (0 < q_progress (s_p s) -> 1 <= q_segment_len (s_p s)).

(* segment requests of an inbound NAK start at or above zero (unsigned on the wire; as in props/C12b.v) *)
Definition nak_offsets_unsigned (pkt : option pdu) : Prop :=
  match pkt with Some (PNak _ _ _ reqs) => Forall (fun rq => 0 <= fst rq) reqs | _ => True end.



Definition nie (e : Z) : Prop := ~ internal_error e.
(* what a fault declaration that returns leaves alone *)
Definition dkeep (s s' : dst) : Prop :=
  d_state s' = d_state s /\ p_check_timer (d_p s') = p_check_timer (d_p s) /\
  p_ack_timer (d_p s') = p_ack_timer (d_p s) /\ p_deferred (d_p s') = p_deferred (d_p s) /\
  p_proc_timer (d_p s') = p_proc_timer (d_p s) /\ p_file_size_eof (d_p s') = p_file_size_eof (d_p s) /\
  p_tracker (d_p s') = p_tracker (d_p s) /\ p_md_missing (d_p s') = p_md_missing (d_p s) /\
  ((d_step s' = d_step s /\ p_disp (d_p s') = p_disp (d_p s)) \/
   (d_step s' = DS_TRANSFER_COMPLETION /\ p_disp (d_p s') = DISP_CANCELED)).
(* exceptional exit of the functions that run inside a try block: only an abandon changes the handler state *)
Definition EX (s : dst) (e : Z) (s' : dst) : Prop :=
  dest_wf s' /\ nie e /\ (e <> E_ABANDONED -> d_state s' = d_state s).
Definition E0 (e : Z) (s' : dst) : Prop := dest_wf s' /\ nie e.
(* the part of the state the invariant looks at *)
Definition dsv (s : dst) := (d_state s, d_step s, d_p s).
Definition NoExn (e : Z) : Prop := False.

Lemma postx_weaken {S A} (Q1 Q : A -> S -> Prop) (E1 E : Z -> S -> Prop) x :
  postx Q1 E1 x -> (forall a s', Q1 a s' -> Q a s') -> (forall e s', E1 e s' -> E e s') -> postx Q E x.
Proof. unfold postx. destruct x as [s1 [a|e]]; intros H HQ HE; [apply HQ | apply HE]; exact H. Qed.

Lemma postx_minv {S T A} (delta : S -> T) (Ex : Z -> Prop) (m : M S A) s :
  MInv delta Ex m -> postx (fun _ s' => delta s' = delta s) (fun e s' => delta s' = delta s /\ Ex e) (m s).
Proof.
  intro H. destruct (H s) as [H1 H2]. unfold postx. destruct (m s) as [s1 [a|e]]; cbn [fst snd] in *.
  - exact H1.
  - split; [exact H1 | apply H2; reflexivity].
Qed.

Lemma wf_dsv : forall s s', dsv s' = dsv s -> dest_wf s -> dest_wf s'.
Proof. intros s s' H. unfold dsv in H. injection H as H1 H2 H3. unfold dest_wf. rewrite H1, H2, H3. exact (fun x => x). Qed.

Ltac bool_hyps :=
  repeat match goal with
  | H : (_ =? _) = true |- _ => apply Z.eqb_eq in H
  | H : (_ =? _) = false |- _ => apply Z.eqb_neq in H
  | H : (_ || _) = true |- _ => apply orb_true_iff in H; destruct H
  | H : (_ || _) = false |- _ => apply orb_false_iff in H; destruct H
  | H : (_ && _) = true |- _ => apply andb_true_iff in H; destruct H
  | H : (_ && _) = false |- _ => apply andb_false_iff in H; destruct H
  | H : negb _ = true |- _ => apply negb_true_iff in H
  | H : negb _ = false |- _ => apply negb_false_iff in H
  end.
Ltac consts :=
  unfold DS_IDLE, DS_TRANSACTION_START, DS_WAITING_FOR_METADATA, DS_RECEIVING_FILE_DATA, DS_RECV_WITH_CHECK_LIMIT,
    DS_SENDING_EOF_ACK, DS_WAITING_FOR_MISSING_DATA, DS_TRANSFER_COMPLETION, DS_SENDING_FINISHED,
    DS_WAITING_FOR_FINISHED_ACK, ST_IDLE, ST_BUSY, DISP_CANCELED, DISP_COMPLETED,
    E_ASSERT, E_ATTRIBUTE, E_TYPE, E_KEY, E_FUEL, E_VALUE, E_ABANDONED, E_UNRETRIEVED, E_NO_REMOTE_CFG,
    E_FILE_NOT_FOUND, E_IS_A_DIRECTORY, E_PERMISSION, E_CHECKSUM_NOT_IMPL,
    FH_CANCEL, FH_ABANDON, FH_IGNORE, FH_SUSPEND in *.
Ltac easyt := solve [ assumption | reflexivity | contradiction | congruence ].
Ltac prove_atom :=
  lazymatch goal with
  | |- _ /\ _ => split; prove_atom
  | |- _ \/ _ => first [ left; prove_atom | right; prove_atom ]
  | |- True => exact I
  | |- _ => easyt
  end.
Ltac refute_atom X :=
  lazymatch type of X with
  | _ \/ _ => destruct X as [X|X]; refute_atom X
  | _ /\ _ => let X1 := fresh in let X2 := fresh in destruct X as [X1 X2]; first [refute_atom X1 | refute_atom X2]
  | _ => easyt
  end.
Definition hold (P : Prop) : Prop := P.
(* one pass over the implications among the hypotheses: use those whose premise is known, drop those whose premise is
   refuted, set the undetermined ones aside *)
Ltac sat1 :=
  match goal with
  | H : _ /\ _ |- _ => destruct H
  | H : False |- _ => destruct H
  | H : ?A -> ?B |- _ =>
      lazymatch type of A with
      | Prop =>
        first [ let HA := fresh in assert (HA : A) by (clear H; prove_atom); specialize (H HA); clear HA
              | let HN := fresh in assert (HN : A -> False) by (clear H; let X := fresh in intro X; refute_atom X); clear H; clear HN
              | change (hold (A -> B)) in H ]
      end
  | H : _ \/ _ |- _ => destruct H
  end.
Ltac unhold := unfold hold in *.
Ltac sat := repeat sat1; unhold; repeat sat1; unhold.
Ltac gsplit := repeat match goal with |- _ /\ _ => split | |- _ -> _ => intro | |- ~ _ => intro | |- True => exact I end.
Ltac fin :=
  idtac; lazymatch goal with
  | |- _ \/ _ => first [ left; fin | right; fin ]
  | |- _ => first [ easyt | lia ]
  end.
Ltac satsolve := sat; gsplit; sat; fin.
Ltac hsplit := repeat match goal with H : _ /\ _ |- _ => destruct H end.
Ltac csplit := repeat match goal with |- _ /\ _ => split end.
Ltac dsv_norm :=
  repeat match goal with
  | H : dsv ?a = dsv ?b |- _ =>
      unfold dsv in H; let H1 := fresh in let H2 := fresh in let H3 := fresh in
      injection H as H1 H2 H3; try rewrite H1 in *; try rewrite H2 in *; try rewrite H3 in *
  end.
Ltac dsolve :=
  unfold E0, EX, dkeep in *; hsplit; csplit; try assumption;
  unfold nie, internal_error, dest_wf, NoExn in *; dsv_norm; cbn in *; bool_hyps; consts; satsolve.
(* a call in the middle / at the end of a function *)
Ltac dcall L := eapply postx_bind; [eapply L | |]; cbv beta.
Ltac dtail L := eapply postx_weaken; [eapply L | |]; cbv beta.
Ltac dmid := eapply postx_bind; [apply postx_minv with (delta := dsv) (Ex := NoExn); solve [minv] | |]; cbv beta.

Lemma oserr_nie : forall e, nie (oserr_exn e).
Proof. intros [] H; unfold internal_error in H; consts; cbn in H; intuition discriminate. Qed.

(* ------------------------------------------------------------------ fault declaration *)
Lemma declare_fault_ok : forall c s, dest_wf s -> d_state s <> ST_IDLE ->
  postx (fun fh s' => dest_wf s' /\ dkeep s s' /\ fh <> FH_ABANDON) (EX s) (declare_fault c s).
Proof.
  intros c s W N. unfold declare_fault. mrun.
  destruct (p_tid (d_p s)) as [[a b]|] eqn:Ht; [|exfalso; dsolve].
  destruct (get_fault_handler (l_faults (d_cfg s)) c) as [fh|]; [|mfin; dsolve].
  destruct (fh =? FH_CANCEL) eqn:E1.
  - unfold notice_of_cancellation. mrun. destruct (fh =? FH_ABANDON) eqn:E2.
    + exfalso. dsolve.
    + mfin. dsolve.
  - destruct (fh =? FH_ABANDON) eqn:E2.
    + mrun. mfin. dsolve.
    + mrun. mfin. dsolve.
Qed.

Lemma vfs_checksum_ok : forall ty name size s,
  postx (fun _ s' => s' = s) (fun e s' => s' = s /\ nie e) (vfs_checksum ty name size s).
Proof.
  intros ty name size s. unfold vfs_checksum. mrun.
  destruct (ty =? CK_NULL); [mfin; reflexivity|].
  destruct (lookup (e_fs (d_env s)) name) as [[d|]|]; try (mfin; split; [reflexivity | dsolve]).
  pose proof (calc_no_fuel ty d size 4096 (fun _ => eq_refl)) as X.
  destruct (calculate_checksum ty (Some d) size 4096) as [r|[]]; mfin; try reflexivity; try (split; [reflexivity | dsolve]).
Qed.

Lemma checksum_verify_ok : forall s, dest_wf s -> d_state s <> ST_IDLE ->
  postx (fun _ s' => dest_wf s' /\ dkeep s s') (EX s) (checksum_verify s).
Proof.
  intros s W N. unfold checksum_verify. mrun.
  destruct ((p_cktype (d_p s) =? CK_NULL) || p_md_only (d_p s)).
  - mrun. mfin. dsolve.
  - mrun. dcall vfs_checksum_ok.
    + intros e s' [-> H]. dsolve.
    + intros crc s' ->. destruct (bytes_eqb crc (p_crc32 (d_p s)) && _); mrun.
      * mfin. dsolve.
      * dcall declare_fault_ok; [exact W | exact N | intros e s' H; exact H |].
        intros fh s' H. mrun. mfin. dsolve.
Qed.

(* ---- part D2 *)
Ltac dhead :=
  lazymatch goal with
  | |- postx _ _ (bind (when ?c _) _ _) => destruct c eqn:?; [rewrite when_true | rewrite when_false]
  | |- postx _ _ (when ?c _ _) => destruct c eqn:?; [rewrite when_true | rewrite when_false]
  | |- postx _ _ (bind (match ?x with _ => _ end) _ _) => let y := stuck x in destruct y eqn:?
  | |- postx _ _ ((match ?x with _ => _ end) _) => let y := stuck x in destruct y eqn:?
  end.
Ltac dleaf := try solve [mfin; dsolve].
Ltac dauto := repeat (mrun; cbv beta iota zeta; dhead); mrun; dleaf.

Definition NoE (e : Z) (s : dst) : Prop := False.

Lemma ftct_ok : forall s, dest_wf s -> d_state s <> ST_IDLE -> p_file_size_eof (d_p s) <> None ->
  postx (fun _ s' => dest_wf s' /\ d_state s' = d_state s /\ d_p s' = d_p s) NoE (file_transfer_complete_transition s).
Proof.
  intros s W N F. unfold file_transfer_complete_transition, prepare_eof_ack_packet, add_packet. dauto.
Qed.

Lemma scl_ok : forall s, dest_wf s -> d_state s <> ST_IDLE -> p_file_size_eof (d_p s) <> None ->
  postx (fun _ s' => dest_wf s' /\ d_state s' = d_state s /\ p_file_size_eof (d_p s') = p_file_size_eof (d_p s)) NoE (start_check_limit_handling s).
Proof.
  intros s W N F. unfold start_check_limit_handling, rcfg_or_assert. dauto.
Qed.

(* the loop over the tracked ranges (F9 repair): every iteration changes the tracker only, and raises E_VALUE at most *)
Definition lshQ (s s' : dst) : Prop := dest_wf s' /\ d_state s' = d_state s /\ d_step s' = d_step s.

Lemma remove_covered_ok : forall o e sg s, dest_wf s ->
  postx (fun _ s' => lshQ s s') (fun x s' => lshQ s s' /\ nie x) (remove_covered o e sg s).
Proof.
  intros o e sg s W. unfold remove_covered, lshQ. dauto.
Qed.

Lemma remove_covered_fold_ok : forall o e tr (m : D unit) s,
  postx (fun _ s' => lshQ s s') (fun x s' => lshQ s s' /\ nie x) (m s) ->
  postx (fun _ s' => lshQ s s') (fun x s' => lshQ s s' /\ nie x)
        (fold_left (fun m sg => m ;;; remove_covered o e sg) tr m s).
Proof.
  intros o e tr. induction tr as [|sg tr IH]; intros m s H; cbn [fold_left]; [exact H|].
  apply IH. eapply postx_bind; [exact H | intros x s' X; exact X |]. cbv beta.
  intros u s1 (W1 & N1 & S1).
  eapply postx_weaken; [apply remove_covered_ok; exact W1 | |]; unfold lshQ; cbv beta.
  - intros a s' (W2 & N2 & S2). rewrite N2, S2. auto.
  - intros x s' [(W2 & N2 & S2) X]. rewrite N2, S2. auto.
Qed.

Lemma lsh_ok : forall o l s, dest_wf s -> d_state s <> ST_IDLE ->
  postx (fun _ s' => dest_wf s' /\ d_state s' = d_state s /\ d_step s' = d_step s) (EX s) (lost_segment_handling o l s).
Proof.
  intros o l s W N. unfold lost_segment_handling, tracker_add, rcfg_or_assert, add_packet. dauto.
  all: (eapply postx_weaken; [apply remove_covered_fold_ok; mfin; unfold lshQ; dsolve | |]; unfold lshQ; cbv beta;
        [intros a s' H; dsolve | intros e s' H; dsolve]).
Qed.

(* ---- part D3 *)
Lemma filestore_rejection_ok : forall s, dest_wf s -> d_state s <> ST_IDLE ->
  postx (fun _ s' => dest_wf s' /\ d_state s' = d_state s) (EX s) (filestore_rejection s).
Proof.
  intros s W N. unfold filestore_rejection. dauto.
  dcall declare_fault_ok; [dsolve | dsolve | intros e s' H; dsolve |].
  intros fh s' H. dauto.
Qed.

Lemma handle_fd_pdu_ok : forall o d s, dest_wf s -> d_state s <> ST_IDLE ->
  postx (fun _ s' => dest_wf s') E0 (handle_fd_pdu o d s).
Proof.
  intros o d s W N. unfold handle_fd_pdu. mrun.
  eapply postx_bind with (Q1 := fun _ s' => dest_wf s' /\ d_state s' = d_state s) (E1 := NoE).
  { dauto. }
  { intros e s' []. }
  intros u s0 [W0 N0]. cbv beta.
  apply postx_catch with (E1 := EX s0).
  - mrun. 
    eapply postx_bind with (Q1 := fun _ s' => dest_wf s' /\ d_state s' = d_state s0) (E1 := EX s0).
    { dhead; [|dauto]. dtail lsh_ok; [exact W0 | dsolve | intros a s' H; dsolve | intros e s' H; exact H]. }
    { intros e s' H; exact H. }
    intros u1 s1 [W1 N1]. unfold vfs_write. dauto.
    + dcall declare_fault_ok; [dsolve | dsolve | intros e s' H; dsolve |].
      intros fh s' H. dauto.
    + mfin. match goal with |- context [oserr_exn ?e] => pose proof (oserr_nie e) end. dsolve.
  - intros e k s1 Hh HE. destruct ((e =? E_FILE_NOT_FOUND) || (e =? E_PERMISSION)) eqn:Ee; [|discriminate Hh].
    inversion Hh; subst k.
    dtail filestore_rejection_ok; [dsolve | dsolve | intros a s' H; dsolve | intros e' s' H; dsolve].
  - intros e s' _ H. dsolve.
Qed.

(* ------------------------------------------------------------------ deferred lost segment procedure *)
(* the procedure is entered once with the flag set and the timer not yet created (start_deferred_...): then lost
   segments or the metadata are outstanding, so the timer is created before anything can raise; and the transaction is
   not cancelled then (fsm_advancement starts the procedure only for a transaction that is not cancelled), so the
   early return of a cancelled transaction (F35 repair) is never taken without the timer *)
Definition dls_pre (s : dst) : Prop :=
  dest_wf (s <| d_p ::= (fun p => p <| p_proc_timer := Some (0, 0) |>) |>) /\
  (p_deferred (d_p s) = true -> p_proc_timer (d_p s) = None ->
   ((zlen (p_tracker (d_p s)) =? 0) && negb (p_md_missing (d_p s))) = false /\
   (p_disp (d_p s) =? DISP_CANCELED) = false).

Lemma wf_dls_pre : forall s, dest_wf s -> dls_pre s.
Proof. intros s W. unfold dls_pre. split; [dsolve | intros; exfalso; dsolve]. Qed.

Lemma deferred_ok : forall s, dls_pre s -> postx (fun _ s' => dest_wf s') E0 (deferred_lost_segment_handling s).
Proof.
  intros s [W T]. unfold deferred_lost_segment_handling, rcfg_or_assert. mrun.
  destruct (p_deferred (d_p s)) eqn:Hd; cbn [negb]; [|mfin; dsolve].
  mrun. destruct (p_disp (d_p s) =? DISP_CANCELED) eqn:Hk.
  { (* F35 repair: a cancelled transaction is left as it is; the timer exists (dls_pre) *)
    destruct (p_proc_timer (d_p s)) as [tm|] eqn:Ht;
      [|destruct (T eq_refl eq_refl) as [_ T2]; discriminate T2].
    mfin. dsolve. }
  mrun. destruct (p_rcfg (d_p s)) as [r|] eqn:Hr; [|exfalso; dsolve]. mrun.
  destruct (p_file_size_eof (d_p s)) as [eos|] eqn:He; [|exfalso; dsolve]. mrun.
  destruct ((zlen (p_tracker (d_p s)) =? 0) && negb (p_md_missing (d_p s))) eqn:Hc.
  - destruct (p_proc_timer (d_p s)) as [tm|] eqn:Ht; [|destruct (T eq_refl eq_refl) as [T1 _]; discriminate T1].
    dcall checksum_verify_ok; [dsolve | dsolve | intros e s' H; dsolve |].
    intros ok s' H. dauto.
  - mrun. destruct (p_proc_timer (d_p s)) as [tm|] eqn:Ht; mrun.
    + destruct (negb (timed_out (e_now (d_env s)) tm)); mrun; cbv beta iota; [mfin; dsolve|].
      mrun. cbn [negb andb].
      destruct (p_nak_counter (d_p s) + 1 =? r_nak_limit r).
      * mrun. dcall declare_fault_ok; [dsolve | dsolve | intros e s' H; dsolve |].
        intros fh s1 H1. mrun. destruct (negb (fh =? FH_IGNORE)); cbv beta iota; [mfin; dsolve|].
        (* F22 repair: with the handler IGNORE the NAK sequence is issued again from the state the fault declaration left,
           in which the procedure timer still exists *)
        assert (Ht1 : p_proc_timer (d_p s1) = Some tm) by (destruct H1 as (_ & K1 & _); unfold dkeep in K1; hsplit; congruence).
        mrun. destruct (max_seg_reqs (r_max_packet r) (p_conf (d_p s1))) as [maxn|]; [|mfin; dsolve].
        mrun.
        destruct (if p_md_missing (d_p s1) then _ else _) as [pre acc0].
        destruct (nak_split _ _ _ _ _) as [ps rest].
        dmid; [intros e s' [_ []]|].
        intros u s' H. mrun.
        assert (Hp : p_proc_timer (d_p s') = Some tm) by (unfold dsv in H; injection H as _ _ Hp; rewrite Hp; exact Ht1).
        rewrite Hp. destruct tm as [t0 tmo]. mfin. dsolve.
      * mrun. cbv beta iota. mrun.
        destruct (max_seg_reqs (r_max_packet r) (p_conf (d_p s))) as [maxn|]; [|mfin; dsolve].
        mrun.
        destruct (if p_md_missing (d_p s) then _ else _) as [pre acc0].
        destruct (nak_split _ _ _ _ _) as [ps rest].
        dmid; [intros e s' [_ []]|].
        intros u s' H. mrun.
        assert (Hp : p_proc_timer (d_p s') = Some tm) by (unfold dsv in H; injection H as _ _ Hp; rewrite Hp; exact Ht).
        rewrite Hp. destruct tm as [t0 tmo]. mfin. dsolve.
    + cbv beta iota. mrun. cbn [negb andb]. mrun. cbv beta iota. mrun.
      destruct (max_seg_reqs (r_max_packet r) _) as [maxn|]; [|mfin; dsolve].
      mrun.
      destruct (if p_md_missing _ then _ else _) as [pre acc0].
      destruct (nak_split _ _ _ _ _) as [ps rest].
      dmid; [intros e s' [_ []]|].
      intros u s' H. dauto.
Qed.

(* ---- part D4 *)
(* coalescing never empties a tracker *)
Lemma update_nonnil : forall k v l, update k v l <> [].
Proof. intros k v [|[s e] t]; cbn; [discriminate | destruct (s =? k); discriminate]. Qed.
Lemma coalesce_nonnil : forall l, l <> [] -> coalesce l <> [].
Proof.
  intros [|[s0 e0] [|q t]] H; cbn [coalesce]; try assumption.
  destruct (fold_left coalesce_step _ _) as [[m cs] ce].
  unfold dict_of_list. rewrite fold_left_app. cbn [fold_left]. apply update_nonnil.
Qed.
Lemma coalesce_len : forall l, (0 <? zlen l) = true -> (zlen (coalesce l) =? 0) = false.
Proof.
  intros l H. pose proof (coalesce_nonnil l) as X. apply Z.eqb_neq. unfold zlen in *.
  destruct (coalesce l); [|cbn; lia]. exfalso. apply X; [|reflexivity]. intro Hl; subst l. cbn in H. discriminate H.
Qed.

Lemma start_deferred_ok : forall s, dest_wf s -> d_state s <> ST_IDLE -> p_file_size_eof (d_p s) <> None ->
  ((0 <? zlen (p_tracker (d_p s))) || p_md_missing (d_p s)) = true ->
  (p_disp (d_p s) =? DISP_CANCELED) = false ->
  postx (fun _ s' => dest_wf s') E0 (start_deferred_lost_segment_handling s).
Proof.
  intros s W N F G K. unfold start_deferred_lost_segment_handling. mrun.
  apply deferred_ok. split.
  - destruct (p_md_missing (d_p s)); dsolve.
  - intros _ _. cbn. split; [|exact K]. destruct (p_md_missing (d_p s)); [apply andb_false_r|].
    rewrite orb_false_r in G. rewrite (coalesce_len _ G). reflexivity.
Qed.

Lemma handle_no_error_eof_ok : forall s, dest_wf s -> d_state s <> ST_IDLE -> p_file_size_eof (d_p s) <> None ->
  postx (fun _ s' => dest_wf s' /\ d_state s' = d_state s /\ p_file_size_eof (d_p s') <> None) E0 (handle_no_error_eof s).
Proof.
  intros s W N F. unfold handle_no_error_eof, tracker_add. mrun.
  eapply postx_bind with (Q1 := fun _ s' => dest_wf s' /\ d_state s' = d_state s /\ p_file_size_eof (d_p s') <> None) (E1 := E0).
  { dauto. dcall declare_fault_ok; [dsolve | dsolve | intros e s' H; dsolve |]. intros fh s' H. dauto. }
  { intros e s' H; exact H. }
  intros early s1 (W1 & N1 & F1). cbv beta.
  destruct early; [mfin; dsolve|].
  destruct (if d_state s =? ST_IDLE then false else h_mode (p_conf (d_p s)) =? UNACKED); [|mfin; dsolve].
  dcall checksum_verify_ok; [dsolve | dsolve | intros e s' H; dsolve |].
  intros ok s2 H. destruct ok; [mfin; dsolve|]. mrun.
  destruct (get_fault_handler (l_faults (d_cfg s2)) C_CHECKSUM_FAILURE) as [fh|]; [|mfin; dsolve].
  destruct (fh =? FH_IGNORE); [|mfin; dsolve].
  dcall scl_ok; [dsolve | dsolve | dsolve | intros e s' [] |].
  intros u s3 H3. mfin. dsolve.
Qed.

Lemma handle_eof_pdu_ok : forall c ck sz s, dest_wf s -> d_state s <> ST_IDLE ->
  postx (fun _ s' => dest_wf s') E0 (handle_eof_pdu c ck sz s).
Proof.
  intros c ck sz s W N. unfold handle_eof_pdu, tid_or_assert. mrun.
  eapply postx_bind with (Q1 := fun _ s' => dest_wf s' /\ d_state s' = d_state s /\ p_file_size_eof (d_p s') <> None) (E1 := NoE).
  { dauto. }
  { intros e s' []. }
  intros u s1 (W1 & N1 & F1). cbv beta.
  destruct (c =? C_NO_ERROR).
  - dcall handle_no_error_eof_ok; [dsolve | dsolve | dsolve | intros e s' H; exact H |].
    intros regular s2 H2. destruct regular; [|mfin; dsolve].
    dtail ftct_ok; [dsolve | dsolve | dsolve | intros a s' H; dsolve | intros e s' []].
  - mrun. destruct (p_rcfg (d_p s1)) as [r|] eqn:Hr; [|exfalso; dsolve]. mrun.
    dtail ftct_ok; [dsolve | dsolve | dsolve | intros a s' H; dsolve | intros e s' []].
Qed.

Lemma init_vfs_handling_ok : forall b s, dest_wf s -> d_state s <> ST_IDLE ->
  postx (fun _ s' => dest_wf s') E0 (init_vfs_handling b s).
Proof.
  intros b s W N. unfold init_vfs_handling, vfs_op_tree.
  apply postx_catch with (E1 := fun e s' => dest_wf s' /\ nie e /\ d_state s' = d_state s).
  - dauto; mfin; match goal with |- context [oserr_exn ?e] => pose proof (oserr_nie e) end; dsolve.
  - intros e k s1 Hh HE. destruct (e =? E_PERMISSION); [|discriminate Hh].
    inversion Hh; subst k. mrun.
    dcall declare_fault_ok; [dsolve | dsolve | intros e' s' H; dsolve |].
    intros fh s' H. mfin. dsolve.
  - intros e s' _ H. dsolve.
Qed.

Lemma handle_metadata_packet_ok : forall h cl ck sz names msgs s, dest_wf s -> d_state s <> ST_IDLE ->
  postx (fun _ s' => dest_wf s') E0 (handle_metadata_packet h cl ck sz names msgs s).
Proof.
  intros h cl ck sz names msgs s W N. unfold handle_metadata_packet. mrun.
  eapply postx_bind with (Q1 := fun _ s' => dest_wf s' /\ d_state s' = d_state s) (E1 := NoE).
  { dauto. }
  { intros e s' []. }
  intros u s1 (W1 & N1). cbv beta. mrun.
  destruct (p_rcfg (d_p _)) as [r|] eqn:Hr; [|mfin; dsolve]. mrun.
  destruct (negb (p_md_only (d_p _))); mrun.
  - dcall init_vfs_handling_ok; [dsolve | dsolve | intros e s' H; exact H |].
    intros u2 s2 W2. mrun.
    destruct (match p_tid (d_p s2) with Some x => x | None => (-1, -1) end) as [ta tb]. mfin. dsolve.
  - destruct (match p_tid (d_p _) with Some x => x | None => (-1, -1) end) as [ta tb]. mfin. dsolve.
Qed.

(* ---- part D5 *)
(* ------------------------------------------------------------------ first packet of a transaction *)
Lemma cfpnm_ok : forall h s, dest_wf s -> d_state s = ST_IDLE -> get_remote (l_remotes (d_cfg s)) (h_src h) <> None ->
  postx (fun _ s' => dest_wf s' /\ d_state s' <> ST_IDLE) NoE (common_first_packet_not_metadata h s).
Proof.
  intros h s W I R. unfold common_first_packet_not_metadata, common_first_packet_handler. mrun. cbn [d_state set]. cbn.
  rewrite I. change (negb (ST_IDLE =? ST_IDLE)) with false. cbv iota. mrun. mfin. dsolve.
Qed.

Lemma hfwpm_ok : forall f o d s, dest_wf s -> d_state s <> ST_IDLE ->
  postx (fun _ s' => dest_wf s') E0 (handle_fd_without_previous_metadata f o d s).
Proof.
  intros f o d s W N. unfold handle_fd_without_previous_metadata, tracker_add, rcfg_or_assert, add_packet. dauto.
Qed.

Lemma hewpm_ok : forall c ck sz s, dest_wf s -> d_state s <> ST_IDLE ->
  postx (fun _ s' => dest_wf s') E0 (handle_eof_without_previous_metadata c ck sz s).
Proof.
  intros c ck sz s W N. unfold handle_eof_without_previous_metadata.
  (* (F32 repair) an EOF (cancel) is handled like any other EOF (cancel) *)
  destruct (negb (c =? C_NO_ERROR)); [apply handle_eof_pdu_ok; assumption|].
  unfold tid_or_assert, prepare_eof_ack_packet, add_packet. dauto.
Qed.

Lemma idle_fsm_ok : forall pkt s, dest_wf s -> d_state s = ST_IDLE ->
  (forall p, pkt = Some p -> get_remote (l_remotes (d_cfg s)) (h_src (pdu_hdr p)) <> None) ->
  postx (fun _ s' => dest_wf s') E0 (idle_fsm pkt s).
Proof.
  intros pkt s W I R. unfold idle_fsm.
  destruct pkt as [[h off data|h cl ck sz names msgs|h c ck sz fl| | | | | ]|]; try (mfin; dsolve).
  - specialize (R _ eq_refl). cbn in R.
    dcall cfpnm_ok; [exact W | exact I | exact R | intros e s' [] |].
    intros u s1 [W1 N1]. dtail hfwpm_ok; [exact W1 | exact N1 | intros; assumption | intros e s' H; exact H].
  - specialize (R _ eq_refl). cbn in R.
    unfold start_transaction, common_first_packet_handler. mrun. rewrite I. change (negb (ST_IDLE =? ST_IDLE)) with false.
    cbv iota. mrun. cbn [d_state set]. cbn. rewrite I. change (negb (ST_IDLE =? ST_IDLE)) with false. cbv iota. mrun.
    dtail handle_metadata_packet_ok; [dsolve | dsolve | intros; assumption | intros e s' H; exact H].
  - specialize (R _ eq_refl). cbn in R.
    dcall cfpnm_ok; [exact W | exact I | exact R | intros e s' [] |].
    intros u s1 [W1 N1]. dtail hewpm_ok; [exact W1 | exact N1 | intros; assumption | intros e s' H; exact H].
Qed.

(* ------------------------------------------------------------------ completion *)
Lemma noc_ok : forall s, dest_wf s -> d_state s <> ST_IDLE ->
  postx (fun _ s' => dest_wf s' /\ d_state s' = d_state s /\ d_step s' = d_step s /\ p_disp (d_p s') = p_disp (d_p s) /\
                     h_mode (p_conf (d_p s')) = h_mode (p_conf (d_p s)) /\ p_closure (d_p s') = p_closure (d_p s))
        NoE (notice_of_completion s).
Proof.
  intros s W N. unfold notice_of_completion, rcfg_or_assert. dauto.
Qed.

(* [R \/ cancelled \/ reset]: what the tail of the state machine keeps when it runs as the nested call *)
Definition tailJ (R : Prop) (s : dst) : Prop := R \/ p_disp (d_p s) = DISP_CANCELED \/ d_step s = DS_IDLE.

Lemma htc_ok : forall R s, dest_wf s -> d_step s = DS_TRANSFER_COMPLETION -> tailJ R s ->
  postx (fun _ s' => dest_wf s' /\ tailJ R s') NoE (handle_transfer_completion s).
Proof.
  intros R s W N T. unfold handle_transfer_completion.
  dcall noc_ok; [exact W | dsolve | intros e s' [] |].
  intros u s1 H1. unfold tailJ in *. dauto.
Qed.

Lemma hfps_ok : forall R s, dest_wf s -> d_step s = DS_SENDING_FINISHED -> tailJ R s ->
  postx (fun _ s' => dest_wf s' /\ tailJ R s') NoE (handle_finished_pdu_sent s).
Proof.
  intros R s W N T. unfold handle_finished_pdu_sent, start_positive_ack_procedure, rcfg_or_assert, tailJ in *. dauto.
Qed.

Lemma fsm_advancement_ok : forall s, dest_wf s -> d_state s <> ST_IDLE ->
  postx (fun _ s' => dest_wf s') E0 (fsm_advancement s).
Proof.
  intros s W N. unfold fsm_advancement. mrun.
  destruct (0 <? zlen (d_queue s)); [mfin; dsolve|].
  destruct (d_step s =? DS_SENDING_EOF_ACK) eqn:Es; [|mfin; dsolve].
  destruct (negb (p_disp (d_p s) =? DISP_CANCELED) && _) eqn:Ec.
  - apply andb_true_iff in Ec. destruct Ec as [Ek Ec]. apply negb_true_iff in Ek.
    apply start_deferred_ok; [exact W | exact N | dsolve | exact Ec | exact Ek].
  - destruct (negb (p_disp (d_p s) =? DISP_CANCELED)); mrun.
    + dcall checksum_verify_ok; [exact W | exact N | intros e s' H; dsolve |].
      intros ok s' H. mrun. mfin. dsolve.
    + mfin. dsolve.
Qed.

Lemma check_limit_handling_ok : forall s, dest_wf s -> d_step s = DS_RECV_WITH_CHECK_LIMIT ->
  postx (fun _ s' => dest_wf s') E0 (check_limit_handling s).
Proof.
  intros s W S. unfold check_limit_handling, rcfg_or_assert. mrun.
  destruct (p_check_timer (d_p s)) as [tm|] eqn:Ht; [|exfalso; dsolve]. mrun.
  destruct (p_rcfg (d_p s)) as [r|] eqn:Hr; [|exfalso; dsolve]. mrun.
  destruct (timed_out (e_now (d_env s)) tm); [|mfin; dsolve].
  dcall checksum_verify_ok; [exact W | dsolve | intros e s' H; dsolve |].
  intros ok s1 H1. destruct ok.
  - dtail ftct_ok; [dsolve | dsolve | dsolve | intros a s' H; dsolve | intros e s' []].
  - mrun. destruct (p_rcfg (d_p s1)) as [r'|] eqn:Hr'; [|exfalso; dsolve].
    destruct (r_check_limit r' <=? p_check_count (d_p s1) + 1).
    + dcall declare_fault_ok; [dsolve | dsolve | intros e s' H; dsolve |].
      (* F34 repair: with the handler IGNORE the call goes on counting; the timer object is still there *)
      intros fh s' H. mrun. destruct (fh =? FH_IGNORE); [|mfin; dsolve].
      mrun. destruct (p_check_timer (d_p s')) as [[t0 tmo]|] eqn:Ht'; [|exfalso; dsolve].
      mfin. dsolve.
    + mrun. destruct (p_check_timer (d_p s1)) as [[t0 tmo]|] eqn:Ht'; [|exfalso; dsolve].
      mfin. dsolve.
Qed.

Lemma hwfmm_ok : forall pkt s, dest_wf s -> d_state s <> ST_IDLE ->
  postx (fun _ s' => dest_wf s') E0 (handle_waiting_for_missing_metadata pkt s).
Proof.
  intros pkt s W N. unfold handle_waiting_for_missing_metadata.
  destruct pkt as [[h off data|h cl ck sz names msgs|h c ck sz fl| | | | | ]|]; try (mfin; dsolve).
  - apply hfwpm_ok; assumption.
  - dcall handle_metadata_packet_ok; [exact W | exact N | intros e s' H; exact H |].
    intros u s1 W1. unfold reset_nak_activity_parameters. dauto.
  - dcall hewpm_ok; [exact W | exact N | intros e s' H; exact H |].
    intros u s1 W1. unfold reset_nak_activity_parameters. dauto.
Qed.

(* ---- part D6 *)
(* ------------------------------------------------------------------ positive ACK procedure and the nested call *)
(* the nested state_machine() call is made only after a fault declaration cancelled the transaction at the ACK limit,
   which needs a transaction that was not cancelled before ([R]); a cancelled one is abandoned instead *)
Lemma hpap_ok : forall (R : Prop) again,
  (forall s0, dest_wf s0 -> d_step s0 = DS_TRANSFER_COMPLETION -> p_disp (d_p s0) = DISP_CANCELED -> R ->
     postx (fun _ s' => dest_wf s') E0 (again s0)) ->
  forall s, dest_wf s -> d_step s = DS_WAITING_FOR_FINISHED_ACK -> (R \/ p_disp (d_p s) = DISP_CANCELED) ->
  postx (fun _ s' => dest_wf s') E0 (handle_positive_ack_procedures again s).
Proof.
  intros R again Hag s W S T. unfold handle_positive_ack_procedures, rcfg_or_assert. mrun.
  destruct (p_ack_timer (d_p s)) as [tm|] eqn:Ht; [|exfalso; dsolve]. mrun.
  destruct (p_rcfg (d_p s)) as [r|] eqn:Hr; [|exfalso; dsolve]. mrun.
  destruct (negb (timed_out (e_now (d_env s)) tm)); [mfin; dsolve|]. mrun.
  eapply postx_bind with (Q1 := fun stop s1 => dest_wf s1 /\ (stop = false -> p_ack_timer (d_p s1) <> None)) (E1 := E0).
  { destruct (r_ack_limit r <=? p_ack_counter (d_p s) + 1); [|mfin; dsolve]. mrun.
    destruct (p_disp (d_p s) =? DISP_CANCELED) eqn:Ed.
    - mrun. destruct (p_tid (d_p s)) as [[a1 b1]|] eqn:Hti; [|exfalso; dsolve]. mrun. mfin. dsolve.
    - dcall declare_fault_ok; [exact W | dsolve | intros e s' H; dsolve |].
      intros fh s2 H2. mrun. destruct (p_disp (d_p s2) =? DISP_CANCELED) eqn:Ed2.
      + dcall Hag; [dsolve | dsolve | dsolve | dsolve | intros e s' H; exact H |].
        intros u s3 W3. mfin. dsolve.
      + mfin. dsolve. }
  { intros e s' H; exact H. }
  intros stop s1 [W1 A1]. cbv beta. destruct stop; [mfin; dsolve|]. mrun.
  destruct (p_ack_timer (d_p s1)) as [[t0 tmo]|] eqn:Ht1; [|exfalso; dsolve]. mrun.
  unfold prepare_finished_pdu, add_packet. dauto.
Qed.

Lemma hwffa_ok : forall (R : Prop) again pkt,
  (forall s0, dest_wf s0 -> d_step s0 = DS_TRANSFER_COMPLETION -> p_disp (d_p s0) = DISP_CANCELED -> R ->
     postx (fun _ s' => dest_wf s') E0 (again s0)) ->
  forall s, dest_wf s -> d_step s = DS_WAITING_FOR_FINISHED_ACK -> (R \/ p_disp (d_p s) = DISP_CANCELED) ->
  postx (fun _ s' => dest_wf s') E0 (handle_waiting_for_finished_ack again pkt s).
Proof.
  intros R again pkt Hag s W S T. unfold handle_waiting_for_finished_ack.
  destruct pkt as [[ | | | | | | | ]|]; try (eapply hpap_ok; eassumption).
  - unfold prepare_eof_ack_packet, add_packet. dauto.
  - mfin. dsolve.
Qed.

(* ------------------------------------------------------------------ the state machine of a busy handler *)
Definition nif_tail (again : D unit) (pkt : option pdu) : D unit :=
  b <- step_is DS_TRANSFER_COMPLETION ;;
  when b handle_transfer_completion ;;;
  b <- step_is DS_SENDING_FINISHED ;;
  when b (n <- gets d_ready ;;
          if 0 <? n then ret tt else (prepare_finished_pdu ;;; handle_finished_pdu_sent)) ;;;
  b <- step_is DS_WAITING_FOR_FINISHED_ACK ;;
  when b (handle_waiting_for_finished_ack again pkt).

Definition nif_body2 (again : D unit) (pkt : option pdu) : D unit :=
  fsm_advancement ;;;
  st <- get_step ;;
  when (((st =? DS_RECEIVING_FILE_DATA) || (st =? DS_RECV_WITH_CHECK_LIMIT)))
    (match pkt with
     | Some (PFileData _ off data) => handle_fd_pdu off data
     | Some (PEof _ cond ck sz _) => handle_eof_pdu cond ck sz
     | _ => ret tt
     end) ;;;
  b <- step_is DS_WAITING_FOR_METADATA ;;
  when b (handle_waiting_for_missing_metadata pkt ;;; deferred_lost_segment_handling) ;;;
  b <- step_is DS_RECV_WITH_CHECK_LIMIT ;;
  when b check_limit_handling ;;;
  b <- step_is DS_WAITING_FOR_MISSING_DATA ;;
  when b
    ((match pkt with
      | Some (PEof _ cond ck sz _) =>
          if cond =? C_NO_ERROR then prepare_eof_ack_packet
          else (setp (fun p => p <| p_deferred := false |>) ;;; handle_eof_pdu cond ck sz)
      | _ => ret tt
      end) ;;;
     (match pkt with
      | Some (PFileData _ off data) =>
          handle_fd_pdu off data ;;;
          active <- gp p_deferred ;;
          when active reset_nak_activity_parameters
      | _ => ret tt
      end) ;;;
     deferred_lost_segment_handling) ;;;
  nif_tail again pkt.

Lemma nif_tail_ok : forall (R : Prop) again pkt,
  (forall s0, dest_wf s0 -> d_step s0 = DS_TRANSFER_COMPLETION -> p_disp (d_p s0) = DISP_CANCELED -> R ->
     postx (fun _ s' => dest_wf s') E0 (again s0)) ->
  forall s, dest_wf s -> tailJ R s -> postx (fun _ s' => dest_wf s') E0 (nif_tail again pkt s).
Proof.
  intros R again pkt Hag s W T. unfold nif_tail. mrun.
  eapply postx_bind with (Q1 := fun _ s1 => dest_wf s1 /\ tailJ R s1) (E1 := NoE).
  { destruct (d_step s =? DS_TRANSFER_COMPLETION) eqn:E1; [rewrite when_true | rewrite when_false; mfin; tauto].
    apply htc_ok; [exact W | dsolve | exact T]. }
  { intros e s' []. }
  intros u1 s1 [W1 T1]. cbv beta. mrun.
  eapply postx_bind with (Q1 := fun _ s2 => dest_wf s2 /\ tailJ R s2) (E1 := E0).
  { destruct (d_step s1 =? DS_SENDING_FINISHED) eqn:E2; [rewrite when_true | rewrite when_false; mfin; tauto].
    mrun. destruct (0 <? d_ready s1) eqn:Er; [mfin; tauto|].
    unfold prepare_finished_pdu. mrun. rewrite Er. mrun. unfold add_packet. mrun.
    dtail (hfps_ok R); [dsolve | dsolve | unfold tailJ in *; dsolve | intros a s' H; exact H | intros e s' []]. }
  { intros e s' H; exact H. }
  intros u2 s2 [W2 T2]. cbv beta. mrun.
  destruct (d_step s2 =? DS_WAITING_FOR_FINISHED_ACK) eqn:E3; [rewrite when_true | rewrite when_false; mfin; dsolve].
  eapply hwffa_ok; [exact Hag | exact W2 | dsolve | unfold tailJ in *; dsolve].
Qed.

(* a section of the state machine that is guarded by the step *)
Lemma section_ok {B} V (m : D unit) (rest : D B) (Q : B -> dst -> Prop) s :
  dest_wf s ->
  (forall s0, dest_wf s0 -> d_step s0 = V -> postx (fun _ s' => dest_wf s') E0 (m s0)) ->
  (forall s', dest_wf s' -> postx Q E0 (rest s')) ->
  postx Q E0 (bind (step_is V) (fun b => bind (when b m) (fun _ => rest)) s).
Proof.
  intros W Hm Hr. rewrite b_step_is. destruct (d_step s =? V) eqn:E.
  - rewrite when_true. apply Z.eqb_eq in E.
    eapply postx_bind; [apply Hm; assumption | intros e s' H; exact H | intros u s' W'; apply Hr; exact W'].
  - rewrite when_false, b_ret. apply Hr. exact W.
Qed.

Lemma nif_body2_ok : forall again pkt,
  (forall s0, dest_wf s0 -> d_step s0 = DS_TRANSFER_COMPLETION -> p_disp (d_p s0) = DISP_CANCELED -> True ->
     postx (fun _ s' => dest_wf s') E0 (again s0)) ->
  forall s, dest_wf s -> d_state s <> ST_IDLE -> postx (fun _ s' => dest_wf s') E0 (nif_body2 again pkt s).
Proof.
  intros again pkt Hag s W N. unfold nif_body2.
  dcall fsm_advancement_ok; [exact W | exact N | intros e s' H; exact H |].
  intros u s1 W1. mrun.
  eapply postx_bind with (Q1 := fun _ s2 => dest_wf s2) (E1 := E0).
  { destruct ((d_step s1 =? DS_RECEIVING_FILE_DATA) || (d_step s1 =? DS_RECV_WITH_CHECK_LIMIT)) eqn:E;
      [rewrite when_true | rewrite when_false; mfin; exact W1].
    assert (d_state s1 <> ST_IDLE) as N1 by dsolve.
    destruct pkt as [[ | | | | | | | ]|]; try (mfin; exact W1).
    - apply handle_fd_pdu_ok; assumption.
    - apply handle_eof_pdu_ok; assumption. }
  { intros e s' H; exact H. }
  intros u2 s2 W2. cbv beta.
  apply section_ok; [exact W2 | |].
  { intros s0 W0 S0. dcall hwfmm_ok; [exact W0 | dsolve | intros e s' H; exact H |].
    intros u3 s3 W3. apply deferred_ok. apply wf_dls_pre. exact W3. }
  intros s3 W3.
  apply section_ok; [exact W3 | intros; apply check_limit_handling_ok; assumption |].
  intros s4 W4.
  apply section_ok; [exact W4 | |].
  { intros s0 W0 S0.
    assert (d_state s0 <> ST_IDLE) as N0 by dsolve.
    destruct pkt as [[h off data| |h c ck sz fl| | | | | ]|];
      try (rewrite !b_ret; apply deferred_ok; apply wf_dls_pre; exact W0).
    - rewrite b_ret.
      eapply postx_bind with (Q1 := fun _ s6 => dest_wf s6) (E1 := E0).
      { dcall handle_fd_pdu_ok; [exact W0 | exact N0 | intros e s' H; exact H |].
        intros u6 s6 W6. unfold reset_nak_activity_parameters. dauto. }
      { intros e s' H; exact H. }
      intros u6 s6 W6. apply deferred_ok. apply wf_dls_pre. exact W6.
    - (* a re-sent EOF is acknowledged; an EOF (cancel) gets the Cancel Response Procedures (F33 repair) *)
      eapply postx_bind with (Q1 := fun _ s5 => dest_wf s5) (E1 := E0).
      { destruct (c =? C_NO_ERROR).
        - eapply postx_weaken with (Q1 := fun _ s5 => dest_wf s5 /\ d_state s5 <> ST_IDLE) (E1 := NoE).
          + unfold prepare_eof_ack_packet, add_packet. dauto.
          + intros a s' [H _]; exact H.
          + intros e s' [].
        - mrun. apply handle_eof_pdu_ok; dsolve. }
      { intros e s' H; exact H. }
      intros u5 s5 W5. rewrite b_ret. apply deferred_ok. apply wf_dls_pre. exact W5. }
  intros s5 W5.
  eapply nif_tail_ok with (R := True); [exact Hag | exact W5 | left; exact I].
Qed.

(* the nested call: a busy handler whose transaction was just cancelled; it never nests again *)
Lemma nif_nested_ok : forall again s, dest_wf s -> d_step s = DS_TRANSFER_COMPLETION -> p_disp (d_p s) = DISP_CANCELED ->
  postx (fun _ s' => dest_wf s') E0 (nif_body2 again None s).
Proof.
  intros again s W S C. unfold nif_body2, fsm_advancement. mrun.
  destruct (0 <? zlen (d_queue s)); [mfin; dsolve|].
  destruct (d_step s =? DS_SENDING_EOF_ACK) eqn:E0; [exfalso; dsolve|]. mrun.
  destruct ((d_step s =? DS_RECEIVING_FILE_DATA) || (d_step s =? DS_RECV_WITH_CHECK_LIMIT)) eqn:E1; [exfalso; dsolve|].
  rewrite when_false. mrun.
  destruct (d_step s =? DS_WAITING_FOR_METADATA) eqn:E2; [exfalso; dsolve|]. rewrite when_false. mrun.
  destruct (d_step s =? DS_RECV_WITH_CHECK_LIMIT) eqn:E3; [exfalso; dsolve|]. rewrite when_false. mrun.
  destruct (d_step s =? DS_WAITING_FOR_MISSING_DATA) eqn:E4; [exfalso; dsolve|]. rewrite when_false. mrun.
  eapply nif_tail_ok with (R := False); [intros s0 _ _ _ [] | exact W | right; left; exact C].
Qed.

Lemma non_idle_fsm_ok : forall fuel pkt s, dest_wf s -> d_state s <> ST_IDLE ->
  postx (fun _ s' => dest_wf s') E0 (non_idle_fsm (S fuel) pkt s).
Proof.
  intros fuel pkt s W N.
  change (non_idle_fsm (S fuel) pkt)
    with (nif_body2 (catch_abandoned (s0 <- get ;; when (d_state s0 =? ST_BUSY) (non_idle_fsm fuel None))) pkt).
  apply nif_body2_ok; [|exact W | exact N].
  intros s0 W0 S0 C0 _. unfold catch_abandoned.
  apply postx_catch with (E1 := E0).
  - mrun. destruct (d_state s0 =? ST_BUSY); [rewrite when_true | rewrite when_false; mfin; exact W0].
    destruct fuel as [|k].
    + change (non_idle_fsm 0 None) with (nif_body2 (raise E_FUEL) None). apply nif_nested_ok; assumption.
    + change (non_idle_fsm (S k) None)
        with (nif_body2 (catch_abandoned (s0 <- get ;; when (d_state s0 =? ST_BUSY) (non_idle_fsm k None))) None).
      apply nif_nested_ok; assumption.
  - intros e k s1 Hh H1. destruct (e =? E_ABANDONED); [|discriminate Hh]. inversion Hh; subst k. mfin. dsolve.
  - intros e s' _ H. exact H.
Qed.

(* ---- part D7 *)

Lemma check_ok : forall p s,
  postx (fun _ s' => s' = s /\ get_remote (l_remotes (d_cfg s)) (h_src (pdu_hdr p)) <> None)
        (fun e s' => s' = s /\ nie e) (check_inserted_packet p s).
Proof.
  intros p s. unfold check_inserted_packet. mrun.
  repeat (mrun; cbv beta iota zeta; dhead); mrun; mfin; (split; [reflexivity | first [congruence | (let X := fresh in unfold nie, internal_error; intro X; vm_compute in X; intuition discriminate)]]).
Qed.

Lemma dest_state_machine_ok : forall pkt s, dest_wf s -> postx (fun _ s' => dest_wf s') E0 (Dest.state_machine pkt s).
Proof.
  intros pkt s W. unfold Dest.state_machine.
  eapply postx_bind with (Q1 := fun _ s1 => s1 = s /\ forall p, pkt = Some p -> get_remote (l_remotes (d_cfg s)) (h_src (pdu_hdr p)) <> None)
                         (E1 := fun e s1 => s1 = s /\ nie e).
  - destruct pkt as [p|]; [|mfin; split; [reflexivity | intros p H; discriminate H]].
    eapply postx_weaken; [apply check_ok | | intros e s' H; exact H].
    intros a s' [H1 H2]. split; [exact H1 | intros p0 Hp; inversion Hp; subst p0; exact H2].
  - intros e s' [-> H]. split; assumption.
  - intros u s1 [-> R]. unfold catch_abandoned. apply postx_catch with (E1 := E0).
    + mrun. destruct (d_state s =? ST_IDLE) eqn:Ei.
      * mrun. dcall idle_fsm_ok; [exact W | dsolve | exact R | intros e s' H; exact H |].
        intros u1 s1 W1. mrun. destruct (0 <? d_ready s1); [mfin; exact W1|]. mrun.
        destruct (d_state s1 =? ST_BUSY) eqn:Eb; [rewrite when_true | rewrite when_false; mfin; exact W1].
        apply non_idle_fsm_ok; [exact W1 | dsolve].
      * mrun. destruct (d_state s =? ST_BUSY) eqn:Eb; [rewrite when_true | rewrite when_false; mfin; exact W].
        apply non_idle_fsm_ok; [exact W | dsolve].
    + intros e k s1 Hh H1. destruct (e =? E_ABANDONED); [|discriminate Hh]. inversion Hh; subst k. mfin. dsolve.
    + intros e s' _ H. exact H.
Qed.

Lemma dest_get_next_packet_ok : forall s, dest_wf s -> postx (fun _ s' => dest_wf s') E0 (Dest.get_next_packet s).
Proof. intros s W. unfold Dest.get_next_packet. dauto. Qed.

Lemma dest_cancel_request_ok : forall a b s, dest_wf s -> postx (fun _ s' => dest_wf s') E0 (Dest.cancel_request a b s).
Proof. intros a b s W. unfold Dest.cancel_request. dauto. Qed.

Lemma dest_reset_ok : forall s, dest_wf s -> postx (fun _ s' => dest_wf s') E0 (Dest.reset s).
Proof. intros s W. unfold Dest.reset. mfin. dsolve. Qed.

Lemma postx_wf_fst {S A} (P : S -> Prop) (x : S * res Z A) : postx (fun _ s' => P s') (fun e s' => P s' /\ nie e) x -> P (fst x).
Proof. unfold postx. destruct x as [s1 [a|e]]; cbn; tauto. Qed.
Lemma postx_wf_snd {S A} (P : S -> Prop) (x : S * res Z A) e :
  postx (fun _ s' => P s') (fun e s' => P s' /\ nie e) x -> internal_error e -> snd x <> Err e.
Proof. unfold postx, nie. destruct x as [s1 [a|e1]]; cbn; [discriminate|]. intros [_ H] Hi Heq. inversion Heq; subst. tauto. Qed.

(* ================================================================== the four receiver lemmas *)
Lemma dest_wf_init : forall c, cfg_ok c -> dest_wf (dst_init c).
Proof. intros c _. unfold dst_init. dsolve. Qed.

Lemma dest_wf_preserved : forall pkt a b s,
  dest_wf s ->
  dest_wf (fst (Dest.state_machine pkt s)) /\ dest_wf (fst (Dest.get_next_packet s)) /\
  dest_wf (fst (Dest.cancel_request a b s)) /\ dest_wf (fst (Dest.reset s)).
Proof.
  intros pkt a b s W. split; [|split; [|split]]; apply postx_wf_fst.
  - apply dest_state_machine_ok; exact W.
  - apply dest_get_next_packet_ok; exact W.
  - apply dest_cancel_request_ok; exact W.
  - apply dest_reset_ok; exact W.
Qed.

Lemma dest_wf_env : forall s f, dest_wf s -> dest_wf (s <| d_env ::= f |>).
Proof. intros s f W. exact W. Qed.

Lemma dest_no_internal_error : forall pkt a b s e,
  dest_wf s -> internal_error e ->
  snd (Dest.state_machine pkt s) <> Err e /\ snd (Dest.get_next_packet s) <> Err e /\
  snd (Dest.cancel_request a b s) <> Err e /\ snd (Dest.reset s) <> Err e.
Proof.
  intros pkt a b s e W He. split; [|split; [|split]]; (eapply postx_wf_snd; [|exact He]).
  - apply dest_state_machine_ok; exact W.
  - apply dest_get_next_packet_ok; exact W.
  - apply dest_cancel_request_ok; exact W.
  - apply dest_reset_ok; exact W.
Qed.

(* ---- part S1 *)

Definition ssv (s : src) := (s_state s, s_step s, s_step_before s, s_p s, s_put s).
Definition SE0 (e : Z) (s' : src) : Prop := source_wf s' /\ nie e.
Definition SNoE (e : Z) (s : src) : Prop := False.

Lemma wf_ssv : forall s s', ssv s' = ssv s -> source_wf s -> source_wf s'.
Proof.
  intros s s' H. unfold ssv in H. injection H as H1 H2 H3 H4 H5. unfold source_wf. rewrite H1, H2, H3, H4, H5. exact (fun x => x).
Qed.

(* lia on the atomic hypotheses only: the implications of the invariants would make it split cases endlessly *)
Ltac alia :=
  repeat match goal with
  | H : ?T |- _ => lazymatch T with
                   | _ -> _ => clear H | _ \/ _ => clear H | hold _ => clear H | forall _, _ => clear H
                   end
  end; lia.
Ltac easyt ::= solve [ assumption | reflexivity | contradiction | congruence | alia ].
Ltac sconsts :=
  unfold SS_IDLE, SS_TRANSACTION_START, SS_SENDING_METADATA, SS_SENDING_FILE_DATA, SS_RETRANSMITTING, SS_SENDING_EOF,
    SS_WAITING_FOR_EOF_ACK, SS_WAITING_FOR_FINISHED, SS_SENDING_ACK_OF_FINISHED, SS_NOTICE_OF_COMPLETION, ST_IDLE, ST_BUSY,
    E_ASSERT, E_ATTRIBUTE, E_TYPE, E_KEY, E_FUEL, E_VALUE, E_ABANDONED, E_UNRETRIEVED, E_NO_REMOTE_CFG,
    E_FILE_NOT_FOUND, E_IS_A_DIRECTORY, E_PERMISSION, E_CHECKSUM_NOT_IMPL, E_SOURCE_FILE_MISSING, E_INVALID_NAK,
    C_NO_ERROR, FH_CANCEL, FH_ABANDON, FH_IGNORE, FH_SUSPEND in *.
Ltac ssv_norm :=
  repeat match goal with
  | H : ssv ?a = ssv ?b |- _ =>
      unfold ssv in H; let H1 := fresh in let H2 := fresh in let H3 := fresh in let H4 := fresh in let H5 := fresh in
      injection H as H1 H2 H3 H4 H5;
      try rewrite H1 in *; try rewrite H2 in *; try rewrite H3 in *; try rewrite H4 in *; try rewrite H5 in *
  end.
(* instantiate the quantifier of the names conjunct with the put request at hand *)
Ltac inst_put :=
  repeat match goal with
  | H : forall p : putreq, ?x = Some p -> _, Hp : ?x = Some ?p0 |- _ => specialize (H p0 Hp)
  | H : forall p : putreq, Some ?p0 = Some p -> _ |- _ => specialize (H p0 eq_refl)
  end.
Ltac bool_hyps2 :=
  bool_hyps;
  repeat match goal with
  | H : (_ <? _) = true |- _ => apply Z.ltb_lt in H
  | H : (_ <? _) = false |- _ => apply Z.ltb_ge in H
  | H : (_ <=? _) = true |- _ => apply Z.leb_le in H
  | H : (_ <=? _) = false |- _ => apply Z.leb_gt in H
  end.
Ltac rw1 H := first [rewrite H in * | idtac]; clear H.
Ltac ssv_rw :=
  repeat match goal with
  | H : s_state ?a = s_state ?b |- _ => is_var a; is_var b; rw1 H
  | H : s_step ?a = s_step ?b |- _ => is_var a; is_var b; rw1 H
  | H : s_step_before ?a = s_step_before ?b |- _ => is_var a; is_var b; rw1 H
  | H : s_put ?a = s_put ?b |- _ => is_var a; is_var b; rw1 H
  | H : s_p ?a = s_p ?b |- _ => is_var a; is_var b; rw1 H
  | H : s_step_before ?a = Some _ |- _ => is_var a; rw1 H
  | H : ?x = Some _ |- context [opt_z ?x] => rewrite H in *
  | H : ?x = Some _, H' : context [opt_z ?x] |- _ => rewrite H in *
  end; cbn [opt_z] in *.
Ltac ssolve :=
  unfold SE0, SNoE in *; hsplit; csplit; try assumption;
  unfold nie, internal_error, source_wf, stepinv in *; ssv_norm; cbn in *; ssv_rw; bool_hyps2; sconsts;
  sat; gsplit; inst_put; sat; inst_put; sat; fin.

Ltac shead :=
  lazymatch goal with
  | |- postx _ _ (bind (when ?c _) _ _) => destruct c eqn:?; [rewrite when_true | rewrite when_false]
  | |- postx _ _ (when ?c _ _) => destruct c eqn:?; [rewrite when_true | rewrite when_false]
  | |- postx _ _ (bind (match ?x with _ => _ end) _ _) => let y := stuck x in destruct y eqn:?
  | |- postx _ _ ((match ?x with _ => _ end) _) => let y := stuck x in destruct y eqn:?
  end.
Ltac sleaf := try solve [sfin; ssolve].
Ltac sauto := repeat (srun; cbv beta iota zeta; shead); srun; sleaf.
Ltac scall L := eapply postx_bind; [eapply L | |]; cbv beta.
Ltac stail L := eapply postx_weaken; [eapply L | |]; cbv beta.

Definition has_names (s : src) : Prop := exists p n, s_put s = Some p /\ pr_names p = Some n.

Lemma pfd_ok : forall o l s, has_names s ->
  postx (fun _ s' => ssv s' = ssv s) (fun e s' => ssv s' = ssv s /\ nie e) (prepare_file_data_pdu o l s).
Proof.
  intros o l s (p & n & Hp & Hn). unfold prepare_file_data_pdu, src_names, put_or_assert, sadd_packet. srun.
  rewrite Hp. srun. rewrite Hn. srun.
  destruct (fs_read_data _ _ _ _) as [d|e]; srun; sfin; [reflexivity | split; [reflexivity | apply oserr_nie]].
Qed.

Lemma retransmit_chunks_ok : forall fuel o m seg s, has_names s -> 1 <= seg -> (Z.to_nat m < fuel)%nat ->
  postx (fun _ s' => ssv s' = ssv s) (fun e s' => ssv s' = ssv s /\ nie e) (retransmit_chunks fuel o m seg s).
Proof.
  induction fuel as [|k IH]; intros o m seg s Hn Hs Hf; [lia|].
  cbn [retransmit_chunks]. destruct (0 <? m) eqn:Em; [|sfin; reflexivity].
  apply Z.ltb_lt in Em.
  scall pfd_ok; [exact Hn | intros e s' H; exact H |].
  intros u s1 H1.
  assert (has_names s1) as Hn1.
  { unfold has_names in *. unfold ssv in H1. injection H1 as _ _ _ _ H5. rewrite H5. exact Hn. }
  stail IH; [exact Hn1 | exact Hs | lia | |].
  - intros a s' H. congruence.
  - intros e s' [H H']. split; [congruence | exact H'].
Qed.

(* ---- part S2 *)
Lemma checksum_calculation_ok : forall size s, source_wf s -> q_tid (s_p s) <> None ->
  (q_md_only (s_p s) = true \/ (0 < size -> 1 <= q_segment_len (s_p s))) ->
  postx (fun _ s' => s' = s) (fun e s' => s' = s /\ nie e) (checksum_calculation size s).
Proof.
  intros size s W T G. unfold checksum_calculation, put_or_assert, srcfg_or_assert. srun.
  destruct (s_put s) as [p|] eqn:Hp; [|exfalso; ssolve]. srun.
  destruct (q_md_only (s_p s)) eqn:Hm; [sfin; reflexivity|].
  destruct (pr_names p) as [[sn dn]|] eqn:Hn; [|exfalso; ssolve]. srun.
  destruct (q_rcfg (s_p s)) as [r|] eqn:Hr; [|exfalso; ssolve]. srun.
  destruct (r_cktype r =? CK_NULL); [sfin; reflexivity|].
  destruct (lookup (e_fs (s_env s)) sn) as [[d|]|]; try (sfin; split; [reflexivity | ssolve]).
  assert (0 < size -> 0 < q_segment_len (s_p s)) as G' by (destruct G as [G|G]; [discriminate G | intro; specialize (G H); lia]).
  pose proof (calc_no_fuel (r_cktype r) d size _ G') as X.
  destruct (calculate_checksum (r_cktype r) (Some d) size (q_segment_len (s_p s))) as [c|[]]; sfin; try reflexivity;
    try (split; [reflexivity | ssolve]).
Qed.

Lemma prepare_metadata_pdu_ok : forall s, source_wf s -> s_state s <> ST_IDLE ->
  postx (fun _ s' => ssv s' = ssv s) SNoE (prepare_metadata_pdu s).
Proof.
  intros s W N. unfold prepare_metadata_pdu, put_or_assert, srcfg_or_assert, sadd_packet. sauto.
Qed.

Lemma prepare_eof_pdu_ok : forall ck s, q_cond_eof (s_p s) <> None -> q_tid (s_p s) <> None ->
  postx (fun _ s' => ssv s' = ssv s) SNoE (prepare_eof_pdu ck s).
Proof.
  intros ck s C T. unfold prepare_eof_pdu, stid_or_assert, sadd_packet. sauto.
Qed.

Lemma handle_eof_sent_ok : forall b s, source_wf s -> q_tid (s_p s) <> None -> q_cond_eof (s_p s) <> None ->
  postx (fun _ s' => source_wf s') SNoE (handle_eof_sent b s).
Proof.
  (* F21 repair: the cancelled unacknowledged transaction ends through notice_of_completion_s; q_cond_eof is set (C) *)
  intros b s W T C. unfold handle_eof_sent, start_positive_ack_procedure_s, srcfg_or_assert, notice_of_completion_s, stid_or_assert. sauto.
Qed.

Lemma notice_of_cancellation_s_ok : forall c s, source_wf s -> q_tid (s_p s) <> None ->
  postx (fun _ s' => source_wf s') SE0 (notice_of_cancellation_s c s).
Proof.
  intros c s W T. unfold notice_of_cancellation_s, stid_or_assert. srun.
  assert (forall s0, source_wf s0 -> q_tid (s_p s0) <> None -> q_cond_eof (s_p s0) <> None ->
            postx (fun _ s' => source_wf s') SE0
              ((ck <- checksum_calculation (q_progress (s_p s0)) ;; prepare_eof_pdu ck ;;; handle_eof_sent true ;;; ret true) s0)) as Tail.
  { intros s0 W0 T0 C0.
    scall checksum_calculation_ok; [exact W0 | exact T0 | right; ssolve | intros e s' [-> H]; split; assumption |].
    intros ck s1 ->.
    scall prepare_eof_pdu_ok; [exact C0 | exact T0 | intros e s' [] |].
    intros u s2 H2.
    scall handle_eof_sent_ok; [ssolve | ssolve | ssolve | intros e s' [] |].
    intros u3 s3 W3. sfin. exact W3. }
  destruct (q_cond_eof (s_p s)) as [c0|] eqn:Hc; [destruct (negb (c0 =? C_NO_ERROR)) eqn:Hn|]; srun.
  - destruct (q_tid (s_p s)) as [t|] eqn:Ht; [|exfalso; ssolve]. srun. sfin. ssolve.
  - apply Tail; ssolve.
  - apply Tail; ssolve.
Qed.

Lemma declare_fault_s_ok : forall c s, source_wf s -> q_tid (s_p s) <> None ->
  postx (fun _ s' => source_wf s') SE0 (declare_fault_s c s).
Proof.
  intros c s W T. unfold declare_fault_s. srun.
  destruct (q_tid (s_p s)) as [[a b]|] eqn:Ht; [|exfalso; ssolve].
  destruct (get_fault_handler (l_faults (s_cfg s)) c) as [h|]; [|srun; sfin; ssolve].
  destruct (h =? FH_CANCEL); [|destruct (h =? FH_ABANDON)]; srun.
  - scall notice_of_cancellation_s_ok; [exact W | ssolve | intros e s' H; exact H |].
    intros go s1 W1. destruct (negb go); sfin; ssolve.
  - sfin. ssolve.
  - sfin. ssolve.
Qed.

(* an ignored fault changes the event log only (F34 repair: the callers carry on in that case) *)
Lemma declare_fault_s_ok2 : forall c s, source_wf s -> q_tid (s_p s) <> None ->
  postx (fun _ s' => source_wf s' /\ (fault_ignored (s_cfg s') c = true -> ssv s' = ssv s)) SE0 (declare_fault_s c s).
Proof.
  intros c s W T. pose proof (declare_fault_s_ok c s W T) as X.
  pose proof (minv_state _ _ _ s (cfg_declare_fault_s c)) as Hc.
  assert (fault_ignored (s_cfg s) c = true -> postx (fun _ s' => ssv s' = ssv s) SNoE (declare_fault_s c s)) as Y.
  { intro Hig. unfold declare_fault_s. srun. unfold fault_ignored in Hig.
    destruct (q_tid (s_p s)) as [[a b]|]; [|contradiction T; reflexivity].
    destruct (get_fault_handler (l_faults (s_cfg s)) c) as [h|]; [|discriminate Hig].
    apply Z.eqb_eq in Hig. subst h.
    change (FH_IGNORE =? FH_CANCEL) with false. change (FH_IGNORE =? FH_ABANDON) with false. cbv iota.
    srun. sfin. reflexivity. }
  unfold postx in *. destruct (declare_fault_s c s) as [s1 [u|e]]; cbn [fst] in Hc; [|exact X].
  split; [exact X|]. rewrite Hc. exact Y.
Qed.

(* ---- part S3 *)
Arguments fs_file_exists : simpl never.
Arguments fs_file_size : simpl never.
Arguments originating_id : simpl never.
Arguments max_file_seg_len : simpl never.

Lemma transaction_start_ok : forall s, source_wf s -> s_state s <> ST_IDLE -> s_step s = SS_TRANSACTION_START ->
  postx (fun _ s' => source_wf s' /\ s_state s' <> ST_IDLE /\ s_step s' = SS_TRANSACTION_START /\ q_tid (s_p s') <> None)
        SE0 (transaction_start s).
Proof.
  intros s W N S. unfold transaction_start, put_or_assert, srcfg_or_assert. srun.
  destruct (s_put s) as [p|] eqn:Hp; [|exfalso; ssolve]. srun.
  eapply postx_bind with
    (Q1 := fun _ s1 => source_wf s1 /\ s_state s1 <> ST_IDLE /\ s_step s1 = SS_TRANSACTION_START /\ s_put s1 = Some p /\
                       (pr_names p = None -> q_md_only (s_p s1) = true)) (E1 := SE0).
  { destruct (pr_names p) as [[sn dn]|] eqn:Hn; srun; [|sfin; ssolve].
    destruct (negb (fs_file_exists (e_fs (s_env s)) sn)); [sfin; ssolve|].
    destruct (fs_file_size (e_fs (s_env s)) sn) as [size|e]; [|sfin; pose proof (oserr_nie e); ssolve].
    destruct (size =? 0); sfin; ssolve. }
  { intros e s' H; exact H. }
  intros u s1 (W1 & N1 & S1 & P1 & M1). cbv beta. srun.
  destruct (q_rcfg (s_p s1)) as [r|] eqn:Hr; [|exfalso; ssolve]. srun.
  destruct (q_file_size (s_p s1)) as [fsz|] eqn:Hf; [|exfalso; ssolve].
  eapply postx_bind with
    (Q1 := fun _ s2 => source_wf s2 /\ s_state s2 <> ST_IDLE /\ s_step s2 = SS_TRANSACTION_START /\ s_put s2 = Some p /\
                       (pr_names p = None -> q_md_only (s_p s2) = true)) (E1 := SNoE).
  { destruct (negb (q_md_only (s_p s1))); [rewrite when_true | rewrite when_false]; sfin; ssolve. }
  { intros e s' []. }
  intros u2 s2 (W2 & N2 & S2 & P2 & M2). cbv beta.
  eapply postx_bind with
    (Q1 := fun _ s3 => source_wf s3 /\ s_state s3 <> ST_IDLE /\ s_step s3 = SS_TRANSACTION_START /\ s_put s3 = Some p /\
                       (pr_names p = None -> q_md_only (s_p s3) = true)) (E1 := SNoE).
  { sfin. ssolve. }
  { intros e s' []. }
  intros u3 s3 (W3 & N3 & S3 & P3 & M3). cbv beta. srun.
  eapply postx_bind with
    (Q1 := fun _ s4 => source_wf s4 /\ s_state s4 <> ST_IDLE /\ s_step s4 = SS_TRANSACTION_START /\ s_put s4 = Some p /\
                       (pr_names p = None -> q_md_only (s_p s4) = true)) (E1 := SE0).
  { destruct (negb _); [sfin; ssolve|]. destruct (_ <=? _); sfin; ssolve. }
  { intros e s' H; exact H. }
  intros u4 s4 (W4 & N4 & S4 & P4 & M4). cbv beta. srun.
  destruct (max_file_seg_len _ _) as [derived|]; [|sfin; ssolve]. cbv zeta.
  destruct (r_max_packet r <? _); [sfin; ssolve|]. srun. sfin.
  clear - W4 N4 S4 P4 M4. ssolve.
Qed.

(* ---- part S4 *)

(* a step in which a transaction is running *)
Definition running (s : src) : Prop := s_step s <> SS_IDLE /\ s_step s <> SS_TRANSACTION_START.

Lemma wf_names : forall s, source_wf s -> running s -> 0 < q_progress (s_p s) -> has_names s.
Proof.
  intros s W [R1 R2] P. unfold has_names.
  destruct (s_put s) as [p|] eqn:Hp; [|exfalso; ssolve].
  destruct (pr_names p) as [n|] eqn:Hn; [exists p, n; split; [reflexivity | exact Hn]|].
  exfalso. ssolve.
Qed.

Lemma handle_segment_req_ok : forall rq s, source_wf s -> running s -> 0 <= fst rq ->
  postx (fun _ s' => ssv s' = ssv s) (fun e s' => ssv s' = ssv s /\ nie e) (handle_segment_req rq s).
Proof.
  intros [a b] s W R A. cbn [fst] in A. unfold handle_segment_req.
  destruct ((a =? 0) && (b =? 0)).
  - stail prepare_metadata_pdu_ok; [exact W | destruct R; ssolve | intros u s' H; exact H | intros e s' []].
  - destruct (b <? a) eqn:E1; [sfin; split; [reflexivity | ssolve]|]. srun.
    destruct (q_progress (s_p s) <? a) eqn:E2; [sfin; split; [reflexivity | ssolve]|].
    destruct (q_progress (s_p s) <? b) eqn:E3; [sfin; split; [reflexivity | ssolve]|]. srun.
    apply Z.ltb_ge in E1, E2, E3.
    destruct (Z.eq_dec a b) as [->|Hab].
    + cbn [retransmit_chunks]. replace (b - b) with 0 by lia. change (0 <? 0) with false. sfin. reflexivity.
    + apply retransmit_chunks_ok.
      * apply wf_names; [exact W | exact R | lia].
      * assert (0 < q_progress (s_p s)) by lia. clear - W H. ssolve.
      * lia.
Qed.

Lemma fold_segment_reqs_ok : forall reqs (m0 : SM unit),
  Forall (fun rq => 0 <= fst rq) reqs ->
  (forall s, source_wf s -> running s -> postx (fun _ s' => ssv s' = ssv s) (fun e s' => ssv s' = ssv s /\ nie e) (m0 s)) ->
  forall s, source_wf s -> running s ->
  postx (fun _ s' => ssv s' = ssv s) (fun e s' => ssv s' = ssv s /\ nie e)
        (fold_left (fun m rq => m ;;; handle_segment_req rq) reqs m0 s).
Proof.
  induction reqs as [|rq reqs IH]; intros m0 HF Hm s W R; cbn [fold_left]; [apply Hm; assumption|].
  inversion HF as [|? ? Hrq Hrest]; subst. apply IH; [exact Hrest | | exact W | exact R].
  intros s0 W0 R0. scall Hm; [exact W0 | exact R0 | intros e s' H; exact H |].
  intros u s1 H1.
  assert (source_wf s1) as W1 by (eapply wf_ssv; eassumption).
  assert (running s1) as R1 by (unfold running, ssv in *; injection H1 as _ X _ _ _; rewrite X; exact R0).
  stail handle_segment_req_ok; [exact W1 | exact R1 | exact Hrq | |].
  - intros a s' H. congruence.
  - intros e s' [H H']. split; [congruence | exact H'].
Qed.

Definition is_nak (pkt : option pdu) : bool := match pkt with Some (PNak _ _ _ _) => true | _ => false end.

Lemma handle_retransmission_ok : forall pkt s, source_wf s -> running s -> s_step s <> SS_RETRANSMITTING -> nak_offsets_unsigned pkt ->
  postx (fun (rt : bool) s' => if rt then source_wf s' else s' = s /\ is_nak pkt = false) SE0 (handle_retransmission pkt s).
Proof.
  intros pkt s W R NR U. unfold handle_retransmission.
  destruct pkt as [[ | | | | |h sos eos reqs| | ]|]; try (sfin; split; reflexivity).
  cbn in U.
  eapply postx_bind.
  - apply fold_segment_reqs_ok; [exact U | | exact W | exact R].
    intros s0 _ _. sfin. reflexivity.
  - intros e s' [H H']. split; [eapply wf_ssv; eassumption | exact H'].
  - intros u s1 H1. cbv beta. srun. sfin. destruct R. ssolve.
Qed.

Lemma prepare_progressing_ok : forall s, source_wf s -> s_step s = SS_SENDING_FILE_DATA ->
  q_md_only (s_p s) = false -> q_progress (s_p s) < opt_z (q_file_size (s_p s)) ->
  postx (fun _ s' => source_wf s' /\ s_step s' = s_step s /\ s_state s' = s_state s) SE0 (prepare_progressing_file_data_pdu s).
Proof.
  intros s W R M P. unfold prepare_progressing_file_data_pdu. srun.
  assert (has_names s) as Hn.
  { unfold has_names. destruct (s_put s) as [p|] eqn:Hp; [|exfalso; ssolve].
    destruct (pr_names p) as [n|] eqn:Hn; [exists p, n; split; [reflexivity | exact Hn]|]. exfalso. ssolve. }
  scall pfd_ok; [exact Hn | intros e s' [H H']; split; [eapply wf_ssv; eassumption | exact H'] |].
  intros u s1 H1. sfin.
  destruct (opt_z (q_file_size (s_p s)) <? q_segment_len (s_p s)) eqn:E1;
    [|destruct (opt_z (q_file_size (s_p s)) <? q_progress (s_p s) + q_segment_len (s_p s)) eqn:E2];
    clear Hn; ssolve.
Qed.

(* ---- part S5 *)
(* exceptional exit of the functions that see the inbound PDU: the invariant always, no internal error if the PDU is sane *)
Definition SEU (U : Prop) (e : Z) (s' : src) : Prop := source_wf s' /\ (U -> nie e).
Lemma SE0_SEU : forall U e s', SE0 e s' -> SEU U e s'.
Proof. intros U e s' [H1 H2]. split; [exact H1 | intros _; exact H2]. Qed.

Lemma postx_combine {S A} (U : Prop) (Q : A -> S -> Prop) (P : S -> Prop) (x : S * res Z A) :
  postx Q (fun _ s' => P s') x -> (U -> postx Q (fun e s' => P s' /\ nie e) x) ->
  postx Q (fun e s' => P s' /\ (U -> nie e)) x.
Proof.
  unfold postx. destruct x as [s1 [a|e]]; intros H1 H2; [exact H1|].
  split; [exact H1 | intro HU; apply (H2 HU)].
Qed.

(* the answers to a NAK only queue PDUs, whatever the segment requests are *)
Lemma sv_pfd : forall o l, MInv ssv Any (prepare_file_data_pdu o l). Proof. intros. minv. Qed.
Lemma sv_pmd : MInv ssv Any prepare_metadata_pdu. Proof. minv. Qed.
#[local] Hint Resolve sv_pfd sv_pmd : minv.
Lemma sv_rc : forall fuel o m seg, MInv ssv Any (retransmit_chunks fuel o m seg).
Proof. induction fuel; intros; cbn [retransmit_chunks]; minv. Qed.
#[local] Hint Resolve sv_rc : minv.
Lemma sv_hsr : forall rq, MInv ssv Any (handle_segment_req rq). Proof. intro. minv. Qed.
#[local] Hint Resolve sv_hsr : minv.

Lemma handle_retransmission_any : forall pkt s, source_wf s -> running s -> s_step s <> SS_RETRANSMITTING ->
  postx (fun (rt : bool) s' => if rt then source_wf s' else s' = s /\ is_nak pkt = false) (fun _ s' => source_wf s')
        (handle_retransmission pkt s).
Proof.
  intros pkt s W R NR. unfold handle_retransmission.
  destruct pkt as [[ | | | | |h sos eos reqs| | ]|]; try (sfin; split; reflexivity).
  eapply postx_bind.
  - apply postx_minv with (delta := ssv) (Ex := Any). minv.
  - intros e s' [H _]. eapply wf_ssv; eassumption.
  - intros u s1 H1. cbv beta. srun. sfin. destruct R. ssolve.
Qed.

Lemma handle_retransmission_u : forall pkt s, source_wf s -> running s -> s_step s <> SS_RETRANSMITTING ->
  postx (fun (rt : bool) s' => if rt then source_wf s' else s' = s /\ is_nak pkt = false) (SEU (nak_offsets_unsigned pkt))
        (handle_retransmission pkt s).
Proof.
  intros pkt s W R NR. apply postx_combine.
  - apply handle_retransmission_any; assumption.
  - intro U. apply handle_retransmission_ok; assumption.
Qed.

Lemma sending_file_data_fsm_ok : forall pkt s, source_wf s -> s_step s = SS_SENDING_FILE_DATA ->
  postx (fun _ s' => source_wf s') (SEU (nak_offsets_unsigned pkt)) (sending_file_data_fsm pkt s).
Proof.
  intros pkt s W S. unfold sending_file_data_fsm. srun.
  eapply postx_bind with (Q1 := fun (rt : bool) s' => if rt then source_wf s' else s' = s) (E1 := SEU (nak_offsets_unsigned pkt)).
  { destruct (if s_state s =? ST_IDLE then false else sc_mode (q_conf (s_p s)) =? ACKED); [|sfin; reflexivity].
    stail handle_retransmission_u; [exact W | unfold running; ssolve | ssolve | | intros e s' H; exact H].
    intros [|] s' H; [exact H | destruct H; assumption]. }
  { intros e s' H; exact H. }
  intros rt s1 H1. cbv beta. destruct rt; [sfin; exact H1|]. subst s1. srun.
  destruct (negb (q_md_only (s_p s)) && (q_progress (s_p s) <? opt_z (q_file_size (s_p s)))) eqn:Ec.
  - apply andb_true_iff in Ec. destruct Ec as [Ec1 Ec2]. apply negb_true_iff in Ec1. apply Z.ltb_lt in Ec2.
    scall prepare_progressing_ok; [exact W | exact S | exact Ec1 | exact Ec2 | intros e s' H; apply SE0_SEU; exact H |].
    intros u s1 H1. sfin. tauto.
  - destruct (q_empty_file (s_p s)); [|destruct (q_md_only (s_p s)) eqn:Em; [destruct (q_closure (s_p s) || _)|]];
      srun; sfin; ssolve.
Qed.

Lemma hpap_s_ok : forall s, source_wf s -> s_step s = SS_WAITING_FOR_EOF_ACK ->
  postx (fun _ s' => source_wf s') SE0 (handle_positive_ack_procedures_s s).
Proof.
  intros s W S. unfold handle_positive_ack_procedures_s, srcfg_or_assert. srun.
  destruct (q_ack_timer (s_p s)) as [tm|] eqn:Ht; [|exfalso; ssolve]. srun.
  destruct (q_rcfg (s_p s)) as [r|] eqn:Hr; [|exfalso; ssolve]. srun.
  destruct (negb (timed_out (e_now (s_env s)) tm)); [sfin; ssolve|]. srun.
  (* timer restarted, counter + 1, the EOF again: below the limit, and at the limit if the fault is ignored (F34 repair) *)
  assert (forall s0, ssv s0 = ssv s -> postx (fun _ s' => source_wf s') SE0
            ((setq (fun q => q <| q_ack_timer := Some (e_now (s_env s), snd tm) |>
                                <| q_ack_counter := q_ack_counter (s_p s) + 1 |>) ;;;
              pr <- gq q_progress ;; ck <- checksum_calculation pr ;; prepare_eof_pdu ck) s0)) as Tail.
  { intros s0 H0. assert (source_wf s0) as W0 by (eapply wf_ssv; eassumption). srun.
    scall checksum_calculation_ok; [ssolve | ssolve | right; ssolve | intros e s' [-> H]; split; [ssolve | exact H] |].
    intros ck s1 ->.
    stail prepare_eof_pdu_ok; [ssolve | ssolve | | intros e s' []].
    intros u s' H. eapply wf_ssv; [exact H|]. ssolve. }
  destruct (r_ack_limit r <=? q_ack_counter (s_p s) + 1).
  - scall declare_fault_s_ok2; [exact W | ssolve | intros e s' H; exact H |].
    intros u s1 [W1 Hig]. srun.
    destruct (fault_ignored (s_cfg s1) C_POS_ACK_LIMIT); [|sfin; exact W1].
    apply Tail. apply Hig. reflexivity.
  - apply Tail. reflexivity.
Qed.

Definition not_file_data (pkt : option pdu) : Prop := match pkt with Some (PFileData _ _ _) => False | _ => True end.

Lemma handle_waiting_for_ack_ok : forall pkt s, source_wf s -> s_step s = SS_WAITING_FOR_EOF_ACK -> not_file_data pkt ->
  postx (fun _ s' => source_wf s') (SEU (nak_offsets_unsigned pkt)) (handle_waiting_for_ack pkt s).
Proof.
  intros pkt s W S NF. unfold handle_waiting_for_ack.
  scall handle_retransmission_u; [exact W | unfold running; ssolve | ssolve | intros e s' H; exact H |].
  intros rt s1 H1. destruct rt; [sfin; exact H1|]. destruct H1 as [-> Hn].
  destruct pkt as [[ | | |h cond deliv fstatus fl|h acked cond st| | | ]|]; try discriminate Hn; try contradiction;
    try (stail hpap_s_ok; [exact W | exact S | intros; assumption | intros e s' H; apply SE0_SEU; exact H]).
  - (* Finished PDU: on to WAITING_FOR_FINISHED, which asks nothing of the parameter block (F30 repair) *)
    sfin. ssolve.
  - destruct (acked =? D_EOF); [rewrite when_true | rewrite when_false]; sfin; ssolve.
Qed.

Lemma handle_wait_for_finish_ok : forall pkt s, source_wf s -> s_step s = SS_WAITING_FOR_FINISHED ->
  postx (fun _ s' => source_wf s') (SEU (nak_offsets_unsigned pkt)) (handle_wait_for_finish pkt s).
Proof.
  intros pkt s W S. unfold handle_wait_for_finish. srun.
  eapply postx_bind with (Q1 := fun (rt : bool) s' => if rt then source_wf s' else s' = s) (E1 := SEU (nak_offsets_unsigned pkt)).
  { destruct (if s_state s =? ST_IDLE then false else sc_mode (q_conf (s_p s)) =? ACKED); [|sfin; reflexivity].
    stail handle_retransmission_u; [exact W | unfold running; ssolve | ssolve | | intros e s' H; exact H].
    intros [|] s' H; [exact H | destruct H; assumption]. }
  { intros e s' H; exact H. }
  intros rt s1 H1. cbv beta. destruct rt; [sfin; exact H1|]. subst s1.
  assert (forall s0, s0 = s -> postx (fun _ s' => source_wf s') (SEU (nak_offsets_unsigned pkt))
            ((t <- gq q_check_timer ;; n <- snow ;;
              match t with
              | Some tm =>
                  when (timed_out n tm)
                    (declare_fault_s C_CHECK_LIMIT ;;;
                     l <- gets s_cfg ;;
                     when (fault_ignored l C_CHECK_LIMIT) (setq (fun q => q <| q_check_timer := Some (n, snd tm) |>)))
              | None => ret tt
              end) s0)) as Hchk.
  { intros s0 ->. srun. destruct (q_check_timer (s_p s)) as [tm|]; [|sfin; exact W].
    destruct (timed_out (e_now (s_env s)) tm); [rewrite when_true | rewrite when_false; sfin; exact W].
    (* F34 repair: with the handler IGNORE the check timer is restarted, which the invariant does not look at *)
    scall declare_fault_s_ok; [exact W | ssolve | intros e s' H; apply SE0_SEU; exact H |].
    intros u s1 W1. srun.
    destruct (fault_ignored (s_cfg s1) C_CHECK_LIMIT); [rewrite when_true | rewrite when_false; sfin; exact W1].
    sfin. ssolve. }
  destruct pkt as [[ | | |h cond deliv fstatus fl| | | | ]|]; try (apply Hchk; reflexivity).
  srun. destruct (if s_state _ =? ST_IDLE then false else _); unfold sadd_packet; srun; sfin; ssolve.
Qed.

Lemma notice_of_completion_s_ok : forall s, source_wf s -> s_step s = SS_NOTICE_OF_COMPLETION ->
  postx (fun _ s' => source_wf s') SNoE (notice_of_completion_s s).
Proof.
  intros s W S. unfold notice_of_completion_s, stid_or_assert. srun.
  destruct (l_ind_fin (s_cfg s)); [rewrite when_true | rewrite when_false; srun; sfin; ssolve]. srun.
  destruct (q_tid (s_p s)) as [t|] eqn:Ht; [|exfalso; ssolve]. srun.
  destruct (match q_fin (s_p s) with Some x => x | None => _ end) as [[[cond deliv] fstatus] fl]. srun. sfin. ssolve.
Qed.

Lemma fsm_advancement_s_ok : forall s, source_wf s ->
  postx (fun _ s' => source_wf s' /\ s_state s' = s_state s) SE0 (fsm_advancement_s s).
Proof.
  intros s W. unfold fsm_advancement_s. srun.
  destruct (0 <? zlen (s_queue s)); [sfin; ssolve|].
  destruct (s_step s =? SS_SENDING_METADATA) eqn:E1; [sfin; ssolve|].
  destruct (s_step s =? SS_RETRANSMITTING) eqn:E2.
  - destruct (s_step_before s) as [b|] eqn:Hb; [|exfalso; ssolve]. sfin. ssolve.
  - destruct (s_step s =? SS_SENDING_FILE_DATA) eqn:E3.
    + destruct (q_file_size (s_p s)) as [sz|] eqn:Hf; [|exfalso; ssolve].
      destruct (q_progress (s_p s) =? sz) eqn:E4; [rewrite when_true | rewrite when_false]; srun; sfin; ssolve.
    + destruct (s_step s =? SS_SENDING_ACK_OF_FINISHED) eqn:E4; sfin; ssolve.
Qed.

(* ---- part S6 *)
Lemma ssection_ok {B} (U : Prop) V (m : SM unit) (rest : SM B) (Q : B -> src -> Prop) s :
  source_wf s ->
  (forall s0, source_wf s0 -> s_step s0 = V -> postx (fun _ s' => source_wf s') (SEU U) (m s0)) ->
  (forall s', source_wf s' -> postx Q (SEU U) (rest s')) ->
  postx Q (SEU U) (bind (sstep_is V) (fun b => bind (when b m) (fun _ => rest)) s).
Proof.
  intros W Hm Hr. rewrite b_sstep_is. destruct (s_step s =? V) eqn:E.
  - rewrite when_true. apply Z.eqb_eq in E.
    eapply postx_bind; [apply Hm; assumption | intros e s' H; exact H | intros u s' W'; apply Hr; exact W'].
  - rewrite when_false, b_ret. apply Hr. exact W.
Qed.

Lemma sending_eof_ok : forall s, source_wf s -> s_step s = SS_SENDING_EOF ->
  postx (fun _ s' => source_wf s') SE0
    ((fsz <- gq q_file_size ;; ck <- checksum_calculation (opt_z fsz) ;; prepare_eof_pdu ck ;;; handle_eof_sent false) s).
Proof.
  intros s W S. srun.
  scall checksum_calculation_ok; [exact W | ssolve | | intros e s' [-> H]; split; assumption |].
  { clear - W S. unfold source_wf, stepinv in W. sconsts. hsplit.
    match goal with H : s_step s = 6 -> _ |- _ => destruct (H S) as [X|X] end; [left; exact X | right; intro; ssolve]. }
  intros ck s1 ->.
  scall prepare_eof_pdu_ok; [ssolve | ssolve | intros e s' [] |].
  intros u s2 H2.
  stail handle_eof_sent_ok; [ssolve | ssolve | ssolve | intros; assumption | intros e s' []].
Qed.

Lemma fsm_non_idle_ok : forall pkt s, source_wf s -> s_state s <> ST_IDLE -> not_file_data pkt ->
  postx (fun _ s' => source_wf s') (SEU (nak_offsets_unsigned pkt)) (fsm_non_idle pkt s).
Proof.
  intros pkt s W N NF. unfold fsm_non_idle.
  scall fsm_advancement_s_ok; [exact W | intros e s' H; apply SE0_SEU; exact H |].
  intros u s1 [W1 N1]. srun.
  destruct (s_put s1) as [pr|] eqn:Hp; [|sfin; exact W1]. srun.
  eapply postx_bind with (Q1 := fun _ s2 => source_wf s2 /\ s_state s2 <> ST_IDLE) (E1 := SNoE).
  { destruct (s_step s1 =? SS_IDLE) eqn:E; [rewrite when_true | rewrite when_false]; sfin; clear - W1 N1 N E; ssolve. }
  { intros e s' []. }
  intros u2 s2 [W2 N2]. cbv beta. srun.
  eapply postx_bind with (Q1 := fun _ s3 => source_wf s3) (E1 := SE0).
  { destruct (s_step s2 =? SS_TRANSACTION_START) eqn:E; [rewrite when_true | rewrite when_false; sfin; exact W2].
    scall transaction_start_ok; [exact W2 | exact N2 | apply Z.eqb_eq; exact E | intros e s' H; exact H |].
    intros u3 s3 H3. sfin. clear - H3. ssolve. }
  { intros e s' H; apply SE0_SEU; exact H. }
  intros u3 s3 W3. cbv beta. srun.
  destruct (s_step s3 =? SS_SENDING_METADATA) eqn:E3.
  { stail prepare_metadata_pdu_ok; [exact W3 | clear - W3 E3; ssolve | | intros e s' []].
    intros a s' H. eapply wf_ssv; eassumption. }
  srun.
  eapply postx_bind with (Q1 := fun _ s4 => source_wf s4) (E1 := SEU (nak_offsets_unsigned pkt)).
  { destruct (s_step s3 =? SS_SENDING_FILE_DATA) eqn:E4; [|sfin; exact W3].
    apply sending_file_data_fsm_ok; [exact W3 | apply Z.eqb_eq; exact E4]. }
  { intros e s' H; exact H. }
  intros stop s4 W4. cbv beta. destruct stop; [sfin; exact W4|].
  apply ssection_ok; [exact W4 | |].
  { intros s0 W0 S0. stail sending_eof_ok; [exact W0 | exact S0 | intros; assumption | intros e s' H; apply SE0_SEU; exact H]. }
  intros s5 W5.
  apply ssection_ok; [exact W5 | intros; apply handle_waiting_for_ack_ok; assumption |].
  intros s6 W6.
  apply ssection_ok; [exact W6 | intros; apply handle_wait_for_finish_ok; assumption |].
  intros s7 W7. rewrite b_sstep_is.
  destruct (s_step s7 =? SS_NOTICE_OF_COMPLETION) eqn:E7; [rewrite when_true | rewrite when_false; sfin; exact W7].
  stail notice_of_completion_s_ok; [exact W7 | apply Z.eqb_eq; exact E7 | intros; assumption | intros e s' []].
Qed.

Lemma check_s_ok : forall p s,
  postx (fun _ s' => s' = s /\ is_file_data p = false) (fun e s' => s' = s /\ nie e) (check_inserted_packet_s p s).
Proof.
  intros p s. unfold check_inserted_packet_s. srun. rewrite route_table.
  destruct p; cbn [pdu_hdr is_file_data directive]; cbv iota;
  try change (1 =? 1) with true; try change (0 =? 1) with false;
  repeat (srun; cbv beta iota zeta; shead); srun; sfin;
    (split; [reflexivity | first [reflexivity | discriminate | (let X := fresh in unfold nie, internal_error; intro X; vm_compute in X; intuition discriminate)]]).
Qed.

Lemma state_machine_s_ok : forall pkt s, source_wf s ->
  postx (fun _ s' => source_wf s') (SEU (nak_offsets_unsigned pkt)) (state_machine_s pkt s).
Proof.
  intros pkt s W. unfold state_machine_s.
  eapply postx_bind with (Q1 := fun _ s1 => s1 = s /\ not_file_data pkt) (E1 := fun e s1 => s1 = s /\ nie e).
  - destruct pkt as [p|]; [|sfin; split; [reflexivity | exact I]].
    eapply postx_weaken; [apply check_s_ok | | intros e s' H; exact H].
    intros a s' [H1 H2]. split; [exact H1|]. destruct p; try exact I. discriminate H2.
  - intros e s' [-> H]. split; [exact W | intros _; exact H].
  - intros u s1 [-> NF]. srun. destruct (s_state s =? ST_IDLE) eqn:Ei; [sfin; exact W|].
    apply fsm_non_idle_ok; [exact W | ssolve | exact NF].
Qed.

Lemma get_next_packet_s_ok : forall s, source_wf s -> postx (fun _ s' => source_wf s') SE0 (get_next_packet_s s).
Proof. intros s W. unfold get_next_packet_s. srun. destruct (s_queue s); srun; sfin; ssolve. Qed.

Lemma put_request_ok : forall p s, source_wf s -> postx (fun _ s' => source_wf s') SE0 (put_request p s).
Proof.
  intros p s W. unfold put_request. srun.
  destruct (negb (s_state s =? ST_IDLE)) eqn:Ei; [sfin; exact W|]. srun.
  eapply postx_bind with (Q1 := fun _ s1 => source_wf s1 /\ s_state s1 = ST_IDLE /\ s_put s1 <> None /\ s_cfg s1 = s_cfg s) (E1 := SE0).
  { destruct (pr_names p) as [[sn dn]|]; [destruct (fs_file_exists _ sn)|]; sfin; ssolve. }
  { intros e s' H; exact H. }
  intros u s1 (W1 & I1 & P1 & C1). cbv beta. srun. clear W.
  destruct (get_remote (l_remotes (s_cfg s)) (pr_dst p)) as [r|]; srun; sfin; ssolve.
Qed.

Lemma cancel_request_s_ok : forall a b s, source_wf s -> postx (fun _ s' => source_wf s') SE0 (cancel_request_s a b s).
Proof.
  intros a b s W. unfold cancel_request_s. srun.
  destruct (0 <? s_ready s); [sfin; ssolve|].
  destruct (q_tid (s_p s)) as [[x y]|] eqn:Ht; [|sfin; ssolve].
  destruct ((x =? a) && (y =? b)); [|sfin; ssolve].
  scall notice_of_cancellation_s_ok; [exact W | ssolve | intros e s' H; exact H |].
  intros go s1 W1. sfin. exact W1.
Qed.

Lemma reset_s_ok : forall s, source_wf s -> postx (fun _ s' => source_wf s') SE0 (reset_s s).
Proof. intros s W. unfold reset_s. sfin. ssolve. Qed.

Lemma postx_wfu_fst {S A} (U : Prop) (P : S -> Prop) (x : S * res Z A) :
  postx (fun _ s' => P s') (fun e s' => P s' /\ (U -> nie e)) x -> P (fst x).
Proof. unfold postx. destruct x as [s1 [a|e]]; cbn; tauto. Qed.
Lemma postx_wfu_snd {S A} (U : Prop) (P : S -> Prop) (x : S * res Z A) e :
  postx (fun _ s' => P s') (fun e s' => P s' /\ (U -> nie e)) x -> U -> internal_error e -> snd x <> Err e.
Proof. unfold postx, nie. destruct x as [s1 [a|e1]]; cbn; [discriminate|]. intros [_ H] HU Hi Heq. inversion Heq; subst. tauto. Qed.

(* ================================================================== the four sender lemmas *)
Lemma source_wf_init : forall c seq0 bits, cfg_ok c -> (bits = 8 \/ bits = 16 \/ bits = 32) -> 0 <= seq0 < 2 ^ bits ->
  source_wf (src_init c seq0 bits).
Proof. intros c seq0 bits _ _ _. unfold src_init. ssolve. Qed.

Lemma source_wf_preserved : forall pkt p a b s,
  source_wf s ->
  source_wf (fst (state_machine_s pkt s)) /\ source_wf (fst (put_request p s)) /\
  source_wf (fst (get_next_packet_s s)) /\ source_wf (fst (cancel_request_s a b s)) /\ source_wf (fst (reset_s s)).
Proof.
  intros pkt p a b s W. split; [|split; [|split; [|split]]].
  - eapply postx_wfu_fst. apply state_machine_s_ok; exact W.
  - apply postx_wf_fst. apply put_request_ok; exact W.
  - apply postx_wf_fst. apply get_next_packet_s_ok; exact W.
  - apply postx_wf_fst. apply cancel_request_s_ok; exact W.
  - apply postx_wf_fst. apply reset_s_ok; exact W.
Qed.

Lemma source_wf_env : forall s f, source_wf s -> source_wf (s <| s_env ::= f |>).
Proof. intros s f W. exact W. Qed.

Lemma source_no_internal_error : forall pkt p a b s e,
  source_wf s -> nak_offsets_unsigned pkt -> internal_error e ->
  snd (state_machine_s pkt s) <> Err e /\ snd (put_request p s) <> Err e /\
  snd (get_next_packet_s s) <> Err e /\ snd (cancel_request_s a b s) <> Err e /\ snd (reset_s s) <> Err e.
Proof.
  intros pkt p a b s e W U He. split; [|split; [|split; [|split]]].
  - eapply postx_wfu_snd; [apply state_machine_s_ok; exact W | exact U | exact He].
  - eapply postx_wf_snd; [apply put_request_ok; exact W | exact He].
  - eapply postx_wf_snd; [apply get_next_packet_s_ok; exact W | exact He].
  - eapply postx_wf_snd; [apply cancel_request_s_ok; exact W | exact He].
  - eapply postx_wf_snd; [apply reset_s_ok; exact W | exact He].
Qed.

Print Assumptions dest_wf_preserved.
Print Assumptions dest_no_internal_error.
Print Assumptions source_wf_preserved.
Print Assumptions source_no_internal_error.

(* ================================================================== why the sanity condition on the NAK is there *)
Module CounterExamples.
  Definition rem : rcfg := mkRcfg 2 2 None 100 false false ACKED CK_NULL 1000 2 2 false true 1000 2.
  Definition cfg : lcfg := mkLcfg 1 2 false false false false default_fault_table 0 [rem].
  Definition hin : hdr := mkHdr TOWARDS_SENDER ACKED false false 1 2 2 0 2.
  (* a fresh sender, a metadata-only Put request, the Metadata PDU generated and retrieved *)
  Definition s3 : src :=
    fst (get_next_packet_s (fst (state_machine_s None (fst (put_request (mkPut 2 2 None None None None) (src_init cfg 0 16)))))).
  (* a segment request that starts below zero (not encodable: the offsets are unsigned on the wire) passes the range
     checks against the progress 0 and makes the model read file data for a request that has no source file:
     the assert in _prepare_file_data_pdu fails *)
  Example unsigned_offsets_needed :
    source_wf s3 /\ snd (state_machine_s (Some (PNak hin 0 0 [(-5, 0)])) s3) = Err E_ASSERT.
  Proof.
    split; [|vm_compute; reflexivity].
    unfold s3. apply postx_wf_fst, get_next_packet_s_ok.
    eapply postx_wfu_fst, state_machine_s_ok.
    apply postx_wf_fst, put_request_ok.
    apply source_wf_init; [exact I | right; left; reflexivity | cbv; split; [discriminate | reflexivity]].
  Qed.
  (* the re-request of the metadata, which is what a receiver sends for such a transaction, is answered *)
  Example metadata_rerequest_answered :
    snd (state_machine_s (Some (PNak hin 0 0 [(0, 0)])) s3) = Ok tt.
  Proof. vm_compute. reflexivity. Qed.
End CounterExamples.
