(* SuccessInvProofs.v — proofs for the whole-state-machine form of property C01 (props/C01b.v): the receiver
   reports success (Transaction-Finished indication or Finished PDU with No Error / Data Complete) only from a
   state whose destination file verifies against the recorded checksum.

   Method:
   - [pres P Q m] ("from P, the state after m satisfies Q, also when m raises") and the result-sensitive
     [hoare P m Q E], closed under the monad operations, with one walking tactic ([pw]);
   - before the completion nothing is verified yet: [NI] ("data complete" only for a metadata-only transaction) is
     kept by every function that does not call checksum_verify; the four callers of checksum_verify (EOF in
     unacknowledged mode, check limit, end of the deferred lost-segment procedure, leaving SENDING_EOF_ACK) set
     the step to TRANSFER_COMPLETION in the same call;
   - after the completion ([Bt]/[Rt]/[Jt], relative to the state s0 in which after_completion starts) the delivery
     code is that of s0 or the handler was reset, the condition code is that of s0 or a fault code, the file is
     deleted only for "data incomplete", and the nested call only runs after a notice of cancellation. *)
From CFDP Require Import Base LostSeg Fs Crc Checksum Handler Dest HandlerSpec.
From CFDP.gen Require Import Tables.
From CFDP.proofs Require Import ChecksumProofs GuardProofs DeliveryProofs.
From RecordUpdate Require Import RecordSet.
Import RecordSetNotations.
Open Scope monad_scope.

Local Opaque calculate_checksum.
Local Arguments Z.add : simpl never. Local Arguments Z.sub : simpl never. Local Arguments Z.mul : simpl never.
Local Arguments Z.ltb : simpl never. Local Arguments Z.leb : simpl never. Local Arguments Z.eqb : simpl never.
Local Arguments Z.max : simpl never.

(* ------------------------------------------------------------------ the statement (same bodies as props/C01b.v) *)
Definition verified (s : dst) : Prop :=
  let p := d_p s in
  p_md_only p = true \/ p_cktype p = CK_NULL \/
  exists d, lookup (fs_d s) (p_file_name p) = Some (File d) /\
            calculate_checksum (p_cktype p) (Some d) (p_progress p) 4096 = Ok (p_crc32 p).

Definition c01_inv (s : dst) : Prop :=
  (f_deliv (p_fin (d_p s)) = DATA_COMPLETE -> verified s) /\
  (f_deliv (p_fin (d_p s)) = DATA_COMPLETE ->
     p_md_only (d_p s) = true \/ d_step s = DS_TRANSFER_COMPLETION \/ d_step s = DS_SENDING_FINISHED \/
     d_step s = DS_WAITING_FOR_FINISHED_ACK) /\
  (d_step s = DS_RECV_WITH_CHECK_LIMIT -> d_state s <> ST_IDLE /\ h_mode (p_conf (d_p s)) = UNACKED).

(* the three parts of one busy call (text of Dest.non_idle_fsm) *)
Definition before_completion (pkt : option pdu) : D unit :=
  fsm_advancement ;;;
  st <- get_step ;;
  when (((st =? DS_RECEIVING_FILE_DATA) || (st =? DS_RECV_WITH_CHECK_LIMIT)))
    (match pkt with
     | Some (PFileData _ off data) => handle_fd_pdu off data
     | Some (PEof _ cond ck sz _) => handle_eof_pdu cond ck sz
     | _ => ret tt
     end) ;;;
  b <- step_is DS_WAITING_FOR_METADATA ;;
  when b (handle_waiting_for_missing_metadata pkt ;;; deferred_lost_segment_handling) ;;;
  b <- step_is DS_RECV_WITH_CHECK_LIMIT ;;
  when b check_limit_handling ;;;
  b <- step_is DS_WAITING_FOR_MISSING_DATA ;;
  when b
    ((match pkt with
      | Some (PEof _ cond ck sz _) =>
          if cond =? C_NO_ERROR then prepare_eof_ack_packet
          else (setp (fun p => p <| p_deferred := false |>) ;;; handle_eof_pdu cond ck sz)
      | _ => ret tt
      end) ;;;
     (match pkt with
      | Some (PFileData _ off data) =>
          handle_fd_pdu off data ;;;
          active <- gp p_deferred ;;
          when active reset_nak_activity_parameters
      | _ => ret tt
      end) ;;;
     deferred_lost_segment_handling).
Definition completion_clause : D unit :=
  b <- step_is DS_TRANSFER_COMPLETION ;;
  when b handle_transfer_completion.
Definition after_completion (fuel : nat) (pkt : option pdu) : D unit :=
  b <- step_is DS_SENDING_FINISHED ;;
  when b (n <- gets d_ready ;;
          if 0 <? n then ret tt else (prepare_finished_pdu ;;; handle_finished_pdu_sent)) ;;;
  b <- step_is DS_WAITING_FOR_FINISHED_ACK ;;
  when b
    (handle_waiting_for_finished_ack
       (match fuel with
        | O => raise E_FUEL
        | S k => catch_abandoned (s <- get ;; when (d_state s =? ST_BUSY) (non_idle_fsm k None))
        end) pkt).

Definition success (e : event) : Prop :=
  exists a b fs fl, e = EvFinished a b C_NO_ERROR DATA_COMPLETE fs fl.
Definition success_pdu (p : pdu) : Prop :=
  exists h fs fl, p = PFinished h C_NO_ERROR DATA_COMPLETE fs fl.

Lemma bind_ext {S A B} (m : M S A) (f g : A -> M S B) s :
  (forall a s1, f a s1 = g a s1) -> bind m f s = bind m g s.
Proof. intro H. unfold bind. destruct (m s) as [s1 [a|e]]; [apply H | reflexivity]. Qed.

Lemma call_split : forall fuel pkt s,
  non_idle_fsm fuel pkt s = (before_completion pkt ;;; completion_clause ;;; after_completion fuel pkt) s.
Proof.
  intros fuel pkt s. unfold before_completion, completion_clause, after_completion.
  destruct fuel as [|k]; cbn [non_idle_fsm];
  repeat (rewrite bind_assoc; apply bind_ext; intros); reflexivity.
Qed.

(* ------------------------------------------------------------------ preservation combinators *)
Definition pres {A} (P Q : dst -> Prop) (m : D A) : Prop := forall s, P s -> Q (fst (m s)).

Lemma pres_bind {A C} (P Q T : dst -> Prop) (m : D A) (f : A -> D C) :
  pres P Q m -> (forall s, Q s -> T s) -> (forall a, pres Q T (f a)) -> pres P T (bind m f).
Proof.
  intros Hm HQT Hf s HP. specialize (Hm s HP). unfold bind.
  destruct (m s) as [s1 [a|e]]; cbn [fst] in *; [apply Hf, Hm | apply HQT, Hm].
Qed.
Lemma pres_ret {A} (P : dst -> Prop) (a : A) : pres P P (ret a).
Proof. intros s H. exact H. Qed.
Lemma pres_raise {A} (P : dst -> Prop) e : pres P P (@raise dst A e).
Proof. intros s H. exact H. Qed.
Lemma pres_gets {A} (P : dst -> Prop) (f : dst -> A) : pres P P (gets f).
Proof. intros s H. exact H. Qed.
Lemma pres_get (P : dst -> Prop) : pres P P get.
Proof. intros s H. exact H. Qed.
Lemma pres_post {A} (P Q Q' : dst -> Prop) (m : D A) : (forall s, Q s -> Q' s) -> pres P Q m -> pres P Q' m.
Proof. intros HQ H s HP. apply HQ, H, HP. Qed.
Lemma pres_pre {A} (P P' Q : dst -> Prop) (m : D A) : (forall s, P' s -> P s) -> pres P Q m -> pres P' Q m.
Proof. intros HP H s HP'. apply H, HP, HP'. Qed.
Lemma pres_catch {A} (P : dst -> Prop) (m : D A) h :
  pres P P m -> (forall e k, h e = Some k -> pres P P k) -> pres P P (catch m h).
Proof.
  intros Hm Hh s HP. specialize (Hm s HP). unfold catch.
  destruct (m s) as [s1 [a|e]]; cbn [fst] in *; [exact Hm|].
  destruct (h e) as [k|] eqn:Hk; [|exact Hm]. apply (Hh e k Hk), Hm.
Qed.
Lemma pres_catch_abandoned (P : dst -> Prop) (m : D unit) : pres P P m -> pres P P (catch_abandoned m).
Proof.
  intro Hm. unfold catch_abandoned. apply pres_catch; [exact Hm|].
  intros e k Hk. destruct (e =? E_ABANDONED); [|discriminate Hk]. inversion Hk; subst k. apply pres_ret.
Qed.
Lemma pres_fold {B} (P : dst -> Prop) (g : B -> D unit) (l : list B) : forall m0,
  pres P P m0 -> (forall b, pres P P (g b)) -> pres P P (fold_left (fun m b => bind m (fun _ => g b)) l m0).
Proof.
  induction l as [|b l IH]; intros m0 H0 Hg; cbn [fold_left]; [exact H0|].
  apply IH; [|exact Hg]. apply (pres_bind P P P); [exact H0 | trivial | intros _; apply Hg].
Qed.

Create HintDb pw discriminated.

Ltac pw_leaf := fail.
Ltac pw_step :=
  cbv beta zeta;
  match goal with
  | |- pres ?P ?P _ => solve [auto with pw nocore]
  | |- pres ?P ?P (bind _ _) => apply (pres_bind P P P); [ | intros ? Hq; exact Hq | intro]
  | |- pres ?P ?P (ret _) => apply pres_ret
  | |- pres ?P ?P (raise _) => apply pres_raise
  | |- pres ?P ?P get => apply pres_get
  | |- pres ?P ?P (gets _) => apply pres_gets
  | |- pres ?P ?P (modify _) => pw_leaf
  | |- pres _ _ (when ?b _) => destruct b; [rewrite when_true | rewrite when_false]
  | |- pres _ _ (catch _ _) => apply pres_catch; [|mhandler]
  | |- pres _ _ (fold_left _ _ _) => apply pres_fold; [|intro]
  | |- pres _ _ (if ?b then _ else _) => destruct b
  | |- pres _ _ (match ?x with _ => _ end) => destruct x
  | |- pres _ _ ?m => let h := mhead m in unfold h
  end.
Ltac pw := repeat pw_step.

(* ------------------------------------------------------------------ predicates *)
Definition K (s : dst) : Prop := f_deliv (p_fin (d_p s)) = DATA_COMPLETE.
Definition late (s : dst) : Prop :=
  d_step s = DS_TRANSFER_COMPLETION \/ d_step s = DS_SENDING_FINISHED \/ d_step s = DS_WAITING_FOR_FINISHED_ACK.
Definition U (s : dst) : Prop := d_state s <> ST_IDLE /\ h_mode (p_conf (d_p s)) = UNACKED.
Definition I3 (s : dst) : Prop := d_step s = DS_RECV_WITH_CHECK_LIMIT -> U s.
(* not yet verified: "data complete" only for a metadata-only transaction *)
Definition NI (s : dst) : Prop := (K s -> p_md_only (d_p s) = true) /\ I3 s.

Lemma NI_inv : forall s, NI s -> c01_inv s.
Proof.
  intros s [H1 H3]. split; [|split].
  - intro Hk. left. apply H1, Hk.
  - intro Hk. left. apply H1, Hk.
  - exact H3.
Qed.
Lemma inv_early : forall s, c01_inv s -> ~ late s -> NI s.
Proof.
  intros s (_ & H2 & H3) Hl. split; [|exact H3].
  intro Hk. destruct (H2 Hk) as [H|H]; [exact H | contradiction (Hl H)].
Qed.

Ltac unp := unfold c01_inv, NI, I3, U, K, late, verified, fs_d in *.
Ltac pw_leaf ::=
  let s := fresh "s" in let H := fresh "H" in
  intros s H; unfold modify; cbn [fst]; unp; cbn in *;
  first [ exact H | intuition (try discriminate; try congruence) ].

Lemma ni_declare_fault : forall c, pres NI NI (declare_fault c).
Proof. intro. pw. Qed.
#[local] Hint Resolve ni_declare_fault : pw.
Lemma inv_declare_fault : forall c, pres c01_inv c01_inv (declare_fault c).
Proof. intro. pw. Qed.
#[local] Hint Resolve inv_declare_fault : pw.
(* ------------------------------------------------------------------ result-sensitive triples *)
Definition hoare {A} (P : dst -> Prop) (m : D A) (Q : A -> dst -> Prop) (E : dst -> Prop) : Prop :=
  forall s, P s -> match m s with (s', Ok a) => Q a s' | (s', Err _) => E s' end.

Lemma hoare_bind {A C} (P : dst -> Prop) (Q : A -> dst -> Prop) (T : C -> dst -> Prop) E (m : D A) (f : A -> D C) :
  hoare P m Q E -> (forall a, hoare (Q a) (f a) T E) -> hoare P (bind m f) T E.
Proof.
  intros Hm Hf s HP. specialize (Hm s HP). unfold bind.
  destruct (m s) as [s1 [a|e]]; [apply Hf, Hm | exact Hm].
Qed.
Lemma hoare_pres {A} (P Q : dst -> Prop) (m : D A) : hoare P m (fun _ => Q) Q -> pres P Q m.
Proof. intros H s HP. specialize (H s HP). destruct (m s) as [s1 [a|e]]; exact H. Qed.
Lemma pres_hoare {A} (P Q : dst -> Prop) (m : D A) : pres P Q m -> hoare P m (fun _ => Q) Q.
Proof. intros H s HP. specialize (H s HP). destruct (m s) as [s1 [a|e]]; exact H. Qed.
Lemma hoare_post {A} (P : dst -> Prop) (Q Q' : A -> dst -> Prop) (E E' : dst -> Prop) (m : D A) :
  (forall a s, Q a s -> Q' a s) -> (forall s, E s -> E' s) -> hoare P m Q E -> hoare P m Q' E'.
Proof. intros HQ HE H s HP. specialize (H s HP). destruct (m s) as [s1 [a|e]]; [apply HQ, H | apply HE, H]. Qed.
Lemma hoare_pre {A} (P P' : dst -> Prop) (Q : A -> dst -> Prop) E (m : D A) :
  (forall s, P' s -> P s) -> hoare P m Q E -> hoare P' m Q E.
Proof. intros HP H s HP'. apply H, HP, HP'. Qed.

(* ------------------------------------------------------------------ checksum verification *)
Definition cvset (s : dst) : dst :=
  s <| d_p ::= (fun p => p <| p_fin ::= (fun f => f <| f_deliv := DATA_COMPLETE |> <| f_cond := C_NO_ERROR |>) |>) |>.

Lemma vfs_checksum_state : forall a b c s, fst (vfs_checksum a b c s) = s.
Proof.
  intros a b c s. unfold vfs_checksum. mrun. destruct (a =? CK_NULL); [reflexivity|].
  destruct (lookup _ _) as [[d|]|]; try reflexivity.
  destruct (calculate_checksum _ _ _ _) as [r|[]]; reflexivity.
Qed.

Lemma cv_spec : forall (X Y : dst -> Prop),
  (forall s, X s -> Y s) -> pres X Y (declare_fault C_CHECKSUM_FAILURE) ->
  hoare X checksum_verify (fun b s' => if b then exists s, X s /\ s' = cvset s /\ verified s else Y s') Y.
Proof.
  intros X Y HXY HD s HX. specialize (HD s HX).
  destruct (checksum_verify s) as [s' [b|e]] eqn:H.
  - destruct b.
    { destruct (verify_true_means_verified s s' H) as [Hv _]. exists s. split; [exact HX|]. split; [|exact Hv].
      unfold checksum_verify in H. mrun_in H.
      destruct ((p_cktype (d_p s) =? CK_NULL) || p_md_only (d_p s)); mrun_in H; [inversion H; reflexivity|].
      pose proof (vfs_checksum_state (p_cktype (d_p s)) (p_file_name (d_p s)) (p_progress (d_p s)) s) as Hs.
      unfold bind at 1 in H. destruct (vfs_checksum _ _ _ s) as [s1 [crc|e]]; [|discriminate H]. cbn [fst] in Hs. subst s1.
      destruct (bytes_eqb crc (p_crc32 (d_p s)) && _); mrun_in H; [inversion H; reflexivity|].
      exfalso. unfold bind in H. destruct (declare_fault C_CHECKSUM_FAILURE s) as [s2 [fh|e]]; discriminate H. }
    unfold checksum_verify in H. mrun_in H.
    destruct ((p_cktype (d_p s) =? CK_NULL) || p_md_only (d_p s)); mrun_in H; [discriminate H|].
    pose proof (vfs_checksum_state (p_cktype (d_p s)) (p_file_name (d_p s)) (p_progress (d_p s)) s) as Hs.
    unfold bind at 1 in H. destruct (vfs_checksum _ _ _ s) as [s1 [crc|e]]; [|discriminate H]. cbn [fst] in Hs. subst s1.
    destruct (bytes_eqb crc (p_crc32 (d_p s)) && _); mrun_in H; [discriminate H|].
    unfold bind in H. destruct (declare_fault C_CHECKSUM_FAILURE s) as [s2 [fh|e]]; [|discriminate H].
    cbn [fst] in HD. inversion H; subst s'. exact HD.
  - unfold checksum_verify in H. mrun_in H.
    destruct ((p_cktype (d_p s) =? CK_NULL) || p_md_only (d_p s)); mrun_in H; [discriminate H|].
    pose proof (vfs_checksum_state (p_cktype (d_p s)) (p_file_name (d_p s)) (p_progress (d_p s)) s) as Hs.
    unfold bind at 1 in H. destruct (vfs_checksum _ _ _ s) as [s1 [crc|e1]]; cbn [fst] in Hs; subst s1.
    + destruct (bytes_eqb crc (p_crc32 (d_p s)) && _); mrun_in H; [discriminate H|].
      unfold bind in H. destruct (declare_fault C_CHECKSUM_FAILURE s) as [s2 [fh|e2]]; [discriminate H|].
      cbn [fst] in HD. inversion H; subst s'. exact HD.
    + inversion H; subst s'. apply HXY, HX.
Qed.
(* ------------------------------------------------------------------ functions that never verify: NI is kept *)
Lemma b_get {S B} (k : S -> M S B) s : bind get k s = k s s.
Proof. reflexivity. Qed.
Ltac mr := repeat first [ progress mrun | rewrite b_get ].

Lemma ni_add_packet : forall p, pres NI NI (add_packet p).
Proof. intro. pw. Qed.
#[local] Hint Resolve ni_add_packet : pw.
Lemma ni_prepare_eof_ack_packet : pres NI NI prepare_eof_ack_packet.
Proof. pw. Qed.
#[local] Hint Resolve ni_prepare_eof_ack_packet : pw.
Lemma ni_lost_segment_handling : forall o l, pres NI NI (lost_segment_handling o l).
Proof. intros. pw. Qed.
#[local] Hint Resolve ni_lost_segment_handling : pw.
Lemma ni_handle_fd_pdu : forall o d, pres NI NI (handle_fd_pdu o d).
Proof. intros. pw. Qed.
#[local] Hint Resolve ni_handle_fd_pdu : pw.
Lemma ni_reset_nak_activity_parameters : pres NI NI reset_nak_activity_parameters.
Proof. pw. Qed.
#[local] Hint Resolve ni_reset_nak_activity_parameters : pw.
Lemma ni_file_transfer_complete_transition : pres NI NI file_transfer_complete_transition.
Proof. pw. Qed.
#[local] Hint Resolve ni_file_transfer_complete_transition : pw.
Lemma ni_init_vfs_handling : forall b, pres NI NI (init_vfs_handling b).
Proof. intros. pw. Qed.
#[local] Hint Resolve ni_init_vfs_handling : pw.
Lemma ni_handle_metadata_packet : forall h cl ck sz names msgs, pres NI NI (handle_metadata_packet h cl ck sz names msgs).
Proof. intros. pw. Qed.
#[local] Hint Resolve ni_handle_metadata_packet : pw.
Lemma ni_handle_eof_without_previous_metadata : forall c ck sz, pres NI NI (handle_eof_without_previous_metadata c ck sz).
Proof.
  intros c ck sz. unfold handle_eof_without_previous_metadata. destruct (c =? C_NO_ERROR) eqn:Hc; cbn [negb].
  - pw.
  - (* (F32 repair) an EOF (cancel): the cancel branch of handle_eof_pdu verifies nothing *)
    unfold handle_eof_pdu. rewrite Hc. pw.
Qed.
#[local] Hint Resolve ni_handle_eof_without_previous_metadata : pw.
(* (F33 repair) the cancel branch of handle_eof_pdu verifies nothing *)
Lemma ni_handle_eof_pdu_cancel : forall c ck sz, (c =? C_NO_ERROR) = false -> pres NI NI (handle_eof_pdu c ck sz).
Proof. intros c ck sz Hc. unfold handle_eof_pdu. rewrite Hc. pw. Qed.
Lemma ni_handle_fd_without_previous_metadata : forall f o d, pres NI NI (handle_fd_without_previous_metadata f o d).
Proof. intros. pw. Qed.
#[local] Hint Resolve ni_handle_fd_without_previous_metadata : pw.
Lemma ni_handle_waiting_for_missing_metadata : forall pkt, pres NI NI (handle_waiting_for_missing_metadata pkt).
Proof. intros. pw. Qed.
#[local] Hint Resolve ni_handle_waiting_for_missing_metadata : pw.
(* ------------------------------------------------------------------ the transmission mode, across fault declarations *)
Definition UT (s : dst) : Prop := U s \/ p_tid (d_p s) = None.
Definition NIU (s : dst) : Prop := NI s /\ U s.
Definition NIUT (s : dst) : Prop := NI s /\ UT s.
Definition VU (s : dst) : Prop := K s /\ verified s /\ U s.
Ltac unp ::= unfold c01_inv, NIU, NIUT, VU, NI, UT, I3, U, K, late, verified, fs_d in *.

Lemma niu_niut : forall s, NIU s -> NIUT s.
Proof. intros s [H1 H2]. split; [exact H1 | left; exact H2]. Qed.
Lemma niut_ni : forall s, NIUT s -> NI s.
Proof. intros s [H1 _]. exact H1. Qed.
Lemma niu_ni : forall s, NIU s -> NI s.
Proof. intros s [H1 _]. exact H1. Qed.

Lemma niut_declare_fault : forall c, pres NIUT NIUT (declare_fault c).
Proof. intro. pw. Qed.

Lemma df_ignore : forall c,
  hoare NIUT (declare_fault c) (fun fh s' => NI s' /\ ((fh =? FH_IGNORE) = true -> U s')) NI.
Proof.
  intros c s [Hn Hu]. unfold declare_fault. mr.
  destruct (p_tid (d_p s)) as [[a b]|] eqn:Ht; [|exact Hn].
  destruct Hu as [Hu|Hu]; [|congruence].
  destruct (get_fault_handler (l_faults (d_cfg s)) c) as [fh|]; [|exact Hn].
  destruct (Z.eqb_spec fh FH_CANCEL) as [E1|E1].
  - subst fh. unfold notice_of_cancellation. mr. cbn. split; [|intro X; vm_compute in X; discriminate X].
    revert Hn. unp. cbn. intuition (try discriminate; try congruence).
  - destruct (Z.eqb_spec fh FH_ABANDON) as [E2|E2].
    + (* ABANDON: the call is unwound (Err E_ABANDONED) in the reset state *)
      subst fh. unfold reset_internal. mr. cbn.
      unp. cbn. intuition (try discriminate; try congruence).
    + mr. cbn. split; [|intros _]; revert Hn Hu; unp; cbn; intuition.
Qed.

(* the configured handler of Checksum Failure, after the declaration: with IGNORE the transaction is as it was *)
Definition NICI (s : dst) : Prop :=
  NI s /\ (forall fh, get_fault_handler (l_faults (d_cfg s)) C_CHECKSUM_FAILURE = Some fh -> (fh =? FH_IGNORE) = true -> U s).
Lemma niu_nici : forall s, NIU s -> NICI s.
Proof. intros s [H1 H2]. split; [exact H1 | intros; exact H2]. Qed.
Lemma nici_ni : forall s, NICI s -> NI s.
Proof. intros s [H1 _]. exact H1. Qed.

Lemma df_cfg_ignore : pres NIU NICI (declare_fault C_CHECKSUM_FAILURE).
Proof.
  intros s [Hn Hu]. unfold declare_fault. mr.
  destruct (p_tid (d_p s)) as [[a b]|] eqn:Ht; [|apply niu_nici; split; assumption].
  destruct (get_fault_handler (l_faults (d_cfg s)) C_CHECKSUM_FAILURE) as [fh|] eqn:Eg; [|apply niu_nici; split; assumption].
  destruct (Z.eqb_spec fh FH_CANCEL) as [E1|E1].
  - subst fh. unfold notice_of_cancellation. mr. change (FH_CANCEL =? FH_ABANDON) with false. cbv iota. cbn [fst ret].
    apply niu_nici. revert Hn Hu. unp. cbn. intuition (try discriminate; try congruence).
  - destruct (Z.eqb_spec fh FH_ABANDON) as [E2|E2].
    + subst fh. unfold reset_internal. mr. cbn [fst raise]. split.
      * unp. cbn. intuition (try discriminate; try congruence).
      * cbn. rewrite Eg. intros fh X Y. inversion X; subst fh. vm_compute in Y. discriminate Y.
    + mr. cbn [fst ret]. apply niu_nici. revert Hn Hu. unp. cbn. intuition.
Qed.

Lemma ub_true : forall s,
  (if d_state s =? ST_IDLE then false else h_mode (p_conf (d_p s)) =? UNACKED) = true -> U s.
Proof.
  intros s H. unfold U. destruct (Z.eqb_spec (d_state s) ST_IDLE) as [E|E]; [discriminate H|].
  split; [exact E | apply Z.eqb_eq, H].
Qed.
Lemma mode_is_run {B} m (k : bool -> D B) s :
  bind (mode_is m) k s = k (if d_state s =? ST_IDLE then false else h_mode (p_conf (d_p s)) =? m) s.
Proof. unfold mode_is, tmode. mr. destruct (d_state s =? ST_IDLE); reflexivity. Qed.

Lemma ni_start_check_limit_handling : pres NIU NI start_check_limit_handling.
Proof.
  unfold start_check_limit_handling.
  apply (pres_bind _ NIU _); [| apply niu_ni | intros _].
  - intros s H. unfold set_step, modify. cbn [fst]. revert H. unp. cbn. intuition.
  - apply (pres_post _ NIU); [apply niu_ni|]. pw.
Qed.

Lemma vu_transition : forall s, VU s -> c01_inv (fst (file_transfer_complete_transition s)).
Proof.
  intros s (Hk & Hv & Hs & Hm). unfold file_transfer_complete_transition, tmode. mr.
  destruct (Z.eqb_spec (d_state s) ST_IDLE) as [E|_]; [contradiction|]. mr.
  rewrite Hm. change (UNACKED =? UNACKED) with true. cbv iota.
  unfold set_step, modify. cbn [fst]. revert Hk Hv. unp. cbn. intuition (try discriminate).
Qed.

Lemma cvset_vu : forall s, U s -> verified s -> VU (cvset s).
Proof. intros s Hu Hv. revert Hu Hv. unfold cvset. unp. cbn. intuition. Qed.

(* handle_no_error_eof: either nothing was verified, or the file verified in unacknowledged mode *)
Lemma hnee_spec : hoare NI handle_no_error_eof (fun b s' => NI s' \/ (b = true /\ VU s')) NI.
Proof.
  intros s H. unfold handle_no_error_eof. rewrite b_gp, !mode_is_run.
  destruct (if d_state s =? ST_IDLE then false else h_mode (p_conf (d_p s)) =? UNACKED) eqn:Hub.
  - apply ub_true in Hub.
    revert s H Hub.
    cut (forall p ac, hoare NIU
      (early <-
        (if opt_z (p_file_size_eof p) <? p_progress p
         then fh <- declare_fault C_FILE_SIZE_ERROR;; ret (negb (fh =? FH_IGNORE))
         else if (p_progress p <? opt_z (p_file_size_eof p)) && ac
              then tracker_add (p_progress p, opt_z (p_file_size_eof p));;; ret false
              else ret false);;
       (if early then ret false
        else ok <- checksum_verify;;
             (if ok then ret true
              else c <- gets d_cfg;;
                   match get_fault_handler (l_faults c) C_CHECKSUM_FAILURE with
                   | Some fh => if fh =? FH_IGNORE then start_check_limit_handling;;; ret false else ret false
                   | None => ret false
                   end)))
      (fun b s' => NI s' \/ (b = true /\ VU s')) NI).
    { intros HC s H Hub. apply HC. split; assumption. }
    intros p ac.
    apply (hoare_bind _ (fun e s' => NI s' /\ (e = false -> U s'))).
    + destruct (opt_z (p_file_size_eof p) <? p_progress p).
      * apply (hoare_bind _ (fun fh s' => NI s' /\ ((fh =? FH_IGNORE) = true -> U s'))).
        { apply (hoare_pre NIUT); [apply niu_niut | apply df_ignore]. }
        intros fh s [H1 H2]. cbn. split; [exact H1|]. intro X. apply H2. destruct (fh =? FH_IGNORE); [reflexivity | discriminate X].
      * assert (HT : hoare NIU (tracker_add (p_progress p, opt_z (p_file_size_eof p));;; ret false)
                       (fun e s' => NI s' /\ (e = false -> U s')) NI).
        { apply (hoare_post _ (fun _ => NIU) _ NIU); [intros a s [X Y]; split; [exact X | intros _; exact Y] | apply niu_ni |].
          apply pres_hoare. pw. }
        destruct ((p_progress p <? opt_z (p_file_size_eof p)) && ac); [exact HT|].
        intros s [X Y]. cbn. split; [exact X | intros _; exact Y].
    + intros [|]; [intros s [X _]; cbn; left; exact X|].
      apply (hoare_pre NIU); [intros s [X Y]; split; [exact X | apply Y; reflexivity]|].
      apply (hoare_bind _ (fun (b : bool) (s' : dst) => if b then exists s, NIU s /\ s' = cvset s /\ verified s else NICI s')).
      * apply (hoare_post _ _ _ NICI NI _ (fun _ _ X => X) nici_ni).
        apply cv_spec; [apply niu_nici | apply df_cfg_ignore].
      * intros [|].
        { intros s' (s & [_ Hu] & -> & Hv). cbn. right. split; [reflexivity | apply cvset_vu; assumption]. }
        intros s [Hn Hy]. rewrite b_gets.
        destruct (get_fault_handler (l_faults (d_cfg s)) C_CHECKSUM_FAILURE) as [fh|] eqn:Eg; [|cbn; left; exact Hn].
        destruct (fh =? FH_IGNORE) eqn:Ef; [|cbn; left; exact Hn].
        refine ((_ : hoare NIU _ (fun b s' => NI s' \/ (b = true /\ VU s')) NI) s _);
          [|split; [exact Hn | apply (Hy fh eq_refl Ef)]].
        apply (hoare_post _ (fun _ => NI) _ NI); [intros; left; assumption | trivial |].
        apply pres_hoare. apply (pres_bind _ NI _); [apply ni_start_check_limit_handling | trivial | intros _; apply pres_ret].
  - revert s H Hub.
    cut (forall p ac, pres NI NI
      (early <-
        (if opt_z (p_file_size_eof p) <? p_progress p
         then fh <- declare_fault C_FILE_SIZE_ERROR;; ret (negb (fh =? FH_IGNORE))
         else if (p_progress p <? opt_z (p_file_size_eof p)) && ac
              then tracker_add (p_progress p, opt_z (p_file_size_eof p));;; ret false
              else ret false);;
       (if early then ret false else ret true))).
    { intros HC s H Hub. specialize (HC (d_p s) (if d_state s =? ST_IDLE then false else h_mode (p_conf (d_p s)) =? ACKED) s H).
      match goal with |- match ?m s with _ => _ end => destruct (m s) as [s1 [b|e]] end; cbn [fst] in HC; [left|]; exact HC. }
    intros p ac. pw.
Qed.

Lemma inv_handle_eof_pdu : forall c ck sz, pres NI c01_inv (handle_eof_pdu c ck sz).
Proof.
  intros c ck sz. unfold handle_eof_pdu.
  apply (pres_bind _ NI _); [pw | apply NI_inv | intros _].
  apply (pres_bind _ NI _); [pw | apply NI_inv | intros cf].
  apply (pres_bind _ NI _); [pw | apply NI_inv | intros _].
  destruct (c =? C_NO_ERROR).
  - apply hoare_pres.
    apply (hoare_bind _ (fun b s' => NI s' \/ (b = true /\ VU s'))).
    + apply (hoare_post _ _ _ NI c01_inv _ (fun _ _ X => X) NI_inv). apply hnee_spec.
    + intros [|]; intros s [H|[E H]]; try discriminate E.
      * apply (pres_hoare NI c01_inv); [|exact H]. apply (pres_post _ NI); [apply NI_inv | pw].
      * pose proof (vu_transition s H) as X. destruct (file_transfer_complete_transition s) as [s1 [a|e]]; exact X.
      * cbn. apply NI_inv, H.
  - apply (pres_post _ NI); [apply NI_inv | pw].
Qed.
Lemma ni_declare_fault_post : forall c, pres NI c01_inv (declare_fault c;;; ret tt).
Proof. intro c. apply (pres_post _ NI); [apply NI_inv | pw]. Qed.

Lemma inv_check_limit_handling : pres NIU c01_inv check_limit_handling.
Proof.
  unfold check_limit_handling.
  apply (pres_bind _ NIU _); [pw | intros s H; apply NI_inv, niu_ni, H | intros t].
  destruct t as [tm|]; [|apply (pres_post _ NIU); [intros s H; apply NI_inv, niu_ni, H | pw]].
  apply (pres_bind _ NIU _); [pw | intros s H; apply NI_inv, niu_ni, H | intros r].
  apply (pres_bind _ NIU _); [pw | intros s H; apply NI_inv, niu_ni, H | intros n].
  destruct (timed_out n tm); [|apply (pres_post _ NIU); [intros s H; apply NI_inv, niu_ni, H | pw]].
  apply hoare_pres.
  apply (hoare_bind _ (fun (b : bool) (s' : dst) => if b then exists s, NIU s /\ s' = cvset s /\ verified s else NI s')).
  - apply (hoare_post _ _ _ NI c01_inv _ (fun _ _ X => X) NI_inv).
    apply cv_spec; [apply niu_ni|]. apply (pres_pre NI); [apply niu_ni | apply ni_declare_fault].
  - intros [|].
    + intros s' (s & [_ Hu] & -> & Hv).
      pose proof (vu_transition _ (cvset_vu s Hu Hv)) as X.
      destruct (file_transfer_complete_transition (cvset s)) as [s1 [a|e]]; exact X.
    + apply (pres_hoare NI c01_inv). apply (pres_post NI NI); [apply NI_inv | pw].
Qed.

Lemma vk_tc : forall s, NI s -> verified s -> c01_inv ((cvset s) <| d_step := DS_TRANSFER_COMPLETION |>).
Proof. intros s Hn Hv. revert Hn Hv. unfold cvset. unp. cbn. intuition (try discriminate). Qed.

Lemma inv_verify_then_complete : forall (k : D unit),
  pres c01_inv c01_inv k -> pres NI NI k ->
  pres NI c01_inv (checksum_verify;;; set_step DS_TRANSFER_COMPLETION;;; k).
Proof.
  intros k Hk Hk2. apply hoare_pres.
  apply (hoare_bind _ (fun (b : bool) (s' : dst) => if b then exists s, NI s /\ s' = cvset s /\ verified s else NI s')).
  - apply (hoare_post _ _ _ NI c01_inv _ (fun _ _ X => X) NI_inv).
    apply cv_spec; [trivial | apply ni_declare_fault].
  - intros [|].
    + intros s' (s & Hn & -> & Hv). rewrite b_set_step.
      pose proof (Hk _ (vk_tc s Hn Hv)) as X.
      match goal with |- match ?m with _ => _ end => destruct m as [s1 [a|e]] end; exact X.
    + apply (pres_hoare NI c01_inv). apply (pres_post NI NI); [apply NI_inv|].
      apply (pres_bind NI NI NI); [pw | trivial | intros _; apply Hk2].
Qed.

Lemma inv_deferred_lost_segment_handling : pres NI c01_inv deferred_lost_segment_handling.
Proof.
  unfold deferred_lost_segment_handling.
  apply (pres_bind _ NI _); [pw | apply NI_inv | intros active].
  destruct (negb active); [apply (pres_post _ NI); [apply NI_inv | pw]|].
  apply (pres_bind _ NI _); [pw | apply NI_inv | intros disp].
  destruct (disp =? DISP_CANCELED); [apply (pres_post _ NI); [apply NI_inv | pw]|].
  apply (pres_bind _ NI _); [pw | apply NI_inv | intros r].
  apply (pres_bind _ NI _); [pw | apply NI_inv | intros eof].
  destruct eof as [eos|]; [|apply (pres_post _ NI); [apply NI_inv | pw]].
  apply (pres_bind _ NI _); [pw | apply NI_inv | intros tr].
  apply (pres_bind _ NI _); [pw | apply NI_inv | intros mdm].
  destruct ((zlen tr =? 0) && negb mdm).
  - apply inv_verify_then_complete; pw.
  - apply (pres_post _ NI); [apply NI_inv | pw].
Qed.

Lemma inv_start_deferred_lost_segment_handling : pres NI c01_inv start_deferred_lost_segment_handling.
Proof.
  unfold start_deferred_lost_segment_handling.
  apply (pres_bind _ NI _); [pw | apply NI_inv | intros mdm].
  apply (pres_bind _ NI _); [destruct mdm; pw | apply NI_inv | intros _].
  apply (pres_bind _ NI _); [pw | apply NI_inv | intros eof].
  apply (pres_bind _ NI _); [pw | apply NI_inv | intros _].
  apply inv_deferred_lost_segment_handling.
Qed.

Ltac steps := unfold DS_IDLE, DS_TRANSACTION_START, DS_WAITING_FOR_METADATA, DS_RECEIVING_FILE_DATA,
  DS_RECV_WITH_CHECK_LIMIT, DS_SENDING_EOF_ACK, DS_WAITING_FOR_MISSING_DATA, DS_TRANSFER_COMPLETION,
  DS_SENDING_FINISHED, DS_WAITING_FOR_FINISHED_ACK in *.
Lemma not_late : forall s v, d_step s = v -> v < DS_TRANSFER_COMPLETION -> ~ late s.
Proof. intros s v E Hv [H|[H|H]]; rewrite H in E; subst v; revert Hv; steps; lia. Qed.

Lemma inv_fsm_advancement : pres c01_inv c01_inv fsm_advancement.
Proof.
  intros s H. unfold fsm_advancement. rewrite b_get.
  destruct (0 <? zlen (d_queue s)); [exact H|].
  destruct (Z.eqb_spec (d_step s) DS_SENDING_EOF_ACK) as [E|_]; [|exact H].
  assert (Hn : NI s) by (apply inv_early; [exact H | apply (not_late s _ E); steps; lia]).
  destruct (negb (p_disp (d_p s) =? DISP_CANCELED) && ((0 <? zlen (p_tracker (d_p s))) || p_md_missing (d_p s))).
  - apply inv_start_deferred_lost_segment_handling, Hn.
  - destruct (negb (p_disp (d_p s) =? DISP_CANCELED)).
    + rewrite when_true.
      pose proof (inv_verify_then_complete (ret tt) (fun s H => H) (fun s H => H) s Hn) as X.
      rewrite bind_assoc.
      match goal with |- c01_inv (fst (?m s)) =>
        match type of X with c01_inv (fst (?m' s)) => replace (m s) with (m' s); [exact X|] end end.
      unfold bind. destruct (checksum_verify s) as [s1 [a|e]]; [|reflexivity]. cbn. reflexivity.
    + rewrite when_false, b_ret. unfold set_step, modify. cbn [fst]. apply NI_inv. revert Hn. unp. cbn. intuition (try discriminate).
Qed.
(* ------------------------------------------------------------------ first PDU of a transaction *)
Lemma cfph_run : forall h s,
  common_first_packet_handler h s =
  (if negb (d_state s =? ST_IDLE) then s
   else s <| d_state := ST_BUSY |> <| d_states_tid := Some (h_src h, h_seq h) |>
          <| d_p ::= (fun p => p <| p_conf := set_dir TOWARDS_SENDER h |> <| p_tid := Some (h_src h, h_seq h) |>
                                  <| p_rcfg := get_remote (l_remotes (d_cfg s)) (h_src h) |>) |>, Ok tt).
Proof.
  intros h s. unfold common_first_packet_handler. rewrite b_get. destruct (negb (d_state s =? ST_IDLE)); reflexivity.
Qed.

Lemma ni_common_first_packet_not_metadata : forall h, pres c01_inv NI (common_first_packet_not_metadata h).
Proof.
  intros h s _. unfold common_first_packet_not_metadata. rewrite b_setp.
  unfold bind at 1. rewrite cfph_run. mr. cbn [fst].
  destruct (negb _); unp; cbn; intuition (try discriminate).
Qed.

Lemma ni_start_transaction : forall h cl ck sz names msgs,
  pres c01_inv c01_inv (start_transaction h cl ck sz names msgs).
Proof.
  intros h cl ck sz names msgs s H. unfold start_transaction. rewrite b_get.
  destruct (Z.eqb_spec (d_state s) ST_IDLE) as [E|E]; cbn [negb]; [|exact H].
  rewrite b_setp. unfold bind at 1. rewrite cfph_run.
  apply NI_inv, ni_handle_metadata_packet.
  cbn [d_state set]. cbn. rewrite E. change (ST_IDLE =? ST_IDLE) with true. cbn [negb].
  destruct H as (_ & _ & H3). revert H3 E. unp. cbn. intuition (try discriminate).
Qed.

Lemma inv_idle_fsm : forall pkt, pres c01_inv c01_inv (idle_fsm pkt).
Proof.
  intros pkt. unfold idle_fsm. destruct pkt as [[]|]; try (intros s H; exact H).
  - apply (pres_bind _ NI _); [apply ni_common_first_packet_not_metadata | apply NI_inv | intros _].
    apply (pres_post _ NI); [apply NI_inv | pw].
  - apply ni_start_transaction.
  - apply (pres_bind _ NI _); [apply ni_common_first_packet_not_metadata | apply NI_inv | intros _].
    apply (pres_post _ NI); [apply NI_inv | pw].
Qed.

(* ------------------------------------------------------------------ the clauses of a busy call *)
Lemma b_step_is {B} v (k : bool -> D B) s : bind (step_is v) k s = k (d_step s =? v) s.
Proof. reflexivity. Qed.

Lemma bind_pt {A C} (Q T : dst -> Prop) (m : D A) (f : A -> D C) s :
  Q (fst (m s)) -> (forall s, Q s -> T s) -> (forall a, pres Q T (f a)) -> T (fst (bind m f s)).
Proof.
  intros Hm HQT Hf. unfold bind. destruct (m s) as [s1 [a|e]]; cbn [fst] in *; [apply Hf, Hm | apply HQT, Hm].
Qed.

(* a clause guarded by the step *)
Lemma guard_inv : forall v (m rest : D unit),
  (forall s, c01_inv s -> d_step s = v -> c01_inv (fst (m s))) -> pres c01_inv c01_inv rest ->
  pres c01_inv c01_inv (bind (step_is v) (fun b => bind (when b m) (fun _ => rest))).
Proof.
  intros v m rest Hm Hr s H. rewrite b_step_is.
  destruct (Z.eqb_spec (d_step s) v) as [E|E].
  - rewrite when_true. apply (bind_pt c01_inv c01_inv); [apply Hm; assumption | trivial | intros _; exact Hr].
  - rewrite when_false, b_ret. apply Hr, H.
Qed.
Lemma guard_inv_last : forall v (m : D unit),
  (forall s, c01_inv s -> d_step s = v -> c01_inv (fst (m s))) ->
  pres c01_inv c01_inv (bind (step_is v) (fun b => when b m)).
Proof.
  intros v m Hm s H. rewrite b_step_is.
  destruct (Z.eqb_spec (d_step s) v) as [E|E]; [rewrite when_true; apply Hm; assumption | rewrite when_false; exact H].
Qed.
Lemma early_ni : forall s v, c01_inv s -> d_step s = v -> v < DS_TRANSFER_COMPLETION -> NI s.
Proof. intros s v H E Hv. apply inv_early; [exact H | apply (not_late s v E Hv)]. Qed.

Lemma inv_before_completion : forall pkt, pres c01_inv c01_inv (before_completion pkt).
Proof.
  intro pkt. unfold before_completion.
  apply (pres_bind _ c01_inv _); [apply inv_fsm_advancement | trivial | intros _].
  intros s H. unfold get_step. rewrite b_gets.
  apply (bind_pt c01_inv c01_inv); [| trivial |].
  { destruct (Z.eqb_spec (d_step s) DS_RECEIVING_FILE_DATA) as [E1|E1];
      [|destruct (Z.eqb_spec (d_step s) DS_RECV_WITH_CHECK_LIMIT) as [E2|E2]]; cbn [orb]; try (rewrite when_false; exact H);
      rewrite when_true.
    - assert (Hn : NI s) by (apply inv_early; [exact H | apply (not_late s _ E1); steps; lia]).
      destruct pkt as [[]|]; try exact H.
      + apply NI_inv, ni_handle_fd_pdu, Hn.
      + apply inv_handle_eof_pdu, Hn.
    - assert (Hn : NI s) by (apply inv_early; [exact H | apply (not_late s _ E2); steps; lia]).
      destruct pkt as [[]|]; try exact H.
      + apply NI_inv, ni_handle_fd_pdu, Hn.
      + apply inv_handle_eof_pdu, Hn. }
  clear s H.
  intros _.
  apply guard_inv.
  { intros s H E. assert (Hn : NI s) by (apply (early_ni s _ H E); steps; lia). clear H E; revert s Hn.
    apply (pres_bind _ NI _); [pw | apply NI_inv | intros _; apply inv_deferred_lost_segment_handling]. }
  apply guard_inv.
  { intros s H E. apply inv_check_limit_handling. split.
    - apply (early_ni s _ H E); steps; lia.
    - destruct H as (_ & _ & H3). apply H3, E. }
  apply guard_inv_last.
  intros s H E. assert (Hn : NI s) by (apply (early_ni s _ H E); steps; lia). clear H E; revert s Hn.
  apply (pres_bind _ NI _); [| apply NI_inv | intros _].
  { (* a re-sent EOF is acknowledged; an EOF (cancel) gets the Cancel Response Procedures (F33 repair) *)
    destruct pkt as [[h off data|h cl ck sz names msgs|h c ck sz fl| | | | | ]|]; try solve [pw].
    destruct (c =? C_NO_ERROR) eqn:Hc; [pw|].
    apply (pres_bind _ NI _); [pw | trivial | intros _; apply ni_handle_eof_pdu_cancel, Hc]. }
  apply (pres_bind _ NI _); [destruct pkt as [[]|]; pw | apply NI_inv | intros _].
  apply inv_deferred_lost_segment_handling.
Qed.
(* ------------------------------------------------------------------ completion and what follows: the invariant *)
Definition noc_del (p : dparams) : D unit :=
  when (p_disp p =? DISP_CANCELED)
    (r <- rcfg_or_assert ;;
     when (r_disposition r && (f_deliv (p_fin p) =? DATA_INCOMPLETE))
       (modify (fun s => s <| d_env ::= (fun e => e <| e_fs ::= (fun t => fst (fs_delete_file t (p_file_name p))) |>) |>) ;;;
        setp (fun p => p <| p_fin ::= (fun f => f <| f_fstatus := FS_DISCARDED_DELIBERATELY |>) |>))).
Definition noc_emit : D unit :=
  c <- gets d_cfg ;;
  when (l_ind_fin c)
    (p <- gp (fun p => p) ;;
     let '(src, seq) := match p_tid p with Some x => x | None => (-1, -1) end in
     let f := p_fin p in
     emit (EvFinished src seq (f_cond f) (f_deliv f) (f_fstatus f) (f_fl f))).
Definition sdel (s : dst) : dst :=
  s <| d_env ::= (fun e => e <| e_fs ::= (fun t => fst (fs_delete_file t (p_file_name (d_p s)))) |>) |>
    <| d_p ::= (fun p => p <| p_fin ::= (fun f => f <| f_fstatus := FS_DISCARDED_DELIBERATELY |>) |>) |>.

Lemma noc_split : forall s, notice_of_completion s = (noc_del (d_p s) ;;; noc_emit) s.
Proof. intro s. unfold notice_of_completion. rewrite b_gp. reflexivity. Qed.

(* the file is deleted only when the delivery code says "incomplete" *)
Lemma noc_del_cases : forall s,
  (exists r, noc_del (d_p s) s = (s, r)) \/
  (f_deliv (p_fin (d_p s)) = DATA_INCOMPLETE /\ noc_del (d_p s) s = (sdel s, Ok tt)).
Proof.
  intro s. unfold noc_del. destruct (p_disp (d_p s) =? DISP_CANCELED); [rewrite when_true | left; eexists; reflexivity].
  unfold rcfg_or_assert. mr. destruct (p_rcfg (d_p s)) as [r|]; mr; [|left; eexists; reflexivity].
  destruct (r_disposition r); cbn [andb]; [|left; eexists; reflexivity].
  destruct (Z.eqb_spec (f_deliv (p_fin (d_p s))) DATA_INCOMPLETE) as [E|E]; [|left; eexists; reflexivity].
  right. split; [exact E|]. rewrite when_true. mr. reflexivity.
Qed.

Lemma inv_add_packet : forall p, pres c01_inv c01_inv (add_packet p).
Proof. intro. pw. Qed.
#[local] Hint Resolve inv_add_packet : pw.
Lemma inv_noc_emit : pres c01_inv c01_inv noc_emit.
Proof. pw. Qed.

Lemma inv_notice_of_completion : pres c01_inv c01_inv notice_of_completion.
Proof.
  intros s H. rewrite noc_split.
  apply (bind_pt c01_inv c01_inv); [| trivial | intros _; apply inv_noc_emit].
  destruct (noc_del_cases s) as [[r E]|[Hd E]]; rewrite E; cbn [fst]; [exact H|].
  revert H Hd. unfold sdel. unp. cbn. intros H Hd. rewrite Hd.
  repeat split; try (intro X; discriminate X); tauto.
Qed.
#[local] Hint Resolve inv_notice_of_completion : pw.

Lemma inv_handle_transfer_completion : pres c01_inv c01_inv handle_transfer_completion.
Proof. pw. Qed.
#[local] Hint Resolve inv_handle_transfer_completion : pw.
Lemma inv_prepare_finished_pdu : pres c01_inv c01_inv prepare_finished_pdu.
Proof. pw. Qed.
#[local] Hint Resolve inv_prepare_finished_pdu : pw.
Lemma inv_prepare_eof_ack_packet : pres c01_inv c01_inv prepare_eof_ack_packet.
Proof. pw. Qed.
#[local] Hint Resolve inv_prepare_eof_ack_packet : pw.
Lemma inv_handle_finished_pdu_sent : pres c01_inv c01_inv handle_finished_pdu_sent.
Proof. pw. Qed.
#[local] Hint Resolve inv_handle_finished_pdu_sent : pw.
Lemma inv_handle_waiting_for_finished_ack : forall again pkt,
  pres c01_inv c01_inv again -> pres c01_inv c01_inv (handle_waiting_for_finished_ack again pkt).
Proof. intros again pkt Hagain. pw. Qed.

Lemma inv_completion_clause : pres c01_inv c01_inv completion_clause.
Proof. unfold completion_clause. apply guard_inv_last. intros s H _. apply inv_handle_transfer_completion, H. Qed.

Lemma inv_after_completion : forall fuel pkt,
  (forall k, fuel = S k -> pres c01_inv c01_inv (non_idle_fsm k None)) ->
  pres c01_inv c01_inv (after_completion fuel pkt).
Proof.
  intros fuel pkt IH. unfold after_completion.
  refine (guard_inv _ _ _ _ _); [intros s H _; refine ((_ : pres c01_inv c01_inv _) s H); pw|].
  refine (guard_inv_last _ _ _). intros s H _. refine ((_ : pres c01_inv c01_inv _) s H).
  apply inv_handle_waiting_for_finished_ack.
  destruct fuel as [|k]; [pw|].
  specialize (IH k eq_refl). pw.
Qed.

Lemma pres_eq {A} (P Q : dst -> Prop) (m m' : D A) : (forall s, m s = m' s) -> pres P Q m' -> pres P Q m.
Proof. intros E H s HP. rewrite E. apply H, HP. Qed.

Lemma inv_non_idle_fsm : forall fuel pkt, pres c01_inv c01_inv (non_idle_fsm fuel pkt).
Proof.
  induction fuel as [|k IH]; intro pkt; apply (pres_eq _ _ _ _ (call_split _ pkt));
    (apply (pres_bind _ c01_inv _); [apply inv_before_completion | trivial | intros _];
     apply (pres_bind _ c01_inv _); [apply inv_completion_clause | trivial | intros _];
     apply inv_after_completion).
  - intros k E. discriminate E.
  - intros k' E. inversion E; subst k'. apply IH.
Qed.

Lemma inv_check_inserted_packet : forall p, pres c01_inv c01_inv (check_inserted_packet p).
Proof. intros p s H. pose proof (minv_state _ _ _ s (adm_d p)) as X. unfold whole in X. rewrite X. exact H. Qed.

Lemma inv_state_machine : forall pkt, pres c01_inv c01_inv (Dest.state_machine pkt).
Proof.
  intro pkt. unfold Dest.state_machine.
  apply (pres_bind _ c01_inv _); [destruct pkt; [apply inv_check_inserted_packet | apply pres_ret] | trivial | intros _].
  apply pres_catch_abandoned.
  apply (pres_bind _ c01_inv _); [apply pres_get | trivial | intros s0].
  apply (pres_bind _ c01_inv _); [| trivial | intros stop].
  - destruct (d_state s0 =? ST_IDLE); [|apply pres_ret].
    apply (pres_bind _ c01_inv _); [apply inv_idle_fsm | trivial | intros _]. pw.
  - destruct stop; [apply pres_ret|].
    apply (pres_bind _ c01_inv _); [apply pres_get | trivial | intros s1].
    destruct (d_state s1 =? ST_BUSY); [rewrite when_true; apply inv_non_idle_fsm | rewrite when_false; apply pres_ret].
Qed.

Lemma inv_cancel_request : forall a b, pres c01_inv c01_inv (Dest.cancel_request a b).
Proof. intros. pw. Qed.
Lemma inv_get_next_packet : pres c01_inv c01_inv Dest.get_next_packet.
Proof.
  intros s H. unfold Dest.get_next_packet. rewrite b_get. destruct (d_queue s); [exact H|].
  unfold put, bind, ret. cbn [fst]. revert H. unp. cbn. tauto.
Qed.
Lemma inv_reset : pres c01_inv c01_inv Dest.reset.
Proof. pw. Qed.

Lemma inv_init : forall c, c01_inv (dst_init c).
Proof. intro c. unfold c01_inv. cbn. split; [|split]; intro X; discriminate X. Qed.

Lemma inv_api : forall pkt a b s,
  c01_inv s ->
  c01_inv (fst (Dest.state_machine pkt s)) /\ c01_inv (fst (Dest.cancel_request a b s)) /\
  c01_inv (fst (Dest.get_next_packet s)) /\ c01_inv (fst (Dest.reset s)).
Proof.
  intros pkt a b s H. split; [|split; [|split]].
  - apply inv_state_machine, H.
  - apply inv_cancel_request, H.
  - apply inv_get_next_packet, H.
  - apply inv_reset, H.
Qed.

Lemma inv_reaches_completion : forall pkt p s,
  c01_inv s ->
  c01_inv (fst (check_inserted_packet p s)) /\ c01_inv (fst (idle_fsm pkt s)) /\ c01_inv (fst (before_completion pkt s)).
Proof.
  intros pkt p s H. split; [|split].
  - apply inv_check_inserted_packet, H.
  - apply inv_idle_fsm, H.
  - apply inv_before_completion, H.
Qed.
(* ------------------------------------------------------------------ the log: who can report success *)
Definition nsb (e : event) : bool :=
  match e with EvFinished _ _ c d _ _ => negb ((c =? C_NO_ERROR) && (d =? DATA_COMPLETE)) | _ => true end.
Lemma nsb_not_success : forall e, nsb e = true -> ~ success e.
Proof. intros e H (a & b & fs & fl & ->). cbn in H. discriminate H. Qed.

(* s' extends the log of s by events none of which reports success *)
Definition lg (s s' : dst) : Prop := exists l, log_d s' = l ++ log_d s /\ forallb nsb l = true.
Lemma lg_refl : forall s, lg s s.
Proof. intro s. exists []. split; reflexivity. Qed.
Lemma lg_trans : forall s1 s2 s3, lg s1 s2 -> lg s2 s3 -> lg s1 s3.
Proof.
  intros s1 s2 s3 (l1 & E1 & F1) (l2 & E2 & F2). exists (l2 ++ l1). split.
  - rewrite E2, E1. apply app_assoc.
  - rewrite forallb_app, F2, F1. reflexivity.
Qed.
Lemma lg_none : forall s s' l, lg s s' -> log_d s' = l ++ log_d s -> forall e, In e l -> ~ success e.
Proof.
  intros s s' l (l' & E & F) El e He. rewrite E in El. apply app_inv_tail in El. subst l'.
  apply nsb_not_success. rewrite forallb_forall in F. apply F, He.
Qed.

Definition grows {A} (m : D A) : Prop := forall s, lg s (fst (m s)).
Lemma grows_bind {A B} (m : D A) (f : A -> D B) : grows m -> (forall a, grows (f a)) -> grows (bind m f).
Proof.
  intros Hm Hf s. specialize (Hm s). unfold bind. destruct (m s) as [s1 [a|e]]; cbn [fst] in *; [|exact Hm].
  eapply lg_trans; [exact Hm | apply Hf].
Qed.
Lemma grows_ret {A} (a : A) : grows (ret a). Proof. intro s. apply lg_refl. Qed.
Lemma grows_raise {A} e : grows (@raise dst A e). Proof. intro s. apply lg_refl. Qed.
Lemma grows_get : grows (@get dst). Proof. intro s. apply lg_refl. Qed.
Lemma grows_gets {A} (f : dst -> A) : grows (gets f). Proof. intro s. apply lg_refl. Qed.
Lemma grows_modify (f : dst -> dst) : (forall s, log_d (f s) = log_d s) -> grows (modify f).
Proof. intros Hf s. exists []. split; [apply Hf | reflexivity]. Qed.
Lemma grows_emit e : nsb e = true -> grows (emit e).
Proof. intros He s. exists [e]. split; [reflexivity | cbn; rewrite He; reflexivity]. Qed.
Lemma grows_catch {A} (m : D A) h : grows m -> (forall e k, h e = Some k -> grows k) -> grows (catch m h).
Proof.
  intros Hm Hh s. specialize (Hm s). unfold catch. destruct (m s) as [s1 [a|e]]; cbn [fst] in *; [exact Hm|].
  destruct (h e) as [k|] eqn:Hk; [|exact Hm]. eapply lg_trans; [exact Hm | apply (Hh e k Hk)].
Qed.
Lemma grows_fold {B} (g : B -> D unit) (l : list B) : forall m0,
  grows m0 -> (forall b, grows (g b)) -> grows (fold_left (fun m b => bind m (fun _ => g b)) l m0).
Proof.
  induction l as [|b l IH]; intros m0 H0 Hg; cbn [fold_left]; [exact H0|].
  apply IH; [|exact Hg]. apply grows_bind; [exact H0 | intros _; apply Hg].
Qed.

Create HintDb gw discriminated.
Ltac gw_step :=
  cbv beta zeta;
  match goal with
  | |- grows _ => solve [auto with gw nocore]
  | |- grows (bind _ _) => apply grows_bind; [|intro]
  | |- grows (ret _) => apply grows_ret
  | |- grows (raise _) => apply grows_raise
  | |- grows get => apply grows_get
  | |- grows (gets _) => apply grows_gets
  | |- grows (emit _) => apply grows_emit; reflexivity
  | |- grows (modify _) => apply grows_modify; intros; reflexivity
  | |- grows (when ?b _) => destruct b; [rewrite when_true | rewrite when_false]
  | |- grows (catch _ _) => apply grows_catch; [|mhandler]
  | |- grows (fold_left _ _ _) => apply grows_fold; [|intro]
  | |- grows (if ?b then _ else _) => destruct b
  | |- grows (match ?x with _ => _ end) => destruct x
  | |- grows ?m => let h := mhead m in unfold h
  end.
Ltac gw := repeat gw_step.

Lemma g_declare_fault : forall c, grows (declare_fault c).
Proof. intro. gw. Qed.
#[local] Hint Resolve g_declare_fault : gw.
Lemma g_checksum_verify : grows checksum_verify.
Proof. gw. Qed.
#[local] Hint Resolve g_checksum_verify : gw.
Lemma g_deferred_lost_segment_handling : grows deferred_lost_segment_handling.
Proof. gw. Qed.
#[local] Hint Resolve g_deferred_lost_segment_handling : gw.
Lemma g_fsm_advancement : grows fsm_advancement.
Proof. gw. Qed.
#[local] Hint Resolve g_fsm_advancement : gw.
Lemma g_handle_fd_pdu : forall o d, grows (handle_fd_pdu o d).
Proof. intros. gw. Qed.
#[local] Hint Resolve g_handle_fd_pdu : gw.
Lemma g_handle_eof_pdu : forall c ck sz, grows (handle_eof_pdu c ck sz).
Proof. intros. gw. Qed.
#[local] Hint Resolve g_handle_eof_pdu : gw.
Lemma g_handle_metadata_packet : forall h cl ck sz names msgs, grows (handle_metadata_packet h cl ck sz names msgs).
Proof. intros. gw. Qed.
#[local] Hint Resolve g_handle_metadata_packet : gw.
Lemma g_common_first_packet_handler : forall h, grows (common_first_packet_handler h).
Proof. intros h s. rewrite cfph_run. cbn [fst]. destruct (negb _); exists []; split; reflexivity. Qed.
#[local] Hint Resolve g_common_first_packet_handler : gw.
Lemma g_idle_fsm : forall pkt, grows (idle_fsm pkt).
Proof. intros. gw. Qed.
Lemma g_handle_waiting_for_missing_metadata : forall pkt, grows (handle_waiting_for_missing_metadata pkt).
Proof. intros. gw. Qed.
#[local] Hint Resolve g_handle_waiting_for_missing_metadata : gw.
Lemma g_check_limit_handling : grows check_limit_handling.
Proof. gw. Qed.
#[local] Hint Resolve g_check_limit_handling : gw.
Lemma g_before_completion : forall pkt, grows (before_completion pkt).
Proof. intros. gw. Qed.
Lemma g_check_inserted_packet : forall p, grows (check_inserted_packet p).
Proof. intros p s. pose proof (minv_state _ _ _ s (adm_d p)) as X. unfold whole in X. rewrite X. apply lg_refl. Qed.
(* ------------------------------------------------------------------ the completion clause, step by step *)
Definition htc_tail : D unit :=
  un <- mode_is UNACKED ;; ac <- mode_is ACKED ;; cl <- gp p_closure ;;
  if (un && cl) || ac then set_step DS_SENDING_FINISHED else reset_internal.
Definition fin_event (s : dst) (a b : Z) : event :=
  EvFinished a b (f_cond (p_fin (d_p s))) (f_deliv (p_fin (d_p s))) (f_fstatus (p_fin (d_p s))) (f_fl (p_fin (d_p s))).
Definition slog (e : event) (s : dst) : dst := s <| d_env ::= (fun en => en <| e_log ::= cons e |>) |>.
Definition sreset (s : dst) : dst := s <| d_p := fresh_params |> <| d_state := ST_IDLE |> <| d_step := DS_IDLE |>.

Lemma htc_split : forall s, handle_transfer_completion s = (notice_of_completion ;;; htc_tail) s.
Proof. reflexivity. Qed.

Lemma noc_emit_cases : forall s,
  noc_emit s = (s, Ok tt) \/ exists a b, noc_emit s = (slog (fin_event s a b) s, Ok tt).
Proof.
  intro s. unfold noc_emit. mr. destruct (l_ind_fin (d_cfg s)); [rewrite when_true | left; reflexivity].
  mr. destruct (match p_tid (d_p s) with Some x => x | None => (-1, -1) end) as [a b].
  right. exists a, b. reflexivity.
Qed.

Lemma htc_tail_cases : forall s,
  htc_tail s = (s <| d_step := DS_SENDING_FINISHED |>, Ok tt) \/ htc_tail s = (sreset s, Ok tt).
Proof.
  intro s. unfold htc_tail. rewrite !mode_is_run. mr.
  destruct ((_ && _) || _); [left | right]; reflexivity.
Qed.

(* what one run of the completion clause can do *)
Definition completes (s s' : dst) : Prop :=
  (fs_d s' = fs_d s \/ f_deliv (p_fin (d_p s)) = DATA_INCOMPLETE) /\
  (log_d s' = log_d s \/
   exists a b fs fl, log_d s' = EvFinished a b (f_cond (p_fin (d_p s))) (f_deliv (p_fin (d_p s))) fs fl :: log_d s) /\
  ((f_deliv (p_fin (d_p s')) = f_deliv (p_fin (d_p s)) /\ f_cond (p_fin (d_p s')) = f_cond (p_fin (d_p s)) /\
    d_queue s' = d_queue s /\ (d_step s' = d_step s \/ d_step s' = DS_SENDING_FINISHED)) \/
   (s' = sreset s' /\ d_queue s' = d_queue s)).

Lemma completes_refl : forall s, completes s s.
Proof. intro s. split; [left; reflexivity | split; [left; reflexivity | left; repeat split; left; reflexivity]]. Qed.

Lemma htc_completes : forall s, completes s (fst (handle_transfer_completion s)).
Proof.
  intro s. rewrite htc_split. unfold bind at 1. rewrite noc_split. unfold bind at 1.
  destruct (noc_del_cases s) as [[r E]|[Hd E]]; rewrite E.
  - destruct r as [[]|e]; [|apply completes_refl].
    destruct (noc_emit_cases s) as [E2|(a & b & E2)]; rewrite E2;
      (destruct (htc_tail_cases s) as [E3|E3] + destruct (htc_tail_cases (slog (fin_event s a b) s)) as [E3|E3]);
      rewrite E3; cbn [fst]; unfold completes, sreset, slog, fin_event, fs_d, log_d; cbn;
      (split; [left; reflexivity|]); split;
      try (left; reflexivity); try (right; do 4 eexists; reflexivity);
      try (left; repeat split; right; reflexivity); try (right; split; reflexivity).
  - destruct (noc_emit_cases (sdel s)) as [E2|(a & b & E2)]; rewrite E2;
      (destruct (htc_tail_cases (sdel s)) as [E3|E3] + destruct (htc_tail_cases (slog (fin_event (sdel s) a b) (sdel s))) as [E3|E3]);
      rewrite E3; cbn [fst]; unfold completes, sreset, slog, fin_event, sdel, fs_d, log_d; cbn;
      (split; [right; exact Hd|]); split;
      try (left; reflexivity); try (right; do 4 eexists; reflexivity);
      try (left; repeat split; right; reflexivity); try (right; split; reflexivity).
Qed.

Lemma cc_completes : forall s, completes s (fst (completion_clause s)).
Proof.
  intro s. unfold completion_clause. rewrite b_step_is.
  destruct (d_step s =? DS_TRANSFER_COMPLETION); [rewrite when_true; apply htc_completes | apply completes_refl].
Qed.

Lemma completion_success_is_verified : forall s s' r l,
  c01_inv s -> completion_clause s = (s', r) -> log_d s' = l ++ log_d s ->
  (forall e, In e l -> success e -> verified s /\ lookup (fs_d s') (p_file_name (d_p s)) = lookup (fs_d s) (p_file_name (d_p s))) /\
  (f_cond (p_fin (d_p s')) = C_NO_ERROR -> f_deliv (p_fin (d_p s')) = DATA_COMPLETE -> d_state s' = ST_BUSY ->
     verified s /\ fs_d s' = fs_d s).
Proof.
  intros s s' r l Hinv Hc Hl.
  pose proof (cc_completes s) as (Hfs & Hlog & Hfin). rewrite Hc in Hfs, Hlog, Hfin. cbn [fst] in *.
  destruct Hinv as (H1 & _ & _). split.
  - intros e He Hs.
    destruct Hlog as [Hlog|(a & b & fs & fl & Hlog)].
    + exfalso. rewrite Hlog in Hl. change (log_d s) with ([] ++ log_d s) in Hl at 1. apply app_inv_tail in Hl. subst l. exact He.
    + rewrite Hlog in Hl. change (?x :: log_d s) with ([x] ++ log_d s) in Hl. apply app_inv_tail in Hl. subst l.
      destruct He as [<-|[]]. destruct Hs as (a' & b' & fs' & fl' & E). inversion E as [[Ea Eb Ec Ed Efs Efl]].
      split; [apply H1; exact Ed|]. destruct Hfs as [Hfs|Hfs]; [rewrite Hfs; reflexivity|].
      rewrite Hfs in Ed. discriminate Ed.
  - intros Hcond Hdel Hst. destruct Hfin as [(Ed & Ec & _)|[Hr _]].
    + rewrite Ed in Hdel. split; [apply H1; exact Hdel|].
      destruct Hfs as [Hfs|Hfs]; [exact Hfs | rewrite Hfs in Hdel; discriminate Hdel].
    + rewrite Hr in Hdel. discriminate Hdel.
Qed.
(* ------------------------------------------------------------------ after the completion: what is queued, logged, left alone *)
Section After.
  Variable s0 : dst.

  (* new PDUs report success only with the completion values of s0; no successful indication; the file is not touched *)
  Definition QX (s : dst) : Prop :=
    exists l, d_queue s = d_queue s0 ++ l /\
              forall p, In p l -> success_pdu p -> K s0 /\ f_cond (p_fin (d_p s0)) = C_NO_ERROR.
  Definition FX (s : dst) : Prop := K s0 -> fs_d s = fs_d s0.
  Definition core (s : dst) : Prop := QX s /\ lg s0 s /\ FX s.
  (* the transaction is alive: the delivery code is that of s0, the condition code too unless a fault changed it *)
  Definition Bt (s : dst) : Prop :=
    late s /\ f_deliv (p_fin (d_p s)) = f_deliv (p_fin (d_p s0)) /\
    ((f_cond (p_fin (d_p s)) = f_cond (p_fin (d_p s0)) /\ d_step s <> DS_TRANSFER_COMPLETION) \/
     f_cond (p_fin (d_p s)) <> C_NO_ERROR) /\ core s.
  (* the handler was reset *)
  Definition Rt (s : dst) : Prop :=
    d_step s = DS_IDLE /\ f_deliv (p_fin (d_p s)) = DATA_INCOMPLETE /\ core s.
  Definition Jt (s : dst) : Prop := Bt s \/ Rt s.

  Lemma Bt_Jt : forall s, Bt s -> Jt s. Proof. intros s H. left. exact H. Qed.
  Lemma Rt_Jt : forall s, Rt s -> Jt s. Proof. intros s H. right. exact H. Qed.

  Definition vw (s : dst) := (d_step s, p_fin (d_p s), d_queue s, e_log (d_env s), e_fs (d_env s)).
  Lemma vw_Bt : forall s s', vw s' = vw s -> Bt s -> Bt s'.
  Proof.
    intros s s' Hv H. unfold vw in Hv. injection Hv; clear Hv; intros E1 E2 E3 E4 E5.
    unfold Bt, core, QX, FX, lg, late, log_d, fs_d in *. rewrite E1, E2, E3, E4, E5. exact H.
  Qed.
  Lemma vw_Rt : forall s s', vw s' = vw s -> Rt s -> Rt s'.
  Proof.
    intros s s' Hv H. unfold vw in Hv. injection Hv; clear Hv; intros E1 E2 E3 E4 E5.
    unfold Rt, core, QX, FX, lg, log_d, fs_d in *. rewrite E1, E2, E3, E4, E5. exact H.
  Qed.
  Lemma vw_Jt : forall s s', vw s' = vw s -> Jt s -> Jt s'.
  Proof. intros s s' Hv [H|H]; [left; apply (vw_Bt s) | right; apply (vw_Rt s)]; assumption. Qed.
  Lemma fr_Bt {A} (m : D A) : MInv vw Any m -> pres Bt Bt m.
  Proof. intros Hm s H. apply (vw_Bt s); [apply (minv_state _ _ _ s Hm) | exact H]. Qed.
  Lemma fr_Jt {A} (m : D A) : MInv vw Any m -> pres Jt Jt m.
  Proof. intros Hm s H. apply (vw_Jt s); [apply (minv_state _ _ _ s Hm) | exact H]. Qed.

  (* core, under the primitive steps *)
  Lemma core_add : forall p s,
    (success_pdu p -> K s0 /\ f_cond (p_fin (d_p s0)) = C_NO_ERROR) -> core s -> core (fst (add_packet p s)).
  Proof.
    intros p s Hp ((l & El & Hl) & Hg & Hf). unfold add_packet, modify. cbn [fst].
    split; [|split; [exact Hg | exact Hf]].
    exists (l ++ [p]). cbn. rewrite El, app_assoc. split; [reflexivity|].
    intros q Hq. apply in_app_or in Hq. destruct Hq as [Hq|[<-|[]]]; [apply Hl, Hq | exact Hp].
  Qed.
  Lemma core_emit : forall e s, nsb e = true -> core s -> core (fst (emit e s)).
  Proof.
    intros e s He (Hq & Hg & Hf). unfold emit, modify. cbn [fst]. split; [exact Hq | split; [|exact Hf]].
    eapply lg_trans; [exact Hg|]. exists [e]. split; [reflexivity | cbn; rewrite He; reflexivity].
  Qed.

  Lemma bt_add_packet : forall p, ~ success_pdu p -> pres Bt Bt (add_packet p).
  Proof.
    intros p Hp s (H1 & H2 & H3 & H4). split; [exact H1 | split; [exact H2 | split; [exact H3|]]].
    apply core_add; [intro X; contradiction (Hp X) | exact H4].
  Qed.
  Lemma rt_add_packet : forall p, ~ success_pdu p -> pres Rt Rt (add_packet p).
  Proof.
    intros p Hp s (H1 & H2 & H4). split; [exact H1 | split; [exact H2|]].
    apply core_add; [intro X; contradiction (Hp X) | exact H4].
  Qed.
  Lemma bt_emit : forall e, nsb e = true -> pres Bt Bt (emit e).
  Proof.
    intros e He s (H1 & H2 & H3 & H4). split; [exact H1 | split; [exact H2 | split; [exact H3|]]].
    apply core_emit; assumption.
  Qed.
  Lemma bt_set_step : forall v, v = DS_SENDING_FINISHED \/ v = DS_WAITING_FOR_FINISHED_ACK -> pres Bt Bt (set_step v).
  Proof.
    intros v Hv s (H1 & H2 & H3 & H4). unfold set_step, modify. cbn [fst].
    split; [|split; [exact H2 | split; [|exact H4]]].
    - unfold late. cbn. destruct Hv as [->| ->]; [right; left | right; right]; reflexivity.
    - cbn. destruct H3 as [[H3 _]|H3]; [left; split; [exact H3|] | right; exact H3].
      destruct Hv as [->| ->]; intro X; discriminate X.
  Qed.
  Lemma jt_reset : pres Jt Rt reset_internal.
  Proof.
    intros s H. unfold reset_internal, modify. cbn [fst].
    assert (Hc : core s) by (destruct H as [(_ & _ & _ & Hc)|(_ & _ & Hc)]; exact Hc).
    split; [reflexivity | split; [reflexivity | exact Hc]].
  Qed.
  Lemma bt_notice_of_cancellation : forall c, c <> C_NO_ERROR -> pres Bt Bt (notice_of_cancellation c).
  Proof.
    intros c Hc s (H1 & H2 & H3 & H4). unfold notice_of_cancellation. mr. cbn [fst].
    split; [left; reflexivity | split; [exact H2 | split; [right; exact Hc | exact H4]]].
  Qed.

  Lemma pack_not_success : forall h a c st, ~ success_pdu (PAck h a c st).
  Proof. intros h a c st (h' & fs & fl & X). discriminate X. Qed.

  Lemma bt_prepare_eof_ack_packet : pres Bt Bt prepare_eof_ack_packet.
  Proof.
    unfold prepare_eof_ack_packet, conf.
    apply (pres_bind _ Bt _); [apply pres_gets | trivial | intros h].
    apply (pres_bind _ Bt _); [apply pres_gets | trivial | intros f].
    apply bt_add_packet, pack_not_success.
  Qed.

  Lemma bt_prepare_finished_pdu : pres Bt Bt prepare_finished_pdu.
  Proof.
    intros s H. unfold prepare_finished_pdu, conf. mr. destruct (0 <? d_ready s); [exact H|]. mr.
    destruct H as (H1 & H2 & H3 & H4). split; [exact H1 | split; [exact H2 | split; [exact H3|]]].
    apply core_add; [|exact H4].
    intros (h & fs & fl & X). inversion X as [[Eh Ec Ed Efs Efl]].
    destruct H3 as [[H3 _]|H3]; [|contradiction (H3 Ec)].
    split; [unfold K; congruence | congruence].
  Qed.
  Lemma rt_prepare_finished_pdu : pres Rt Rt prepare_finished_pdu.
  Proof.
    intros s H. unfold prepare_finished_pdu, conf. mr. destruct (0 <? d_ready s); [exact H|]. mr.
    destruct H as (H1 & H2 & H4). split; [exact H1 | split; [exact H2|]].
    apply core_add; [|exact H4].
    intros (h & fs & fl & X). inversion X as [[Eh Ec Ed Efs Efl]]. rewrite H2 in Ed. discriminate Ed.
  Qed.
  Lemma jt_prepare_finished_pdu : pres Jt Jt prepare_finished_pdu.
  Proof. intros s [H|H]; [left; apply bt_prepare_finished_pdu | right; apply rt_prepare_finished_pdu]; exact H. Qed.

  Lemma bj_declare_fault : forall c, c <> C_NO_ERROR -> pres Bt Jt (declare_fault c).
  Proof.
    intros c Hc. unfold declare_fault.
    apply (pres_bind _ Bt _); [apply pres_gets | apply Bt_Jt | intros cf].
    apply (pres_bind _ Bt _); [apply pres_gets | apply Bt_Jt | intros tid].
    apply (pres_bind _ Bt _); [apply pres_gets | apply Bt_Jt | intros pr].
    destruct tid as [[a b]|]; [|apply (pres_post _ Bt); [apply Bt_Jt | apply pres_raise]].
    destruct (get_fault_handler (l_faults cf) c) as [fh|]; [|apply (pres_post _ Bt); [apply Bt_Jt | apply pres_raise]].
    apply (pres_bind _ Jt _); [| trivial |].
    - destruct (fh =? FH_CANCEL); [apply (pres_post _ Bt); [apply Bt_Jt | apply bt_notice_of_cancellation, Hc]|].
      destruct (fh =? FH_ABANDON); [apply (pres_post _ Rt); [apply Rt_Jt | apply (pres_pre Jt); [apply Bt_Jt | apply jt_reset]]|].
      apply (pres_post _ Bt); [apply Bt_Jt | apply pres_ret].
    - intros _. apply (pres_bind _ Jt _); [| trivial | intros _; destruct (fh =? FH_ABANDON); [apply pres_raise | apply pres_ret]].
      intros s [H|(H1 & H2 & H4)]; [left; apply bt_emit; [reflexivity | exact H]|].
      right. split; [exact H1 | split; [exact H2 | apply core_emit; [reflexivity | exact H4]]].
  Qed.

  Lemma bb_start_positive_ack_procedure : pres Bt Bt start_positive_ack_procedure.
  Proof. apply fr_Bt. minv. Qed.

  Lemma bj_handle_finished_pdu_sent : pres Bt Jt handle_finished_pdu_sent.
  Proof.
    unfold handle_finished_pdu_sent.
    apply (pres_bind _ Bt _); [apply pres_get | apply Bt_Jt | intros s1].
    apply (pres_bind _ Bt _); [apply fr_Bt; minv | apply Bt_Jt | intros ac].
    destruct ((d_state s1 =? ST_BUSY) && ac).
    - apply (pres_post _ Bt); [apply Bt_Jt|].
      apply (pres_bind _ Bt _); [apply bb_start_positive_ack_procedure | trivial | intros _].
      apply bt_set_step. right. reflexivity.
    - apply (pres_post _ Rt); [apply Rt_Jt | apply (pres_pre Jt); [apply Bt_Jt | apply jt_reset]].
  Qed.

  Lemma bj_handle_transfer_completion : forall s,
    Bt s -> d_step s = DS_TRANSFER_COMPLETION -> Jt (fst (handle_transfer_completion s)).
  Proof.
    intros s (H1 & H2 & H3 & (l & El & Hl) & Hg & Hf) E.
    assert (Hc : f_cond (p_fin (d_p s)) <> C_NO_ERROR) by (destruct H3 as [[_ X]|X]; [contradiction | exact X]).
    pose proof (htc_completes s) as (Cfs & Clog & Cfin).
    destruct (handle_transfer_completion s) as [s' r]. cbn [fst] in *.
    assert (Hg' : lg s0 s').
    { eapply lg_trans; [exact Hg|]. destruct Clog as [X|(a & b & fs & fl & X)].
      - exists []. split; [exact X | reflexivity].
      - exists [EvFinished a b (f_cond (p_fin (d_p s))) (f_deliv (p_fin (d_p s))) fs fl]. split; [exact X|].
        cbn. apply Z.eqb_neq in Hc. rewrite Hc. reflexivity. }
    assert (Hf' : FX s').
    { intro Hk. destruct Cfs as [X|X]; [rewrite X; apply Hf, Hk|].
      unfold K in Hk. rewrite <- H2, X in Hk. discriminate Hk. }
    assert (Hq' : d_queue s' = d_queue s -> QX s').
    { intro Eq. exists l. split; [congruence | exact Hl]. }
    destruct Cfin as [(Ed & Ec & Eq & Es)|[Er Eq]].
    - left. split; [|split; [congruence | split; [right; congruence|]]].
      + unfold late. destruct Es as [Es|Es]; rewrite Es; [left; exact E | right; left; reflexivity].
      + split; [apply Hq', Eq | split; assumption].
    - right. split; [rewrite Er; reflexivity | split; [rewrite Er; reflexivity|]].
      split; [apply Hq', Eq | split; assumption].
  Qed.

  Lemma bj_handle_positive_ack_procedures : forall again,
    pres Jt Jt again -> pres Bt Jt (handle_positive_ack_procedures again).
  Proof.
    intros again Hagain. unfold handle_positive_ack_procedures.
    apply (pres_bind _ Bt _); [apply pres_gets | apply Bt_Jt | intros t].
    destruct t as [tm|]; [|apply (pres_post _ Bt); [apply Bt_Jt | apply pres_raise]].
    apply (pres_bind _ Bt _); [apply fr_Bt; minv | apply Bt_Jt | intros r].
    apply (pres_bind _ Bt _); [apply pres_gets | apply Bt_Jt | intros n].
    destruct (negb (timed_out n tm)); [apply (pres_post _ Bt); [apply Bt_Jt | apply pres_ret]|].
    apply (pres_bind _ Bt _); [apply pres_gets | apply Bt_Jt | intros cnt].
    apply (pres_bind _ Jt _); [| trivial | intros stop].
    - destruct (r_ack_limit r <=? cnt + 1); [|apply (pres_post _ Bt); [apply Bt_Jt | apply pres_ret]].
      apply (pres_bind _ Bt _); [apply pres_gets | apply Bt_Jt | intros disp].
      destruct (disp =? DISP_CANCELED).
      + apply (pres_bind _ Bt _); [apply pres_gets | apply Bt_Jt | intros p].
        destruct (p_tid p) as [[a b]|]; [|apply (pres_post _ Bt); [apply Bt_Jt | apply pres_raise]].
        apply (pres_bind _ Bt _); [apply bt_emit; reflexivity | apply Bt_Jt | intros _].
        apply (pres_post _ Rt); [apply Rt_Jt|].
        apply (pres_bind _ Rt _); [apply (pres_pre Jt); [apply Bt_Jt | apply jt_reset] | trivial | intros _; apply pres_ret].
      + apply (pres_bind _ Jt _); [apply bj_declare_fault; discriminate | trivial | intros _].
        apply (pres_bind _ Jt _); [apply pres_gets | trivial | intros disp2].
        destruct (disp2 =? DISP_CANCELED); [|apply pres_ret].
        apply (pres_bind _ Jt _); [exact Hagain | trivial | intros _; apply pres_ret].
    - destruct stop; [apply pres_ret|].
      apply (pres_bind _ Jt _); [apply pres_gets | trivial | intros t'].
      destruct t' as [[a tmo]|]; [|apply pres_raise].
      apply (pres_bind _ Jt _); [apply fr_Jt; minv | trivial | intros _]. apply jt_prepare_finished_pdu.
  Qed.

  Lemma bj_handle_waiting_for_finished_ack : forall again pkt,
    pres Jt Jt again -> pres Bt Jt (handle_waiting_for_finished_ack again pkt).
  Proof.
    intros again pkt Hagain. unfold handle_waiting_for_finished_ack.
    destruct pkt as [[]|]; try (apply bj_handle_positive_ack_procedures, Hagain).
    - apply (pres_post _ Bt); [apply Bt_Jt | apply bt_prepare_eof_ack_packet].
    - apply (pres_post _ Rt); [apply Rt_Jt | apply (pres_pre Jt); [apply Bt_Jt | apply jt_reset]].
  Qed.

  (* a clause guarded by a step after the completion *)
  Lemma guard_J : forall v (m rest : D unit), v <> DS_IDLE ->
    (forall s, Bt s -> d_step s = v -> Jt (fst (m s))) -> pres Jt Jt rest ->
    pres Jt Jt (bind (step_is v) (fun b => bind (when b m) (fun _ => rest))).
  Proof.
    intros v m rest Hv Hm Hr s H. rewrite b_step_is.
    destruct (Z.eqb_spec (d_step s) v) as [E|E].
    - rewrite when_true. destruct H as [H|(H & _)]; [|exfalso; congruence].
      apply (bind_pt Jt Jt); [apply Hm; assumption | trivial | intros _; exact Hr].
    - rewrite when_false, b_ret. apply Hr, H.
  Qed.
  Lemma guard_J_last : forall v (m : D unit), v <> DS_IDLE ->
    (forall s, Bt s -> d_step s = v -> Jt (fst (m s))) ->
    pres Jt Jt (bind (step_is v) (fun b => when b m)).
  Proof.
    intros v m Hv Hm s H. rewrite b_step_is.
    destruct (Z.eqb_spec (d_step s) v) as [E|E]; [|rewrite when_false; exact H].
    rewrite when_true. destruct H as [H|(H & _)]; [|exfalso; congruence]. apply Hm; assumption.
  Qed.

  Lemma jj_completion_clause : pres Jt Jt completion_clause.
  Proof.
    unfold completion_clause. refine (guard_J_last _ _ _ _); [discriminate|].
    intros s H E. apply bj_handle_transfer_completion; assumption.
  Qed.

  Lemma jj_after_completion : forall fuel pkt,
    (forall k, fuel = S k -> pres Jt Jt (non_idle_fsm k None)) -> pres Jt Jt (after_completion fuel pkt).
  Proof.
    intros fuel pkt IH. unfold after_completion.
    refine (guard_J _ _ _ _ _ _); [discriminate | |].
    { intros s H _. refine ((_ : pres Bt Jt _) s H).
      apply (pres_bind _ Bt _); [apply pres_gets | apply Bt_Jt | intros n].
      destruct (0 <? n); [apply (pres_post _ Bt); [apply Bt_Jt | apply pres_ret]|].
      apply (pres_bind _ Bt _); [apply bt_prepare_finished_pdu | apply Bt_Jt | intros _].
      apply bj_handle_finished_pdu_sent. }
    refine (guard_J_last _ _ _ _); [discriminate|].
    intros s H _. refine ((_ : pres Bt Jt _) s H).
    apply bj_handle_waiting_for_finished_ack.
    destruct fuel as [|k]; [apply pres_raise|].
    specialize (IH k eq_refl). apply pres_catch_abandoned.
    apply (pres_bind _ Jt _); [apply pres_get | trivial | intros s1].
    destruct (d_state s1 =? ST_BUSY); [rewrite when_true; exact IH | rewrite when_false; apply pres_ret].
  Qed.
End After.
(* ------------------------------------------------------------------ before_completion does nothing at a late step *)
Ltac eqb_consts :=
  repeat match goal with
  | |- context [?a =? ?b] =>
      let v := eval vm_compute in (a =? b) in
      match v with
      | true => change (a =? b) with true
      | false => change (a =? b) with false
      end
  end.

Lemma before_late : forall pkt s,
  late s \/ d_step s = DS_IDLE -> fst (before_completion pkt s) = s.
Proof.
  intros pkt s H. unfold before_completion, fsm_advancement, get_step. mr.
  assert (E : exists v, d_step s = v /\ (v = DS_TRANSFER_COMPLETION \/ v = DS_SENDING_FINISHED \/
                                         v = DS_WAITING_FOR_FINISHED_ACK \/ v = DS_IDLE)).
  { exists (d_step s). split; [reflexivity|]. unfold late in H. tauto. }
  destruct E as (v & Ev & Hv).
  destruct (0 <? zlen (d_queue s)); [reflexivity|].
  rewrite Ev. destruct Hv as [->|[->|[->| ->]]];
    repeat first [ progress mr | rewrite b_step_is | rewrite Ev | progress eqb_consts | progress cbv iota | progress cbn [orb] ];
    reflexivity.
Qed.

Lemma jj_non_idle_fsm : forall s0 fuel pkt, pres (Jt s0) (Jt s0) (non_idle_fsm fuel pkt).
Proof.
  intros s0. induction fuel as [|k IH]; intros pkt s H; rewrite call_split.
  - assert (Hl : late s \/ d_step s = DS_IDLE) by (destruct H as [(X & _)|(X & _)]; [left | right]; exact X).
    pose proof (before_late pkt s Hl) as Eb. unfold bind at 1.
    destruct (before_completion pkt s) as [s1 [[]|e]]; cbn [fst] in Eb; subst s1; [|exact H].
    clear Hl. revert s H. apply (pres_bind _ (Jt s0) _); [apply jj_completion_clause | trivial | intros _].
    apply jj_after_completion. intros k E. discriminate E.
  - assert (Hl : late s \/ d_step s = DS_IDLE) by (destruct H as [(X & _)|(X & _)]; [left | right]; exact X).
    pose proof (before_late pkt s Hl) as Eb. unfold bind at 1.
    destruct (before_completion pkt s) as [s1 [[]|e]]; cbn [fst] in Eb; subst s1; [|exact H].
    clear Hl. revert s H. apply (pres_bind _ (Jt s0) _); [apply jj_completion_clause | trivial | intros _].
    apply jj_after_completion. intros k' E. inversion E; subst k'. apply IH.
Qed.

Lemma jj_after : forall s0 fuel pkt, pres (Jt s0) (Jt s0) (after_completion fuel pkt).
Proof. intros s0 fuel pkt. apply jj_after_completion. intros k _. apply jj_non_idle_fsm. Qed.

Lemma core_refl : forall s, core s s.
Proof.
  intro s. split; [|split; [apply lg_refl | intros _; reflexivity]].
  exists []. split; [symmetry; apply app_nil_r | intros p []].
Qed.

(* after_completion does nothing unless the step is one of its own *)
Lemma after_other_step : forall fuel pkt s,
  d_step s <> DS_SENDING_FINISHED -> d_step s <> DS_WAITING_FOR_FINISHED_ACK -> after_completion fuel pkt s = (s, Ok tt).
Proof.
  intros fuel pkt s H1 H2. unfold after_completion. rewrite b_step_is.
  apply Z.eqb_neq in H1. apply Z.eqb_neq in H2. rewrite H1, when_false, b_ret, b_step_is, H2. reflexivity.
Qed.

Lemma after_cases : forall fuel pkt s,
  after_completion fuel pkt s = (s, Ok tt) \/ Jt s (fst (after_completion fuel pkt s)).
Proof.
  intros fuel pkt s.
  destruct (Z.eq_dec (d_step s) DS_SENDING_FINISHED) as [E1|E1];
    [|destruct (Z.eq_dec (d_step s) DS_WAITING_FOR_FINISHED_ACK) as [E2|E2]; [|left; apply after_other_step; assumption]];
    right; apply jj_after; left;
    (split; [unfold late; tauto | split; [reflexivity | split; [left; split; [reflexivity | intro X; first [rewrite X in E1; discriminate E1 | rewrite X in E2; discriminate E2]] | apply core_refl]]]).
Qed.

Lemma only_completion_logs_success : forall pkt p fuel s,
  (forall l, log_d (fst (check_inserted_packet p s)) = l ++ log_d s -> forall e, In e l -> ~ success e) /\
  (forall l, log_d (fst (idle_fsm pkt s)) = l ++ log_d s -> forall e, In e l -> ~ success e) /\
  (forall l, log_d (fst (before_completion pkt s)) = l ++ log_d s -> forall e, In e l -> ~ success e) /\
  (c01_inv s -> forall l, log_d (fst (after_completion fuel pkt s)) = l ++ log_d s -> forall e, In e l -> ~ success e).
Proof.
  intros pkt p fuel s. split; [|split; [|split]].
  - intros l. apply lg_none, g_check_inserted_packet.
  - intros l. apply lg_none, g_idle_fsm.
  - intros l. apply lg_none, g_before_completion.
  - intros _ l. apply lg_none.
    destruct (after_cases fuel pkt s) as [E|[(_ & _ & _ & _ & Hg & _)|(_ & _ & _ & Hg & _)]]; [rewrite E; apply lg_refl | exact Hg | exact Hg].
Qed.

Lemma success_pdu_is_verified : forall fuel pkt s s' r p,
  c01_inv s -> after_completion fuel pkt s = (s', r) -> In p (d_queue s') -> ~ In p (d_queue s) -> success_pdu p ->
  verified s /\ fs_d s' = fs_d s.
Proof.
  intros fuel pkt s s' r p Hinv Ha Hin Hnin Hs.
  destruct (after_cases fuel pkt s) as [E|HJ].
  - rewrite E in Ha. inversion Ha; subst s'. contradiction.
  - rewrite Ha in HJ. cbn [fst] in HJ.
    assert (Hc : core s s') by (destruct HJ as [(_ & _ & _ & Hc)|(_ & _ & Hc)]; exact Hc).
    destruct Hc as ((l & El & Hl) & _ & Hf).
    rewrite El in Hin. apply in_app_or in Hin. destruct Hin as [Hin|Hin]; [contradiction|].
    destruct (Hl p Hin Hs) as [Hk _]. split; [|apply Hf, Hk].
    destruct Hinv as (H1 & _). apply H1, Hk.
Qed.


(* ------------------------------------------------------------------ why the invariant carries its second and third conjunct *)
Module CounterExamples.
  (* the first conjunct alone *)
  Definition weak_inv (s : dst) : Prop := f_deliv (p_fin (d_p s)) = DATA_COMPLETE -> verified s.
  Definition r0 : rcfg := mkRcfg 2 1 None 64 false false ACKED CK_MODULAR 100 2 2 false false 100 2.
  Definition cfg0 : lcfg := mkLcfg 1 1 false false false false [] 100 [r0].
  Definition hin (mode : Z) : hdr := mkHdr TOWARDS_RECEIVER mode false false 2 1 1 0 1.
  Definition hout (mode : Z) : hdr := set_dir TOWARDS_SENDER (hin mode).
  (* busy with transaction (2, 0): file [7] = 1 2 3 4, modular checksum 1 2 3 4 over 4 bytes recorded, EOF file size 4
     (not more than the progress: since the F31 repair the verification fails otherwise) *)
  Definition st0 (step mode deliv : Z) (tr : tracker) (ct : option timer) : dst :=
    mkDst cfg0 ST_BUSY step (Some (2, 0)) 0 []
      (mkDP (Some (2, 0)) (Some r0) ct 0 false CK_MODULAR (mkFin deliv FS_RETAINED C_NO_ERROR None) DISP_COMPLETED (hout mode)
            4 [1; 2; 3; 4] (Some 4) [7] (Some 4) false tr false 0 0 false None 0 None 0)
      (mkEnv 0 [([7], File [1; 2; 3; 4])] false []).
  Definition fd : pdu := PFileData (hin ACKED) 0 [9; 9; 9; 9].

  Lemma not_verified_after : forall s',
    p_md_only (d_p s') = false -> p_cktype (d_p s') = CK_MODULAR -> p_file_name (d_p s') = [7] ->
    fs_d s' = [([7], File [9; 9; 9; 9])] -> p_progress (d_p s') = 4 -> p_crc32 (d_p s') = [1; 2; 3; 4] ->
    ~ verified s'.
  Proof.
    intros s' E1 E2 E3 E4 E5 E6 [X|[X|(d & Hl & Hc)]].
    - rewrite E1 in X. discriminate X.
    - rewrite E2 in X. discriminate X.
    - rewrite E3, E4 in Hl. vm_compute in Hl. inversion Hl; subst d. rewrite E2, E5, E6 in Hc. vm_compute in Hc. discriminate Hc.
  Qed.

  (* 1. "data complete => verified" alone is not inductive: a state that records "data complete" while the step is
        still "receiving file data" satisfies it, and the next File Data PDU overwrites the verified file.  Such a
        state is not reachable: the verification and the move to the completion step happen in the same call. *)
  Example late_step_needed :
    let s := st0 DS_RECEIVING_FILE_DATA ACKED DATA_COMPLETE [] None in
    weak_inv s /\ ~ weak_inv (fst (Dest.state_machine (Some fd) s)).
  Proof.
    cbv zeta. split.
    - intros _. right. right. exists [1; 2; 3; 4]. split; vm_compute; reflexivity.
    - intro H. apply (not_verified_after _) in H; try (vm_compute; reflexivity). exact H.
  Qed.

  (* 2. without the third conjunct: the check-limit step in ACKNOWLEDGED mode (not reachable: the check timer is only
        started for an unacknowledged transfer).  The state satisfies the first two conjuncts; the expired check timer
        verifies the file and records "data complete", but the acknowledged-mode transition goes back to "sending EOF
        ACK", from there to "waiting for missing data", and the next File Data PDU overwrites the verified file. *)
  Example unacked_check_limit_needed :
    let s := st0 DS_RECV_WITH_CHECK_LIMIT ACKED DATA_INCOMPLETE [(0, 8)] (Some (0, 0)) in
    let s2 := fst (Dest.state_machine None s) in
    let s3 := fst (Dest.get_next_packet s2) in
    let s4 := fst (Dest.state_machine (Some fd) s3) in
    (f_deliv (p_fin (d_p s)) <> DATA_COMPLETE) /\
    f_deliv (p_fin (d_p s2)) = DATA_COMPLETE /\ d_step s2 = DS_SENDING_EOF_ACK /\
    d_step s4 = DS_WAITING_FOR_MISSING_DATA /\ ~ weak_inv s4.
  Proof.
    cbv zeta. split; [vm_compute; discriminate|]. split; [vm_compute; reflexivity|].
    split; [vm_compute; reflexivity|]. split; [vm_compute; reflexivity|].
    intro H. apply (not_verified_after _) in H; try (vm_compute; reflexivity). exact H.
  Qed.
End CounterExamples.
Print Assumptions call_split.
Print Assumptions inv_init.
Print Assumptions inv_api.
Print Assumptions inv_reaches_completion.
Print Assumptions completion_success_is_verified.
Print Assumptions only_completion_logs_success.
Print Assumptions success_pdu_is_verified.
