(* CancelProofs.v — proofs for property C12 (props/C12.v): cancellation takes effect
   immediately and is signalled correctly. *)
From CFDP Require Import Base Fs Crc Checksum Handler Dest Source HandlerSpec.
From RecordUpdate Require Import RecordSet.
Import RecordSetNotations.

Arguments Z.add : simpl never. Arguments Z.sub : simpl never. Arguments Z.mul : simpl never.
Arguments Z.pow : simpl never. Arguments Z.div : simpl never. Arguments Z.ltb : simpl never.
Arguments Z.leb : simpl never. Arguments Z.eqb : simpl never.

Ltac zb := repeat match goal with
  | H : (_ =? _) = true |- _ => apply Z.eqb_eq in H
  | H : (_ =? _) = false |- _ => apply Z.eqb_neq in H
  | H : (_ <? _) = true |- _ => apply Z.ltb_lt in H
  | H : (_ <? _) = false |- _ => apply Z.ltb_ge in H
  | H : (_ <=? _) = true |- _ => apply Z.leb_le in H
  | H : (_ <=? _) = false |- _ => apply Z.leb_gt in H
  end.

(* ------------------------------------------------------------------ receiver: cancel_request *)
Lemma dest_cancel_idle : forall a b s, d_state s = ST_IDLE -> Dest.cancel_request a b s = (s, Ok false).
Proof.
  intros a b s H. unfold cancel_request, bind, get, ret. rewrite H. reflexivity.
Qed.

Lemma dest_cancel_unretrieved : forall a b s,
  d_state s <> ST_IDLE -> 0 < d_ready s -> Dest.cancel_request a b s = (s, Err E_UNRETRIEVED).
Proof.
  intros a b s H Hr. unfold cancel_request, bind, get, ret, raise.
  apply Z.eqb_neq in H. rewrite H. apply Z.ltb_lt in Hr. rewrite Hr. reflexivity.
Qed.

Lemma dest_cancel_iff : forall a b s,
  d_state s <> ST_IDLE -> d_ready s <= 0 ->
  exists s' r, Dest.cancel_request a b s = (s', Ok r) /\
    (r = true <-> p_tid (d_p s) = Some (a, b)) /\ (r = false -> s' = s) /\
    (r = true ->
       d_step s' = DS_TRANSFER_COMPLETION /\ d_state s' = d_state s /\
       p_disp (d_p s') = DISP_CANCELED /\ f_cond (p_fin (d_p s')) = C_CANCEL_REQUEST /\
       f_fl (p_fin (d_p s')) = Some (l_id (d_cfg s), l_idw (d_cfg s)) /\
       f_deliv (p_fin (d_p s')) = f_deliv (p_fin (d_p s)) /\
       d_queue s' = d_queue s /\ fs_d s' = fs_d s /\ log_d s' = log_d s).
Proof.
  intros a b s H Hr. unfold fs_d, log_d.
  unfold cancel_request, bind, get, ret, raise, setp, set_step, modify.
  apply Z.eqb_neq in H. rewrite H. apply Z.ltb_ge in Hr. rewrite Hr.
  destruct (p_tid (d_p s)) as [[x y]|] eqn:Ht.
  - destruct ((x =? a) && (y =? b)) eqn:E.
    + apply andb_true_iff in E. destruct E as [E1 E2]. apply Z.eqb_eq in E1, E2. subst x y.
      eexists. exists true. split; [reflexivity|].
      split; [tauto|]. split; [discriminate|]. intros _.
      destruct s as [cfg st step stid rdy q p env].
      destruct p as [ptid prc pct pcc pcl pck pfin pdisp pconf ppr pcrc pfsz pfn pfse pmdo ptr pmdm pls ple pdef ppt pnc pat pac].
      destruct pfin.
      cbn. repeat split; reflexivity.
    + exists s, false. split; [reflexivity|].
      split; [|split; [reflexivity|discriminate]].
      split; [discriminate|]. intros E'. inversion E'; subst.
      rewrite !Z.eqb_refl in E. discriminate E.
  - exists s, false. split; [reflexivity|].
    split; [|split; [reflexivity|discriminate]]. split; discriminate.
Qed.

(* ------------------------------------------------------------------ receiver: EOF (cancel) *)
Lemma dest_eof_cancel : forall s c ck sz r a b,
  c <> C_NO_ERROR -> p_rcfg (d_p s) = Some r -> p_tid (d_p s) = Some (a, b) -> d_state s = ST_BUSY ->
  exists s', handle_eof_pdu c ck sz s = (s', Ok tt) /\
    p_disp (d_p s') = DISP_CANCELED /\ f_cond (p_fin (d_p s')) = c /\
    f_fl (p_fin (d_p s')) = Some (r_id r, r_idw r) /\ f_deliv (p_fin (d_p s')) = DATA_INCOMPLETE /\
    p_progress (d_p s') = sz /\ fs_d s' = fs_d s /\
    (h_mode (p_conf (d_p s)) = UNACKED -> d_step s' = DS_TRANSFER_COMPLETION /\ d_queue s' = d_queue s) /\
    (h_mode (p_conf (d_p s)) = ACKED ->
       d_step s' = DS_SENDING_EOF_ACK /\
       d_queue s' = d_queue s ++ [PAck (set_dir TOWARDS_SENDER (p_conf (d_p s))) D_EOF c TS_ACTIVE]).
Proof.
  intros s c ck sz r a b Hc Hr Ht Hst. unfold fs_d.
  destruct s as [cfg st step stid rdy q p env].
  destruct p as [ptid prc pct pcc pcl pck pfin pdisp pconf ppr pcrc pfsz pfn pfse pmdo ptr pmdm pls ple pdef ppt pnc pat pac].
  destruct pfin as [dl fst cd fl]. cbn in Hr, Ht, Hst |- *. subst.
  unfold handle_eof_pdu, file_transfer_complete_transition, prepare_eof_ack_packet, tid_or_assert, tmode,
    conf, gp, setp, set_step, emit, add_packet, when, bind, get, gets, modify, ret, raise.
  apply Z.eqb_neq in Hc. rewrite Hc. cbn.
  destruct (l_ind_eof_recv cfg); cbn; change (ST_BUSY =? ST_IDLE) with false; cbv iota;
    (destruct (h_mode pconf =? UNACKED) eqn:Eu; [| destruct (h_mode pconf =? ACKED) eqn:Ea]);
    cbn; (eexists; split; [reflexivity|]); cbn;
    repeat (split; [reflexivity|]);
    zb;
    (split; intros Hm; [try (exfalso; unfold ACKED, UNACKED in *; lia) | try (exfalso; unfold ACKED, UNACKED in *; lia)]);
    split; reflexivity.
Qed.

(* ------------------------------------------------------------------ receiver: cancelled completion *)
Lemma non_idle_fsm_unfold : forall fuel pkt,
  non_idle_fsm fuel pkt =
  (fsm_advancement ;;;
   st <- get_step ;;
   when (((st =? DS_RECEIVING_FILE_DATA) || (st =? DS_RECV_WITH_CHECK_LIMIT)))
     (match pkt with
      | Some (PFileData _ off data) => handle_fd_pdu off data
      | Some (PEof _ cond ck sz _) => handle_eof_pdu cond ck sz
      | _ => ret tt
      end) ;;;
   b <- step_is DS_WAITING_FOR_METADATA ;;
   when b (handle_waiting_for_missing_metadata pkt ;;; deferred_lost_segment_handling) ;;;
   b <- step_is DS_RECV_WITH_CHECK_LIMIT ;;
   when b check_limit_handling ;;;
   b <- step_is DS_WAITING_FOR_MISSING_DATA ;;
   when b
     ((match pkt with
       | Some (PFileData _ off data) =>
           handle_fd_pdu off data ;;;
           active <- gp p_deferred ;;
           when active reset_nak_activity_parameters
       | _ => ret tt
       end) ;;;
      deferred_lost_segment_handling) ;;;
   b <- step_is DS_TRANSFER_COMPLETION ;;
   when b handle_transfer_completion ;;;
   b <- step_is DS_SENDING_FINISHED ;;
   when b (n <- gets d_ready ;;
           if 0 <? n then ret tt else (prepare_finished_pdu ;;; handle_finished_pdu_sent)) ;;;
   b <- step_is DS_WAITING_FOR_FINISHED_ACK ;;
   when b
     (handle_waiting_for_finished_ack
        (match fuel with
         | O => raise E_FUEL
         | S k => s <- get ;; when (d_state s =? ST_BUSY) (non_idle_fsm k None)
         end) pkt))%monad.
Proof. intros [|k] pkt; reflexivity. Qed.

(* the positive-ACK timer that was just started has not expired: nothing happens *)
Lemma wait_ack_noop : forall again s r tm,
  p_ack_timer (d_p s) = Some tm -> p_rcfg (d_p s) = Some r ->
  timed_out (e_now (d_env s)) tm = false ->
  handle_waiting_for_finished_ack again None s = (s, Ok tt).
Proof.
  intros again s r tm Ht Hr Hto.
  unfold handle_waiting_for_finished_ack, handle_positive_ack_procedures, rcfg_or_assert, now, gp, gets, bind, ret.
  rewrite Ht, Hr, Hto. reflexivity.
Qed.

Arguments Z.eqb : simpl nomatch. Arguments Z.ltb : simpl nomatch.
Arguments handle_waiting_for_finished_ack : simpl never.
Arguments non_idle_fsm : simpl never.

Lemma dest_completion_canceled : forall s r a b,
  d_state s = ST_BUSY -> d_step s = DS_TRANSFER_COMPLETION -> d_queue s = [] -> d_ready s = 0 ->
  p_disp (d_p s) = DISP_CANCELED -> p_rcfg (d_p s) = Some r -> p_tid (d_p s) = Some (a, b) -> 0 < r_ack_ms r ->
  let p := d_p s in let f := p_fin p in
  let del := r_disposition r && (f_deliv f =? DATA_INCOMPLETE) in
  let fstatus' := if del then FS_DISCARDED_DELIBERATELY else f_fstatus f in
  let needs_fin := (h_mode (p_conf p) =? ACKED) || ((h_mode (p_conf p) =? UNACKED) && p_closure p) in
  exists s', Dest.state_machine None s = (s', Ok tt) /\
    log_d s' = (if l_ind_fin (d_cfg s) then [EvFinished a b (f_cond f) (f_deliv f) fstatus' (f_fl f)] else []) ++ log_d s /\
    fs_d s' = (if del then fst (fs_delete_file (fs_d s) (p_file_name p)) else fs_d s) /\
    (if needs_fin
     then d_queue s' = [PFinished (set_dir TOWARDS_SENDER (p_conf p)) (f_cond f) (f_deliv f) fstatus' (f_fl f)]
     else d_queue s' = [] /\ d_state s' = ST_IDLE).
Proof.
  intros s r a b Hst Hstep Hq Hrdy Hdisp Hr Htid Hack p f del fstatus' needs_fin.
  subst p f del fstatus' needs_fin. unfold log_d, fs_d.
  destruct s as [cfg st step stid rdy q p env].
  destruct p as [ptid prc pct pcc pcl pck pfin pdisp pconf ppr pcrc pfsz pfn pfse pmdo ptr pmdm pls ple pdef ppt pnc pat pac].
  destruct pfin as [dl fstt cd fl]. destruct env as [nw fs rw lg].
  cbn in Hst, Hstep, Hq, Hrdy, Hdisp, Hr, Htid |- *. subst.
  assert (Hto : timed_out nw (nw, r_ack_ms r) = false)
    by (unfold timed_out; cbn; apply Z.leb_gt; lia).
  unfold Dest.state_machine. rewrite non_idle_fsm_unfold.
  destruct (l_ind_fin cfg) eqn:El; destruct (r_disposition r && (dl =? DATA_INCOMPLETE)) eqn:Ed;
    destruct (h_mode pconf =? ACKED) eqn:Ea; destruct (h_mode pconf =? UNACKED) eqn:Eu; destruct pcl.
  all: cbn.
  all: unfold handle_transfer_completion, notice_of_completion, prepare_finished_pdu, handle_finished_pdu_sent,
    start_positive_ack_procedure, mode_is, tmode, step_is, get_step, rcfg_or_assert, reset_internal, add_packet,
    conf, gp, setp, set_step, emit, now, when, bind, get, gets, modify, ret, raise.
  all: repeat (progress (cbn; rewrite ?Ea, ?Eu, ?El, ?Ed)).
  all: try rewrite (wait_ack_noop _ _ r (nw, r_ack_ms r)) by (first [exact Hto | reflexivity]).
  all: eexists; (split; [reflexivity|]); cbn; repeat split; reflexivity.
Qed.

Arguments Z.eqb : simpl never. Arguments Z.ltb : simpl never.
