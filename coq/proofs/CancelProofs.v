(* CancelProofs.v — proofs for property C12 (props/C12.v): cancellation takes effect
   immediately and is signalled correctly. *)
From CFDP Require Import Base Fs Crc Checksum Handler Dest Source HandlerSpec.
From RecordUpdate Require Import RecordSet.
Import RecordSetNotations.

Arguments Z.add : simpl never. Arguments Z.sub : simpl never. Arguments Z.mul : simpl never.
Arguments Z.pow : simpl never. Arguments Z.div : simpl never. Arguments Z.ltb : simpl never.
Arguments Z.leb : simpl never. Arguments Z.eqb : simpl never.

Ltac zb := repeat match goal with
  | H : (_ =? _) = true |- _ => apply Z.eqb_eq in H
  | H : (_ =? _) = false |- _ => apply Z.eqb_neq in H
  | H : (_ <? _) = true |- _ => apply Z.ltb_lt in H
  | H : (_ <? _) = false |- _ => apply Z.ltb_ge in H
  | H : (_ <=? _) = true |- _ => apply Z.leb_le in H
  | H : (_ <=? _) = false |- _ => apply Z.leb_gt in H
  end.

(* ------------------------------------------------------------------ receiver: cancel_request *)
Lemma dest_cancel_idle : forall a b s, d_state s = ST_IDLE -> Dest.cancel_request a b s = (s, Ok false).
Proof.
  intros a b s H. unfold cancel_request, bind, get, ret. rewrite H. reflexivity.
Qed.

Lemma dest_cancel_unretrieved : forall a b s,
  d_state s <> ST_IDLE -> 0 < d_ready s -> Dest.cancel_request a b s = (s, Err E_UNRETRIEVED).
Proof.
  intros a b s H Hr. unfold cancel_request, bind, get, ret, raise.
  apply Z.eqb_neq in H. rewrite H. apply Z.ltb_lt in Hr. rewrite Hr. reflexivity.
Qed.

Lemma dest_cancel_iff : forall a b s,
  d_state s <> ST_IDLE -> d_ready s <= 0 ->
  exists s' r, Dest.cancel_request a b s = (s', Ok r) /\
    (r = true <-> p_tid (d_p s) = Some (a, b)) /\ (r = false -> s' = s) /\
    (r = true ->
       d_step s' = DS_TRANSFER_COMPLETION /\ d_state s' = d_state s /\
       p_disp (d_p s') = DISP_CANCELED /\ f_cond (p_fin (d_p s')) = C_CANCEL_REQUEST /\
       f_fl (p_fin (d_p s')) = Some (l_id (d_cfg s), l_idw (d_cfg s)) /\
       f_deliv (p_fin (d_p s')) = f_deliv (p_fin (d_p s)) /\
       d_queue s' = d_queue s /\ fs_d s' = fs_d s /\ log_d s' = log_d s).
Proof.
  intros a b s H Hr. unfold fs_d, log_d.
  unfold cancel_request, bind, get, ret, raise, setp, set_step, modify.
  apply Z.eqb_neq in H. rewrite H. apply Z.ltb_ge in Hr. rewrite Hr.
  destruct (p_tid (d_p s)) as [[x y]|] eqn:Ht.
  - destruct ((x =? a) && (y =? b)) eqn:E.
    + apply andb_true_iff in E. destruct E as [E1 E2]. apply Z.eqb_eq in E1, E2. subst x y.
      eexists. exists true. split; [reflexivity|].
      split; [tauto|]. split; [discriminate|]. intros _.
      destruct s as [cfg st step stid rdy q p env].
      destruct p as [ptid prc pct pcc pcl pck pfin pdisp pconf ppr pcrc pfsz pfn pfse pmdo ptr pmdm pls ple pdef ppt pnc pat pac].
      destruct pfin.
      cbn. repeat split; reflexivity.
    + exists s, false. split; [reflexivity|].
      split; [|split; [reflexivity|discriminate]].
      split; [discriminate|]. intros E'. inversion E'; subst.
      rewrite !Z.eqb_refl in E. discriminate E.
  - exists s, false. split; [reflexivity|].
    split; [|split; [reflexivity|discriminate]]. split; discriminate.
Qed.

(* ------------------------------------------------------------------ receiver: EOF (cancel) *)
Lemma dest_eof_cancel : forall s c ck sz r a b,
  c <> C_NO_ERROR -> p_rcfg (d_p s) = Some r -> p_tid (d_p s) = Some (a, b) -> d_state s = ST_BUSY ->
  exists s', handle_eof_pdu c ck sz s = (s', Ok tt) /\
    p_disp (d_p s') = DISP_CANCELED /\ f_cond (p_fin (d_p s')) = c /\
    f_fl (p_fin (d_p s')) = Some (r_id r, r_idw r) /\ f_deliv (p_fin (d_p s')) = DATA_INCOMPLETE /\
    p_progress (d_p s') = sz /\ fs_d s' = fs_d s /\
    (h_mode (p_conf (d_p s)) = UNACKED -> d_step s' = DS_TRANSFER_COMPLETION /\ d_queue s' = d_queue s) /\
    (h_mode (p_conf (d_p s)) = ACKED ->
       d_step s' = DS_SENDING_EOF_ACK /\
       d_queue s' = d_queue s ++ [PAck (set_dir TOWARDS_SENDER (p_conf (d_p s))) D_EOF c TS_ACTIVE]).
Proof.
  intros s c ck sz r a b Hc Hr Ht Hst. unfold fs_d.
  destruct s as [cfg st step stid rdy q p env].
  destruct p as [ptid prc pct pcc pcl pck pfin pdisp pconf ppr pcrc pfsz pfn pfse pmdo ptr pmdm pls ple pdef ppt pnc pat pac].
  destruct pfin as [dl fst cd fl]. cbn in Hr, Ht, Hst |- *. subst.
  unfold handle_eof_pdu, file_transfer_complete_transition, prepare_eof_ack_packet, tid_or_assert, tmode,
    conf, gp, setp, set_step, emit, add_packet, when, bind, get, gets, modify, ret, raise.
  apply Z.eqb_neq in Hc. rewrite Hc. cbn.
  destruct (l_ind_eof_recv cfg); cbn; change (ST_BUSY =? ST_IDLE) with false; cbv iota;
    (destruct (h_mode pconf =? UNACKED) eqn:Eu; [| destruct (h_mode pconf =? ACKED) eqn:Ea]);
    cbn; (eexists; split; [reflexivity|]); cbn;
    repeat (split; [reflexivity|]);
    zb;
    (split; intros Hm; [try (exfalso; unfold ACKED, UNACKED in *; lia) | try (exfalso; unfold ACKED, UNACKED in *; lia)]);
    split; reflexivity.
Qed.

(* ------------------------------------------------------------------ receiver: cancelled completion *)
(* the positive-ACK timer that was just started has not expired: nothing happens *)
Lemma wait_ack_noop : forall again s r tm,
  p_ack_timer (d_p s) = Some tm -> p_rcfg (d_p s) = Some r ->
  timed_out (e_now (d_env s)) tm = false ->
  handle_waiting_for_finished_ack again None s = (s, Ok tt).
Proof.
  intros again s r tm Ht Hr Hto.
  unfold handle_waiting_for_finished_ack, handle_positive_ack_procedures, rcfg_or_assert, now, gp, gets, bind, ret.
  rewrite Ht, Hr, Hto. reflexivity.
Qed.

Arguments Z.eqb : simpl nomatch. Arguments Z.ltb : simpl nomatch.
Arguments handle_waiting_for_finished_ack : simpl never.

Lemma dest_completion_canceled : forall s r a b,
  d_state s = ST_BUSY -> d_step s = DS_TRANSFER_COMPLETION -> d_queue s = [] -> d_ready s = 0 ->
  p_disp (d_p s) = DISP_CANCELED -> p_rcfg (d_p s) = Some r -> p_tid (d_p s) = Some (a, b) -> 0 < r_ack_ms r ->
  let p := d_p s in let f := p_fin p in
  let del := r_disposition r && (f_deliv f =? DATA_INCOMPLETE) in
  let fstatus' := if del then FS_DISCARDED_DELIBERATELY else f_fstatus f in
  let needs_fin := (h_mode (p_conf p) =? ACKED) || ((h_mode (p_conf p) =? UNACKED) && p_closure p) in
  exists s', Dest.state_machine None s = (s', Ok tt) /\
    log_d s' = (if l_ind_fin (d_cfg s) then [EvFinished a b (f_cond f) (f_deliv f) fstatus' (f_fl f)] else []) ++ log_d s /\
    fs_d s' = (if del then fst (fs_delete_file (fs_d s) (p_file_name p)) else fs_d s) /\
    (if needs_fin
     then d_queue s' = [PFinished (set_dir TOWARDS_SENDER (p_conf p)) (f_cond f) (f_deliv f) fstatus' (f_fl f)]
     else d_queue s' = [] /\ d_state s' = ST_IDLE).
Proof.
  intros s r a b Hst Hstep Hq Hrdy Hdisp Hr Htid Hack p f del fstatus' needs_fin.
  subst p f del fstatus' needs_fin. unfold log_d, fs_d.
  destruct s as [cfg st step stid rdy q p env].
  destruct p as [ptid prc pct pcc pcl pck pfin pdisp pconf ppr pcrc pfsz pfn pfse pmdo ptr pmdm pls ple pdef ppt pnc pat pac].
  destruct pfin as [dl fstt cd fl]. destruct env as [nw fs rw lg].
  cbn in Hst, Hstep, Hq, Hrdy, Hdisp, Hr, Htid |- *. subst.
  assert (Hto : timed_out nw (nw, r_ack_ms r) = false)
    by (unfold timed_out; cbn; apply Z.leb_gt; lia).
  unfold Dest.state_machine, catch_abandoned, catch. remember 2%nat as k eqn:Hk. clear Hk. cbn [non_idle_fsm].
  destruct cfg as [lid lidw i1 i2 i3 ifin lf lck lrem].
  destruct r as [rid ridw rms rmp rcl rcrc rmode rck rack racl rchl rdisp rimm rnak rnakl].
  destruct pconf as [hd hm hc hl hs hdst hidw hseq hseqw].
  cbn in Hack, Hto |- *.
  destruct ifin; (destruct rdisp; [destruct dl as [|[pd|pd|]|pd]|]);
    (destruct hm as [|[ph|ph|]|ph]; [| | |destruct pcl|]).
  all: cbn.
  all: unfold handle_transfer_completion, notice_of_completion, prepare_finished_pdu, handle_finished_pdu_sent,
    start_positive_ack_procedure, mode_is, tmode, step_is, get_step, rcfg_or_assert, reset_internal, add_packet,
    catch_abandoned, catch, conf, gp, setp, set_step, emit, now, when, bind, get, gets, modify, ret, raise.
  all: cbn.
  all: try rewrite (wait_ack_noop _ _ _ (nw, rack)) by (first [exact Hto | reflexivity]).
  all: eexists; (split; [reflexivity|]); cbn; repeat split; reflexivity.
Qed.


Arguments Z.eqb : simpl never. Arguments Z.ltb : simpl never.

(* ------------------------------------------------------------------ sender *)
Lemma source_cancel_unretrieved : forall a b s,
  0 < s_ready s -> cancel_request_s a b s = (s, Err E_UNRETRIEVED).
Proof.
  intros a b s H. unfold cancel_request_s, bind, get, raise.
  apply Z.ltb_lt in H. rewrite H. reflexivity.
Qed.

Lemma source_cancel_wrong_id : forall a b s,
  s_ready s <= 0 -> q_tid (s_p s) <> Some (a, b) -> cancel_request_s a b s = (s, Ok false).
Proof.
  intros a b s H Ht. unfold cancel_request_s, bind, get, raise, ret.
  apply Z.ltb_ge in H. rewrite H.
  destruct (q_tid (s_p s)) as [[x y]|]; [|reflexivity].
  destruct ((x =? a) && (y =? b)) eqn:E; [|reflexivity].
  apply andb_true_iff in E. destruct E as [E1 E2]. zb. subst. congruence.
Qed.

(* the checksum computation never changes the state, and its result depends only on the request,
   the metadata-only flag, the remote configuration, the segment length and the filestore *)
Lemma checksum_calculation_state : forall size s, fst (checksum_calculation size s) = s.
Proof.
  intros size s. unfold checksum_calculation, put_or_assert, srcfg_or_assert, gq, gets, bind, ret, raise.
  destruct (s_put s) as [p|]; [|reflexivity].
  destruct (q_md_only (s_p s)); [reflexivity|].
  destruct (pr_names p) as [[sn dn]|]; [|reflexivity].
  destruct (q_rcfg (s_p s)) as [r|]; [|reflexivity].
  destruct (r_cktype r =? CK_NULL); [reflexivity|].
  destruct (lookup (e_fs (s_env s)) sn) as [[d|]|]; try reflexivity.
  destruct (calculate_checksum (r_cktype r) (Some d) size (q_segment_len (s_p s))) as [c|[]]; reflexivity.
Qed.

Lemma checksum_calculation_frame : forall size s s',
  s_put s' = s_put s -> q_md_only (s_p s') = q_md_only (s_p s) -> q_rcfg (s_p s') = q_rcfg (s_p s) ->
  q_segment_len (s_p s') = q_segment_len (s_p s) -> e_fs (s_env s') = e_fs (s_env s) ->
  snd (checksum_calculation size s') = snd (checksum_calculation size s).
Proof.
  intros size s s' H1 H2 H3 H4 H5.
  unfold checksum_calculation, put_or_assert, srcfg_or_assert, gq, gets, bind, ret, raise.
  cbv beta. rewrite H1. destruct (s_put s) as [p|]; [|reflexivity].
  rewrite H2. destruct (q_md_only (s_p s)); [reflexivity|].
  destruct (pr_names p) as [[sn dn]|]; [|reflexivity].
  rewrite H3. destruct (q_rcfg (s_p s)) as [r|]; [|reflexivity].
  rewrite H4, H5.
  destruct (r_cktype r =? CK_NULL); [reflexivity|].
  destruct (lookup (e_fs (s_env s)) sn) as [[d|]|]; try reflexivity.
  destruct (calculate_checksum (r_cktype r) (Some d) size (q_segment_len (s_p s))) as [c|[]]; reflexivity.
Qed.

Lemma checksum_calculation_eq : forall size s ck,
  snd (checksum_calculation size s) = Ok ck -> checksum_calculation size s = (s, Ok ck).
Proof.
  intros size s ck H. pose proof (checksum_calculation_state size s) as Hs.
  destruct (checksum_calculation size s) as [s0 r]. cbn in *. subst. reflexivity.
Qed.

Lemma source_checksum_is_prefix : forall s p sn dn r d size,
  s_put s = Some p -> pr_names p = Some (sn, dn) -> q_md_only (s_p s) = false -> q_rcfg (s_p s) = Some r ->
  lookup (fs_s s) sn = Some (File d) -> sn <> [] ->
  checksum_calculation size s =
    (s, match Checksum.calculate_checksum (r_cktype r) (Some d) size (q_segment_len (s_p s)) with
        | Ok c => Ok c
        | Err Checksum.ChecksumNotImplemented => Err E_CHECKSUM_NOT_IMPL
        | Err Checksum.FileNotFound => Err E_FILE_NOT_FOUND
        | Err Checksum.ValueErr => Err E_VALUE
        | Err Checksum.OutOfFuel => Err E_FUEL
        end).
Proof.
  intros s p sn dn r d size Hp Hn Hmd Hr Hl Hne. unfold fs_s in Hl.
  unfold checksum_calculation, put_or_assert, srcfg_or_assert, gq, gets, bind, ret, raise.
  rewrite Hp, Hmd, Hn, Hr, Hl.
  destruct (r_cktype r =? CK_NULL) eqn:E.
  - unfold calculate_checksum. rewrite E. reflexivity.
  - destruct (calculate_checksum (r_cktype r) (Some d) size (q_segment_len (s_p s))) as [c|[]]; reflexivity.
Qed.

Arguments Z.eqb : simpl nomatch. Arguments Z.ltb : simpl nomatch.
Arguments checksum_calculation : simpl never.

Lemma source_cancel_ok : forall a b s ck,
  s_ready s <= 0 -> q_tid (s_p s) = Some (a, b) -> s_state s = ST_BUSY -> q_rcfg (s_p s) <> None ->
  (q_cond_eof (s_p s) = None \/ q_cond_eof (s_p s) = Some C_NO_ERROR) ->
  fst (checksum_calculation (q_progress (s_p s)) s) = s ->
  snd (checksum_calculation (q_progress (s_p s)) s) = Ok ck ->
  exists s', cancel_request_s a b s = (s', Ok true) /\
    s_queue s' = s_queue s ++ [PEof (hdr_of (q_conf (s_p s)) TOWARDS_RECEIVER) C_CANCEL_REQUEST ck (q_progress (s_p s)) None] /\
    (sc_mode (q_conf (s_p s)) = ACKED ->
       s_step s' = SS_WAITING_FOR_EOF_ACK /\ s_state s' = ST_BUSY /\ q_progress (s_p s') = q_progress (s_p s) /\
       q_cond_eof (s_p s') = Some C_CANCEL_REQUEST /\
       log_s s' = (if l_ind_eof_sent (s_cfg s) then [EvEofSent a b] else []) ++ log_s s) /\
    (sc_mode (q_conf (s_p s)) <> ACKED ->
       s_state s' = ST_IDLE /\ s_step s' = SS_IDLE /\
       log_s s' = (if l_ind_fin (s_cfg s)
                   then [EvFinished a b C_CANCEL_REQUEST DATA_INCOMPLETE FS_UNREPORTED None] else []) ++
                  (if l_ind_eof_sent (s_cfg s) then [EvEofSent a b] else []) ++ log_s s).
Proof.
  intros a b s ck Hrdy Htid Hst Hrc Hce _ Hck.
  unfold cancel_request_s, bind, get. apply Z.ltb_ge in Hrdy. rewrite Hrdy, Htid, !Z.eqb_refl. cbn [andb].
  assert (Hn : notice_of_cancellation_s C_CANCEL_REQUEST s =
               (setq (fun q => q <| q_cond_eof := Some C_CANCEL_REQUEST |>) ;;;
                pr <- gq q_progress ;; ck <- checksum_calculation pr ;;
                prepare_eof_pdu ck ;;; handle_eof_sent true ;;; ret true)%monad s).
  { unfold notice_of_cancellation_s, gq. unfold bind at 1. unfold gets at 1.
    destruct Hce as [H|H]; rewrite H; reflexivity. }
  rewrite Hn. clear Hn Hce Hrdy.
  destruct s as [cfg st step rdy qu q sb pt sc sbits env].
  destruct q as [tid ckt akt akc ce pr sl fsz ef mdo fn rc cl conf].
  destruct conf as [csrc csrcw cdst cdstw cseq cseqw cmode clarge ccrc].
  destruct cfg as [lid lidw ieof i2 i3 ifin lf lck lrem].
  cbn in Htid, Hst, Hrc, Hck |- *. subst.
  destruct rc as [r|]; [clear Hrc|congruence].
  unfold setq, gq, modify, gets, bind. cbn.
  match goal with |- context [checksum_calculation ?p ?s1] =>
    assert (Hc1 : checksum_calculation p s1 = (s1, Ok ck))
      by (apply checksum_calculation_eq; rewrite <- Hck; apply checksum_calculation_frame; reflexivity)
  end.
  rewrite Hc1. clear Hc1 Hck.
  unfold log_s.
  unfold prepare_eof_pdu, handle_eof_sent, notice_of_completion_s, start_positive_ack_procedure_s, srcfg_or_assert,
    stid_or_assert, smode_is, stmode, sadd_packet, semit, snow, sset_step, sreset_internal, setq, gq, when, modify, gets,
    get, bind, ret, raise.
  destruct ieof; destruct ifin; destruct cmode as [|pm|pm]; cbn;
    (eexists; split; [reflexivity|]); cbn; (split; [reflexivity|]);
    (split; intros Hm; [try discriminate Hm | try (exfalso; apply Hm; reflexivity)]);
    repeat split; reflexivity.
Qed.

Arguments Z.eqb : simpl never. Arguments Z.ltb : simpl never.
