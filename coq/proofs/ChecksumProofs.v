From CFDP Require Import Base Crc Checksum ChecksumSpec.
(* Proofs for property C09 (props/C09.v).  Stdlib only. *)
From Coq Require Import ZArith List Bool Lia.
Import ListNotations.
Open Scope Z_scope.

Arguments Z.add : simpl never.
Arguments Z.sub : simpl never.
Arguments Z.mul : simpl never.
Arguments Z.pow : simpl never.
Arguments Z.modulo : simpl never.
Arguments Z.div : simpl never.
Arguments Z.min : simpl never.
Arguments Z.land : simpl never.
Arguments Z.lxor : simpl never.
Arguments Z.shiftr : simpl never.
Arguments Z.ltb : simpl never.
Arguments Z.leb : simpl never.
Arguments Z.eqb : simpl never.
Arguments Z.to_nat : simpl never.
Arguments Z.of_nat : simpl never.

(* ------------------------------------------------------------------ *)
(* crc_update over a concatenation                                     *)

Lemma crc_update_app : forall poly c a b,
  crc_update poly (crc_update poly c a) b = crc_update poly c (a ++ b).
Proof.
  intros poly c a b. unfold crc_update. symmetry. apply fold_left_app.
Qed.

Opaque crc_update crc_byte.

(* ------------------------------------------------------------------ *)
(* list slicing facts                                                  *)

Lemma firstn_add_skipn : forall (A : Type) (a b : nat) (l : list A),
  firstn (a + b) l = firstn a l ++ firstn b (skipn a l).
Proof.
  intros A a. induction a as [|a IHa]; intros b l.
  - reflexivity.
  - destruct l as [|x l].
    + cbn [Nat.add firstn skipn app]. rewrite firstn_nil. reflexivity.
    + cbn [Nat.add firstn skipn app]. rewrite IHa. reflexivity.
Qed.

Lemma ztake_add : forall (data : bytes) (off k : Z),
  0 <= off -> 0 <= k ->
  ztake (off + k) data = ztake off data ++ read_at data off k.
Proof.
  intros data off k Hoff Hk. unfold read_at, ztake, zdrop.
  rewrite (Z2Nat.inj_add off k Hoff Hk). apply firstn_add_skipn.
Qed.

(* ------------------------------------------------------------------ *)
(* the chunk loop                                                      *)

Lemma crc_loop_S : forall k poly file size seg off c,
  crc_loop (S k) poly file size seg off c =
  if off <? size then
    crc_loop k poly file size seg (off + Z.min seg (size - off))
      (if 0 <? Z.min seg (size - off)
       then crc_update poly c (read_at file off (Z.min seg (size - off)))
       else c)
  else Ok c.
Proof. intros. reflexivity. Qed.

Lemma crc_loop_O : forall poly file size seg off c,
  crc_loop O poly file size seg off c =
  if off <? size then Err OutOfFuel else Ok c.
Proof. intros. reflexivity. Qed.

Lemma crc_loop_correct : forall poly data n seg,
  0 < seg ->
  forall fuel off c,
  0 <= off <= n ->
  (Z.to_nat (n - off) < fuel)%nat ->
  c = crc_update poly crc_init (ztake off data) ->
  crc_loop fuel poly data n seg off c =
    Ok (crc_update poly crc_init (ztake n data)).
Proof.
  intros poly data n seg Hseg fuel.
  induction fuel as [|k IH]; intros off c Hoff Hfuel Hc.
  - exfalso. lia.
  - rewrite crc_loop_S.
    destruct (off <? n) eqn:Elt.
    + apply Z.ltb_lt in Elt.
      assert (Hrl : 0 < Z.min seg (n - off)) by lia.
      set (rl := Z.min seg (n - off)) in *.
      assert (Hrl2 : rl <= n - off) by (unfold rl; lia).
      destruct (0 <? rl) eqn:Erl.
      * apply IH.
        -- lia.
        -- lia.
        -- rewrite Hc. rewrite crc_update_app.
           rewrite <- ztake_add by lia. reflexivity.
      * apply Z.ltb_ge in Erl. exfalso. lia.
    + apply Z.ltb_ge in Elt.
      assert (Heq : off = n) by lia.
      rewrite Hc. rewrite Heq. reflexivity.
Qed.

Lemma ztake_0 : forall (data : bytes), ztake 0 data = [].
Proof. intros data. reflexivity. Qed.

Lemma crc_update_nil : forall poly c, crc_update poly c [] = c.
Proof. intros. reflexivity. Qed.

Lemma crc_loop_top : forall poly data n seg,
  0 <= n -> 0 < seg ->
  crc_loop (S (Z.to_nat n)) poly data n seg 0 crc_init =
    Ok (crc_update poly crc_init (ztake n data)).
Proof.
  intros poly data n seg Hn Hseg.
  apply crc_loop_correct.
  - exact Hseg.
  - lia.
  - rewrite Z.sub_0_r. lia.
  - rewrite ztake_0. rewrite crc_update_nil. reflexivity.
Qed.

Lemma calc_crc_chunk_independent : forall ty data n seg,
  (ty = CK_CRC32 \/ ty = CK_CRC32C) -> 0 <= n <= zlen data -> 0 < seg ->
  calculate_checksum ty (Some data) n seg =
    Ok (crc_spec (if ty =? CK_CRC32 then poly_crc32 else poly_crc32c) (ztake n data)).
Proof.
  intros ty data n seg Hty Hn Hseg.
  assert (Eseg : (seg =? 0) = false) by (apply Z.eqb_neq; lia).
  unfold calculate_checksum. rewrite Eseg.
  destruct Hty as [Hty | Hty]; subst ty.
  - change (CK_CRC32 =? CK_NULL) with false.
    change (CK_CRC32 =? CK_MODULAR) with false.
    change (CK_CRC32 =? CK_CRC32) with true.
    change (CK_CRC32 =? CK_CRC32C) with false.
    cbn [negb orb].
    rewrite crc_loop_top by lia.
    reflexivity.
  - change (CK_CRC32C =? CK_NULL) with false.
    change (CK_CRC32C =? CK_MODULAR) with false.
    change (CK_CRC32C =? CK_CRC32) with false.
    change (CK_CRC32C =? CK_CRC32C) with true.
    cbn [negb orb].
    rewrite crc_loop_top by lia.
    reflexivity.
Qed.

Lemma calc_seg0_valueerror : forall ty data n,
  (ty = CK_CRC32 \/ ty = CK_CRC32C) -> calculate_checksum ty (Some data) n 0 = Err ValueErr.
Proof.
  intros ty data n Hty.
  unfold calculate_checksum.
  destruct Hty as [Hty | Hty]; subst ty.
  - change (CK_CRC32 =? CK_NULL) with false.
    change (CK_CRC32 =? CK_MODULAR) with false.
    change (0 =? 0) with true.
    reflexivity.
  - change (CK_CRC32C =? CK_NULL) with false.
    change (CK_CRC32C =? CK_MODULAR) with false.
    change (0 =? 0) with true.
    reflexivity.
Qed.

(* ------------------------------------------------------------------ *)
(* modular checksum                                                    *)

Lemma pow256_3 : 256 ^ (3 - 0) = 16777216. Proof. reflexivity. Qed.
Lemma pow256_2 : 256 ^ (3 - 1) = 65536. Proof. reflexivity. Qed.
Lemma pow256_1 : 256 ^ (3 - 2) = 256. Proof. reflexivity. Qed.
Lemma pow256_0 : 256 ^ (3 - 3) = 1. Proof. reflexivity. Qed.

Lemma mod4_S1 : forall i : nat, Z.of_nat i mod 4 = 0 -> Z.of_nat (S i) mod 4 = 1.
Proof.
  intros i Hi. rewrite Nat2Z.inj_succ.
  pose proof (Z.div_mod (Z.of_nat i) 4) as Hd.
  pose proof (Z.div_mod (Z.succ (Z.of_nat i)) 4) as Hd'.
  pose proof (Z.mod_pos_bound (Z.succ (Z.of_nat i)) 4) as Hb.
  lia.
Qed.

Lemma mod4_S2 : forall i : nat, Z.of_nat i mod 4 = 0 -> Z.of_nat (S (S i)) mod 4 = 2.
Proof.
  intros i Hi. rewrite !Nat2Z.inj_succ.
  pose proof (Z.div_mod (Z.of_nat i) 4) as Hd.
  pose proof (Z.div_mod (Z.succ (Z.succ (Z.of_nat i))) 4) as Hd'.
  pose proof (Z.mod_pos_bound (Z.succ (Z.succ (Z.of_nat i))) 4) as Hb.
  lia.
Qed.

Lemma mod4_S3 : forall i : nat, Z.of_nat i mod 4 = 0 -> Z.of_nat (S (S (S i))) mod 4 = 3.
Proof.
  intros i Hi. rewrite !Nat2Z.inj_succ.
  pose proof (Z.div_mod (Z.of_nat i) 4) as Hd.
  pose proof (Z.div_mod (Z.succ (Z.succ (Z.succ (Z.of_nat i)))) 4) as Hd'.
  pose proof (Z.mod_pos_bound (Z.succ (Z.succ (Z.succ (Z.of_nat i)))) 4) as Hb.
  lia.
Qed.

Lemma mod4_S4 : forall i : nat, Z.of_nat i mod 4 = 0 -> Z.of_nat (S (S (S (S i)))) mod 4 = 0.
Proof.
  intros i Hi. rewrite !Nat2Z.inj_succ.
  pose proof (Z.div_mod (Z.of_nat i) 4) as Hd.
  pose proof (Z.div_mod (Z.succ (Z.succ (Z.succ (Z.succ (Z.of_nat i))))) 4) as Hd'.
  pose proof (Z.mod_pos_bound (Z.succ (Z.succ (Z.succ (Z.succ (Z.of_nat i))))) 4) as Hb.
  lia.
Qed.

Lemma weighted_sum_cons : forall i b t,
  weighted_sum i (b :: t) = b * 256 ^ (3 - Z.of_nat i mod 4) + weighted_sum (S i) t.
Proof. intros. reflexivity. Qed.

Lemma weighted_sum_nil : forall i, weighted_sum i [] = 0.
Proof. intros. reflexivity. Qed.

Lemma modular_sum_4 : forall b0 b1 b2 b3 t,
  modular_sum (b0 :: b1 :: b2 :: b3 :: t) =
  b0 * 16777216 + b1 * 65536 + b2 * 256 + b3 + modular_sum t.
Proof. intros. reflexivity. Qed.

Lemma modular_sum_weighted_aux : forall (m : nat) (l : bytes) (i : nat),
  (length l <= m)%nat -> Z.of_nat i mod 4 = 0 ->
  modular_sum l = weighted_sum i l.
Proof.
  intros m. induction m as [|m IH]; intros l i Hlen Hi.
  - destruct l as [|b l].
    + reflexivity.
    + cbn [length] in Hlen. exfalso. lia.
  - pose proof (mod4_S1 i Hi) as H1.
    pose proof (mod4_S2 i Hi) as H2.
    pose proof (mod4_S3 i Hi) as H3.
    pose proof (mod4_S4 i Hi) as H4.
    destruct l as [|b0 [|b1 [|b2 [|b3 t]]]].
    + reflexivity.
    + rewrite weighted_sum_cons, weighted_sum_nil. rewrite Hi, pow256_3.
      cbn [modular_sum]. lia.
    + rewrite !weighted_sum_cons, weighted_sum_nil. rewrite Hi, H1, pow256_3, pow256_2.
      cbn [modular_sum]. lia.
    + rewrite !weighted_sum_cons, weighted_sum_nil.
      rewrite Hi, H1, H2, pow256_3, pow256_2, pow256_1.
      cbn [modular_sum]. lia.
    + rewrite modular_sum_4. rewrite !weighted_sum_cons.
      rewrite Hi, H1, H2, H3, pow256_3, pow256_2, pow256_1, pow256_0.
      rewrite (IH t (S (S (S (S i))))).
      * lia.
      * cbn [length] in Hlen. lia.
      * exact H4.
Qed.

Lemma modular_sum_weighted : forall l, modular_sum l = weighted_sum 0 l.
Proof.
  intros l. apply (modular_sum_weighted_aux (length l) l 0%nat).
  - apply Nat.le_refl.
  - reflexivity.
Qed.

Lemma modular_spec : forall data n seg,
  0 <= n <= zlen data ->
  calculate_checksum CK_MODULAR (Some data) n seg =
    Ok (be32 (weighted_sum 0 (ztake n data) mod 2 ^ 32)).
Proof.
  intros data n seg Hn.
  unfold calculate_checksum.
  change (CK_MODULAR =? CK_NULL) with false.
  change (CK_MODULAR =? CK_MODULAR) with true.
  cbv iota. unfold modular_checksum.
  change (2 ^ 32) with 4294967296.
  rewrite modular_sum_weighted. reflexivity.
Qed.

Lemma null_spec : forall file n seg, calculate_checksum CK_NULL file n seg = Ok [0; 0; 0; 0].
Proof.
  intros file n seg. unfold calculate_checksum.
  change (CK_NULL =? CK_NULL) with true. reflexivity.
Qed.

(* ------------------------------------------------------------------ *)
(* be32                                                                *)

Lemma land_255 : forall x, Z.land x 255 = x mod 256.
Proof.
  intros x. change 255 with (Z.ones 8).
  rewrite Z.land_ones by lia. reflexivity.
Qed.

Lemma byte_ok_land : forall x, byte_ok (Z.land x 255) = true.
Proof.
  intros x. rewrite land_255. unfold byte_ok.
  pose proof (Z.mod_pos_bound x 256) as Hb.
  apply andb_true_iff. split.
  - apply Z.leb_le. lia.
  - apply Z.ltb_lt. lia.
Qed.

Lemma be32_bytes : forall v, 0 <= v < 2 ^ 32 ->
  length (be32 v) = 4%nat /\ bytes_ok (be32 v) = true.
Proof.
  intros v Hv. split.
  - reflexivity.
  - unfold be32, bytes_ok. cbn [forallb].
    rewrite !byte_ok_land. reflexivity.
Qed.

Lemma be32_decomp : forall x, 0 <= x < 4294967296 ->
  x = (x / 16777216 mod 256) * 16777216 + (x / 65536 mod 256) * 65536
      + (x / 256 mod 256) * 256 + x mod 256.
Proof.
  intros x Hx. Z.div_mod_to_equations. lia.
Qed.

Lemma be32_inj : forall v w, 0 <= v < 2 ^ 32 -> 0 <= w < 2 ^ 32 -> be32 v = be32 w -> v = w.
Proof.
  intros v w Hv Hw Heq.
  change (2 ^ 32) with 4294967296 in Hv, Hw.
  unfold be32 in Heq.
  injection Heq as E0 E1 E2 E3.
  rewrite !land_255 in E0, E1, E2, E3.
  rewrite !Z.shiftr_div_pow2 in E0, E1, E2 by lia.
  change (2 ^ 24) with 16777216 in E0.
  change (2 ^ 16) with 65536 in E1.
  change (2 ^ 8) with 256 in E2.
  rewrite (be32_decomp v Hv), (be32_decomp w Hw).
  rewrite E0, E1, E2, E3. reflexivity.
Qed.

(* ------------------------------------------------------------------ *)
(* verification                                                        *)

Lemma bytes_eqb_eq : forall a b, bytes_eqb a b = true <-> a = b.
Proof.
  intros a. induction a as [|x a IHa]; intros b; destruct b as [|y b].
  - cbn [bytes_eqb]. split; intros _; reflexivity.
  - cbn [bytes_eqb]. split; intros H; discriminate H.
  - cbn [bytes_eqb]. split; intros H; discriminate H.
  - cbn [bytes_eqb]. rewrite andb_true_iff, Z.eqb_eq, IHa. split.
    + intros [Hx Ha]. subst. reflexivity.
    + intros H. injection H as Hx Ha. split; assumption.
Qed.

Lemma verify_iff : forall ck ty file n seg r,
  calculate_checksum ty file n seg = Ok r ->
  (verify_checksum ck ty file n seg = Ok true <-> ck = r) /\
  (verify_checksum ck ty file n seg = Ok false <-> ck <> r).
Proof.
  intros ck ty file n seg r Hcalc.
  unfold verify_checksum. rewrite Hcalc.
  pose proof (bytes_eqb_eq r ck) as Hiff.
  destruct (bytes_eqb r ck) eqn:Eb.
  - assert (Hr : r = ck) by (apply Hiff; reflexivity).
    split; split.
    + intros _. symmetry. exact Hr.
    + intros _. reflexivity.
    + intros H. discriminate H.
    + intros H. exfalso. apply H. symmetry. exact Hr.
  - assert (Hr : r <> ck).
    { intros Hc. apply Hiff in Hc. discriminate Hc. }
    split; split.
    + intros H. discriminate H.
    + intros H. exfalso. apply Hr. symmetry. exact H.
    + intros _ H. apply Hr. symmetry. exact H.
    + intros _. reflexivity.
Qed.

Lemma verify_error : forall ck ty file n seg e,
  calculate_checksum ty file n seg = Err e -> verify_checksum ck ty file n seg = Err e.
Proof.
  intros ck ty file n seg e Hcalc.
  unfold verify_checksum. rewrite Hcalc. reflexivity.
Qed.
