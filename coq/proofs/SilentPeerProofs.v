(* SilentPeerProofs.v — proof for the closed form of property C04 (props/C04b.v): a silent peer cannot
   hang the sender.  With Positive ACK Limit Reached configured as notice of cancellation, exactly 2N timer
   expiries take the handler from "EOF just sent" to idle, for every limit N >= 1. *)
From CFDP Require Import Base LostSeg Fs Crc Checksum Handler Dest Source HandlerSpec SourceSpec.
From CFDP.gen Require Import Tables.
From CFDP.proofs Require Import FaultProofs RetryProofs.
From RecordUpdate Require Import RecordSet.
Import RecordSetNotations.

Arguments Z.add : simpl never. Arguments Z.sub : simpl never. Arguments Z.mul : simpl never.
Arguments Z.max : simpl never. Arguments Z.min : simpl never.
Arguments Z.ltb !x !y : simpl nomatch. Arguments Z.leb !x !y : simpl nomatch.
Arguments Z.eqb !x !y : simpl nomatch.
Arguments timed_out : simpl never.
Opaque checksum_verify calculate_checksum checksum_calculation.
Arguments handle_waiting_for_ack : simpl never. Arguments handle_wait_for_finish : simpl never.
Arguments notice_of_completion_s : simpl never.

(* one timer interval passes, then one empty call, then everything queued is retrieved *)
Definition expire_s (ms : Z) (s : src) : src * res Z (list pdu) :=
  pump (s <| s_env ::= (fun e => e <| e_now ::= Z.add ms |>) |>).
Fixpoint expires_s (n : nat) (ms : Z) (s : src) : src * res Z (list (list pdu)) :=
  match n with
  | O => (s, Ok [])
  | S k => match expire_s ms s with
           | (s', Ok ps) => match expires_s k ms s' with
                            | (s'', Ok rest) => (s'', Ok (ps :: rest))
                            | (s'', Err e) => (s'', Err e)
                            end
           | (s', Err e) => (s', Err e)
           end
  end.

Lemma expires_one : forall ms s s' ps, expire_s ms s = (s', Ok ps) -> expires_s 1 ms s = (s', Ok [ps]).
Proof. intros ms s s' ps H. cbn [expires_s]. rewrite H. reflexivity. Qed.

Lemma expires_app : forall m n ms s s1 l1 s2 l2,
  expires_s m ms s = (s1, Ok l1) -> expires_s n ms s1 = (s2, Ok l2) ->
  expires_s (m + n) ms s = (s2, Ok (l1 ++ l2)).
Proof.
  induction m as [|m IH]; intros n ms s s1 l1 s2 l2 H1 H2.
  - cbn [expires_s] in H1. inversion H1; subst. exact H2.
  - cbn [expires_s Nat.add] in *.
    destruct (expire_s ms s) as [s' [ps|e]]; [|discriminate].
    destruct (expires_s m ms s') as [s'' [rest|e]] eqn:E; [|discriminate].
    inversion H1; subst. rewrite (IH n ms s' s1 rest s2 l2 E H2). reflexivity.
Qed.

Lemma timer_expired : forall nw tmo, timed_out (tmo + nw) (nw, tmo) = true.
Proof. intros nw tmo. unfold timed_out. cbn [fst snd]. apply Z.leb_le. lia. Qed.

(* normalise a sender state built from record updates on a constructor (keeps the kernel's conversion cheap) *)
Ltac nsrc st :=
  let st' := eval cbv beta iota delta [set s_cfg s_state s_step s_ready s_queue s_p s_step_before s_put s_seq_count
    s_seq_bits s_env q_tid q_check_timer q_ack_timer q_ack_counter q_cond_eof q_progress q_segment_len q_file_size
    q_empty_file q_md_only q_fin q_rcfg q_closure q_conf e_now e_fs e_reject_writes e_log] in st in
  change st with st'.
Ltac nsm := match goal with |- context[state_machine_s None ?st] => nsrc st end.
Ltac ncc := match goal with |- context[checksum_calculation _ ?st] => nsrc st end.
Ltac nres := match goal with |- context[(?st, Ok _) = _] => nsrc st end.

Section Silent.
Variables (N : nat) (r : rcfg) (a b : Z) (ck : bytes) (cfg : lcfg) (pt : putreq) (fs : tree)
          (sl : Z) (mdo : bool) (cf : sconf) (pr : Z).
Hypothesis Hlim : r_ack_limit r = Z.of_nat N.
Hypothesis Hmode : sc_mode cf = ACKED.
Hypothesis Hfh : get_fault_handler (l_faults cfg) C_POS_ACK_LIMIT = Some FH_CANCEL.
Hypothesis Hck : forall s0, s_put s0 = Some pt -> fs_s s0 = fs -> q_rcfg (s_p s0) = Some r ->
  q_segment_len (s_p s0) = sl -> q_md_only (s_p s0) = mdo -> checksum_calculation pr s0 = (s0, Ok ck).

(* waiting for the ACK of an EOF with condition [ce], [c] expiries counted, timer started at the current time,
   everything retrieved *)
Definition waiting (ce : Z) (c : Z) (s : src) : Prop :=
  exists nw rw lg ckt fsz ef fin cl sb sc sbits,
    s = mkSrc cfg ST_BUSY SS_WAITING_FOR_EOF_ACK 0 []
          (mkSP (Some (a, b)) ckt (Some (nw, r_ack_ms r)) c (Some ce) pr sl fsz ef mdo fin (Some r) cl cf)
          sb (Some pt) sc sbits (mkEnv nw fs rw lg).

Definition eof (ce : Z) : pdu := PEof (hdr_of cf TOWARDS_RECEIVER) ce ck pr None.

(* below the limit: the EOF is sent again, the counter advances, the timer restarts *)
Lemma expire_resend : forall ce c s,
  waiting ce c s -> c + 1 < Z.of_nat N ->
  exists s', expire_s (r_ack_ms r) s = (s', Ok [eof ce]) /\ waiting ce (c + 1) s'.
Proof.
  intros ce c s (nw & rw & lg & ckt & fsz & ef & fin & cl & sb & sc & sbits & ->) Hlt.
  assert (r_ack_limit r <=? c + 1 = false) as Hle by (apply Z.leb_gt; lia).
  unfold expire_s, pump, pump_with. nsm.
  rewrite sm_none, sm_waiting_eof_ack by (cbn; first [reflexivity | discriminate]).
  unfold tail_s, handle_waiting_for_ack, handle_positive_ack_procedures_s. msimp.
  rewrite timer_expired. msimp. rewrite Hle. msimp.
  ncc. rewrite Hck by reflexivity. msimp.
  destruct (l_ind_eof_sent cfg) eqn:Hind; msimp; nres;
    (eexists; split; [reflexivity|]); unfold waiting; do 11 eexists; reflexivity.
Qed.

(* at the limit, first time: Positive ACK Limit fault -> notice of cancellation -> EOF (cancel), procedure restarted *)
Lemma expire_limit_cancel : forall c s,
  waiting C_NO_ERROR c s -> Z.of_nat N <= c + 1 ->
  exists s', expire_s (r_ack_ms r) s = (s', Ok [eof C_POS_ACK_LIMIT]) /\ waiting C_POS_ACK_LIMIT 0 s'.
Proof.
  intros c s (nw & rw & lg & ckt & fsz & ef & fin & cl & sb & sc & sbits & ->) Hge.
  assert (r_ack_limit r <=? c + 1 = true) as Hle by (apply Z.leb_le; lia).
  unfold expire_s, pump, pump_with. nsm.
  rewrite sm_none, sm_waiting_eof_ack by (cbn; first [reflexivity | discriminate]).
  unfold tail_s, handle_waiting_for_ack, handle_positive_ack_procedures_s. msimp.
  rewrite timer_expired. msimp. rewrite Hle. msimp.
  unfold declare_fault_s. msimp. rewrite Hfh. msimp.
  unfold notice_of_cancellation_s. msimp.
  ncc. rewrite Hck by reflexivity. msimp.
  destruct (l_ind_eof_sent cfg) eqn:Hind; msimp; rewrite ?Hind; msimp; rewrite Hmode;
    change (ACKED =? ACKED) with true; cbv iota;
    (match goal with |- context[start_positive_ack_procedure_s ?st] => nsrc st end);
    unfold start_positive_ack_procedure_s; msimp;
    (* the handler is not IGNORE: the call ends with the declaration (F34 repair) *)
    unfold fault_ignored; rewrite Hfh; msimp; nres;
    (eexists; split; [reflexivity|]); unfold waiting; do 11 eexists; reflexivity.
Qed.

(* at the limit, second time: the fault during cancellation abandons the transaction *)
Lemma expire_limit_abandon : forall ce c s,
  waiting ce c s -> ce <> C_NO_ERROR -> Z.of_nat N <= c + 1 ->
  exists s', expire_s (r_ack_ms r) s = (s', Ok []) /\
    s_state s' = ST_IDLE /\ s_step s' = SS_IDLE /\ s_queue s' = [].
Proof.
  intros ce c s (nw & rw & lg & ckt & fsz & ef & fin & cl & sb & sc & sbits & ->) Hne Hge.
  assert (r_ack_limit r <=? c + 1 = true) as Hle by (apply Z.leb_le; lia).
  assert (ce =? C_NO_ERROR = false) as Hce by (apply Z.eqb_neq; exact Hne).
  unfold expire_s, pump, pump_with. nsm.
  rewrite sm_none, sm_waiting_eof_ack by (cbn; first [reflexivity | discriminate]).
  unfold tail_s, handle_waiting_for_ack, handle_positive_ack_procedures_s. msimp.
  rewrite timer_expired. msimp. rewrite Hle. msimp.
  unfold declare_fault_s. msimp. rewrite Hfh. msimp.
  unfold notice_of_cancellation_s. msimp. rewrite Hce. msimp.
  unfold fault_ignored. rewrite Hfh. msimp. nres.
  eexists. split; [reflexivity|]. cbn. repeat split; reflexivity.
Qed.

(* m expiries below the limit: m copies of the EOF *)
Lemma expires_resend : forall ce m c s,
  waiting ce c s -> c + Z.of_nat m < Z.of_nat N ->
  exists s', expires_s m (r_ack_ms r) s = (s', Ok (repeat [eof ce] m)) /\ waiting ce (c + Z.of_nat m) s'.
Proof.
  intros ce. induction m as [|m IH]; intros c s Hw Hlt.
  - exists s. split; [reflexivity|]. replace (c + Z.of_nat 0) with c by lia. exact Hw.
  - destruct (expire_resend ce c s Hw) as (s1 & H1 & Hw1); [lia|].
    destruct (IH (c + 1) s1 Hw1) as (s2 & H2 & Hw2); [lia|].
    exists s2. split.
    + cbn [expires_s repeat]. rewrite H1, H2. reflexivity.
    + replace (c + Z.of_nat (S m)) with (c + 1 + Z.of_nat m) by lia. exact Hw2.
Qed.

Lemma silent_from_waiting : forall s,
  (1 <= N)%nat -> waiting C_NO_ERROR 0 s ->
  exists s',
    expires_s (2 * N) (r_ack_ms r) s =
      (s', Ok (repeat [eof C_NO_ERROR] (N - 1) ++ [[eof C_POS_ACK_LIMIT]] ++
               repeat [eof C_POS_ACK_LIMIT] (N - 1) ++ [[]])) /\
    s_state s' = ST_IDLE /\ s_step s' = SS_IDLE /\ s_queue s' = [].
Proof.
  intros s HN Hw.
  destruct (expires_resend C_NO_ERROR (N - 1) 0 s Hw) as (s1 & H1 & Hw1); [lia|].
  destruct (expire_limit_cancel _ s1 Hw1) as (s2 & H2 & Hw2); [lia|].
  destruct (expires_resend C_POS_ACK_LIMIT (N - 1) 0 s2 Hw2) as (s3 & H3 & Hw3); [lia|].
  destruct (expire_limit_abandon _ _ s3 Hw3) as (s4 & H4 & Hst & Hstep & Hq); [discriminate | lia |].
  exists s4. split; [|split; [exact Hst | split; [exact Hstep | exact Hq]]].
  replace (2 * N)%nat with ((N - 1) + (1 + ((N - 1) + 1)))%nat by lia.
  eapply expires_app; [exact H1|].
  eapply expires_app; [apply expires_one; exact H2|].
  eapply expires_app; [exact H3|].
  apply expires_one. exact H4.
Qed.
End Silent.

Lemma src_silent_peer_bounded : forall (N : nat) (s : src) (r : rcfg) (a b : Z) (ck : bytes),
  (1 <= N)%nat -> r_ack_limit r = Z.of_nat N -> 0 < r_ack_ms r ->
  s_state s = ST_BUSY -> s_step s = SS_WAITING_FOR_EOF_ACK -> s_queue s = [] -> s_ready s = 0 -> s_put s <> None ->
  q_rcfg (s_p s) = Some r -> q_ack_timer (s_p s) = Some (now_s s, r_ack_ms r) -> q_ack_counter (s_p s) = 0 ->
  q_cond_eof (s_p s) = Some C_NO_ERROR -> q_tid (s_p s) = Some (a, b) -> sc_mode (q_conf (s_p s)) = ACKED ->
  get_fault_handler (l_faults (s_cfg s)) C_POS_ACK_LIMIT = Some FH_CANCEL ->
  (* the checksum of the bytes sent is computable (source file still there), whatever else changed *)
  (forall s0, s_put s0 = s_put s -> fs_s s0 = fs_s s -> q_rcfg (s_p s0) = q_rcfg (s_p s) ->
              q_segment_len (s_p s0) = q_segment_len (s_p s) -> q_md_only (s_p s0) = q_md_only (s_p s) ->
              checksum_calculation (q_progress (s_p s)) s0 = (s0, Ok ck)) ->
  let h := hdr_of (q_conf (s_p s)) TOWARDS_RECEIVER in
  let pr := q_progress (s_p s) in
  exists s',
    expires_s (2 * N) (r_ack_ms r) s =
      (s', Ok (repeat [PEof h C_NO_ERROR ck pr None] (N - 1) ++ [[PEof h C_POS_ACK_LIMIT ck pr None]] ++
               repeat [PEof h C_POS_ACK_LIMIT ck pr None] (N - 1) ++ [[]])) /\
    s_state s' = ST_IDLE /\ s_step s' = SS_IDLE /\ s_queue s' = [].
Proof.
  intros N s r a b ck HN Hlim Hms Hst Hstep Hq Hrd Hput Hr Ht Hc Hce Htid Hmode Hfh Hck h pr0.
  subst h pr0. unfold now_s, fs_s in *.
  dsrc s. cbn in Hst, Hstep, Hq, Hrd, Hput, Hr, Ht, Hc, Hce, Htid, Hmode, Hfh, Hck |- *.
  subst st step q ready rc ackt ackc ce tid.
  destruct pt as [pt|]; [|contradiction].
  apply (silent_from_waiting N r a b ck cfg pt fs sl mdo cf pr Hlim Hmode Hfh).
  - intros s0 H1 H2 H3 H4 H5. apply Hck; assumption.
  - exact HN.
  - unfold waiting. do 11 eexists. reflexivity.
Qed.
Print Assumptions src_silent_peer_bounded.
