(* MetadataLossProofs.v — proof for the unbounded instance K = 1 of property C03 where the lost PDU is the METADATA PDU
   (props/C03m.v): in acknowledged mode the two-entity system of System.v recovers from the loss of the Metadata PDU,
   for every file and every configuration, in immediate and in deferred NAK mode.  Built on SingleLossProofs.v (scheduler
   with a fault schedule, sender around a retransmission, receiver with a gap on record, end of every run),
   PerfectLinkAckedProofs.v and PerfectLinkProofs.v:
     1. the receiver without metadata: transaction started by File Data or by the EOF PDU, File Data recorded as lost
        from offset 0 (it cannot be stored without a file name), the deferred procedure with the request (0, 0),
        the Metadata PDU arriving in each of these situations, the retransmitted tiles closing the gap from its head,
     2. the sender answering (0, 0) with the Metadata PDU and ranges with their tiles, in one call or in two,
     3. the scheduler with several PDUs per direction in one round (lists of calls on each side),
     4. the runs:
          (E)   an empty file: EOF PDU, ACK(EOF), NAK [(0,0)], Metadata PDU, Finished PDU,
          (D)   deferred mode: every tile is counted and recorded as lost, EOF PDU, ACK(EOF), one NAK PDU [(0,0); (0,size)]
                (two NAK PDUs if only one request fits into a PDU), Metadata PDU and all tiles in one burst,
          (I-a) immediate mode, several tiles: NAK [(0,0); (0, first tile)] after the first tile, Metadata PDU and that
                tile retransmitted between two tiles of the stream, then a perfect-link run,
          (I-b) immediate mode, one tile: the NAK meets a sender about to send the EOF PDU; EOF PDU, Metadata PDU and
                tile in one call; the deferred procedure starts in the call that handles the Metadata PDU and asks once
                more; the duplicates are ignored,
     5. the theorem, and the counterexample for the hypothesis on the receiver's maximum packet length.
   The clock never advances: every round has activity.  No axioms. *)
From CFDP Require Import Base LostSeg Fs Crc Checksum Handler Dest Source HandlerSpec SourceSpec System.
From CFDP.gen Require Import Tables.
From CFDP.proofs Require Import ChecksumProofs FsProofs StreamProofs RetransmitProofs PerfectLinkProofs PerfectLinkAckedProofs
  SingleLossProofs.
From RecordUpdate Require Import RecordSet.
Import RecordSetNotations.

(* arithmetic stays folded unless both arguments are literals *)
Local Arguments Z.add : simpl never. Local Arguments Z.sub : simpl never. Local Arguments Z.mul : simpl never.
Local Arguments Z.pow : simpl never. Local Arguments Z.div : simpl never. Local Arguments Z.min : simpl never.
Local Arguments Z.max : simpl never. Local Arguments Z.to_nat : simpl never.
Local Arguments Z.ltb !x !y : simpl nomatch. Local Arguments Z.leb !x !y : simpl nomatch.
Local Arguments Z.eqb !x !y : simpl nomatch. Local Arguments Z.of_nat !n : simpl nomatch.
Local Arguments write_at : simpl never.
Local Arguments set_node : simpl never.
Local Opaque calculate_checksum.
(* ================================================================== *)
(* 1. the receiver without metadata: symbolic execution                *)
(* ================================================================== *)
Section ReceiverM.
Variables (cd : lcfg) (rd : rcfg) (x : Z) (crc large clo : bool) (srcid idw seq seqw ckt fsz : Z).
Hypothesis Hrem : get_remote (l_remotes cd) srcid = Some rd.
Hypothesis Hfin : l_ind_fin cd = true.
Hypothesis Hack : 0 < r_ack_ms rd.
Hypothesis Hnak : 0 < r_nak_ms rd.
Variable maxn : Z.
Hypothesis Hmax : max_seg_reqs (r_max_packet rd) (hB cd crc large srcid idw seq seqw) = Some maxn.

Notation hA' := (hA cd crc large srcid idw seq seqw).
Notation hB' := (hB cd crc large srcid idw seq seqw).
Notation ackE' := (ackE cd crc large srcid idw seq seqw).
Notation finP' := (finP cd crc large srcid idw seq seqw).
Notation RX f := (f cd rd x crc large clo srcid idw seq seqw ckt fsz) (only parsing).

(* the transaction fields of a transaction started without Metadata: no file name, no checksum type, no file size *)
Definition finU : fin := mkFin DATA_INCOMPLETE FS_UNREPORTED C_NO_ERROR None.
Definition dpM (prog : Z) (ck : bytes) (eof : option Z) (tr : tracker) (ls le : Z) (dfr : bool) (pt : option timer) : dparams :=
  mkDP (Some (srcid, seq)) (Some rd) None 0 false CK_NULL finU DISP_COMPLETED hB' prog ck None [] eof false tr true ls le
       dfr pt 0 None 0.
Definition dM (step ready : Z) (q : list pdu) (pa : dparams) (lg : list event) : dst :=
  mkDst cd ST_BUSY step (Some (srcid, seq)) ready q pa (mkEnv 0 [] false lg).

(* waiting for the Metadata PDU, [prog] bytes seen (and recorded as lost) so far *)
Definition WM (ready : Z) (q : list pdu) (prog : Z) (lg : list event) : dst :=
  dM DS_WAITING_FOR_METADATA ready q (dpM prog [] None [(0, prog)] prog prog false None) lg.
(* after the EOF PDU: ACK(EOF) to be sent *)
Definition WE (ready : Z) (q : list pdu) (ck : bytes) (tr : tracker) (ls : Z) (lg : list event) : dst :=
  dM DS_SENDING_EOF_ACK ready q (dpM fsz ck (Some fsz) tr ls ls false None) lg.
(* the deferred procedure is running, the Metadata PDU still missing *)
Definition WD (ready : Z) (q : list pdu) (ck : bytes) (tr : tracker) (lg : list event) : dst :=
  dM DS_WAITING_FOR_METADATA ready q (dpM fsz ck (Some fsz) tr fsz fsz true (Some (0, r_nak_ms rd))) lg.

Ltac unfM := unfold WM, WE, WD, dM, dpM, DM, DR, DG, DWX, dpD, dX, dpX, hB, finU, fin0, fin1.
Ltac rw_m L :=
  match goal with |- bind ?m _ ?st = _ =>
    let H := fresh "Hm" in
    pose proof L as H;
    match type of H with _ = (?st', ?r) => rewrite (b_ok _ _ _ _ _ (H : m st = (st', r))) end; clear H
  end.

Lemma check_idle : forall pd, pdu_hdr pd = hA' ->
  ((exists off data, pd = PFileData hA' off data) \/ (exists c ck sz fl, pd = PEof hA' c ck sz fl)) ->
  check_inserted_packet pd (dst_init cd) = (dst_init cd, Ok tt).
Proof.
  intros pd Hh H. unfold check_inserted_packet. rewrite b_get. cbv zeta.
  rewrite Hh. cbn [hA h_dir h_dst h_src h_mode dst_init d_cfg d_state]. rewrite Hrem, !Z.eqb_refl.
  destruct H as [(off & data & ->) | (c & ck & sz & fl & ->)]; reflexivity.
Qed.

Lemma sm_idle : forall pd, pdu_hdr pd = hA' ->
  ((exists off data, pd = PFileData hA' off data) \/ (exists c ck sz fl, pd = PEof hA' c ck sz fl)) ->
  Dest.state_machine (Some pd) (dst_init cd) =
    catch_abandoned
      (stop <- (idle_fsm (Some pd) ;;; n <- gets d_ready ;; ret (0 <? n)) ;;
       if stop then ret tt else s <- get ;; when (d_state s =? ST_BUSY) (non_idle_fsm 3 (Some pd)))%monad (dst_init cd).
Proof.
  intros pd Hh H. unfold Dest.state_machine. rewrite (b_ok _ _ _ _ _ (check_idle pd Hh H)).
  reflexivity.
Qed.

(* ---- File Data before the Metadata PDU *)
Definition nakM (prog : Z) : pdu := PNak hB' 0 prog [(0, 0); (0, prog)].

Lemma hfd_nomd_imm : forall step off data prog0 tr ls le lg, 0 < zlen data -> r_imm_nak rd = true ->
  handle_fd_without_previous_metadata true off data (dM step 0 [] (dpM prog0 [] None tr ls le false None) lg) =
    (dM step 1 [nakM (off + zlen data)]
        (dpM (off + zlen data) [] None (add (0, off + zlen data) tr) (off + zlen data) (off + zlen data) false None) lg, Ok tt).
Proof.
  intros step off data prog0 tr ls le lg Hpos Himm.
  assert (E : (0 <? zlen data) = true) by (apply Z.ltb_lt; exact Hpos).
  unfold handle_fd_without_previous_metadata. unfM. mrun. rewrite E. mrun. unfold tracker_add. mrun.
  unfold rcfg_or_assert. mrun. rewrite Himm. cbn [app]. mrun. unfold conf, add_packet. mrun. reflexivity.
Qed.

Lemma hfd_nomd_def : forall step off data prog0 tr ls le lg, 0 < zlen data -> r_imm_nak rd = false ->
  handle_fd_without_previous_metadata true off data (dM step 0 [] (dpM prog0 [] None tr ls le false None) lg) =
    (dM step 0 []
        (dpM (off + zlen data) [] None (add (0, off + zlen data) tr) (off + zlen data) (off + zlen data) false None) lg, Ok tt).
Proof.
  intros step off data prog0 tr ls le lg Hpos Himm.
  assert (E : (0 <? zlen data) = true) by (apply Z.ltb_lt; exact Hpos).
  unfold handle_fd_without_previous_metadata. unfM. mrun. rewrite E. mrun. unfold tracker_add. mrun.
  unfold rcfg_or_assert. mrun. rewrite Himm. mrun. reflexivity.
Qed.

(* the first File Data PDU starts the transaction *)
Lemma idle_start : forall h, h = hA' ->
  common_first_packet_not_metadata h (dst_init cd) =
    (dM DS_WAITING_FOR_METADATA 0 [] (dpM 0 [] None [] 0 0 false None) [], Ok tt).
Proof.
  intros h ->. unfold common_first_packet_not_metadata, dst_init, fresh_params, hA. mrun.
  unfold common_first_packet_handler. mrun. rewrite Hrem. mrun. reflexivity.
Qed.

Lemma sm_fd_idle_imm : forall off data, 0 < zlen data -> r_imm_nak rd = true ->
  Dest.state_machine (Some (PFileData hA' off data)) (dst_init cd) = (WM 1 [nakM (off + zlen data)] (off + zlen data) [], Ok tt).
Proof.
  intros off data Hpos Himm. rewrite sm_idle by (try reflexivity; left; repeat eexists).
  unfold catch_abandoned; apply catch_ok. unfold idle_fsm.
  etransitivity; [apply b_assoc|]. etransitivity; [apply b_assoc|].
  rw_m (idle_start hA' eq_refl).
  rw_m (hfd_nomd_imm DS_WAITING_FOR_METADATA off data 0 [] 0 0 [] Hpos Himm).
  unfM. mrun. reflexivity.
Qed.

Lemma dlsh_off : forall step rdy q prog ck eof tr ls le pt lg,
  deferred_lost_segment_handling (dM step rdy q (dpM prog ck eof tr ls le false pt) lg) =
    (dM step rdy q (dpM prog ck eof tr ls le false pt) lg, Ok tt).
Proof. intros. unfold deferred_lost_segment_handling. unfM. mrun. reflexivity. Qed.

Lemma sm_fd_idle_def : forall off data, 0 < zlen data -> r_imm_nak rd = false ->
  Dest.state_machine (Some (PFileData hA' off data)) (dst_init cd) = (WM 0 [] (off + zlen data) [], Ok tt).
Proof.
  intros off data Hpos Himm. rewrite sm_idle by (try reflexivity; left; repeat eexists).
  unfold catch_abandoned; apply catch_ok. unfold idle_fsm.
  etransitivity; [apply b_assoc|]. etransitivity; [apply b_assoc|].
  rw_m (idle_start hA' eq_refl).
  rw_m (hfd_nomd_def DS_WAITING_FOR_METADATA off data 0 [] 0 0 [] Hpos Himm).
  unfM. mrun. change 3%nat with (S 2). cbn [non_idle_fsm]. unfold fsm_advancement at 1. mrun.
  unfold handle_waiting_for_missing_metadata.
  match goal with |- bind _ _ ?st = _ => change st with (dM DS_WAITING_FOR_METADATA 0 []
      (dpM (off + zlen data) [] None (add (0, off + zlen data) []) (off + zlen data) (off + zlen data) false None) []) end.
  rw_m (hfd_nomd_def DS_WAITING_FOR_METADATA off data (off + zlen data) (add (0, off + zlen data) []) (off + zlen data)
          (off + zlen data) [] Hpos Himm).
  rw_m (dlsh_off DS_WAITING_FOR_METADATA 0 [] (off + zlen data) [] None (add (0, off + zlen data) (add (0, off + zlen data) []))
          (off + zlen data) (off + zlen data) None []).
  unfM. mrun. reflexivity.
Qed.

Ltac nifM := rewrite (sm_busy cd rd crc large srcid idw seq seqw Hrem) by reflexivity; unfold catch_abandoned; apply catch_ok;
             change 3%nat with (S 2); cbn [non_idle_fsm]; unfM; unfold fsm_advancement at 1; mrun.

(* more File Data before the Metadata PDU (deferred NAK mode): recorded as lost from offset 0 *)
Lemma sm_fd_wm : forall off data prog lg, 0 < zlen data -> r_imm_nak rd = false ->
  Dest.state_machine (Some (PFileData hA' off data)) (WM 0 [] prog lg) = (WM 0 [] (off + zlen data) lg, Ok tt).
Proof.
  intros off data prog lg Hpos Himm. nifM. unfold handle_waiting_for_missing_metadata.
  rw_m (hfd_nomd_def DS_WAITING_FOR_METADATA off data prog [(0, prog)] prog prog lg Hpos Himm).
  rw_m (dlsh_off DS_WAITING_FOR_METADATA 0 [] (off + zlen data) [] None (add (0, off + zlen data) [(0, prog)])
          (off + zlen data) (off + zlen data) None lg).
  unfM. mrun. reflexivity.
Qed.

(* ---- the EOF PDU before the Metadata PDU; only an EOF (no error) takes this path: an EOF (cancel) received before the
   Metadata PDU is handled like any other EOF (cancel) (F32 repair, lemma heof_nomd_cancel) *)
Definition lgE (lg : list event) : list event := (if l_ind_eof_recv cd then [EvEofRecv srcid seq] else []) ++ lg.

Lemma heof_nomd : forall step cks prog0 ck0 eof0 tr0 ls le lg tr,
  (if 0 <? fsz then add (0, fsz) LostSeg.reset else tr0) = tr ->
  handle_eof_without_previous_metadata C_NO_ERROR cks fsz (dM step 0 [] (dpM prog0 ck0 eof0 tr0 ls le false None) lg) =
    (dM DS_SENDING_EOF_ACK 1 [ackE'] (dpM fsz cks (Some fsz) tr ls le false None) (lgE lg), Ok tt).
Proof.
  intros step cks prog0 ck0 eof0 tr0 ls le lg tr Htr. unfold handle_eof_without_previous_metadata, lgE. unfM. mrun.
  destruct (0 <? fsz); mrun; subst tr;
  (destruct (l_ind_eof_recv cd); unfold tid_or_assert; mrun; unfold prepare_eof_ack_packet, conf, add_packet; mrun; reflexivity).
Qed.

Lemma heof_nomd_cancel : forall c cks sz, c <> C_NO_ERROR ->
  handle_eof_without_previous_metadata c cks sz = handle_eof_pdu c cks sz.
Proof.
  intros c cks sz Hc. unfold handle_eof_without_previous_metadata.
  destruct (c =? C_NO_ERROR) eqn:E; [apply Z.eqb_eq in E; contradiction | reflexivity].
Qed.

Lemma sm_eof_wm : forall cks fl prog lg, 0 < fsz ->
  Dest.state_machine (Some (PEof hA' C_NO_ERROR cks fsz fl)) (WM 0 [] prog lg) = (WE 1 [ackE'] cks [(0, fsz)] prog (lgE lg), Ok tt).
Proof.
  intros cks fl prog lg Hpos.
  assert (E : (0 <? fsz) = true) by (apply Z.ltb_lt; exact Hpos).
  nifM. unfold handle_waiting_for_missing_metadata.
  etransitivity; [apply b_assoc|].
  rw_m (heof_nomd DS_WAITING_FOR_METADATA cks prog [] None [(0, prog)] prog prog lg [(0, fsz)] ltac:(rewrite E; reflexivity)).
  unfM. mrun.
  rw_m (dlsh_off DS_SENDING_EOF_ACK 1 [ackE'] fsz cks (Some fsz) [(0, fsz)] prog prog None (lgE lg)).
  unfM. mrun. reflexivity.
Qed.

(* an empty file: the EOF PDU starts the transaction *)
Lemma sm_eof_idle : forall cks fl, (0 <? fsz) = false ->
  Dest.state_machine (Some (PEof hA' C_NO_ERROR cks fsz fl)) (dst_init cd) = (WE 1 [ackE'] cks [] 0 (lgE []), Ok tt).
Proof.
  intros cks fl E. rewrite sm_idle by (try reflexivity; right; repeat eexists).
  unfold catch_abandoned; apply catch_ok. unfold idle_fsm.
  etransitivity; [apply b_assoc|]. etransitivity; [apply b_assoc|].
  rw_m (idle_start hA' eq_refl).
  rw_m (heof_nomd DS_WAITING_FOR_METADATA cks 0 [] None [] 0 0 [] [] ltac:(rewrite E; reflexivity)).
  unfM. mrun. reflexivity.
Qed.

(* ---- the deferred procedure asks for the Metadata PDU *)
Definition nakL : list pdu :=
  if 1 =? maxn then [PNak hB' 0 fsz [(0, 0)]; PNak hB' 0 fsz [(0, fsz)]] else [PNak hB' 0 fsz [(0, 0); (0, fsz)]].
Definition nak0 : pdu := PNak hB' 0 fsz [(0, 0)].

Lemma dlsh_first_m1 : forall step prog ck ls le lg,
  deferred_lost_segment_handling (dM step 0 [] (dpM prog ck (Some fsz) [(0, fsz)] ls le true None) lg) =
    (dM step (zlen nakL) nakL (dpM prog ck (Some fsz) [(0, fsz)] ls le true (Some (0, r_nak_ms rd))) lg, Ok tt).
Proof.
  intros. unfold deferred_lost_segment_handling, nakL. unfM. mrun. unfold rcfg_or_assert. mrun.
  unfold now. mrun. unfold conf. mrun. pose proof Hmax as Hmx. unfold hB in Hmx. rewrite Hmx. cbv iota. mrun.
  destruct (1 =? maxn) eqn:E1; cbv beta iota zeta; cbn [nak_split app].
  - change (zlen [(0, fsz)]) with 1. rewrite E1. cbv beta iota zeta. cbn [nak_split app fold_left]. unfold add_packet. mrun.
    reflexivity.
  - change (zlen [(0, 0); (0, fsz)]) with 2.
    destruct (2 =? maxn); cbv beta iota zeta; cbn [nak_split app fold_left]; unfold add_packet; mrun; reflexivity.
Qed.

Lemma dlsh_first_m0 : forall step prog ck ls le lg,
  deferred_lost_segment_handling (dM step 0 [] (dpM prog ck (Some fsz) [] ls le true None) lg) =
    (dM step 1 [nak0] (dpM prog ck (Some fsz) [] ls le true (Some (0, r_nak_ms rd))) lg, Ok tt).
Proof.
  intros. unfold deferred_lost_segment_handling, nak0. unfM. mrun. unfold rcfg_or_assert. mrun.
  unfold now. mrun. unfold conf. mrun. pose proof Hmax as Hmx. unfold hB in Hmx. rewrite Hmx. cbv iota. mrun.
  destruct (1 =? maxn) eqn:E1; cbv beta iota zeta; cbn [nak_split app fold_left]; unfold add_packet; mrun; reflexivity.
Qed.

Lemma dlsh_wait_m : forall step rdy q prog ck tr ls le lg,
  deferred_lost_segment_handling (dM step rdy q (dpM prog ck (Some fsz) tr ls le true (Some (0, r_nak_ms rd))) lg) =
    (dM step rdy q (dpM prog ck (Some fsz) tr ls le true (Some (0, r_nak_ms rd))) lg, Ok tt).
Proof.
  intros. unfold deferred_lost_segment_handling. unfM. mrun. unfold rcfg_or_assert. mrun.
  cbn [negb]. rewrite andb_false_r. mrun.
  unfold now. mrun. rewrite (timer_fresh 0 (r_nak_ms rd) Hnak). mrun. reflexivity.
Qed.

Lemma sm_defer_start_m1 : forall ck ls lg,
  Dest.state_machine None (WE 0 [] ck [(0, fsz)] ls lg) = (WD (zlen nakL) nakL ck [(0, fsz)] lg, Ok tt).
Proof.
  intros ck ls lg. rewrite dsm_busy_none by reflexivity.
  unfold catch_abandoned; apply catch_ok. cbn [non_idle_fsm].
  unfM. unfold fsm_advancement at 1. mrun.
  unfold start_deferred_lost_segment_handling. mrun.
  rw_m (dlsh_first_m1 DS_WAITING_FOR_METADATA fsz ck fsz fsz lg). unfM. mrun.
  unfold handle_waiting_for_missing_metadata. mrun.
  rw_m (dlsh_wait_m DS_WAITING_FOR_METADATA (zlen nakL) nakL fsz ck [(0, fsz)] fsz fsz lg). unfM. mrun.
  reflexivity.
Qed.

Lemma sm_defer_start_m0 : forall ck ls lg,
  Dest.state_machine None (WE 0 [] ck [] ls lg) = (WD 1 [nak0] ck [] lg, Ok tt).
Proof.
  intros ck ls lg. rewrite dsm_busy_none by reflexivity.
  unfold catch_abandoned; apply catch_ok. cbn [non_idle_fsm].
  unfM. unfold fsm_advancement at 1. mrun.
  unfold start_deferred_lost_segment_handling. mrun.
  rw_m (dlsh_first_m0 DS_WAITING_FOR_METADATA fsz ck fsz fsz lg). unfM. mrun.
  unfold handle_waiting_for_missing_metadata. mrun.
  rw_m (dlsh_wait_m DS_WAITING_FOR_METADATA 1 [nak0] fsz ck [] fsz fsz lg). unfM. mrun.
  reflexivity.
Qed.

(* ---- the Metadata PDU arrives at last *)
Definition mdP (sn : path) : pdu := PMetadata hA' clo ckt fsz (Some (sn, [x])) [].
Definition evMd (sn : path) : event := EvMetadataRecv srcid seq srcid (Some fsz) (Some (sn, [x])) [].
Definition fs0 : tree := [([x], File [])].
Notation evFin' := (evFin srcid seq).

Lemma look0 : lookup fs0 [x] = Some (File []).
Proof. unfold fs0. cbn [lookup lookup_raw path_eqb]. rewrite Z.eqb_refl. reflexivity. Qed.

Lemma hmd_run : forall sn step rdy q prog ck eof tr ls le dfr pt lg,
  handle_metadata_packet hA' clo ckt fsz (Some (sn, [x])) [] (dM step rdy q (dpM prog ck eof tr ls le dfr pt) lg) =
    (dX cd srcid seq DS_RECEIVING_FILE_DATA rdy q (RX dpX fin0 prog ck eof tr ls le dfr pt None) fs0 (evMd sn :: lg), Ok tt).
Proof.
  intros. unfold handle_metadata_packet, evMd, fs0. unfM. mrun.
  erewrite b_ok by (apply init_vfs_run_a; reflexivity). mrun. reflexivity.
Qed.

(* immediate NAK mode: the procedure for missing data is not running; File Data is expected next *)
Lemma sm_md_wm : forall sn prog lg,
  Dest.state_machine (Some (mdP sn)) (WM 0 [] prog lg) = (RX DR prog [(0, prog)] prog prog fs0 (evMd sn :: lg), Ok tt).
Proof.
  intros sn prog lg. unfold mdP. nifM. unfold handle_waiting_for_missing_metadata.
  etransitivity; [apply b_assoc|].
  rw_m (hmd_run sn DS_WAITING_FOR_METADATA 0 [] prog [] None [(0, prog)] prog prog false None lg).
  unfM. mrun. unfold deferred_lost_segment_handling. mrun. reflexivity.
Qed.

(* the deferred procedure is running: it goes on with the missing data *)
Lemma sm_md_wd : forall sn a ck lg,
  Dest.state_machine (Some (mdP sn)) (WD 0 [] ck [(a, fsz)] lg) = (RX DM 0 [] fsz ck [(a, fsz)] fs0 (evMd sn :: lg), Ok tt).
Proof.
  intros sn a ck lg. unfold mdP. nifM. unfold handle_waiting_for_missing_metadata.
  etransitivity; [apply b_assoc|].
  rw_m (hmd_run sn DS_WAITING_FOR_METADATA 0 [] fsz ck (Some fsz) [(a, fsz)] fsz fsz true (Some (0, r_nak_ms rd)) lg).
  unfM. mrun. unfold reset_nak_activity_parameters, now. mrun.
  rw_m (RX dlsh_wait Hnak DS_WAITING_FOR_MISSING_DATA 0 [] fin0 fsz ck a fsz fsz fsz None fs0 (evMd sn :: lg)). unfM. mrun.
  rw_m (RX dlsh_wait Hnak DS_WAITING_FOR_MISSING_DATA 0 [] fin0 fsz ck a fsz fsz fsz None fs0 (evMd sn :: lg)). unfM. mrun.
  reflexivity.
Qed.

(* an empty file: nothing else is missing; checksum, completion, Finished PDU *)
Lemma sm_md_wd_empty : forall sn ck lg, calculate_checksum ckt (Some []) fsz 4096 = Ok ck ->
  Dest.state_machine (Some (mdP sn)) (WD 0 [] ck [] lg) =
    (RX DWX 1 [finP'] ck fsz fsz (Some (0, r_nak_ms rd)) fs0 (evFin' :: evMd sn :: lg), Ok tt).
Proof.
  intros sn ck lg Hck. unfold mdP. nifM. unfold handle_waiting_for_missing_metadata.
  etransitivity; [apply b_assoc|].
  rw_m (hmd_run sn DS_WAITING_FOR_METADATA 0 [] fsz ck (Some fsz) [] fsz fsz true (Some (0, r_nak_ms rd)) lg).
  unfM. mrun. unfold reset_nak_activity_parameters, now. mrun.
  rw_m (RX dlsh_done DS_WAITING_FOR_MISSING_DATA 0 [] ck fsz fsz (Some (0, r_nak_ms rd)) None fs0 (evMd sn :: lg) []
          look0 Hck).
  unfM. mrun.
  rw_m (RX htc_run Hfin 0 [] ck fsz fsz (Some (0, r_nak_ms rd)) None fs0 (evMd sn :: lg)).
  unfM. mrun.
  unfold prepare_finished_pdu, conf, add_packet; mrun;
  unfold handle_finished_pdu_sent; mrun; unfold start_positive_ack_procedure, rcfg_or_assert, now; mrun.
  unfold handle_waiting_for_finished_ack.
  apply (RX pos_ack_wait Hack _ 1 [finP'] ck fsz fsz (Some (0, r_nak_ms rd)) fs0 (evFin' :: evMd sn :: lg)).
Qed.

(* immediate NAK mode, one tile: the Metadata PDU follows the EOF PDU; the deferred procedure starts in the same call *)
Lemma sm_md_we : forall sn ck ls lg,
  Dest.state_machine (Some (mdP sn)) (WE 0 [] ck [(0, fsz)] ls lg) =
    (RX DM (zlen nakL) nakL fsz ck [(0, fsz)] fs0 (evMd sn :: lg), Ok tt).
Proof.
  intros sn ck ls lg. unfold mdP. nifM.
  unfold start_deferred_lost_segment_handling. mrun.
  rw_m (dlsh_first_m1 DS_WAITING_FOR_METADATA fsz ck fsz fsz lg). unfM. mrun.
  unfold handle_waiting_for_missing_metadata.
  etransitivity; [apply b_assoc|].
  rw_m (hmd_run sn DS_WAITING_FOR_METADATA (zlen nakL) nakL fsz ck (Some fsz) [(0, fsz)] fsz fsz true (Some (0, r_nak_ms rd)) lg).
  unfM. mrun. unfold reset_nak_activity_parameters, now. mrun.
  rw_m (RX dlsh_wait Hnak DS_WAITING_FOR_MISSING_DATA (zlen nakL) nakL fin0 fsz ck 0 fsz fsz fsz None fs0 (evMd sn :: lg)). unfM. mrun.
  rw_m (RX dlsh_wait Hnak DS_WAITING_FOR_MISSING_DATA (zlen nakL) nakL fin0 fsz ck 0 fsz fsz fsz None fs0 (evMd sn :: lg)). unfM. mrun.
  reflexivity.
Qed.

(* ---- the data received before the Metadata PDU is retransmitted from offset 0 *)
Lemma remove_head : forall a b e, a < b -> b < e -> LostSeg.remove (a, b) [(a, e)] = Ok ([(b, e)], true).
Proof.
  intros a b e H1 H2. unfold LostSeg.remove. cbn [fst snd LostSeg.get].
  replace (b - a =? 0) with false by (symmetry; apply Z.eqb_neq; lia).
  rewrite Z.eqb_refl.
  replace (e <? b) with false by (symmetry; apply Z.ltb_ge; lia).
  replace (b =? e) with false by (symmetry; apply Z.eqb_neq; lia).
  cbn [pop]. rewrite Z.eqb_refl. reflexivity.
Qed.

Ltac wrM Hl := unfold vfs_write; mrun; cbn [e_fs]; unfold fs_write_data; rewrite Hl; cbv iota; mrun.

Lemma hfd_head_defer : forall a prog rdy q ck data fs lg old, lookup fs [x] = Some (File old) -> 0 < zlen data ->
  a + zlen data < fsz ->
  handle_fd_pdu a data (dX cd srcid seq DS_WAITING_FOR_MISSING_DATA rdy q (RX dpD fin0 prog ck [(a, fsz)] true None) fs lg) =
    (dX cd srcid seq DS_WAITING_FOR_MISSING_DATA rdy q (RX dpD fin0 (Z.max (a + zlen data) prog) ck [(a + zlen data, fsz)] true None)
        (set_node fs [x] (File (write_at old a data)))
        (if l_ind_seg cd then EvSegmentRecv srcid seq a (zlen data) :: lg else lg), Ok tt).
Proof.
  intros a prog rdy q ck data fs lg old Hl Hpos Hle.
  assert (E1 : (fsz <? a) = false) by (apply Z.ltb_ge; lia).
  assert (E2 : (fsz <=? a) = false) by (apply Z.leb_gt; lia).
  assert (E3 : (a + zlen data <=? fsz) = true) by (apply Z.leb_le; lia).
  assert (E4 : (fsz <? a + zlen data) = false) by (apply Z.ltb_ge; lia).
  assert (E5 : (a <? a + zlen data) = true) by (apply Z.ltb_lt; lia).
  assert (E6 : (a <? fsz) = true) by (apply Z.ltb_lt; lia).
  unfold handle_fd_pdu. unfM. mrun.
  destruct (l_ind_seg cd); mrun; apply catch_ok; mrun; unfold lost_segment_handling; mrun;
    rewrite E1; mrun; rewrite E2; mrun; rewrite E3; mrun;
    cbn [fold_left]; mrun; unfold remove_covered; cbn [fst snd];
    rewrite E5, E6, Z.max_id, (Z.min_r fsz (a + zlen data)) by lia; cbn [andb]; mrun;
    rewrite remove_head by lia; mrun; wrM Hl; rewrite E4; mrun; reflexivity.
Qed.

Lemma sm_head_defer : forall a prog ck data fs lg old, lookup fs [x] = Some (File old) -> 0 < zlen data ->
  a + zlen data < fsz ->
  Dest.state_machine (Some (PFileData hA' a data)) (RX DM 0 [] prog ck [(a, fsz)] fs lg) =
    (RX DM 0 [] (Z.max (a + zlen data) prog) ck [(a + zlen data, fsz)] (set_node fs [x] (File (write_at old a data)))
        (if l_ind_seg cd then EvSegmentRecv srcid seq a (zlen data) :: lg else lg), Ok tt).
Proof.
  intros a prog ck data fs lg old Hl Hpos Hle. nifM.
  rw_m (hfd_head_defer a prog 0 [] ck data fs lg old Hl Hpos Hle). unfM. mrun.
  unfold reset_nak_activity_parameters, now. mrun.
  set (lg' := if l_ind_seg cd then _ else _).
  rw_m (RX dlsh_wait Hnak DS_WAITING_FOR_MISSING_DATA 0 [] fin0 (Z.max (a + zlen data) prog) ck (a + zlen data) fsz fsz fsz None
          (set_node fs [x] (File (write_at old a data))) lg').
  unfM. mrun. reflexivity.
Qed.

(* PDUs retransmitted for a request that was already served arrive when the Finished PDU is out: ignored *)
Lemma sm_dwx_ignore : forall pd ck ls le pt fs lg,
  ((exists sn, pd = mdP sn) \/ (exists off data, pd = PFileData hA' off data)) ->
  Dest.state_machine (Some pd) (RX DWX 0 [] ck ls le pt fs lg) = (RX DWX 0 [] ck ls le pt fs lg, Ok tt).
Proof.
  intros pd ck ls le pt fs lg [(sn & ->) | (off & data & ->)]; unfold mdP; nifM; unfold handle_waiting_for_finished_ack;
    apply (RX pos_ack_wait Hack _ 0 [] ck ls le pt fs lg).
Qed.

(* a call without PDU on the handler that has not seen anything yet *)
Lemma sm_idle0 : Dest.state_machine None (dst_init cd) = (dst_init cd, Ok tt).
Proof.
  unfold Dest.state_machine, dst_init. mrun.
  unfold catch_abandoned; apply catch_ok. mrun. unfold idle_fsm. mrun. reflexivity.
Qed.
End ReceiverM.
(* ================================================================== *)
(* 2. the sender and the request for the Metadata PDU                  *)
(* ================================================================== *)
Section SenderM.
Local Arguments max_file_seg_len : simpl never.
Local Arguments lookup : simpl never.

Variables (c : lcfg) (p : putreq) (r : rcfg) (fs : tree) (d cks : bytes) (cf : sconf)
          (seg : Z) (clo : bool) (tid : Z * Z) (sn dn : path).
Hypothesis Hnames : pr_names p = Some (sn, dn).
Hypothesis Hmsgs : pr_msgs p = None.
Hypothesis Hlook : lookup fs sn = Some (File d).
Hypothesis Hsn : sn <> [].
Hypothesis Hseg : 1 <= seg.
Hypothesis Hm : sc_mode cf = ACKED.
Hypothesis Hck : calculate_checksum (r_cktype r) (Some d) (zlen d) seg = Ok cks.
Hypothesis Hfin : l_ind_fin c = true.
Hypothesis Hack : 0 < r_ack_ms r.
Hypothesis Hsrc : sc_src cf = l_id c.
Hypothesis Hdst : sc_dst cf = r_id r.

Definition mdS : pdu := PMetadata (hdr_of cf TOWARDS_RECEIVER) clo (r_cktype r) (zlen d) (Some (sn, dn)) [].
Definition okreqP (pr : Z) (rq : Z * Z) : Prop := 0 <= fst rq /\ fst rq <= snd rq /\ snd rq <= pr /\ ~ (fst rq = 0 /\ snd rq = 0).
Definition okreq : Z * Z -> Prop := okreqP (zlen d).
Definition tilesOf (reqs : list (Z * Z)) : list pdu :=
  flat_map (fun rq => map (fd_of (hdr_of cf TOWARDS_RECEIVER)) (range_tiles d (fst rq) (snd rq) seg)) reqs.

(* the segment request (0, 0) is answered with the Metadata PDU, the others with the tiles of their ranges *)
Lemma retransmission_md : forall s h sos eos reqs,
  s_put s = Some p -> lookup (fs_s s) sn = Some (File d) -> q_progress (s_p s) <= zlen d -> q_segment_len (s_p s) = seg ->
  q_conf (s_p s) = cf -> q_closure (s_p s) = clo -> q_rcfg (s_p s) = Some r -> q_file_size (s_p s) = Some (zlen d) ->
  Forall (okreqP (q_progress (s_p s))) reqs ->
  handle_retransmission (Some (PNak h sos eos ((0, 0) :: reqs))) s =
    ((enqueue (mdS :: tilesOf reqs) s) <| s_step_before := Some (s_step s) |> <| s_step := SS_RETRANSMITTING |>, Ok true).
Proof.
  intros s h sos eos reqs Hp Hl Hpr Hsg Hcf Hcl Hr Hfs HF.
  unfold handle_retransmission. cbn [fold_left]. unfold bind at 1.
  assert (M : (ret tt ;;; handle_segment_req (0, 0))%monad s = (enqueue [mdS] s, Ok tt)).
  { unfold bind at 1, ret. rewrite segment_req_metadata.
    unfold prepare_metadata_pdu, put_or_assert, srcfg_or_assert, gq, gets, bind, ret.
    rewrite Hp. cbv beta iota. rewrite Hmsgs, Hnames. cbv beta iota. rewrite Hr. cbv beta iota.
    rewrite Hfs, Hcf, Hcl. reflexivity. }
  rewrite (fold_requests p sn dn d s Hp Hnames Hl Hsn ltac:(lia) ltac:(lia) reqs _ s [mdS]);
    [| exact HF | exact M].
  rewrite Hcf, Hsg. reflexivity.
Qed.

Local Opaque handle_retransmission.
Local Opaque checksum_calculation.

(* the handler after the EOF PDU, with what the retransmission of Metadata and File Data needs *)
Definition TailM (step : Z) (sb : option Z) (qf : option (Z * Z * Z * option (Z * Z))) (s : src) : Prop :=
  TailX c p r fs d cf seg tid step sb qf s /\ q_file_size (s_p s) = Some (zlen d) /\ q_closure (s_p s) = clo.

Lemma TailM_X : forall step sb qf s, TailM step sb qf s -> TailX c p r fs d cf seg tid step sb qf s.
Proof. intros step sb qf s [H _]. exact H. Qed.
Lemma TailM_busy : forall step sb qf s, TailM step sb qf s -> s_state s = ST_BUSY.
Proof. intros step sb qf s [(_&H&_) _]. exact H. Qed.

Ltac unf_final :=
  unfold fsm_non_idle, fsm_advancement_s, sending_file_data_fsm,
    prepare_eof_pdu, handle_eof_sent, start_positive_ack_procedure_s, handle_waiting_for_ack,
    handle_positive_ack_procedures_s, handle_wait_for_finish, notice_of_completion_s, sreset_internal.

Ltac retxm HF :=
  match goal with |- context[handle_retransmission (Some (PNak ?h ?sos ?eos ((0, 0) :: ?reqs))) ?st] =>
    rewrite (retransmission_md st h sos eos reqs);
    [ | reflexivity | exact Hlook | cbn; lia | reflexivity | reflexivity | reflexivity | reflexivity | reflexivity | exact HF ]
  end.
Ltac retxv HF :=
  match goal with |- context[handle_retransmission (Some (PNak ?h ?sos ?eos ?reqs)) ?st] =>
    rewrite (retransmission st p sn dn d h sos eos reqs);
    [ | reflexivity | exact Hnames | exact Hlook | exact Hsn | cbn; lia | exact Hseg | exact HF ]
  end.

Notation eofP' := (eofP d cks cf).

Lemma step_final_m : forall s, InvA c p r fs d cf seg clo tid (zlen d) s ->
  exists s' sb, pump s = (s', Ok [eofP']) /\ TailM SS_WAITING_FOR_EOF_ACK sb None s'.
Proof.
  intros s [HI [Hcl [Hqf Hct]]].
  destruct HI as (H1&H2&H3&H4&H5&H6&H7&H8&H9&H10&H11&H12&H13&H14&H15&H16&H17).
  destruct s as [cfg st step ready queue q sb pt sc sbits [nw fs' rw lg]].
  destruct q. cbn in H1,H2,H3,H4,H5,H6,H7,H8,H9,H10,H11,H12,H13,H14,H15,Hcl,Hqf,Hct. subst.
  unfold pump, pump_with, state_machine_s, eofP.
  assert (E1 : (zlen d <? zlen d) = false) by (apply Z.ltb_irrefl).
  assert (E4 : zlen d = 0 -> (zlen d =? 0) = true) by (intro Hz; apply Z.eqb_eq; exact Hz).
  assert (E5 : (r_ack_ms r <=? 0) = false) by (apply Z.leb_gt; exact Hack).
  destruct (l_ind_eof_sent c) eqn:Ee;
  (destruct H15 as [[Hs Hz]|Hs]; subst step; [pose proof (E4 Hz) as E7 | pose proof E1 as E7]);
  repeat (progress (sx; rewrite ?Hnames, ?Hlook, ?Hm, ?Ee, ?Hfin, ?zsub_diag, ?zeqb_refl, ?E1, ?E7, ?E5;
                    try rewrite not_nak by exact I;
                    rewrite ?(cc_ok p r fs d cks seg sn dn Hnames Hlook Hck) by reflexivity; unf_final));
  (eexists; eexists; split; [reflexivity|]); unfold TailM, TailX; cbn;
  (split; [|split; reflexivity]);
  repeat (split; [reflexivity|]);
  repeat (apply clean_cons; [reflexivity|reflexivity|]); exact Hcl.
Qed.

Ltac tailm_intro H :=
  destruct H as [(H1&H2&H3&H4&H5&H6&H7&H8&H9&H10&H11&H12&H13&H14&H15) [H16 H17]];
  match goal with s : src |- _ => destruct s as [cfg st step ready queue q sb pt sc sbits [nw fs' rw lg]] end;
  match goal with q : sparams |- _ => destruct q end; cbn in H1,H2,H3,H4,H5,H6,H7,H8,H9,H10,H11,H12,H13,H14,H15,H16,H17; subst.
Ltac tailm_done H15 :=
  eexists; split; [reflexivity|]; unfold TailM, TailX; cbn;
  (split; [|split; reflexivity]); repeat (split; [reflexivity|]); exact H15.

Lemma step_ack_eof_m : forall s sb cond st, TailM SS_WAITING_FOR_EOF_ACK sb None s ->
  exists s', pump_with (Some (PAck (hdr_of cf TOWARDS_SENDER) D_EOF cond st)) s = (s', Ok []) /\
             TailM SS_WAITING_FOR_FINISHED sb None s'.
Proof.
  intros s sb0 cond st0 H. tailm_intro H.
  unfold pump_with, state_machine_s, check_inserted_packet_s.
  repeat (progress (sx; rewrite ?Hm, ?Hsrc, ?Hdst, ?zeqb_refl; try rewrite not_nak by exact I; unf_final)).
  tailm_done H15.
Qed.

Lemma step_ack_retx_m : forall s cond st, TailM SS_RETRANSMITTING (Some SS_WAITING_FOR_EOF_ACK) None s ->
  exists s', pump_with (Some (PAck (hdr_of cf TOWARDS_SENDER) D_EOF cond st)) s = (s', Ok []) /\
             TailM SS_WAITING_FOR_FINISHED (Some SS_WAITING_FOR_EOF_ACK) None s'.
Proof.
  intros s cond st0 H. tailm_intro H.
  unfold pump_with, state_machine_s, check_inserted_packet_s.
  repeat (progress (sx; rewrite ?Hm, ?Hsrc, ?Hdst, ?zeqb_refl; try rewrite not_nak by exact I; unf_final)).
  tailm_done H15.
Qed.

(* a NAK PDU that asks for the Metadata PDU (and more) while the sender waits for the Finished PDU *)
Lemma step_nak_md : forall s sb sos eos reqs, TailM SS_WAITING_FOR_FINISHED sb None s -> Forall okreq reqs ->
  exists s', pump_with (Some (PNak (hdr_of cf TOWARDS_SENDER) sos eos ((0, 0) :: reqs))) s = (s', Ok (mdS :: tilesOf reqs)) /\
             TailM SS_RETRANSMITTING (Some SS_WAITING_FOR_FINISHED) None s'.
Proof.
  intros s sb0 sos eos reqs H HF. tailm_intro H.
  unfold pump_with, state_machine_s, check_inserted_packet_s.
  repeat (progress (sx; rewrite ?Hm, ?Hsrc, ?Hdst, ?zeqb_refl; unf_final)).
  retxm HF.
  repeat (progress (sx; unfold enqueue)).
  tailm_done H15.
Qed.

(* a second NAK PDU right after: the step is restored, then the ranges are retransmitted *)
Lemma step_nak_more : forall s sos eos reqs, TailM SS_RETRANSMITTING (Some SS_WAITING_FOR_FINISHED) None s -> Forall okreq reqs ->
  exists s', pump_with (Some (PNak (hdr_of cf TOWARDS_SENDER) sos eos reqs)) s = (s', Ok (tilesOf reqs)) /\
             TailM SS_RETRANSMITTING (Some SS_WAITING_FOR_FINISHED) None s'.
Proof.
  intros s sos eos reqs H HF. tailm_intro H.
  unfold pump_with, state_machine_s, check_inserted_packet_s.
  repeat (progress (sx; rewrite ?Hm, ?Hsrc, ?Hdst, ?zeqb_refl; unf_final)).
  retxv HF.
  repeat (progress (sx; unfold enqueue)).
  tailm_done H15.
Qed.

Notation tileAt' := (tileAt d cf seg).

(* immediate NAK mode: the request for the Metadata PDU and the first tile meets a sender that has more File Data to send *)
Lemma step_nak_md_mid : forall off s sos eos b, InvA c p r fs d cf seg clo tid off s -> off < zlen d ->
  b = 0 + Z.min seg (zlen d - 0) -> b <= off ->
  exists s', pump_with (Some (PNak (hdr_of cf TOWARDS_SENDER) sos eos [(0, 0); (0, b)])) s = (s', Ok [mdS; tileAt' 0]) /\
             InvR c p r fs d cf seg clo tid off s'.
Proof.
  intros off s sos eos b [HI [Hcl [Hqf Hct]]] Hlt Hb Hbo.
  destruct HI as (H1&H2&H3&H4&H5&H6&H7&H8&H9&H10&H11&H12&H13&H14&H15&H16&H17).
  destruct s as [cfg st step ready queue q sb pt sc sbits [nw fs' rw lg]].
  destruct q. cbn in H1,H2,H3,H4,H5,H6,H7,H8,H9,H10,H11,H12,H13,H14,H15,Hcl,Hqf,Hct. subst cfg st queue pt fs' q_conf q_progress
    q_segment_len q_file_size q_md_only q_empty_file q_rcfg q_closure q_tid q_fin q_check_timer.
  assert (Hpos : 0 < zlen d) by lia.
  assert (Hstep : step = SS_SENDING_FILE_DATA) by (destruct H15 as [[_ ?]|?]; [lia|assumption]).
  subst step.
  unfold pump_with, state_machine_s, check_inserted_packet_s.
  assert (E2 : (off =? zlen d) = false) by (apply Z.eqb_neq; lia).
  repeat (progress (sx; rewrite ?Hm, ?Hsrc, ?Hdst, ?zeqb_refl, ?E2;
                    unfold fsm_non_idle, fsm_advancement_s, sending_file_data_fsm)).
  assert (HF : Forall (okreqP off) [(0, b)]).
  { constructor; [|constructor]. unfold okreqP. cbn [fst snd]. lia. }
  retxm HF. unfold tilesOf. cbn [flat_map map app fst snd]; projs.
  rewrite (range_one d seg Hseg 0 b ltac:(lia) Hpos Hb).
  repeat (progress (sx; unfold enqueue)).
  eexists. split; [reflexivity|].
  unfold InvR, InvA, Inv. cbn. repeat split; try reflexivity; try lia; try assumption; apply Hcl.
Qed.

(* immediate NAK mode, a file of one tile: the same call sends the EOF PDU, the Metadata PDU and the tile *)
Lemma step_nak_md_eof : forall s sos eos, InvA c p r fs d cf seg clo tid (zlen d) s -> s_step s = SS_SENDING_FILE_DATA ->
  0 < zlen d -> zlen d <= seg ->
  exists s', pump_with (Some (PNak (hdr_of cf TOWARDS_SENDER) sos eos [(0, 0); (0, zlen d)])) s =
               (s', Ok [eofP'; mdS; tileAt' 0]) /\
             TailM SS_RETRANSMITTING (Some SS_WAITING_FOR_EOF_ACK) None s'.
Proof.
  intros s sos eos [HI [Hcl [Hqf Hct]]] Hst Hpos Hone.
  destruct HI as (H1&H2&H3&H4&H5&H6&H7&H8&H9&H10&H11&H12&H13&H14&H15&H16&H17).
  destruct s as [cfg st step ready queue q sb pt sc sbits [nw fs' rw lg]].
  destruct q. cbn in H1,H2,H3,H4,H5,H6,H7,H8,H9,H10,H11,H12,H13,H14,H15,Hcl,Hqf,Hct,Hst. subst.
  unfold pump_with, state_machine_s, check_inserted_packet_s, eofP.
  assert (E1 : (zlen d <? zlen d) = false) by (apply Z.ltb_irrefl).
  assert (HF : Forall (okreqP (zlen d)) [(0, zlen d)]).
  { constructor; [|constructor]. unfold okreqP. cbn [fst snd]. lia. }
  destruct (l_ind_eof_sent c) eqn:Ee;
  repeat (progress (sx; rewrite ?Hnames, ?Hlook, ?Hm, ?Hsrc, ?Hdst, ?Ee, ?Hfin, ?zsub_diag, ?zeqb_refl, ?E1;
                    rewrite ?(cc_ok p r fs d cks seg sn dn Hnames Hlook Hck) by reflexivity; unf_final));
  (retxm HF; unfold tilesOf; cbn [flat_map map app fst snd]; projs;
   rewrite (range_one d seg Hseg 0 (zlen d) ltac:(lia) Hpos ltac:(lia));
   repeat (progress (sx; unfold enqueue));
   eexists; split; [reflexivity|]; unfold TailM, TailX; cbn;
   (split; [|split; reflexivity]);
   repeat (split; [reflexivity|]);
   repeat (apply clean_cons; [reflexivity|reflexivity|]); exact Hcl).
Qed.
End SenderM.
(* ================================================================== *)
(* 3. the scheduler: rounds with several PDUs in each direction        *)
(* ================================================================== *)
Local Opaque state_machine_s Dest.state_machine.

(* the sender handles the inbound PDUs [qin] one by one and emits [ps] altogether *)
Inductive srun : src -> list pdu -> src -> list pdu -> Prop :=
| srun_nil : forall s, srun s [] s []
| srun_cons : forall s pk s1 ps1 rest s2 ps2,
    s_state s = ST_BUSY -> pump_with (Some pk) s = (s1, Ok ps1) -> Forall onw ps1 ->
    srun s1 rest s2 ps2 -> srun s (pk :: rest) s2 (ps1 ++ ps2).

(* the receiver handles the inbound PDUs [pds] one by one and emits [outs] altogether *)
Inductive drun : dst -> list pdu -> dst -> list pdu -> Prop :=
| drun_nil : forall dd, drun dd [] dd []
| drun_cons : forall dd pd dd1 dd' outs1 rest dd'' outs2,
    dbusy pd dd -> Dest.state_machine (Some pd) dd = (dd1, Ok tt) -> drain_d dd1 = (dd', outs1) -> Forall onw outs1 ->
    drun dd' rest dd'' outs2 -> drun dd (pd :: rest) dd'' (outs1 ++ outs2).

Lemma zlen_app' : forall A (a b : list A), zlen (a ++ b) = zlen a + zlen b.
Proof. intros. unfold zlen. rewrite app_length. lia. Qed.
Lemma zlen_ge0 : forall A (l : list A), 0 <= zlen l.
Proof. intros. unfold zlen. lia. Qed.

Lemma sall : forall fl s qin s' ps, srun s qin s' ps ->
  forall dd q1 c1 c2 rnd scur dcur sdone ddone a0, nofault0 fl c1 (zlen ps) ->
  exists scur' sdone' a,
    deliver_all deliver_to_source qin (ZF fl s dd q1 [] c1 c2 rnd scur dcur sdone ddone) a0 =
      (ZF fl s' dd (q1 ++ ps) [] (c1 + zlen ps) c2 rnd scur' dcur sdone' ddone, a) /\ a0 + zlen qin <= a.
Proof.
  intros fl s qin s' ps H. induction H as [s | s pk s1 ps1 rest s2 ps2 Hb P Ho Hr IH];
    intros dd q1 c1 c2 rnd scur dcur sdone ddone a0 Hn.
  - exists scur, sdone, a0. cbn [deliver_all]. rewrite app_nil_r. change (zlen (@nil pdu)) with 0. rewrite !Z.add_0_r.
    split; [reflexivity|lia].
  - rewrite zlen_app' in Hn. pose proof (zlen_ge0 _ ps1). pose proof (zlen_ge0 _ ps2). pose proof (zlen_ge0 _ rest).
    destruct (call_src_f fl (Some pk) s s1 ps1 dd q1 [] c1 c2 rnd scur dcur sdone ddone P) as (sc & sd & E).
    destruct (IH dd (q1 ++ ps1) (c1 + zlen ps1) c2 rnd sc dcur sd ddone (a0 + 1 + zlen ps1)
                ltac:(intros i Hi; apply Hn; lia)) as (sc' & sd' & a & E' & Ha).
    exists sc', sd', a. cbn [deliver_all]. rewrite dts_busy by exact Hb. rewrite E.
    rewrite (ow_all _ Ho), emit0_f by (intros i Hi; apply Hn; lia). rewrite E'.
    rewrite <- app_assoc, zlen_app', Z.add_assoc. split; [reflexivity|]. rewrite zlen_cons. lia.
Qed.

Lemma dall : forall fl dd pds dd' outs, drun dd pds dd' outs -> nofault1 fl ->
  forall s q2 c1 c2 rnd scur dcur sdone ddone a0,
  exists dcur' ddone' a,
    deliver_all deliver_to_dest pds (ZF fl s dd [] q2 c1 c2 rnd scur dcur sdone ddone) a0 =
      (ZF fl s dd' [] (q2 ++ outs) c1 (c2 + zlen outs) rnd scur dcur' sdone ddone', a) /\ a0 + zlen pds <= a.
Proof.
  intros fl dd pds dd' outs H Hn. induction H as [dd | dd pd dd1 dd' outs1 rest dd'' outs2 B Hd Hdr Ho Hr IH];
    intros s q2 c1 c2 rnd scur dcur sdone ddone a0.
  - exists dcur, ddone, a0. cbn [deliver_all]. rewrite app_nil_r. change (zlen (@nil pdu)) with 0. rewrite !Z.add_0_r.
    split; [reflexivity|lia].
  - pose proof (zlen_ge0 _ outs1). pose proof (zlen_ge0 _ outs2). pose proof (zlen_ge0 _ rest).
    destruct (call_dst_f fl (Some pd) dd dd1 s [] q2 c1 c2 rnd scur dcur sdone ddone Hd) as (dc & dn & E).
    destruct (IH s (q2 ++ outs1) c1 (c2 + zlen outs1) rnd scur dc sdone dn (a0 + 1 + zlen outs1)) as (dc' & dn' & a & E' & Ha).
    destruct (dbusy_guard pd dd ddone B) as [G1 G2].
    exists dc', dn', a. cbn [deliver_all]. rewrite dtd_pass by assumption. rewrite E, Hdr. cbn [fst snd].
    rewrite (ow_all _ Ho), emit1_f by exact Hn. rewrite E'.
    rewrite <- app_assoc, zlen_app', Z.add_assoc. split; [reflexivity|]. rewrite zlen_cons. lia.
Qed.

Lemma sphase_list : forall fl s qin s' ps dd c1 c2 rnd scur dcur sdone ddone,
  srun s qin s' ps -> qin <> [] -> nofault0 fl c1 (zlen ps) ->
  exists scur' sdone' a,
    sphase qin (ZF fl s dd [] [] c1 c2 rnd scur dcur sdone ddone) =
      (ZF fl s' dd ps [] (c1 + zlen ps) c2 rnd scur' dcur sdone' ddone, a) /\ 1 <= a.
Proof.
  intros fl s qin s' ps dd c1 c2 rnd scur dcur sdone ddone H Hne Hn.
  destruct (sall fl s qin s' ps H dd [] c1 c2 rnd scur dcur sdone ddone 0 Hn) as (sc & sd & a & E & Ha).
  exists sc, sd, a. unfold sphase. rewrite E. cbn [app].
  destruct qin as [|pk rest]; [contradiction|]. split; [reflexivity|].
  rewrite zlen_cons in Ha. pose proof (zlen_ge0 _ rest). lia.
Qed.

Lemma dphase_list : forall fl s dd pds dd' outs c1 c2 rnd scur dcur sdone ddone a2,
  drun dd pds dd' outs -> pds <> [] -> nofault1 fl ->
  exists dcur' ddone' a,
    dphase (ZF fl s dd pds [] c1 c2 rnd scur dcur sdone ddone) a2 =
      (ZF fl s dd' [] outs c1 (c2 + zlen outs) rnd scur dcur' sdone ddone', a) /\ a2 < a.
Proof.
  intros fl s dd pds dd' outs c1 c2 rnd scur dcur sdone ddone a2 H Hne Hn.
  destruct (dall fl dd pds dd' outs H Hn s [] c1 c2 rnd scur dcur sdone ddone a2) as (dc & dn & a & E & Ha).
  exists dc, dn, a. unfold dphase. unfold ZF at 1 2. ypr.
  fold (ZF fl s dd [] [] c1 c2 rnd scur dcur sdone ddone). rewrite E. cbn [app].
  destruct pds as [|pd rest]; [contradiction|]. split; [reflexivity|].
  rewrite zlen_cons in Ha. pose proof (zlen_ge0 _ rest). lia.
Qed.

(* inbound PDUs make the sender emit PDUs, the receiver handles them all *)
Lemma round_LL : forall fl s s' qin ps dd dd' outs c1 c2 rnd scur dcur sdone ddone,
  srun s qin s' ps -> qin <> [] -> ps <> [] -> nofault0 fl c1 (zlen ps) -> nofault1 fl ->
  drun dd ps dd' outs -> s_state s' = ST_BUSY ->
  exists c2' rnd' scur' dcur' sdone' ddone' a,
    step_round (ZF fl s dd [] qin c1 c2 rnd scur dcur sdone ddone) =
      (ZF fl s' dd' [] outs (c1 + zlen ps) c2' rnd' scur' dcur' sdone' ddone', a) /\ 0 < a /\
    quiescent (ZF fl s' dd' [] outs (c1 + zlen ps) c2' rnd' scur' dcur' sdone' ddone') = false.
Proof.
  intros fl s s' qin ps dd dd' outs c1 c2 rnd scur dcur sdone ddone Hs Hq Hp Hf Hf1 Hd Hb.
  destruct (sphase_list fl s qin s' ps dd c1 c2 (rnd + 1) scur dcur sdone ddone Hs Hq Hf) as (sc & sd & a2 & E1 & Ha2).
  destruct (dphase_list fl s' dd ps dd' outs (c1 + zlen ps) c2 (rnd + 1) sc dcur sd ddone a2 Hd Hp Hf1)
    as (dc & dn & a3 & E2 & Ha3).
  do 6 eexists. exists a3. rewrite step_round_ZF, E1, E2. split; [reflexivity|]. split; [lia|]. apply q_busy. exact Hb.
Qed.

(* the very first round: the Metadata PDU is dropped, the idle receiver is called without a PDU; the bookkeeping of
   the surrounding entity stays as it was (the next PDU must meet an entity that knows of no finished transaction) *)
Lemma round_drop0 : forall fl s s' pd dd c1 c2 rnd scur sdone,
  pump s = (s', Ok [pd]) -> onw pd -> find_fault fl 0 c1 = Some (mkFault 0 c1 0 0) ->
  Dest.state_machine None dd = (dd, Ok tt) -> drain_d dd = (dd, []) -> d_state dd = ST_IDLE -> s_state s' = ST_BUSY ->
  exists rnd' scur' sdone' a,
    step_round (ZF fl s dd [] [] c1 c2 rnd scur None sdone []) =
      (ZF fl s' dd [] [] (c1 + 1) c2 rnd' scur' None sdone' [], a) /\ 0 < a /\
    quiescent (ZF fl s' dd [] [] (c1 + 1) c2 rnd' scur' None sdone' []) = false.
Proof.
  intros fl s s' pd dd c1 c2 rnd scur sdone P Ho Hf Hd Hdr Hi Hb.
  destruct (sphase_drop fl s s' pd dd c1 c2 (rnd + 1) scur None sdone [] P Ho Hf) as (sc & sd & a2 & E1 & Ha2).
  exists (rnd + 1), sc, sd. eexists. rewrite step_round_ZF, E1.
  unfold dphase. unfold ZF at 1 2. ypr. cbn [deliver_all].
  unfold call_dst. ypr. rewrite Hd. ypr. unfold note_done_dst. ypr. rewrite Hi. change (ST_IDLE =? ST_BUSY) with false.
  cbv iota. ypr. rewrite Hdr. cbn [flat_map emit_pdus]. ypr. rewrite Hi.
  split; [reflexivity|]. split.
  - change (zlen (@nil pdu)) with 0. rewrite !Z.eqb_refl. cbn [andb]. lia.
  - apply q_busy. exact Hb.
Qed.
(* ================================================================== *)
(* 4. the two-entity system with the Metadata PDU dropped              *)
(* ================================================================== *)
Section SysM.
Variables (cs cd : lcfg) (p : putreq) (rs rd : rcfg) (sn : path) (x : Z) (data cks : bytes) (cf : sconf)
          (seg tick : Z) (clo : bool) (fss : tree) (maxn : Z).
Hypothesis Hnames : pr_names p = Some (sn, [x]).
Hypothesis Hmsgs : pr_msgs p = None.
Hypothesis Hlook : lookup fss sn = Some (File data).
Hypothesis Hsn : sn <> [].
Hypothesis Hseg : 1 <= seg.
Hypothesis Hm : sc_mode cf = ACKED.
Hypothesis Hck : calculate_checksum (r_cktype rs) (Some data) (zlen data) seg = Ok cks.
Hypothesis Hck2 : calculate_checksum (r_cktype rs) (Some data) (zlen data) 4096 = Ok cks.
Hypothesis Hfins : l_ind_fin cs = true.
Hypothesis Hfind : l_ind_fin cd = true.
Hypothesis Hrem : get_remote (l_remotes cd) (sc_src cf) = Some rd.
Hypothesis Hdst : sc_dst cf = l_id cd.
Hypothesis Hacks : 0 < r_ack_ms rs.
Hypothesis Hackd : 0 < r_ack_ms rd.
Hypothesis Hnakd : 0 < r_nak_ms rd.
Hypothesis Hsrc : sc_src cf = l_id cs.
Hypothesis Hdstr : sc_dst cf = r_id rs.
Hypothesis Hmax : max_seg_reqs (r_max_packet rd) (hRB cd cf) = Some maxn.

(* the fault schedule drops the PDU with index 0 towards the receiver: the Metadata PDU *)
Local Notation fl0 := (fl 0).
Local Notation at0 := (at_ 0).
Local Notation fin_ok0 := (fin_ok cd x data cf tick 0).
Local Notation hRA' := (hRA cd cf).
Local Notation hRB' := (hRB cd cf).
Local Notation fsz := (zlen data).
Local Notation RC f := (f cd rd (sc_crc cf) (sc_large cf) (sc_src cf) (sc_srcw cf) (sc_seq cf) (sc_seqw cf)) (only parsing).
Local Notation HC f := (f cd (sc_crc cf) (sc_large cf) (sc_src cf) (sc_srcw cf) (sc_seq cf) (sc_seqw cf)) (only parsing).
Local Notation RA f :=
  (f cd rd x (sc_crc cf) (sc_large cf) clo (sc_src cf) (sc_srcw cf) (sc_seq cf) (sc_seqw cf) (r_cktype rs) (zlen data))
  (only parsing).
Local Notation WMx := (RC WM) (only parsing).
Local Notation WEx := (RC WE fsz) (only parsing).
Local Notation WDx := (RC WD fsz) (only parsing).
Local Notation nakMx := (HC nakM) (only parsing).
Local Notation nakLx := (HC nakL fsz maxn) (only parsing).
Local Notation nak0x := (HC nak0 fsz) (only parsing).
Local Notation lgEx := (lgE cd (sc_src cf) (sc_seq cf)) (only parsing).
Local Notation mdPx :=
  (mdP cd x (sc_crc cf) (sc_large cf) clo (sc_src cf) (sc_srcw cf) (sc_seq cf) (sc_seqw cf) (r_cktype rs) (zlen data) sn)
  (only parsing).
Local Notation evMdx := (evMd x (sc_src cf) (sc_seq cf) fsz sn) (only parsing).
Local Notation DRx := (RA DR) (only parsing).
Local Notation DMx := (RA DM) (only parsing).
Local Notation DWXx := (RA DWX) (only parsing).
Local Notation InvAx := (InvA cs p rs fss data cf seg clo (tidA cf)) (only parsing).
Local Notation InvRx := (InvR cs p rs fss data cf seg clo (tidA cf)) (only parsing).
Local Notation TailMx := (TailM cs p rs fss data cf seg clo (tidA cf)) (only parsing).
Local Notation TailXx := (TailX cs p rs fss data cf seg (tidA cf)) (only parsing).
Local Notation Tailx := (Tail cs p rs cf (tidA cf)) (only parsing).
Local Notation nxt' := (nxt data seg).
Local Notation tl' := (tl data seg).
Local Notation tileP' := (tileP cd data cf seg).
Local Notation eofX' := (eofX cd data cks cf).
Local Notation ackEA' := (ackEA cd cf).
Local Notation finPA' := (finPA cd cf).
Local Notation ackF' := (ackF cd cf).
Local Notation evFinD' := (evFinD cf).

Lemma md_eq : mdS rs data cf clo sn [x] = mdPx.
Proof. unfold mdS, mdP. rewrite (hdr_eq_a cd cf Hm Hdst). reflexivity. Qed.

Lemma tileq : forall a, tileAt data cf seg a = tileP' a.
Proof. exact (tile_eq cd data cf seg Hm Hdst). Qed.
Lemma eofq : eofP data cks cf = eofX'.
Proof. exact (eof_eq cd data cks cf Hm Hdst). Qed.
Lemma tlen : forall off, 0 <= off < fsz -> zlen (tl' off) = nxt' off - off.
Proof. exact (tl_len data seg Hseg). Qed.
Lemma tpos : forall off, 0 <= off < fsz -> 0 < zlen (tl' off).
Proof. exact (tl_pos data seg Hseg). Qed.
Lemma tonw : forall off, 0 <= off < fsz -> onw (tileP' off).
Proof. exact (tile_onw cd data cf seg Hseg). Qed.
Lemma nle : forall off, 0 <= off < fsz -> off < nxt' off <= fsz.
Proof. exact (nxt_le data seg Hseg). Qed.
Lemma InvAx_rng : forall off s, InvAx off s -> 0 <= off <= fsz.
Proof. intros off s H. exact (InvA_range _ _ _ _ _ _ _ _ _ _ _ H). Qed.
Lemma InvAx_busy : forall off s, InvAx off s -> s_state s = ST_BUSY.
Proof. intros off s H. exact (InvA_busy _ _ _ _ _ _ _ _ _ _ _ H). Qed.
Lemma bguard : forall pd dd ddone, pdu_hdr pd = hRA' -> d_state dd = ST_BUSY ->
  p_tid (d_p dd) = Some (sc_src cf, sc_seq cf) -> dguard pd dd ddone.
Proof. exact (busy_guard cd cf). Qed.
Lemma nfp : forall c n, 0 < c -> nofault0 fl0 c n.
Proof. exact (nf_past 0). Qed.

(* ---- the tiles of the whole file, as the receiver sees them *)
Fixpoint tilesL (n : nat) (off : Z) : list pdu :=
  match n with
  | O => []
  | S k => if off <? fsz then tileP' off :: tilesL k (nxt' off) else []
  end.

Lemma tilesL_end : forall n, tilesL n fsz = [].
Proof. destruct n; [reflexivity|]. cbn [tilesL]. rewrite Z.ltb_irrefl. reflexivity. Qed.

Lemma tiles_map : forall n off, 0 <= off ->
  map (fd_of hRA') (tiles_from n off seg (zdrop off data)) = tilesL n off.
Proof.
  induction n as [|n IH]; intros off Hoff; [reflexivity|].
  cbn [tilesL]. destruct (off <? fsz) eqn:E; [apply Z.ltb_lt in E | apply Z.ltb_ge in E].
  - assert (Hne : zdrop off data <> []).
    { intro H0. assert (Hz : zlen (zdrop off data) = 0) by (rewrite H0; reflexivity). rewrite zlen_zdrop in Hz by lia. lia. }
    rewrite tiles_from_cons by exact Hne. cbn [map]. unfold fd_of at 1. cbn [fst snd]. f_equal.
    rewrite zdrop_zdrop by lia.
    destruct (Z.le_gt_cases (off + seg) fsz) as [Hc|Hc].
    + replace (nxt' off) with (off + seg) by (unfold nxt; lia). apply IH. lia.
    + rewrite (zdrop_all _ (off + seg) data) by lia. rewrite tiles_from_nil.
      replace (nxt' off) with fsz by (unfold nxt; lia). rewrite tilesL_end. reflexivity.
  - rewrite (zdrop_all _ off data) by lia. rewrite tiles_from_nil. reflexivity.
Qed.

Lemma tilesOf_all : tilesOf data cf seg [(0, fsz)] = tilesL (length data) 0.
Proof.
  unfold tilesOf. cbn [flat_map fst snd]. rewrite app_nil_r. unfold range_tiles.
  rewrite (hdr_eq_a cd cf Hm Hdst). rewrite Z.sub_0_r. change (zdrop 0 data) with data. rewrite ztake_all.
  replace (Z.to_nat fsz) with (length data) by (unfold zlen; lia).
  exact (tiles_map (length data) 0 ltac:(lia)).
Qed.

Lemma tilesL_onw : forall n off, 0 <= off -> Forall onw (tilesL n off).
Proof.
  induction n as [|n IH]; intros off Hoff; [constructor|].
  cbn [tilesL]. destruct (off <? fsz) eqn:E; [apply Z.ltb_lt in E | constructor].
  constructor; [apply tonw; lia|]. apply IH. pose proof (nle off ltac:(lia)). lia.
Qed.

Lemma tilesL_fd : forall n off, Forall (fun pd => exists o dt, pd = PFileData hRA' o dt) (tilesL n off).
Proof.
  induction n as [|n IH]; intros off; [constructor|].
  cbn [tilesL]. destruct (off <? fsz); [|constructor].
  constructor; [unfold tileP; repeat eexists|]. apply IH.
Qed.

Ltac close_round R Ha Q :=
  eexists; split; [exact (reach_step tick _ _ _ R Ha Q)|].
Ltac at_here := unfold at_; do 6 eexists; reflexivity.

Lemma zlen0_nil : forall (l : bytes), zlen l = 0 -> l = [].
Proof. intros [|a l] H; [reflexivity|]. unfold zlen in H. cbn [length] in H. lia. Qed.

Lemma drain_WD : forall q ck tr lg, drain_d (WDx (zlen q) q ck tr lg) = (WDx 0 [] ck tr lg, q).
Proof. intros. unfold drain_d, WD, dM, set. cbn. rewrite Z.sub_diag. reflexivity. Qed.
Lemma drain_DM : forall q prog ck tr fs lg, drain_d (DMx (zlen q) q prog ck tr fs lg) = (DMx 0 [] prog ck tr fs lg, q).
Proof. intros. unfold drain_d, DM, dX, set. cbn. rewrite Z.sub_diag. reflexivity. Qed.

Lemma nakL_onw : Forall onw nakLx.
Proof. unfold nakL. destruct (1 =? maxn); repeat constructor. Qed.
Lemma nakL_ne : nakLx <> [].
Proof. unfold nakL. destruct (1 =? maxn); discriminate. Qed.

(* ---- the first round: the Metadata PDU is lost *)
Definition S0 (y : sys) : Prop :=
  exists s c2 rnd scur sdone, y = ZF fl0 s (dst_init cd) [] [] 1 c2 rnd scur None sdone [] /\ InvAx 0 s.

Lemma round_md_drop : forall s1 s3,
  pump s1 = (s3, Ok [PMetadata (hdr_of cf TOWARDS_RECEIVER) clo (r_cktype rs) fsz (Some (sn, [x])) []]) ->
  InvAx 0 s3 ->
  exists y', reach tick (ZF fl0 s1 (dst_init cd) [] [] 0 0 0 None None [] []) y' /\ S0 y'.
Proof.
  intros s1 s3 P HI.
  destruct (round_drop0 fl0 s1 s3 _ (dst_init cd) 0 0 0 None [] P eq_refl (ff_hit 0)
              (sm_idle0 cd) eq_refl eq_refl (InvAx_busy _ _ HI)) as (rnd' & sc & sd & a & R & Ha & Q).
  close_round R Ha Q. do 5 eexists. split; [reflexivity|exact HI].
Qed.

(* ---- the receiver has seen the EOF PDU (ACK(EOF) on its way), then asks for what is missing *)
Definition SE (tr : tracker) (ls : Z) (y : sys) : Prop :=
  exists s sb lg c1, 0 < c1 /\ at0 s (WEx 0 [] cks tr ls lg) [ackEA'] c1 y /\ TailMx SS_WAITING_FOR_EOF_ACK sb None s /\ clean lg.
Definition SN (tr : tracker) (naks : list pdu) (y : sys) : Prop :=
  exists s sb lg c1, 0 < c1 /\ at0 s (WDx 0 [] cks tr lg) naks c1 y /\ TailMx SS_WAITING_FOR_FINISHED sb None s /\ clean lg.
Local Notation SWx := (SW cs cd p rs rd x data cks cf seg clo fss 0) (only parsing).
Local Notation S3Fx := (S3F cs cd p rs x data cf 0) (only parsing).

Lemma clean_lgE : forall lg, clean lg -> clean (lgEx lg).
Proof. intros. unfold lgE. apply (clean_eofr cd). assumption. Qed.

(* an empty file: the EOF PDU starts the transaction *)
Lemma round_eof_idle : forall y, S0 y -> fsz = 0 -> exists y', reach tick y y' /\ SE [] 0 y'.
Proof.
  intros y (s & c2 & rnd & scur & sdone & -> & HI) Hz.
  assert (HI' : InvAx fsz s) by (rewrite Hz; exact HI).
  destruct (step_final_m cs p rs fss data cks cf seg clo (tidA cf) sn [x] Hnames Hlook Hm Hck Hacks s HI') as (s' & sb & P & HT).
  rewrite eofq in P.
  assert (E : (0 <? fsz) = false) by (apply Z.ltb_ge; lia).
  pose proof (RC sm_eof_idle fsz Hrem cks None E) as Hsm.
  assert (G : dguard eofX' (dst_init cd) []) by (split; reflexivity).
  destruct (round_n1 fl0 s s' _ _ _ _ _ 1 c2 rnd scur None sdone [] P eq_refl (ff_none 0 1 ltac:(lia)) (ff1 0) G Hsm eq_refl
              (Forall_cons ackEA' eq_refl (Forall_nil _)) (TailM_busy _ _ _ _ _ _ _ _ _ _ _ _ _ HT))
    as (c2' & rnd' & sc & dc & sd & dn & a0 & R & Ha0 & Q).
  close_round R Ha0 Q.
  exists s', sb, (lgEx []), (1 + 1). split; [lia|]. split; [at_here|]. split; [exact HT|]. apply clean_lgE, clean_nil.
Qed.

Lemma round_ack_e0 : forall ls y, SE [] ls y -> exists y', reach tick y y' /\ SN [] [nak0x] y'.
Proof.
  intros ls y (s & sb & lg & c1 & Hc1 & (c2 & rnd & scur & dcur & sdone & ddone & ->) & HT & Hc).
  destruct (step_ack_eof_m cs p rs fss data cf seg clo (tidA cf) Hm Hsrc Hdstr s sb C_NO_ERROR TS_ACTIVE HT) as (s' & P & HT').
  rewrite (hdr_eq_b cd cf Hm Hdst) in P. fold ackEA' in P.
  pose proof (RC sm_defer_start_m0 fsz Hnakd maxn Hmax cks ls lg) as Hsm.
  destruct (round_10 fl0 s s' _ _ _ _ _ c1 c2 rnd scur dcur sdone ddone (TailM_busy _ _ _ _ _ _ _ _ _ _ _ _ _ HT) P (ff1 0)
              Hsm eq_refl (Forall_cons nak0x eq_refl (Forall_nil _)) (TailM_busy _ _ _ _ _ _ _ _ _ _ _ _ _ HT'))
    as (c2' & rnd' & sc & dc & sd & dn & a0 & R & Ha & Q).
  close_round R Ha Q.
  exists s', sb, lg, c1. split; [exact Hc1|]. split; [at_here|]. split; [exact HT'|exact Hc].
Qed.

Lemma round_ack_e1 : forall ls y, SE [(0, fsz)] ls y -> exists y', reach tick y y' /\ SN [(0, fsz)] nakLx y'.
Proof.
  intros ls y (s & sb & lg & c1 & Hc1 & (c2 & rnd & scur & dcur & sdone & ddone & ->) & HT & Hc).
  destruct (step_ack_eof_m cs p rs fss data cf seg clo (tidA cf) Hm Hsrc Hdstr s sb C_NO_ERROR TS_ACTIVE HT) as (s' & P & HT').
  rewrite (hdr_eq_b cd cf Hm Hdst) in P. fold ackEA' in P.
  pose proof (RC sm_defer_start_m1 fsz Hnakd maxn Hmax cks ls lg) as Hsm.
  destruct (round_10 fl0 s s' _ _ _ _ _ c1 c2 rnd scur dcur sdone ddone (TailM_busy _ _ _ _ _ _ _ _ _ _ _ _ _ HT) P (ff1 0)
              Hsm (drain_WD _ _ _ _) nakL_onw (TailM_busy _ _ _ _ _ _ _ _ _ _ _ _ _ HT'))
    as (c2' & rnd' & sc & dc & sd & dn & a0 & R & Ha & Q).
  close_round R Ha Q.
  exists s', sb, lg, c1. split; [exact Hc1|]. split; [at_here|]. split; [exact HT'|exact Hc].
Qed.

(* the request (0, 0) is answered with the Metadata PDU; for an empty file the transfer is then complete *)
Lemma round_nak_e : forall y, SN [] [nak0x] y -> fsz = 0 -> exists y', reach tick y y' /\ SWx y'.
Proof.
  intros y (s & sb & lg & c1 & Hc1 & (c2 & rnd & scur & dcur & sdone & ddone & ->) & HT & Hc) Hz.
  pose proof (zlen0_nil data Hz) as Hd.
  destruct (step_nak_md cs p rs fss data cf seg clo (tidA cf) sn [x] Hnames Hmsgs Hlook Hsn Hseg Hm Hsrc Hdstr s sb 0 fsz []
              HT (Forall_nil _)) as (s' & P & HT').
  change (tilesOf data cf seg []) with (@nil pdu) in P.
  rewrite (hdr_eq_b cd cf Hm Hdst), md_eq in P.
  pose proof Hck2 as C. rewrite Hd in C at 1.
  pose proof (RA sm_md_wd_empty Hrem Hfind Hackd sn cks lg C) as Hsm.
  assert (G : dguard mdPx (WDx 0 [] cks [] lg) ddone) by (apply bguard; reflexivity).
  destruct (round_11 fl0 s s' _ _ _ _ _ _ c1 c2 rnd scur dcur sdone ddone (TailM_busy _ _ _ _ _ _ _ _ _ _ _ _ _ HT) P
              eq_refl (ff_none 0 c1 ltac:(lia)) (ff1 0) G Hsm eq_refl (Forall_cons finPA' eq_refl (Forall_nil _))
              (TailM_busy _ _ _ _ _ _ _ _ _ _ _ _ _ HT'))
    as (c2' & rnd' & sc & dc & sd & dn & a0 & R & Ha0 & Q).
  close_round R Ha0 Q.
  do 6 eexists. exists (c1 + 1). split; [lia|]. split; [at_here|]. split; [exact (TailM_X _ _ _ _ _ _ _ _ _ _ _ _ _ HT')|].
  split; [rewrite look0; f_equal; f_equal; symmetry; exact Hd|].
  apply clean_cons; [reflexivity|reflexivity|exact Hc].
Qed.

(* ---- deferred NAK mode: File Data before the Metadata PDU is counted and recorded as lost *)
Definition SD (off : Z) (y : sys) : Prop :=
  exists s lg c1, 0 < c1 /\ at0 s (WMx 0 [] off lg) [] c1 y /\ InvAx off s /\ clean lg.

Lemma round_fd_idle_def : forall y, S0 y -> 0 < fsz -> r_imm_nak rd = false -> exists y', reach tick y y' /\ SD (nxt' 0) y'.
Proof.
  intros y (s & c2 & rnd & scur & sdone & -> & HI) Hpos Himm.
  destruct (step_fd_a cs p rs fss data cf seg clo (tidA cf) sn [x] Hnames Hlook Hseg Hm 0 s HI Hpos) as (s' & P & HI').
  change (fd_of (hdr_of cf TOWARDS_RECEIVER) (0, ztake seg (zdrop 0 data))) with (tileAt data cf seg 0) in P.
  rewrite tileq in P.
  pose proof (RC sm_fd_idle_def Hrem 0 (tl' 0) (tpos 0 ltac:(lia)) Himm) as Hsm.
  rewrite (tlen 0 ltac:(lia)) in Hsm. replace (0 + (nxt' 0 - 0)) with (nxt' 0) in Hsm by lia.
  assert (G : dguard (tileP' 0) (dst_init cd) []) by (split; reflexivity).
  destruct (round_n1 fl0 s s' _ _ _ _ _ 1 c2 rnd scur None sdone [] P (tonw 0 ltac:(lia)) (ff_none 0 1 ltac:(lia)) (ff1 0) G Hsm eq_refl
              (Forall_nil _) (InvAx_busy _ _ HI'))
    as (c2' & rnd' & sc & dc & sd & dn & a0 & R & Ha0 & Q).
  close_round R Ha0 Q.
  exists s', [], (1 + 1). split; [lia|]. split; [at_here|]. split; [exact HI'|apply clean_nil].
Qed.

Lemma round_fd_d : forall off y, SD off y -> off < fsz -> r_imm_nak rd = false -> exists y', reach tick y y' /\ SD (nxt' off) y'.
Proof.
  intros off y (s & lg & c1 & Hc1 & (c2 & rnd & scur & dcur & sdone & ddone & ->) & HI & Hc) Hlt Himm.
  pose proof (InvAx_rng _ _ HI) as Hr.
  destruct (step_fd_a cs p rs fss data cf seg clo (tidA cf) sn [x] Hnames Hlook Hseg Hm off s HI Hlt) as (s' & P & HI').
  change (fd_of (hdr_of cf TOWARDS_RECEIVER) (off, ztake seg (zdrop off data))) with (tileAt data cf seg off) in P.
  rewrite tileq in P.
  pose proof (RC sm_fd_wm Hrem off (tl' off) off lg (tpos off ltac:(lia)) Himm) as Hsm.
  rewrite (tlen off ltac:(lia)) in Hsm. replace (off + (nxt' off - off)) with (nxt' off) in Hsm by lia.
  assert (G : dguard (tileP' off) (WMx 0 [] off lg) ddone) by (apply bguard; reflexivity).
  destruct (round_n1 fl0 s s' _ _ _ _ _ c1 c2 rnd scur dcur sdone ddone P (tonw off ltac:(lia)) (ff_none 0 c1 ltac:(lia)) (ff1 0)
              G Hsm eq_refl (Forall_nil _) (InvAx_busy _ _ HI'))
    as (c2' & rnd' & sc & dc & sd & dn & a0 & R & Ha0 & Q).
  close_round R Ha0 Q.
  exists s', lg, (c1 + 1). split; [lia|]. split; [at_here|]. split; [exact HI'|exact Hc].
Qed.

Lemma run_fd_d : forall n off y, SD off y -> 0 <= off <= fsz -> (length (zdrop off data) <= n)%nat -> r_imm_nak rd = false ->
  exists y', reach tick y y' /\ SD fsz y'.
Proof.
  induction n as [|n IH]; intros off y HS Hr Hn Himm.
  - assert (Hz : zlen (zdrop off data) = 0) by (unfold zlen; lia).
    rewrite zlen_zdrop in Hz by lia. assert (off = fsz) by lia. subst off.
    exists y. split; [apply reach_refl|exact HS].
  - destruct (Z.eq_dec off fsz) as [He|He].
    + subst off. exists y. split; [apply reach_refl|exact HS].
    + destruct (round_fd_d off y HS ltac:(lia) Himm) as (y1 & R1 & H1).
      pose proof (nle off ltac:(lia)) as Hnx.
      destruct (IH (nxt' off) y1 H1 ltac:(lia) (nxt_drop data seg Hseg off n ltac:(lia) Hn) Himm) as (y2 & R2 & H2).
      exists y2. split; [exact (reach_trans tick _ _ _ R1 R2)|exact H2].
Qed.

Lemma round_eof_d : forall y, SD fsz y -> 0 < fsz -> exists y', reach tick y y' /\ SE [(0, fsz)] fsz y'.
Proof.
  intros y (s & lg & c1 & Hc1 & (c2 & rnd & scur & dcur & sdone & ddone & ->) & HI & Hc) Hpos.
  destruct (step_final_m cs p rs fss data cks cf seg clo (tidA cf) sn [x] Hnames Hlook Hm Hck Hacks s HI) as (s' & sb & P & HT).
  rewrite eofq in P.
  pose proof (RC sm_eof_wm fsz Hrem cks None fsz lg Hpos) as Hsm.
  assert (G : dguard eofX' (WMx 0 [] fsz lg) ddone) by (apply bguard; reflexivity).
  destruct (round_n1 fl0 s s' _ _ _ _ _ c1 c2 rnd scur dcur sdone ddone P eq_refl (ff_none 0 c1 ltac:(lia)) (ff1 0) G Hsm eq_refl
              (Forall_cons ackEA' eq_refl (Forall_nil _)) (TailM_busy _ _ _ _ _ _ _ _ _ _ _ _ _ HT))
    as (c2' & rnd' & sc & dc & sd & dn & a0 & R & Ha0 & Q).
  close_round R Ha0 Q.
  exists s', sb, (lgEx lg), (c1 + 1). split; [lia|]. split; [at_here|]. split; [exact HT|]. apply clean_lgE. exact Hc.
Qed.

(* ---- the sender answers the NAK PDU(s) of the deferred procedure: Metadata PDU, then every tile of the file *)
Lemma okreq_all : 0 < fsz -> Forall (okreq data) [(0, fsz)].
Proof. intro H. constructor; [|constructor]. unfold okreq, okreqP. cbn [fst snd]. lia. Qed.

Lemma srun_nakL : forall s sb, TailMx SS_WAITING_FOR_FINISHED sb None s -> 0 < fsz ->
  exists s', srun s nakLx s' (mdPx :: tilesL (length data) 0) /\ TailMx SS_RETRANSMITTING (Some SS_WAITING_FOR_FINISHED) None s'.
Proof.
  intros s sb HT Hpos. unfold nakL. destruct (1 =? maxn).
  - destruct (step_nak_md cs p rs fss data cf seg clo (tidA cf) sn [x] Hnames Hmsgs Hlook Hsn Hseg Hm Hsrc Hdstr s sb 0 fsz []
                HT (Forall_nil _)) as (s1 & P1 & HT1).
    change (tilesOf data cf seg []) with (@nil pdu) in P1.
    rewrite (hdr_eq_b cd cf Hm Hdst), md_eq in P1.
    destruct (step_nak_more cs p rs fss data cf seg clo (tidA cf) sn [x] Hnames Hlook Hsn Hseg Hm Hsrc Hdstr s1 0 fsz [(0, fsz)]
                HT1 (okreq_all Hpos)) as (s' & P2 & HT').
    rewrite (hdr_eq_b cd cf Hm Hdst), tilesOf_all in P2.
    exists s'. split; [|exact HT'].
    replace (mdPx :: tilesL (length data) 0) with ([mdPx] ++ (tilesL (length data) 0 ++ [])) by (rewrite app_nil_r; reflexivity).
    eapply srun_cons; [exact (TailM_busy _ _ _ _ _ _ _ _ _ _ _ _ _ HT)|exact P1|repeat constructor|].
    eapply srun_cons; [exact (TailM_busy _ _ _ _ _ _ _ _ _ _ _ _ _ HT1)|exact P2|apply tilesL_onw; lia|apply srun_nil].
  - destruct (step_nak_md cs p rs fss data cf seg clo (tidA cf) sn [x] Hnames Hmsgs Hlook Hsn Hseg Hm Hsrc Hdstr s sb 0 fsz [(0, fsz)]
                HT (okreq_all Hpos)) as (s' & P & HT').
    rewrite (hdr_eq_b cd cf Hm Hdst), md_eq, tilesOf_all in P.
    exists s'. split; [|exact HT'].
    replace (mdPx :: tilesL (length data) 0) with ((mdPx :: tilesL (length data) 0) ++ []) by (apply app_nil_r).
    eapply srun_cons; [exact (TailM_busy _ _ _ _ _ _ _ _ _ _ _ _ _ HT)|exact P| |apply srun_nil].
    constructor; [reflexivity|apply tilesL_onw; lia].
Qed.

(* ---- the receiver takes the tiles one after the other; the last one completes the transfer *)
Definition ptN : option timer := Some (0, r_nak_ms rd).

Lemma drun_tiles : forall n off fs lg, 0 <= off < fsz -> (length (zdrop off data) <= n)%nat ->
  lookup fs [x] = Some (File (ztake off data)) -> clean lg ->
  exists fs' lg',
    drun (DMx 0 [] fsz cks [(off, fsz)] fs lg) (tilesL n off) (DWXx 0 [] cks fsz fsz ptN fs' (evFinD' :: lg')) [finPA'] /\
    lookup fs' [x] = Some (File data) /\ clean lg'.
Proof.
  induction n as [|n IH]; intros off fs lg Hoff Hn Hl Hc.
  - exfalso. assert (Hz : zlen (zdrop off data) = 0) by (unfold zlen; lia). rewrite zlen_zdrop in Hz by lia. lia.
  - cbn [tilesL]. replace (off <? fsz) with true by (symmetry; apply Z.ltb_lt; lia).
    pose proof (nle off Hoff) as Hnx. pose proof (tpos off Hoff) as Hp.
    assert (B : dbusy (tileP' off) (DMx 0 [] fsz cks [(off, fsz)] fs lg)) by (split; reflexivity).
    destruct (Z.eq_dec (nxt' off) fsz) as [Hlast|Hmid].
    + pose proof (RA sm_fill_defer Hrem Hfind Hackd off fsz cks (tl' off) fs lg (ztake off data) data Hl Hp) as Hsm.
      rewrite (tlen off Hoff) in Hsm. replace (off + (nxt' off - off)) with (nxt' off) in Hsm by lia.
      rewrite Hlast in Hsm.
      specialize (Hsm ltac:(lia) ltac:(lia)
        ltac:(unfold tl; rewrite write_append by lia; fold (nxt' off); rewrite Hlast; apply ztake_all) Hck2).
      rewrite Hlast, tilesL_end.
      do 2 eexists. split; [|split; [apply (look_set x)|apply (clean_seg cd); exact Hc]].
      change [finPA'] with ([finPA'] ++ []).
      eapply drun_cons; [exact B|exact Hsm|reflexivity|repeat constructor|apply drun_nil].
    + pose proof (RA sm_head_defer Hrem Hnakd off fsz cks (tl' off) fs lg (ztake off data) Hl Hp) as Hsm.
      rewrite (tlen off Hoff) in Hsm. replace (off + (nxt' off - off)) with (nxt' off) in Hsm by lia.
      specialize (Hsm ltac:(lia)). rewrite Z.max_r in Hsm by lia.
      destruct (IH (nxt' off) (set_node fs [x] (File (write_at (ztake off data) off (tl' off))))
                  (if l_ind_seg cd then EvSegmentRecv (sc_src cf) (sc_seq cf) off (nxt' off - off) :: lg else lg) ltac:(lia) (nxt_drop data seg Hseg off n Hoff Hn)
                  ltac:(rewrite (look_set x); f_equal; f_equal; apply write_append; lia)
                  (clean_seg cd (sc_src cf) (sc_seq cf) off (nxt' off - off) lg Hc)) as (fs' & lg' & D & Hl' & Hc').
      exists fs', lg'. split; [|split; assumption].
      change [finPA'] with ([] ++ [finPA']).
      eapply drun_cons; [exact B|exact Hsm|reflexivity|constructor|exact D].
Qed.

Lemma round_nak_d : forall y, SN [(0, fsz)] nakLx y -> 0 < fsz -> exists y', reach tick y y' /\ SWx y'.
Proof.
  intros y (s & sb & lg & c1 & Hc1 & (c2 & rnd & scur & dcur & sdone & ddone & ->) & HT & Hc) Hpos.
  destruct (srun_nakL s sb HT Hpos) as (s' & Hs & HT').
  pose proof (RA sm_md_wd Hrem Hnakd sn 0 cks lg) as Hsm.
  destruct (drun_tiles (length data) 0 (fs0 x) (evMdx :: lg) ltac:(lia) (le_n _) (look0 x)
              ltac:(apply clean_cons; [reflexivity|reflexivity|exact Hc])) as (fs' & lg' & D & Hl' & Hc').
  assert (D' : drun (WDx 0 [] cks [(0, fsz)] lg) (mdPx :: tilesL (length data) 0)
                 (DWXx 0 [] cks fsz fsz ptN fs' (evFinD' :: lg')) ([] ++ [finPA'])).
  { eapply drun_cons; [split; reflexivity|exact Hsm|reflexivity|constructor|exact D]. }
  destruct (round_LL fl0 s s' _ _ _ _ _ c1 c2 rnd scur dcur sdone ddone Hs nakL_ne ltac:(discriminate) (nfp c1 _ Hc1) (ff1 0) D'
              (TailM_busy _ _ _ _ _ _ _ _ _ _ _ _ _ HT'))
    as (c2' & rnd' & sc & dc & sd & dn & a0 & R & Ha0 & Q).
  close_round R Ha0 Q.
  do 6 eexists. eexists. split; [|split; [at_here|split; [exact (TailM_X _ _ _ _ _ _ _ _ _ _ _ _ _ HT')|split; assumption]]].
  pose proof (zlen_ge0 _ (mdPx :: tilesL (length data) 0)). lia.
Qed.

(* ---- immediate NAK mode: the first File Data PDU triggers a NAK PDU with the requests (0, 0) and (0, first tile) *)
Definition SI (y : sys) : Prop :=
  exists s c1, 0 < c1 /\ at0 s (WMx 0 [] (nxt' 0) []) [nakMx (nxt' 0)] c1 y /\ InvAx (nxt' 0) s.

Lemma round_fd_idle_imm : forall y, S0 y -> 0 < fsz -> r_imm_nak rd = true -> exists y', reach tick y y' /\ SI y'.
Proof.
  intros y (s & c2 & rnd & scur & sdone & -> & HI) Hpos Himm.
  destruct (step_fd_a cs p rs fss data cf seg clo (tidA cf) sn [x] Hnames Hlook Hseg Hm 0 s HI Hpos) as (s' & P & HI').
  change (fd_of (hdr_of cf TOWARDS_RECEIVER) (0, ztake seg (zdrop 0 data))) with (tileAt data cf seg 0) in P.
  rewrite tileq in P.
  pose proof (RC sm_fd_idle_imm Hrem 0 (tl' 0) (tpos 0 ltac:(lia)) Himm) as Hsm.
  rewrite (tlen 0 ltac:(lia)) in Hsm. replace (0 + (nxt' 0 - 0)) with (nxt' 0) in Hsm by lia.
  assert (G : dguard (tileP' 0) (dst_init cd) []) by (split; reflexivity).
  destruct (round_n1 fl0 s s' _ _ _ _ _ 1 c2 rnd scur None sdone [] P (tonw 0 ltac:(lia)) (ff_none 0 1 ltac:(lia)) (ff1 0) G Hsm eq_refl
              (Forall_cons (nakMx (nxt' 0)) eq_refl (Forall_nil _)) (InvAx_busy _ _ HI'))
    as (c2' & rnd' & sc & dc & sd & dn & a0 & R & Ha0 & Q).
  close_round R Ha0 Q.
  exists s', (1 + 1). split; [lia|]. split; [at_here|exact HI'].
Qed.

Local Notation SResx := (SRes cs cd p rs rd x data cf seg clo fss 0) (only parsing).

Lemma InvRx_busy : forall off s, InvRx off s -> s_state s = ST_BUSY.
Proof. intros off s [H _]. apply InvA_busy in H. destruct s. exact H. Qed.

(* -- more File Data follows: Metadata PDU and first tile arrive between two tiles of the stream *)
Lemma round_nak_ia : forall y, SI y -> nxt' 0 < fsz -> exists y', reach tick y y' /\ SResx (nxt' 0) y'.
Proof.
  intros y (s & c1 & Hc1 & (c2 & rnd & scur & dcur & sdone & ddone & ->) & HI) Hlt.
  set (t1 := nxt' 0) in *.
  assert (Hpos : 0 < fsz) by (pose proof (InvAx_rng _ _ HI); lia).
  assert (Ht1 : 0 < t1) by (pose proof (nle 0 ltac:(lia)); unfold t1; lia).
  destruct (step_nak_md_mid cs p rs fss data cf seg clo (tidA cf) sn [x] Hnames Hmsgs Hlook Hsn Hseg Hm Hsrc Hdstr t1 s 0 t1 t1
              HI Hlt eq_refl ltac:(lia)) as (s' & P & HI').
  rewrite (hdr_eq_b cd cf Hm Hdst), md_eq, tileq in P.
  pose proof (RA sm_md_wm Hrem sn t1 []) as Hsm1.
  pose proof (RA sm_fd_fill_recv Hrem 0 t1 (tl' 0) (fs0 x) [evMdx] [] (look0 x) (tpos 0 ltac:(lia))) as Hsm2.
  rewrite (tlen 0 ltac:(lia)) in Hsm2. replace (0 + (nxt' 0 - 0)) with t1 in Hsm2 by (unfold t1; lia).
  specialize (Hsm2 ltac:(lia)). rewrite Z.max_l in Hsm2 by lia.
  assert (B1 : dbusy mdPx (WMx 0 [] t1 [])) by (split; reflexivity).
  assert (B2 : dbusy (tileP' 0) (DRx t1 [(0, t1)] t1 t1 (fs0 x) [evMdx])) by (split; reflexivity).
  destruct (round_12 fl0 s s' _ mdPx (tileP' 0) _ _ _ _ _ _ _ c1 c2 rnd scur dcur sdone ddone
              (InvAx_busy _ _ HI) P eq_refl (tonw 0 ltac:(lia)) (nfp c1 2 Hc1) (ff1 0)
              B1 Hsm1 eq_refl (Forall_nil _) B2 Hsm2 eq_refl (Forall_nil _) (InvRx_busy _ _ HI'))
    as (c1' & c2' & rnd' & sc & dc & sd & dn & a0 & R & Ha0 & Hc1' & Q).
  close_round R Ha0 Q.
  do 4 eexists. exists c1'. split; [lia|]. split; [at_here|]. split; [exact HI'|]. split.
  - rewrite (look_set x). f_equal. f_equal. exact (write_append data seg 0 Hseg ltac:(lia)).
  - apply (clean_seg cd). apply clean_cons; [reflexivity|reflexivity|apply clean_nil].
Qed.

(* -- a file of one tile: EOF PDU, Metadata PDU and the tile arrive together; the deferred procedure asks once more *)
Lemma tilesL_one : nxt' 0 = fsz -> 0 < fsz -> tilesL (length data) 0 = [tileP' 0].
Proof.
  intros H1 H2. destruct (length data) as [|k] eqn:E; [unfold zlen in H2; lia|].
  cbn [tilesL]. replace (0 <? fsz) with true by (symmetry; apply Z.ltb_lt; lia). rewrite H1, tilesL_end. reflexivity.
Qed.

Definition SIb2 (y : sys) : Prop :=
  exists s fs lg c1, 0 < c1 /\
    at0 s (DWXx 0 [] cks fsz fsz ptN fs (evFinD' :: lg)) (ackEA' :: nakLx ++ [finPA']) c1 y /\
    TailMx SS_RETRANSMITTING (Some SS_WAITING_FOR_EOF_ACK) None s /\
    lookup fs [x] = Some (File data) /\ clean lg.

Lemma round_nak_ib : forall y, SI y -> nxt' 0 = fsz -> 0 < fsz -> exists y', reach tick y y' /\ SIb2 y'.
Proof.
  intros y (s & c1 & Hc1 & (c2 & rnd & scur & dcur & sdone & ddone & ->) & HI) Hlast Hpos.
  rewrite Hlast in *.
  assert (Hst : s_step s = SS_SENDING_FILE_DATA).
  { destruct HI as [HI _]. destruct HI as (_&_&_&_&_&_&_&_&_&_&_&_&_&_&H15&_). destruct H15 as [[_ ?]|?]; [lia|assumption]. }
  assert (Hone : fsz <= seg) by (unfold nxt in Hlast; lia).
  destruct (step_nak_md_eof cs p rs fss data cks cf seg clo (tidA cf) sn [x] Hnames Hmsgs Hlook Hsn Hseg Hm Hck Hsrc Hdstr s 0 fsz
              HI Hst Hpos Hone) as (s' & P & HT).
  rewrite (hdr_eq_b cd cf Hm Hdst), md_eq, tileq, eofq in P.
  rewrite <- (tilesL_one Hlast Hpos) in P.
  assert (Hs : srun s [nakMx fsz] s' ((eofX' :: mdPx :: tilesL (length data) 0) ++ [])).
  { eapply srun_cons; [exact (InvAx_busy _ _ HI)|exact P| |apply srun_nil].
    constructor; [reflexivity|]. constructor; [reflexivity|]. apply tilesL_onw. lia. }
  rewrite app_nil_r in Hs.
  pose proof (RC sm_eof_wm fsz Hrem cks None fsz [] Hpos) as Hsm1.
  pose proof (RA sm_md_we Hrem Hnakd maxn Hmax sn cks fsz (lgEx [])) as Hsm2.
  destruct (drun_tiles (length data) 0 (fs0 x) (evMdx :: lgEx []) ltac:(lia) (le_n _) (look0 x)
              ltac:(apply clean_cons; [reflexivity|reflexivity|apply clean_lgE, clean_nil])) as (fs' & lg' & D & Hl' & Hc').
  assert (D' : drun (WMx 0 [] fsz []) (eofX' :: mdPx :: tilesL (length data) 0)
                 (DWXx 0 [] cks fsz fsz ptN fs' (evFinD' :: lg')) ([ackEA'] ++ (nakLx ++ [finPA']))).
  { eapply drun_cons; [split; reflexivity|exact Hsm1|reflexivity|repeat constructor|].
    eapply drun_cons; [split; reflexivity|exact Hsm2|apply drain_DM|exact nakL_onw|exact D]. }
  destruct (round_LL fl0 s s' _ _ _ _ _ c1 c2 rnd scur dcur sdone ddone Hs ltac:(discriminate) ltac:(discriminate)
              (nfp c1 _ Hc1) (ff1 0) D' (TailM_busy _ _ _ _ _ _ _ _ _ _ _ _ _ HT))
    as (c2' & rnd' & sc & dc & sd & dn & a0 & R & Ha0 & Q).
  close_round R Ha0 Q.
  do 3 eexists. eexists. split; [|split; [at_here|split; [exact HT|split; assumption]]].
  pose proof (zlen_ge0 _ (eofX' :: mdPx :: tilesL (length data) 0)). lia.
Qed.

Lemma srun_app : forall s q1 s1 p1, srun s q1 s1 p1 -> forall q2 s2 p2, srun s1 q2 s2 p2 -> srun s (q1 ++ q2) s2 (p1 ++ p2).
Proof.
  intros s q1 s1 p1 H. induction H as [s | s pk s1 ps1 rest s2 ps2 Hb P Ho Hr IH]; intros q2 s3 p2 H2; [exact H2|].
  cbn [app]. rewrite <- app_assoc. eapply srun_cons; [exact Hb|exact P|exact Ho|]. apply IH. exact H2.
Qed.
Lemma drun_app : forall d q1 d1 o1, drun d q1 d1 o1 -> forall q2 d2 o2, drun d1 q2 d2 o2 -> drun d (q1 ++ q2) d2 (o1 ++ o2).
Proof.
  intros d q1 d1 o1 H. induction H as [d | d pd dd1 d' outs1 rest d'' outs2 B Hd Hdr Ho Hr IH]; intros q2 d2 o2 H2; [exact H2|].
  cbn [app]. rewrite <- app_assoc. eapply drun_cons; [exact B|exact Hd|exact Hdr|exact Ho|]. apply IH. exact H2.
Qed.

(* PDUs retransmitted for the second request meet a receiver that has everything *)
Definition ignorable (pd : pdu) : Prop := (exists sn', pd =
  mdP cd x (sc_crc cf) (sc_large cf) clo (sc_src cf) (sc_srcw cf) (sc_seq cf) (sc_seqw cf) (r_cktype rs) (zlen data) sn') \/
  (exists o dt, pd = PFileData hRA' o dt).

Lemma drun_ignore : forall pds ck ls le pt fs lg, Forall ignorable pds ->
  drun (DWXx 0 [] ck ls le pt fs lg) pds (DWXx 0 [] ck ls le pt fs lg) [].
Proof.
  induction pds as [|pd pds IH]; intros ck ls le pt fs lg H; [apply drun_nil|].
  inversion H as [|? ? H1 H2]; subst.
  change (@nil pdu) with (@nil pdu ++ []).
  eapply drun_cons; [|exact (RA sm_dwx_ignore Hrem Hackd pd ck ls le pt fs lg H1)|reflexivity|constructor|apply IH; exact H2].
  destruct H1 as [(sn' & ->)|(o & dt & ->)]; split; reflexivity.
Qed.

Lemma round_ib2 : forall y, SIb2 y -> 0 < fsz -> exists y', reach tick y y' /\ S3Fx y'.
Proof.
  intros y (s & fs & lg & c1 & Hc1 & (c2 & rnd & scur & dcur & sdone & ddone & ->) & HT & Hl & Hc) Hpos.
  destruct (step_ack_retx_m cs p rs fss data cf seg clo (tidA cf) Hm Hsrc Hdstr s C_NO_ERROR TS_ACTIVE HT) as (s1 & P1 & HT1).
  rewrite (hdr_eq_b cd cf Hm Hdst) in P1. fold ackEA' in P1.
  destruct (srun_nakL s1 _ HT1 Hpos) as (s2 & Hs2 & HT2).
  destruct (step_fin_retx cs p rs fss data cf seg (tidA cf) Hm Hsrc Hdstr s2 FS_RETAINED (TailM_X _ _ _ _ _ _ _ _ _ _ _ _ _ HT2))
    as (s' & P3 & HT').
  rewrite (hdr_eq_b cd cf Hm Hdst), (hdr_eq_a cd cf Hm Hdst) in P3. fold finPA' in P3. fold ackF' in P3.
  assert (Hs : srun s ([ackEA'] ++ (nakLx ++ [finPA'])) s' ([] ++ ((mdPx :: tilesL (length data) 0) ++ ([ackF'] ++ [])))).
  { apply (srun_app s [ackEA'] s1 []).
    - change (@nil pdu) with (@nil pdu ++ []).
      eapply srun_cons; [exact (TailM_busy _ _ _ _ _ _ _ _ _ _ _ _ _ HT)|exact P1|constructor|apply srun_nil].
    - apply (srun_app s1 nakLx s2 _ Hs2).
      eapply srun_cons; [exact (TailM_busy _ _ _ _ _ _ _ _ _ _ _ _ _ HT2)|exact P3|repeat constructor|apply srun_nil]. }
  cbn [app] in Hs.
  pose proof (RA sm_ack_fin_x Hrem C_NO_ERROR TS_ACTIVE cks fsz fsz ptN fs (evFinD' :: lg)) as Hsm.
  assert (D : drun (DWXx 0 [] cks fsz fsz ptN fs (evFinD' :: lg)) ((mdPx :: tilesL (length data) 0) ++ [ackF'])
                (DFA cd cf fs (evFinD' :: lg)) ([] ++ ([] ++ []))).
  { apply (drun_app _ _ (DWXx 0 [] cks fsz fsz ptN fs (evFinD' :: lg)) []).
    - apply drun_ignore. constructor; [left; eexists; reflexivity|].
      eapply Forall_impl; [|apply tilesL_fd]. intros a (o & dt & ->). right. repeat eexists.
    - eapply drun_cons; [split; reflexivity|exact Hsm|reflexivity|constructor|apply drun_nil]. }
  destruct (round_LL fl0 s s' _ _ _ _ _ c1 c2 rnd scur dcur sdone ddone Hs ltac:(discriminate) ltac:(discriminate)
              (nfp c1 _ Hc1) (ff1 0) D (Tail_busy _ _ _ _ _ _ _ HT'))
    as (c2' & rnd' & sc & dc & sd & dn & a0 & R & Ha0 & Q).
  close_round R Ha0 Q.
  do 4 eexists. split; [at_here|]. split; [exact HT'|]. split; assumption.
Qed.

(* ---- the whole run *)
Lemma fin_SWx : forall y, SWx y -> fin_ok0 y.
Proof. exact (fin_SW cs cd p rs rd x data cks cf seg tick clo fss 0 Hm Hfins Hrem Hdst Hsrc Hdstr). Qed.

Lemma main_m : forall s1 s3,
  pump s1 = (s3, Ok [PMetadata (hdr_of cf TOWARDS_RECEIVER) clo (r_cktype rs) fsz (Some (sn, [x])) []]) ->
  InvAx 0 s3 ->
  fin_ok0 (ZF fl0 s1 (dst_init cd) [] [] 0 0 0 None None [] []).
Proof.
  intros s1 s3 P HI.
  destruct (round_md_drop s1 s3 P HI) as (y1 & R1 & H1). apply (fin_reach cd x data cf tick 0 _ y1 R1).
  assert (Hlen : 0 <= fsz) by (unfold zlen; lia).
  destruct (Z.eq_dec fsz 0) as [Hz|Hnz].
  - (* an empty file, either NAK mode *)
    destruct (round_eof_idle y1 H1 Hz) as (y2 & R2 & H2). apply (fin_reach cd x data cf tick 0 _ y2 R2).
    destruct (round_ack_e0 0 y2 H2) as (y3 & R3 & H3). apply (fin_reach cd x data cf tick 0 _ y3 R3).
    destruct (round_nak_e y3 H3 Hz) as (y4 & R4 & H4). apply (fin_reach cd x data cf tick 0 _ y4 R4).
    apply fin_SWx. exact H4.
  - assert (Hpos : 0 < fsz) by lia.
    pose proof (nle 0 ltac:(lia)) as Hn0.
    destruct (r_imm_nak rd) eqn:Himm.
    + destruct (round_fd_idle_imm y1 H1 Hpos Himm) as (y2 & R2 & H2). apply (fin_reach cd x data cf tick 0 _ y2 R2).
      destruct (Z.eq_dec (nxt' 0) fsz) as [Hone|Hmore].
      * (* one tile *)
        destruct (round_nak_ib y2 H2 Hone Hpos) as (y3 & R3 & H3). apply (fin_reach cd x data cf tick 0 _ y3 R3).
        destruct (round_ib2 y3 H3 Hpos) as (y4 & R4 & H4). apply (fin_reach cd x data cf tick 0 _ y4 R4).
        exact (fin_S3F cs cd p rs x data cf tick 0 Hfins y4 H4).
      * (* several tiles: from the second tile on, a perfect link *)
        destruct (round_nak_ia y2 H2 ltac:(lia)) as (y3 & R3 & H3). apply (fin_reach cd x data cf tick 0 _ y3 R3).
        destruct (round_resume cs cd p rs rd sn x data cf seg tick clo fss 0 Hnames Hlook Hseg Hm Hrem Hdst (nxt' 0) y3 H3 ltac:(lia))
          as (y4 & c1 & R4 & Hc1 & H4).
        apply (fin_reach cd x data cf tick 0 _ y4 R4).
        exact (run_rest_f cs cd p rs rd sn x data cks cf seg tick clo fss 0 Hnames Hlook Hseg Hm Hck Hck2 Hfins Hfind Hrem Hdst
                 Hacks Hackd Hsrc Hdstr _ _ c1 y4 H4 Hc1 (le_n _)).
    + (* deferred NAK mode *)
      destruct (round_fd_idle_def y1 H1 Hpos Himm) as (y2 & R2 & H2). apply (fin_reach cd x data cf tick 0 _ y2 R2).
      destruct (run_fd_d _ (nxt' 0) y2 H2 ltac:(lia) (le_n _) Himm) as (y3 & R3 & H3). apply (fin_reach cd x data cf tick 0 _ y3 R3).
      destruct (round_eof_d y3 H3 Hpos) as (y4 & R4 & H4). apply (fin_reach cd x data cf tick 0 _ y4 R4).
      destruct (round_ack_e1 fsz y4 H4) as (y5 & R5 & H5). apply (fin_reach cd x data cf tick 0 _ y5 R5).
      destruct (round_nak_d y5 H5 Hpos) as (y6 & R6 & H6). apply (fin_reach cd x data cf tick 0 _ y6 R6).
      apply fin_SWx. exact H6.
Qed.
End SysM.

(* ================================================================== *)
(* 5. property C03, K = 1, the Metadata PDU                            *)
(* ================================================================== *)
Lemma metadata_loss :
  forall (cs cd : lcfg) (seq0 bits : Z) (p : putreq) (rs rd : rcfg) (sn dn : path) (data : bytes) (tick : Z),
  let w := Z.max (l_idw cs) (pr_dstw p) in
  let large := 4294967295 <? zlen data in
  let derived := r_max_packet rs - (4 + 2 * w + bits / 8) - (if large then 8 else 4) - (if r_crc rs then 2 else 0) in
  let seg := match r_max_seg rs with Some m => Z.min m derived | None => derived end in
  get_remote (l_remotes cs) (pr_dst p) = Some rs ->
  pr_names p = Some (sn, dn) -> sn <> [] -> dn <> [] -> pr_msgs p = None ->
  (match pr_mode p with Some m => m | None => r_mode rs end) = ACKED ->
  2 <= r_ack_limit rs -> 2 <= r_ack_limit rd -> 2 <= r_nak_limit rd -> 0 < tick -> 0 < r_nak_ms rd ->
  4 + 2 * w + bits / 8 + 1 + (if r_crc rs then 2 else 0) + 2 * (if large then 8 else 4) <= r_max_packet rd ->
  0 < r_ack_ms rs -> 0 < r_ack_ms rd ->
  (bits = 8 \/ bits = 16 \/ bits = 32) -> 0 <= seq0 < 2 ^ bits -> 1 <= seg -> 6 <= derived ->
  (r_cktype rs = CK_CRC32 \/ r_cktype rs = CK_CRC32C \/ r_cktype rs = CK_NULL \/ r_cktype rs = CK_MODULAR) ->
  bytes_ok data = true ->
  l_id cd = pr_dst p -> get_remote (l_remotes cd) (l_id cs) = Some rd -> length dn = 1%nat ->
  get_fault_handler (l_faults cd) C_CHECKSUM_FAILURE <> None ->
  l_ind_fin cs = true -> l_ind_fin cd = true ->
  exists fuel,
    let res := transfer cs cd seq0 bits p sn data [mkFault 0 0 0 0] fuel tick in
    delivered_ok dn data res = true /\ y_errs (fst res) = [].
Proof.
  intros cs cd seq0 bits p rs rd sn dn data tick w large derived seg
         Hrs Hn Hsn Hdn Hmsgs Hmode Hls Hld Hnl Htick Hnak Hmp Hacks Hackd Hbits Hseq Hseg Hd6 Hck Hbytes Hid Hrd Hlen
         Hfh Hfs Hfd.
  destruct dn as [|x [|x' dn']]; try discriminate Hlen.
  set (fss := [(sn, File data)]).
  assert (Hlook : lookup fss sn = Some (File data)).
  { destruct sn as [|a sn']; [contradiction|]. unfold fss. cbn [lookup lookup_raw].
    rewrite path_eqb_refl. reflexivity. }
  destruct (ck_agree (r_cktype rs) data seg Hck Hseg) as (cks & C1 & C2).
  set (cf := mkSconf (l_id cs) w (pr_dst p) w seq0 (bits / 8) ACKED large (r_crc rs)).
  set (clo := match pr_closure p with Some b => b | None => r_closure rs end).
  destruct (first_call_a cs seq0 bits fss p rs sn [x] data Hrs Hn Hlook Hmode Hbits Hseq Hseg Hd6)
    as (s1 & s3 & P1 & P2 & HI).
  rewrite Hmsgs in P2.
  assert (Hdst : sc_dst cf = l_id cd) by (symmetry; exact Hid).
  assert (Hdstr : sc_dst cf = r_id rs) by (symmetry; exact (get_remote_id _ _ _ Hrs)).
  assert (Hmax : exists maxn, max_seg_reqs (r_max_packet rd) (hRB cd cf) = Some maxn).
  { unfold max_seg_reqs, hRB, hB, hdr_len, crc_len, fss_len, cf. cbn [h_idw h_seqw h_crc h_large sc_crc sc_large sc_srcw sc_seqw].
    match goal with |- exists _, (if ?c then _ else _) = _ => replace c with false end; [eexists; reflexivity|].
    symmetry. apply Z.ltb_ge. fold w large. lia. }
  destruct Hmax as (maxn & Hmax).
  destruct (main_m cs cd p rs rd sn x data cks cf seg tick clo fss maxn Hn Hmsgs Hlook Hsn Hseg eq_refl C1 C2 Hfs Hfd Hrd
              Hdst Hacks Hackd Hnak eq_refl Hdstr Hmax s1 s3 P2 HI) as (fuel & y' & Rr & F).
  exists fuel.
  assert (Et : transfer cs cd seq0 bits p sn data [mkFault 0 0 0 0] fuel tick = (y', true)).
  { unfold transfer, sys_init. cbn [y_src]. fold fss. rewrite P1. exact Rr. }
  cbv zeta. rewrite Et. cbn [fst].
  exact (final_verdict_f cd x data cf 0 y' F).
Qed.

(* the statement needs the hypothesis on the receiver's maximum packet length for the sender, as for a lost File Data
   PDU: with 18 bytes (two-byte ids and sequence numbers, no CRC, small file: the fixed part of a NAK PDU has 19) the
   deferred lost-segment procedure, which has to ask for the Metadata PDU, raises ValueError in every call after the
   ACK(EOF) was retrieved; whatever the number of rounds, the run is not accepted *)
Example max_packet_counterexample :
  let rs := mkRcfg 2 2 (Some 4) 64 false false ACKED CK_CRC32 1000 2 2 false false 1000 2 in
  let rd := mkRcfg 1 2 (Some 4) 18 false false ACKED CK_CRC32 1000 2 2 false false 1000 2 in
  let cs := mkLcfg 1 2 true true true true default_fault_table 1000 [rs] in
  let cd := mkLcfg 2 2 true true true true default_fault_table 1000 [rd] in
  let data := map (fun i => (7 * Z.of_nat i + 3) mod 256) (seq 0 12) in
  let res fuel := transfer cs cd 0 16 (mkPut 2 2 None None (Some ([1], [2])) None) [1] data [mkFault 0 0 0 0] fuel 1000 in
  forallb (fun fuel => negb (delivered_ok [2] data (res fuel) && match y_errs (fst (res fuel)) with [] => true | _ => false end))
          (seq 0 64) = true /\
  hd (0, 0) (y_errs (fst (res 64%nat))) = (1, E_VALUE).
Proof. vm_compute. split; reflexivity. Qed.
